(* C09 — threshold shares always match the dealer's public commitments (Feldman check). *)
From Coq Require Import ZArith Znumtheory List.
From Strand Require Import Base.ZUtil Base.Poly Model.Outcome Model.Backend Model.ZBackend Model.Zkp Model.Keymaker
  Model.Exec Proofs.Laws Proofs.ZLaws Proofs.ZInst Proofs.ThresholdP
  Base.ZpField Base.Edwards Model.Ristretto Model.RistrettoFast Model.RBackend Proofs.RistrettoGroup Proofs.EdwardsBackend.
Import ListNotations.
Open Scope Z_scope.

(* for EVERY threshold t >= 1, receiver index j >= 0 and coefficient vector (any length, any non-negative
   values incl. 0 and q-1) — no bound on the number of trustees: g^share = product of commitment_i^((j+1)^i) *)
Theorem C09_feldman_consistent : forall K fl P, GoodParams P ->
  forall j t coeffs s, 0 <= j -> (1 <= t)%nat -> coeffs <> [] -> Forall (fun c => 0 <= c) coeffs ->
  compute_peer_share (ZB K fl P) j t coeffs = Ok s ->
  b_gpow (ZB K fl P) s = verification_key_factor (ZB K fl P) (map (b_gpow (ZB K fl P)) coeffs) t j.
Proof. exact feldman_consistent_ZB. Qed.
Print Assumptions C09_feldman_consistent.

(* the share is the dealer polynomial evaluated at j+1, reduced mod q *)
Theorem C09_share_is_polynomial_value : forall K fl P, GoodParams P ->
  forall x t coeffs, 0 <= x -> (1 <= t)%nat -> coeffs <> [] -> Forall (fun c => 0 <= c) coeffs ->
  exists s, eval_poly (ZB K fl P) x t coeffs = Ok s /\ 0 <= s < p_q P /\ s mod p_q P = peval (firstn t coeffs) x mod p_q P.
Proof. exact eval_poly_spec_ZB. Qed.
Print Assumptions C09_share_is_polynomial_value.

(* a share altered by any amount that is non-zero mod q fails the comparison *)
Theorem C09_tamper_detected : forall K fl P, SafePrime P ->
  forall s d, 0 <= s -> 0 <= d -> d mod p_q P <> 0 -> b_gpow (ZB K fl P) (s + d) <> b_gpow (ZB K fl P) s.
Proof. exact feldman_detects_tamper_ZB. Qed.
Print Assumptions C09_tamper_detected.

(* the same for any lawful backend (ristretto under the group-law hypothesis) *)
Check feldman_consistent.
Print Assumptions feldman_consistent.

Example C09_nonvacuous :
  let B := ZB K_ref Bigint (mkP 2039) in
  exists s, compute_peer_share B 16 17 (map Z.of_nat (seq 1 17)) = Ok s /\
            b_gpow B s = verification_key_factor B (map (b_gpow B) (map Z.of_nat (seq 1 17))) 17 16.
Proof. eexists. split; vm_compute; reflexivity. Qed.

(* the curve25519 Edwards group with the ristretto scalar ring: Feldman consistency without hypotheses *)
Theorem C09_edwards_group : forall (K : Kernel) j t coeffs s, 0 <= j -> (1 <= t)%nat -> coeffs <> [] ->
  Forall (fun c => 0 <= c) coeffs ->
  compute_peer_share (AB K) j t coeffs = Ok s ->
  b_gpow (AB K) s = verification_key_factor (AB K) (map (b_gpow (AB K)) coeffs) t j.
Proof. intro K. exact (feldman_consistent (AB K) memA (AB_laws K) (AB_from_u64_ok K)). Qed.
Print Assumptions C09_edwards_group.
