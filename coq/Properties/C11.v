(* C11 — only genuine subgroup elements and canonical exponents decode from bytes.
   VAL w rd := forall bs a r, bytes_ok bs -> rd bs = Ok (a, r) -> w a /\ bytes_ok r. *)
From Coq Require Import ZArith List.
From Strand Require Import Base.ZUtil Model.Outcome Model.Codec Model.Backend Model.ZBackend Model.Zkp Model.Wire
  Proofs.ZLaws Proofs.ZInst Proofs.CodecP Proofs.WireP.
From Strand Require Import Model.Ristretto Model.RBackend Proofs.RistrettoWireP.
Import ListNotations.
Open Scope Z_scope.

(* exact acceptance sets of the primitive decoders, both byte orders *)
Theorem C11_element_acceptance : forall K fl P, 1 < p_p P -> forall bs v,
  element_from_bytes K fl P bs = Ok v <->
  v = int_of_bytes fl bs /\ 1 <= v < p_p P /\ v ^ p_q P mod p_p P = 1.
Proof. exact element_from_bytes_spec. Qed.
Print Assumptions C11_element_acceptance.

Theorem C11_exponent_acceptance : forall fl P bs v,
  exp_from_bytes fl P bs = Ok v <-> v = int_of_bytes fl bs /\ v < p_q P.
Proof. exact exp_from_bytes_spec. Qed.
Print Assumptions C11_exponent_acceptance.

(* ... and for a safe-prime group that acceptance set is exactly the set of non-zero quadratic residues, i.e. the
   prime-order subgroup: nothing outside it decodes and every element of it does (when presented as its integer) *)
Theorem C11_members_are_the_quadratic_residues : forall P, SafePrime P -> forall a,
  member P a <-> (1 <= a < p_p P /\ exists e, 0 < e < p_p P /\ (e ^ 2) mod p_p P = a).
Proof. exact member_iff_quadratic_residue. Qed.
Print Assumptions C11_members_are_the_quadratic_residues.

(* every composite decodes only if each embedded element is a member and each exponent canonical *)
Theorem C11_composites : forall K fl P, 1 < p_p P ->
  VAL (vE P) (rd_E K fl P) /\ VAL (vX P) (rd_X fl P) /\ VAL (v_ct K fl P) (rd_ct K fl P) /\
  VAL (vE P) (rd_pk K fl P) /\ VAL (v_sk P) (rd_sk K fl P) /\
  VAL (v_schnorr K fl P) (rd_schnorr K fl P) /\ VAL (v_cp K fl P) (rd_cp K fl P) /\
  VAL (Forall (vE P)) (rd_vecE K fl P) /\ VAL (Forall (vX P)) (rd_vecX fl P) /\
  VAL (Forall (v_ct K fl P)) (rd_vecC K fl P) /\ VAL (Forall (v_cp K fl P)) (rd_vecCP K fl P) /\
  VAL (w_proof P) (rd_proof K fl P).
Proof.
  intros K fl P Hp.
  repeat apply conj; eauto using val_E, val_X, val_ct, val_pk, val_sk, val_schnorr, val_cp, val_vecE, val_vecX,
    val_vecC, val_vecCP, val_proof.
Qed.
Print Assumptions C11_composites.

Theorem C11_decoded_shuffle_proof : forall K fl P, 1 < p_p P -> forall bs w,
  de_proof K fl P bs = Ok w -> bytes_ok bs ->
  member P (sp_t1 w) /\ member P (sp_t2 w) /\ member P (sp_t3 w) /\ member P (sp_t41 w) /\ member P (sp_t42 w) /\
  Forall (member P) (sp_t_hats w) /\ Forall (member P) (sp_cs w) /\ Forall (member P) (sp_c_hats w) /\
  0 <= sp_s1 w < p_q P /\ 0 <= sp_s2 w < p_q P /\ 0 <= sp_s3 w < p_q P /\ 0 <= sp_s4 w < p_q P /\
  Forall (fun x => 0 <= x < p_q P) (sp_s_hats w) /\ Forall (fun x => 0 <= x < p_q P) (sp_s_primes w).
Proof. exact decoded_proof_wf. Qed.
Print Assumptions C11_decoded_shuffle_proof.

(* ristretto: a byte string decodes as an exponent iff it is the 32-byte little-endian encoding of an integer below
   the group order; strings of any other length decode neither as exponent nor as element; non-canonical field
   encodings (>= 2^255-19, hence any set top bit) and negative (odd) values are refused as elements before the
   curve equation is consulted. (That the remaining 32-byte strings decode iff they are ristretto encodings is
   RFC 9496 DECODE, executed by the model and tied to curve25519-dalek, not proved.) *)
Theorem C11_ristretto_exponent_acceptance : forall bs v,
  r_exp_from_bytes bs = Ok v <-> (length bs = 32%nat /\ v = le_int bs /\ v < ell).
Proof. exact r_exp_acceptance. Qed.
Print Assumptions C11_ristretto_exponent_acceptance.

Theorem C11_ristretto_length_and_canonicity : forall K bs,
  (length bs <> 32%nat -> r_exp_from_bytes bs = Err /\ r_element_from_bytes K bs = Err) /\
  (length bs = 32%nat -> (le_int bs >= fp \/ Z.odd (le_int bs) = true) -> r_element_from_bytes K bs = Err).
Proof. intros K bs. split; [exact (r_wrong_length_refused K bs)|exact (r_element_precheck K bs)]. Qed.
Print Assumptions C11_ristretto_length_and_canonicity.

(* ristretto: every byte string the backend accepts as a group element denotes a point of the curve — a valid extended
   point (Z = 1, T = X Y, -x^2 + y^2 = 1 + d x^2 y^2), for every kernel and every byte string. (The length / canonical /
   non-negative pre-checks are the statements above; that the accepted encoding is the unique canonical one of its coset
   is executed against curve25519-dalek, not proved.) *)
From Strand Require Import Base.ZpField Base.Edwards Model.RBackend Proofs.RistrettoGroup Proofs.RistrettoDecode.
Theorem C11_ristretto_accepted_elements_are_curve_points : forall (K : Kernel) bs P,
  r_element_from_bytes K bs = Ok P -> valid P.
Proof. exact r_element_from_bytes_valid. Qed.
Print Assumptions C11_ristretto_accepted_elements_are_curve_points.

(* ... and the accepted string is THE canonical encoding of that point: ENCODE (DECODE bs) = bs (RFC 9496), so decoding is
   injective and an accepted element re-serialises to exactly the bytes it came from. [bytes_ok]: every list entry is a
   byte. Proofs/RistrettoCanon.v — rests on the proved completeness of SQRT_RATIO_M1 (Proofs/SqrtRatio.v). *)
From Strand Require Import Proofs.CodecP Proofs.SqrtRatio Proofs.RistrettoCanon.
Theorem C11_ristretto_accepted_encoding_is_canonical : forall (K : Kernel) bs P, bytes_ok bs ->
  r_element_from_bytes K bs = Ok P -> compress K P = bs.
Proof. exact r_element_bytes_canonical. Qed.
Print Assumptions C11_ristretto_accepted_encoding_is_canonical.

Theorem C11_ristretto_decoding_injective : forall (K : Kernel) bs1 bs2 P, bytes_ok bs1 -> bytes_ok bs2 ->
  decompress K bs1 = Some P -> decompress K bs2 = Some P -> bs1 = bs2.
Proof. exact decompress_injective. Qed.
Print Assumptions C11_ristretto_decoding_injective.

(* non-vacuity: a concrete byte string is accepted (32 zero bytes: the neutral element) *)
Example C11_ristretto_nonvacuous : exists P, r_element_from_bytes K_ref (repeat 0 32) = Ok P.
Proof. eexists. vm_compute. reflexivity. Qed.
