(* C18 — secret randomness is in-domain and fresh; the mix permutation is uniform.
   Statistics are replaced by exact statements about the samplers as functions of their byte stream
   (Model/Rng.v models num-bigint's gen_biguint_below and rand 0.8's u32 gen_range / shuffle byte for byte).
   That the OS stream is unpredictable and independent is NOT shown. *)
From Coq Require Import ZArith List.
From Strand Require Import Base.ZUtil Model.Outcome Model.Codec Model.ZBackend Model.Rng Model.Exec
  Proofs.ZLaws Proofs.ZInst Proofs.CodecP Proofs.ListAlg Proofs.RngP Proofs.RngUniform.
From Strand Require Import Model.Ristretto Model.RBackend Proofs.RistrettoWireP.
Import ListNotations.
Open Scope Z_scope.

(* in-domain for EVERY byte stream *)
Theorem C18_exponent_in_range : forall P s v rest, bytes_ok s -> rnd_exp_bigint P s = Ok (v, rest) -> 0 <= v < p_q P.
Proof. exact rnd_exp_in_range. Qed.
Print Assumptions C18_exponent_in_range.

Theorem C18_plaintext_in_space : forall P s v rest, bytes_ok s -> rnd_plaintext_bigint P s = Ok (v, rest) -> 0 <= v < p_q P - 1.
Proof. exact rnd_plaintext_in_space. Qed.
Print Assumptions C18_plaintext_in_space.

Theorem C18_random_element_valid_no_panic : forall K P, SafePrime P ->
  (forall s, bytes_ok s -> rnd_bigint K P s <> Panic) /\
  (forall s e rest, bytes_ok s -> rnd_bigint K P s = Ok (e, rest) -> member P e).
Proof. intros K P S. split; [exact (rnd_bigint_no_panic K P S) | exact (rnd_bigint_member K P S)]. Qed.
Print Assumptions C18_random_element_valid_no_panic.

(* the full range is spanned: every value below the bound is produced by some stream *)
Theorem C18_full_range_reachable : forall bound v rest, 0 <= v < bound -> bytes_ok rest ->
  exists s, bytes_ok s /\ gen_below RNG_FUEL bound (s ++ rest) = Ok (v, rest).
Proof. exact gen_below_onto. Qed.
Print Assumptions C18_full_range_reachable.

(* uniform: one attempt's value and its discarded bits determine the consumed bytes and range over a full product *)
Theorem C18_attempt_uniform : forall bits s v rest, 0 < bits -> bytes_ok s -> gen_biguint bits s = Ok (v, rest) ->
  let len := (bits + 31) / 32 in let rem := bits mod 32 in
  exists d, 0 <= d < 2 ^ (if rem =? 0 then 0 else 32 - rem) /\
    le_int (firstn (Z.to_nat (4 * len)) s) =
      (if rem =? 0 then v else v mod 2 ^ (32 * (len - 1)) + 2 ^ (32 * (len - 1)) * (d + 2 ^ (32 - rem) * (v / 2 ^ (32 * (len - 1))))).
Proof. exact gen_biguint_decomposition. Qed.
Print Assumptions C18_attempt_uniform.

(* freshness as stream linearity: every draw consumes a non-empty, new piece of the stream (no position is read twice) *)
Theorem C18_stream_moves_forward : forall fuel bound s v rest, gen_below fuel bound s = Ok (v, rest) ->
  exists used, s = used ++ rest /\ (length used > 0)%nat.
Proof. exact gen_below_suffix. Qed.
Print Assumptions C18_stream_moves_forward.

(* the permutation: Fisher-Yates on the index draws; the map draws -> permutation is injective, so uniform index
   draws (j_i uniform on 0..i) make all n! permutations equally likely *)
Theorem C18_permutation_is_fisher_yates : forall n s l rest, bytes_ok s -> gen_permutation n s = Ok (l, rest) ->
  exists js, length js = pred n /\ draws_ok (pred n) js /\ l = fy (pred n) (iota n) js.
Proof. exact gen_permutation_is_fy. Qed.
Print Assumptions C18_permutation_is_fisher_yates.

Theorem C18_fisher_yates_injective : forall n js js', length js = pred n -> length js' = pred n ->
  (forall k j, nth_error js k = Some j -> 0 <= j <= Z.of_nat (pred n - k)) ->
  (forall k j, nth_error js' k = Some j -> 0 <= j <= Z.of_nat (pred n - k)) ->
  fy (pred n) (iota n) js = fy (pred n) (iota n) js' -> js = js'.
Proof. exact fy_injective. Qed.
Print Assumptions C18_fisher_yates_injective.

(* the index draws themselves are EXACTLY uniform (rand 0.8 widening-multiply rejection, no modulo bias): one
   32-bit word v is accepted with result j iff it lies in a block of exactly 2^lz consecutive words, one block per
   result, all blocks inside the word range and pairwise disjoint — so every j in [0,ubound) has the same number
   2^lz of accepting words, for every bound below 2^32. *)
Theorem C18_index_draw_blocks : forall ub j v, 0 < ub < 2 ^ 32 -> 0 <= v < 2 ^ 32 -> 0 <= j ->
  (((v * ub) mod 2 ^ 32 <=? u32_zone ub) = true /\ v * ub / 2 ^ 32 = j)
  <-> (block_start ub j <= v < block_start ub j + 2 ^ (32 - bitlen ub)).
Proof. exact u32_attempt_block. Qed.
Print Assumptions C18_index_draw_blocks.

Theorem C18_index_blocks_partition : forall ub, 0 < ub < 2 ^ 32 ->
  (forall j, 0 <= j < ub -> 0 <= block_start ub j /\ block_start ub j + 2 ^ (32 - bitlen ub) <= 2 ^ 32) /\
  (forall j j' v, 0 <= j -> 0 <= j' -> 0 <= v < 2 ^ 32 ->
     block_start ub j <= v < block_start ub j + 2 ^ (32 - bitlen ub) ->
     block_start ub j' <= v < block_start ub j' + 2 ^ (32 - bitlen ub) -> j = j').
Proof.
  intros ub Hub. split; [intros j Hj; exact (u32_blocks_in_word_range ub j Hub Hj)|].
  intros j j' v Hj Hj' Hv B1 B2. exact (u32_blocks_disjoint ub j j' v Hub Hj Hj' B1 B2 Hv).
Qed.
Print Assumptions C18_index_blocks_partition.

Theorem C18_index_sampler_follows_blocks : forall f ub b0 b1 b2 b3 rest, 0 < ub < 2 ^ 32 ->
  let v := le_int [b0; b1; b2; b3] in 0 <= v < 2 ^ 32 ->
  (forall j, 0 <= j -> block_start ub j <= v < block_start ub j + 2 ^ (32 - bitlen ub) ->
     gen_index (S f) ub (b0 :: b1 :: b2 :: b3 :: rest) = Ok (j, rest)) /\
  ((forall j, 0 <= j < ub -> ~ (block_start ub j <= v < block_start ub j + 2 ^ (32 - bitlen ub))) ->
     gen_index (S f) ub (b0 :: b1 :: b2 :: b3 :: rest) = gen_index f ub rest).
Proof.
  intros f ub b0 b1 b2 b3 rest Hub v Hv. split.
  - intros j Hj Hb. exact (gen_index_first_word f ub b0 b1 b2 b3 rest j Hub Hj Hv Hb).
  - intro Hno. exact (gen_index_rejected_word f ub b0 b1 b2 b3 rest Hub Hv Hno).
Qed.
Print Assumptions C18_index_sampler_follows_blocks.

(* ristretto: random exponents (64 stream bytes reduced mod l) and hashed challenges are in [0, l) for every input,
   and every value of [0, l) is produced by some 64-byte stream prefix *)
Theorem C18_ristretto_exponent_in_range_and_onto : forall K,
  (forall s v rest, r_rnd_exp K s = Ok (v, rest) -> 0 <= v < ell) /\
  (forall bs, 0 <= r_hash_to_exp K bs < ell) /\
  (forall v rest, 0 <= v < ell -> exists s, bytes_ok s /\ length s = 64%nat /\ r_rnd_exp K (s ++ rest) = Ok (v, rest)).
Proof.
  intro K. split; [exact (r_rnd_exp_in_range K)|]. split; [exact (r_hash_to_exp_in_range K)|exact (r_rnd_exp_onto K)].
Qed.
Print Assumptions C18_ristretto_exponent_in_range_and_onto.
