(* C06 — sigma verifiers accept exactly hash-consistent, equation-satisfying proofs. *)
From Coq Require Import ZArith Znumtheory List.
From Strand Require Import Base.ZUtil Model.Outcome Model.Codec Model.Backend Model.ZBackend Model.Zkp Model.Exec
  Proofs.Laws Proofs.ZLaws Proofs.SigmaP Proofs.ZInst Proofs.Corollaries
  Base.ZpField Base.Edwards Model.Ristretto Model.RistrettoFast Model.RBackend Proofs.PrimeCerts Proofs.RistrettoGroup Proofs.EdwardsBackend.
Open Scope Z_scope.

Theorem C06_schnorr_decision : forall (B : Backend) (mem : E B -> Prop), Laws B mem ->
  forall pub g pf context,
  (forall b, g = Some b -> mem b) -> mem pub -> mem (s_com B pf) -> 0 <= s_chal B pf -> 0 <= s_resp B pf ->
  (schnorr_verify_private B pub g pf context = true <->
   s_chal B pf = schnorr_challenge B (base_or_gen B g) pub (s_com B pf) context /\
   b_pow B (base_or_gen B g) (s_resp B pf) = b_mulp B (s_com B pf) (b_pow B pub (s_chal B pf))).
Proof. exact schnorr_verify_spec. Qed.
Print Assumptions C06_schnorr_decision.

Theorem C06_cp_decision : forall (B : Backend) (mem : E B -> Prop), Laws B mem ->
  forall pub1 pub2 g1 g2 pf context,
  (forall b, g1 = Some b -> mem b) -> mem g2 -> mem pub1 -> mem pub2 ->
  mem (c_com1 B pf) -> mem (c_com2 B pf) -> 0 <= c_chal B pf -> 0 <= c_resp B pf ->
  (cp_verify_private B pub1 pub2 g1 g2 pf context = true <->
   c_chal B pf = cp_challenge B (base_or_gen B g1) g2 pub1 pub2 (c_com1 B pf) (c_com2 B pf) context /\
   b_pow B (base_or_gen B g1) (c_resp B pf) = b_mulp B (c_com1 B pf) (b_pow B pub1 (c_chal B pf)) /\
   b_pow B g2 (c_resp B pf) = b_mulp B (c_com2 B pf) (b_pow B pub2 (c_chal B pf))).
Proof. exact cp_verify_spec. Qed.
Print Assumptions C06_cp_decision.

Theorem C06_response_binding : forall (B : Backend) (mem : E B -> Prop), Laws B mem -> prime (b_q B) ->
  forall pub g pf s' context,
  (forall b, g = Some b -> mem b) -> base_or_gen B g <> b_one B ->
  mem pub -> mem (s_com B pf) -> 0 <= s_chal B pf -> 0 <= s_resp B pf < b_q B -> 0 <= s' < b_q B ->
  schnorr_verify_private B pub g pf context = true ->
  s' <> s_resp B pf ->
  schnorr_verify_private B pub g {| s_com := s_com B pf; s_chal := s_chal B pf; s_resp := s' |} context = false.
Proof. exact schnorr_response_binding. Qed.
Print Assumptions C06_response_binding.

Theorem C06_special_soundness : forall (B : Backend) (mem : E B -> Prop), Laws B mem -> prime (b_q B) ->
  forall base pub com c1 s1 c2 s2,
  mem base -> mem pub -> mem com -> 0 <= c1 -> 0 <= c2 -> 0 <= s1 -> 0 <= s2 ->
  c1 mod b_q B <> c2 mod b_q B ->
  b_pow B base s1 = b_mulp B com (b_pow B pub c1) ->
  b_pow B base s2 = b_mulp B com (b_pow B pub c2) ->
  exists x, 0 <= x < b_q B /\ pub = b_pow B base x.
Proof. exact schnorr_special_soundness. Qed.
Print Assumptions C06_special_soundness.

(* special soundness holds outright for the curve25519 Edwards group with the ristretto scalar ring: its laws are proved
   (Proofs/EdwardsBackend.v) and its order l is prime (Pocklington certificate) *)
Theorem C06_edwards_group_special_soundness : forall (K : Kernel) base pub com c1 s1 c2 s2,
  memA base -> memA pub -> memA com -> 0 <= c1 -> 0 <= c2 -> 0 <= s1 -> 0 <= s2 ->
  c1 mod ell <> c2 mod ell ->
  b_pow (AB K) base s1 = b_mulp (AB K) com (b_pow (AB K) pub c1) ->
  b_pow (AB K) base s2 = b_mulp (AB K) com (b_pow (AB K) pub c2) ->
  exists x, 0 <= x < ell /\ pub = b_pow (AB K) base x.
Proof. intro K. exact (schnorr_special_soundness (AB K) memA (AB_laws K) ell_prime). Qed.
Print Assumptions C06_edwards_group_special_soundness.
