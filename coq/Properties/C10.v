(* C10 — any t or more trustees reconstruct; Lagrange coefficients interpolate at zero. *)
From Coq Require Import ZArith Znumtheory List.
From Strand Require Import Base.ZUtil Base.Poly Model.Outcome Model.Backend Model.ZBackend Model.Zkp Model.Shuffler
  Model.Keymaker Model.Exec Proofs.Laws Proofs.ZLaws Proofs.ZInst Proofs.ThresholdP Proofs.PrimeCerts
  Base.ZpField Base.Edwards Model.Ristretto Model.RistrettoFast Model.RBackend Proofs.RistrettoGroup Proofs.EdwardsBackend.
Import ListNotations.
Open Scope Z_scope.

(* the library's coefficient: lambda_i * prod_{j<>i} (j - i) = prod_{j<>i} j (mod q), for every listing order *)
Theorem C10_lagrange_coefficient : forall K fl P, SafePrime P -> forall trustee present,
  Forall (fun x => 0 <= x < p_q P) present -> NoDup present -> In trustee present ->
  exists lam, lagrange (ZB K fl P) trustee present = Ok lam /\ 0 <= lam /\
    (lam * zprod (map (fun j => j - trustee) (others trustee present))) mod p_q P = zprod (others trustee present) mod p_q P.
Proof. exact lagrange_spec_ZB. Qed.
Print Assumptions C10_lagrange_coefficient.

(* sum_i lambda_i * P(i) = P(0) for every polynomial with at most |S| coefficients, every set S of distinct
   non-zero trustees in any listing order *)
Theorem C10_interpolates_at_zero : forall K fl P, SafePrime P -> forall present cs (lam : Z -> Z),
  Forall (fun x => 0 < x < p_q P) present -> NoDup present -> (length cs <= length present)%nat ->
  (forall i, In i present -> lagrange (ZB K fl P) i present = Ok (lam i)) ->
  zsum (map (fun i => lam i * peval cs i) present) mod p_q P = nth 0 cs 0 mod p_q P.
Proof. exact lagrange_interpolates_ZB. Qed.
Print Assumptions C10_interpolates_at_zero.

(* group form: raising each present trustee's decryption factor gr^share_i to the library's coefficient and
   multiplying yields gr^(P(0)), the factor of the joint secret, whenever |S| >= t *)
Theorem C10_factor_combination : forall K fl P, SafePrime P ->
  forall present coeffs t (g_r : Z) lam share,
  member P g_r -> Forall (fun x => 0 < x < p_q P) present -> NoDup present -> (1 <= t)%nat -> (t <= length present)%nat ->
  coeffs <> [] -> Forall (fun c => 0 <= c) coeffs ->
  (forall i, In i present -> lagrange (ZB K fl P) i present = Ok (lam i)) ->
  (forall i, In i present -> eval_poly (ZB K fl P) i t coeffs = Ok (share i)) ->
  prodp (ZB K fl P) (map (fun i => b_pow (ZB K fl P) (b_pow (ZB K fl P) g_r (share i)) (lam i)) present)
  = b_pow (ZB K fl P) g_r (nth 0 coeffs 0).
Proof. exact threshold_factor_combination_ZB. Qed.
Print Assumptions C10_factor_combination.

Check threshold_factor_combination.   (* any lawful backend *)
Print Assumptions threshold_factor_combination.

Example C10_nonvacuous :
  let B := ZB K_ref Malachite (mkP 23) in
  lagrange B 2 [1; 2; 4] = Ok 20 /\ lagrange B 4 [4; 2; 1] = Ok 4.
Proof. vm_compute. auto. Qed.

(* the curve25519 Edwards group with the ristretto scalar ring (l prime by certificate): threshold combination
   without hypotheses *)
Theorem C10_edwards_group : forall (K : Kernel) (present coeffs : list Z) (t : nat) (g_r : E (AB K)) (lam share : Z -> Z),
  memA g_r -> Forall (fun x => 0 < x < ell) present -> NoDup present ->
  (1 <= t)%nat -> (t <= length present)%nat -> coeffs <> [] -> Forall (fun c => 0 <= c) coeffs ->
  (forall i, In i present -> lagrange (AB K) i present = Ok (lam i)) ->
  (forall i, In i present -> eval_poly (AB K) i t coeffs = Ok (share i)) ->
  prodp (AB K) (map (fun i => b_pow (AB K) (b_pow (AB K) g_r (share i)) (lam i)) present)
  = b_pow (AB K) g_r (nth 0 coeffs 0).
Proof.
  intro K. exact (threshold_factor_combination (AB K) memA (AB_laws K) (AB_from_u64_ok K) (AB_sub_mod_ok K)
                    (AB_xinvq_ok K) ell_prime).
Qed.
Print Assumptions C10_edwards_group.
