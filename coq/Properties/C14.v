(* C14 — plaintext encoding is an injective, invertible map into the group (multiplicative backends). *)
From Coq Require Import ZArith List.
From Strand Require Import Base.ZUtil Model.Outcome Model.Backend Model.ZBackend Model.Exec
  Proofs.ZLaws Proofs.ZInst.
Open Scope Z_scope.

Theorem C14_encode_decode : forall K P, SafePrime P -> forall m, 0 <= m < p_q P - 1 ->
  exists e, encode K P m = Ok e /\ member P e /\ decode P e = Ok m.
Proof. exact encode_decode. Qed.
Print Assumptions C14_encode_decode.

Theorem C14_out_of_range_refused : forall K P m, p_q P - 1 <= m -> encode K P m = Err.
Proof. exact encode_out_of_range. Qed.
Print Assumptions C14_out_of_range_refused.

Theorem C14_injective : forall K P, SafePrime P -> forall m1 m2 e,
  0 <= m1 < p_q P - 1 -> 0 <= m2 < p_q P - 1 ->
  encode K P m1 = Ok e -> encode K P m2 = Ok e -> m1 = m2.
Proof. exact encode_injective. Qed.
Print Assumptions C14_injective.

Example C14_nonvacuous : encode K_ref (mkP 23) 4 = Ok 18 /\ decode (mkP 23) 18 = Ok 4 /\ encode K_ref (mkP 23) 10 = Err.
Proof. vm_compute. auto. Qed.

(* ristretto: whatever element Ctx::encode returns for a 30-byte plaintext (i) is a valid point of the curve and (ii) is
   mapped back to that plaintext by Ctx::decode — so the embedding is invertible wherever it succeeds, and distinct
   plaintexts never share an element. Proofs/RistrettoCanon.v (from ENCODE(DECODE bs) = bs). That encode SUCCEEDS for
   every 30-byte string (some candidate among 64 x 128 decodes) is not provable and is only tested. *)
From Strand Require Import Base.ZUtil Base.ZpField Base.Edwards Model.Codec Model.Ristretto Model.RBackend
  Proofs.CodecP Proofs.RistrettoGroup Proofs.RistrettoCanon.
Theorem C14_ristretto_decode_inverts_encode : forall (K : Kernel) data P, bytes_ok data -> length data = 30%nat ->
  r_encode K data = Ok P -> r_decode K P = data /\ valid P.
Proof. exact r_encode_decode. Qed.
Print Assumptions C14_ristretto_decode_inverts_encode.

Theorem C14_ristretto_encode_injective : forall (K : Kernel) d1 d2 P,
  bytes_ok d1 -> bytes_ok d2 -> length d1 = 30%nat -> length d2 = 30%nat ->
  r_encode K d1 = Ok P -> r_encode K d2 = Ok P -> d1 = d2.
Proof. exact r_encode_injective. Qed.
Print Assumptions C14_ristretto_encode_injective.

(* non-vacuity: encode succeeds on a concrete 30-byte plaintext *)
Example C14_ristretto_nonvacuous : exists P, r_encode K_ref (repeat 0 30) = Ok P.
Proof. eexists. vm_compute. reflexivity. Qed.
