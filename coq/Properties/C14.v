(* C14 — plaintext encoding is an injective, invertible map into the group (multiplicative backends). *)
From Coq Require Import ZArith List.
From Strand Require Import Base.ZUtil Model.Outcome Model.Backend Model.ZBackend Model.Exec
  Proofs.ZLaws Proofs.ZInst.
Open Scope Z_scope.

Theorem C14_encode_decode : forall K P, SafePrime P -> forall m, 0 <= m < p_q P - 1 ->
  exists e, encode K P m = Ok e /\ member P e /\ decode P e = Ok m.
Proof. exact encode_decode. Qed.
Print Assumptions C14_encode_decode.

Theorem C14_out_of_range_refused : forall K P m, p_q P - 1 <= m -> encode K P m = Err.
Proof. exact encode_out_of_range. Qed.
Print Assumptions C14_out_of_range_refused.

Theorem C14_injective : forall K P, SafePrime P -> forall m1 m2 e,
  0 <= m1 < p_q P - 1 -> 0 <= m2 < p_q P - 1 ->
  encode K P m1 = Ok e -> encode K P m2 = Ok e -> m1 = m2.
Proof. exact encode_injective. Qed.
Print Assumptions C14_injective.

Example C14_nonvacuous : encode K_ref (mkP 23) 4 = Ok 18 /\ decode (mkP 23) 18 = Ok 4 /\ encode K_ref (mkP 23) 10 = Err.
Proof. vm_compute. auto. Qed.
