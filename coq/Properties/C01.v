(* C01 — ElGamal decrypt inverts encrypt. Pinned statements only. *)
From Coq Require Import ZArith List.
From Strand Require Import Base.ZUtil Model.Outcome Model.Backend Model.ZBackend Model.Zkp Model.Exec
  Proofs.Laws Proofs.ZLaws Proofs.ElgamalP Proofs.ZInst Proofs.Corollaries.
Open Scope Z_scope.

(* any backend whose operations satisfy the group laws (this is what ristretto is assumed to satisfy,
   and what C15 proves for the multiplicative backends) *)
Theorem C01_decrypt_encrypt : forall (B : Backend) (mem : E B -> Prop), Laws B mem ->
  forall sk m r, 0 <= sk -> 0 <= r -> mem m ->
  decrypt B sk (encrypt_with_randomness B (pk_of_sk B sk) m r) = Ok m.
Proof. exact decrypt_encrypt. Qed.
Print Assumptions C01_decrypt_encrypt.

Theorem C01_exponential : forall (B : Backend) (mem : E B -> Prop), Laws B mem ->
  forall sk k r, 0 <= sk -> 0 <= r -> 0 <= k ->
  decrypt B sk (encrypt_exponential B (pk_of_sk B sk) k r) = Ok (b_gpow B k).
Proof. exact decrypt_encrypt_exponential. Qed.
Print Assumptions C01_exponential.

Theorem C01_homomorphic : forall (B : Backend) (mem : E B -> Prop), Laws B mem ->
  forall sk c1 c2 d1 d2,
  mem (mhr c1) -> mem (gr c1) -> mem (mhr c2) -> mem (gr c2) -> 0 <= sk ->
  decrypt B sk c1 = Ok d1 -> decrypt B sk c2 = Ok d2 ->
  decrypt B sk (ct_mul B c1 c2) = Ok (b_mulp B d1 d2).
Proof. exact decrypt_ct_mul. Qed.
Print Assumptions C01_homomorphic.

(* the documented API path on both multiplicative backends, every safe-prime parameter set, every key,
   every plaintext of the plaintext space [0, q-2], every randomness (not only canonical ones) *)
Theorem C01_api_roundtrip : forall K fl P, SafePrime P ->
  forall sk r pt, 0 <= sk -> 0 <= r -> 0 <= pt < p_q P - 1 ->
  exists e d, encode K P pt = Ok e /\
              decrypt (ZB K fl P) sk (encrypt_with_randomness (ZB K fl P) (pk_of_sk (ZB K fl P) sk) e r) = Ok d /\
              decode P d = Ok pt.
Proof. exact elgamal_roundtrip. Qed.
Print Assumptions C01_api_roundtrip.

Theorem C01_encrypt_and_pok : forall (B : Backend) (mem : E B -> Prop), Laws B mem ->
  forall sk m label r nonce, 0 <= sk -> 0 <= r -> 0 <= nonce -> mem m ->
  let '(c, pf) := encrypt_and_pok B (pk_of_sk B sk) m label r nonce in
  decrypt B sk c = Ok m /\ encryption_popk_verify B (mhr c) (gr c) pf label = true.
Proof. exact encrypt_and_pok_ok. Qed.
Print Assumptions C01_encrypt_and_pok.

Example C01_nonvacuous :
  decrypt (ZB K_ref Bigint (mkP 23)) 7 (encrypt_with_randomness (ZB K_ref Bigint (mkP 23)) (pk_of_sk (ZB K_ref Bigint (mkP 23)) 7) 9 10) = Ok 9.
Proof. vm_compute. reflexivity. Qed.
