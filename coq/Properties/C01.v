(* C01 — ElGamal decrypt inverts encrypt. Pinned statements only. *)
From Coq Require Import ZArith List.
From Strand Require Import Base.ZUtil Model.Outcome Model.Backend Model.ZBackend Model.Zkp Model.Exec
  Proofs.Laws Proofs.ZLaws Proofs.ElgamalP Proofs.ZInst Proofs.Corollaries
  Model.Ristretto Model.RistrettoFast Model.RBackend Proofs.RistrettoGroup.
Open Scope Z_scope.

(* any backend whose operations satisfy the group laws (this is what ristretto is assumed to satisfy,
   and what C15 proves for the multiplicative backends) *)
Theorem C01_decrypt_encrypt : forall (B : Backend) (mem : E B -> Prop), Laws B mem ->
  forall sk m r, 0 <= sk -> 0 <= r -> mem m ->
  decrypt B sk (encrypt_with_randomness B (pk_of_sk B sk) m r) = Ok m.
Proof. exact decrypt_encrypt. Qed.
Print Assumptions C01_decrypt_encrypt.

Theorem C01_exponential : forall (B : Backend) (mem : E B -> Prop), Laws B mem ->
  forall sk k r, 0 <= sk -> 0 <= r -> 0 <= k ->
  decrypt B sk (encrypt_exponential B (pk_of_sk B sk) k r) = Ok (b_gpow B k).
Proof. exact decrypt_encrypt_exponential. Qed.
Print Assumptions C01_exponential.

Theorem C01_homomorphic : forall (B : Backend) (mem : E B -> Prop), Laws B mem ->
  forall sk c1 c2 d1 d2,
  mem (mhr c1) -> mem (gr c1) -> mem (mhr c2) -> mem (gr c2) -> 0 <= sk ->
  decrypt B sk c1 = Ok d1 -> decrypt B sk c2 = Ok d2 ->
  decrypt B sk (ct_mul B c1 c2) = Ok (b_mulp B d1 d2).
Proof. exact decrypt_ct_mul. Qed.
Print Assumptions C01_homomorphic.

(* the documented API path on both multiplicative backends, every safe-prime parameter set, every key,
   every plaintext of the plaintext space [0, q-2], every randomness (not only canonical ones) *)
Theorem C01_api_roundtrip : forall K fl P, SafePrime P ->
  forall sk r pt, 0 <= sk -> 0 <= r -> 0 <= pt < p_q P - 1 ->
  exists e d, encode K P pt = Ok e /\
              decrypt (ZB K fl P) sk (encrypt_with_randomness (ZB K fl P) (pk_of_sk (ZB K fl P) sk) e r) = Ok d /\
              decode P d = Ok pt.
Proof. exact elgamal_roundtrip. Qed.
Print Assumptions C01_api_roundtrip.

Theorem C01_encrypt_and_pok : forall (B : Backend) (mem : E B -> Prop), Laws B mem ->
  forall sk m label r nonce, 0 <= sk -> 0 <= r -> 0 <= nonce -> mem m ->
  let '(c, pf) := encrypt_and_pok B (pk_of_sk B sk) m label r nonce in
  decrypt B sk c = Ok m /\ encryption_popk_verify B (mhr c) (gr c) pf label = true.
Proof. exact encrypt_and_pok_ok. Qed.
Print Assumptions C01_encrypt_and_pok.

Example C01_nonvacuous :
  decrypt (ZB K_ref Bigint (mkP 23)) 7 (encrypt_with_randomness (ZB K_ref Bigint (mkP 23)) (pk_of_sk (ZB K_ref Bigint (mkP 23)) 7) 9 10) = Ok 9.
Proof. vm_compute. reflexivity. Qed.

(* the ristretto backend record of the model (Model/RBackend.v over the executable curve arithmetic of
   Model/Ristretto.v), WITHOUT any group-law hypothesis: for every kernel, secret key, randomness and every valid
   message point, decryption of the encryption succeeds and returns the message point — the same point of the
   Edwards curve (equal affine image), hence equal under the backend's own equality (RFC 9496 4.3.3).
   [valid] = extended coordinates with Z <> 0, on the curve, T Z = X Y (Proofs/RistrettoGroup.v). *)
Theorem C01_ristretto_roundtrip : forall (K : Kernel) (PM : PMul) sk r m, valid m ->
  exists d, decrypt (RB K PM) sk (encrypt_with_randomness (RB K PM) (pk_of_sk (RB K PM) sk) m r) = Ok d /\
            valid d /\ aff d = aff m /\ b_eqb (RB K PM) d m = true.
Proof. exact rb_elgamal_roundtrip. Qed.
Print Assumptions C01_ristretto_roundtrip.

(* non-vacuity: the base point is a valid message point *)
Example C01_ristretto_nonvacuous : valid (pt_base K_ref).
Proof. exact (valid_base K_ref). Qed.

(* ristretto backend, the whole API path at the byte level, no hypothesis: for every 30-byte plaintext on which Ctx::encode
   succeeds, every key and every randomness, decode(decrypt(encrypt(encode data))) = data, and the decrypted element
   serialises to exactly the bytes of the encoded one. Uses: the group law, ENCODE(DECODE bs) = bs, and that ENCODE depends
   only on the curve point (Proofs/RistrettoEncode.v: compress_aff). *)
From Strand Require Import Model.Codec Proofs.CodecP Proofs.RistrettoCanon Proofs.RistrettoEncode.
Theorem C01_ristretto_api_roundtrip : forall (K : Kernel) (PM : PMul) data m sk r,
  bytes_ok data -> length data = 30%nat -> r_encode K data = Ok m ->
  exists d, decrypt (RB K PM) sk (encrypt_with_randomness (RB K PM) (pk_of_sk (RB K PM) sk) m r) = Ok d /\
            r_decode K d = data /\ b_ser_e (RB K PM) d = b_ser_e (RB K PM) m.
Proof. exact rb_api_roundtrip. Qed.
Print Assumptions C01_ristretto_api_roundtrip.
