(* C19 — the parallel (rayon) build is observably equivalent to the sequential build.
   Model/Par.v: an indexed parallel map splits the index range by an arbitrary binary tree, evaluates leaves
   in any order / on any thread and joins by position. For pure per-item functions (vector serialization,
   per-index challenges, verifier terms, joint decryption of lists, batch verification) EVERY schedule
   returns exactly what the sequential iterator returns; for fallible items success and the successful
   value are schedule independent. Closures that draw randomness (shuffle, commitments, chain) get
   different draws under different schedules; C02/C03/C05 quantify over ALL draws, so their guarantees hold
   for every schedule. That rayon implements this split/join semantics is trusted (not modelled). *)
From Coq Require Import List.
From Strand Require Import Model.Outcome Model.Par Proofs.ParP.

Theorem C19_map_schedule_independent : forall {A B} (f : A -> B) (s : sched) (l : list A),
  par_map f s l = map f l.
Proof. exact @par_map_any_schedule. Qed.
Print Assumptions C19_map_schedule_independent.

Theorem C19_indexed_map_position_aligned : forall {A B} (f : nat -> A -> B) (s : sched) (l : list A),
  par_mapi f s l = map (fun ia => f (fst ia) (snd ia)) (combine (seq 0 (length l)) l).
Proof. exact @par_mapi_any_schedule. Qed.
Print Assumptions C19_indexed_map_position_aligned.

Theorem C19_collect_result_schedule_independent : forall {A B} (f : A -> outcome B) (s : sched) (l : list A) (ys : list B),
  par_mapM f s l = Ok ys <-> mapM f l = Ok ys.
Proof. exact @par_mapM_ok_iff. Qed.
Print Assumptions C19_collect_result_schedule_independent.

Theorem C19_failure_schedule_independent : forall {A B} (f : A -> outcome B) (s : sched) (l : list A),
  is_ok (par_mapM f s l) = is_ok (mapM f l).
Proof. exact @par_mapM_fails_iff. Qed.
Print Assumptions C19_failure_schedule_independent.

Theorem C19_no_new_panics : forall {A B} (f : A -> outcome B) (s : sched) (l : list A),
  (forall a, f a <> Panic) -> par_mapM f s l <> Panic.
Proof. exact @par_mapM_no_panic. Qed.
Print Assumptions C19_no_new_panics.

Example C19_nonvacuous : par_map (fun x => x * x) (Split 2 (Split 1 Leaf Leaf) (Split 0 Leaf (Split 3 Leaf Leaf))) (seq 0 9)
  = map (fun x => x * x) (seq 0 9).
Proof. reflexivity. Qed.
