(* C08 — n-of-n distributed keys: joint decryption recovers the plaintext. *)
From Coq Require Import ZArith List Permutation.
From Strand Require Import Model.Outcome Model.Codec Model.Backend Model.Zkp Model.Keymaker
  Proofs.Laws Proofs.KeymakerP Base.ZUtil
  Base.ZpField Base.Edwards Model.Ristretto Model.RistrettoFast Model.RBackend Proofs.RistrettoGroup Proofs.EdwardsBackend.
Import ListNotations.
Open Scope Z_scope.

Theorem C08_joint_key_any_order : forall (B : Backend) (mem : E B -> Prop), Laws B mem ->
  forall pks pks', pks <> [] -> Forall mem pks -> Permutation pks pks' ->
  exists pk, combine_pks B pks = Ok pk /\ combine_pks B pks' = Ok pk /\ mem pk.
Proof. exact combine_pks_perm. Qed.
Print Assumptions C08_joint_key_any_order.

Theorem C08_joint_key_is_product : forall (B : Backend) (mem : E B -> Prop), Laws B mem ->
  forall sks, sks <> [] -> Forall (fun x => 0 <= x) sks ->
  combine_pks B (map (pk_of_sk B) sks) = Ok (b_gpow B (fold_right Z.add 0 sks)).
Proof. exact combine_pks_sum. Qed.
Print Assumptions C08_joint_key_is_product.

Theorem C08_share_proof_verifies : forall (B : Backend) (mem : E B -> Prop), Laws B mem ->
  forall sk label r, 0 <= sk -> 0 <= r ->
  let '(pk, pf) := km_share B sk label r in km_verify_share B pk pf label = true.
Proof. exact km_share_verifies. Qed.
Print Assumptions C08_share_proof_verifies.

(* every n >= 1, every secrets, message, randomness *)
Theorem C08_joint_decryption : forall (B : Backend) (mem : E B -> Prop), Laws B mem ->
  forall sks m r pk, sks <> [] -> Forall (fun x => 0 <= x) sks -> 0 <= r -> mem m ->
  combine_pks B (map (pk_of_sk B) sks) = Ok pk ->
  let c := encrypt_with_randomness B pk m r in
  joint_dec B (map (fun sk => decryption_factor B sk c) sks) c = Ok m.
Proof. exact joint_dec_correct. Qed.
Print Assumptions C08_joint_decryption.

Theorem C08_factor_order_irrelevant : forall (B : Backend) (mem : E B -> Prop), Laws B mem ->
  forall decs decs' c, decs <> [] -> Forall mem decs -> mem (mhr c) -> Permutation decs decs' ->
  joint_dec B decs c = joint_dec B decs' c.
Proof. exact joint_dec_perm. Qed.
Print Assumptions C08_factor_order_irrelevant.

Theorem C08_lists_position_by_position : forall (B : Backend) (decs : list (list (E B))) cs,
  decs <> [] -> Forall (fun row => length row = length cs) decs ->
  joint_dec_many B decs cs =
  mapM (fun ic : nat * ctext B => joint_dec B (map (fun row => nth (fst ic) row (b_one B)) decs) (snd ic))
       (combine (seq 0 (length cs)) cs).
Proof. exact joint_dec_many_spec. Qed.
Print Assumptions C08_lists_position_by_position.

(* leaving a trustee out yields m * gr^{x_i}: the plaintext only in the degenerate case gr^{x_i} = 1 *)
Theorem C08_missing_factor : forall (B : Backend) (mem : E B -> Prop), Laws B mem ->
  forall sks1 x sks2 m r pk, 0 <= x -> Forall (fun x => 0 <= x) (sks1 ++ sks2) ->
  sks1 ++ sks2 <> [] -> 0 <= r -> mem m ->
  combine_pks B (map (pk_of_sk B) (sks1 ++ x :: sks2)) = Ok pk ->
  let c := encrypt_with_randomness B pk m r in
  joint_dec B (map (fun sk => decryption_factor B sk c) (sks1 ++ sks2)) c = Ok (b_mulp B m (b_pow B (gr c) x)) /\
  (b_mulp B m (b_pow B (gr c) x) = m <-> b_pow B (gr c) x = b_one B).
Proof. exact joint_dec_missing_factor. Qed.
Print Assumptions C08_missing_factor.

(* the curve25519 Edwards group satisfies the laws without hypotheses (Proofs/EdwardsBackend.v): n-of-n joint
   decryption recovers the plaintext point for every n >= 1 *)
Theorem C08_edwards_group : forall (K : Kernel) (sks : list Z) (m : E (AB K)) (r : Z) (pk : E (AB K)), sks <> [] -> Forall (fun x => 0 <= x) sks -> 0 <= r -> memA m ->
  combine_pks (AB K) (map (pk_of_sk (AB K)) sks) = Ok pk ->
  let c := encrypt_with_randomness (AB K) pk m r in
  joint_dec (AB K) (map (fun sk => decryption_factor (AB K) sk c) sks) c = Ok m.
Proof. intro K. exact (joint_dec_correct (AB K) memA (AB_laws K)). Qed.
Print Assumptions C08_edwards_group.
