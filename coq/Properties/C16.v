(* C16 — Fiat-Shamir challenges are deterministic, conformant and bind every input.
   "small b" = the byte length of b fits the u32 prefix. Binding is stated as a REDUCTION: equal challenges
   for different transcripts exhibit an explicit collision of hash_to_exp (SHA-512 reduced mod q), which is
   never assumed impossible. Conformance to SHA-512 over the documented encoding is checked by the
   correspondence (Gallina SHA-512 with the FIPS vectors as kernel-checked Examples). *)
From Coq Require Import ZArith List Permutation.
From Strand Require Import Model.Outcome Model.Codec Model.Backend Model.Zkp Model.Shuffler Proofs.TranscriptP.
Import ListNotations.
Open Scope Z_scope.

(* the bytes of a challenge input do not depend on insertion / iteration order of the string-keyed map *)
Theorem C16_order_independent : forall m1 m2 : cinput,
  Permutation m1 m2 -> NoDup (map fst m1) -> ci_bytes m1 = ci_bytes m2.
Proof. exact ci_bytes_perm. Qed.
Print Assumptions C16_order_independent.

Theorem C16_insertion_order_independent : forall l1 l2 : list entry,
  Permutation l1 l2 -> NoDup (map fst l1) -> ci_bytes (ci_of_list l1) = ci_bytes (ci_of_list l2).
Proof. exact ci_bytes_insertion_order. Qed.
Print Assumptions C16_insertion_order_independent.

(* every transcript is injective in every item ... *)
Theorem C16_schnorr_transcript_injective : forall (B : Backend) g pub com ctx g' pub' com' ctx',
  schnorr_small B g pub com ctx -> schnorr_small B g' pub' com' ctx' ->
  schnorr_transcript B g pub com ctx = schnorr_transcript B g' pub' com' ctx' ->
  b_ser_e B g = b_ser_e B g' /\ b_ser_e B pub = b_ser_e B pub' /\ b_ser_e B com = b_ser_e B com' /\
  ci_bytes ctx = ci_bytes ctx'.
Proof. exact schnorr_transcript_inj. Qed.
Print Assumptions C16_schnorr_transcript_injective.

(* ... hence equal challenges mean equal items or an explicit hash collision *)
Theorem C16_schnorr_binding : forall (B : Backend) g pub com ctx g' pub' com' ctx',
  schnorr_small B g pub com ctx -> schnorr_small B g' pub' com' ctx' ->
  schnorr_challenge B g pub com ctx = schnorr_challenge B g' pub' com' ctx' ->
  (b_ser_e B g = b_ser_e B g' /\ b_ser_e B pub = b_ser_e B pub' /\ b_ser_e B com = b_ser_e B com' /\
   ci_bytes ctx = ci_bytes ctx') \/
  (exists x y : bytes, x <> y /\ b_hash_to_exp B x = b_hash_to_exp B y).
Proof. exact schnorr_challenge_binding. Qed.
Print Assumptions C16_schnorr_binding.

Theorem C16_cp_binding : forall (B : Backend) g1 g2 pub1 pub2 com1 com2 ctx g1' g2' pub1' pub2' com1' com2' ctx',
  cp_small B g1 g2 pub1 pub2 com1 com2 ctx -> cp_small B g1' g2' pub1' pub2' com1' com2' ctx' ->
  cp_challenge B g1 g2 pub1 pub2 com1 com2 ctx = cp_challenge B g1' g2' pub1' pub2' com1' com2' ctx' ->
  (b_ser_e B g1 = b_ser_e B g1' /\ b_ser_e B g2 = b_ser_e B g2' /\ b_ser_e B pub1 = b_ser_e B pub1' /\
   b_ser_e B pub2 = b_ser_e B pub2' /\ b_ser_e B com1 = b_ser_e B com1' /\ b_ser_e B com2 = b_ser_e B com2' /\
   ci_bytes ctx = ci_bytes ctx') \/
  (exists x y : bytes, x <> y /\ b_hash_to_exp B x = b_hash_to_exp B y).
Proof. exact cp_challenge_binding. Qed.
Print Assumptions C16_cp_binding.

(* context = {label} or {mhr, label}: the label and the other ciphertext component are bound *)
Check ctx_label_inj.
Check ctx_mhr_label_inj.
Print Assumptions ctx_mhr_label_inj.

(* the shuffle's final challenge binds inputs, outputs, all commitments, the public key and the label *)
Theorem C16_shuffle_challenge_binding : forall (B : Backend) es e' cs c_hats pk t label es2 e2' cs2 c_hats2 pk2 t' label2,
  challenge_small B es e' cs c_hats pk t label -> challenge_small B es2 e2' cs2 c_hats2 pk2 t' label2 ->
  shuffle_challenge B es e' cs c_hats pk t label = shuffle_challenge B es2 e2' cs2 c_hats2 pk2 t' label2 ->
  (b_ser_e B (t1 B t) = b_ser_e B (t1 B t') /\ b_ser_e B (t2 B t) = b_ser_e B (t2 B t') /\
   b_ser_e B (t3 B t) = b_ser_e B (t3 B t') /\ b_ser_e B (t41 B t) = b_ser_e B (t41 B t') /\
   b_ser_e B (t42 B t) = b_ser_e B (t42 B t') /\ ser_vecE B (t_hats B t) = ser_vecE B (t_hats B t') /\
   ser_vecC B es = ser_vecC B es2 /\ ser_vecC B e' = ser_vecC B e2' /\ ser_vecE B cs = ser_vecE B cs2 /\
   ser_vecE B c_hats = ser_vecE B c_hats2 /\ b_ser_e B pk = b_ser_e B pk2 /\ label = label2) \/
  (exists x y : bytes, x <> y /\ b_hash_to_exp B x = b_hash_to_exp B y).
Proof. exact shuffle_challenge_binding. Qed.
Print Assumptions C16_shuffle_challenge_binding.

(* per-ciphertext challenges: distinct position counters give distinct hash inputs; two equal u_i, u_j with
   i <> j are an explicit collision *)
Theorem C16_counters_distinct : forall (ph : bytes) (i j : Z),
  0 <= i < 2 ^ 64 -> 0 <= j < 2 ^ 64 -> u_input ph i = u_input ph j -> i = j.
Proof. exact u_input_counter_inj. Qed.
Print Assumptions C16_counters_distinct.

Theorem C16_per_index_challenges_distinct : forall (B : Backend) es e' cs (n : nat) label (i j : nat),
  (i < n)%nat -> (j < n)%nat -> Z.of_nat n <= 2 ^ 64 -> i <> j ->
  nth i (shuffle_us B es e' cs n label) 0 = nth j (shuffle_us B es e' cs n label) 0 ->
  exists x y : bytes, x <> y /\ b_hash_to_exp B x = b_hash_to_exp B y.
Proof. exact shuffle_us_index_binding. Qed.
Print Assumptions C16_per_index_challenges_distinct.

Check us_prefix_inj.
Check shuffle_us_binding.
