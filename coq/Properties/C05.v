(* C05 — honest Schnorr / Chaum-Pedersen / plaintext-knowledge / decryption proofs verify. *)
From Coq Require Import ZArith List.
From Strand Require Import Base.ZUtil Model.Outcome Model.Codec Model.Backend Model.ZBackend Model.Zkp Model.Exec
  Proofs.Laws Proofs.ZLaws Proofs.SigmaP Proofs.ZInst Proofs.Corollaries
  Model.Ristretto Model.RistrettoFast Model.RBackend Proofs.RistrettoGroup.
Import ListNotations.
Open Scope Z_scope.

Theorem C05_schnorr_complete : forall (B : Backend) (mem : E B -> Prop), Laws B mem ->
  forall secret g label r, (forall b, g = Some b -> mem b) -> 0 <= secret -> 0 <= r ->
  schnorr_verify B (b_pow B (base_or_gen B g) secret) g
    (schnorr_prove B secret (b_pow B (base_or_gen B g) secret) g label r) label = true.
Proof. exact schnorr_complete. Qed.
Print Assumptions C05_schnorr_complete.

Theorem C05_cp_complete : forall (B : Backend) (mem : E B -> Prop), Laws B mem ->
  forall secret g1 g2 label r, (forall b, g1 = Some b -> mem b) -> mem g2 -> 0 <= secret -> 0 <= r ->
  cp_verify B (b_pow B (base_or_gen B g1) secret) (b_pow B g2 secret) g1 g2
    (cp_prove B secret (b_pow B (base_or_gen B g1) secret) (b_pow B g2 secret) g1 g2 label r) label = true.
Proof. exact cp_complete. Qed.
Print Assumptions C05_cp_complete.

Theorem C05_default_generator_interchangeable : forall (B : Backend) secret pub label r pf,
  schnorr_prove B secret pub None label r = schnorr_prove B secret pub (Some (b_gen B)) label r /\
  schnorr_verify B pub None pf label = schnorr_verify B pub (Some (b_gen B)) pf label.
Proof. exact schnorr_default_explicit. Qed.
Print Assumptions C05_default_generator_interchangeable.

Theorem C05_cp_default_generator_interchangeable : forall (B : Backend) secret pub1 pub2 g2 label r pf,
  cp_prove B secret pub1 pub2 None g2 label r = cp_prove B secret pub1 pub2 (Some (b_gen B)) g2 label r /\
  cp_verify B pub1 pub2 None g2 pf label = cp_verify B pub1 pub2 (Some (b_gen B)) g2 pf label.
Proof. exact cp_default_explicit. Qed.
Print Assumptions C05_cp_default_generator_interchangeable.

Theorem C05_plaintext_knowledge_and_decryption_proofs : forall (B : Backend) (mem : E B -> Prop), Laws B mem ->
  (forall sk m label r nonce, 0 <= sk -> 0 <= r -> 0 <= nonce -> mem m ->
     let '(c, pf) := encrypt_and_pok B (pk_of_sk B sk) m label r nonce in
     decrypt B sk c = Ok m /\ encryption_popk_verify B (mhr c) (gr c) pf label = true) /\
  (forall sk c label r, 0 <= sk -> 0 <= r -> mem (mhr c) -> mem (gr c) ->
     exists d pf, decrypt_and_prove B sk (pk_of_sk B sk) c label r = Ok (d, pf) /\
       decrypt B sk c = Ok d /\
       verify_decryption B (pk_of_sk B sk) (decryption_factor B sk c) (mhr c) (gr c) pf label = true).
Proof. intros B mem L. split; [exact (encrypt_and_pok_ok B mem L) | exact (decrypt_and_prove_ok B mem L)]. Qed.
Print Assumptions C05_plaintext_knowledge_and_decryption_proofs.

(* instance: both multiplicative backends, all admissible parameter sets *)
Theorem C05_mult_backends : forall K fl P, GoodParams P ->
  forall secret g label r, (forall b, g = Some b -> member P b) -> 0 <= secret -> 0 <= r ->
  schnorr_verify (ZB K fl P) (b_pow (ZB K fl P) (base_or_gen (ZB K fl P) g) secret) g
    (schnorr_prove (ZB K fl P) secret (b_pow (ZB K fl P) (base_or_gen (ZB K fl P) g) secret) g label r) label = true.
Proof. intros K fl P G. exact (schnorr_complete (ZB K fl P) (member P) (ZB_laws K fl P G)). Qed.
Print Assumptions C05_mult_backends.

Example C05_nonvacuous :
  let B := ZB K_ref Malachite (mkP 23) in
  schnorr_verify B (b_pow B 4 10) None (schnorr_prove B 10 (b_pow B 4 10) None [1; 2] 3) [1; 2] = true.
Proof. vm_compute. reflexivity. Qed.

(* the ristretto backend record, WITHOUT any group-law hypothesis (Proofs/RistrettoGroup.v): Schnorr proofs for the
   default generator, and Schnorr / Chaum-Pedersen proofs for any valid base(s) of order dividing l, verify for
   every secret, nonce and label. (That a base has order dividing l is proved for the standard generator by kernel
   evaluation of [l]B; for other points it is the premise [nmul Ln (aff g) = eid].) *)
Theorem C05_ristretto_schnorr_default : forall (K : Kernel) (PM : PMul) x r label, 0 <= x -> 0 <= r ->
  schnorr_verify (RB K PM) (b_gpow (RB K PM) x) None
    (schnorr_prove (RB K PM) x (b_gpow (RB K PM) x) None label r) label = true.
Proof. exact rb_schnorr_complete_default. Qed.
Print Assumptions C05_ristretto_schnorr_default.

Theorem C05_ristretto_schnorr : forall (K : Kernel) (PM : PMul) g x r label,
  valid g -> Edwards.nmul Fp f0 f1 fa fm fs fd dF Ln (aff g) = Edwards.eid Fp f0 f1 -> 0 <= x -> 0 <= r ->
  schnorr_verify (RB K PM) (b_pow (RB K PM) g x) (Some g)
    (schnorr_prove (RB K PM) x (b_pow (RB K PM) g x) (Some g) label r) label = true.
Proof. exact rb_schnorr_complete. Qed.
Print Assumptions C05_ristretto_schnorr.

Theorem C05_ristretto_chaum_pedersen : forall (K : Kernel) (PM : PMul) g1 g2 x r label,
  valid g1 -> valid g2 ->
  Edwards.nmul Fp f0 f1 fa fm fs fd dF Ln (aff g1) = Edwards.eid Fp f0 f1 ->
  Edwards.nmul Fp f0 f1 fa fm fs fd dF Ln (aff g2) = Edwards.eid Fp f0 f1 -> 0 <= x -> 0 <= r ->
  cp_verify (RB K PM) (b_pow (RB K PM) g1 x) (b_pow (RB K PM) g2 x) (Some g1) g2
    (cp_prove (RB K PM) x (b_pow (RB K PM) g1 x) (b_pow (RB K PM) g2 x) (Some g1) g2 label r) label = true.
Proof. exact rb_cp_complete. Qed.
Print Assumptions C05_ristretto_chaum_pedersen.

(* non-vacuity: the standard generator meets both premises *)
Example C05_ristretto_nonvacuous :
  valid (pt_base K_ref) /\ Edwards.nmul Fp f0 f1 fa fm fs fd dF Ln (aff (pt_base K_ref)) = Edwards.eid Fp f0 f1.
Proof. exact (conj (valid_base K_ref) (base_order K_ref)). Qed.
