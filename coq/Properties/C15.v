From Coq Require Import ZArith.
Theorem placeholder : True. Proof. exact I. Qed.
Print Assumptions placeholder.
