(* C15 — every backend obeys the group/exponent laws; constants form a safe-prime group; results canonical.
   Pinned statements only: each proof is `exact <lemma>` from Proofs/. *)
From Coq Require Import ZArith Znumtheory List.
From Strand Require Import Base.ZUtil Generated.Constants Model.Outcome Model.Backend Model.ZBackend
  Model.Exec Model.Params2048 Model.Ristretto Proofs.Laws Proofs.ZLaws Proofs.ZInst Proofs.PrimeCerts
  Base.ZpField Base.Edwards Model.RistrettoFast Model.RBackend Proofs.RistrettoGroup Proofs.EdwardsBackend.
Open Scope Z_scope.

(* the code's own operations satisfy the laws of a commutative group of exponent q acted on by Z_q
   (associativity, commutativity, identity, inverses, a^(x+y), (a^x)^y, (ab)^x, a^q = 1, canonical
   results, closure), for every kernel, both multiplicative backends, every admissible parameter set *)
Theorem C15_group_laws : forall K fl P, GoodParams P -> Laws (ZB K fl P) (member P).
Proof. exact ZB_laws. Qed.
Print Assumptions C15_group_laws.

Theorem C15_small_sets_are_safe_prime_groups : forall p, In p small_moduli -> SafePrime (mkP p).
Proof. exact small_sets_safe. Qed.
Print Assumptions C15_small_sets_are_safe_prime_groups.

(* shipped constants, regenerated from src/backend.rs on every run *)
Theorem C15_constants :
  p2048 = 2 * q2048 + 1 /\ 1 < g2048 < p2048 /\ powm g2048 q2048 p2048 = 1 /\ cofactor2048 = 2 /\
  Z.odd q2048 = true.
Proof. exact (conj p2048_safe_shape (conj g2048_range (conj g2048_order (conj cofactor_two q2048_odd)))). Qed.
Print Assumptions C15_constants.

Theorem C15_P2048_admissible : GoodParams P2048.
Proof. exact good_P2048. Qed.
Print Assumptions C15_P2048_admissible.

(* primality of p2048, q2048 is a named hypothesis: nothing installed can certify it *)
Theorem C15_P2048_safe_prime : prime p2048 -> prime q2048 -> SafePrime P2048.
Proof. exact safe_P2048. Qed.
Print Assumptions C15_P2048_safe_prime.

(* ... and one of the two follows from the other (Pocklington step, Base/Pocklington.v, checked by the kernel with the
   BigZ evaluator): the ONLY unproved number-theoretic hypothesis about the shipped group is [prime q2048]. *)
Theorem C15_P2048_safe_prime_from_q : prime q2048 -> SafePrime P2048.
Proof. exact safe_P2048_from_q. Qed.
Print Assumptions C15_P2048_safe_prime_from_q.

(* the 62-bit execution parameter set is a safe-prime group unconditionally (Pocklington certificates) *)
Theorem C15_P62_safe_prime : SafePrime (mkP 3404364645881581367).
Proof. exact P62_safe_prime. Qed.
Print Assumptions C15_P62_safe_prime.

(* the ristretto255 / Ed25519 group order and the curve25519 field characteristic used by the executable model of the
   third backend are prime (Pocklington certificate chains checked by the kernel) *)
Theorem C15_ristretto_order_and_field_prime :
  prime ell /\ prime fp /\ ell = 2 ^ 252 + 27742317777372353535851937790883648493 /\ fp = 2 ^ 255 - 19.
Proof. exact (conj ell_prime (conj fp_prime ell_fp_values)). Qed.
Print Assumptions C15_ristretto_order_and_field_prime.

(* ristretto255 backend: the curve arithmetic of the executable model (extended coordinates over GF(2^255-19),
   unified addition, negation, double-and-add) IS the group law of the Edwards curve -x^2+y^2 = 1+d x^2 y^2,
   which is proved to be a commutative group law (complete, closed, associative, neutral element, inverses) —
   no hypothesis: p prime, d a non-residue and i^2 = -1 are established by the kernel. *)
Theorem C15_ristretto_curve_arithmetic : forall K : Kernel,
  (forall P Q, valid P -> valid Q ->
     valid (pt_add K P Q) /\ aff (pt_add K P Q) = Edwards.eadd Fp f1 fa fm fs fd dF (aff P) (aff Q)) /\
  (forall P, valid P -> valid (pt_neg K P) /\ aff (pt_neg K P) = Edwards.eneg Fp fo (aff P)) /\
  (forall e P, valid P ->
     valid (pt_mul K e P) /\ aff (pt_mul K e P) = Edwards.nmul Fp f0 f1 fa fm fs fd dF (Z.to_nat e) (aff P)) /\
  (valid pt_id /\ aff pt_id = Edwards.eid Fp f0 f1) /\
  valid (pt_base K) /\
  Edwards.nmul Fp f0 f1 fa fm fs fd dF Ln (aff (pt_base K)) = Edwards.eid Fp f0 f1 /\
  (forall P Q, valid P -> valid Q -> aff P = aff Q -> pt_eqb K P Q = true).
Proof.
  intro K. exact (conj (pt_add_correct K) (conj (pt_neg_correct K) (conj (pt_mul_correct K)
    (conj valid_id (conj (valid_base K) (conj (base_order K) (pt_eqb_of_aff K))))))).
Qed.
Print Assumptions C15_ristretto_curve_arithmetic.

(* RFC 9496 equality (the backend's PartialEq) is exactly equality of curve points modulo the four 4-torsion points
   (0, +-1), (+-i, 0): equal ristretto elements are the same coset, different cosets never compare equal *)
Theorem C15_ristretto_equality_is_coset_equality : forall (K : Kernel) P Q, valid P -> valid Q ->
  (pt_eqb K P Q = true <->
   tors4 Fp f0 f1 fo iF (Edwards.eadd Fp f1 fa fm fs fd dF (aff P) (Edwards.eneg Fp fo (aff Q)))).
Proof. exact pt_eqb_iff. Qed.
Print Assumptions C15_ristretto_equality_is_coset_equality.

Theorem C15_edwards_group_law :
  let onc := Edwards.onc Fp f1 fa fm fs dF in
  let add := Edwards.eadd Fp f1 fa fm fs fd dF in
  let id := Edwards.eid Fp f0 f1 in
  let neg := Edwards.eneg Fp fo in
  (forall P Q, onc P -> onc Q -> onc (add P Q)) /\
  (forall P Q R, onc P -> onc Q -> onc R -> add (add P Q) R = add P (add Q R)) /\
  (forall P Q, add P Q = add Q P) /\
  (forall P, add id P = P) /\ onc id /\
  (forall P, onc P -> onc (neg P) /\ add P (neg P) = id).
Proof.
  cbv zeta.
  exact (conj E_onc (conj E_assoc (conj E_comm (conj E_id_l (conj E_onc_id
          (fun P C => conj (E_onc_neg P C) (E_neg_r P C))))))).
Qed.
Print Assumptions C15_edwards_group_law.

(* ... packaged as a backend with Leibniz equality (affine points of order dividing l, ristretto scalar ring): it
   satisfies the SAME [Laws] record as the multiplicative backends, with no hypothesis; and the executable ristretto
   backend record maps onto it homomorphically, operation by operation *)
Theorem C15_edwards_backend_laws : forall K : Kernel, Laws (AB K) memA.
Proof. exact AB_laws. Qed.
Print Assumptions C15_edwards_backend_laws.

Theorem C15_ristretto_maps_onto_edwards_backend : forall (K : Kernel) (PM : PMul),
  aff (b_gen (RB K PM)) = b_gen (AB K) /\ aff (b_one (RB K PM)) = b_one (AB K) /\
  (forall P Q, valid P -> valid Q ->
     valid (b_mulp (RB K PM) P Q) /\ aff (b_mulp (RB K PM) P Q) = b_mulp (AB K) (aff P) (aff Q)) /\
  (forall P, valid P -> exists P', b_invp (RB K PM) P = Ok P' /\ valid P' /\ b_invp (AB K) (aff P) = Ok (aff P')) /\
  (forall P x, valid P -> valid (b_pow (RB K PM) P x) /\ aff (b_pow (RB K PM) P x) = b_pow (AB K) (aff P) x) /\
  (forall P Q, valid P -> valid Q -> b_eqb (AB K) (aff P) (aff Q) = true -> b_eqb (RB K PM) P Q = true) /\
  (forall x y, b_xadd (RB K PM) x y = b_xadd (AB K) x y /\ b_xmul (RB K PM) x y = b_xmul (AB K) x y) /\
  (forall bs, b_hash_to_exp (RB K PM) bs = b_hash_to_exp (AB K) bs).
Proof. exact rb_ab_morphism. Qed.
Print Assumptions C15_ristretto_maps_onto_edwards_backend.

(* non-vacuity: a concrete parameter set meets the hypotheses *)
Example C15_nonvacuous : GoodParams (mkP 23) /\ member (mkP 23) 4 /\ member (mkP 23) 1.
Proof.
  assert (S : SafePrime (mkP 23)) by (apply small_sets_safe; vm_compute; auto).
  split; [exact (sp_good _ S)|]. split; apply memberb_spec; vm_compute; auto.
Qed.
