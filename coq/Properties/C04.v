(* C04 — the shuffle verifier accepts only complete proofs whose every equation holds.
   Pinned statements: `Check` lines pin the exact statements proved in Proofs/ShuffleSpec.v. *)
From Coq Require Import ZArith Znumtheory List.
From Strand Require Import Model.Outcome Model.Codec Model.Backend Model.Zkp Model.Shuffler
  Proofs.Laws Proofs.ShuffleSpec
  Base.ZUtil Base.ZpField Base.Edwards Model.Ristretto Model.RistrettoFast Model.RBackend Proofs.PrimeCerts Proofs.RistrettoGroup Proofs.EdwardsBackend.
Import ListNotations.
Open Scope Z_scope.

(* decision characterisation: for member inputs the code-shaped verifier (inverses, divisions, unreduced
   triple products, mapM/forallb) returns Ok true EXACTLY when every component count is N >= 1 and all
   5 + N division-free Terelius-Wikström equations hold for the challenges recomputed from the complete
   statement (inputs, outputs, commitments, pk, label). [tw_equations] is the independent reference. *)
Theorem C04_decision : forall (B : Backend) (mem : E B -> Prop), Laws B mem ->
  forall pk h0 hs pf es e_primes label,
  mem pk -> mem h0 -> Forall mem hs -> Forall (wf_ct B mem) es -> Forall (wf_ct B mem) e_primes ->
  wf_proof B mem pf -> length hs = length es ->
  (check_proof B pk (h0 :: hs) pf es e_primes label = Ok true <->
   lengths_ok B pf es e_primes /\
   tw_equations B pk h0 hs pf es e_primes
     (shuffle_us B es e_primes (pf_cs B pf) (length es) label)
     (shuffle_challenge B es e_primes (pf_cs B pf) (pf_c_hats B pf) pk (pf_t B pf) label)).
Proof. exact check_proof_spec. Qed.
Print Assumptions C04_decision.

(* a missing or surplus component, an empty statement, mismatched input/output lists: rejected outright,
   for arbitrary (even non-member) contents *)
Theorem C04_wrong_counts_rejected : forall (B : Backend) pk gens pf es e_primes label,
  gens <> [] -> ~ lengths_ok B pf es e_primes ->
  check_proof B pk gens pf es e_primes label = Ok false.
Proof. exact check_proof_wrong_counts. Qed.
Print Assumptions C04_wrong_counts_rejected.

Theorem C04_total : forall (B : Backend) (mem : E B -> Prop), Laws B mem ->
  forall pk h0 hs pf es e_primes label,
  mem pk -> mem h0 -> Forall mem hs -> Forall (wf_ct B mem) es -> Forall (wf_ct B mem) e_primes ->
  wf_proof B mem pf -> length hs = length es ->
  exists b, check_proof B pk (h0 :: hs) pf es e_primes label = Ok b.
Proof. exact check_proof_total. Qed.
Print Assumptions C04_total.

(* altered components: changing any single aggregate response, or the chain responses, of an accepted
   proof to other canonical exponents gives a rejected proof (q prime, generator non-trivial) *)
Check check_proof_s1_binding.
Check check_proof_s2_binding.
Check check_proof_s3_binding.
Check check_proof_s4_binding.
Theorem C04_chain_responses_binding : forall (B : Backend) (mem : E B -> Prop), Laws B mem -> prime (b_q B) ->
  forall pk h0 hs pf es e_primes label s_hats',
  mem pk -> mem h0 -> Forall mem hs -> Forall (wf_ct B mem) es -> Forall (wf_ct B mem) e_primes ->
  wf_proof B mem pf -> length hs = length es -> b_gen B <> b_one B ->
  Forall (fun x => 0 <= x < b_q B) (s_hats (pf_s B pf)) -> Forall (fun x => 0 <= x < b_q B) s_hats' ->
  check_proof B pk (h0 :: hs) pf es e_primes label = Ok true ->
  s_hats' <> s_hats (pf_s B pf) ->
  check_proof B pk (h0 :: hs)
    {| pf_t := pf_t B pf;
       pf_s := {| s1 := s1 (pf_s B pf); s2 := s2 (pf_s B pf); s3 := s3 (pf_s B pf); s4 := s4 (pf_s B pf);
                  s_hats := s_hats'; s_primes := s_primes (pf_s B pf) |};
       pf_cs := pf_cs B pf; pf_c_hats := pf_c_hats B pf |} es e_primes label = Ok false.
Proof. exact check_proof_s_hats_binding. Qed.
Print Assumptions C04_chain_responses_binding.
Print Assumptions check_proof_s1_binding.
Print Assumptions check_proof_s4_binding.

(* the decision characterisation holds outright (no hypothesis) for the curve25519 Edwards group with the ristretto scalar
   ring, the group the model's ristretto arithmetic computes in (Proofs/EdwardsBackend.v) *)
Theorem C04_edwards_group : forall (K : Kernel) pk h0 hs pf es e_primes label,
  memA pk -> memA h0 -> Forall memA hs -> Forall (wf_ct (AB K) memA) es -> Forall (wf_ct (AB K) memA) e_primes ->
  wf_proof (AB K) memA pf -> length hs = length es ->
  (check_proof (AB K) pk (h0 :: hs) pf es e_primes label = Ok true <->
   lengths_ok (AB K) pf es e_primes /\
   tw_equations (AB K) pk h0 hs pf es e_primes
     (shuffle_us (AB K) es e_primes (pf_cs (AB K) pf) (length es) label)
     (shuffle_challenge (AB K) es e_primes (pf_cs (AB K) pf) (pf_c_hats (AB K) pf) pk (pf_t (AB K) pf) label)).
Proof. intro K. exact (check_proof_spec (AB K) memA (AB_laws K)). Qed.
Print Assumptions C04_edwards_group.
