(* C07 — accepted decryption factors yield the true plaintext (verifiable decryption). *)
From Coq Require Import ZArith Znumtheory List.
From Strand Require Import Model.Outcome Model.Codec Model.Backend Model.Zkp Model.Keymaker
  Proofs.Laws Proofs.SigmaP Proofs.Corollaries Proofs.KeymakerP
  Base.ZUtil Base.ZpField Base.Edwards Model.Ristretto Model.RistrettoFast Model.RBackend Proofs.RistrettoGroup.
Import ListNotations.
Open Scope Z_scope.

(* completeness: the released factor verifies against the holder's key and the ciphertext, and dividing by
   it is decryption *)
Theorem C07_complete : forall (B : Backend) (mem : E B -> Prop), Laws B mem ->
  forall sk c label r, 0 <= sk -> 0 <= r -> mem (mhr c) -> mem (gr c) ->
  exists d pf, decrypt_and_prove B sk (pk_of_sk B sk) c label r = Ok (d, pf) /\
    decrypt B sk c = Ok d /\
    verify_decryption B (pk_of_sk B sk) (decryption_factor B sk c) (mhr c) (gr c) pf label = true.
Proof. exact decrypt_and_prove_ok. Qed.
Print Assumptions C07_complete.

(* decision: accepted <=> challenge = H(pk, factor, commitments, {mhr, label}) and both equations hold *)
Theorem C07_decision : forall (B : Backend) (mem : E B -> Prop), Laws B mem ->
  forall pk f c pf label,
  mem pk -> mem f -> mem (mhr c) -> mem (gr c) -> mem (c_com1 B pf) -> mem (c_com2 B pf) ->
  0 <= c_chal B pf -> 0 <= c_resp B pf ->
  (verify_decryption B pk f (mhr c) (gr c) pf label = true <->
   c_chal B pf = cp_challenge B (b_gen B) (gr c) pk f (c_com1 B pf) (c_com2 B pf) (ctx_mhr_label B (mhr c) label) /\
   b_pow B (b_gen B) (c_resp B pf) = b_mulp B (c_com1 B pf) (b_pow B pk (c_chal B pf)) /\
   b_pow B (gr c) (c_resp B pf) = b_mulp B (c_com2 B pf) (b_pow B f (c_chal B pf))).
Proof. exact verify_decryption_spec. Qed.
Print Assumptions C07_decision.

(* special soundness: two accepting transcripts extract ONE exponent for key and factor ... *)
Theorem C07_special_soundness : forall (B : Backend) (mem : E B -> Prop), Laws B mem -> prime (b_q B) ->
  forall g1 g2 pub1 pub2 k1 k2 c1 s1 c2 s2,
  mem g1 -> mem g2 -> mem pub1 -> mem pub2 -> mem k1 -> mem k2 ->
  0 <= c1 -> 0 <= c2 -> 0 <= s1 -> 0 <= s2 -> c1 mod b_q B <> c2 mod b_q B ->
  b_pow B g1 s1 = b_mulp B k1 (b_pow B pub1 c1) -> b_pow B g2 s1 = b_mulp B k2 (b_pow B pub2 c1) ->
  b_pow B g1 s2 = b_mulp B k1 (b_pow B pub1 c2) -> b_pow B g2 s2 = b_mulp B k2 (b_pow B pub2 c2) ->
  exists x, 0 <= x < b_q B /\ pub1 = b_pow B g1 x /\ pub2 = b_pow B g2 x.
Proof. exact cp_special_soundness. Qed.
Print Assumptions C07_special_soundness.

(* ... and a factor gr^x for the key's exponent x is the one private-key decryption divides by *)
Theorem C07_extracted_factor_decrypts : forall (B : Backend) (mem : E B -> Prop), Laws B mem ->
  forall x c f, 0 <= x -> mem (mhr c) -> mem (gr c) -> f = b_pow B (gr c) x ->
  exists d, decrypt B x c = Ok d /\ (exists i, b_invp B f = Ok i /\ d = b_mulp B (mhr c) i).
Proof. exact extracted_factor_decrypts. Qed.
Print Assumptions C07_extracted_factor_decrypts.

(* a wrong factor admits at most one challenge value: the hash would have to hit it *)
Theorem C07_wrong_factor_one_challenge : forall (B : Backend) (mem : E B -> Prop), Laws B mem -> prime (b_q B) ->
  forall g1 g2 x pub2 k1 k2 c1 s1 c2 s2,
  mem g1 -> mem g2 -> g1 <> b_one B -> mem pub2 -> mem k1 -> mem k2 -> 0 <= x ->
  pub2 <> b_pow B g2 x ->
  0 <= c1 -> 0 <= c2 -> 0 <= s1 -> 0 <= s2 ->
  b_pow B g1 s1 = b_mulp B k1 (b_pow B (b_pow B g1 x) c1) -> b_pow B g2 s1 = b_mulp B k2 (b_pow B pub2 c1) ->
  b_pow B g1 s2 = b_mulp B k1 (b_pow B (b_pow B g1 x) c2) -> b_pow B g2 s2 = b_mulp B k2 (b_pow B pub2 c2) ->
  c1 mod b_q B = c2 mod b_q B.
Proof. exact cp_false_statement_one_challenge. Qed.
Print Assumptions C07_wrong_factor_one_challenge.

(* batches: conjunction of the individual verifications; one bad pair at any position rejects *)
Theorem C07_batch_is_conjunction : forall (B : Backend) pk cs decs proofs label,
  length decs = length proofs -> length decs = length cs ->
  verify_decryption_factors B pk cs decs proofs label =
  Ok (forallb (fun x : ctext B * (E B * cproof B) => let '(c, (d, pf)) := x in
                 verify_decryption B pk d (mhr c) (gr c) pf label) (combine cs (combine decs proofs))).
Proof. exact verify_decryption_factors_spec. Qed.
Print Assumptions C07_batch_is_conjunction.

Theorem C07_one_bad_pair_rejects : forall (B : Backend) pk cs decs proofs label k c d pf,
  length decs = length proofs -> length decs = length cs ->
  nth_error cs k = Some c -> nth_error decs k = Some d -> nth_error proofs k = Some pf ->
  verify_decryption B pk d (mhr c) (gr c) pf label = false ->
  verify_decryption_factors B pk cs decs proofs label = Ok false.
Proof. exact verify_decryption_factors_one_bad. Qed.
Print Assumptions C07_one_bad_pair_rejects.

(* ristretto backend record, no group-law hypothesis (Proofs/RistrettoGroup.v): the factor and proof released by the key
   holder verify against the holder's public key and the ciphertext, and the plaintext returned is mhr - [sk]gr, for
   every key, nonce, label and every ciphertext whose second component has order dividing l — which every honestly
   made ciphertext has (gr = [r]B, second statement) *)
Theorem C07_ristretto_decrypt_and_prove : forall (K : Kernel) (PM : PMul) sk (c : ctext (RB K PM)) label r,
  valid (mhr c) -> valid (gr c) ->
  Edwards.nmul Fp f0 f1 fa fm fs fd dF Ln (aff (gr c)) = Edwards.eid Fp f0 f1 -> 0 <= sk -> 0 <= r ->
  exists d pf, decrypt_and_prove (RB K PM) sk (pk_of_sk (RB K PM) sk) c label r = Ok (d, pf) /\
    verify_decryption (RB K PM) (pk_of_sk (RB K PM) sk) (decryption_factor (RB K PM) sk c) (mhr c) (gr c) pf label = true /\
    valid d /\
    aff d = Edwards.eadd Fp f1 fa fm fs fd dF (aff (mhr c))
              (Edwards.eneg Fp fo (Edwards.nmul Fp f0 f1 fa fm fs fd dF (Z.to_nat sk) (aff (gr c)))).
Proof. exact rb_decrypt_and_prove_complete. Qed.
Print Assumptions C07_ristretto_decrypt_and_prove.

Theorem C07_ristretto_honest_ciphertexts_qualify : forall (K : Kernel) (PM : PMul) pk m r,
  Edwards.nmul Fp f0 f1 fa fm fs fd dF Ln (aff (gr (encrypt_with_randomness (RB K PM) pk m r))) = Edwards.eid Fp f0 f1.
Proof. exact rb_gr_order. Qed.
Print Assumptions C07_ristretto_honest_ciphertexts_qualify.
