(* C12 — serialization round-trips exactly, is injective, rejects trailing / missing bytes.
   RT v wr rd  :=  forall a rest, v a -> rd (wr a ++ rest) = Ok (a, rest)      (round trip under any suffix)
   PF v wr rd  :=  forall a b x, v a -> x <> [] -> b ++ x = wr a -> rd b = Err  (every strict prefix fails)
   and the four generic consequences below turn them into the API-level statements for `strict rd`
   (= StrandDeserialize::strand_deserialize). *)
From Coq Require Import ZArith List.
From Strand Require Import Base.ZUtil Model.Outcome Model.Codec Model.Backend Model.ZBackend Model.Zkp Model.Wire
  Proofs.ZLaws Proofs.CodecP Proofs.WireP.
Import ListNotations.
Open Scope Z_scope.

Theorem C12_decode_encode : forall {A} (v : A -> Prop) wr rd, RT v wr rd ->
  forall a, v a -> strict rd (wr a) = Ok a.
Proof. exact @rt_de. Qed.
Print Assumptions C12_decode_encode.

Theorem C12_appended_bytes_rejected : forall {A} (v : A -> Prop) wr rd, RT v wr rd ->
  forall a rest, v a -> rest <> [] -> strict rd (wr a ++ rest) = Err.
Proof. exact @rt_trailing. Qed.
Print Assumptions C12_appended_bytes_rejected.

Theorem C12_injective : forall {A} (v : A -> Prop) wr rd, RT v wr rd ->
  forall a b, v a -> v b -> wr a = wr b -> a = b.
Proof. exact @rt_inj. Qed.
Print Assumptions C12_injective.

Theorem C12_removed_bytes_rejected : forall {A} (v : A -> Prop) wr rd, PF v wr rd ->
  forall a b, v a -> (exists x, x <> [] /\ b ++ x = wr a) -> strict rd b = Err.
Proof. exact @pf_de. Qed.
Print Assumptions C12_removed_bytes_rejected.

Section AllWireTypes.
  Variable K : Kernel.
  Variable fl : flavor.
  Variable P : Params.
  Variable N : Z.      (* byte budget of the modulus: p < 2^(8N), N <= 2^32 - 1 so every u32 length prefix is exact *)
  Hypothesis HN : 1 <= N <= 4294967295.
  Hypothesis Hp1 : 1 < p_p P.
  Hypothesis HpN : p_p P < 2 ^ (8 * N).
  Hypothesis Hq : 0 < p_q P <= p_p P.

  (* every wire type of both multiplicative backends is such a codec: values are group members / canonical
     exponents / plaintexts below 2^(8N); vectors have fewer than 2^32 items *)
  Theorem C12_all_types_round_trip :
    RT (vE P) (wr_E fl) (rd_E K fl P) /\ RT (vX P) (wr_X fl) (rd_X fl P) /\ RT (vP N) (wr_P fl) (rd_P fl) /\
    RT (v_ct K fl P) (wr_ct K fl P) (rd_ct K fl P) /\ RT (vE P) (wr_pk fl) (rd_pk K fl P) /\
    RT (v_sk P) (wr_skp fl) (rd_sk K fl P) /\
    RT (v_schnorr K fl P) (wr_schnorr K fl P) (rd_schnorr K fl P) /\ RT (v_cp K fl P) (wr_cp K fl P) (rd_cp K fl P) /\
    RT (v_vecE fl P) (wr_vecE fl) (rd_vecE K fl P) /\ RT (v_vecX fl P) (wr_vecX fl) (rd_vecX fl P) /\
    RT (v_vecP fl N) (wr_vecP fl) (rd_vecP fl) /\ RT (v_vecC K fl P) (wr_vecC K fl P) (rd_vecC K fl P) /\
    RT (v_vecCP K fl P) (wr_vecCP K fl P) (rd_vecCP K fl P) /\ RT (v_proof fl P) (wr_proof fl) (rd_proof K fl P).
  Proof. repeat split; eauto using rt_E, rt_X, rt_P, rt_ct, rt_pk, rt_sk, rt_schnorr, rt_cp, rt_vecE, rt_vecX, rt_vecP, rt_vecC, rt_vecCP, rt_proof. Qed.

  Theorem C12_all_types_truncation_fails :
    PF (vE P) (wr_E fl) (rd_E K fl P) /\ PF (vX P) (wr_X fl) (rd_X fl P) /\ PF (vP N) (wr_P fl) (rd_P fl) /\
    PF (v_ct K fl P) (wr_ct K fl P) (rd_ct K fl P) /\ PF (vE P) (wr_pk fl) (rd_pk K fl P) /\
    PF (v_sk P) (wr_skp fl) (rd_sk K fl P) /\
    PF (v_schnorr K fl P) (wr_schnorr K fl P) (rd_schnorr K fl P) /\ PF (v_cp K fl P) (wr_cp K fl P) (rd_cp K fl P) /\
    PF (v_vecE fl P) (wr_vecE fl) (rd_vecE K fl P) /\ PF (v_vecX fl P) (wr_vecX fl) (rd_vecX fl P) /\
    PF (v_vecP fl N) (wr_vecP fl) (rd_vecP fl) /\ PF (v_vecC K fl P) (wr_vecC K fl P) (rd_vecC K fl P) /\
    PF (v_vecCP K fl P) (wr_vecCP K fl P) (rd_vecCP K fl P) /\ PF (v_proof fl P) (wr_proof fl) (rd_proof K fl P).
  Proof. repeat split; eauto using pf_E, pf_X, pf_P, pf_ct, pf_pk, pf_sk, pf_schnorr, pf_cp, pf_vecE, pf_vecX, pf_vecP, pf_vecC, pf_vecCP, pf_proof. Qed.
End AllWireTypes.
Print Assumptions C12_all_types_round_trip.
Print Assumptions C12_all_types_truncation_fails.

(* ristretto scalars (32 bytes, canonical) and plaintexts (30 bytes) are codecs in the same sense, so the four generic
   consequences above hold for them; ristretto points are 32 fixed bytes whose round trip is RFC 9496 ENCODE/DECODE,
   executed by the model and tied to curve25519-dalek on every check, not proved *)
From Strand Require Import Model.Ristretto Model.RBackend Proofs.RistrettoWireP.
Theorem C12_ristretto_scalars_and_plaintexts :
  RT (fun x => 0 <= x < ell) sc_to_bytes rd_RX /\ PF (fun x => 0 <= x < ell) sc_to_bytes rd_RX /\
  RT (fun m : bytes => length m = 30%nat) (fun m => m) rd_RP /\ PF (fun m : bytes => length m = 30%nat) (fun m => m) rd_RP.
Proof. exact (conj rt_RX (conj pf_RX (conj rt_RP pf_RP))). Qed.
Print Assumptions C12_ristretto_scalars_and_plaintexts.

(* ristretto elements: the encoding depends only on the curve point (not on the projective representation the arithmetic
   happens to produce), and a decoded element re-encodes to the bytes it came from — so equal group members serialise equal
   and decode(encode) / encode(decode) are identities on everything that comes off the wire (Proofs/RistrettoEncode.v,
   Proofs/RistrettoCanon.v). [sq_ok]: the encoder's inverse square root exists — true of every decoded point. *)
From Strand Require Import Base.ZUtil Base.ZpField Base.Edwards Model.Ristretto Model.RBackend Proofs.CodecP Proofs.RistrettoGroup
  Proofs.RistrettoCanon Proofs.RistrettoEncode.
Theorem C12_ristretto_encoding_depends_on_the_point_only : forall (K : Kernel) P Q, valid P -> valid Q -> aff P = aff Q ->
  (let '(x, y) := aff P in W1 x y = f0 \/ sq_ok (x, y)) -> compress K P = compress K Q.
Proof. exact compress_aff. Qed.
Print Assumptions C12_ristretto_encoding_depends_on_the_point_only.

Theorem C12_ristretto_encode_decode : forall (K : Kernel) bs P, bytes_ok bs -> decompress K bs = Some P -> compress K P = bs.
Proof. exact decompress_canonical. Qed.
Print Assumptions C12_ristretto_encode_decode.
