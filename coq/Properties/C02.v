(* C02 — a shuffle outputs exactly a re-encrypted permutation of its inputs. *)
From Coq Require Import ZArith List Permutation.
From Strand Require Import Model.Outcome Model.Codec Model.Backend Model.Zkp Model.Shuffler Model.Rng
  Proofs.Laws Proofs.ListAlg Proofs.ShuffleRel.
Import ListNotations.
Open Scope Z_scope.

(* the library's permutation sampler (rand 0.8 Fisher-Yates over u32 draws) returns a permutation of 0..n-1
   for EVERY random byte stream *)
Theorem C02_sampler_yields_permutation : forall (n : nat) (s : bytes) (l : list Z) (rest : bytes),
  (forall b, In b s -> 0 <= b < 256) ->
  gen_permutation n s = Ok (l, rest) -> Permutation l (iota n).
Proof. exact gen_permutation_is_perm. Qed.
Print Assumptions C02_sampler_yields_permutation.

(* output k is input perm[k] multiplied component-wise by an encryption of the identity under that input's
   returned exponent; same length; one exponent per input, returned unchanged *)
Theorem C02_relation : forall (B : Backend) pk perm es rs out rs',
  Permutation perm (iota (length es)) -> length rs = length es ->
  apply_permutation B pk perm es rs = Ok (out, rs') ->
  rs' = rs /\ length out = length es /\
  forall k, (k < length es)%nat ->
    exists i c r, nth_error perm k = Some (Z.of_nat i) /\ nth_error es i = Some c /\ nth_error rs i = Some r /\
                  nth_error out k = Some (reenc B pk c r).
Proof. exact apply_permutation_rel. Qed.
Print Assumptions C02_relation.

Theorem C02_total_on_permutations : forall (B : Backend) pk perm es rs,
  Permutation perm (iota (length es)) -> length rs = length es ->
  exists out, apply_permutation B pk perm es rs = Ok (out, rs).
Proof. exact apply_permutation_ok. Qed.
Print Assumptions C02_total_on_permutations.

(* nothing dropped, duplicated or altered: the outputs decrypt to a permutation of the input plaintexts *)
Theorem C02_plaintexts_preserved : forall (B : Backend) (mem : E B -> Prop), Laws B mem ->
  forall sk perm es rs out rs' ds,
  0 <= sk -> Forall (fun r => 0 <= r) rs -> Forall (wf_ct B mem) es ->
  Permutation perm (iota (length es)) -> length rs = length es ->
  apply_permutation B (pk_of_sk B sk) perm es rs = Ok (out, rs') ->
  mapM (decrypt B sk) es = Ok ds ->
  exists ds', mapM (decrypt B sk) out = Ok ds' /\ Permutation ds' ds /\ Forall (wf_ct B mem) out.
Proof. exact shuffle_preserves_plaintexts. Qed.
Print Assumptions C02_plaintexts_preserved.

(* any cascade of k >= 0 mixers, each with its own permutation and exponents *)
Theorem C02_cascade : forall (B : Backend) (mem : E B -> Prop), Laws B mem ->
  forall sk es final ds,
  0 <= sk -> Forall (wf_ct B mem) es -> cascade B (pk_of_sk B sk) es final ->
  mapM (decrypt B sk) es = Ok ds ->
  exists ds', mapM (decrypt B sk) final = Ok ds' /\ Permutation ds' ds.
Proof. exact cascade_preserves_plaintexts. Qed.
Print Assumptions C02_cascade.
