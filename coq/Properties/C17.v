(* C17 — derived generators are deterministic, valid, prefix-stable; distinctness is a property of SHA-512
   outputs and is established by kernel computation for concrete seeds, never assumed. *)
From Coq Require Import ZArith List Bool.
From Strand Require Import Base.ZUtil Base.FastArith Model.Outcome Model.Codec Model.Backend Model.ZBackend Model.Exec
  Model.Params2048 Proofs.ZLaws Proofs.ZInst Proofs.GeneratorsP.
Import ListNotations.
Open Scope Z_scope.

(* a function of (seed, count) by construction; prefix-stable for every seed and every count *)
Theorem C17_prefix_stable : forall K fl P (n k : nat) seed l, (k <= n)%nat ->
  generators K fl P n seed = Ok l -> generators K fl P k seed = Ok (firstn k l).
Proof. exact generators_prefix_stable. Qed.
Print Assumptions C17_prefix_stable.

Theorem C17_length : forall K fl P n seed l, generators K fl P n seed = Ok l -> length l = n.
Proof. exact generators_length. Qed.
Print Assumptions C17_length.

(* the i-th generator is a function of (seed, i) alone *)
Theorem C17_ith_depends_on_seed_and_index : forall K fl P n seed l i, generators K fl P n seed = Ok l -> (i < n)%nat ->
  exists g buf, gen_try K fl P 64 (seed ++ [103; 103; 101; 110]) (Z.of_nat i + 1) 0 = Ok (g, buf) /\ nth_error l i = Some g.
Proof. exact generators_nth. Qed.
Print Assumptions C17_ith_depends_on_seed_and_index.

(* valid: members of the order-q subgroup, >= 2 hence not the identity — for every safe-prime parameter set *)
Theorem C17_valid : forall K fl P, SafePrime P -> forall n seed l,
  generators K fl P n seed = Ok l -> Forall (fun g => member P g /\ 2 <= g) l.
Proof. exact generators_valid. Qed.
Print Assumptions C17_valid.

(* documented derivation: which bytes are hashed (seed ++ "ggen" ++ (index, count) pairs appended on every retry),
   reduction mod p, cofactor power, acceptance iff >= 2 *)
Check gen_try_spec.
Print Assumptions gen_try_spec.

Theorem C17_never_an_error : forall K fl P n seed, generators K fl P n seed <> Err.
Proof. exact generators_not_err. Qed.
Print Assumptions C17_never_an_error.

(* on a tiny group collisions are expected (birthday bound): the claim is NOT a consequence of the code *)
Check gens50_bigint_collision.

(* concrete seeds at 2048 bits (kernel computation with the BigZ evaluator): pairwise distinct, different from g *)
Theorem C17_p2048_empty_seed_32_distinct : forall l, generators K_fast Bigint P2048 32 [] = Ok l ->
  NoDup l /\ ~ In (p_g P2048) l.
Proof.
  intros l H.
  assert (E : match generators K_fast Bigint P2048 32 [] with
              | Ok l' => nodupb l' && negb (existsb (Z.eqb (p_g P2048)) l') | _ => false end = true)
    by (vm_compute; reflexivity).
  rewrite H in E. apply andb_prop in E. destruct E as [E1 E2]. split.
  - apply nodupb_sound. exact E1.
  - intro Hin. apply Bool.negb_true_iff in E2.
    assert (existsb (Z.eqb (p_g P2048)) l = true) by (apply existsb_exists; exists (p_g P2048); split; [exact Hin|apply Z.eqb_refl]).
    congruence.
Qed.
Print Assumptions C17_p2048_empty_seed_32_distinct.
