(* C03 — honest shuffle proofs always verify (completeness of the Terelius-Wikström proof as implemented). *)
From Coq Require Import ZArith List Permutation.
From Strand Require Import Base.ZUtil Model.Outcome Model.Codec Model.Backend Model.ZBackend Model.Zkp
  Model.Shuffler Proofs.Laws Proofs.ZLaws Proofs.ShuffleP
  Base.ZpField Base.Edwards Model.Ristretto Model.RistrettoFast Model.RBackend Proofs.RistrettoGroup Proofs.EdwardsBackend.
Open Scope Z_scope.

(* for EVERY backend satisfying the group laws, every N >= 1, every input list of member ciphertexts (repeats
   and identity components allowed), every public key, every N+1 member generators, every permutation, every
   re-encryption exponents, every assignment of the 4N+4 prover draws, every label and every hash function
   (hash_to_exp is a field of the backend; SHA-512 inside shuffle_us is just some function):
   the proof produced by gen_proof for the output of apply_permutation is accepted by check_proof. *)
Theorem C03_tw_complete : forall (B : Backend) (mem : E B -> Prop), Laws B mem ->
  forall (pk : E B) (gens : list (E B)) (es : list (ctext B)) (rs_reenc : list Z) (perm : list Z)
         (label : bytes) (draws : list Z) (e_primes : list (ctext B)) (rs' : list Z),
  mem pk -> Forall mem gens ->
  Forall (fun c => mem (mhr c) /\ mem (gr c)) es ->
  Permutation perm (map Z.of_nat (seq 0 (length es))) ->
  (1 <= length es)%nat -> length gens = S (length es) ->
  Forall (fun r => 0 <= r) rs_reenc -> length rs_reenc = length es ->
  Forall (fun r => 0 <= r) draws -> length draws = (4 * length es + 4)%nat ->
  apply_permutation B pk perm es rs_reenc = Ok (e_primes, rs') ->
  exists pf, gen_proof B pk gens es e_primes rs' perm label draws = Ok pf /\
             check_proof B pk gens pf es e_primes label = Ok true.
Proof. exact tw_complete. Qed.
Print Assumptions C03_tw_complete.

(* instance: both multiplicative backends, every admissible parameter set, every kernel *)
Theorem C03_mult_backends : forall K fl P, GoodParams P ->
  forall pk gens (es : list (ctext (ZB K fl P))) rs_reenc perm label draws e_primes rs',
  member P pk -> Forall (member P) gens ->
  Forall (fun c : ctext (ZB K fl P) => member P (mhr c) /\ member P (gr c)) es ->
  Permutation perm (map Z.of_nat (seq 0 (length es))) ->
  (1 <= length es)%nat -> length gens = S (length es) ->
  Forall (fun r => 0 <= r) rs_reenc -> length rs_reenc = length es ->
  Forall (fun r => 0 <= r) draws -> length draws = (4 * length es + 4)%nat ->
  apply_permutation (ZB K fl P) pk perm es rs_reenc = Ok (e_primes, rs') ->
  exists pf, gen_proof (ZB K fl P) pk gens es e_primes rs' perm label draws = Ok pf /\
             check_proof (ZB K fl P) pk gens pf es e_primes label = Ok true.
Proof. intros K fl P G. exact (tw_complete (ZB K fl P) (member P) (ZB_laws K fl P G)). Qed.
Print Assumptions C03_mult_backends.

(* the curve25519 Edwards group (affine points of order dividing l, the algebra the ristretto backend computes in:
   Proofs/EdwardsBackend.v rb_ab_morphism) satisfies the laws WITHOUT hypotheses, so shuffle-proof completeness holds
   for it outright, for every serialiser and hash function *)
Theorem C03_edwards_group : forall (K : Kernel) (PM : PMul),
  forall (pk : E (AB K)) (gens : list (E (AB K))) (es : list (ctext (AB K))) (rs_reenc : list Z) (perm : list Z)
         (label : bytes) (draws : list Z) (e_primes : list (ctext (AB K))) (rs' : list Z),
  memA pk -> Forall memA gens -> Forall (fun c : ctext (AB K) => memA (mhr c) /\ memA (gr c)) es ->
  Permutation perm (map Z.of_nat (seq 0 (length es))) ->
  (1 <= length es)%nat -> length gens = S (length es) ->
  Forall (fun r => 0 <= r) rs_reenc -> length rs_reenc = length es ->
  Forall (fun r => 0 <= r) draws -> length draws = (4 * length es + 4)%nat ->
  apply_permutation (AB K) pk perm es rs_reenc = Ok (e_primes, rs') ->
  exists pf, gen_proof (AB K) pk gens es e_primes rs' perm label draws = Ok pf /\
             check_proof (AB K) pk gens pf es e_primes label = Ok true.
Proof. intros K PM. exact (tw_complete (AB K) memA (AB_laws K)). Qed.
Print Assumptions C03_edwards_group.
