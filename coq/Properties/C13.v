(* C13 — decoding and verifying untrusted data never panics.
   np_reader rd := forall bs, rd bs <> Panic  — for EVERY byte string (no well-formedness assumed). *)
From Coq Require Import ZArith List.
From Strand Require Import Base.ZUtil Model.Outcome Model.Codec Model.Backend Model.ZBackend Model.Zkp Model.Wire
  Model.Shuffler Model.Exec Proofs.Laws Proofs.ZLaws Proofs.CodecP Proofs.WireP Proofs.ShuffleSpec Proofs.Untrusted.
From Strand Require Import Model.Ristretto Model.RistrettoFast Model.RBackend Proofs.RistrettoWireP.
Import ListNotations.
Open Scope Z_scope.

Theorem C13_no_decoder_panics : forall K fl P,
  np_reader (rd_E K fl P) /\ np_reader (rd_X fl P) /\ np_reader (rd_P fl) /\ np_reader (rd_ct K fl P) /\
  np_reader (rd_pk K fl P) /\ np_reader (rd_sk K fl P) /\ np_reader (rd_schnorr K fl P) /\ np_reader (rd_cp K fl P) /\
  np_reader (rd_vecE K fl P) /\ np_reader (rd_vecX fl P) /\ np_reader (rd_vecP fl) /\ np_reader (rd_vecC K fl P) /\
  np_reader (rd_vecCP K fl P) /\ np_reader (rd_proof K fl P).
Proof.
  intros K fl P.
  exact (conj (np_E K fl P) (conj (np_X fl P) (conj (np_P fl) (conj (np_ct K fl P) (conj (np_pk K fl P)
        (conj (np_sk K fl P) (conj (np_schnorr K fl P) (conj (np_cp K fl P) (conj (np_vecE K fl P)
        (conj (np_vecX fl P) (conj (np_vecP fl) (conj (np_vecC K fl P) (conj (np_vecCP K fl P) (np_proof K fl P)))))))))))))).
Qed.
Print Assumptions C13_no_decoder_panics.

Theorem C13_strict_decoders_never_panic : forall {A} (rd : reader A), np_reader rd -> forall bs, strict rd bs <> Panic.
Proof. exact @strict_np. Qed.
Print Assumptions C13_strict_decoders_never_panic.

(* bytes in, decision out: any decodable proof with any decodable ciphertext lists (any lengths, incl. N = 0
   and |es| <> |e'|), locally derived generators: check_proof returns a decision *)
Theorem C13_decode_then_check_shuffle : forall K fl P, GoodParams P ->
  forall pfb csb csb' pk h0 hs label w es es',
  bytes_ok pfb -> bytes_ok csb -> bytes_ok csb' ->
  de_proof K fl P pfb = Ok w ->
  strict (rd_vecC K fl P) csb = Ok es -> strict (rd_vecC K fl P) csb' = Ok es' ->
  member P pk -> member P h0 -> Forall (member P) hs -> length hs = length es ->
  exists b, check_proof (ZB K fl P) pk (h0 :: hs) (of_wire K fl P w) es es' label = Ok b.
Proof. exact decode_then_check_total. Qed.
Print Assumptions C13_decode_then_check_shuffle.

(* and for arbitrary (even non-member) contents, wrong component counts are a plain rejection *)
Theorem C13_wrong_counts_no_panic : forall (B : Backend) pk gens pf es e_primes label,
  gens <> [] -> ~ lengths_ok B pf es e_primes -> check_proof B pk gens pf es e_primes label = Ok false.
Proof. exact check_proof_wrong_counts. Qed.
Print Assumptions C13_wrong_counts_no_panic.

(* the third backend: every ristretto wire reader (32-byte points and scalars, 30-byte plaintexts, ciphertexts, keys,
   Schnorr / Chaum-Pedersen proofs, the vector wrappers and the shuffle proof) is total on EVERY byte string *)
Theorem C13_ristretto_decoders_never_panic : forall K PM,
  np_reader (rd_RE K) /\ np_reader rd_RX /\ np_reader rd_RP /\ np_reader (rd_Rct K PM) /\ np_reader (rd_Rsk K) /\
  np_reader (rd_Rschnorr K PM) /\ np_reader (rd_Rcp K PM) /\
  np_reader (rd_Rsvec (rd_RE K)) /\ np_reader (rd_Rsvec rd_RX) /\ np_reader (rd_Rsvec (rd_Rct K PM)) /\
  np_reader (rd_Rproof K PM).
Proof. exact ristretto_readers_never_panic. Qed.
Print Assumptions C13_ristretto_decoders_never_panic.
