(* C13 — decoding and verifying untrusted data never panics.
   np_reader rd := forall bs, rd bs <> Panic  — for EVERY byte string (no well-formedness assumed). *)
From Coq Require Import ZArith List.
From Strand Require Import Base.ZUtil Model.Outcome Model.Codec Model.Backend Model.ZBackend Model.Zkp Model.Wire
  Model.Shuffler Model.Exec Proofs.Laws Proofs.ZLaws Proofs.CodecP Proofs.WireP Proofs.ShuffleSpec Proofs.Untrusted.
From Strand Require Import Model.Ristretto Model.RistrettoFast Model.RBackend Proofs.RistrettoWireP.
Import ListNotations.
Open Scope Z_scope.

Theorem C13_no_decoder_panics : forall K fl P,
  np_reader (rd_E K fl P) /\ np_reader (rd_X fl P) /\ np_reader (rd_P fl) /\ np_reader (rd_ct K fl P) /\
  np_reader (rd_pk K fl P) /\ np_reader (rd_sk K fl P) /\ np_reader (rd_schnorr K fl P) /\ np_reader (rd_cp K fl P) /\
  np_reader (rd_vecE K fl P) /\ np_reader (rd_vecX fl P) /\ np_reader (rd_vecP fl) /\ np_reader (rd_vecC K fl P) /\
  np_reader (rd_vecCP K fl P) /\ np_reader (rd_proof K fl P).
Proof.
  intros K fl P.
  exact (conj (np_E K fl P) (conj (np_X fl P) (conj (np_P fl) (conj (np_ct K fl P) (conj (np_pk K fl P)
        (conj (np_sk K fl P) (conj (np_schnorr K fl P) (conj (np_cp K fl P) (conj (np_vecE K fl P)
        (conj (np_vecX fl P) (conj (np_vecP fl) (conj (np_vecC K fl P) (conj (np_vecCP K fl P) (np_proof K fl P)))))))))))))).
Qed.
Print Assumptions C13_no_decoder_panics.

Theorem C13_strict_decoders_never_panic : forall {A} (rd : reader A), np_reader rd -> forall bs, strict rd bs <> Panic.
Proof. exact @strict_np. Qed.
Print Assumptions C13_strict_decoders_never_panic.

(* bytes in, decision out: any decodable proof with any decodable ciphertext lists (any lengths, incl. N = 0
   and |es| <> |e'|), locally derived generators: check_proof returns a decision *)
Theorem C13_decode_then_check_shuffle : forall K fl P, GoodParams P ->
  forall pfb csb csb' pk h0 hs label w es es',
  bytes_ok pfb -> bytes_ok csb -> bytes_ok csb' ->
  de_proof K fl P pfb = Ok w ->
  strict (rd_vecC K fl P) csb = Ok es -> strict (rd_vecC K fl P) csb' = Ok es' ->
  member P pk -> member P h0 -> Forall (member P) hs -> length hs = length es ->
  exists b, check_proof (ZB K fl P) pk (h0 :: hs) (of_wire K fl P w) es es' label = Ok b.
Proof. exact decode_then_check_total. Qed.
Print Assumptions C13_decode_then_check_shuffle.

(* and for arbitrary (even non-member) contents, wrong component counts are a plain rejection *)
Theorem C13_wrong_counts_no_panic : forall (B : Backend) pk gens pf es e_primes label,
  gens <> [] -> ~ lengths_ok B pf es e_primes -> check_proof B pk gens pf es e_primes label = Ok false.
Proof. exact check_proof_wrong_counts. Qed.
Print Assumptions C13_wrong_counts_no_panic.

(* memory in proportion to the input, the model-level half: whatever a reader returns is BACKED by the bytes it consumed
   (size = bytes of every big integer + 4 per vector item and per length prefix), for every wire type and every byte
   string; an item count is accepted only if the announced items are backed by input (at least minsz bytes each) and an
   unbacked count is refused before any item is read. What the allocator does on top (borsh's cautious 4096-byte
   pre-allocation, Vec growth) is measured by the harness' counting allocator on every run, not proved. *)
From Strand Require Import Proofs.SizeP.
Theorem C13_decoded_data_is_backed_by_input : forall K fl P,
  BK bsz (rd_E K fl P) /\ BK bsz (rd_X fl P) /\ BK (sz_ct K fl P) (rd_ct K fl P) /\ BK bsz (rd_pk K fl P) /\
  BK sz_sk (rd_sk K fl P) /\ BK (sz_schnorr K fl P) (rd_schnorr K fl P) /\ BK (sz_cp K fl P) (rd_cp K fl P) /\
  BK (sz_vec bsz) (rd_vecE K fl P) /\ BK (sz_vec bsz) (rd_vecX fl P) /\ BK (sz_vec (sz_ct K fl P)) (rd_vecC K fl P) /\
  BK (sz_vec (sz_cp K fl P)) (rd_vecCP K fl P) /\ BK sz_proof (rd_proof K fl P).
Proof. exact decoded_data_is_backed_by_input. Qed.
Print Assumptions C13_decoded_data_is_backed_by_input.

Theorem C13_strict_decode_no_larger_than_input : forall {A} (sz : A -> nat) (rd : reader A), BK sz rd ->
  forall bs v, bytes_ok bs -> strict rd bs = Ok v -> (sz v <= length bs)%nat.
Proof. exact @strict_decode_no_larger_than_input. Qed.
Print Assumptions C13_strict_decode_no_larger_than_input.

Theorem C13_item_counts_are_backed : forall {A} minsz (rd : reader A),
  (forall bs l r, rd_vec minsz rd bs = Ok (l, r) -> (4 + length l * minsz <= length bs)%nat) /\
  (forall a r, length a = 4%nat -> Z.of_nat (length r) < le_int a * Z.of_nat minsz -> rd_vec minsz rd (a ++ r) = Err).
Proof. intros A minsz rd. split; [exact (rd_vec_count_backed minsz rd)|exact (rd_vec_unbacked_refused minsz rd)]. Qed.
Print Assumptions C13_item_counts_are_backed.

(* the third backend: every ristretto wire reader (32-byte points and scalars, 30-byte plaintexts, ciphertexts, keys,
   Schnorr / Chaum-Pedersen proofs, the vector wrappers and the shuffle proof) is total on EVERY byte string *)
Theorem C13_ristretto_decoders_never_panic : forall K PM,
  np_reader (rd_RE K) /\ np_reader rd_RX /\ np_reader rd_RP /\ np_reader (rd_Rct K PM) /\ np_reader (rd_Rsk K) /\
  np_reader (rd_Rschnorr K PM) /\ np_reader (rd_Rcp K PM) /\
  np_reader (rd_Rsvec (rd_RE K)) /\ np_reader (rd_Rsvec rd_RX) /\ np_reader (rd_Rsvec (rd_Rct K PM)) /\
  np_reader (rd_Rproof K PM).
Proof. exact ristretto_readers_never_panic. Qed.
Print Assumptions C13_ristretto_decoders_never_panic.
