(* C20 — Ed25519 wrappers: valid signatures verify, encodings round-trip, malformed encodings are rejected.
   The wrappers are modelled over the underlying library as an ORACLE (six section variables: which bytes the
   library accepts as keys/signatures, pk_of_sk, sign, verify). Completeness of the scheme is a premise of the
   composite theorem, not an axiom. That flipping a bit of message/signature/key is rejected is a computational
   property of Ed25519 (unforgeability) and is only observed on the implementation. *)
From Coq Require Import ZArith List.
From Strand Require Import Model.Outcome Model.Codec Model.Base64 Proofs.CodecP Proofs.Base64P
  Base.ZpField Base.Edwards Model.RistrettoFast Proofs.RistrettoGroup Proofs.Ed25519Group.
Import ListNotations.
Open Scope Z_scope.

Theorem C20_base64_round_trip : forall bs, bytes_ok bs -> b64_decode (b64_encode bs) = Ok bs.
Proof. exact b64_round_trip. Qed.
Print Assumptions C20_base64_round_trip.

(* decoding accepts ONLY canonical unpadded encodings: padding, non-alphabet bytes, length 1 mod 4 and non-zero
   trailing bits are all rejected *)
Theorem C20_base64_strict : forall s bs, b64_decode s = Ok bs -> b64_encode bs = s /\ bytes_ok bs.
Proof. exact b64_decode_canonical. Qed.
Print Assumptions C20_base64_strict.

Theorem C20_base64_injective : forall a b, bytes_ok a -> bytes_ok b -> b64_encode a = b64_encode b -> a = b.
Proof. exact b64_encode_injective. Qed.
Print Assumptions C20_base64_injective.

Theorem C20_base64_rejections : (forall s, In 61 s -> b64_decode s = Err) /\
  (forall s, (length s mod 4 = 1)%nat -> b64_decode s = Err) /\ (forall s, b64_decode s <> Panic).
Proof. exact (conj b64_rejects_padding (conj b64_rejects_len1mod4 b64_decode_no_panic)). Qed.
Print Assumptions C20_base64_rejections.

(* keys and signatures round-trip through bytes and strings; signing with a round-tripped key verifies under the
   round-tripped public key with the round-tripped signature, given a complete underlying scheme *)
Check w_sign_verify_after_round_trips.
Print Assumptions w_sign_verify_after_round_trips.
Check w_from_string_sound.
Print Assumptions w_from_string_sound.
Check w_deserialize_wrong_length.
Print Assumptions w_deserialize_wrong_length.

(* both frontends are the same functions of their primitives: if ed25519-zebra and ed25519-dalek agree as oracles
   (the correspondence check observes exactly that), every wrapper entry point agrees *)
Theorem C20_frontends_agree : forall (skv pkv sgv : bytes -> bool) p2s sgn vfy (skv' pkv' sgv' : bytes -> bool) p2s' sgn' vfy',
  (forall b, skv b = skv' b) -> (forall b, pkv b = pkv' b) -> (forall b, sgv b = sgv' b) -> (forall b, p2s b = p2s' b) ->
  (forall s m, sgn s m = sgn' s m) -> (forall p s m, vfy p s m = vfy' p s m) ->
  (forall k bs, w_deserialize skv pkv sgv k bs = w_deserialize skv' pkv' sgv' k bs) /\
  (forall k bs, w_to_string skv pkv sgv k bs = w_to_string skv' pkv' sgv' k bs) /\
  (forall k s, w_from_string skv pkv sgv k s = w_from_string skv' pkv' sgv' k s) /\
  (forall sk, w_public_key skv pkv sgv p2s sk = w_public_key skv' pkv' sgv' p2s' sk) /\
  (forall sk m, w_sign skv pkv sgv sgn sk m = w_sign skv' pkv' sgv' sgn' sk m) /\
  (forall pk sg m, w_verify skv pkv sgv vfy pk sg m = w_verify skv' pkv' sgv' vfy' pk sg m).
Proof. exact w_frontends_agree. Qed.
Print Assumptions C20_frontends_agree.

(* decision facts about the executable Ed25519 model of BOTH frontends' verification rules (Model/Ed25519.v, tied to
   ed25519-zebra and ed25519-dalek through the wrappers on every run): a signature whose S half is not the canonical
   32-byte encoding of an integer below the group order is never accepted — in particular the malleation S -> S + l of a
   valid signature, and any signature that is not exactly 64 bytes long; verification never panics. (That changing
   the message, R or the key is rejected is unforgeability: observed on the implementation, not provable.) *)
From Strand Require Import Base.ZUtil Model.Ristretto Model.RistrettoFast Model.Ed25519 Proofs.Ed25519P.
Theorem C20_malleated_and_misformed_signatures_rejected : forall K PM pk msg,
  (forall Rb S, length Rb = 32%nat -> 0 <= S -> S + ell < 2 ^ 256 ->
     ed_verify_zebra K PM pk (Rb ++ le_fixed 32 (S + ell)) msg <> Ok true /\
     ed_verify_dalek K PM pk (Rb ++ le_fixed 32 (S + ell)) msg <> Ok true) /\
  (forall sig, length sig <> 64%nat -> (32 <= length sig)%nat ->
     ed_verify_zebra K PM pk sig msg <> Ok true /\ ed_verify_dalek K PM pk sig msg <> Ok true) /\
  (forall sig, ed_verify_zebra K PM pk sig msg <> Panic /\ ed_verify_dalek K PM pk sig msg <> Panic) /\
  (forall seed, length (ed_sign K PM seed msg) = 64%nat).
Proof.
  intros K PM pk msg. split; [intros Rb S; exact (malleated_signature_rejected K PM pk Rb S msg)|].
  split; [intros sig; exact (wrong_length_S_rejected K PM pk sig msg)|].
  split; [intros sig; exact (verify_never_panics K PM pk sig msg)|intros seed; exact (signature_has_64_bytes K PM seed msg)].
Qed.
Print Assumptions C20_malleated_and_misformed_signatures_rejected.

(* the algebraic core of "every signed message verifies", on the executable Ed25519 model and from the PROVED group law of
   the curve (no group hypothesis): for every secret scalar a, nonce r and challenge k, with A = [a]B, R = [r]B and
   S = (r + k a) mod l, the point R - ([k](-A) + [S]B) examined by both verification rules is the neutral element, so the
   cofactored (ZIP-215) test of the model succeeds. The byte layer of a signature (decompress inverts compress) is not
   part of this statement. *)
Theorem C20_verification_equation_complete : forall (K : Kernel) (PM : PMul) a r k, 0 <= a -> 0 <= r -> 0 <= k ->
  let B := pt_base K in
  let A := pm_mul PM a B in
  let R := pm_mul PM r B in
  let s := sc_add K r (sc_mul K k a) in
  ed_is_identity (ed_mul8 K (pt_add K R (pt_neg K (ed_rprime K PM A k s)))) = true.
Proof. exact ed_equation_complete. Qed.
Print Assumptions C20_verification_equation_complete.

(* every public key and every commitment R that the Ed25519 verifiers decode is a valid point of the curve, for every byte
   string (Proofs/RistrettoDecode.v), so the proved group law applies to everything the verification rules compute with *)
From Strand Require Import Proofs.RistrettoDecode.
Theorem C20_decoded_points_are_curve_points : forall (K : Kernel) bs P, ed_decompress K bs = Some P -> valid P.
Proof. exact ed_decompress_valid. Qed.
Print Assumptions C20_decoded_points_are_curve_points.

(* END-TO-END, on the executable Ed25519 model and with no hypothesis: for every seed and every message, the 64-byte
   signature the model produces is accepted under the 32-byte public key the model derives — by the model of
   ed25519-zebra's verification (ZIP-215 rules: decode A and R, cofactored equation) and by the model of ed25519-dalek's
   `verify` (re-encode R' and compare bytes). Ingredients, all proved: the Edwards group law (Base/Edwards.v), [l]B = 0,
   SQRT_RATIO_M1 finds a root whenever one exists (Proofs/SqrtRatio.v: Fermat/Euler for p = 5 mod 8), point decoding
   inverts point encoding (Proofs/Ed25519Complete.v), canonical scalars round-trip. Both frontends sign with the same
   function, so they produce identical signatures and accept each other's. *)
From Strand Require Import Proofs.SqrtRatio Proofs.Ed25519Complete.
Theorem C20_signed_messages_verify : forall (K : Kernel) (PM : PMul) seed msg,
  ed_verify_zebra K PM (ed_pk K PM seed) (ed_sign K PM seed msg) msg = Ok true /\
  ed_verify_dalek K PM (ed_pk K PM seed) (ed_sign K PM seed msg) msg = Ok true.
Proof. intros K PM seed msg. exact (conj (ed_sign_verify_zebra K PM seed msg) (ed_sign_verify_dalek K PM seed msg)). Qed.
Print Assumptions C20_signed_messages_verify.

(* decoding inverts encoding on every valid point (both directions of the key / commitment wire format) *)
Theorem C20_point_codec_roundtrip : forall (K : Kernel) P, valid P ->
  exists Q, ed_decompress K (ed_compress K P) = Some Q /\ valid Q /\ aff Q = aff P.
Proof. exact ed_decompress_compress. Qed.
Print Assumptions C20_point_codec_roundtrip.
