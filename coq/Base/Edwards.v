(* Base/Edwards.v — the group law of a twisted Edwards curve  -x^2 + y^2 = 1 + d x^2 y^2  (a = -1) over an
   arbitrary field of characteristic <> 2 in which -1 is a square and d is not: the affine addition law is
   complete (no exceptional points), closed on the curve, commutative, associative, has neutral element (0,1)
   and inverses (-x, y). Proved once for an abstract field (Leibniz equality, decidable); instantiated with
   GF(2^255-19) in Proofs/RistrettoGroup.v. The polynomial identities are discharged by [field] / [nsatz];
   associativity uses the explicit ideal-membership certificate (cofactors of the three curve equations). *)
From Coq Require Import Ring Field Setoid Morphisms Lia.
From Coq Require Import Ncring Cring Integral_domain NsatzTactic.

Section Edwards.
  Variable F : Type.
  Variables (zero one : F) (add mul sub : F -> F -> F) (opp : F -> F) (div : F -> F -> F) (inv : F -> F).
  Hypothesis Fth : field_theory zero one add mul sub opp div inv (@eq F).
  Hypothesis F_eq_dec : forall a b : F, {a = b} + {a <> b}.
  Add Field Ff : Fth.

  Lemma mul_integral a b : mul a b = zero -> a = zero \/ b = zero.
  Proof.
    intro H. destruct (F_eq_dec a zero) as [E|E]; [left; exact E|right].
    assert (b = mul (inv a) (mul a b)) as -> by (field; exact E). rewrite H. ring.
  Qed.

  Lemma mul_nz a b : a <> zero -> b <> zero -> mul a b <> zero.
  Proof. intros Ha Hb H. destruct (mul_integral _ _ H); contradiction. Qed.

  Global Instance Fops : @Ring_ops F zero one add mul sub opp (@eq F) := {}.
  Global Instance Fri : Ring (Ro:=Fops).
  Proof.
    constructor; try (unfold respectful, Proper; unfold equality, eq_notation; cbn; intros; subst; reflexivity);
    try (intros; compute; ring).
    compute. exact eq_equivalence.
  Defined.
  Global Instance Fcri : Cring (Rr:=Fri).
  Proof. red. intros; compute; ring. Defined.
  Global Instance Fdi : Integral_domain (Rcr:=Fcri).
  Proof. constructor. exact mul_integral. exact (F_1_neq_0 Fth). Defined.

  Declare Scope F_scope.
  Delimit Scope F_scope with F.
  Local Open Scope F_scope.
  Infix "+" := add : F_scope.
  Infix "*" := mul : F_scope.
  Infix "-" := sub : F_scope.
  Infix "/" := div : F_scope.
  Notation "- x" := (opp x) : F_scope.

  Variable d : F.
  Variable i : F.
  Hypothesis d_nonsquare : forall x, x * x <> d.
  Hypothesis i_sq : i * i = - one.
  Hypothesis two_nz : one + one <> zero.

  Definition onc (P : F * F) : Prop :=
    let '(x, y) := P in y * y - x * x = one + d * x * x * y * y.

  Definition eid : F * F := (zero, one).
  Definition eneg (P : F * F) : F * F := let '(x, y) := P in (- x, y).
  Definition eadd (P Q : F * F) : F * F :=
    let '(x1, y1) := P in let '(x2, y2) := Q in
    ((x1 * y2 + y1 * x2) / (one + d * x1 * x2 * y1 * y2), (y1 * y2 + x1 * x2) / (one - d * x1 * x2 * y1 * y2)).

  (* completeness (Bernstein, Birkner, Joye, Lange, Peters 2008, section 6): the denominators never vanish *)
  Lemma eps_contra x1 y1 x2 y2 e :
    onc (x1, y1) -> onc (x2, y2) -> e = d * x1 * x2 * y1 * y2 -> e * e = one -> False.
  Proof.
    cbn. intros C1 C2 He He2.
    assert (Hx1 : x1 <> zero).
    { intro Z. apply (F_1_neq_0 Fth). subst x1. nsatz. }
    assert (Hy1 : y1 <> zero).
    { intro Z. apply (F_1_neq_0 Fth). subst y1. nsatz. }
    assert (A : (i * x1 + e * y1) * (i * x1 + e * y1) = d * x1 * x1 * y1 * y1 * ((i * x2 + y2) * (i * x2 + y2))) by nsatz.
    assert (B : (i * x1 - e * y1) * (i * x1 - e * y1) = d * x1 * x1 * y1 * y1 * ((i * x2 - y2) * (i * x2 - y2))) by nsatz.
    destruct (F_eq_dec (i * x2 + y2) zero) as [Z1|N1].
    - destruct (F_eq_dec (i * x2 - y2) zero) as [Z2|N2].
      + assert (T : (one + one) * y2 = zero) by nsatz.
        destruct (mul_integral _ _ T) as [T'|T']; [contradiction|].
        apply (F_1_neq_0 Fth). subst y2. nsatz.
      + apply (d_nonsquare ((i * x1 - e * y1) / (x1 * y1 * (i * x2 - y2)))).
        transitivity (((i * x1 - e * y1) * (i * x1 - e * y1)) / ((x1 * y1 * (i * x2 - y2)) * (x1 * y1 * (i * x2 - y2)))).
        * field. repeat split; assumption.
        * rewrite B. field. repeat split; assumption.
    - apply (d_nonsquare ((i * x1 + e * y1) / (x1 * y1 * (i * x2 + y2)))).
      transitivity (((i * x1 + e * y1) * (i * x1 + e * y1)) / ((x1 * y1 * (i * x2 + y2)) * (x1 * y1 * (i * x2 + y2)))).
      * field. repeat split; assumption.
      * rewrite A. field. repeat split; assumption.
  Qed.

  Lemma den_plus_nz x1 y1 x2 y2 : onc (x1, y1) -> onc (x2, y2) -> one + d * x1 * x2 * y1 * y2 <> zero.
  Proof.
    intros C1 C2 H. apply (eps_contra x1 y1 x2 y2 (d * x1 * x2 * y1 * y2) C1 C2 eq_refl).
    assert (E : d * x1 * x2 * y1 * y2 = - one) by nsatz. rewrite E. ring.
  Qed.

  Lemma den_minus_nz x1 y1 x2 y2 : onc (x1, y1) -> onc (x2, y2) -> one - d * x1 * x2 * y1 * y2 <> zero.
  Proof.
    intros C1 C2 H. apply (eps_contra x1 y1 x2 y2 (d * x1 * x2 * y1 * y2) C1 C2 eq_refl).
    assert (E : d * x1 * x2 * y1 * y2 = one) by nsatz. rewrite E. ring.
  Qed.

  Lemma onc_eid : onc eid.
  Proof. cbn. ring. Qed.

  Lemma onc_eneg P : onc P -> onc (eneg P).
  Proof. destruct P as [x y]. cbn. intro C. nsatz. Qed.

  Lemma eadd_onc P Q : onc P -> onc Q -> onc (eadd P Q).
  Proof.
    destruct P as [x1 y1], Q as [x2 y2]. intros C1 C2.
    pose proof (den_plus_nz _ _ _ _ C1 C2) as Dp. pose proof (den_minus_nz _ _ _ _ C1 C2) as Dm.
    cbn in *. field_simplify_eq; [|split; assumption]. nsatz.
  Qed.

  Lemma eadd_comm P Q : eadd P Q = eadd Q P.
  Proof.
    destruct P as [x1 y1], Q as [x2 y2]. cbn. f_equal; f_equal; ring.
  Qed.

  Lemma eadd_id_l P : eadd eid P = P.
  Proof.
    destruct P as [x y]. cbn. f_equal; field; rewrite ?(Rmul_0_l (F_R Fth)).
    all: intro H; apply (F_1_neq_0 Fth); rewrite <- H; ring.
  Qed.

  Lemma eadd_id_r P : eadd P eid = P.
  Proof. rewrite eadd_comm. apply eadd_id_l. Qed.

  Lemma eadd_neg_r P : onc P -> eadd P (eneg P) = eid.
  Proof.
    destruct P as [x y]. intro C. pose proof (onc_eneg _ C) as C'.
    pose proof (den_plus_nz _ _ _ _ C C') as Dp. pose proof (den_minus_nz _ _ _ _ C C') as Dm.
    cbn in *. unfold eid. f_equal.
    - field_simplify_eq; [ring | exact Dp].
    - field_simplify_eq; [nsatz | exact Dm].
  Qed.

  (* associativity, relational core: the intermediate sums enter through their defining equations; the two
     identities are checked by [ring] against explicit cofactors (generated with sympy, nothing trusted: the
     kernel re-checks the identity) *)
  Lemma assoc_core_x x1 y1 x2 y2 x3 y3 x12 y12 x23 y23 :
    onc (x1, y1) -> onc (x2, y2) -> onc (x3, y3) ->
    x12 * (one + d * x1 * x2 * y1 * y2) = x1 * y2 + y1 * x2 ->
    y12 * (one - d * x1 * x2 * y1 * y2) = y1 * y2 + x1 * x2 ->
    x23 * (one + d * x2 * x3 * y2 * y3) = x2 * y3 + y2 * x3 ->
    y23 * (one - d * x2 * x3 * y2 * y3) = y2 * y3 + x2 * x3 ->
    (one + d * x1 * x2 * y1 * y2) * (one - d * x1 * x2 * y1 * y2) * ((one + d * x2 * x3 * y2 * y3) * (one - d * x2 * x3 * y2 * y3)) * ((x12 * y3 + y12 * x3) * (one + d * x1 * x23 * y1 * y23) - (x1 * y23 + y1 * x23) * (one + d * x12 * x3 * y12 * y3)) = zero.
  Proof.
    cbn. intros C1 C2 C3 H1 H2 H3 H4.
    assert (E1 : y1 * y1 - x1 * x1 - one - d * x1 * x1 * y1 * y1 = zero) by (rewrite C1; ring).
    assert (E2 : y2 * y2 - x2 * x2 - one - d * x2 * x2 * y2 * y2 = zero) by (rewrite C2; ring).
    assert (E3 : y3 * y3 - x3 * x3 - one - d * x3 * x3 * y3 * y3 = zero) by (rewrite C3; ring).
    assert (G1 : x12 * (one + d * x1 * x2 * y1 * y2) - (x1 * y2 + y1 * x2) = zero) by (rewrite H1; ring).
    assert (G2 : y12 * (one - d * x1 * x2 * y1 * y2) - (y1 * y2 + x1 * x2) = zero) by (rewrite H2; ring).
    assert (G3 : x23 * (one + d * x2 * x3 * y2 * y3) - (x2 * y3 + y2 * x3) = zero) by (rewrite H3; ring).
    assert (G4 : y23 * (one - d * x2 * x3 * y2 * y3) - (y2 * y3 + x2 * x3) = zero) by (rewrite H4; ring).
    transitivity (
      (zero - x1 * y3 * d * d * x2 * x2 * x2 * x2 * x3 * x3 * y2 * y2 * y2 - x1 * x3 * d * d * x2 * x2 * x2 * y2 * y2 * y2 * y2 * y3 * y3 + x3 * y1 * d * d * x2 * x2 * x2 * x2 * y2 * y2 * y2 * y3 * y3 + y1 * y3 * d * d * x2 * x2 * x2 * x3 * x3 * y2 * y2 * y2 * y2 - d * x1 * y2 * y3 * x2 * x2 * x2 * x2 * x3 * x3 - d * x1 * x2 * x2 * x2 * x3 * x3 * x3 * y2 * y2 - d * x1 * x3 * x2 * x2 * x2 * y2 * y2 + d * x1 * x2 * x2 * y2 * y2 * y2 * y3 * y3 * y3 - d * x1 * y3 * x2 * x2 * y2 * y2 * y2 + d * x1 * x2 * x3 * y2 * y2 * y2 * y2 * y3 * y3 + d * x3 * y1 * y2 * x2 * x2 * x2 * x2 * y3 * y3 + d * y1 * x2 * x2 * x2 * y2 * y2 * y3 * y3 * y3 - d * y1 * y3 * x2 * x2 * x2 * y2 * y2 - d * y1 * x2 * x2 * x3 * x3 * x3 * y2 * y2 * y2 - d * x3 * y1 * x2 * x2 * y2 * y2 * y2 - d * x2 * y1 * y3 * x3 * x3 * y2 * y2 * y2 * y2) * (y1 * y1 - x1 * x1 - one - d * x1 * x1 * y1 * y1)
    + (y1 * y2 * d * d * x1 * x1 * x2 * x2 * x3 * x3 * x3 * y3 * y3 - x2 * y1 * d * d * x1 * x1 * x3 * x3 * y2 * y2 * y3 * y3 * y3 - x1 * y2 * d * d * x2 * x2 * x3 * x3 * y1 * y1 * y3 * y3 * y3 + x1 * x2 * d * d * x3 * x3 * x3 * y1 * y1 * y2 * y2 * y3 * y3 + d * y2 * y3 * x1 * x1 * x1 * x2 * x2 * x3 * x3 + d * x2 * x1 * x1 * x1 * x3 * x3 * x3 * y3 * y3 + d * x2 * x3 * x1 * x1 * x1 * y2 * y2 * y3 * y3 + d * y2 * x1 * x1 * x1 * x3 * x3 * y3 * y3 * y3 - d * x3 * y1 * y2 * x1 * x1 * x2 * x2 * y3 * y3 - d * x2 * y1 * y3 * x1 * x1 * x3 * x3 * y2 * y2 + d * x2 * y1 * x1 * x1 * x3 * x3 * y3 * y3 * y3 + d * y1 * y2 * x1 * x1 * x3 * x3 * x3 * y3 * y3 - d * x1 * y2 * y3 * x2 * x2 * x3 * x3 * y1 * y1 + d * x1 * y2 * y3 * x2 * x2 * x3 * x3 - d * x1 * x2 * x3 * x3 * x3 * y1 * y1 * y3 * y3 + d * x1 * x2 * x3 * x3 * x3 * y3 * y3 - d * x1 * x2 * x3 * y1 * y1 * y2 * y2 * y3 * y3 + d * x1 * x2 * x3 * y2 * y2 * y3 * y3 - d * x1 * y2 * x3 * x3 * y1 * y1 * y3 * y3 * y3 + d * x1 * y2 * x3 * x3 * y3 * y3 * y3 + d * x3 * y2 * x2 * x2 * y1 * y1 * y1 * y3 * y3 - d * x3 * y1 * y2 * x2 * x2 * y3 * y3 + d * x2 * y3 * x3 * x3 * y1 * y1 * y1 * y2 * y2 - d * x2 * x3 * x3 * y1 * y1 * y1 * y3 * y3 * y3 - d * x2 * y1 * y3 * x3 * x3 * y2 * y2 + d * x2 * y1 * x3 * x3 * y3 * y3 * y3 - d * y2 * x3 * x3 * x3 * y1 * y1 * y1 * y3 * y3 + d * y1 * y2 * x3 * x3 * x3 * y3 * y3 + x2 * x1 * x1 * x1 * x3 * x3 * x3 - x2 * x3 * x1 * x1 * x1 * y3 * y3 + x2 * x3 * x1 * x1 * x1 + y2 * y3 * x1 * x1 * x1 * x3 * x3 - y2 * x1 * x1 * x1 * y3 * y3 * y3 + y2 * y3 * x1 * x1 * x1 + x2 * y1 * y3 * x1 * x1 * x3 * x3 - x2 * y1 * x1 * x1 * y3 * y3 * y3 + x2 * y1 * y3 * x1 * x1 + y1 * y2 * x1 * x1 * x3 * x3 * x3 - x3 * y1 * y2 * x1 * x1 * y3 * y3 + x3 * y1 * y2 * x1 * x1 - x1 * x2 * x3 * x3 * x3 * y1 * y1 + x1 * x2 * x3 * x3 * x3 + x1 * x2 * x3 * y1 * y1 * y3 * y3 - x1 * x2 * x3 * y1 * y1 - x1 * x2 * x3 * y3 * y3 + x1 * x2 * x3 - x1 * y2 * y3 * x3 * x3 * y1 * y1 + x1 * y2 * y3 * x3 * x3 + x1 * y2 * y1 * y1 * y3 * y3 * y3 - x1 * y2 * y3 * y1 * y1 - x1 * y2 * y3 * y3 * y3 + x1 * y2 * y3 - x2 * y3 * x3 * x3 * y1 * y1 * y1 + x2 * y1 * y3 * x3 * x3 + x2 * y1 * y1 * y1 * y3 * y3 * y3 - x2 * y3 * y1 * y1 * y1 - x2 * y1 * y3 * y3 * y3 + x2 * y1 * y3 - y2 * x3 * x3 * x3 * y1 * y1 * y1 + y1 * y2 * x3 * x3 * x3 + x3 * y2 * y1 * y1 * y1 * y3 * y3 - x3 * y2 * y1 * y1 * y1 - x3 * y1 * y2 * y3 * y3 + x3 * y1 * y2) * (y2 * y2 - x2 * x2 - one - d * x2 * x2 * y2 * y2)
    + (zero - d * x3 * y1 * y2 * x1 * x1 * x2 * x2 + d * x2 * y1 * y3 * x1 * x1 * y2 * y2 + d * x1 * y2 * y3 * x2 * x2 * y1 * y1 - d * x1 * x2 * x3 * y1 * y1 * y2 * y2 - x3 * x1 * x1 * x1 * x2 * x2 * x2 - y2 * y3 * x1 * x1 * x1 * x2 * x2 + x2 * x3 * x1 * x1 * x1 * y2 * y2 - x2 * x3 * x1 * x1 * x1 + y3 * x1 * x1 * x1 * y2 * y2 * y2 - y2 * y3 * x1 * x1 * x1 - y1 * y3 * x1 * x1 * x2 * x2 * x2 - x3 * y1 * y2 * x1 * x1 * x2 * x2 + x2 * y1 * y3 * x1 * x1 * y2 * y2 - x2 * y1 * y3 * x1 * x1 + x3 * y1 * x1 * x1 * y2 * y2 * y2 - x3 * y1 * y2 * x1 * x1 + x1 * x3 * x2 * x2 * x2 * y1 * y1 - x1 * x3 * x2 * x2 * x2 + x1 * y2 * y3 * x2 * x2 * y1 * y1 - x1 * y2 * y3 * x2 * x2 - x1 * x2 * x3 * y1 * y1 * y2 * y2 + x1 * x2 * x3 * y1 * y1 + x1 * x2 * x3 * y2 * y2 - x1 * x2 * x3 - x1 * y3 * y1 * y1 * y2 * y2 * y2 + x1 * y2 * y3 * y1 * y1 + x1 * y3 * y2 * y2 * y2 - x1 * y2 * y3 + y3 * x2 * x2 * x2 * y1 * y1 * y1 - y1 * y3 * x2 * x2 * x2 + x3 * y2 * x2 * x2 * y1 * y1 * y1 - x3 * y1 * y2 * x2 * x2 - x2 * y3 * y1 * y1 * y1 * y2 * y2 + x2 * y3 * y1 * y1 * y1 + x2 * y1 * y3 * y2 * y2 - x2 * y1 * y3 - x3 * y1 * y1 * y1 * y2 * y2 * y2 + x3 * y2 * y1 * y1 * y1 + x3 * y1 * y2 * y2 * y2 - x3 * y1 * y2) * (y3 * y3 - x3 * x3 - one - d * x3 * x3 * y3 * y3)
    + (x23 * y23 * d * d * d * d * x1 * x1 * x2 * x2 * x2 * x3 * x3 * y1 * y1 * y2 * y2 * y2 * y3 * y3 * y3 - y1 * y12 * y23 * d * d * d * d * x1 * x1 * x2 * x2 * x2 * x3 * x3 * x3 * y2 * y2 * y2 * y3 * y3 * y3 - x1 * x23 * y12 * d * d * d * d * x2 * x2 * x2 * x3 * x3 * x3 * y1 * y1 * y2 * y2 * y2 * y3 * y3 * y3 + x1 * y1 * d * d * d * x2 * x2 * x2 * x3 * x3 * y2 * y2 * y2 * y3 * y3 * y3 - x1 * x23 * y1 * y23 * d * d * d * x2 * x2 * x3 * x3 * y2 * y2 * y3 * y3 * y3 + x1 * y12 * y23 * d * d * d * x2 * x2 * x3 * x3 * x3 * y2 * y2 * y3 * y3 * y3 + x23 * y1 * y12 * d * d * d * x2 * x2 * x3 * x3 * x3 * y2 * y2 * y3 * y3 * y3 - x2 * x23 * y2 * y23 * y3 * d * d * x1 * x1 * y1 * y1 + x2 * x3 * y1 * y12 * y2 * y23 * y3 * d * d * x1 * x1 + x1 * x2 * x23 * x3 * y12 * y2 * y3 * d * d * y1 * y1 - d * d * x2 * x2 * x3 * x3 * y2 * y2 * y3 * y3 * y3 - d * x1 * x2 * y1 * y2 * y3 + d * x1 * x23 * y1 * y23 * y3 - d * x1 * x3 * y12 * y23 * y3 - d * x23 * x3 * y1 * y12 * y3 + y3) * (x12 * (one + d * x1 * x2 * y1 * y2) - (x1 * y2 + y1 * x2))
    + (zero - x23 * y23 * d * d * d * d * x1 * x1 * x2 * x2 * x2 * x3 * x3 * x3 * y1 * y1 * y2 * y2 * y2 * y3 * y3 + y23 * d * d * d * x1 * x1 * x2 * x2 * x3 * x3 * x3 * y2 * y2 * y2 * y3 * y3 * y3 - x1 * y1 * d * d * d * x2 * x2 * x2 * x3 * x3 * x3 * y2 * y2 * y2 * y3 * y3 + x1 * y1 * y23 * d * d * d * x2 * x2 * x2 * x3 * x3 * x3 * y2 * y2 * y3 * y3 * y3 + x1 * x23 * y1 * d * d * d * x2 * x2 * x3 * x3 * x3 * y2 * y2 * y2 * y3 * y3 * y3 - x1 * x23 * y1 * y23 * d * d * d * x2 * x2 * x3 * x3 * x3 * y2 * y2 * y3 * y3 + x23 * d * d * d * x2 * x2 * x2 * x3 * x3 * x3 * y1 * y1 * y2 * y2 * y3 * y3 * y3 + x2 * x23 * x3 * y2 * y23 * d * d * x1 * x1 * y1 * y1 - d * d * x2 * x2 * x3 * x3 * x3 * y2 * y2 * y3 * y3 - d * x3 * y2 * y23 * y3 * x1 * x1 + d * x1 * x2 * x3 * y1 * y2 - d * x1 * x2 * x3 * y1 * y23 * y3 - d * x1 * x23 * x3 * y1 * y2 * y3 + d * x1 * x23 * x3 * y1 * y23 - d * x2 * x23 * x3 * y3 * y1 * y1 + x3) * (y12 * (one - d * x1 * x2 * y1 * y2) - (y1 * y2 + x1 * x2))
    + (zero - y23 * y3 * d * d * d * x1 * x1 * x1 * x2 * x2 * x2 * x3 * x3 * y1 * y1 * y2 * y2 + x3 * y23 * d * d * d * x1 * x1 * x1 * x2 * x2 * y1 * y1 * y2 * y2 * y2 * y3 * y3 - x3 * y3 * d * d * d * x1 * x1 * x2 * x2 * x2 * y1 * y1 * y1 * y2 * y2 * y2 + x3 * y23 * d * d * d * x1 * x1 * x2 * x2 * x2 * y1 * y1 * y1 * y2 * y2 * y3 * y3 - y23 * y3 * d * d * d * x1 * x1 * x2 * x2 * x3 * x3 * y1 * y1 * y1 * y2 * y2 * y2 + x3 * y2 * y23 * d * d * x1 * x1 * x1 * x2 * x2 * y1 * y1 - x2 * y23 * y3 * d * d * x1 * x1 * x1 * y1 * y1 * y2 * y2 + y1 * d * d * x1 * x1 * x2 * x2 * x3 * x3 * y2 * y2 * y3 * y3 - y1 * y2 * y23 * y3 * d * d * x1 * x1 * x2 * x2 * x3 * x3 + d * d * x1 * x1 * x2 * x2 * y1 * y1 * y1 * y2 * y2 - y2 * y23 * y3 * d * d * x1 * x1 * x2 * x2 * y1 * y1 * y1 + x2 * x3 * y23 * d * d * x1 * x1 * y1 * y1 * y1 * y2 * y2 - x2 * x3 * y1 * y23 * d * d * x1 * x1 * y2 * y2 * y3 * y3 + x1 * y2 * d * d * x2 * x2 * x2 * x3 * x3 * y1 * y1 * y3 * y3 - x1 * x3 * y2 * y23 * d * d * x2 * x2 * y1 * y1 * y3 * y3 + x1 * x2 * d * d * x3 * x3 * y1 * y1 * y2 * y2 * y2 * y3 * y3 - x1 * x2 * y23 * y3 * d * d * x3 * x3 * y1 * y1 * y2 * y2 + d * d * x2 * x2 * x3 * x3 * y1 * y1 * y1 * y2 * y2 * y3 * y3 - d * x2 * x3 * y1 * y2 * y3 * x1 * x1 + d * x2 * x3 * y1 * y23 * x1 * x1 + d * y1 * y2 * y23 * y3 * x1 * x1 - d * x1 * x3 * y3 * x2 * x2 * y1 * y1 + d * x1 * x2 * y23 * y3 * y1 * y1 - d * x1 * x3 * y3 * y1 * y1 * y2 * y2 + d * x1 * x3 * y2 * y23 * y1 * y1 - d * x2 * x3 * y2 * y3 * y1 * y1 * y1 + d * x2 * x3 * y1 * y2 * y3 - y1) * (x23 * (one + d * x2 * x3 * y2 * y3) - (x2 * y3 + y2 * x3))
    + (x3 * y3 * d * d * d * x1 * x1 * x1 * x2 * x2 * x2 * y1 * y1 * y2 * y2 * y2 + x3 * y2 * y3 * d * d * x1 * x1 * x1 * x2 * x2 * x2 * y1 * y1 + d * d * x1 * x1 * x1 * x2 * x2 * x3 * x3 * y1 * y1 * y2 * y2 - d * d * x1 * x1 * x1 * x2 * x2 * x3 * x3 * y2 * y2 * y3 * y3 - d * d * x1 * x1 * x1 * x2 * x2 * y1 * y1 * y2 * y2 * y3 * y3 + d * d * x1 * x1 * x1 * x2 * x2 * y1 * y1 * y2 * y2 - x2 * x3 * y3 * d * d * x1 * x1 * x1 * y1 * y1 * y2 * y2 * y2 - y1 * y2 * d * d * x1 * x1 * x2 * x2 * x2 * x3 * x3 * y3 * y3 - y2 * d * d * x1 * x1 * x2 * x2 * x2 * y1 * y1 * y1 * y3 * y3 + x2 * d * d * x1 * x1 * x3 * x3 * y1 * y1 * y1 * y2 * y2 * y2 - x2 * y1 * d * d * x1 * x1 * x3 * x3 * y2 * y2 * y2 * y3 * y3 - x1 * d * d * x2 * x2 * x3 * x3 * y1 * y1 * y2 * y2 * y3 * y3 - d * x2 * x3 * y2 * y3 * x1 * x1 * x1 + d * x2 * y1 * y2 * x1 * x1 * x3 * x3 + d * x2 * y1 * y2 * x1 * x1 * y3 * y3 + d * x1 * x2 * x2 * y1 * y1 * y3 * y3 + d * x1 * x2 * x3 * y2 * y3 * y1 * y1 - d * x1 * x2 * x3 * y2 * y3 + d * x1 * x3 * x3 * y1 * y1 * y2 * y2 - x1) * (y23 * (one - d * x2 * x3 * y2 * y3) - (y2 * y3 + x2 * x3)));
      [ring|].
    rewrite E1, E2, E3, G1, G2, G3, G4. ring.
  Qed.

  Lemma assoc_core_y x1 y1 x2 y2 x3 y3 x12 y12 x23 y23 :
    onc (x1, y1) -> onc (x2, y2) -> onc (x3, y3) ->
    x12 * (one + d * x1 * x2 * y1 * y2) = x1 * y2 + y1 * x2 ->
    y12 * (one - d * x1 * x2 * y1 * y2) = y1 * y2 + x1 * x2 ->
    x23 * (one + d * x2 * x3 * y2 * y3) = x2 * y3 + y2 * x3 ->
    y23 * (one - d * x2 * x3 * y2 * y3) = y2 * y3 + x2 * x3 ->
    (one + d * x1 * x2 * y1 * y2) * (one - d * x1 * x2 * y1 * y2) * ((one + d * x2 * x3 * y2 * y3) * (one - d * x2 * x3 * y2 * y3)) * ((y12 * y3 + x12 * x3) * (one - d * x1 * x23 * y1 * y23) - (y1 * y23 + x1 * x23) * (one - d * x12 * x3 * y12 * y3)) = zero.
  Proof.
    cbn. intros C1 C2 C3 H1 H2 H3 H4.
    assert (E1 : y1 * y1 - x1 * x1 - one - d * x1 * x1 * y1 * y1 = zero) by (rewrite C1; ring).
    assert (E2 : y2 * y2 - x2 * x2 - one - d * x2 * x2 * y2 * y2 = zero) by (rewrite C2; ring).
    assert (E3 : y3 * y3 - x3 * x3 - one - d * x3 * x3 * y3 * y3 = zero) by (rewrite C3; ring).
    assert (G1 : x12 * (one + d * x1 * x2 * y1 * y2) - (x1 * y2 + y1 * x2) = zero) by (rewrite H1; ring).
    assert (G2 : y12 * (one - d * x1 * x2 * y1 * y2) - (y1 * y2 + x1 * x2) = zero) by (rewrite H2; ring).
    assert (G3 : x23 * (one + d * x2 * x3 * y2 * y3) - (x2 * y3 + y2 * x3) = zero) by (rewrite H3; ring).
    assert (G4 : y23 * (one - d * x2 * x3 * y2 * y3) - (y2 * y3 + x2 * x3) = zero) by (rewrite H4; ring).
    transitivity (
      (x1 * x3 * d * d * x2 * x2 * x2 * x2 * y2 * y2 * y2 * y3 * y3 + x1 * y3 * d * d * x2 * x2 * x2 * x3 * x3 * y2 * y2 * y2 * y2 - y1 * y3 * d * d * x2 * x2 * x2 * x2 * x3 * x3 * y2 * y2 * y2 - x3 * y1 * d * d * x2 * x2 * x2 * y2 * y2 * y2 * y2 * y3 * y3 + d * x1 * x3 * y2 * x2 * x2 * x2 * x2 * y3 * y3 + d * x1 * x2 * x2 * x2 * y2 * y2 * y3 * y3 * y3 - d * x1 * y3 * x2 * x2 * x2 * y2 * y2 - d * x1 * x2 * x2 * x3 * x3 * x3 * y2 * y2 * y2 - d * x1 * x3 * x2 * x2 * y2 * y2 * y2 - d * x1 * x2 * y3 * x3 * x3 * y2 * y2 * y2 * y2 - d * y1 * y2 * y3 * x2 * x2 * x2 * x2 * x3 * x3 - d * y1 * x2 * x2 * x2 * x3 * x3 * x3 * y2 * y2 - d * x3 * y1 * x2 * x2 * x2 * y2 * y2 + d * y1 * x2 * x2 * y2 * y2 * y2 * y3 * y3 * y3 - d * y1 * y3 * x2 * x2 * y2 * y2 * y2 + d * x2 * x3 * y1 * y2 * y2 * y2 * y2 * y3 * y3) * (y1 * y1 - x1 * x1 - one - d * x1 * x1 * y1 * y1)
    + (y1 * y2 * d * d * x1 * x1 * x2 * x2 * x3 * x3 * y3 * y3 * y3 - x2 * y1 * d * d * x1 * x1 * x3 * x3 * x3 * y2 * y2 * y3 * y3 - x1 * y2 * d * d * x2 * x2 * x3 * x3 * x3 * y1 * y1 * y3 * y3 + x1 * x2 * d * d * x3 * x3 * y1 * y1 * y2 * y2 * y3 * y3 * y3 - d * x3 * y2 * x1 * x1 * x1 * x2 * x2 * y3 * y3 - d * x2 * y3 * x1 * x1 * x1 * x3 * x3 * y2 * y2 + d * x2 * x1 * x1 * x1 * x3 * x3 * y3 * y3 * y3 + d * y2 * x1 * x1 * x1 * x3 * x3 * x3 * y3 * y3 + d * y1 * y2 * y3 * x1 * x1 * x2 * x2 * x3 * x3 + d * x2 * y1 * x1 * x1 * x3 * x3 * x3 * y3 * y3 + d * x2 * x3 * y1 * x1 * x1 * y2 * y2 * y3 * y3 + d * y1 * y2 * x1 * x1 * x3 * x3 * y3 * y3 * y3 + d * x1 * x3 * y2 * x2 * x2 * y1 * y1 * y3 * y3 - d * x1 * x3 * y2 * x2 * x2 * y3 * y3 + d * x1 * x2 * y3 * x3 * x3 * y1 * y1 * y2 * y2 - d * x1 * x2 * x3 * x3 * y1 * y1 * y3 * y3 * y3 - d * x1 * x2 * y3 * x3 * x3 * y2 * y2 + d * x1 * x2 * x3 * x3 * y3 * y3 * y3 - d * x1 * y2 * x3 * x3 * x3 * y1 * y1 * y3 * y3 + d * x1 * y2 * x3 * x3 * x3 * y3 * y3 - d * y2 * y3 * x2 * x2 * x3 * x3 * y1 * y1 * y1 + d * y1 * y2 * y3 * x2 * x2 * x3 * x3 - d * x2 * x3 * x3 * x3 * y1 * y1 * y1 * y3 * y3 + d * x2 * y1 * x3 * x3 * x3 * y3 * y3 - d * x2 * x3 * y1 * y1 * y1 * y2 * y2 * y3 * y3 + d * x2 * x3 * y1 * y2 * y2 * y3 * y3 - d * y2 * x3 * x3 * y1 * y1 * y1 * y3 * y3 * y3 + d * y1 * y2 * x3 * x3 * y3 * y3 * y3 + x2 * y3 * x1 * x1 * x1 * x3 * x3 - x2 * x1 * x1 * x1 * y3 * y3 * y3 + x2 * y3 * x1 * x1 * x1 + y2 * x1 * x1 * x1 * x3 * x3 * x3 - x3 * y2 * x1 * x1 * x1 * y3 * y3 + x3 * y2 * x1 * x1 * x1 + x2 * y1 * x1 * x1 * x3 * x3 * x3 - x2 * x3 * y1 * x1 * x1 * y3 * y3 + x2 * x3 * y1 * x1 * x1 + y1 * y2 * y3 * x1 * x1 * x3 * x3 - y1 * y2 * x1 * x1 * y3 * y3 * y3 + y1 * y2 * y3 * x1 * x1 - x1 * x2 * y3 * x3 * x3 * y1 * y1 + x1 * x2 * y3 * x3 * x3 + x1 * x2 * y1 * y1 * y3 * y3 * y3 - x1 * x2 * y3 * y1 * y1 - x1 * x2 * y3 * y3 * y3 + x1 * x2 * y3 - x1 * y2 * x3 * x3 * x3 * y1 * y1 + x1 * y2 * x3 * x3 * x3 + x1 * x3 * y2 * y1 * y1 * y3 * y3 - x1 * x3 * y2 * y1 * y1 - x1 * x3 * y2 * y3 * y3 + x1 * x3 * y2 - x2 * x3 * x3 * x3 * y1 * y1 * y1 + x2 * y1 * x3 * x3 * x3 + x2 * x3 * y1 * y1 * y1 * y3 * y3 - x2 * x3 * y1 * y1 * y1 - x2 * x3 * y1 * y3 * y3 + x2 * x3 * y1 - y2 * y3 * x3 * x3 * y1 * y1 * y1 + y1 * y2 * y3 * x3 * x3 + y2 * y1 * y1 * y1 * y3 * y3 * y3 - y2 * y3 * y1 * y1 * y1 - y1 * y2 * y3 * y3 * y3 + y1 * y2 * y3) * (y2 * y2 - x2 * x2 - one - d * x2 * x2 * y2 * y2)
    + (zero - d * y1 * y2 * y3 * x1 * x1 * x2 * x2 + d * x2 * x3 * y1 * x1 * x1 * y2 * y2 + d * x1 * x3 * y2 * x2 * x2 * y1 * y1 - d * x1 * x2 * y3 * y1 * y1 * y2 * y2 - y3 * x1 * x1 * x1 * x2 * x2 * x2 - x3 * y2 * x1 * x1 * x1 * x2 * x2 + x2 * y3 * x1 * x1 * x1 * y2 * y2 - x2 * y3 * x1 * x1 * x1 + x3 * x1 * x1 * x1 * y2 * y2 * y2 - x3 * y2 * x1 * x1 * x1 - x3 * y1 * x1 * x1 * x2 * x2 * x2 - y1 * y2 * y3 * x1 * x1 * x2 * x2 + x2 * x3 * y1 * x1 * x1 * y2 * y2 - x2 * x3 * y1 * x1 * x1 + y1 * y3 * x1 * x1 * y2 * y2 * y2 - y1 * y2 * y3 * x1 * x1 + x1 * y3 * x2 * x2 * x2 * y1 * y1 - x1 * y3 * x2 * x2 * x2 + x1 * x3 * y2 * x2 * x2 * y1 * y1 - x1 * x3 * y2 * x2 * x2 - x1 * x2 * y3 * y1 * y1 * y2 * y2 + x1 * x2 * y3 * y1 * y1 + x1 * x2 * y3 * y2 * y2 - x1 * x2 * y3 - x1 * x3 * y1 * y1 * y2 * y2 * y2 + x1 * x3 * y2 * y1 * y1 + x1 * x3 * y2 * y2 * y2 - x1 * x3 * y2 + x3 * x2 * x2 * x2 * y1 * y1 * y1 - x3 * y1 * x2 * x2 * x2 + y2 * y3 * x2 * x2 * y1 * y1 * y1 - y1 * y2 * y3 * x2 * x2 - x2 * x3 * y1 * y1 * y1 * y2 * y2 + x2 * x3 * y1 * y1 * y1 + x2 * x3 * y1 * y2 * y2 - x2 * x3 * y1 - y3 * y1 * y1 * y1 * y2 * y2 * y2 + y2 * y3 * y1 * y1 * y1 + y1 * y3 * y2 * y2 * y2 - y1 * y2 * y3) * (y3 * y3 - x3 * x3 - one - d * x3 * x3 * y3 * y3)
    + (zero - x23 * y23 * d * d * d * d * x1 * x1 * x2 * x2 * x2 * x3 * x3 * x3 * y1 * y1 * y2 * y2 * y2 * y3 * y3 + x23 * y1 * y12 * d * d * d * d * x1 * x1 * x2 * x2 * x2 * x3 * x3 * x3 * y2 * y2 * y2 * y3 * y3 * y3 + x1 * y12 * y23 * d * d * d * d * x2 * x2 * x2 * x3 * x3 * x3 * y1 * y1 * y2 * y2 * y2 * y3 * y3 * y3 + x1 * y1 * d * d * d * x2 * x2 * x2 * x3 * x3 * x3 * y2 * y2 * y2 * y3 * y3 + x1 * x23 * y1 * y23 * d * d * d * x2 * x2 * x3 * x3 * x3 * y2 * y2 * y3 * y3 - x1 * x23 * y12 * d * d * d * x2 * x2 * x3 * x3 * x3 * y2 * y2 * y3 * y3 * y3 - y1 * y12 * y23 * d * d * d * x2 * x2 * x3 * x3 * x3 * y2 * y2 * y3 * y3 * y3 + x2 * x23 * x3 * y2 * y23 * d * d * x1 * x1 * y1 * y1 - x2 * x23 * x3 * y1 * y12 * y2 * y3 * d * d * x1 * x1 - x1 * x2 * x3 * y12 * y2 * y23 * y3 * d * d * y1 * y1 - d * d * x2 * x2 * x3 * x3 * x3 * y2 * y2 * y3 * y3 - d * x1 * x2 * x3 * y1 * y2 - d * x1 * x23 * x3 * y1 * y23 + d * x1 * x23 * x3 * y12 * y3 + d * x3 * y1 * y12 * y23 * y3 + x3) * (x12 * (one + d * x1 * x2 * y1 * y2) - (x1 * y2 + y1 * x2))
    + (x23 * y23 * d * d * d * d * x1 * x1 * x2 * x2 * x2 * x3 * x3 * y1 * y1 * y2 * y2 * y2 * y3 * y3 * y3 - x23 * d * d * d * x1 * x1 * x2 * x2 * x3 * x3 * x3 * y2 * y2 * y2 * y3 * y3 * y3 - x1 * x23 * y1 * d * d * d * x2 * x2 * x2 * x3 * x3 * x3 * y2 * y2 * y3 * y3 * y3 - x1 * y1 * d * d * d * x2 * x2 * x2 * x3 * x3 * y2 * y2 * y2 * y3 * y3 * y3 + x1 * x23 * y1 * y23 * d * d * d * x2 * x2 * x3 * x3 * y2 * y2 * y3 * y3 * y3 - x1 * y1 * y23 * d * d * d * x2 * x2 * x3 * x3 * x3 * y2 * y2 * y2 * y3 * y3 * y3 - y23 * d * d * d * x2 * x2 * x2 * x3 * x3 * x3 * y1 * y1 * y2 * y2 * y3 * y3 * y3 - x2 * x23 * y2 * y23 * y3 * d * d * x1 * x1 * y1 * y1 - d * d * x2 * x2 * x3 * x3 * y2 * y2 * y3 * y3 * y3 + d * x23 * x3 * y2 * y3 * x1 * x1 + d * x1 * x2 * x23 * x3 * y1 * y3 + d * x1 * x2 * y1 * y2 * y3 - d * x1 * x23 * y1 * y23 * y3 + d * x1 * x3 * y1 * y2 * y23 * y3 + d * x2 * x3 * y23 * y3 * y1 * y1 + y3) * (y12 * (one - d * x1 * x2 * y1 * y2) - (y1 * y2 + x1 * x2))
    + (zero - x3 * y3 * d * d * d * x1 * x1 * x1 * x2 * x2 * x2 * y1 * y1 * y2 * y2 * y2 + x3 * y23 * d * d * d * x1 * x1 * x1 * x2 * x2 * x2 * y1 * y1 * y2 * y2 * y3 * y3 - y23 * y3 * d * d * d * x1 * x1 * x1 * x2 * x2 * x3 * x3 * y1 * y1 * y2 * y2 * y2 - y23 * y3 * d * d * d * x1 * x1 * x2 * x2 * x2 * x3 * x3 * y1 * y1 * y1 * y2 * y2 + x3 * y23 * d * d * d * x1 * x1 * x2 * x2 * y1 * y1 * y1 * y2 * y2 * y2 * y3 * y3 - d * d * x1 * x1 * x1 * x2 * x2 * x3 * x3 * y2 * y2 * y3 * y3 + d * d * x1 * x1 * x1 * x2 * x2 * y1 * y1 * y2 * y2 - y2 * y23 * y3 * d * d * x1 * x1 * x1 * x2 * x2 * y1 * y1 + x2 * x3 * y23 * d * d * x1 * x1 * x1 * y1 * y1 * y2 * y2 - y1 * y2 * d * d * x1 * x1 * x2 * x2 * x2 * x3 * x3 * y3 * y3 + x3 * y2 * y23 * d * d * x1 * x1 * x2 * x2 * y1 * y1 * y1 + x3 * y1 * y2 * y23 * d * d * x1 * x1 * x2 * x2 * y3 * y3 - x2 * y1 * d * d * x1 * x1 * x3 * x3 * y2 * y2 * y2 * y3 * y3 + x2 * y1 * y23 * y3 * d * d * x1 * x1 * x3 * x3 * y2 * y2 - x2 * y23 * y3 * d * d * x1 * x1 * y1 * y1 * y1 * y2 * y2 - x1 * d * d * x2 * x2 * x3 * x3 * y1 * y1 * y2 * y2 * y3 * y3 + x1 * y2 * y23 * y3 * d * d * x2 * x2 * x3 * x3 * y1 * y1 + x1 * x2 * x3 * y23 * d * d * y1 * y1 * y2 * y2 * y3 * y3 + d * x2 * x3 * y2 * y3 * x1 * x1 * x1 + d * x3 * y1 * y3 * x1 * x1 * x2 * x2 - d * x2 * y1 * y23 * y3 * x1 * x1 + d * x3 * y1 * y3 * x1 * x1 * y2 * y2 - d * x3 * y1 * y2 * y23 * x1 * x1 + d * x1 * x2 * x3 * y2 * y3 * y1 * y1 - d * x1 * x2 * x3 * y23 * y1 * y1 + d * x1 * x2 * x3 * y2 * y3 - d * x1 * y2 * y23 * y3 * y1 * y1 - x1) * (x23 * (one + d * x2 * x3 * y2 * y3) - (x2 * y3 + y2 * x3))
    + (x3 * y3 * d * d * d * x1 * x1 * x2 * x2 * x2 * y1 * y1 * y1 * y2 * y2 * y2 - y2 * d * d * x1 * x1 * x1 * x2 * x2 * x2 * y1 * y1 * y3 * y3 + x2 * d * d * x1 * x1 * x1 * x3 * x3 * y1 * y1 * y2 * y2 * y2 + x3 * y2 * y3 * d * d * x1 * x1 * x2 * x2 * x2 * y1 * y1 * y1 + d * d * x1 * x1 * x2 * x2 * x3 * x3 * y1 * y1 * y1 * y2 * y2 + y1 * d * d * x1 * x1 * x2 * x2 * x3 * x3 * y2 * y2 * y3 * y3 - d * d * x1 * x1 * x2 * x2 * y1 * y1 * y1 * y2 * y2 * y3 * y3 + d * d * x1 * x1 * x2 * x2 * y1 * y1 * y1 * y2 * y2 - x2 * x3 * y3 * d * d * x1 * x1 * y1 * y1 * y1 * y2 * y2 * y2 + x1 * y2 * d * d * x2 * x2 * x2 * x3 * x3 * y1 * y1 * y3 * y3 + x1 * x2 * d * d * x3 * x3 * y1 * y1 * y2 * y2 * y2 * y3 * y3 + d * d * x2 * x2 * x3 * x3 * y1 * y1 * y1 * y2 * y2 * y3 * y3 - d * y1 * x1 * x1 * x2 * x2 * y3 * y3 - d * x2 * x3 * y1 * y2 * y3 * x1 * x1 - d * y1 * x1 * x1 * x3 * x3 * y2 * y2 - d * x1 * x2 * y2 * x3 * x3 * y1 * y1 - d * x1 * x2 * y2 * y1 * y1 * y3 * y3 + d * x2 * x3 * y2 * y3 * y1 * y1 * y1 - d * x2 * x3 * y1 * y2 * y3 - y1) * (y23 * (one - d * x2 * x3 * y2 * y3) - (y2 * y3 + x2 * x3)));
      [ring|].
    rewrite E1, E2, E3, G1, G2, G3, G4. ring.
  Qed.

  Lemma cancel_nz k a : k <> zero -> k * a = zero -> a = zero.
  Proof. intros Hk H. destruct (mul_integral _ _ H); [contradiction|assumption]. Qed.

  Lemma div_eq u v u' v' : v <> zero -> v' <> zero -> u * v' - u' * v = zero -> u / v = u' / v'.
  Proof.
    intros Hv Hv' H. assert (E : u * v' = u' * v) by nsatz.
    field_simplify_eq; [|split; assumption]. rewrite E. ring.
  Qed.

  Theorem eadd_assoc P Q R : onc P -> onc Q -> onc R -> eadd (eadd P Q) R = eadd P (eadd Q R).
  Proof.
    destruct P as [x1 y1], Q as [x2 y2], R as [x3 y3]. intros C1 C2 C3.
    pose proof (den_plus_nz _ _ _ _ C1 C2) as A12. pose proof (den_minus_nz _ _ _ _ C1 C2) as B12.
    pose proof (den_plus_nz _ _ _ _ C2 C3) as A23. pose proof (den_minus_nz _ _ _ _ C2 C3) as B23.
    pose proof (eadd_onc _ _ C1 C2) as C12. pose proof (eadd_onc _ _ C2 C3) as C23.
    unfold eadd in C12, C23 |- *.
    remember ((x1 * y2 + y1 * x2) / (one + d * x1 * x2 * y1 * y2)) as x12 eqn:Ex12.
    remember ((y1 * y2 + x1 * x2) / (one - d * x1 * x2 * y1 * y2)) as y12 eqn:Ey12.
    remember ((x2 * y3 + y2 * x3) / (one + d * x2 * x3 * y2 * y3)) as x23 eqn:Ex23.
    remember ((y2 * y3 + x2 * x3) / (one - d * x2 * x3 * y2 * y3)) as y23 eqn:Ey23.
    assert (H1 : x12 * (one + d * x1 * x2 * y1 * y2) = x1 * y2 + y1 * x2) by (subst x12; field; assumption).
    assert (H2 : y12 * (one - d * x1 * x2 * y1 * y2) = y1 * y2 + x1 * x2) by (subst y12; field; assumption).
    assert (H3 : x23 * (one + d * x2 * x3 * y2 * y3) = x2 * y3 + y2 * x3) by (subst x23; field; assumption).
    assert (H4 : y23 * (one - d * x2 * x3 * y2 * y3) = y2 * y3 + x2 * x3) by (subst y23; field; assumption).
    clear Ex12 Ey12 Ex23 Ey23.
    pose proof (den_plus_nz _ _ _ _ C12 C3) as AL. pose proof (den_minus_nz _ _ _ _ C12 C3) as BL.
    pose proof (den_plus_nz _ _ _ _ C1 C23) as AR. pose proof (den_minus_nz _ _ _ _ C1 C23) as BR.
    assert (K : (one + d * x1 * x2 * y1 * y2) * (one - d * x1 * x2 * y1 * y2)
                * ((one + d * x2 * x3 * y2 * y3) * (one - d * x2 * x3 * y2 * y3)) <> zero)
      by (repeat apply mul_nz; assumption).
    f_equal.
    - apply div_eq; [exact AL|exact AR|]. apply (cancel_nz _ _ K).
      exact (assoc_core_x x1 y1 x2 y2 x3 y3 x12 y12 x23 y23 C1 C2 C3 H1 H2 H3 H4).
    - apply div_eq; [exact BL|exact BR|]. apply (cancel_nz _ _ K).
      exact (assoc_core_y x1 y1 x2 y2 x3 y3 x12 y12 x23 y23 C1 C2 C3 H1 H2 H3 H4).
  Qed.

  (* ---- multiples ---- *)
  Fixpoint nmul (n : nat) (P : F * F) : F * F :=
    match n with O => eid | S k => eadd P (nmul k P) end.

  Fixpoint pmul (e : positive) (P : F * F) : F * F :=
    match e with
    | xH => P
    | xO e' => let h := pmul e' P in eadd h h
    | xI e' => let h := pmul e' P in eadd (eadd h h) P
    end.

  Lemma nmul_onc n P : onc P -> onc (nmul n P).
  Proof. intro C. induction n as [|n IH]; cbn [nmul]; [exact onc_eid | apply eadd_onc; assumption]. Qed.

  Lemma nmul_add a b P : onc P -> nmul (a + b) P = eadd (nmul a P) (nmul b P).
  Proof.
    intro C. induction a as [|a IH]; cbn [nmul Nat.add].
    - now rewrite eadd_id_l.
    - rewrite IH. rewrite eadd_assoc; auto using nmul_onc.
  Qed.

  Lemma nmul_1 P : nmul 1 P = P.
  Proof. cbn. apply eadd_id_r. Qed.

  Lemma eadd_swap P Q R S : onc P -> onc Q -> onc R -> onc S ->
    eadd (eadd P Q) (eadd R S) = eadd (eadd P R) (eadd Q S).
  Proof.
    intros CP CQ CR CS.
    rewrite (eadd_assoc P Q (eadd R S)) by auto using eadd_onc.
    rewrite <- (eadd_assoc Q R S) by auto.
    rewrite (eadd_comm Q R).
    rewrite (eadd_assoc R Q S) by auto.
    rewrite <- (eadd_assoc P R (eadd Q S)) by auto using eadd_onc. reflexivity.
  Qed.

  Lemma nmul_eadd n P Q : onc P -> onc Q -> nmul n (eadd P Q) = eadd (nmul n P) (nmul n Q).
  Proof.
    intros CP CQ. induction n as [|n IH]; cbn [nmul].
    - now rewrite eadd_id_l.
    - rewrite IH. apply eadd_swap; auto using nmul_onc.
  Qed.

  Lemma nmul_eid n : nmul n eid = eid.
  Proof. induction n as [|n IH]; cbn [nmul]; [reflexivity|]. rewrite IH. apply eadd_id_l. Qed.

  Lemma nmul_mul a b P : onc P -> nmul (a * b) P = nmul a (nmul b P).
  Proof.
    intro C. induction a as [|a IH]; cbn [nmul Nat.mul]; [reflexivity|].
    rewrite nmul_add by exact C. now rewrite IH.
  Qed.

  Lemma eneg_eadd P Q : onc P -> onc Q -> eadd (eneg P) (eneg Q) = eneg (eadd P Q).
  Proof.
    destruct P as [x y], Q as [u v]. intros C1 C2.
    pose proof (den_plus_nz _ _ _ _ C1 C2) as A1. pose proof (den_minus_nz _ _ _ _ C1 C2) as B1.
    pose proof (den_plus_nz _ _ _ _ (onc_eneg _ C1) (onc_eneg _ C2)) as A2.
    pose proof (den_minus_nz _ _ _ _ (onc_eneg _ C1) (onc_eneg _ C2)) as B2.
    cbn in *. f_equal; field; assumption.
  Qed.

  Lemma nmul_eneg n P : onc P -> nmul n (eneg P) = eneg (nmul n P).
  Proof.
    intro C. induction n as [|n IH]; cbn [nmul].
    - unfold eid, eneg. f_equal. ring.
    - rewrite IH. apply eneg_eadd; auto using nmul_onc.
  Qed.

  Lemma pmul_nmul e P : onc P -> pmul e P = nmul (Pos.to_nat e) P.
  Proof.
    intro C. induction e as [e IH|e IH|]; cbn [pmul].
    - rewrite IH. rewrite Pos2Nat.inj_xI. cbn [nmul]. rewrite <- nmul_add by exact C.
      replace (2 * Pos.to_nat e)%nat with (Pos.to_nat e + Pos.to_nat e)%nat by lia.
      apply eadd_comm.
    - rewrite IH. rewrite Pos2Nat.inj_xO. rewrite <- nmul_add by exact C. f_equal. lia.
    - now rewrite Pos2Nat.inj_1, nmul_1.
  Qed.

  (* cancellation: the group inverse *)
  Lemma eadd_neg_l P : onc P -> eadd (eneg P) P = eid.
  Proof. intro C. rewrite eadd_comm. now apply eadd_neg_r. Qed.

  Lemma eadd_cancel_r P Q : onc P -> onc Q -> eadd (eadd P Q) (eneg Q) = P.
  Proof.
    intros CP CQ. rewrite eadd_assoc by auto using onc_eneg. rewrite eadd_neg_r by exact CQ. apply eadd_id_r.
  Qed.

  (* ---- the 4-torsion points (0, +-1), (+-i, 0) and the cross-product equality of RFC 9496 4.3.3 ---- *)
  Definition tors4 (D : F * F) : Prop :=
    D = (zero, one) \/ D = (zero, - one) \/ D = (i, zero) \/ D = (- i, zero).

  Lemma sq_eq_cases a b : a * a = b * b -> a = b \/ a = - b.
  Proof.
    intro H. assert (E : (a - b) * (a + b) = zero) by nsatz.
    destruct (mul_integral _ _ E) as [E1|E1]; [left|right]; nsatz.
  Qed.

  Theorem cross_eq_iff_tors4 x1 y1 x2 y2 : onc (x1, y1) -> onc (x2, y2) ->
    (x1 * y2 = y1 * x2 \/ y1 * y2 = x1 * x2) <-> tors4 (eadd (x1, y1) (eneg (x2, y2))).
  Proof.
    intros C1 C2. pose proof (onc_eneg _ C2) as C2'.
    pose proof (den_plus_nz _ _ _ _ C1 C2') as Dp. pose proof (den_minus_nz _ _ _ _ C1 C2') as Dm.
    pose proof (eadd_onc _ _ C1 C2') as CD.
    unfold eneg in *. unfold eadd in *. unfold tors4.
    set (dx := (x1 * y2 + y1 * - x2) / (one + d * x1 * - x2 * y1 * y2)) in *.
    set (dy := (y1 * y2 + x1 * - x2) / (one - d * x1 * - x2 * y1 * y2)) in *.
    assert (Hx : dx * (one + d * x1 * - x2 * y1 * y2) = x1 * y2 + y1 * - x2) by (unfold dx; field; exact Dp).
    assert (Hy : dy * (one - d * x1 * - x2 * y1 * y2) = y1 * y2 + x1 * - x2) by (unfold dy; field; exact Dm).
    cbn in CD. split.
    - intros [E|E].
      + assert (Z : dx = zero).
        { assert (T : dx * (one + d * x1 * - x2 * y1 * y2) = zero) by (rewrite Hx; nsatz).
          destruct (mul_integral _ _ T); [assumption|contradiction]. }
        rewrite Z in *. assert (S : dy * dy = one * one) by nsatz.
        destruct (sq_eq_cases _ _ S) as [S1|S1]; rewrite S1; auto.
      + assert (Z : dy = zero).
        { assert (T : dy * (one - d * x1 * - x2 * y1 * y2) = zero) by (rewrite Hy; nsatz).
          destruct (mul_integral _ _ T); [assumption|contradiction]. }
        rewrite Z in *. assert (S : dx * dx = i * i) by nsatz.
        destruct (sq_eq_cases _ _ S) as [S1|S1]; rewrite S1; auto.
    - intros [E|[E|[E|E]]]; injection E as Ex Ey.
      + left. rewrite Ex in Hx. nsatz.
      + left. rewrite Ex in Hx. nsatz.
      + right. rewrite Ey in Hy. nsatz.
      + right. rewrite Ey in Hy. nsatz.
  Qed.
End Edwards.
