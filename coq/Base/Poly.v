(* Strand.Base.Poly

   Polynomials over Z given as coefficient lists (lowest degree first), evaluated by
   Horner's rule, with two facts modulo a prime q:

   - [root_bound]      : at most n coefficients and n roots pairwise distinct mod q
                         ==> vanishes everywhere mod q;
   - [lagrange_at_zero]: Lagrange interpolation at 0, for any coefficients [lam]
                         satisfying the defining congruence.

   Standard library only; no axioms. *)

From Coq Require Import ZArith Znumtheory List Lia Permutation.
From Coq Require Import Morphisms Setoid.
Import ListNotations.
Open Scope Z_scope.

(* ------------------------------------------------------------------ *)
(** * Definitions *)

(* Horner evaluation, coefficient list lowest degree first: cs = [a0; a1; ...] *)
Definition peval (cs : list Z) (x : Z) : Z := fold_right (fun c acc => c + x * acc) 0 cs.

Definition zsum (l : list Z) : Z := fold_right Z.add 0 l.
Definition zprod (l : list Z) : Z := fold_right Z.mul 1 l.

(* the other points of xs, compared as integers
   (this mirrors `if *p == trustee { continue }` in the code) *)
Definition others (i : Z) (xs : list Z) : list Z := filter (fun j => negb (j =? i)) xs.

(* ------------------------------------------------------------------ *)
(** * Congruence modulo q as a setoid (re-exporting the stdlib [Zdiv.eqm] instances,
      which are section-local there) *)

#[export] Instance eqm_Equivalence (q : Z) : Equivalence (eqm q) := eqm_setoid q.
#[export] Instance eqm_add_Proper (q : Z) : Proper (eqm q ==> eqm q ==> eqm q) Z.add := Zplus_eqm q.
#[export] Instance eqm_sub_Proper (q : Z) : Proper (eqm q ==> eqm q ==> eqm q) Z.sub := Zminus_eqm q.
#[export] Instance eqm_mul_Proper (q : Z) : Proper (eqm q ==> eqm q ==> eqm q) Z.mul := Zmult_eqm q.
#[export] Instance eqm_opp_Proper (q : Z) : Proper (eqm q ==> eqm q) Z.opp := Zopp_eqm q.

(* ------------------------------------------------------------------ *)
(** * Unfolding lemmas *)

Lemma peval_nil (x : Z) : peval [] x = 0.
Proof. reflexivity. Qed.

Lemma peval_cons (c : Z) (cs : list Z) (x : Z) : peval (c :: cs) x = c + x * peval cs x.
Proof. reflexivity. Qed.

Lemma zsum_nil : zsum [] = 0.
Proof. reflexivity. Qed.

Lemma zsum_cons (a : Z) (l : list Z) : zsum (a :: l) = a + zsum l.
Proof. reflexivity. Qed.

Lemma zprod_nil : zprod [] = 1.
Proof. reflexivity. Qed.

Lemma zprod_cons (a : Z) (l : list Z) : zprod (a :: l) = a * zprod l.
Proof. reflexivity. Qed.

Lemma peval_at_zero (cs : list Z) : peval cs 0 = nth 0 cs 0.
Proof.
  destruct cs as [|c cs']; [reflexivity|].
  rewrite peval_cons. cbn [nth]. lia.
Qed.

(* ------------------------------------------------------------------ *)
(** * Arithmetic modulo a prime *)

Lemma prime_gt_1 (q : Z) : prime q -> 1 < q.
Proof. intros Hq. destruct Hq as [Hgt _]. exact Hgt. Qed.

Lemma mod0_iff_divide (q a : Z) : 1 < q -> (a mod q = 0 <-> (q | a)).
Proof. intros Hq. apply Z.mod_divide. lia. Qed.

Lemma eqm_iff_divide_sub (q a b : Z) : 1 < q -> (a mod q = b mod q <-> (q | a - b)).
Proof.
  intros Hq. split.
  - intros Heq. apply (mod0_iff_divide q (a - b) Hq).
    rewrite Zminus_mod, Heq, Z.sub_diag. apply Zmod_0_l.
  - intros [k Hk]. replace a with (b + k * q) by lia. apply Z_mod_plus_full.
Qed.

(* modular inverse, extracted from the (informative) Euclid algorithm of the stdlib *)
Definition minv (q d : Z) : Z :=
  match euclid d q with
  | Euclid_intro _ _ u _ g _ _ => u * g
  end.

Lemma minv_spec (q d : Z) : prime q -> ~ (q | d) -> eqm q (minv q d * d) 1.
Proof.
  intros Hq Hnd. unfold minv.
  destruct (euclid d q) as [u v g Hbez Hgcd].
  assert (Hrp : rel_prime d q) by (apply rel_prime_sym, prime_rel_prime; assumption).
  unfold eqm.
  destruct (Zis_gcd_unique d q g 1 Hgcd Hrp) as [Hg|Hg]; rewrite Hg.
  - replace (u * 1 * d) with (1 + (- v) * q) by lia. apply Z_mod_plus_full.
  - replace (u * - (1) * d) with (1 + v * q) by lia. apply Z_mod_plus_full.
Qed.

Lemma zprod_not_divide (q : Z) (l : list Z) :
  prime q -> (forall x, In x l -> ~ (q | x)) -> ~ (q | zprod l).
Proof.
  intros Hq. pose proof (prime_gt_1 q Hq) as Hgt.
  induction l as [|a l' IH]; intros Hall Hdiv.
  - rewrite zprod_nil in Hdiv. apply Z.divide_1_r_nonneg in Hdiv; lia.
  - rewrite zprod_cons in Hdiv. apply (prime_mult q Hq) in Hdiv.
    destruct Hdiv as [Hdiv|Hdiv].
    + apply (Hall a (or_introl eq_refl)). exact Hdiv.
    + apply IH; [|exact Hdiv]. intros x Hx. apply Hall. right. exact Hx.
Qed.

(* ------------------------------------------------------------------ *)
(** * Synthetic division by (x - r) *)

Fixpoint pquot (cs : list Z) (r : Z) : list Z :=
  match cs with
  | [] => []
  | _ :: cs' =>
      match cs' with
      | [] => []
      | _ :: _ => peval cs' r :: pquot cs' r
      end
  end.

Lemma pquot_cons2 (c d : Z) (cs : list Z) (r : Z) :
  pquot (c :: d :: cs) r = peval (d :: cs) r :: pquot (d :: cs) r.
Proof. reflexivity. Qed.

Lemma pquot_length (cs : list Z) (r : Z) : length (pquot cs r) = pred (length cs).
Proof.
  induction cs as [|c cs' IH]; [reflexivity|].
  destruct cs' as [|d cs'']; [reflexivity|].
  rewrite pquot_cons2. cbn [length]. rewrite IH. reflexivity.
Qed.

Lemma pquot_spec (cs : list Z) (r x : Z) :
  peval cs x = peval cs r + (x - r) * peval (pquot cs r) x.
Proof.
  induction cs as [|c cs' IH].
  - cbn. ring.
  - destruct cs' as [|d cs''].
    + cbn. ring.
    + rewrite pquot_cons2. remember (d :: cs'') as t eqn:Ht.
      rewrite (peval_cons c t x), (peval_cons c t r), (peval_cons (peval t r) (pquot t r) x).
      rewrite IH. ring.
Qed.

(* ------------------------------------------------------------------ *)
(** * The root bound *)

(* a polynomial with at most n coefficients and n roots that are pairwise distinct mod a prime q
   vanishes everywhere mod q *)
Theorem root_bound : forall q : Z, prime q -> forall (n : nat) (cs roots : list Z),
  (length cs <= n)%nat -> length roots = n ->
  NoDup (map (fun r => r mod q) roots) ->
  (forall r, In r roots -> peval cs r mod q = 0) ->
  forall x, peval cs x mod q = 0.
Proof.
  intros q Hq. pose proof (prime_gt_1 q Hq) as Hgt.
  induction n as [|n IH]; intros cs roots Hlen Hroots Hnd Hz x.
  - destruct cs as [|c cs']; [|cbn [length] in Hlen; lia].
    rewrite peval_nil. apply Zmod_0_l.
  - destruct roots as [|r rs]; [discriminate Hroots|].
    cbn [length] in Hroots. injection Hroots as Hrs.
    cbn [map] in Hnd. inversion Hnd as [|r0 l0 Hnotin Hnd']; subst r0 l0.
    assert (Hquot : forall y, peval (pquot cs r) y mod q = 0).
    { apply (IH (pquot cs r) rs).
      - rewrite pquot_length. lia.
      - exact Hrs.
      - exact Hnd'.
      - intros r' Hr'.
        assert (Hprod : (q | (r' - r) * peval (pquot cs r) r')).
        { apply (mod0_iff_divide q _ Hgt).
          replace ((r' - r) * peval (pquot cs r) r') with (peval cs r' - peval cs r)
            by (rewrite (pquot_spec cs r r'); ring).
          rewrite Zminus_mod, (Hz r' (or_intror Hr')), (Hz r (or_introl eq_refl)).
          reflexivity. }
        apply (prime_mult q Hq) in Hprod. destruct Hprod as [Hprod|Hprod].
        + exfalso. apply Hnotin.
          apply (eqm_iff_divide_sub q r' r Hgt) in Hprod.
          rewrite <- Hprod. apply in_map_iff. exists r'. split; [reflexivity|exact Hr'].
        + apply (mod0_iff_divide q _ Hgt). exact Hprod. }
    rewrite (pquot_spec cs r x).
    rewrite Zplus_mod, Zmult_mod, (Hquot x), (Hz r (or_introl eq_refl)).
    rewrite Z.mul_0_r. reflexivity.
Qed.

Print Assumptions root_bound.

(* ------------------------------------------------------------------ *)
(** * Polynomial arithmetic on coefficient lists *)

Fixpoint padd (a b : list Z) : list Z :=
  match a, b with
  | [], _ => b
  | _, [] => a
  | x :: a', y :: b' => (x + y) :: padd a' b'
  end.

Lemma peval_padd (a b : list Z) (x : Z) : peval (padd a b) x = peval a x + peval b x.
Proof.
  revert b. induction a as [|c a' IH]; intros b.
  - reflexivity.
  - destruct b as [|d b'].
    + cbn [padd]. rewrite peval_nil. lia.
    + cbn [padd]. rewrite (peval_cons (c + d)), (peval_cons c), (peval_cons d), IH. ring.
Qed.

Lemma padd_length (a b : list Z) : length (padd a b) = Nat.max (length a) (length b).
Proof.
  revert b. induction a as [|c a' IH]; intros b.
  - reflexivity.
  - destruct b as [|d b'].
    + reflexivity.
    + cbn [padd length]. rewrite IH. reflexivity.
Qed.

Definition pscale (k : Z) (a : list Z) : list Z := map (Z.mul k) a.

Lemma peval_pscale (k : Z) (a : list Z) (x : Z) : peval (pscale k a) x = k * peval a x.
Proof.
  unfold pscale. induction a as [|c a' IH]; cbn [map].
  - rewrite peval_nil. ring.
  - rewrite (peval_cons (k * c)), (peval_cons c), IH. ring.
Qed.

Lemma pscale_length (k : Z) (a : list Z) : length (pscale k a) = length a.
Proof. apply map_length. Qed.

(* multiply by the linear factor (x - j) *)
Definition plin_mul (j : Z) (a : list Z) : list Z := padd (0 :: a) (pscale (- j) a).

Lemma peval_plin_mul (j : Z) (a : list Z) (x : Z) :
  peval (plin_mul j a) x = (x - j) * peval a x.
Proof. unfold plin_mul. rewrite peval_padd, peval_cons, peval_pscale. ring. Qed.

Lemma plin_mul_length (j : Z) (a : list Z) : length (plin_mul j a) = S (length a).
Proof. unfold plin_mul. rewrite padd_length, pscale_length. cbn [length]. lia. Qed.

(* prod_{j in js} (x - j) *)
Definition plinprod (js : list Z) : list Z := fold_right plin_mul [1] js.

Lemma plinprod_cons (j : Z) (js : list Z) : plinprod (j :: js) = plin_mul j (plinprod js).
Proof. reflexivity. Qed.

Lemma peval_plinprod (js : list Z) (x : Z) :
  peval (plinprod js) x = zprod (map (fun j => x - j) js).
Proof.
  induction js as [|j js' IH].
  - change (1 + x * 0 = 1). ring.
  - rewrite plinprod_cons, peval_plin_mul, IH. reflexivity.
Qed.

Lemma plinprod_length (js : list Z) : length (plinprod js) = S (length js).
Proof.
  induction js as [|j js' IH]; [reflexivity|].
  rewrite plinprod_cons, plin_mul_length, IH. reflexivity.
Qed.

Definition psum (ps : list (list Z)) : list Z := fold_right padd [] ps.

Lemma psum_cons (p : list Z) (ps : list (list Z)) : psum (p :: ps) = padd p (psum ps).
Proof. reflexivity. Qed.

Lemma peval_psum_map (g : Z -> list Z) (l : list Z) (x : Z) :
  peval (psum (map g l)) x = zsum (map (fun i => peval (g i) x) l).
Proof.
  induction l as [|a l' IH]; [reflexivity|].
  cbn [map]. rewrite psum_cons, peval_padd, zsum_cons, IH. reflexivity.
Qed.

Lemma psum_map_length_le (g : Z -> list Z) (l : list Z) (n : nat) :
  (forall i, In i l -> (length (g i) <= n)%nat) -> (length (psum (map g l)) <= n)%nat.
Proof.
  induction l as [|a l' IH]; intros Hall.
  - cbn. lia.
  - cbn [map]. rewrite psum_cons, padd_length.
    pose proof (Hall a (or_introl eq_refl)) as Ha.
    assert (Hrest : (length (psum (map g l')) <= n)%nat).
    { apply IH. intros i Hi. apply Hall. right. exact Hi. }
    lia.
Qed.

(* ------------------------------------------------------------------ *)
(** * List lemmas: [others], sums and products *)

Lemma others_In (i : Z) (xs : list Z) (j : Z) : In j (others i xs) <-> In j xs /\ j <> i.
Proof.
  unfold others. rewrite filter_In. split; intros [Hin Hne]; split; try exact Hin.
  - intros Heq. subst j. rewrite Z.eqb_refl in Hne. discriminate Hne.
  - apply Z.eqb_neq in Hne. rewrite Hne. reflexivity.
Qed.

Lemma others_length_le (i : Z) (xs : list Z) : (length (others i xs) <= length xs)%nat.
Proof.
  unfold others. induction xs as [|a xs' IH]; [cbn; lia|].
  cbn [filter]. destruct (negb (a =? i)); cbn [length]; lia.
Qed.

Lemma others_length_lt (i : Z) (xs : list Z) :
  In i xs -> (S (length (others i xs)) <= length xs)%nat.
Proof.
  induction xs as [|a xs' IH]; intros Hin; [destruct Hin|].
  unfold others in *. cbn [filter].
  destruct (Z.eqb_spec a i) as [Heq|Hne]; cbn [negb length].
  - pose proof (others_length_le i xs') as Hle. unfold others in Hle. lia.
  - destruct Hin as [Heq|Hin]; [contradiction|]. specialize (IH Hin). lia.
Qed.

Lemma zprod_In_zero (l : list Z) : In 0 l -> zprod l = 0.
Proof.
  induction l as [|a l' IH]; intros Hin; [destruct Hin|].
  rewrite zprod_cons. destruct Hin as [Heq|Hin].
  - subst a. reflexivity.
  - rewrite (IH Hin). ring.
Qed.

Lemma zsum_map_zero (f : Z -> Z) (l : list Z) :
  (forall i, In i l -> f i = 0) -> zsum (map f l) = 0.
Proof.
  induction l as [|a l' IH]; intros Hall; [reflexivity|].
  cbn [map]. rewrite zsum_cons, (Hall a (or_introl eq_refl)), IH; [reflexivity|].
  intros i Hi. apply Hall. right. exact Hi.
Qed.

Lemma zsum_map_single (f : Z -> Z) (k : Z) (l : list Z) :
  NoDup l -> In k l -> (forall i, In i l -> i <> k -> f i = 0) -> zsum (map f l) = f k.
Proof.
  intros Hnd. induction Hnd as [|a l' Hnotin Hnd' IH]; intros Hin Hz; [destruct Hin|].
  cbn [map]. rewrite zsum_cons. destruct Hin as [Heq|Hin].
  - subst a. rewrite zsum_map_zero; [ring|].
    intros i Hi. apply Hz; [right; exact Hi|]. intros Heq. subst i. contradiction.
  - rewrite (Hz a (or_introl eq_refl)).
    + rewrite IH; [ring|exact Hin|]. intros i Hi Hne. apply Hz; [right; exact Hi|exact Hne].
    + intros Heq. subst a. contradiction.
Qed.

Lemma zsum_map_eqm (q : Z) (f g : Z -> Z) (l : list Z) :
  (forall i, In i l -> eqm q (f i) (g i)) -> eqm q (zsum (map f l)) (zsum (map g l)).
Proof.
  induction l as [|a l' IH]; intros Hall; [reflexivity|].
  cbn [map]. rewrite !zsum_cons.
  rewrite (Hall a (or_introl eq_refl)), IH; [reflexivity|].
  intros i Hi. apply Hall. right. exact Hi.
Qed.

Lemma NoDup_map_inj (f : Z -> Z) (l : list Z) :
  NoDup (map f l) -> forall a b, In a l -> In b l -> f a = f b -> a = b.
Proof.
  induction l as [|c l' IH]; intros Hnd a b Ha Hb Hab; [destruct Ha|].
  cbn [map] in Hnd. inversion Hnd as [|c0 l0 Hnotin Hnd']; subst c0 l0.
  destruct Ha as [Ha|Ha]; destruct Hb as [Hb|Hb].
  - congruence.
  - subst c. exfalso. apply Hnotin. rewrite Hab. apply in_map. exact Hb.
  - subst c. exfalso. apply Hnotin. rewrite <- Hab. apply in_map. exact Ha.
  - apply (IH Hnd' a b Ha Hb Hab).
Qed.

(* sign bookkeeping: prod (i - j) = (-1)^m * prod (j - i), prod (0 - j) = (-1)^m * prod j *)
Definition sgn (l : list Z) : Z := zprod (map (fun _ : Z => -1) l).

Lemma sgn_cons (a : Z) (l : list Z) : sgn (a :: l) = -1 * sgn l.
Proof. reflexivity. Qed.

Lemma zprod_flip_sub (i : Z) (l : list Z) :
  zprod (map (fun j => i - j) l) = sgn l * zprod (map (fun j => j - i) l).
Proof.
  induction l as [|a l' IH]; [reflexivity|].
  cbn [map]. rewrite sgn_cons, !zprod_cons, IH. ring.
Qed.

Lemma zprod_flip_neg (l : list Z) :
  zprod (map (fun j => 0 - j) l) = sgn l * zprod l.
Proof.
  induction l as [|a l' IH]; [reflexivity|].
  cbn [map]. rewrite sgn_cons, !zprod_cons, IH. ring.
Qed.

(* ------------------------------------------------------------------ *)
(** * Lagrange interpolation at zero *)

(* B_i(k) = 0 at every other point k of xs *)
Lemma basis_other_root (i k : Z) (xs : list Z) :
  In k xs -> k <> i -> peval (plinprod (others i xs)) k = 0.
Proof.
  intros Hk Hne. rewrite peval_plinprod. apply zprod_In_zero.
  apply in_map_iff. exists k. split; [lia|]. apply others_In. split; assumption.
Qed.

(* B_i(i) is invertible mod q *)
Lemma basis_self_not_divide (q i : Z) (xs : list Z) :
  prime q -> NoDup (map (fun x => x mod q) xs) -> In i xs ->
  ~ (q | peval (plinprod (others i xs)) i).
Proof.
  intros Hq Hnd Hi. pose proof (prime_gt_1 q Hq) as Hgt.
  rewrite peval_plinprod. apply (zprod_not_divide q _ Hq).
  intros x Hx Hdiv. apply in_map_iff in Hx. destruct Hx as [j [Hj Hjin]]. subst x.
  apply others_In in Hjin. destruct Hjin as [Hjin Hne].
  apply (eqm_iff_divide_sub q i j Hgt) in Hdiv.
  apply Hne. symmetry.
  apply (NoDup_map_inj (fun x => x mod q) xs Hnd i j Hi Hjin Hdiv).
Qed.

(* the purely algebraic step relating the inverse-based weight to [lam] *)
Lemma lam_adjust (q lam_i mu_i s N Zo Pi d : Z) :
  d = s * N -> eqm q (lam_i * N) Zo -> eqm q (mu_i * d) 1 ->
  eqm q (Pi * mu_i * (s * Zo)) (lam_i * Pi).
Proof.
  intros Hd Hl Hm. rewrite <- Hl.
  replace (Pi * mu_i * (s * (lam_i * N))) with (lam_i * Pi * (mu_i * d)) by (subst d; ring).
  rewrite Hm. rewrite Z.mul_1_r. reflexivity.
Qed.

(* Lagrange interpolation at zero, stated for ANY coefficients lam that satisfy the defining
   congruence  lam_i * prod_{j<>i} (j - i) == prod_{j<>i} j  (mod q)  -- this is what the
   library's `lagrange` function computes as numerator * denominator^-1 *)
Theorem lagrange_at_zero : forall q : Z, prime q -> forall (xs : list Z) (lam : Z -> Z),
  NoDup (map (fun x => x mod q) xs) ->
  (forall i, In i xs -> i mod q <> 0) ->
  (forall i, In i xs ->
     (lam i * zprod (map (fun j => j - i) (others i xs))) mod q = zprod (others i xs) mod q) ->
  forall cs : list Z, (length cs <= length xs)%nat ->
  zsum (map (fun i => lam i * peval cs i) xs) mod q = nth 0 cs 0 mod q.
Proof.
  intros q Hq xs lam Hnd Hnz Hlam cs Hlen.
  pose proof (prime_gt_1 q Hq) as Hgt.
  assert (Hndx : NoDup xs) by (apply (NoDup_map_inv _ _ Hnd)).
  pose (B := fun i : Z => plinprod (others i xs)).
  pose (mu := fun i : Z => minv q (peval (B i) i)).
  assert (Hmu : forall i, In i xs -> eqm q (mu i * peval (B i) i) 1).
  { intros i Hi. unfold mu. apply (minv_spec q _ Hq).
    unfold B. apply (basis_self_not_divide q i xs Hq Hnd Hi). }
  pose (g := fun i : Z => pscale (peval cs i * mu i) (B i)).
  pose (S := padd (psum (map g xs)) (pscale (-1) cs)).
  assert (HSlen : (length S <= length xs)%nat).
  { unfold S. rewrite padd_length, pscale_length.
    assert (Hsum : (length (psum (map g xs)) <= length xs)%nat).
    { apply psum_map_length_le. intros i Hi. unfold g, B.
      rewrite pscale_length, plinprod_length. apply others_length_lt. exact Hi. }
    lia. }
  assert (HSeval : forall x, peval S x = zsum (map (fun i => peval (g i) x) xs) - peval cs x).
  { intros x. unfold S. rewrite peval_padd, peval_psum_map, peval_pscale. ring. }
  assert (HSroot : forall k, In k xs -> peval S k mod q = 0).
  { intros k Hk. rewrite (HSeval k).
    rewrite (zsum_map_single (fun i => peval (g i) k) k xs Hndx Hk).
    - unfold g. rewrite peval_pscale.
      change (eqm q (peval cs k * mu k * peval (B k) k - peval cs k) 0).
      replace (peval cs k * mu k * peval (B k) k) with (peval cs k * (mu k * peval (B k) k)) by ring.
      rewrite (Hmu k Hk). replace (peval cs k * 1 - peval cs k) with 0 by ring. reflexivity.
    - intros i Hi Hne. unfold g, B. rewrite peval_pscale.
      rewrite (basis_other_root i k xs Hk); [ring|]. intros Heq. apply Hne. symmetry. exact Heq. }
  pose proof (root_bound q Hq (length xs) S xs HSlen eq_refl Hnd HSroot 0) as H0.
  rewrite (HSeval 0), peval_at_zero in H0.
  apply (mod0_iff_divide q _ Hgt) in H0.
  apply (eqm_iff_divide_sub q _ _ Hgt) in H0.
  rewrite <- H0.
  apply (zsum_map_eqm q). intros i Hi.
  symmetry. unfold g. rewrite peval_pscale.
  unfold B at 1. rewrite peval_plinprod, zprod_flip_neg.
  apply (lam_adjust q (lam i) (mu i) (sgn (others i xs))
           (zprod (map (fun j => j - i) (others i xs))) (zprod (others i xs))
           (peval cs i) (peval (B i) i)).
  - unfold B. rewrite peval_plinprod. apply zprod_flip_sub.
  - exact (Hlam i Hi).
  - exact (Hmu i Hi).
Qed.

Print Assumptions lagrange_at_zero.

(* ------------------------------------------------------------------ *)
(** * Coefficient form of the root bound (for fewer than q+1 coefficients) *)

(* [zrange m] = [m; m-1; ...; 1] *)
Fixpoint zrange (m : nat) : list Z :=
  match m with
  | O => []
  | S m' => Z.of_nat m :: zrange m'
  end.

Lemma zrange_In (m : nat) (r : Z) : In r (zrange m) <-> 1 <= r <= Z.of_nat m.
Proof.
  induction m as [|m' IH].
  - cbn. lia.
  - cbn [zrange In]. rewrite IH. lia.
Qed.

Lemma zrange_length (m : nat) : length (zrange m) = m.
Proof. induction m as [|m' IH]; [reflexivity|]. cbn [zrange length]. rewrite IH. reflexivity. Qed.

Lemma zrange_NoDup (m : nat) : NoDup (zrange m).
Proof.
  induction m as [|m' IH]; [constructor|].
  cbn [zrange]. constructor; [|exact IH].
  intros Hin. apply zrange_In in Hin. lia.
Qed.

Lemma vanish_coeffs (q : Z) : prime q -> forall cs : list Z,
  (length cs <= Z.to_nat q)%nat ->
  (forall x, peval cs x mod q = 0) ->
  Forall (fun c => c mod q = 0) cs.
Proof.
  intros Hq. pose proof (prime_gt_1 q Hq) as Hgt.
  induction cs as [|c cs' IH]; intros Hlen Hz; [constructor|].
  assert (Hc : c mod q = 0).
  { pose proof (Hz 0) as H0. rewrite peval_cons in H0.
    replace (c + 0 * peval cs' 0) with c in H0 by ring. exact H0. }
  constructor; [exact Hc|].
  cbn [length] in Hlen.
  apply IH; [lia|].
  pose (m := (Z.to_nat q - 1)%nat).
  apply (root_bound q Hq m cs' (zrange m)).
  - unfold m. lia.
  - apply zrange_length.
  - rewrite (map_ext_in (fun r => r mod q) (fun r => r)).
    + rewrite map_id. apply zrange_NoDup.
    + intros r Hr. apply zrange_In in Hr. apply Z.mod_small. unfold m in Hr. lia.
  - intros r Hr. apply zrange_In in Hr. unfold m in Hr.
    assert (Hprod : (q | r * peval cs' r)).
    { apply (mod0_iff_divide q _ Hgt).
      pose proof (Hz r) as Hzr. rewrite peval_cons in Hzr.
      rewrite Zplus_mod, Hc, Z.add_0_l, Z.mod_mod in Hzr by lia. exact Hzr. }
    apply (prime_mult q Hq) in Hprod. destruct Hprod as [Hprod|Hprod].
    + exfalso. apply Z.divide_pos_le in Hprod; lia.
    + apply (mod0_iff_divide q _ Hgt). exact Hprod.
Qed.

(* NB: the bound on [length roots] is a comparison of naturals *)
Theorem root_bound_coeffs : forall q, prime q -> forall cs roots,
  (length cs <= length roots)%nat ->
  NoDup (map (fun r => r mod q) roots) ->
  (forall r, In r roots -> peval cs r mod q = 0) ->
  (length roots <= Z.to_nat q)%nat ->
  Forall (fun c => c mod q = 0) cs.
Proof.
  intros q Hq cs roots Hlen Hnd Hz Hq_len.
  apply (vanish_coeffs q Hq cs); [lia|].
  apply (root_bound q Hq (length roots) cs roots Hlen eq_refl Hnd Hz).
Qed.

Print Assumptions root_bound_coeffs.

(* ------------------------------------------------------------------ *)
(** * Non-vacuity: a concrete instance checked by computation *)

(* q = 11, xs = [1;2;4]:
   lam 1 = (2*4) * ((2-1)*(4-1))^-1 = 8 * 3^-1 = 8 * 4  = 32 = 10 (mod 11)
   lam 2 = (1*4) * ((1-2)*(4-2))^-1 = 4 * (-2)^-1 = 4 * 5 = 20 = 9 (mod 11)
   lam 4 = (1*2) * ((1-4)*(2-4))^-1 = 2 * 6^-1 = 2 * 2 = 4 (mod 11) *)
Definition lam_ex (i : Z) : Z :=
  match i with
  | 1 => 10
  | 2 => 9
  | 4 => 4
  | _ => 0
  end.

Example lam_ex_ok : forall i, In i [1; 2; 4] ->
  (lam_ex i * zprod (map (fun j => j - i) (others i [1; 2; 4]))) mod 11
  = zprod (others i [1; 2; 4]) mod 11.
Proof.
  intros i Hi. cbn [In] in Hi.
  destruct Hi as [Hi|[Hi|[Hi|Hi]]]; [subst i; vm_compute; reflexivity ..|destruct Hi].
Qed.

Example lagrange_ex :
  zsum (map (fun i => lam_ex i * peval [7; 3; 5] i) [1; 2; 4]) mod 11 = 7.
Proof. vm_compute; reflexivity. Qed.
