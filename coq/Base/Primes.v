(* Base/Primes.v — a trial-division primality checker, proved sound, used to certify the small
   parameter sets by kernel computation. *)
From Coq Require Import ZArith Znumtheory List Lia Bool.
Open Scope Z_scope.

(* checks that none of d, d+1, ..., d+k-1 divides n *)
Fixpoint no_div (n : Z) (k : nat) (d : Z) : bool :=
  match k with
  | O => true
  | S k' => negb (n mod d =? 0) && no_div n k' (d + 1)
  end.

Definition prime_check (n : Z) : bool := (1 <? n) && no_div n (Z.to_nat (n - 2)) 2.

Lemma no_div_spec n k : forall d, 0 < d -> no_div n k d = true ->
  forall x, d <= x < d + Z.of_nat k -> ~ (x | n).
Proof.
  induction k as [|k IH]; intros d Hd H x Hx.
  - simpl in Hx. lia.
  - cbn [no_div] in H. apply andb_true_iff in H. destruct H as [H1 H2].
    destruct (Z.eq_dec x d) as [->|Hne].
    + intro Hdiv. apply Z.mod_divide in Hdiv; [|lia].
      rewrite Hdiv in H1. discriminate.
    + apply (IH (d + 1)); [lia|exact H2|]. rewrite Nat2Z.inj_succ in Hx. lia.
Qed.

Theorem prime_check_sound n : prime_check n = true -> prime n.
Proof.
  unfold prime_check. intro H. apply andb_true_iff in H. destruct H as [H1 H2].
  apply Z.ltb_lt in H1. apply prime_alt. split; [exact H1|].
  intros x Hx. apply (no_div_spec n _ 2 ltac:(lia) H2). rewrite Z2Nat.id by lia. lia.
Qed.
