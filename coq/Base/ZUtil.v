(* Base/ZUtil.v — modular arithmetic kernel used by the model: powm, mulm, invm. *)
From Coq Require Import ZArith Znumtheory Zpow_facts List Lia Bool.
Open Scope Z_scope.

(* modular exponentiation: executable (square-and-multiply from the stdlib), spec below *)
Definition powm (b e m : Z) : Z := Zpow_mod b e m.

Lemma powm_spec b e m : m <> 0 -> powm b e m = b ^ e mod m.
Proof. intro Hm. unfold powm. apply Zpow_mod_correct; exact Hm. Qed.

Definition mulm (a b m : Z) : Z := (a * b) mod m.

(* extended Euclid on (r0, r1) carrying the Bezout coefficient of [a]:
   invariant  s_i * a ≡ r_i (mod m). Fuel = 2*bits+2 suffices (remainder halves every two steps). *)
Fixpoint egcd_fuel (fuel : nat) (r0 r1 s0 s1 : Z) : Z * Z :=
  match fuel with
  | O => (r0, s0)
  | S f => if r1 =? 0 then (r0, s0)
           else let qt := r0 / r1 in egcd_fuel f r1 (r0 - qt * r1) s1 (s0 - qt * s1)
  end.

Definition egcd_steps (m : Z) : nat := S (S (2 * Z.to_nat (Z.log2_up m))).

(* modular inverse as num-modular / malachite compute it: None when gcd(a, m) <> 1 *)
Definition invm (a m : Z) : option Z :=
  let '(g, s) := egcd_fuel (egcd_steps m) m (a mod m) 0 1 in
  if g =? 1 then Some (s mod m) else None.

(* Arithmetic kernel: the heavy operations the model calls, bundled with proofs that they ARE the
   reference definitions above. Theorems are proved for every kernel; the correspondence check runs the
   model with [K_ref] (plain Z) or with the BigZ-backed kernel of Base/FastArith.v at 2048 bits. *)
Record Kernel : Type := {
  k_powm : Z -> Z -> Z -> Z;
  k_mul : Z -> Z -> Z;
  k_mod : Z -> Z -> Z;
  k_invm : Z -> Z -> option Z;
  k_powm_ok : forall b e m, k_powm b e m = powm b e m;
  k_mul_ok : forall a b, k_mul a b = a * b;
  k_mod_ok : forall a m, k_mod a m = a mod m;
  k_invm_ok : forall a m, k_invm a m = invm a m
}.

Definition K_ref : Kernel := {|
  k_powm := powm; k_mul := Z.mul; k_mod := Z.modulo; k_invm := invm;
  k_powm_ok := fun _ _ _ => eq_refl; k_mul_ok := fun _ _ => eq_refl;
  k_mod_ok := fun _ _ => eq_refl; k_invm_ok := fun _ _ => eq_refl |}.
