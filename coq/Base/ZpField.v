(* Base/ZpField.v — the prime field Z/pZ as a type with Leibniz equality, so that Coq's [ring] and [field]
   tactics apply: carrier = integers that are their own residue (the side condition is a boolean equation, so
   two elements with the same value are equal without any axiom), inverse = a^(p-2) (Fermat, Base/Fermat.v).
   [of_Z] is the reduction homomorphism Z -> Z/pZ through which the executable model's field operations
   (written over plain Z with explicit [mod]) are related to the abstract field. *)
From Coq Require Import ZArith Znumtheory Zpow_facts Lia Bool Eqdep_dec Field.
From Strand Require Import Base.ZUtil Base.Fermat.
Open Scope Z_scope.

Section Zp.
  Variable p : Z.
  Hypothesis p_prime : prime p.

  Let p_ge2 : 2 <= p.  Proof. pose proof (prime_ge_2 _ p_prime). lia. Qed.
  Let p_pos : 0 < p.  Proof. lia. Qed.
  Let p_nz : p <> 0.  Proof. lia. Qed.

  Record Zp : Type := mkZp { zv : Z; zv_ok : (zv mod p =? zv) = true }.

  Lemma Zp_eq (a b : Zp) : zv a = zv b -> a = b.
  Proof.
    destruct a as [a Ha], b as [b Hb]. cbn. intro E. subst b.
    f_equal. apply UIP_dec. apply bool_dec.
  Qed.

  Lemma zv_range (a : Zp) : 0 <= zv a < p.
  Proof. destruct a as [a Ha]. cbn. apply Z.eqb_eq in Ha. rewrite <- Ha. apply Z.mod_pos_bound. lia. Qed.

  Lemma zv_mod (a : Zp) : zv a mod p = zv a.
  Proof. apply Z.mod_small, zv_range. Qed.

  Lemma red_ok (a : Z) : ((a mod p) mod p =? a mod p) = true.
  Proof. apply Z.eqb_eq, Zmod_mod. Qed.

  Definition of_Z (a : Z) : Zp := mkZp (a mod p) (red_ok a).

  Lemma zv_of_Z a : zv (of_Z a) = a mod p.  Proof. reflexivity. Qed.
  Lemma of_Z_zv a : of_Z (zv a) = a.  Proof. apply Zp_eq. cbn. apply zv_mod. Qed.
  Lemma of_Z_mod a : of_Z (a mod p) = of_Z a.  Proof. apply Zp_eq. cbn. apply Z.mod_mod. lia. Qed.
  Lemma of_Z_eq a b : of_Z a = of_Z b <-> a mod p = b mod p.
  Proof. split; intro H; [exact (f_equal zv H) | apply Zp_eq; exact H]. Qed.

  Definition z0 : Zp := of_Z 0.
  Definition z1 : Zp := of_Z 1.
  Definition zadd (a b : Zp) : Zp := of_Z (zv a + zv b).
  Definition zmul (a b : Zp) : Zp := of_Z (zv a * zv b).
  Definition zsub (a b : Zp) : Zp := of_Z (zv a - zv b).
  Definition zopp (a : Zp) : Zp := of_Z (- zv a).
  (* the inverse is sealed behind an opaque proof so that no conversion test ever tries to evaluate
     a^(p-2) by unfolding Z.pow (2^255 iterations); its defining equation is [zinv_eq] *)
  Lemma zinv_sig : { f : Zp -> Zp | forall a, f a = of_Z (zv a ^ (p - 2)) }.
  Proof. exists (fun a => of_Z (zv a ^ (p - 2))). reflexivity. Qed.
  Definition zinv : Zp -> Zp := proj1_sig zinv_sig.
  Lemma zinv_eq a : zinv a = of_Z (zv a ^ (p - 2)).  Proof. exact (proj2_sig zinv_sig a). Qed.
  Definition zdiv (a b : Zp) : Zp := zmul a (zinv b).

  (* the reduction is a ring homomorphism *)
  Lemma of_Z_add a b : of_Z (a + b) = zadd (of_Z a) (of_Z b).
  Proof. apply Zp_eq. cbn. apply Zplus_mod. Qed.
  Lemma of_Z_mul a b : of_Z (a * b) = zmul (of_Z a) (of_Z b).
  Proof. apply Zp_eq. cbn. apply Zmult_mod. Qed.
  Lemma of_Z_sub a b : of_Z (a - b) = zsub (of_Z a) (of_Z b).
  Proof. apply Zp_eq. cbn. apply Zminus_mod. Qed.
  Lemma of_Z_opp a : of_Z (- a) = zopp (of_Z a).
  Proof.
    apply Zp_eq. cbn. replace (- a) with (0 - a) by ring. replace (- (a mod p)) with (0 - a mod p) by ring.
    rewrite Zminus_mod. rewrite (Zminus_mod 0 (a mod p)). rewrite Z.mod_mod by lia. reflexivity.
  Qed.

  Lemma zv_z0 : zv z0 = 0.  Proof. unfold z0, of_Z; cbn [zv]. apply Z.mod_0_l. lia. Qed.
  Lemma zv_z1 : zv z1 = 1 mod p.  Proof. reflexivity. Qed.

  Ltac zp := intros; apply Zp_eq; cbn -[Z.mul Z.add Z.sub Z.opp];
    rewrite ?Zplus_mod_idemp_l, ?Zplus_mod_idemp_r, ?Zmult_mod_idemp_l, ?Zmult_mod_idemp_r,
            ?Zminus_mod_idemp_l, ?Zminus_mod_idemp_r.

  Lemma Zp_ring : ring_theory z0 z1 zadd zmul zsub zopp (@eq Zp).
  Proof.
    constructor.
    - zp. rewrite Z.add_0_l. apply zv_mod.
    - zp. f_equal. ring.
    - zp. f_equal. ring.
    - zp. rewrite Z.mul_1_l. apply zv_mod.
    - zp. f_equal. ring.
    - zp. f_equal. ring.
    - zp. f_equal. ring.
    - zp. reflexivity.
    - zp. replace (zv x + - zv x) with 0 by ring. reflexivity.
  Qed.

  Lemma z1_neq_z0 : z1 <> z0.
  Proof. intro H. apply (f_equal zv) in H. rewrite zv_z0, zv_z1, Z.mod_small in H by lia. discriminate. Qed.

  Lemma zinv_l (a : Zp) : a <> z0 -> zmul (zinv a) a = z1.
  Proof.
    intro Ha. rewrite zinv_eq. apply Zp_eq. cbn -[Z.pow]. rewrite Zmult_mod_idemp_l.
    replace (zv a ^ (p - 2) * zv a) with (zv a ^ (p - 1)).
    2:{ replace (p - 1) with (Z.succ (p - 2)) by lia. rewrite Z.pow_succ_r by lia. ring. }
    rewrite (Z.mod_small 1) by lia.
    apply fermat_Z; [exact p_prime|].
    intro Hd. apply Ha. apply Zp_eq. rewrite zv_z0.
    rewrite <- (zv_mod a). apply Zdivide_mod. exact Hd.
  Qed.

  Lemma Zp_field : field_theory z0 z1 zadd zmul zsub zopp zdiv zinv (@eq Zp).
  Proof.
    constructor.
    - exact Zp_ring.
    - exact z1_neq_z0.
    - reflexivity.
    - exact zinv_l.
  Qed.

  Lemma Zp_eq_dec (a b : Zp) : {a = b} + {a <> b}.
  Proof.
    destruct (Z.eq_dec (zv a) (zv b)) as [E|E]; [left; apply Zp_eq, E | right; intro H; apply E; now rewrite H].
  Qed.

  (* no zero divisors *)
  Lemma zmul_eq0 a b : zmul a b = z0 -> a = z0 \/ b = z0.
  Proof.
    intro H. destruct (Zp_eq_dec a z0) as [E|E]; [left; exact E|right].
    assert (zmul (zinv a) (zmul a b) = z0) as H2.
    { rewrite H. apply Zp_eq. unfold zmul. rewrite zv_of_Z, zv_z0, Z.mul_0_r. apply Z.mod_0_l; lia. }
    pose proof (Rmul_assoc Zp_ring (zinv a) a b) as A. rewrite A in H2. rewrite (zinv_l a E) in H2.
    rewrite (Rmul_1_l Zp_ring) in H2. exact H2.
  Qed.

  (* certifying a non-residue: if d^h <> 1 (mod p) with p = 2h+1, no x satisfies x^2 = d *)
  Lemma nonsquare_by_euler (d h : Z) :
    p = 2 * h + 1 -> 0 <= h -> d mod p <> 0 -> d ^ h mod p <> 1 -> forall x : Zp, zmul x x <> of_Z d.
  Proof.
    intros Hp Hh Hd He x Hx. apply (f_equal zv) in Hx. cbn in Hx.
    apply He. rewrite Zpower_mod by lia. rewrite <- Hx. rewrite <- Zpower_mod by lia.
    rewrite <- Z.pow_2_r, <- Z.pow_mul_r by lia. replace (2 * h) with (p - 1) by lia.
    apply fermat_Z; [exact p_prime|]. intro Hdiv.
    apply Hd. rewrite <- Hx. apply Zdivide_mod. apply Z.divide_mul_l. exact Hdiv.
  Qed.
End Zp.
