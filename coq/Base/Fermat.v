(** * Strand.Base.Fermat

    Fermat's little theorem over [Z] (with [Znumtheory.prime]) and the
    corollaries needed for the order-q subgroup of a safe-prime group.

    Fermat's little theorem itself is imported from Mathematical Components
    ([binomial.fermat_little], over [nat]) and transported to [Z] in the
    module [FermatBridge].  Everything after that module is plain Ltac over
    ZArith; ssreflect is never imported at top level. *)

From Coq Require Import ZArith Znumtheory Zpow_facts Lia.
From mathcomp Require all_ssreflect.

(* ------------------------------------------------------------------------- *)
(** ** Bridge: mathcomp [nat] -> stdlib [Z]                                   *)
(* ------------------------------------------------------------------------- *)

Module FermatBridge.
Set Warnings "-notation-overridden".
Import all_ssreflect.
Set Warnings "notation-overridden".

Local Open Scope nat_scope.

Lemma prime_Z_nat (p : Z) : Znumtheory.prime p -> prime (Z.to_nat p).
Proof.
move=> Hp; have H2 := prime_ge_2 _ Hp; apply/primeP; split.
- by apply/ltP; lia.
- move=> d /dvdnP [k Hk].
  have Hd : (Z.of_nat d | p)%Z.
    exists (Z.of_nat k); rewrite -Nat2Z.inj_mul -(Z2Nat.id p); last lia.
    by rewrite Hk.
  have Hdn : (0 <= Z.of_nat d)%Z by apply: Nat2Z.is_nonneg.
  case: (prime_divisors _ Hp _ Hd) => [E|[E|[E|E]]]; try lia.
  + by apply/orP; left; apply/eqP; apply: Nat2Z.inj.
  + by apply/orP; right; apply/eqP; rewrite -E Nat2Z.id.
Qed.

Lemma of_nat_expn (n m : nat) : Z.of_nat (n ^ m) = (Z.of_nat n ^ Z.of_nat m)%Z.
Proof.
elim: m => [|m IH]; first by [].
by rewrite expnS Nat2Z.inj_mul IH Nat2Z.inj_succ Z.pow_succ_r; last lia.
Qed.

Lemma of_nat_modn (n m : nat) :
  0 < m -> Z.of_nat (n %% m) = (Z.of_nat n mod Z.of_nat m)%Z.
Proof.
move=> Hm; apply: (Z.mod_unique_pos _ _ (Z.of_nat (n %/ m))).
- split; first by apply: Nat2Z.is_nonneg.
  by apply: inj_lt; apply/ltP; apply: ltn_pmod.
- rewrite -Nat2Z.inj_mul -Nat2Z.inj_add; congr Z.of_nat.
  by rewrite {1}(divn_eq n m) mulnC.
Qed.

Lemma fermat_nonneg (p a : Z) :
  Znumtheory.prime p -> (0 <= a)%Z -> (a ^ p mod p = a mod p)%Z.
Proof.
move=> Hp Ha; have H2 := prime_ge_2 _ Hp.
have Hpr := prime_Z_nat p Hp.
have E := fermat_little (Z.to_nat a) Hpr.
have Hpos : 0 < Z.to_nat p by apply: prime_gt0.
have := f_equal Z.of_nat E.
by rewrite !(of_nat_modn _ _ Hpos) of_nat_expn !Z2Nat.id; try lia.
Qed.

End FermatBridge.

(* ------------------------------------------------------------------------- *)
(** ** Z-level development (plain Ltac)                                       *)
(* ------------------------------------------------------------------------- *)

Open Scope Z_scope.

Lemma mod_eq_of_divide : forall p x y : Z, (p | x - y) -> x mod p = y mod p.
Proof.
  intros p x y [k Hk].
  replace x with (y + k * p) by lia.
  apply Z_mod_plus_full.
Qed.

Lemma divide_of_mod_eq : forall p x y : Z, x mod p = y mod p -> (p | x - y).
Proof.
  intros p x y H.
  destruct (Z.eq_dec p 0) as [->|Hp].
  - rewrite !Zmod_0_r in H. exists 0. lia.
  - exists (x / p - y / p).
    pose proof (Z_div_mod_eq_full x p). pose proof (Z_div_mod_eq_full y p). nia.
Qed.

Lemma not_divide_small : forall p a : Z, 0 < a < p -> ~ (p | a).
Proof.
  intros p a Ha Hd. apply Z.divide_pos_le in Hd; lia.
Qed.

(** Fermat, additive form, for every integer [a]. *)
Lemma fermat_pow_p : forall p a : Z, prime p -> a ^ p mod p = a mod p.
Proof.
  intros p a Hp. pose proof (prime_ge_2 _ Hp) as H2.
  rewrite Zpower_mod by lia.
  rewrite FermatBridge.fermat_nonneg.
  - apply Zmod_mod.
  - exact Hp.
  - apply Z.mod_pos_bound. lia.
Qed.

Theorem fermat_Z : forall p a : Z, prime p -> ~ (p | a) -> a ^ (p - 1) mod p = 1.
Proof.
  intros p a Hp Hna. pose proof (prime_ge_2 _ Hp) as H2.
  pose proof (divide_of_mod_eq _ _ _ (fermat_pow_p p a Hp)) as Hd.
  replace (a ^ p - a) with (a * (a ^ (p - 1) - 1)) in Hd.
  2:{ replace p with (Z.succ (p - 1)) at 2 by lia.
      rewrite Z.pow_succ_r by lia. ring. }
  destruct (prime_mult _ Hp _ _ Hd) as [H|H]; [contradiction|].
  rewrite (mod_eq_of_divide _ _ _ H). apply Z.mod_small. lia.
Qed.
Print Assumptions fermat_Z.

Theorem sqrt1_Z : forall p x : Z, prime p -> (x * x) mod p = 1 -> x mod p = 1 \/ x mod p = p - 1.
Proof.
  intros p x Hp Hx. pose proof (prime_ge_2 _ Hp) as H2.
  assert (Hd : (p | (x - 1) * (x + 1))).
  { replace ((x - 1) * (x + 1)) with (x * x - 1) by ring.
    apply divide_of_mod_eq. rewrite Hx. symmetry. apply Z.mod_small. lia. }
  destruct (prime_mult _ Hp _ _ Hd) as [H|H].
  - left. rewrite (mod_eq_of_divide _ _ _ H). apply Z.mod_small. lia.
  - right.
    assert (H' : (p | x - (p - 1))).
    { destruct H as [k Hk]. exists (k - 1). lia. }
    clear H; rename H' into H.
    rewrite (mod_eq_of_divide _ _ _ H). apply Z.mod_small. lia.
Qed.
Print Assumptions sqrt1_Z.

(* Euler's criterion, the +-1 half, for a safe prime p = 2q+1 *)
Theorem euler_pm1 : forall p q a : Z, prime p -> p = 2 * q + 1 -> ~ (p | a) ->
  a ^ q mod p = 1 \/ a ^ q mod p = p - 1.
Proof.
  intros p q a Hp Hpq Hna. pose proof (prime_ge_2 _ Hp) as H2.
  assert (Hq : 0 <= q) by lia.
  apply sqrt1_Z; [exact Hp|].
  rewrite <- Z.pow_add_r by lia.
  replace (q + q) with (p - 1) by lia.
  apply fermat_Z; assumption.
Qed.
Print Assumptions euler_pm1.

(* (-1)^q = -1 when q is odd, in the form used by the plaintext encoder: exactly one of a, p-a has a^q = 1 *)
Theorem neg_pow_odd : forall p q a : Z, prime p -> p = 2 * q + 1 -> Z.odd q = true -> 0 < q ->
  0 < a < p -> ((p - a) ^ q) mod p = (p - (a ^ q mod p)) mod p.
Proof.
  intros p q a Hp Hpq Hodd Hq Ha. pose proof (prime_ge_2 _ Hp) as H2.
  rewrite Zpower_mod by lia.
  replace ((p - a) mod p) with ((- a) mod p).
  2:{ apply mod_eq_of_divide. exists (-1). ring. }
  rewrite <- Zpower_mod by lia.
  rewrite Z.pow_opp_odd by (apply Z.odd_spec; exact Hodd).
  apply mod_eq_of_divide.
  exists (- (a ^ q / p) - 1).
  pose proof (Z_div_mod_eq_full (a ^ q) p). nia.
Qed.
Print Assumptions neg_pow_odd.

Theorem exactly_one_member : forall p q a : Z, prime p -> p = 2 * q + 1 -> Z.odd q = true -> 0 < q -> 2 < p ->
  0 < a < p ->
  (a ^ q mod p = 1 /\ (p - a) ^ q mod p = p - 1) \/ (a ^ q mod p = p - 1 /\ (p - a) ^ q mod p = 1).
Proof.
  intros p q a Hp Hpq Hodd Hq H2 Ha.
  pose proof (neg_pow_odd p q a Hp Hpq Hodd Hq Ha) as Hneg.
  destruct (euler_pm1 p q a Hp Hpq (not_divide_small p a Ha)) as [H|H].
  - left. split; [exact H|].
    rewrite Hneg, H. apply Z.mod_small. lia.
  - right. split; [exact H|].
    rewrite Hneg, H. replace (p - (p - 1)) with 1 by ring. apply Z.mod_small. lia.
Qed.
Print Assumptions exactly_one_member.

(* squares of non-multiples of p are in the order-q subgroup *)
Theorem square_member : forall p q e : Z, prime p -> p = 2 * q + 1 -> 0 < q -> ~ (p | e) ->
  ((e ^ 2) mod p) ^ q mod p = 1.
Proof.
  intros p q e Hp Hpq Hq Hne. pose proof (prime_ge_2 _ Hp) as H2.
  rewrite <- Zpower_mod by lia.
  rewrite <- Z.pow_mul_r by lia.
  replace (2 * q) with (p - 1) by lia.
  apply fermat_Z; assumption.
Qed.
Print Assumptions square_member.

(* for prime q and d not divisible by q there is an inverse mod q (Bezout) *)
Theorem inv_mod_prime : forall q d : Z, prime q -> ~ (q | d) -> exists e, 0 <= e < q /\ (d * e) mod q = 1.
Proof.
  intros q d Hq Hnd. pose proof (prime_ge_2 _ Hq) as H2.
  pose proof (prime_rel_prime _ Hq _ Hnd) as Hrel.
  destruct (rel_prime_bezout _ _ Hrel) as [u v Huv].
  exists (v mod q). split.
  - apply Z.mod_pos_bound. lia.
  - rewrite Zmult_mod_idemp_r.
    replace (d * v) with (1 + (- u) * q) by lia.
    rewrite Z_mod_plus_full. apply Z.mod_small. lia.
Qed.
Print Assumptions inv_mod_prime.


(* member <=> quadratic residue: for p = 2q+1 with q odd, an element of order dividing q is the square of
   a^((q+1)/2); conversely squares of non-multiples of p have order dividing q (square_member). *)
Theorem member_is_square : forall p q a : Z, 1 < p -> Z.odd q = true -> 0 < q -> 0 <= a < p ->
  a ^ q mod p = 1 -> let e := a ^ ((q + 1) / 2) mod p in 0 <= e < p /\ (e ^ 2) mod p = a.
Proof.
  intros p q a Hp Hodd Hq Ha H e. split; [apply Z.mod_pos_bound; lia|].
  subst e. rewrite <- Zpower_mod by lia. rewrite <- Z.pow_mul_r by (try lia; apply Z.div_pos; lia).
  assert (E : (q + 1) / 2 * 2 = q + 1).
  { rewrite Z.odd_spec in Hodd. destruct Hodd as [k Hk]. subst q.
    replace (2 * k + 1 + 1) with ((k + 1) * 2) by ring. rewrite Z.div_mul by lia. reflexivity. }
  rewrite E. rewrite Z.pow_add_r by lia. rewrite Z.pow_1_r.
  rewrite <- Z.mul_mod_idemp_l by lia. rewrite H. rewrite Z.mul_1_l. apply Z.mod_small. exact Ha.
Qed.
Print Assumptions member_is_square.

Theorem member_iff_qr : forall p q a : Z, prime p -> p = 2 * q + 1 -> Z.odd q = true -> 0 < q -> 1 <= a < p ->
  (a ^ q mod p = 1 <-> exists e, 0 < e < p /\ (e ^ 2) mod p = a).
Proof.
  intros p q a Hp Hpq Hodd Hq Ha. pose proof (prime_ge_2 _ Hp) as H2. split.
  - intro H. destruct (member_is_square p q a ltac:(lia) Hodd Hq ltac:(lia) H) as [He1 He2].
    exists (a ^ ((q + 1) / 2) mod p). split; [|exact He2].
    destruct (Z.eq_dec (a ^ ((q + 1) / 2) mod p) 0) as [E|]; [|lia].
    rewrite E in He2. rewrite Z.pow_0_l, Z.mod_0_l in He2 by lia. lia.
  - intros (e & He & Hsq). rewrite <- Hsq. apply square_member; auto. apply not_divide_small. exact He.
Qed.
Print Assumptions member_iff_qr.

(** Sanity instances for p = 23, q = 11: 2 is a member, 23 - 2 = 21 is not. *)
Example ex23 : 2 ^ 11 mod 23 = 1.
Proof. vm_compute. reflexivity. Qed.

Example ex23_neg : (23 - 2) ^ 11 mod 23 = 23 - 1.
Proof. vm_compute. reflexivity. Qed.
