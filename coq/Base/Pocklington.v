(* Base/Pocklington.v — Pocklington's primality criterion, proved from Fermat's little theorem, with a boolean
   certificate checker. Used to (a) certify the 62-bit execution parameter set (q from the factorisation of q-1,
   p = 2q+1 from q) and (b) derive [prime p2048] from [prime q2048], so the shipped group needs ONE named
   primality hypothesis instead of two.

   Criterion (squarefree form): N > 1, F | N-1, N < F*F, F = r_1 * ... * r_k with distinct primes r_i, and for each
   r_i a witness a_i with a_i^(N-1) = 1 (mod N) and gcd(a_i^((N-1)/r_i) - 1, N) = 1. Then N is prime. *)
From Coq Require Import ZArith Znumtheory Zpow_facts List Lia Bool.
From Strand Require Import Base.ZUtil Base.Fermat Base.Primes.
Import ListNotations.
Open Scope Z_scope.

(* ---------------------------------------------------------------- a^m = a^n = 1  ==>  a^gcd(m,n) = 1 *)
Lemma pow_one_gcd_aux P a : 1 < P -> forall k : nat, forall m n, 0 <= m -> 0 <= n -> (Z.to_nat (m + n) <= k)%nat ->
  a ^ m mod P = 1 -> a ^ n mod P = 1 -> a ^ Z.gcd m n mod P = 1.
Proof.
  intros HP. induction k as [|k IH]; intros m n Hm Hn Hk Am An.
  - assert (m = 0) by lia. assert (n = 0) by lia. subst. cbn. apply Z.mod_small. lia.
  - destruct (Z.eq_dec n 0) as [->|Hn0].
    { rewrite Z.gcd_0_r, Z.abs_eq by lia. exact Am. }
    destruct (Z.eq_dec m 0) as [->|Hm0].
    { rewrite Z.gcd_0_l, Z.abs_eq by lia. exact An. }
    destruct (Z_le_gt_dec n m) as [Hle|Hgt].
    + (* m >= n: gcd m n = gcd (m-n) n *)
      assert (E : Z.gcd m n = Z.gcd (m - n) n).
      { rewrite (Z.gcd_comm m n), (Z.gcd_comm (m - n) n). symmetry.
        replace (m - n) with (m + (-1) * n) by lia. rewrite Z.gcd_add_mult_diag_r. reflexivity. }
      (* a^(m-n) = a^(m-n) * a^n = a^m = 1 *)
      assert (Em : a ^ m = a ^ (m - n) * a ^ n) by (rewrite <- Z.pow_add_r by lia; f_equal; lia).
      assert (Amn : a ^ (m - n) mod P = 1).
      { rewrite Em in Am. rewrite <- Z.mul_mod_idemp_r in Am by lia. rewrite An, Z.mul_1_r in Am. exact Am. }
      rewrite E. apply IH; [lia|lia|lia|exact Amn|exact An].
    + assert (E : Z.gcd m n = Z.gcd m (n - m)).
      { symmetry. replace (n - m) with (n + (-1) * m) by lia. rewrite Z.gcd_add_mult_diag_r. reflexivity. }
      assert (En : a ^ n = a ^ (n - m) * a ^ m) by (rewrite <- Z.pow_add_r by lia; f_equal; lia).
      assert (Anm : a ^ (n - m) mod P = 1).
      { rewrite En in An. rewrite <- Z.mul_mod_idemp_r in An by lia. rewrite Am, Z.mul_1_r in An. exact An. }
      rewrite E. apply IH; [lia|lia|lia|exact Am|exact Anm].
Qed.

Lemma pow_one_gcd P a m n : 1 < P -> 0 <= m -> 0 <= n ->
  a ^ m mod P = 1 -> a ^ n mod P = 1 -> a ^ Z.gcd m n mod P = 1.
Proof. intros HP Hm Hn. apply (pow_one_gcd_aux P a HP (Z.to_nat (m + n))); auto. Qed.

Lemma pow_one_multiple P a g k : 1 < P -> 0 <= g -> 0 <= k -> a ^ g mod P = 1 -> a ^ (g * k) mod P = 1.
Proof.
  intros HP Hg Hk A. rewrite Z.pow_mul_r by lia.
  rewrite Zpower_mod by lia. rewrite A. rewrite Z.pow_1_l by lia. apply Z.mod_small. lia.
Qed.

(* ---------------------------------------------------------------- one prime r of F divides P - 1 *)
Lemma mod_of_divisor N P x : 0 < P -> (P | N) -> (x mod N) mod P = x mod P.
Proof.
  intros HP [c ->]. destruct (Z.eq_dec c 0) as [->|Hc].
  - rewrite Z.mul_0_l, Zmod_0_r. reflexivity.
  - apply mod_eq_of_divide. rewrite (Z.mod_eq x (c * P)) by nia.
    exists (- (c * (x / (c * P)))). ring.
Qed.

Lemma pock_one_prime N P r a : 1 < N -> prime P -> (P | N) -> prime r -> (r | N - 1) ->
  a ^ (N - 1) mod N = 1 -> Z.gcd (a ^ ((N - 1) / r) mod N - 1) N = 1 -> (r | P - 1).
Proof.
  intros HN HP HPN Hr HrN A1 G.
  pose proof (prime_ge_2 P HP) as HP2. pose proof (prime_ge_2 r Hr) as Hr2.
  (* modulo P *)
  assert (A1P : a ^ (N - 1) mod P = 1).
  { rewrite <- (mod_of_divisor N P) by (auto; lia). rewrite A1. apply Z.mod_small. lia. }
  assert (HnotPa : ~ (P | a)).
  { intros [c Hc]. assert (a ^ (N - 1) mod P = 0).
    { replace (N - 1) with (1 + (N - 2)) by lia. rewrite Z.pow_add_r by lia. rewrite Z.pow_1_r, Hc.
      replace (c * P * (c * P) ^ (N - 2)) with (c * (c * P) ^ (N - 2) * P) by ring. apply Z_mod_mult. }
    lia. }
  pose proof (fermat_Z P a HP HnotPa) as FP.
  pose proof (pow_one_gcd P a (N - 1) (P - 1) ltac:(lia) ltac:(lia) ltac:(lia) A1P FP) as AG.
  set (g := Z.gcd (N - 1) (P - 1)) in *.
  assert (Hg0 : 0 <= g) by apply Z.gcd_nonneg.
  assert (HgN : (g | N - 1)) by apply Z.gcd_divide_l.
  assert (HgP : (g | P - 1)) by apply Z.gcd_divide_r.
  (* r | g, otherwise g | (N-1)/r and a^((N-1)/r) = 1 mod P, so P divides the gcd *)
  destruct (Zdivide_dec r g) as [Hrg|Hnrg].
  { eapply Z.divide_trans; eauto. }
  exfalso.
  destruct HgN as [k Hk]. destruct HrN as [t Ht].
  assert (Hgpos : 0 < g).
  { destruct (Z.eq_dec g 0) as [E|]; [|lia]. rewrite E in Hk. lia. }
  assert (Hkpos : 0 <= k) by nia.
  assert (Hrk : (r | k)).
  { apply (Gauss r g k).
    - exists t. lia.
    - apply prime_rel_prime; assumption. }
  destruct Hrk as [u Hu].
  assert (Hdiv : (N - 1) / r = g * u).
  { rewrite Hk, Hu. replace (u * r * g) with (g * u * r) by ring. apply Z.div_mul. lia. }
  assert (Hu0 : 0 <= u) by nia.
  pose proof (pow_one_multiple P a g u ltac:(lia) Hg0 Hu0 AG) as AX. rewrite <- Hdiv in AX.
  assert (HPd : (P | a ^ ((N - 1) / r) mod N - 1)).
  { apply Z.mod_divide; [lia|]. rewrite Zminus_mod. rewrite (mod_of_divisor N P) by (auto; lia).
    rewrite AX. rewrite (Z.mod_small 1) by lia. reflexivity. }
  assert (HP1 : (P | 1)).
  { rewrite <- G. apply Z.gcd_greatest; assumption. }
  apply Z.divide_1_r_nonneg in HP1; lia.
Qed.

(* ---------------------------------------------------------------- distinct primes: the product divides *)
Lemma distinct_primes_rel_prime r s : prime r -> prime s -> r <> s -> rel_prime r s.
Proof.
  intros Hr Hs Hne. apply prime_rel_prime; [exact Hr|]. intro D.
  apply prime_div_prime in D; auto.
Qed.

Lemma rel_prime_product r l : prime r -> Forall prime l -> ~ In r l -> rel_prime r (fold_right Z.mul 1 l).
Proof.
  intros Hr Hl Hn. induction l as [|s l IH]; cbn [fold_right].
  - apply rel_prime_sym, rel_prime_1.
  - apply rel_prime_mult.
    + apply distinct_primes_rel_prime; auto; [inversion Hl; auto | intro E; apply Hn; left; auto].
    + apply IH; [inversion Hl; auto | intro; apply Hn; right; auto].
Qed.

Lemma product_divides l c : Forall prime l -> NoDup l -> (forall r, In r l -> (r | c)) -> (fold_right Z.mul 1 l | c).
Proof.
  induction l as [|r l IH]; intros Hp Hd Hall; cbn [fold_right].
  - apply Z.divide_1_l.
  - inversion Hp as [|? ? Hr Hl]; subst. inversion Hd as [|? ? Hnin Hd']; subst.
    assert (D1 : (r | c)) by (apply Hall; left; reflexivity).
    assert (D2 : (fold_right Z.mul 1 l | c)) by (apply IH; auto; intros; apply Hall; right; auto).
    destruct D1 as [k Hk]. subst c.
    assert (D3 : (fold_right Z.mul 1 l | k)).
    { apply (Gauss _ r k); [rewrite Z.mul_comm; exact D2|]. apply rel_prime_sym, rel_prime_product; auto. }
    destruct D3 as [u Hu]. exists u. rewrite Hu. ring.
Qed.

Lemma prod_primes_pos l : Forall prime l -> 0 < fold_right Z.mul 1 l.
Proof.
  induction l as [|r l IH]; intro Hp; cbn [fold_right]; [lia|].
  inversion Hp as [|? ? Hr Hl]; subst. pose proof (prime_ge_2 r Hr). specialize (IH Hl). nia.
Qed.

Lemma exists_prime_divisor_aux : forall k : nat, forall s, 1 < s -> (Z.to_nat s <= k)%nat -> exists P, prime P /\ (P | s).
Proof.
  induction k as [|k IH]; intros s Hs Hk; [lia|].
  destruct (prime_dec s) as [Hps|Hnps]; [exists s; split; [assumption|apply Z.divide_refl]|].
  destruct (not_prime_divide s Hs Hnps) as (d & Hd1 & Hd2).
  destruct (IH d ltac:(lia) ltac:(lia)) as (P & HP & HPd). exists P. split; [assumption|].
  eapply Z.divide_trans; eauto.
Qed.

Lemma exists_prime_divisor s : 1 < s -> exists P, prime P /\ (P | s).
Proof. intro Hs. apply (exists_prime_divisor_aux (Z.to_nat s)); auto. Qed.

(* ---------------------------------------------------------------- the criterion *)
Definition pock_witness (N : Z) (ra : Z * Z) : Prop :=
  let (r, a) := ra in (r | N - 1) /\ a ^ (N - 1) mod N = 1 /\ Z.gcd (a ^ ((N - 1) / r) mod N - 1) N = 1.

Theorem pocklington N (cert : list (Z * Z)) :
  1 < N -> Forall prime (map fst cert) -> NoDup (map fst cert) -> Forall (pock_witness N) cert ->
  N < fold_right Z.mul 1 (map fst cert) * fold_right Z.mul 1 (map fst cert) -> prime N.
Proof.
  intros HN Hp Hd Hw Hsq. set (F := fold_right Z.mul 1 (map fst cert)) in *.
  (* every prime divisor P of N is = 1 mod F *)
  assert (Hall : forall P, prime P -> (P | N) -> (F | P - 1)).
  { intros P HP HPN. apply product_divides; auto. intros r Hr.
    apply in_map_iff in Hr. destruct Hr as ([r' a] & E & Hin). cbn in E. subst r'.
    rewrite Forall_forall in Hw. pose proof (Hw _ Hin) as W. cbn in W. destruct W as (W1 & W2 & W3).
    rewrite Forall_forall in Hp. apply (pock_one_prime N P r a); auto. apply Hp. apply in_map_iff. exists (r, a). auto. }
  destruct (prime_dec N) as [|Hnp]; [assumption|exfalso].
  (* a composite N has a divisor d with 1 < d, d*d <= N; take a prime divisor of it *)
  assert (HF0 : 0 < F) by (apply prod_primes_pos; assumption).
  destruct (not_prime_divide N HN Hnp) as (d & Hd1 & Hd2).
  destruct Hd2 as [e He].
  assert (Hepos : 1 < e < N) by nia.
  (* the smaller of d, e has square <= N *)
  assert (Hsmall : exists s, 1 < s /\ (s | N) /\ s * s <= N).
  { destruct (Z_le_gt_dec d e); [exists d | exists e]; repeat split; try lia; try nia.
    - exists e. lia.
    - exists d. lia. }
  destruct Hsmall as (s & Hs1 & Hs2 & Hs3).
  (* a prime divisor of s *)
  assert (Hpd : exists P, prime P /\ (P | s)) by (apply exists_prime_divisor; assumption).
  destruct Hpd as (P & HP & HPs).
  assert (HPN : (P | N)) by (eapply Z.divide_trans; eauto).
  pose proof (Hall P HP HPN) as [c Hc]. pose proof (prime_ge_2 P HP) as HP2.
  assert (HPle : P <= s) by (apply Z.divide_pos_le; [lia|assumption]).
  assert (c >= 1) by nia.
  assert (F <= P - 1) by nia.
  nia.
Qed.
Print Assumptions pocklington.

(* ---------------------------------------------------------------- boolean certificate checker *)
Fixpoint nodupb (l : list Z) : bool :=
  match l with
  | [] => true
  | x :: t => negb (existsb (Z.eqb x) t) && nodupb t
  end.

Lemma nodupb_sound l : nodupb l = true -> NoDup l.
Proof.
  induction l as [|x t IH]; intro H; [constructor|].
  cbn [nodupb] in H. apply andb_true_iff in H. destruct H as [H1 H2]. constructor; [|auto].
  intro Hin. apply negb_true_iff in H1. assert (existsb (Z.eqb x) t = true); [|congruence].
  apply existsb_exists. exists x. split; [assumption|apply Z.eqb_refl].
Qed.

(* the witness check through an arbitrary kernel-style modular power [pw] that agrees with the reference *)
Definition pock_witnessb (pw : Z -> Z -> Z -> Z) (N : Z) (ra : Z * Z) : bool :=
  let (r, a) := ra in
  ((N - 1) mod r =? 0) && (pw a (N - 1) N =? 1) && (Z.gcd (pw a ((N - 1) / r) N - 1) N =? 1).

Definition pock_checkb (pw : Z -> Z -> Z -> Z) (N : Z) (cert : list (Z * Z)) : bool :=
  let F := fold_right Z.mul 1 (map fst cert) in
  (1 <? N) && nodupb (map fst cert) && (N <? F * F) && forallb (pock_witnessb pw N) cert.

Theorem pock_checkb_sound pw N cert :
  (forall b e m, m <> 0 -> pw b e m = b ^ e mod m) ->
  Forall prime (map fst cert) -> pock_checkb pw N cert = true -> prime N.
Proof.
  intros Hpw Hp H. unfold pock_checkb in H.
  repeat (apply andb_true_iff in H; destruct H as [H ?]).
  apply Z.ltb_lt in H. apply (pocklington N cert); auto.
  - apply nodupb_sound; assumption.
  - rewrite Forall_forall. intros [r a] Hin. rewrite forallb_forall in H0. pose proof (H0 _ Hin) as W.
    unfold pock_witnessb in W. repeat (apply andb_true_iff in W; destruct W as [W ?]).
    rewrite !Hpw in * by lia. cbn. split; [|split].
    + assert (Hr : prime r). { rewrite Forall_forall in Hp. apply Hp. apply in_map_iff. exists (r, a). auto. }
      pose proof (prime_ge_2 r Hr). apply Z.mod_divide; [lia|]. apply Z.eqb_eq. assumption.
    + apply Z.eqb_eq. assumption.
    + apply Z.eqb_eq. assumption.
  - apply Z.ltb_lt. assumption.
Qed.
Print Assumptions pock_checkb_sound.

(* ---------------------------------------------------------------- certificate chains *)
(* A chain lists (N, certificate) in dependency order: every prime r used in a certificate is either small
   (below 2^16, certified by trial division) or was certified earlier in the chain. *)
(* [if], not [&&]: vm_compute is call-by-value and must never start trial division on a large number *)
Definition small_primeb (r : Z) : bool := if r <? 65536 then prime_check r else false.

Fixpoint chain_checkb (pw : Z -> Z -> Z -> Z) (known : list Z) (chain : list (Z * list (Z * Z))) : bool :=
  match chain with
  | [] => true
  | (N, cert) :: rest =>
      forallb (fun r => small_primeb r || existsb (Z.eqb r) known) (map fst cert)
      && pock_checkb pw N cert && chain_checkb pw (N :: known) rest
  end.

Theorem chain_checkb_sound pw : (forall b e m, m <> 0 -> pw b e m = b ^ e mod m) ->
  forall chain known, Forall prime known -> chain_checkb pw known chain = true -> Forall prime (map fst chain).
Proof.
  intros Hpw. induction chain as [|[N cert] rest IH]; intros known Hk H; cbn [map fst]; [constructor|].
  cbn [chain_checkb] in H. apply andb_true_iff in H. destruct H as [H H3]. apply andb_true_iff in H. destruct H as [H1 H2].
  assert (HN : prime N).
  { apply (pock_checkb_sound pw N cert Hpw); [|exact H2].
    rewrite Forall_forall. intros r Hr. rewrite forallb_forall in H1. specialize (H1 r Hr).
    apply orb_true_iff in H1. destruct H1 as [Hs|He].
    - unfold small_primeb in Hs. destruct (r <? 65536); [|discriminate]. apply prime_check_sound. exact Hs.
    - apply existsb_exists in He. destruct He as (r' & Hin & Heq). apply Z.eqb_eq in Heq. subst r'.
      rewrite Forall_forall in Hk. apply Hk, Hin. }
  constructor; [exact HN|]. apply (IH (N :: known)); [constructor; assumption|exact H3].
Qed.
Print Assumptions chain_checkb_sound.
