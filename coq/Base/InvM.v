(* Base/InvM.v — correctness of the fuelled extended Euclid [egcd_fuel] and of [invm]. *)
From Coq Require Import ZArith Znumtheory List Lia Bool.
From Strand Require Import Base.ZUtil.
Open Scope Z_scope.

(* [cong a m s r] : s * a ≡ r (mod m), stated with an explicit witness. *)
Definition cong (a m s r : Z) : Prop := exists c, s * a - r = c * m.

Lemma cong_step a m s0 s1 r0 r1 q :
  cong a m s0 r0 -> cong a m s1 r1 -> cong a m (s0 - q * s1) (r0 - q * r1).
Proof.
  intros [c0 H0] [c1 H1]. exists (c0 - q * c1).
  replace ((s0 - q * s1) * a - (r0 - q * r1))
    with ((s0 * a - r0) - q * (s1 * a - r1)) by ring.
  rewrite H0, H1. ring.
Qed.

Lemma egcd_fuel_r1_0 fuel r0 s0 s1 : egcd_fuel fuel r0 0 s0 s1 = (r0, s0).
Proof. destruct fuel; reflexivity. Qed.

Lemma egcd_fuel_step f r0 r1 s0 s1 :
  r1 <> 0 ->
  egcd_fuel (S f) r0 r1 s0 s1 =
  egcd_fuel f r1 (r0 mod r1) s1 (s0 - (r0 / r1) * s1).
Proof.
  intro Hr1. cbn [egcd_fuel].
  destruct (r1 =? 0) eqn:E.
  - apply Z.eqb_eq in E. contradiction.
  - cbv zeta. replace (r0 - r0 / r1 * r1) with (r0 mod r1); [reflexivity|].
    rewrite Z.mod_eq by exact Hr1. ring.
Qed.

Lemma gcd_step r0 r1 : r1 <> 0 -> Z.gcd r1 (r0 mod r1) = Z.gcd r0 r1.
Proof.
  intro Hr1. rewrite (Z.gcd_comm r1 (r0 mod r1)).
  rewrite Z.gcd_mod by exact Hr1. apply Z.gcd_comm.
Qed.

Lemma mod_half r0 r1 : 0 < r1 < r0 -> 2 * (r0 mod r1) < r0.
Proof.
  intros H.
  pose proof (Z.mod_pos_bound r0 r1 ltac:(lia)) as Hb.
  pose proof (Z.div_mod r0 r1 ltac:(lia)) as Hd.
  assert (Hq : 1 <= r0 / r1).
  { apply Z.div_le_lower_bound; lia. }
  nia.
Qed.

(* Fuel sufficiency + functional correctness of the loop. *)
Lemma egcd_fuel_correct a m :
  forall (k : nat) (fuel : nat) r0 r1 s0 s1,
    0 <= r1 < r0 -> r0 <= 2 ^ Z.of_nat k -> (2 * k <= fuel)%nat ->
    cong a m s0 r0 -> cong a m s1 r1 ->
    exists g s, egcd_fuel fuel r0 r1 s0 s1 = (g, s) /\ g = Z.gcd r0 r1 /\ cong a m s g.
Proof.
  induction k as [|k IH]; intros fuel r0 r1 s0 s1 Hr Hk Hf C0 C1.
  - change (2 ^ Z.of_nat 0) with 1 in Hk.
    assert (r1 = 0) by lia. subst r1.
    exists r0, s0. rewrite egcd_fuel_r1_0. rewrite Z.gcd_0_r.
    repeat split; [rewrite Z.abs_eq; lia | exact C0].
  - destruct (Z.eq_dec r1 0) as [E1|E1].
    + subst r1. exists r0, s0. rewrite egcd_fuel_r1_0, Z.gcd_0_r.
      repeat split; [rewrite Z.abs_eq; lia | exact C0].
    + destruct fuel as [|[|f]]; try lia.
      rewrite egcd_fuel_step by exact E1.
      rewrite <- (gcd_step r0 r1 E1).
      pose proof (Z.mod_pos_bound r0 r1 ltac:(lia)) as Hb.
      assert (C2 : cong a m (s0 - r0 / r1 * s1) (r0 mod r1)).
      { replace (r0 mod r1) with (r0 - r0 / r1 * r1)
          by (rewrite Z.mod_eq by exact E1; ring).
        apply cong_step; assumption. }
      set (r2 := r0 mod r1) in *. set (s2 := s0 - r0 / r1 * s1) in *.
      destruct (Z.eq_dec r2 0) as [E2|E2].
      * rewrite E2 in *. exists r1, s1. rewrite egcd_fuel_r1_0, Z.gcd_0_r.
        repeat split; [rewrite Z.abs_eq; lia | exact C1].
      * rewrite egcd_fuel_step by exact E2.
        rewrite <- (gcd_step r1 r2 E2).
        pose proof (Z.mod_pos_bound r1 r2 ltac:(lia)) as Hb2.
        apply IH.
        -- lia.
        -- pose proof (mod_half r0 r1 ltac:(lia)) as Hh. fold r2 in Hh.
           rewrite Nat2Z.inj_succ, Z.pow_succ_r in Hk by lia. lia.
        -- lia.
        -- exact C2.
        -- replace (r1 mod r2) with (r1 - r1 / r2 * r2)
             by (rewrite Z.mod_eq by exact E2; ring).
           apply cong_step; assumption.
Qed.

Lemma egcd_steps_enough m : 1 < m ->
  m <= 2 ^ Z.of_nat (Z.to_nat (Z.log2_up m)) /\
  (2 * Z.to_nat (Z.log2_up m) <= egcd_steps m)%nat.
Proof.
  intro Hm. split.
  - rewrite Z2Nat.id by apply Z.log2_up_nonneg.
    apply (Z.log2_up_spec m Hm).
  - unfold egcd_steps. lia.
Qed.

(* The loop as run by [invm] computes gcd a m and a Bezout coefficient. *)
Lemma invm_loop a m : 1 < m ->
  exists g s, egcd_fuel (egcd_steps m) m (a mod m) 0 1 = (g, s) /\
              g = Z.gcd a m /\ cong a m s g.
Proof.
  intro Hm.
  destruct (egcd_steps_enough m Hm) as [Hp Hf].
  pose proof (Z.mod_pos_bound a m ltac:(lia)) as Hb.
  destruct (egcd_fuel_correct a m (Z.to_nat (Z.log2_up m)) (egcd_steps m)
              m (a mod m) 0 1 ltac:(lia) Hp Hf) as (g & s & He & Hg & Hc).
  - exists (-1). ring.
  - exists (a / m). rewrite Z.mod_eq by lia. ring.
  - exists g, s. repeat split; try assumption.
    rewrite Hg. rewrite (Z.gcd_comm m (a mod m)).
    rewrite Z.gcd_mod by lia. apply Z.gcd_comm.
Qed.

Theorem invm_some : forall a m r, 1 < m -> invm a m = Some r ->
  0 <= r < m /\ (a * r) mod m = 1.
Proof.
  intros a m r Hm H. unfold invm in H.
  destruct (invm_loop a m Hm) as (g & s & He & Hg & [c Hc]).
  rewrite He in H.
  destruct (g =? 1) eqn:E; [|discriminate].
  apply Z.eqb_eq in E. injection H as <-.
  split; [apply Z.mod_pos_bound; lia|].
  rewrite Z.mul_mod_idemp_r by lia.
  replace (a * s) with (1 + c * m) by lia.
  rewrite Z.mod_add by lia. apply Z.mod_1_l; exact Hm.
Qed.
Print Assumptions invm_some.

Theorem invm_complete : forall a m, 1 < m -> Z.gcd a m = 1 -> exists r, invm a m = Some r.
Proof.
  intros a m Hm Hgcd. unfold invm.
  destruct (invm_loop a m Hm) as (g & s & He & Hg & _).
  rewrite He. rewrite Hg, Hgcd. cbn [Z.eqb Pos.eqb]. eexists; reflexivity.
Qed.
Print Assumptions invm_complete.

Theorem invm_none : forall a m, 1 < m -> invm a m = None -> Z.gcd a m <> 1.
Proof.
  intros a m Hm H Hgcd.
  destruct (invm_complete a m Hm Hgcd) as [r Hr]. congruence.
Qed.
Print Assumptions invm_none.

Lemma inv_gcd_1 a m r : 1 < m -> (a * r) mod m = 1 -> Z.gcd a m = 1.
Proof.
  intros Hm H.
  apply Zgcd_1_rel_prime. apply bezout_rel_prime.
  apply (Bezout_intro a m 1 r (- ((a * r) / m))).
  pose proof (Z.div_mod (a * r) m ltac:(lia)) as Hd. rewrite H in Hd. lia.
Qed.

Theorem invm_unique : forall a m r, 1 < m -> 0 <= r < m -> (a * r) mod m = 1 ->
  invm a m = Some r.
Proof.
  intros a m r Hm Hr H.
  destruct (invm_complete a m Hm (inv_gcd_1 a m r Hm H)) as [r' Hr'].
  rewrite Hr'. f_equal.
  destruct (invm_some a m r' Hm Hr') as [Hb' H'].
  pose proof (Z.div_mod (a * r) m ltac:(lia)) as Hd. rewrite H in Hd.
  pose proof (Z.div_mod (a * r') m ltac:(lia)) as Hd'. rewrite H' in Hd'.
  set (q := a * r / m) in *. set (q' := a * r' / m) in *.
  assert (Hk : r' - r = m * (r * q' - r' * q)).
  { replace (r' - r) with (r * (a * r' - 1) - r' * (a * r - 1)) by ring.
    rewrite Hd, Hd'. ring. }
  assert (Hz : r * q' - r' * q = 0) by nia.
  rewrite Hz in Hk. lia.
Qed.
Print Assumptions invm_unique.

(* convenience for prime moduli *)
Theorem invm_prime : forall a p, prime p -> a mod p <> 0 ->
  exists r, invm a p = Some r /\ 0 <= r < p /\ (a * r) mod p = 1.
Proof.
  intros a p Hp Ha.
  assert (Hp1 : 1 < p) by (destruct Hp; assumption).
  assert (Hg : Z.gcd a p = 1).
  { apply Zgcd_1_rel_prime. apply rel_prime_sym. apply prime_rel_prime; [exact Hp|].
    intro Hd. apply Ha. apply Z.mod_divide; [lia | exact Hd]. }
  destruct (invm_complete a p Hp1 Hg) as [r Hr].
  exists r. split; [exact Hr|]. apply invm_some; assumption.
Qed.
Print Assumptions invm_prime.

Example invm_ex1 : invm 3 23 = Some 8.
Proof. vm_compute. reflexivity. Qed.

Example invm_ex2 : invm 6 9 = None.
Proof. vm_compute. reflexivity. Qed.
