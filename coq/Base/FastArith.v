(* Base/FastArith.v — a second arithmetic kernel, backed by Bignums.BigZ (trees of primitive 63-bit
   integers), proven extensionally equal to the reference definitions of Base/ZUtil.v. It exists only
   so that `vm_compute` can RUN the model at 2048 bits (plain binary Z needs ~1 h per modular
   exponentiation there); no theorem about the model depends on it. *)
From Coq Require Import ZArith Znumtheory Zpow_facts Lia Bool.
From Bignums Require Import BigZ.
From Strand Require Import Base.ZUtil Base.InvM.
Open Scope Z_scope.

Definition bz (x : Z) : bigZ := BigZ.of_Z x.
Definition zb (x : bigZ) : Z := BigZ.to_Z x.

Lemma zb_bz x : zb (bz x) = x.
Proof. unfold zb, bz. apply BigZ.spec_of_Z. Qed.

Fixpoint bpow_pos (a : bigZ) (e : positive) (m : bigZ) : bigZ :=
  match e with
  | xH => BigZ.modulo a m
  | xO e' => let z := bpow_pos a e' m in BigZ.modulo (BigZ.mul z z) m
  | xI e' => let z := bpow_pos a e' m in
             BigZ.modulo (BigZ.mul (BigZ.modulo (BigZ.mul z z) m) a) m
  end.

Lemma bpow_pos_spec a e m : zb (bpow_pos a e m) = (zb a ^ Zpos e) mod (zb m).
Proof.
  unfold zb. induction e as [e IH | e IH | ]; cbn [bpow_pos].
  - rewrite BigZ.spec_modulo, BigZ.spec_mul, BigZ.spec_modulo, BigZ.spec_mul, IH.
    replace (Z.pos e~1) with (Z.pos e * 2 + 1) by lia. rewrite Z.pow_add_r, Z.pow_mul_r, Z.pow_1_r, Z.pow_2_r by lia.
    set (x := BigZ.to_Z a ^ Z.pos e). set (mm := BigZ.to_Z m). set (aa := BigZ.to_Z a).
    rewrite Zmult_mod_idemp_l.
    rewrite <- Z.mul_assoc. rewrite Zmult_mod_idemp_l.
    rewrite (Z.mul_comm x (x mod mm * aa)). rewrite <- Z.mul_assoc. rewrite Zmult_mod_idemp_l.
    f_equal. lia.
  - rewrite BigZ.spec_modulo, BigZ.spec_mul, IH.
    replace (Z.pos e~0) with (Z.pos e * 2) by lia. rewrite Z.pow_mul_r, Z.pow_2_r by lia.
    rewrite <- Zmult_mod. reflexivity.
  - rewrite BigZ.spec_modulo. rewrite Z.pow_1_r. reflexivity.
Qed.

Definition fast_powm (b e m : Z) : Z :=
  match e with
  | Zpos e' => if m =? 0 then powm b e m else zb (bpow_pos (bz b) e' (bz m))
  | _ => powm b e m
  end.

Lemma fast_powm_ok b e m : fast_powm b e m = powm b e m.
Proof.
  unfold fast_powm. destruct e as [|e'|e']; try reflexivity.
  destruct (m =? 0) eqn:Hm; [reflexivity|].
  apply Z.eqb_neq in Hm. rewrite bpow_pos_spec, !zb_bz. symmetry. apply powm_spec. exact Hm.
Qed.

Definition fast_mul (a b : Z) : Z := zb (BigZ.mul (bz a) (bz b)).
Lemma fast_mul_ok a b : fast_mul a b = a * b.
Proof. unfold fast_mul, zb. rewrite BigZ.spec_mul. fold (zb (bz a)) (zb (bz b)). now rewrite !zb_bz. Qed.

Definition fast_mod (a m : Z) : Z := zb (BigZ.modulo (bz a) (bz m)).
Lemma fast_mod_ok a m : fast_mod a m = a mod m.
Proof. unfold fast_mod, zb. rewrite BigZ.spec_modulo. fold (zb (bz a)) (zb (bz m)). now rewrite !zb_bz. Qed.

(* inverse: try the Fermat candidate a^(m-2) mod m, validate it, fall back to Euclid. By uniqueness of
   the inverse in [0,m) this is always what Euclid returns. *)
Definition fast_invm (a m : Z) : option Z :=
  let r := fast_powm a (m - 2) m in
  if (1 <? m) && (0 <=? r) && (r <? m) && (fast_mod (fast_mul a r) m =? 1) then Some r else invm a m.

Lemma fast_invm_ok a m : fast_invm a m = invm a m.
Proof.
  unfold fast_invm.
  destruct ((1 <? m) && (0 <=? fast_powm a (m - 2) m) && (fast_powm a (m - 2) m <? m)
            && (fast_mod (fast_mul a (fast_powm a (m - 2) m)) m =? 1)) eqn:H; [|reflexivity].
  rewrite !andb_true_iff in H. destruct H as [[[H1 H2] H3] H4].
  rewrite fast_mod_ok, fast_mul_ok in H4.
  symmetry. apply invm_unique; lia.
Qed.

Definition K_fast : Kernel := {|
  k_powm := fast_powm; k_mul := fast_mul; k_mod := fast_mod; k_invm := fast_invm;
  k_powm_ok := fast_powm_ok; k_mul_ok := fast_mul_ok; k_mod_ok := fast_mod_ok; k_invm_ok := fast_invm_ok |}.
