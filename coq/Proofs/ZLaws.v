(* Proofs/ZLaws.v — the multiplicative backends satisfy the backend laws (Proofs/Laws.v) on the set
   member P = { a | 1 <= a < p /\ a^q mod p = 1 }, for every arithmetic kernel, both flavors, and every
   parameter record with 1 < q, 1 < p and a member generator. No primality is needed for the laws. *)
From Coq Require Import ZArith Znumtheory Zpow_facts List Lia Bool.
From Strand Require Import Base.ZUtil Base.InvM Model.Outcome Model.Codec Model.Backend Model.ZBackend
  Proofs.Laws.
Open Scope Z_scope.

Definition member (P : Params) (a : Z) : Prop :=
  1 <= a < p_p P /\ a ^ p_q P mod p_p P = 1.

Definition memberb (P : Params) (a : Z) : bool :=
  (1 <=? a) && (a <? p_p P) && (powm a (p_q P) (p_p P) =? 1).

Record GoodParams (P : Params) : Prop := {
  gp_q : 1 < p_q P;
  gp_p : 1 < p_p P;
  gp_g : member P (p_g P)
}.

Lemma memberb_spec P a : 1 < p_p P -> (memberb P a = true <-> member P a).
Proof.
  intro Hp. unfold memberb, member. rewrite powm_spec by lia.
  rewrite !andb_true_iff, !Z.leb_le, !Z.ltb_lt, Z.eqb_eq. tauto.
Qed.

Section ZLaws.
  Variable K : Kernel.
  Variable fl : flavor.
  Variable P : Params.
  Hypothesis G : GoodParams P.
  Notation p := (p_p P).
  Notation q := (p_q P).
  Notation B := (ZB K fl P).

  Let Hq : 1 < q := gp_q P G.
  Let Hp : 1 < p := gp_p P G.

  Lemma member_intro r : 0 <= r < p -> r ^ q mod p = 1 -> member P r.
  Proof.
    intros Hr Hpow. split; [|exact Hpow].
    destruct (Z.eq_dec r 0) as [->|]; [|lia].
    rewrite Z.pow_0_l in Hpow by lia. rewrite Z.mod_0_l in Hpow by lia. discriminate.
  Qed.

  Lemma member_one : member P 1.
  Proof. split; [lia|]. rewrite Z.pow_1_l by lia. apply Z.mod_small; lia. Qed.

  Lemma member_mulmod a b : member P a -> member P b -> member P ((a * b) mod p).
  Proof.
    intros [Ha Ea] [Hb Eb]. apply member_intro; [apply Z.mod_pos_bound; lia|].
    rewrite <- Zpower_mod by lia. rewrite Z.pow_mul_l. rewrite Zmult_mod, Ea, Eb.
    apply Z.mod_small; lia.
  Qed.

  Lemma member_powmod a x : member P a -> 0 <= x -> member P (a ^ x mod p).
  Proof.
    intros [Ha Ea] Hx. apply member_intro; [apply Z.mod_pos_bound; lia|].
    rewrite <- Zpower_mod by lia. rewrite <- Z.pow_mul_r by lia.
    rewrite (Z.mul_comm x q), Z.pow_mul_r by lia.
    rewrite Zpower_mod by lia. rewrite Ea. rewrite Z.pow_1_l by lia. apply Z.mod_small; lia.
  Qed.

  (* a member is a unit: a * a^(q-1) = a^q = 1 (mod p) *)
  Lemma member_gcd a : member P a -> Z.gcd a p = 1.
  Proof.
    intros [Ha Ea].
    assert (Hb : Bezout a p 1).
    { apply Bezout_intro with (u := a ^ (q - 1)) (v := - (a ^ q / p)).
      replace (a ^ (q - 1) * a) with (a ^ q).
      2:{ replace q with ((q - 1) + 1) at 1 by lia. rewrite Z.pow_add_r by lia. now rewrite Z.pow_1_r. }
      pose proof (Z.div_mod (a ^ q) p ltac:(lia)) as D. rewrite Ea in D. lia. }
    apply Zgcd_1_rel_prime. apply bezout_rel_prime. exact Hb.
  Qed.

  Lemma member_inv a : member P a ->
    exists a', invm a p = Some a' /\ member P a' /\ (a * a') mod p = 1.
  Proof.
    intros Ha. destruct (invm_complete a p Hp (member_gcd a Ha)) as [a' E].
    destruct (invm_some a p a' Hp E) as [Hr Hm].
    exists a'. split; [exact E|]. split; [|exact Hm].
    apply member_intro; [exact Hr|].
    destruct Ha as [Ha Ea].
    assert (((a * a') ^ q) mod p = 1) as H1.
    { rewrite Zpower_mod by lia. rewrite Hm. rewrite Z.pow_1_l by lia. apply Z.mod_small; lia. }
    rewrite Z.pow_mul_l in H1. rewrite Zmult_mod in H1. rewrite Ea in H1.
    rewrite Z.mul_1_l in H1. rewrite Z.mod_mod in H1 by lia. exact H1.
  Qed.

  Ltac kn := cbn [ZB E b_q b_gen b_one b_mul b_modp b_invp b_pow b_eqb b_xadd b_xmul b_xsub b_xmodq
                  b_xinvq b_sub_mod b_from_u64 b_ser_e b_ser_x b_hash_to_exp b_mulp b_gpow];
            unfold b_mulp, b_gpow;
            cbn [ZB E b_q b_gen b_one b_mul b_modp b_invp b_pow b_eqb b_xadd b_xmul b_xsub b_xmodq
                  b_xinvq b_sub_mod b_from_u64 b_ser_e b_ser_x b_hash_to_exp];
            rewrite ?k_mod_ok, ?k_mul_ok, ?k_powm_ok, ?k_invm_ok, ?powm_spec by lia.

  Theorem ZB_laws : Laws B (member P).
  Proof.
    constructor.
    - exact Hq.
    - exact member_one.
    - exact (gp_g P G).
    - intros a b Ha Hb. kn. apply member_mulmod; assumption.
    - intros a [Ha _]. kn. apply Z.mod_small; lia.
    - intros a b. kn. apply Zmult_mod_idemp_l.
    - intros a b. kn. apply Zmult_mod_idemp_r.
    - intros a b _ _. kn. now rewrite Z.mul_comm.
    - intros a b c _ _ _. kn. rewrite Zmult_mod_idemp_l, Zmult_mod_idemp_r. now rewrite Z.mul_assoc.
    - intros a [Ha _]. kn. rewrite Z.mul_1_l. apply Z.mod_small; lia.
    - intros a Ha. destruct (member_inv a Ha) as (a' & E & Ha' & Hm).
      exists a'. kn. unfold z_inv. rewrite k_invm_ok, E. auto.
    - intros a x Ha Hx. kn. apply member_powmod; assumption.
    - intros a _. kn. rewrite Z.pow_0_r. apply Z.mod_small; lia.
    - intros a [Ha _]. kn. rewrite Z.pow_1_r. apply Z.mod_small; lia.
    - intros x Hx. kn. rewrite Z.pow_1_l by lia. apply Z.mod_small; lia.
    - intros a x y _ Hx Hy. kn. rewrite Z.pow_add_r by lia. apply Zmult_mod.
    - intros a x y _ Hx Hy. kn. rewrite <- Zpower_mod by lia. now rewrite Z.pow_mul_r by lia.
    - intros a b x _ _ Hx. kn. rewrite <- Zpower_mod by lia. rewrite Z.pow_mul_l. apply Zmult_mod.
    - intros a [_ Ea]. kn. exact Ea.
    - intros a b _ _. kn. apply Z.eqb_eq.
    - intros x y Hx Hy. kn. split; [lia | reflexivity].
    - intros x y Hx Hy. kn. split; [nia | reflexivity].
    - intros x _. kn. reflexivity.
    - intros bs. kn. unfold z_hash_to_exp. rewrite k_mod_ok. apply Z.mod_pos_bound; lia.
  Qed.
End ZLaws.
