(* Proofs/Ed25519Group.v — the algebraic core of Ed25519 completeness on the executable model, from the proved group
   law (Base/Edwards.v, Proofs/RistrettoGroup.v): for every secret scalar a, nonce r and challenge k, with
   A = [a]B, R = [r]B and S = (r + k a) mod l, the point  R - ([k](-A) + [S]B)  that both verification rules examine is
   the neutral element, so the cofactored (ZIP-215 / ed25519-zebra) test  [8](...) = identity  of the model succeeds.
   What this does NOT cover is the byte layer of a signature (that decompress inverts compress, i.e. the square-root
   computation): the statement is about points, not about 64-byte strings. *)
From Coq Require Import ZArith Znumtheory Lia List Bool Ring Field.
From Strand Require Import Base.ZUtil Base.ZpField Base.Edwards Model.Outcome Model.Codec Model.Ristretto Model.RistrettoFast
  Model.Ed25519 Proofs.PrimeCerts Proofs.RistrettoGroup.
Open Scope Z_scope.

(* the identity test of the model (X = 0 and Y = Z on canonical coordinates) recognises every sum whose affine image is
   the neutral element *)
Lemma is_identity_canon P : valid P -> aff P = eid ->
  px P = zv fp (F (px P)) -> py P = zv fp (F (py P)) -> pz P = zv fp (F (pz P)) ->
  ed_is_identity P = true.
Proof.
  intros (Hz & _ & _) A Cx Cy Cz. unfold aff, Edwards.eid in A.
  assert (Ax : fd (F (px P)) (F (pz P)) = f0) by (exact (f_equal fst A)).
  assert (Ay : fd (F (py P)) (F (pz P)) = f1) by (exact (f_equal snd A)).
  assert (Ex : F (px P) = f0).
  { assert (F (px P) = fm (fd (F (px P)) (F (pz P))) (F (pz P))) as -> by (field; exact Hz). rewrite Ax. ring. }
  assert (Ey : F (py P) = F (pz P)).
  { assert (F (py P) = fm (fd (F (py P)) (F (pz P))) (F (pz P))) as -> by (field; exact Hz). rewrite Ay. ring. }
  unfold ed_is_identity. apply andb_true_iff. split; apply Z.eqb_eq.
  - rewrite Cx, Ex. reflexivity.
  - rewrite Cy, Cz, Ey. reflexivity.
Qed.

Lemma pt_add_canon K P1 P2 :
  let P := pt_add K P1 P2 in
  px P = zv fp (F (px P)) /\ py P = zv fp (F (py P)) /\ pz P = zv fp (F (pz P)).
Proof.
  unfold pt_add. cbn [px py pz]. repeat split; rewrite (F_fmul K); apply fmul_zv.
Qed.

Lemma is_identity_of_aff K P1 P2 : valid (pt_add K P1 P2) -> aff (pt_add K P1 P2) = eid ->
  ed_is_identity (pt_add K P1 P2) = true.
Proof.
  intros V A. destruct (pt_add_canon K P1 P2) as (Cx & Cy & Cz). now apply is_identity_canon.
Qed.

Section EdEq.
  Variable K : Kernel.
  Variable PM : PMul.

  Let G := aff (pt_base K).
  Let CG : onc G.  Proof. apply (valid_base K). Qed.

  Lemma pm_correct e P : valid P -> valid (pm_mul PM e P) /\ aff (pm_mul PM e P) = nmul (Z.to_nat e) (aff P).
  Proof. intro V. rewrite pm_ok, <- (pt_mul_K K). now apply pt_mul_correct. Qed.

  (* general form: A and R are ANY valid points whose affine images are [a]G and [r]G (e.g. decoded from bytes) *)
  Theorem ed_equation_complete_gen (A R : point) a r k : 0 <= a -> 0 <= r -> 0 <= k ->
    valid A -> valid R -> aff A = nmul (Z.to_nat a) G -> aff R = nmul (Z.to_nat r) G ->
    let s := sc_add K r (sc_mul K k a) in
    ed_is_identity (ed_mul8 K (pt_add K R (pt_neg K (ed_rprime K PM A k s)))) = true.
  Proof.
    intros Ha Hr Hk VA VR AA AR. cbv zeta.
    set (B := pt_base K). set (s := sc_add K r (sc_mul K k a)).
    assert (EG : aff B = G) by reflexivity.
    destruct (pt_neg_correct K A VA) as [VnA AnA].
    destruct (pm_correct k _ VnA) as [VkA AkA].
    destruct (pm_correct s B (valid_base K)) as [VsB AsB].
    unfold ed_rprime. destruct (pt_add_correct K _ _ VkA VsB) as [Vrp Arp].
    destruct (pt_neg_correct K _ Vrp) as [Vn An].
    destruct (pt_add_correct K _ _ VR Vn) as [Vd Ad].
    assert (Es : nmul (Z.to_nat s) G = eadd (nmul (Z.to_nat r) G) (nmul (Z.to_nat k) (nmul (Z.to_nat a) G))).
    { unfold s, sc_add, sc_mul, smod. rewrite !k_mod_ok, k_mul_ok.
      rewrite <- (E_nmul_mul _ _ _ CG), <- (E_nmul_add _ _ _ CG).
      rewrite <- Z2Nat.inj_mul, <- Z2Nat.inj_add by nia.
      apply nmul_congr; try exact CG; [exact (base_order K) | apply Z.mod_pos_bound; reflexivity | nia |].
      rewrite Z.mod_mod by discriminate. rewrite Zplus_mod_idemp_r. reflexivity. }
    rewrite EG in AsB.
    assert (Erp : aff (pt_add K (pm_mul PM k (pt_neg K A)) (pm_mul PM s B)) = nmul (Z.to_nat r) G).
    { rewrite Arp, AkA, AnA, AA, AsB, Es.
      set (X := nmul (Z.to_nat a) G). assert (CX : onc X) by (apply E_nmul_onc; exact CG).
      rewrite (E_nmul_eneg _ _ CX).
      set (Y := nmul (Z.to_nat k) X). assert (CY : onc Y) by (apply E_nmul_onc; exact CX).
      set (Rr := nmul (Z.to_nat r) G). assert (CR : onc Rr) by (apply E_nmul_onc; exact CG).
      rewrite (E_comm (eneg Y) (eadd Rr Y)). apply E_cancel_r; assumption. }
    assert (Ed0 : aff (pt_add K R (pt_neg K (pt_add K (pm_mul PM k (pt_neg K A)) (pm_mul PM s B)))) = eid).
    { rewrite Ad, An, Erp, AR. apply E_neg_r. apply E_nmul_onc. exact CG. }
    set (d := pt_add K R (pt_neg K (pt_add K (pm_mul PM k (pt_neg K A)) (pm_mul PM s B)))) in *.
    unfold ed_mul8.
    destruct (pt_add_correct K _ _ Vd Vd) as [V2 A2]. rewrite Ed0, E_id_l in A2.
    destruct (pt_add_correct K _ _ V2 V2) as [V4 A4]. rewrite A2, E_id_l in A4.
    destruct (pt_add_correct K _ _ V4 V4) as [V8 A8]. rewrite A4, E_id_l in A8.
    apply is_identity_of_aff; assumption.
  Qed.

  (* the point R' = [k](-A) + [S]B that the dalek rule re-encodes is [r]G *)
  Lemma ed_rprime_aff (A : point) a r k : 0 <= a -> 0 <= r -> 0 <= k ->
    valid A -> aff A = nmul (Z.to_nat a) G ->
    let s := sc_add K r (sc_mul K k a) in
    valid (ed_rprime K PM A k s) /\ aff (ed_rprime K PM A k s) = nmul (Z.to_nat r) G.
  Proof.
    intros Ha Hr Hk VA AA. cbv zeta.
    set (s := sc_add K r (sc_mul K k a)).
    assert (EG : aff (pt_base K) = G) by reflexivity.
    destruct (pt_neg_correct K A VA) as [VnA AnA].
    destruct (pm_correct k _ VnA) as [VkA AkA].
    destruct (pm_correct s (pt_base K) (valid_base K)) as [VsB AsB].
    unfold ed_rprime. destruct (pt_add_correct K _ _ VkA VsB) as [Vrp Arp].
    split; [exact Vrp|].
    assert (Es : nmul (Z.to_nat s) G = eadd (nmul (Z.to_nat r) G) (nmul (Z.to_nat k) (nmul (Z.to_nat a) G))).
    { unfold s, sc_add, sc_mul, smod. rewrite !k_mod_ok, k_mul_ok.
      rewrite <- (E_nmul_mul _ _ _ CG), <- (E_nmul_add _ _ _ CG).
      rewrite <- Z2Nat.inj_mul, <- Z2Nat.inj_add by nia.
      apply nmul_congr; try exact CG; [exact (base_order K) | apply Z.mod_pos_bound; reflexivity | nia |].
      rewrite Z.mod_mod by discriminate. rewrite Zplus_mod_idemp_r. reflexivity. }
    rewrite EG in AsB. rewrite Arp, AkA, AnA, AA, AsB, Es.
    set (X := nmul (Z.to_nat a) G). assert (CX : onc X) by (apply E_nmul_onc; exact CG).
    rewrite (E_nmul_eneg _ _ CX).
    set (Y := nmul (Z.to_nat k) X). assert (CY : onc Y) by (apply E_nmul_onc; exact CX).
    set (Rr := nmul (Z.to_nat r) G). assert (CR : onc Rr) by (apply E_nmul_onc; exact CG).
    rewrite (E_comm (eneg Y) (eadd Rr Y)). apply E_cancel_r; assumption.
  Qed.

  Theorem ed_equation_complete a r k : 0 <= a -> 0 <= r -> 0 <= k ->
    let B := pt_base K in
    let A := pm_mul PM a B in
    let R := pm_mul PM r B in
    let s := sc_add K r (sc_mul K k a) in
    ed_is_identity (ed_mul8 K (pt_add K R (pt_neg K (ed_rprime K PM A k s)))) = true.
  Proof.
    intros Ha Hr Hk. cbv zeta.
    destruct (pm_correct a (pt_base K) (valid_base K)) as [VA AA].
    destruct (pm_correct r (pt_base K) (valid_base K)) as [VR AR].
    exact (ed_equation_complete_gen _ _ a r k Ha Hr Hk VA VR AA AR).
  Qed.
End EdEq.
