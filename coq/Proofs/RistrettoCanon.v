(* Proofs/RistrettoCanon.v — RFC 9496: a string that DECODE accepts is THE canonical encoding of the point it denotes:
   ENCODE (DECODE bs) = bs for every byte string bs that the model's decompress accepts. Consequences: decoding is
   injective (two different accepted strings never denote the same point value) and every accepted element re-serialises
   to exactly the bytes it came from (C11 "canonical encoding of a valid point", C12 on accepted ristretto elements). *)
From Coq Require Import ZArith Znumtheory Zpow_facts Lia List Bool Ring Field.
From Coq Require Import Ncring Cring Integral_domain NsatzTactic.
From Strand Require Import Base.ZUtil Base.Fermat Base.ZpField Base.Edwards Model.Outcome Model.Codec Model.Ristretto
  Model.RistrettoFast Model.RBackend Proofs.CodecP Proofs.PrimeCerts Proofs.RistrettoGroup Proofs.RistrettoDecode
  Proofs.SqrtRatio Proofs.Ed25519Complete.
Import ListNotations.
Open Scope Z_scope.

Local Instance Fp_ops : @Ring_ops Fp f0 f1 fa fm fs fo (@eq Fp) := Fops Fp f0 f1 fa fm fs fo.
Local Instance Fp_ri : Ring (Ro:=Fp_ops) := Fri Fp f0 f1 fa fm fs fo fd fi Fth.
Local Instance Fp_cri : Cring (Rr:=Fp_ri) := Fcri Fp f0 f1 fa fm fs fo fd fi Fth.
Local Instance Fp_di : Integral_domain (Rcr:=Fp_cri) := Fdi Fp f0 f1 fa fm fs fo fd fi Fth F_dec.
Ltac nsatz_internal_discrR ::= (let Hd := fresh in intro Hd; apply (f_equal (zv fp)) in Hd; vm_compute in Hd; discriminate Hd).

(* bytes <-> integer *)
Lemma le_fixed_le_int bs : bytes_ok bs -> le_fixed (length bs) (le_int bs) = bs.
Proof.
  induction bs as [|b r IH]; intro H; [reflexivity|].
  inversion H as [|? ? Hb Hr]; subst. cbn [length le_fixed]. rewrite le_int_cons.
  f_equal.
  - rewrite (Z.mul_comm 256), Z_mod_plus_full. now apply Z.mod_small.
  - rewrite (Z.mul_comm 256), Z.div_add by discriminate. rewrite (Z.div_small b 256) by exact Hb.
    rewrite Z.add_0_l. now apply IH.
Qed.

(* the non-negative representative is determined by the square *)
Lemma fabs_unique K c s : c = zv fp (F c) -> s = zv fp (F s) -> Z.odd s = false ->
  fm (F c) (F c) = fm (F s) (F s) -> fabs K c = s.
Proof.
  intros Cc Cs Es S. pose proof (canon_range s Cs) as Rs.
  destruct (sq_eq_cases Fp f0 f1 fa fm fs fo fd fi Fth F_dec iF iF_sq _ _ S) as [E|E].
  - assert (c = s) by (apply canon_eq; assumption). subst c. unfold fabs, fis_neg. now rewrite Es.
  - assert (Ec : c = fneg K s) by (apply canon_eq; [exact Cc | apply fneg_canon | now rewrite F_fneg]).
    destruct (Z.eq_dec s 0) as [->|N].
    + rewrite fneg_0 in Ec. subst c. reflexivity.
    + rewrite (fneg_val K s) in Ec by lia. subst c. unfold fabs, fis_neg.
      rewrite Z.odd_sub, Es. change (Z.odd fp) with true. cbn [xorb]. rewrite (fneg_val K (fp - s)) by lia. ring.
Qed.

Lemma fmul_one_r K a : a = zv fp (F a) -> forall o, F o = f1 -> fmul K a o = a.
Proof. intros Ca o Ho. apply canon_eq; [apply fmul_canon | exact Ca |]. rewrite F_fmul, Ho. ring. Qed.

Lemma canon_zero a : a = zv fp (F a) -> F a = f0 -> a = 0.
Proof. intros Ca H. rewrite Ca, H. reflexivity. Qed.

(* ---- field algebra behind ENCODE o DECODE = id ---- *)
Section Alg.
  Variables S I X Y : Fp.
  Let U1 := fs f1 (fm S S).
  Let U2 := fa f1 (fm S S).
  Let V := fs (fo (fm dF (fm U1 U1))) (fm U2 U2).
  Hypothesis H : fm (fm V (fm U2 U2)) (fm I I) = f1.
  Hypothesis EX : fm X X = fm (fm (fm (fa f1 f1) S) (fm I U2)) (fm (fm (fa f1 f1) S) (fm I U2)).
  Hypothesis EY : Y = fm U1 (fm (fm I (fm I U2)) V).

  Lemma alg_YU2 : fm Y U2 = U1.
  Proof. subst U1 U2 V. nsatz. Qed.

  Lemma alg_1mY2 : fm (fm (fa f1 Y) (fs f1 Y)) (fm U2 U2) = fm (fm (fa f1 f1) (fa f1 f1)) (fm S S).
  Proof. pose proof alg_YU2 as L. subst U1 U2 V. nsatz. Qed.

  Lemma alg_U2_nz : U2 <> f0.
  Proof. intro Z. apply (F_1_neq_0 Fth). rewrite <- H, Z. ring. Qed.

  Lemma alg_I_nz : I <> f0.
  Proof. intro Z. apply (F_1_neq_0 Fth). rewrite <- H, Z. ring. Qed.

  Lemma alg_X_nz : S <> f0 -> X <> f0.
  Proof.
    intros Sn Z.
    assert (Q2 : fm (fm (fm (fa f1 f1) S) (fm I U2)) (fm (fm (fa f1 f1) S) (fm I U2)) = f0) by (rewrite <- EX, Z; ring).
    assert (E : fm (fm (fa f1 f1) S) (fm I U2) = f0) by (destruct (zmul_eq0 fp fp_prime _ _ Q2); assumption).
    destruct (zmul_eq0 fp fp_prime _ _ E) as [E1|E1].
    - destruct (zmul_eq0 fp fp_prime _ _ E1) as [E2|E2]; [exact (two_nzF E2) | exact (Sn E2)].
    - destruct (zmul_eq0 fp fp_prime _ _ E1) as [E2|E2]; [exact (alg_I_nz E2) | exact (alg_U2_nz E2)].
  Qed.

  (* with the inverse square root J of (1-Y^2) T^2, T = X Y, the encoder's candidate A = J T (1 - Y) squares to S^2 *)
  Lemma alg_A2 (J : Fp) : fm (fm (fm (fa f1 Y) (fs f1 Y)) (fm (fm X Y) (fm X Y))) (fm J J) = f1 ->
    fm (fm (fm J (fm X Y)) (fs f1 Y)) (fm (fm J (fm X Y)) (fs f1 Y)) = fm S S.
  Proof.
    intro HJ. pose proof alg_YU2 as L.
    assert (E : fm (fa f1 f1) (fs (fm (fm (fm J (fm X Y)) (fs f1 Y)) (fm (fm J (fm X Y)) (fs f1 Y))) (fm S S)) = f0).
    { assert (E0 : fm U2 (fm (fa f1 f1) (fs (fm (fm (fm J (fm X Y)) (fs f1 Y)) (fm (fm J (fm X Y)) (fs f1 Y))) (fm S S))) = f0)
        by (subst U1 U2 V; nsatz).
      destruct (zmul_eq0 fp fp_prime _ _ E0) as [Z|Z]; [exfalso; exact (alg_U2_nz Z) | exact Z]. }
    destruct (zmul_eq0 fp fp_prime _ _ E) as [Z|Z]; [exfalso; exact (two_nzF Z)|].
    transitivity (fa (fs (fm (fm (fm J (fm X Y)) (fs f1 Y)) (fm (fm J (fm X Y)) (fs f1 Y))) (fm S S)) (fm S S)); [ring|].
    change (zsub fp) with fs in Z. change (z0 fp) with f0 in Z. rewrite Z. ring.
  Qed.
End Alg.

Lemma fis_neg_fabs K a : a = zv fp (F a) -> fis_neg (fabs K a) = false.
Proof. intro Ca. unfold fis_neg. now apply fabs_even. Qed.

(* RFC 9496: ENCODE (DECODE s) = s for a canonical, non-negative s *)
Theorem compress_decode_s K s P : s = zv fp (F s) -> Z.odd s = false ->
  decode_s K s = Some P -> compress K P = le_fixed 32 s.
Proof.
  intros Cs Es. unfold decode_s.
  set (u1 := fsub K 1 (fsq K s)). set (u2 := fadd K 1 (fsq K s)).
  set (v := fsub K (fneg K (fmul K ed_d (fsq K u1))) (fsq K u2)).
  pose proof (sqrt_ratio_ok K 1 (fmul K v (fsq K u2))) as SQ.
  destruct (sqrt_ratio_m1 K 1 (fmul K v (fsq K u2))) as [ws I]. cbn [fst snd] in SQ.
  set (x := fabs K (fmul K (fmul K 2 s) (fmul K I u2))).
  set (y := fmul K u1 (fmul K (fmul K I (fmul K I u2)) v)).
  destruct ws; cbn [negb orb]; [|discriminate].
  destruct (fis_neg (fmul K x y)) eqn:Et; cbn [orb]; [discriminate|].
  destruct (y =? 0) eqn:Ey0; [discriminate|].
  intro E. injection E as <-. specialize (SQ eq_refl).
  (* facts about the decoded coordinates, in GF(p) *)
  assert (Cx : x = zv fp (F x)) by (unfold x; apply fabs_canon, fmul_canon).
  assert (Cy : y = zv fp (F y)) by (unfold y; apply fmul_canon).
  assert (Ex2 : fm (F x) (F x) = fm (fm (fm (fa f1 f1) (F s)) (fm (F I) (F u2))) (fm (fm (fa f1 f1) (F s)) (fm (F I) (F u2)))).
  { unfold x. rewrite F_fabs_sq, !F_fmul, F_2. reflexivity. }
  assert (E1 : F u1 = fs f1 (fm (F s) (F s))) by (unfold u1, fsq; now rewrite F_fsub, F_fmul, F_1).
  assert (E2 : F u2 = fa f1 (fm (F s) (F s))) by (unfold u2, fsq; now rewrite F_fadd, F_fmul, F_1).
  assert (Ev : F v = fs (fo (fm dF (fm (F u1) (F u1)))) (fm (F u2) (F u2))).
  { unfold v, fsq. now rewrite F_fsub, F_fneg, !F_fmul. }
  assert (Ey : F y = fm (F u1) (fm (fm (F I) (fm (F I) (F u2))) (F v))) by (unfold y; now rewrite !F_fmul).
  assert (H : fm (fm (F v) (fm (F u2) (F u2))) (fm (F I) (F I)) = f1).
  { unfold fsq in SQ. rewrite !F_fmul, F_1 in SQ. exact SQ. }
  rewrite E1, E2 in Ev. rewrite Ev, E2 in H. rewrite E2 in Ex2. rewrite E1, E2, Ev in Ey.
  pose proof (alg_YU2 (F s) (F I) (F x) (F y) H Ex2 Ey) as LY.
  pose proof (alg_1mY2 (F s) (F I) (F x) (F y) H Ex2 Ey) as L2.
  pose proof (alg_U2_nz (F s) (F I) H) as U2nz.
  assert (Yn : F y <> f0).
  { intro Z. apply Z.eqb_neq in Ey0. apply Ey0. now apply canon_zero. }
  assert (Ex_even : fis_neg x = false) by (unfold x; apply fis_neg_fabs, fmul_canon).
  (* ---- run the encoder ---- *)
  unfold compress. cbn [px py pz pt].
  set (t := fmul K x y) in *.
  assert (Ct : t = zv fp (F t)) by (unfold t; apply fmul_canon).
  assert (FT : F t = fm (F x) (F y)) by (unfold t; apply F_fmul).
  set (u1c := fmul K (fadd K 1 y) (fsub K 1 y)).
  assert (Eu1c : F u1c = fm (fa f1 (F y)) (fs f1 (F y))) by (unfold u1c; now rewrite F_fmul, F_fadd, F_fsub, F_1).
  set (wc := fmul K u1c (fsq K t)).
  assert (Ewc : F wc = fm (fm (fa f1 (F y)) (fs f1 (F y))) (fm (fm (F x) (F y)) (fm (F x) (F y)))).
  { unfold wc, fsq. now rewrite !F_fmul, Eu1c, FT. }
  destruct (F_dec (F s) f0) as [S0|Sn].
  - (* s = 0: every candidate denominator vanishes, the result is 0 *)
    assert (s0 : s = 0) by (now apply canon_zero). 
    assert (Fx0 : F x = f0).
    { assert (Q : fm (F x) (F x) = f0) by (rewrite Ex2, S0; ring).
      destruct (zmul_eq0 fp fp_prime _ _ Q); assumption. }
    assert (Ft0 : F t = f0) by (rewrite FT, Fx0; ring).
    assert (Y1 : F y = f1).
    { apply (fm_cancel_r _ _ _ U2nz). rewrite LY, S0. ring. }
    assert (Fu1c0 : F u1c = f0) by (rewrite Eu1c, Y1; ring).
    destruct (sqrt_ratio_m1 K 1 wc) as [wsc Ic].
    assert (D0 : forall a b c, F (fmul K (if (a : bool) then fmul K (fmul K Ic u1c) invsqrt_a_minus_d else fmul K Ic t) (fsub K 1 (if (b : bool) then fneg K c else c))) = f0
                 \/ True) by (intros; right; exact Logic.I).
    clear D0.
    match goal with |- le_fixed 32 (fabs K (fmul K ?dinv ?rest)) = _ =>
      assert (Dz : F dinv = f0) end.
    { match goal with |- F (if ?c then _ else _) = _ => destruct c end; rewrite !F_fmul, ?Fu1c0, ?Ft0; ring. }
    match goal with |- le_fixed 32 (fabs K (fmul K ?dinv ?rest)) = _ =>
      assert (R0 : fmul K dinv rest = 0) by (apply canon_zero; [apply fmul_canon | rewrite F_fmul, Dz; ring]) end.
    rewrite R0, s0. reflexivity.
  - (* s <> 0 *)
    pose proof (alg_X_nz (F s) (F I) (F x) H Ex2 Sn) as Xn.
    assert (Tn : F t <> f0) by (rewrite FT; apply E_mul_nz; assumption).
    (* the argument of the inverse square root is the inverse of a square *)
    set (x0F := fd (F u2) (fm (fm (fa f1 f1) (F s)) (F t))).
    assert (Q0 : fm (fm x0F x0F) (F wc) = f1).
    { assert (D : fm (fm (fa f1 f1) (fa f1 f1)) (fm (F s) (F s)) <> f0) by (repeat apply E_mul_nz; assumption || exact two_nzF).
      apply (fm_cancel_r _ _ _ D). 
      assert (K1 : fm x0F (fm (fm (fa f1 f1) (F s)) (F t)) = F u2) by (unfold x0F; field; split; [exact Tn | split; [exact Sn | exact two_nzF]]).
      rewrite E2 in K1. rewrite Ewc, <- FT. clear - K1 L2. nsatz. }
    assert (Wn : F wc <> f0) by (intro Z; apply (F_1_neq_0 Fth); rewrite <- Q0, Z; ring).
    set (x0z := zv fp x0F). assert (Fx0z : F x0z = x0F) by (unfold x0z, F; apply (of_Z_zv fp fp_prime)).
    assert (W1 : fst (sqrt_ratio_m1 K 1 wc) = true).
    { apply (sqrt_ratio_complete K 1 wc x0z); [split; [lia|reflexivity] | exact Wn |]. rewrite Fx0z, F_1. symmetry. exact Q0. }
    pose proof (sqrt_ratio_ok K 1 wc W1) as SQc.
    destruct (sqrt_ratio_snd K 1 wc) as [CIc _].
    destruct (sqrt_ratio_m1 K 1 wc) as [wsc Ic]. cbn [fst snd] in W1, SQc, CIc. rewrite F_1 in SQc.
    (* z_inv = 1 *)
    set (zinv := fmul K (fmul K (fmul K Ic u1c) (fmul K Ic t)) t).
    assert (Zi : F zinv = f1).
    { unfold zinv. rewrite !F_fmul. rewrite <- SQc, Ewc, Eu1c, FT. ring. }
    assert (Rt : fmul K t zinv = t) by (apply fmul_one_r; assumption).
    assert (Rx : fmul K x zinv = x) by (apply fmul_one_r; assumption).
    rewrite Rt, Et, Rx, Ex_even.
    (* s' = | Ic t (1 - y) | *)
    assert (A2 : fm (F (fmul K (fmul K Ic t) (fsub K 1 y))) (F (fmul K (fmul K Ic t) (fsub K 1 y))) = fm (F s) (F s)).
    { rewrite !F_fmul, F_fsub, F_1, FT.
      apply (alg_A2 (F s) (F I) (F x) (F y) H Ex2 Ey (F Ic)). rewrite <- Ewc. exact SQc. }
    rewrite (fabs_unique K _ s (fmul_canon K _ _) Cs Es A2). reflexivity.
Qed.

(* CompressedRistretto::decompress: an accepted string is the canonical encoding of the point it denotes *)
Theorem decompress_canonical K bs P : bytes_ok bs -> decompress K bs = Some P -> compress K P = bs.
Proof.
  intros Hb. unfold decompress.
  destruct (length bs =? 32)%nat eqn:EL; cbn [negb]; [|discriminate]. apply Nat.eqb_eq in EL.
  destruct (le_int bs >=? fp) eqn:Eg; cbn [orb]; [discriminate|].
  destruct (Z.odd (le_int bs)) eqn:Eo; [discriminate|].
  intro D. pose proof (le_int_bound bs Hb) as [Lo _].
  assert (Hi : le_int bs < fp) by (rewrite Z.geb_leb in Eg; apply Z.leb_gt in Eg; exact Eg).
  rewrite (compress_decode_s K (le_int bs) P (small_canon _ (conj Lo Hi)) Eo D).
  rewrite <- EL. apply le_fixed_le_int. exact Hb.
Qed.

Corollary decompress_injective K bs1 bs2 P : bytes_ok bs1 -> bytes_ok bs2 ->
  decompress K bs1 = Some P -> decompress K bs2 = Some P -> bs1 = bs2.
Proof. intros H1 H2 D1 D2. rewrite <- (decompress_canonical K bs1 P H1 D1). apply decompress_canonical; assumption. Qed.

(* the backend's element reader and writer: reading then writing gives back the bytes *)
Corollary r_element_bytes_canonical K bs P : bytes_ok bs -> r_element_from_bytes K bs = Ok P -> compress K P = bs.
Proof.
  intros Hb. unfold r_element_from_bytes. destruct (length bs =? 32)%nat; [|discriminate].
  destruct (decompress K bs) as [Q|] eqn:E; cbn [of_option_err]; [|discriminate]. intro H. injection H as <-. apply decompress_canonical; assumption.
Qed.

(* ---------------------------------------------------------------- the 30-byte plaintext embedding (Ctx::encode / decode) *)
Lemma first_some_spec {A C} (f : A -> option C) l c : first_some f l = Some c -> exists a, In a l /\ f a = Some c.
Proof.
  induction l as [|a r IH]; cbn [first_some]; [discriminate|].
  destruct (f a) as [c'|] eqn:E.
  - intro H. injection H as <-. exists a. split; [now left | exact E].
  - intro H. destruct (IH H) as (a' & I & Ea). exists a'. split; [now right | exact Ea].
Qed.

Lemma zseq_range n z : In z (zseq n) -> 0 <= z < Z.of_nat n.
Proof. unfold zseq. rewrite in_map_iff. intros (k & <- & Hk). apply in_seq in Hk. lia. Qed.

(* whatever element encode returns for a 30-byte plaintext decodes back to that plaintext, and is a valid curve point:
   the embedding is invertible on its domain of success, hence injective *)
Theorem r_encode_decode K data P : bytes_ok data -> length data = 30%nat ->
  r_encode K data = Ok P -> r_decode K P = data /\ valid P.
Proof.
  intros Hd Ld. unfold r_encode.
  destruct (first_some _ (zseq 64)) as [Q|] eqn:E1; cbn [of_option_err]; [|discriminate].
  intro H. injection H as <-.
  destruct (first_some_spec _ _ _ E1) as (j & Ij & E2).
  destruct (first_some_spec _ _ _ E2) as (i & Ii & E3).
  apply zseq_range in Ij. apply zseq_range in Ii.
  assert (Hb : bytes_ok ((2 * i) :: data ++ [j])).
  { constructor; [lia|]. apply bytes_ok_app. split; [exact Hd|]. constructor; [lia|constructor]. }
  split; [|exact (decompress_valid K _ _ E3)].
  unfold r_decode. rewrite (decompress_canonical K _ _ Hb E3). cbn [skipn].
  rewrite firstn_app, Ld, Nat.sub_diag, firstn_O, app_nil_r. rewrite <- Ld. apply firstn_all.
Qed.

Corollary r_encode_injective K d1 d2 P : bytes_ok d1 -> bytes_ok d2 -> length d1 = 30%nat -> length d2 = 30%nat ->
  r_encode K d1 = Ok P -> r_encode K d2 = Ok P -> d1 = d2.
Proof.
  intros H1 H2 L1 L2 E1 E2. destruct (r_encode_decode K d1 P H1 L1 E1) as [<- _].
  destruct (r_encode_decode K d2 P H2 L2 E2) as [D _]. exact D.
Qed.
