(* Proofs/ZInst.v — safe-prime parameter records, kernel-computed certificates for the small sets, the
   facts about the regenerated 2048-bit constants, plaintext encoding (C14) and the instantiation of the
   generic protocol theorems at the multiplicative backends. *)
From Coq Require Import ZArith Znumtheory Zpow_facts List Lia Bool.
From Strand Require Import Base.ZUtil Base.InvM Base.Fermat Base.Primes Base.FastArith
  Generated.Constants Model.Outcome Model.Codec Model.Backend Model.ZBackend Model.Zkp Model.Exec
  Model.Params2048 Proofs.Laws Proofs.ZLaws Proofs.ElgamalP Proofs.SigmaP.
Import ListNotations.
Open Scope Z_scope.

Record SafePrime (P : Params) : Prop := {
  sp_good : GoodParams P;
  sp_p : prime (p_p P);
  sp_q : prime (p_q P);
  sp_rel : p_p P = 2 * p_q P + 1;
  sp_odd : Z.odd (p_q P) = true;
  sp_g1 : p_g P <> 1;
  sp_cof : p_cof P = 2
}.

(* boolean certificate for small sets *)
Definition safe_prime_check (P : Params) : bool :=
  prime_check (p_p P) && prime_check (p_q P) && (p_p P =? 2 * p_q P + 1) && Z.odd (p_q P)
  && (1 <? p_q P) && memberb P (p_g P) && negb (p_g P =? 1) && (p_cof P =? 2).

Lemma safe_prime_check_sound P : safe_prime_check P = true -> SafePrime P.
Proof.
  unfold safe_prime_check. rewrite !andb_true_iff.
  intros [[[[[[[H1 H2] H3] H4] H5] H6] H7] H8].
  apply prime_check_sound in H1. apply prime_check_sound in H2.
  apply Z.eqb_eq in H3. apply Z.ltb_lt in H5. apply Z.eqb_eq in H8.
  assert (1 < p_p P) by lia.
  constructor; try assumption.
  - constructor; [assumption|assumption|]. apply memberb_spec; assumption.
  - apply negb_true_iff in H7. apply Z.eqb_neq in H7. exact H7.
Qed.

Definition small_moduli : list Z := [23; 47; 59; 83; 107; 167; 179; 227; 263; 2039; 65267].

Theorem small_sets_safe : forall p, In p small_moduli -> SafePrime (mkP p).
Proof.
  assert (forallb (fun p => safe_prime_check (mkP p)) small_moduli = true) as H by (vm_compute; reflexivity).
  intros p Hp. apply safe_prime_check_sound. rewrite forallb_forall in H. apply H. exact Hp.
Qed.

(* ---------- the shipped 2048-bit constants (regenerated from src/backend.rs on every run) ---------- *)
Theorem p2048_safe_shape : p2048 = 2 * q2048 + 1.
Proof. vm_compute. reflexivity. Qed.

(* the Verificatum modulus lies between 2^2048 and 2^2049 *)
Theorem p2048_bits : Z.log2 p2048 = 2048 /\ Z.log2 q2048 = 2047.
Proof. vm_compute. split; reflexivity. Qed.

Theorem g2048_range : 1 < g2048 < p2048.
Proof. vm_compute. split; reflexivity. Qed.

Theorem q2048_odd : Z.odd q2048 = true.
Proof. vm_compute. reflexivity. Qed.

Theorem cofactor_two : cofactor2048 = 2.
Proof. vm_compute. reflexivity. Qed.

(* g^q = 1 (mod p): evaluated with the BigZ kernel, transported by fast_powm_ok *)
Theorem g2048_order : powm g2048 q2048 p2048 = 1.
Proof. rewrite <- fast_powm_ok. vm_compute. reflexivity. Qed.

Theorem good_P2048 : GoodParams P2048.
Proof.
  constructor.
  - vm_compute. reflexivity.
  - vm_compute. reflexivity.
  - split; [cbn [P2048 p_g p_p]; pose proof g2048_range; lia|].
    cbn [P2048 p_g p_p p_q]. rewrite <- powm_spec by (vm_compute; discriminate). exact g2048_order.
Qed.

(* primality of the two 2048-bit numbers is the one thing that cannot be certified here *)
Theorem safe_P2048 : prime p2048 -> prime q2048 -> SafePrime P2048.
Proof.
  intros Hp Hq. constructor; try assumption.
  - exact good_P2048.
  - exact p2048_safe_shape.
  - exact q2048_odd.
  - cbn. pose proof g2048_range. lia.
  - exact cofactor_two.
Qed.

(* ---------- plaintext encoding (C14) ---------- *)
Section Encode.
  Variable K : Kernel.
  Variable P : Params.
  Hypothesis S : SafePrime P.
  Notation p := (p_p P).
  Notation q := (p_q P).

  Let Hq : 1 < q := gp_q P (sp_good P S).
  Let Hrel : p = 2 * q + 1 := sp_rel P S.

  Lemma small_not_div a : 0 < a < p -> ~ (p | a).
  Proof. intros Ha [k Hk]. assert (0 < k) by nia. nia. Qed.

  Lemma legendre_cases a : 0 < a < p ->
    (legendre K P a = 1 /\ a ^ q mod p = 1) \/ (legendre K P a = -1 /\ a ^ q mod p = p - 1).
  Proof.
    intros Ha. unfold legendre. rewrite k_powm_ok, powm_spec by lia.
    destruct (euler_pm1 p q a (sp_p P S) Hrel (small_not_div a Ha)) as [E|E]; rewrite E.
    - left. split; reflexivity.
    - right. replace (p - 1 =? 0) with false by (symmetry; apply Z.eqb_neq; lia).
      replace (p - 1 =? 1) with false by (symmetry; apply Z.eqb_neq; lia). split; reflexivity.
  Qed.

  Theorem encode_decode m : 0 <= m < q - 1 ->
    exists e, encode K P m = Ok e /\ member P e /\ decode P e = Ok m.
  Proof.
    intros Hm. unfold encode. rewrite Z.geb_leb.
    replace (q - 1 <=? m) with false by (symmetry; apply Z.leb_gt; lia).
    assert (Hnz : 0 < m + 1 < p) by lia.
    destruct (legendre_cases (m + 1) Hnz) as [[El Ep]|[El Ep]]; rewrite El;
      change (1 =? 0) with false; change (1 =? 1) with true; change (-1 =? 0) with false; change (-1 =? 1) with false; cbv iota.
    - exists (m + 1). rewrite k_mod_ok, Z.mod_small by lia. split; [reflexivity|]. split.
      + split; [lia|exact Ep].
      + unfold decode. rewrite Z.gtb_ltb. replace (q <? m + 1) with false by (symmetry; apply Z.ltb_ge; lia).
        replace (m + 1 <? 1) with false by (symmetry; apply Z.ltb_ge; lia). f_equal. lia.
    - exists (p - (m + 1)). rewrite k_mod_ok, Z.mod_small by lia. split; [reflexivity|]. split.
      + split; [lia|].
        destruct (exactly_one_member p q (m + 1) (sp_p P S) Hrel (sp_odd P S) ltac:(lia) ltac:(lia) Hnz)
          as [[E1 _]|[_ E2]]; [|exact E2]. rewrite E1 in Ep. lia.
      + unfold decode. rewrite Z.gtb_ltb. replace (q <? p - (m + 1)) with true by (symmetry; apply Z.ltb_lt; lia).
        replace (p <? p - (m + 1)) with false by (symmetry; apply Z.ltb_ge; lia).
        replace (p - (p - (m + 1)) <? 1) with false by (symmetry; apply Z.ltb_ge; lia). f_equal. lia.
  Qed.

  Theorem encode_out_of_range m : q - 1 <= m -> encode K P m = Err.
  Proof. intro H. unfold encode. rewrite Z.geb_leb. replace (q - 1 <=? m) with true by (symmetry; apply Z.leb_le; lia). reflexivity. Qed.

  Theorem encode_injective m1 m2 e : 0 <= m1 < q - 1 -> 0 <= m2 < q - 1 ->
    encode K P m1 = Ok e -> encode K P m2 = Ok e -> m1 = m2.
  Proof.
    intros H1 H2 E1 E2.
    destruct (encode_decode m1 H1) as (e1 & A1 & _ & D1). destruct (encode_decode m2 H2) as (e2 & A2 & _ & D2).
    rewrite E1 in A1. rewrite E2 in A2. injection A1 as <-. injection A2 as <-. congruence.
  Qed.

  (* the decodable elements are exactly the non-zero quadratic residues mod p *)
  Theorem member_iff_quadratic_residue a :
    member P a <-> (1 <= a < p /\ exists e, 0 < e < p /\ (e ^ 2) mod p = a).
  Proof.
    unfold member. split.
    - intros [Ha H]. split; [exact Ha|].
      apply (member_iff_qr p q a (sp_p P S) Hrel (sp_odd P S) ltac:(lia) Ha). exact H.
    - intros [Ha H]. split; [exact Ha|].
      apply (member_iff_qr p q a (sp_p P S) Hrel (sp_odd P S) ltac:(lia) Ha). exact H.
  Qed.

End Encode.
