(* Proofs/RngP.v — the samplers of Model/Rng.v as functions of the byte stream:
   (1) domain: gen_biguint / gen_below / rnd_exp / rnd_plaintext return values in range, the stream only
       moves forward, rnd() never panics and returns group members for safe-prime parameters;
   (2) one attempt of gen_biguint is a bijection between the 4*len input bytes and (value, discarded
       bits), every value below 2^bits (resp. below the bound) is reachable;
   (3) Fisher-Yates: the map from index draws to permutations is injective, and shuffle_from is that
       map applied to the indices gen_index returns. *)
From Coq Require Import ZArith List Bool Lia Permutation.
From Strand Require Import Base.ZUtil Model.Outcome Model.Codec Model.ZBackend Model.Rng
  Proofs.CodecP Proofs.ListAlg Proofs.ZLaws Proofs.ZInst.
From Strand Require Proofs.ShuffleRel.
Import ListNotations.
Open Scope Z_scope.
Local Notation length := List.length.

(* ====================================================================================== *)
(* arithmetic of the word layout                                                           *)
(* ====================================================================================== *)
Lemma len_rem0 bits : 0 < bits -> bits mod 32 = 0 -> 32 * ((bits + 31) / 32) = bits.
Proof.
  intros Hb Hr. pose proof (Z.div_mod bits 32 ltac:(lia)) as H1.
  pose proof (Z.div_mod (bits + 31) 32 ltac:(lia)) as H2.
  pose proof (Z.mod_pos_bound (bits + 31) 32 ltac:(lia)) as H3. lia.
Qed.

Lemma len_rem_pos bits : 0 < bits -> bits mod 32 <> 0 ->
  32 * ((bits + 31) / 32 - 1) = bits - bits mod 32.
Proof.
  intros Hb Hr. pose proof (Z.div_mod bits 32 ltac:(lia)) as H1.
  pose proof (Z.div_mod (bits + 31) 32 ltac:(lia)) as H2.
  pose proof (Z.mod_pos_bound (bits + 31) 32 ltac:(lia)) as H3.
  pose proof (Z.mod_pos_bound bits 32 ltac:(lia)) as H4. lia.
Qed.

Lemma len_pos bits : 0 < bits -> 0 < (bits + 31) / 32.
Proof.
  intros Hb. pose proof (Z.div_mod (bits + 31) 32 ltac:(lia)) as H2.
  pose proof (Z.mod_pos_bound (bits + 31) 32 ltac:(lia)) as H3. lia.
Qed.

Lemma pow_bytes n : 0 <= n -> 256 ^ Z.of_nat (Z.to_nat (4 * n)) = 2 ^ (32 * n).
Proof.
  intro Hn. rewrite Z2Nat.id by lia. rewrite <- pow256 by lia. f_equal. lia.
Qed.

Lemma pow2_pos n : 0 <= n -> 0 < 2 ^ n.
Proof. intro H. apply Z.pow_pos_nonneg; lia. Qed.

(* the value kept from [V] (L low bits, then the top word shifted right by 32-rem) is below 2^(L+rem) *)
Lemma top_shift_bound L rem V : 0 <= L -> 0 < rem < 32 -> 0 <= V < 2 ^ (L + 32) ->
  0 <= V mod 2 ^ L + Z.shiftr (V / 2 ^ L) (32 - rem) * 2 ^ L < 2 ^ (L + rem).
Proof.
  intros HL Hr HV. rewrite Z.shiftr_div_pow2 by lia.
  rewrite Z.pow_add_r in HV by lia. rewrite Z.pow_add_r by lia.
  pose proof (pow2_pos L HL) as HM. set (M := 2 ^ L) in *.
  pose proof (pow2_pos (32 - rem) ltac:(lia)) as HS. pose proof (pow2_pos rem ltac:(lia)) as HR.
  assert (E32 : 2 ^ 32 = 2 ^ (32 - rem) * 2 ^ rem).
  { rewrite <- Z.pow_add_r by lia. f_equal. lia. }
  set (S := 2 ^ (32 - rem)) in *. set (R := 2 ^ rem) in *.
  pose proof (Z.mod_pos_bound V M HM) as Hlow.
  assert (Htop : 0 <= V / M < S * R).
  { split; [apply Z.div_pos; lia|]. apply Z.div_lt_upper_bound; [lia|]. rewrite <- E32. lia. }
  assert (Ht : 0 <= V / M / S < R).
  { split; [apply Z.div_pos; lia|]. apply Z.div_lt_upper_bound; lia. }
  set (t := V / M / S) in *.
  assert (t * M <= (R - 1) * M) by (apply Z.mul_le_mono_nonneg_r; lia).
  assert (0 <= t * M) by (apply Z.mul_nonneg_nonneg; lia).
  split; [lia|]. lia.
Qed.

(* ====================================================================================== *)
(* 1. domain                                                                               *)
(* ====================================================================================== *)
Lemma take_n_firstn n s b r : take_n n s = Ok (b, r) -> b = firstn n s.
Proof.
  unfold take_n. destruct (n <=? length s)%nat; [|discriminate]. intro H. injection H as <- _. reflexivity.
Qed.

(* shape of one successful attempt *)
Lemma gen_biguint_inv bits s v rest : gen_biguint bits s = Ok (v, rest) ->
  exists b, s = b ++ rest /\ length b = Z.to_nat (4 * ((bits + 31) / 32)) /\
    b = firstn (Z.to_nat (4 * ((bits + 31) / 32))) s /\
    v = (if bits mod 32 =? 0 then le_int b
         else le_int b mod 2 ^ (32 * ((bits + 31) / 32 - 1))
              + Z.shiftr (le_int b / 2 ^ (32 * ((bits + 31) / 32 - 1))) (32 - bits mod 32)
                * 2 ^ (32 * ((bits + 31) / 32 - 1))).
Proof.
  unfold gen_biguint. cbv zeta.
  destruct (take_n (Z.to_nat (4 * ((bits + 31) / 32))) s) as [[b r]| |] eqn:E; try discriminate.
  intro H. exists b. pose proof (take_n_firstn _ _ _ _ E) as Hf.
  apply take_n_inv in E as [Es Lb].
  destruct (bits mod 32 =? 0); injection H as <- <-; auto.
Qed.

Lemma gen_biguint_np bits s : gen_biguint bits s <> Panic.
Proof.
  unfold gen_biguint. cbv zeta.
  pose proof (take_n_np (Z.to_nat (4 * ((bits + 31) / 32))) s) as H.
  destruct (take_n (Z.to_nat (4 * ((bits + 31) / 32))) s) as [[b r]| |]; try congruence.
  destruct (bits mod 32 =? 0); discriminate.
Qed.

Lemma gen_biguint_ok bits s v rest : 0 < bits -> bytes_ok s -> gen_biguint bits s = Ok (v, rest) ->
  0 <= v < 2 ^ bits /\ bytes_ok rest.
Proof.
  intros Hb Hs H. apply gen_biguint_inv in H as (b & -> & Lb & _ & Hv).
  apply bytes_ok_app in Hs as [Hbb Hr]. split; [|exact Hr].
  pose proof (le_int_bound b Hbb) as HV. pose proof (len_pos bits Hb) as Hlen.
  rewrite Lb, pow_bytes in HV by lia.
  destruct (Z.eqb_spec (bits mod 32) 0) as [E|E].
  - subst v. rewrite (len_rem0 bits Hb E) in HV. exact HV.
  - pose proof (Z.mod_pos_bound bits 32 ltac:(lia)) as Hrem.
    pose proof (len_rem_pos bits Hb E) as EL.
    set (L := 32 * ((bits + 31) / 32 - 1)) in *.
    replace (32 * ((bits + 31) / 32)) with (L + 32) in HV by (unfold L; lia).
    subst v. replace (2 ^ bits) with (2 ^ (L + bits mod 32)) by (f_equal; lia).
    apply top_shift_bound; lia.
Qed.

Theorem gen_biguint_range : forall bits s v rest, 0 < bits -> bytes_ok s ->
  gen_biguint bits s = Ok (v, rest) -> 0 <= v < 2 ^ bits.
Proof. intros bits s v rest Hb Hs H. exact (proj1 (gen_biguint_ok bits s v rest Hb Hs H)). Qed.
Print Assumptions gen_biguint_range.

Lemma bitlen_pos bound : 0 < bound -> 0 < bitlen bound.
Proof.
  intro H. unfold bitlen. destruct (Z.leb_spec bound 0); [lia|]. pose proof (Z.log2_nonneg bound). lia.
Qed.

Lemma bitlen_spec bound : 0 < bound -> bound < 2 ^ bitlen bound.
Proof.
  intro H. unfold bitlen. destruct (Z.leb_spec bound 0); [lia|].
  pose proof (Z.log2_spec bound H) as [_ Hu]. replace (Z.log2 bound + 1) with (Z.succ (Z.log2 bound)) by lia.
  exact Hu.
Qed.

Lemma gen_below_S f bound s :
  gen_below (S f) bound s =
  if bound <=? 0 then Panic
  else match gen_biguint (bitlen bound) s with
       | Ok (n, rest) => if n <? bound then Ok (n, rest) else gen_below f bound rest
       | Err => Err | Panic => Panic
       end.
Proof. reflexivity. Qed.

Lemma gen_below_bound_pos fuel bound s v rest : gen_below fuel bound s = Ok (v, rest) -> 0 < bound.
Proof.
  destruct fuel as [|f]; [discriminate|]. rewrite gen_below_S.
  destruct (Z.leb_spec bound 0); [discriminate|]. intros _. assumption.
Qed.

Theorem gen_below_range : forall fuel bound s v rest, bytes_ok s ->
  gen_below fuel bound s = Ok (v, rest) -> 0 <= v < bound.
Proof.
  induction fuel as [|f IH]; intros bound s v rest Hs H; [discriminate|].
  rewrite gen_below_S in H. destruct (Z.leb_spec bound 0) as [Hb|Hb]; [discriminate|].
  destruct (gen_biguint (bitlen bound) s) as [[n r]| |] eqn:Eg; try discriminate.
  destruct (gen_biguint_ok _ _ _ _ (bitlen_pos bound Hb) Hs Eg) as [Hn Hr].
  destruct (Z.ltb_spec n bound) as [Hlt|Hge].
  - injection H as <- <-. lia.
  - eapply IH; eassumption.
Qed.
Print Assumptions gen_below_range.

Lemma gen_below_rest_ok : forall fuel bound s v rest, bytes_ok s ->
  gen_below fuel bound s = Ok (v, rest) -> bytes_ok rest.
Proof.
  induction fuel as [|f IH]; intros bound s v rest Hs H; [discriminate|].
  rewrite gen_below_S in H. destruct (Z.leb_spec bound 0) as [Hb|Hb]; [discriminate|].
  destruct (gen_biguint (bitlen bound) s) as [[n r]| |] eqn:Eg; try discriminate.
  destruct (gen_biguint_ok _ _ _ _ (bitlen_pos bound Hb) Hs Eg) as [Hn Hr].
  destruct (n <? bound).
  - injection H as <- <-. exact Hr.
  - eapply IH; eassumption.
Qed.

(* no extra hypothesis on the bound is needed: a returned value implies 0 < bound, hence bitlen >= 1 and
   at least one 32-bit word consumed *)
Theorem gen_below_suffix : forall fuel bound s v rest, gen_below fuel bound s = Ok (v, rest) ->
  exists used, s = used ++ rest /\ (length used > 0)%nat.
Proof.
  induction fuel as [|f IH]; intros bound s v rest H; [discriminate|].
  rewrite gen_below_S in H. destruct (Z.leb_spec bound 0) as [Hb|Hb]; [discriminate|].
  destruct (gen_biguint (bitlen bound) s) as [[n r]| |] eqn:Eg; try discriminate.
  apply gen_biguint_inv in Eg as (b & Es & Lb & _ & _).
  pose proof (len_pos _ (bitlen_pos bound Hb)) as Hlen.
  destruct (n <? bound).
  - injection H as <- <-. exists b. split; [exact Es|lia].
  - destruct (IH _ _ _ _ H) as (u & Er & Lu). exists (b ++ u). split.
    + rewrite <- app_assoc, <- Er. exact Es.
    + rewrite app_length. lia.
Qed.
Print Assumptions gen_below_suffix.

Lemma gen_below_np fuel : forall bound s, 0 < bound -> gen_below fuel bound s <> Panic.
Proof.
  induction fuel as [|f IH]; intros bound s Hb; [discriminate|].
  rewrite gen_below_S. destruct (Z.leb_spec bound 0); [lia|].
  pose proof (gen_biguint_np (bitlen bound) s) as Hnp.
  destruct (gen_biguint (bitlen bound) s) as [[n r]| |]; try congruence.
  destruct (n <? bound); [discriminate|]. apply IH. exact Hb.
Qed.

Corollary rnd_exp_in_range : forall P s v rest, bytes_ok s ->
  rnd_exp_bigint P s = Ok (v, rest) -> 0 <= v < p_q P.
Proof. intros P s v rest Hs H. unfold rnd_exp_bigint in H. eapply gen_below_range; eassumption. Qed.
Print Assumptions rnd_exp_in_range.

Corollary rnd_plaintext_in_space : forall P s v rest, bytes_ok s ->
  rnd_plaintext_bigint P s = Ok (v, rest) -> 0 <= v < p_q P - 1.
Proof. intros P s v rest Hs H. unfold rnd_plaintext_bigint in H. eapply gen_below_range; eassumption. Qed.
Print Assumptions rnd_plaintext_in_space.

(* [bytes_ok s] is needed: on a stream with out-of-range "bytes" le_int can be negative, gen_below then
   returns e.g. -1 and encode (-1) = Err (legendre 0 = 0), which rnd() turns into a panic *)
Theorem rnd_bigint_no_panic : forall K P, SafePrime P -> forall s, bytes_ok s -> rnd_bigint K P s <> Panic.
Proof.
  intros K P S s Hs. unfold rnd_bigint.
  pose proof (gp_q P (sp_good P S)) as Hq.
  pose proof (gen_below_np RNG_FUEL (p_q P - 1) s ltac:(lia)) as Hnp.
  destruct (gen_below RNG_FUEL (p_q P - 1) s) as [[m r]| |] eqn:Eg; try congruence.
  pose proof (gen_below_range _ _ _ _ _ Hs Eg) as Hm.
  destruct (encode_decode K P S m Hm) as (e & Ee & _). rewrite Ee. discriminate.
Qed.
Print Assumptions rnd_bigint_no_panic.

Theorem rnd_bigint_member : forall K P, SafePrime P -> forall s e rest, bytes_ok s ->
  rnd_bigint K P s = Ok (e, rest) -> member P e.
Proof.
  intros K P S s e rest Hs H. unfold rnd_bigint in H.
  destruct (gen_below RNG_FUEL (p_q P - 1) s) as [[m r]| |] eqn:Eg; try discriminate.
  pose proof (gen_below_range _ _ _ _ _ Hs Eg) as Hm.
  destruct (encode_decode K P S m Hm) as (e' & Ee & Hmem & _). rewrite Ee in H.
  injection H as <- _. exact Hmem.
Qed.
Print Assumptions rnd_bigint_member.

(* the plaintext behind rnd() is recovered by decode: rnd = encode o rnd_plaintext *)
Theorem rnd_bigint_decodes : forall K P, SafePrime P -> forall s e rest, bytes_ok s ->
  rnd_bigint K P s = Ok (e, rest) ->
  exists m, rnd_plaintext_bigint P s = Ok (m, rest) /\ 0 <= m < p_q P - 1 /\ decode P e = Ok m.
Proof.
  intros K P S s e rest Hs H. unfold rnd_bigint in H. unfold rnd_plaintext_bigint.
  destruct (gen_below RNG_FUEL (p_q P - 1) s) as [[m r]| |] eqn:Eg; try discriminate.
  pose proof (gen_below_range _ _ _ _ _ Hs Eg) as Hm.
  destruct (encode_decode K P S m Hm) as (e' & Ee & _ & Hd). rewrite Ee in H.
  injection H as <- <-. exists m. auto.
Qed.
Print Assumptions rnd_bigint_decodes.

(* ====================================================================================== *)
(* 2. one attempt is a bijection bytes <-> (value, discarded bits); the range is spanned   *)
(* ====================================================================================== *)
Lemma split_top L rem V : 0 <= L -> 0 < rem < 32 ->
  let v := V mod 2 ^ L + Z.shiftr (V / 2 ^ L) (32 - rem) * 2 ^ L in
  let d := (V / 2 ^ L) mod 2 ^ (32 - rem) in
  0 <= d < 2 ^ (32 - rem) /\
  V = v mod 2 ^ L + 2 ^ L * (d + 2 ^ (32 - rem) * (v / 2 ^ L)).
Proof.
  intros HL Hr. cbv zeta. rewrite Z.shiftr_div_pow2 by lia.
  pose proof (pow2_pos L HL) as HM. set (M := 2 ^ L) in *.
  pose proof (pow2_pos (32 - rem) ltac:(lia)) as HS. set (S := 2 ^ (32 - rem)) in *.
  pose proof (Z.mod_pos_bound V M HM) as Hlow.
  split; [apply Z.mod_pos_bound; exact HS|].
  rewrite Z.mod_add, Z.mod_mod by lia.
  rewrite Z.div_add, (Z.div_small (V mod M) M), Z.add_0_l by lia.
  pose proof (Z.div_mod (V / M) S ltac:(lia)) as E1.
  replace ((V / M) mod S + S * (V / M / S)) with (V / M) by lia.
  pose proof (Z.div_mod V M ltac:(lia)) as E2. lia.
Qed.

Theorem gen_biguint_decomposition : forall bits s v rest, 0 < bits -> bytes_ok s ->
  gen_biguint bits s = Ok (v, rest) ->
  let len := (bits + 31) / 32 in let rem := bits mod 32 in
  exists d, 0 <= d < 2 ^ (if rem =? 0 then 0 else 32 - rem) /\
    le_int (firstn (Z.to_nat (4 * len)) s) =
      (if rem =? 0 then v
       else v mod 2 ^ (32 * (len - 1))
            + 2 ^ (32 * (len - 1)) * (d + 2 ^ (32 - rem) * (v / 2 ^ (32 * (len - 1))))).
Proof.
  intros bits s v rest Hb Hs H. cbv zeta.
  apply gen_biguint_inv in H as (b & Es & Lb & Hf & Hv). rewrite <- Hf.
  destruct (Z.eqb_spec (bits mod 32) 0) as [E|E].
  - exists 0. split; [change (2 ^ 0) with 1; lia|]. symmetry. exact Hv.
  - pose proof (Z.mod_pos_bound bits 32 ltac:(lia)) as Hrem.
    pose proof (len_pos bits Hb) as Hlen.
    set (L := 32 * ((bits + 31) / 32 - 1)) in *.
    destruct (split_top L (bits mod 32) (le_int b) ltac:(unfold L; lia) ltac:(lia)) as [Hd HV].
    exists ((le_int b / 2 ^ L) mod 2 ^ (32 - bits mod 32)). split; [exact Hd|].
    rewrite Hv. exact HV.
Qed.
Print Assumptions gen_biguint_decomposition.

(* the input word layout that yields [v]: low bits as they are, top word shifted left by 32-rem *)
Lemma pack_bound L rem v : 0 <= L -> 0 < rem < 32 -> 0 <= v < 2 ^ (L + rem) ->
  0 <= v mod 2 ^ L + 2 ^ L * ((v / 2 ^ L) * 2 ^ (32 - rem)) < 2 ^ (L + 32).
Proof.
  intros HL Hr Hv. rewrite Z.pow_add_r in Hv by lia. rewrite Z.pow_add_r by lia.
  pose proof (pow2_pos L HL) as HM. set (M := 2 ^ L) in *.
  pose proof (pow2_pos (32 - rem) ltac:(lia)) as HS. pose proof (pow2_pos rem ltac:(lia)) as HR.
  assert (E32 : 2 ^ 32 = 2 ^ rem * 2 ^ (32 - rem)).
  { rewrite <- Z.pow_add_r by lia. f_equal. lia. }
  rewrite E32. set (S := 2 ^ (32 - rem)) in *. set (R := 2 ^ rem) in *.
  pose proof (Z.mod_pos_bound v M HM) as Hlow.
  assert (Ht : 0 <= v / M < R).
  { split; [apply Z.div_pos; lia|]. apply Z.div_lt_upper_bound; lia. }
  set (t := v / M) in *.
  assert (H1 : t * S <= (R - 1) * S) by (apply Z.mul_le_mono_nonneg_r; lia).
  assert (H0 : 0 <= t * S) by (apply Z.mul_nonneg_nonneg; lia).
  assert (H2 : M * (t * S) <= M * ((R - 1) * S)) by (apply Z.mul_le_mono_nonneg_l; lia).
  assert (H3 : 0 <= M * (t * S)) by (apply Z.mul_nonneg_nonneg; lia).
  assert (H5 : M <= M * S) by nia.
  split; [lia|]. replace (M * (R * S)) with (M * ((R - 1) * S) + M * S) by ring. lia.
Qed.

Lemma pack_unpack L rem v : 0 <= L -> 0 < rem < 32 ->
  let X := v mod 2 ^ L + 2 ^ L * ((v / 2 ^ L) * 2 ^ (32 - rem)) in
  X mod 2 ^ L + Z.shiftr (X / 2 ^ L) (32 - rem) * 2 ^ L = v.
Proof.
  intros HL Hr. cbv zeta. rewrite Z.shiftr_div_pow2 by lia.
  pose proof (pow2_pos L HL) as HM. set (M := 2 ^ L) in *.
  pose proof (pow2_pos (32 - rem) ltac:(lia)) as HS. set (S := 2 ^ (32 - rem)) in *.
  pose proof (Z.mod_pos_bound v M HM) as Hlow.
  rewrite (Z.mul_comm M (v / M * S)).
  rewrite Z.mod_add, Z.mod_mod by lia.
  rewrite Z.div_add, (Z.div_small (v mod M) M), Z.add_0_l by lia.
  rewrite Z.div_mul by lia.
  pose proof (Z.div_mod v M ltac:(lia)). lia.
Qed.

Theorem gen_biguint_onto : forall bits v rest, 0 < bits -> 0 <= v < 2 ^ bits -> bytes_ok rest ->
  exists s, bytes_ok s /\ length s = Z.to_nat (4 * ((bits + 31) / 32)) /\
            gen_biguint bits (s ++ rest) = Ok (v, rest).
Proof.
  intros bits v rest Hb Hv Hrest.
  pose proof (len_pos bits Hb) as Hlen.
  set (n := Z.to_nat (4 * ((bits + 31) / 32))).
  set (L := 32 * ((bits + 31) / 32 - 1)).
  set (X := if bits mod 32 =? 0 then v
            else v mod 2 ^ L + 2 ^ L * ((v / 2 ^ L) * 2 ^ (32 - bits mod 32))).
  assert (HX : 0 <= X < 256 ^ Z.of_nat n).
  { unfold n. rewrite pow_bytes by lia. unfold X.
    destruct (Z.eqb_spec (bits mod 32) 0) as [E|E].
    - rewrite (len_rem0 bits Hb E). exact Hv.
    - pose proof (Z.mod_pos_bound bits 32 ltac:(lia)) as Hrem.
      pose proof (len_rem_pos bits Hb E) as EL. fold L in EL.
      replace (32 * ((bits + 31) / 32)) with (L + 32) by (unfold L; lia).
      apply pack_bound; [lia|lia|]. replace (L + bits mod 32) with bits by lia. exact Hv. }
  exists (le_fixed n X). split; [apply le_fixed_ok|]. split; [apply le_fixed_len|].
  assert (Et : take_n n (le_fixed n X ++ rest) = Ok (le_fixed n X, rest)).
  { pose proof (take_n_app (le_fixed n X) rest) as T. rewrite le_fixed_len in T. exact T. }
  unfold gen_biguint. cbv zeta. fold n. rewrite Et. rewrite (le_fixed_int n X HX).
  fold L. unfold X.
  destruct (Z.eqb_spec (bits mod 32) 0) as [E|E]; [reflexivity|].
  pose proof (Z.mod_pos_bound bits 32 ltac:(lia)) as Hrem.
  f_equal. f_equal. apply (pack_unpack L (bits mod 32) v); [unfold L; lia|lia].
Qed.
Print Assumptions gen_biguint_onto.

Theorem gen_below_onto : forall bound v rest, 0 <= v < bound -> bytes_ok rest ->
  exists s, bytes_ok s /\ gen_below RNG_FUEL bound (s ++ rest) = Ok (v, rest).
Proof.
  intros bound v rest Hv Hrest.
  assert (Hb : 0 < bound) by lia.
  pose proof (bitlen_spec bound Hb) as Hbl.
  destruct (gen_biguint_onto (bitlen bound) v rest (bitlen_pos bound Hb) ltac:(lia) Hrest)
    as (s & Hs & _ & Eg).
  exists s. split; [exact Hs|].
  unfold RNG_FUEL. change 200%nat with (S 199). rewrite gen_below_S.
  destruct (Z.leb_spec bound 0); [lia|]. rewrite Eg.
  destruct (Z.ltb_spec v bound); [reflexivity|lia].
Qed.
Print Assumptions gen_below_onto.

(* ====================================================================================== *)
(* 3. Fisher-Yates                                                                         *)
(* ====================================================================================== *)
Fixpoint fy (i : nat) (l : list Z) (js : list Z) : list Z :=      (* js = [j_i; j_(i-1); ...; j_1] *)
  match i, js with
  | S i', j :: js' => fy i' (swap_nth l i (Z.to_nat j)) js'
  | _, _ => l
  end.

Lemma swap_nth_at l i j : (i < length l)%nat -> (j < length l)%nat ->
  nth i (swap_nth l i j) 0 = nth j l 0.
Proof.
  intros Hi Hj. rewrite ShuffleRel.swap_nth_upd.
  destruct (Nat.eq_dec i j) as [->|Hne].
  - apply ShuffleRel.upd_nth_same. rewrite ShuffleRel.upd_length by exact Hj. exact Hj.
  - rewrite ShuffleRel.upd_nth_other by (try rewrite ShuffleRel.upd_length by exact Hi; assumption).
    apply ShuffleRel.upd_nth_same. exact Hi.
Qed.

Lemma swap_nth_other l i j p : (i < length l)%nat -> (j < length l)%nat -> p <> i -> p <> j ->
  nth p (swap_nth l i j) 0 = nth p l 0.
Proof.
  intros Hi Hj Hpi Hpj. rewrite ShuffleRel.swap_nth_upd.
  rewrite ShuffleRel.upd_nth_other by (try rewrite ShuffleRel.upd_length by exact Hi; assumption).
  apply ShuffleRel.upd_nth_other; assumption.
Qed.

Definition draws_ok (i : nat) (js : list Z) : Prop :=
  forall k j, nth_error js k = Some j -> 0 <= j <= Z.of_nat (i - k).

Lemma draws_ok_tail i j js : draws_ok (S i) (j :: js) -> 0 <= j <= Z.of_nat (S i) /\ draws_ok i js.
Proof.
  intro H. split.
  - specialize (H O j eq_refl). rewrite Nat.sub_0_r in H. exact H.
  - intros k x Hk. exact (H (S k) x Hk).
Qed.

Lemma fy_length : forall i l js, (i < length l)%nat -> draws_ok i js -> length (fy i l js) = length l.
Proof.
  induction i as [|i IH]; intros l js Hi Hd; [reflexivity|].
  destruct js as [|j js]; [reflexivity|]. cbn [fy].
  apply draws_ok_tail in Hd as [Hj Hd].
  assert (L : length (swap_nth l (S i) (Z.to_nat j)) = length l) by (apply ShuffleRel.swap_nth_length; lia).
  rewrite IH; [exact L|lia|exact Hd].
Qed.

(* positions above the working range are frozen *)
Lemma fy_frozen : forall i l js p, (i < length l)%nat -> draws_ok i js -> (i < p)%nat ->
  nth p (fy i l js) 0 = nth p l 0.
Proof.
  induction i as [|i IH]; intros l js p Hi Hd Hp; [reflexivity|].
  destruct js as [|j js]; [reflexivity|]. cbn [fy].
  apply draws_ok_tail in Hd as [Hj Hd].
  assert (L : length (swap_nth l (S i) (Z.to_nat j)) = length l) by (apply ShuffleRel.swap_nth_length; lia).
  rewrite IH by (try exact Hd; lia).
  apply swap_nth_other; lia.
Qed.

Lemma fy_injective_gen : forall i l js js', NoDup l -> (i < length l)%nat ->
  length js = i -> length js' = i -> draws_ok i js -> draws_ok i js' ->
  fy i l js = fy i l js' -> js = js'.
Proof.
  induction i as [|i IH]; intros l js js' Hnd Hi Ljs Ljs' Hd Hd' E.
  - destruct js; [|discriminate]. destruct js'; [reflexivity|discriminate].
  - destruct js as [|j js]; [discriminate|]. destruct js' as [|j' js']; [discriminate|].
    cbn [fy] in E. cbn [length] in Ljs, Ljs'.
    apply draws_ok_tail in Hd as [Hj Hd]. apply draws_ok_tail in Hd' as [Hj' Hd'].
    assert (HJ : (Z.to_nat j < length l)%nat) by lia.
    assert (HJ' : (Z.to_nat j' < length l)%nat) by lia.
    assert (L : length (swap_nth l (S i) (Z.to_nat j)) = length l) by (apply ShuffleRel.swap_nth_length; lia).
    assert (L' : length (swap_nth l (S i) (Z.to_nat j')) = length l) by (apply ShuffleRel.swap_nth_length; lia).
    assert (Ej : j = j').
    { pose proof (f_equal (fun x => nth (S i) x 0) E) as En. cbv beta in En.
      rewrite !fy_frozen in En by (try assumption; lia).
      rewrite !swap_nth_at in En by lia.
      apply (proj1 (NoDup_nth l 0) Hnd) in En; lia. }
    subst j'. f_equal.
    apply (IH (swap_nth l (S i) (Z.to_nat j))); try assumption; try lia.
    eapply Permutation_NoDup; [|exact Hnd].
    apply Permutation_sym, ShuffleRel.swap_nth_perm; lia.
Qed.

Theorem fy_injective : forall n js js', length js = pred n -> length js' = pred n ->
  (forall k j, nth_error js k = Some j -> 0 <= j <= Z.of_nat (pred n - k)) ->      (* j_i <= i *)
  (forall k j, nth_error js' k = Some j -> 0 <= j <= Z.of_nat (pred n - k)) ->
  fy (pred n) (iota n) js = fy (pred n) (iota n) js' -> js = js'.
Proof.
  intros n js js' Ljs Ljs' Hd Hd' E.
  destruct n as [|n].
  - cbn [pred] in *. destruct js; [|discriminate]. destruct js'; [reflexivity|discriminate].
  - cbn [pred] in *. apply (fy_injective_gen n (iota (S n))); try assumption.
    + apply iota_NoDup.
    + rewrite iota_length. lia.
Qed.
Print Assumptions fy_injective.

Theorem shuffle_from_is_fy : forall i l s l' rest, shuffle_from i l s = Ok (l', rest) ->
  exists js, length js = i /\ l' = fy i l js.
Proof.
  induction i as [|i IH]; intros l s l' rest H.
  - cbn [shuffle_from] in H. injection H as <- _. exists []. split; reflexivity.
  - cbn [shuffle_from] in H.
    destruct (gen_index RNG_FUEL (Z.of_nat (S (S i))) s) as [[j r]| |] eqn:Eg; try discriminate.
    destruct (IH _ _ _ _ H) as (js & Ljs & El).
    exists (j :: js). split; [cbn [length]; lia|]. cbn [fy]. exact El.
Qed.
Print Assumptions shuffle_from_is_fy.

(* on a well-formed stream the draws are in range (j_i in 0..i), so the two theorems compose:
   gen_permutation n s = fy (n-1) (iota n) js for in-range draws js, and that map is injective *)
Theorem shuffle_from_is_fy_bounded : forall i l s l' rest, bytes_ok s ->
  shuffle_from i l s = Ok (l', rest) ->
  exists js, length js = i /\ draws_ok i js /\ l' = fy i l js /\ bytes_ok rest.
Proof.
  induction i as [|i IH]; intros l s l' rest Hs H.
  - cbn [shuffle_from] in H. injection H as <- <-. exists [].
    split; [reflexivity|]. split; [|split; [reflexivity|exact Hs]].
    intros k j Hk. destruct k; discriminate.
  - cbn [shuffle_from] in H.
    destruct (gen_index RNG_FUEL (Z.of_nat (S (S i))) s) as [[j r]| |] eqn:Eg; try discriminate.
    assert (Hs' : ShuffleRel.bytes_ok s).
    { intros b Hb. unfold bytes_ok in Hs. rewrite Forall_forall in Hs. apply Hs, Hb. }
    assert (Hj : 0 <= j < Z.of_nat (S (S i))) by (eapply ShuffleRel.gen_index_range_gen; [lia|exact Hs'|exact Eg]).
    pose proof (ShuffleRel.gen_index_rest _ _ _ _ _ Hs' Eg) as Hr'.
    assert (Hr : bytes_ok r) by (unfold bytes_ok; rewrite Forall_forall; exact Hr').
    destruct (IH _ _ _ _ Hr H) as (js & Ljs & Hd & El & Hrest).
    exists (j :: js). split; [cbn [length]; lia|]. split; [|split; [cbn [fy]; exact El|exact Hrest]].
    intros k x Hk. destruct k as [|k].
    + cbn [nth_error] in Hk. injection Hk as <-. rewrite Nat.sub_0_r. lia.
    + cbn [nth_error] in Hk. apply (Hd k x Hk).
Qed.
Print Assumptions shuffle_from_is_fy_bounded.

Corollary gen_permutation_is_fy : forall n s l rest, bytes_ok s -> gen_permutation n s = Ok (l, rest) ->
  exists js, length js = pred n /\ draws_ok (pred n) js /\ l = fy (pred n) (iota n) js.
Proof.
  intros n s l rest Hs H. unfold gen_permutation in H. fold (iota n) in H.
  destruct (shuffle_from_is_fy_bounded _ _ _ _ _ Hs H) as (js & Ljs & Hd & El & _). eauto.
Qed.
Print Assumptions gen_permutation_is_fy.
