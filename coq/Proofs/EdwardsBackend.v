(* Proofs/EdwardsBackend.v — the prime-order subgroup of the curve25519 Edwards curve as a [Backend] with
   Leibniz equality: carrier = affine points over GF(2^255-19), operations = the affine group law of
   Base/Edwards.v, exponents = the scalar ring of the ristretto backend (Model/Ristretto.v). It satisfies the
   [Laws] record WITHOUT hypotheses, so every generic protocol theorem (ElGamal, sigma proofs, shuffle
   completeness, n-of-n and threshold decryption) applies to it; and [aff] is a homomorphism from the executable
   ristretto backend record RB (extended coordinates) onto it for every group operation (rb_ab_morphism), i.e.
   the algebra the model's ristretto code performs is the algebra these theorems are about. What the morphism
   does not cover is the byte serialisation (RFC 9496 ENCODE), which only feeds the Fiat-Shamir hash — and the
   completeness theorems hold for every hash function and every serialiser. *)
From Coq Require Import ZArith Znumtheory Zpow_facts Lia List Bool.
From Strand Require Import Base.ZUtil Base.Fermat Base.ZpField Base.Edwards Model.Outcome Model.Codec Model.Backend
  Model.Zkp Model.Ristretto Model.RistrettoFast Model.RBackend Proofs.PrimeCerts Proofs.Laws Proofs.RistrettoGroup.
Import ListNotations.
Open Scope Z_scope.

Section AB.
  Variable K : Kernel.
  Variable PM : PMul.

  Definition apt : Type := (Fp * Fp)%type.

  Definition apt_eqb (a b : apt) : bool :=
    if F_dec (fst a) (fst b) then (if F_dec (snd a) (snd b) then true else false) else false.

  (* a representative in extended coordinates, for serialisation only *)
  Definition rep (a : apt) : point :=
    {| px := zv fp (fst a); py := zv fp (snd a); pz := 1; pt := zv fp (fm (fst a) (snd a)) |}.

  Definition AB : Backend := {|
    E := apt;
    b_q := ell;
    b_gen := aff (pt_base K);
    b_one := eid;
    b_mul := eadd;
    b_modp := fun a => a;
    b_invp := fun a => Ok (eneg a);
    b_pow := fun a x => nmul (Z.to_nat x) a;
    b_eqb := apt_eqb;
    b_xadd := sc_add K;
    b_xmul := sc_mul K;
    b_xsub := fun a b => Ok (sc_sub K a b);
    b_xmodq := smod K;
    b_xinvq := fun a => Ok (sc_invert K a);
    b_sub_mod := fun a b => Ok (sc_sub K a b);
    b_from_u64 := fun v => smod K v;
    b_ser_e := fun a => compress K (rep a);
    b_ser_x := sc_to_bytes;
    b_hash_to_exp := r_hash_to_exp K
  |}.

  (* members: curve points of order dividing l *)
  Definition memA (a : apt) : Prop := onc a /\ nmul Ln a = eid.

  Lemma Ln_pos : (Ln <> 0)%nat.
  Proof. intro E. apply (f_equal Z.of_nat) in E. rewrite Z2Nat.id in E; discriminate. Qed.

  Lemma memA_id : memA eid.
  Proof. split; [exact E_onc_id | apply E_nmul_eid]. Qed.

  Lemma memA_add a b : memA a -> memA b -> memA (eadd a b).
  Proof.
    intros [Ca Ha] [Cb Hb]. split; [now apply E_onc|].
    rewrite E_nmul_eadd by assumption. rewrite Ha, Hb. apply E_id_l.
  Qed.

  Lemma memA_nmul n a : memA a -> memA (nmul n a).
  Proof.
    intros [Ca Ha]. split; [now apply E_nmul_onc|].
    rewrite <- (E_nmul_mul _ _ _ Ca), Nat.mul_comm, (E_nmul_mul _ _ _ Ca), Ha. apply E_nmul_eid.
  Qed.

  Lemma memA_neg a : memA a -> memA (eneg a).
  Proof.
    intros [Ca Ha]. split; [now apply E_onc_neg|].
    rewrite (E_nmul_eneg _ _ Ca), Ha. unfold Edwards.eneg, Edwards.eid. f_equal; ring.
  Qed.

  Lemma apt_eqb_spec a b : apt_eqb a b = true <-> a = b.
  Proof.
    unfold apt_eqb. destruct a as [a1 a2], b as [b1 b2]. cbn [fst snd].
    destruct (F_dec a1 b1) as [E1|N1]; [destruct (F_dec a2 b2) as [E2|N2]|]; split; intro H;
      try discriminate; try (subst; reflexivity); try (inversion H; contradiction).
  Qed.

  Lemma smod_spec a : smod K a = a mod ell.  Proof. unfold smod. apply k_mod_ok. Qed.

  Theorem AB_laws : Laws AB memA.
  Proof.
    constructor; cbn [E b_q b_gen b_one b_mul b_modp b_invp b_pow b_eqb b_xadd b_xmul b_xmodq b_hash_to_exp AB b_mulp].
    - reflexivity.
    - exact memA_id.
    - split; [apply (valid_base K) | apply base_order].
    - exact memA_add.
    - reflexivity.
    - reflexivity.
    - reflexivity.
    - intros a b _ _. apply E_comm.
    - intros a b c [Ca _] [Cb _] [Cc _]. now apply E_assoc.
    - intros a _. apply E_id_l.
    - intros a Ha. exists (eneg a). split; [reflexivity|]. split; [now apply memA_neg|]. apply E_neg_r, Ha.
    - intros a x Ha _. now apply memA_nmul.
    - reflexivity.
    - intros a _. apply E_id_r.
    - intros x _. apply E_nmul_eid.
    - intros a x y [Ca _] Hx Hy. rewrite Z2Nat.inj_add by assumption. now apply E_nmul_add.
    - intros a x y [Ca _] Hx Hy. rewrite Z2Nat.inj_mul by assumption. rewrite Nat.mul_comm. symmetry. now apply E_nmul_mul.
    - intros a b x [Ca _] [Cb _] _. now apply E_nmul_eadd.
    - intros a [_ Ha]. exact Ha.
    - intros a b _ _. apply apt_eqb_spec.
    - intros x y Hx Hy. unfold sc_add. rewrite smod_spec. split; [apply Z.mod_pos_bound; reflexivity|].
      apply Z.mod_mod. discriminate.
    - intros x y Hx Hy. unfold sc_mul. rewrite smod_spec, k_mul_ok. split; [apply Z.mod_pos_bound; reflexivity|].
      apply Z.mod_mod. discriminate.
    - intros x Hx. apply smod_spec.
    - intro bs. unfold r_hash_to_exp, sc_from_bytes_mod_order. rewrite smod_spec. apply Z.mod_pos_bound. reflexivity.
  Qed.

  (* ---- the exponent-side facts the threshold theorems ask for (l is prime: Proofs/PrimeCerts.v) ---- *)
  Lemma AB_from_u64_ok : forall v, 0 <= v -> 0 <= b_from_u64 AB v <= v /\ b_from_u64 AB v mod b_q AB = v mod b_q AB.
  Proof.
    intros v Hv. cbn [b_from_u64 b_q AB]. rewrite smod_spec. split.
    - split; [apply Z.mod_pos_bound; reflexivity | apply Z.mod_le; [exact Hv|reflexivity]].
    - apply Z.mod_mod. discriminate.
  Qed.

  Lemma AB_sub_mod_ok : forall v o, 0 <= v -> 0 <= o -> o <= v + b_q AB ->
    exists d, b_sub_mod AB v o = Ok d /\ 0 <= d /\ d mod b_q AB = (v - o) mod b_q AB.
  Proof.
    intros v o _ _ _. cbn [b_sub_mod b_q AB]. eexists. split; [reflexivity|]. unfold sc_sub. rewrite smod_spec.
    split; [apply Z.mod_pos_bound; reflexivity | apply Z.mod_mod; discriminate].
  Qed.

  Lemma AB_xinvq_ok : forall d, 0 <= d -> d mod b_q AB <> 0 ->
    exists i, b_xinvq AB d = Ok i /\ 0 <= i /\ (d * i) mod b_q AB = 1.
  Proof.
    intros d Hd Hnz. cbn [b_xinvq b_q AB] in *. eexists. split; [reflexivity|].
    unfold sc_invert. rewrite k_powm_ok, powm_spec by discriminate.
    split; [apply Z.mod_pos_bound; reflexivity|].
    rewrite Zmult_mod_idemp_r.
    replace (d * d ^ (ell - 2)) with (d ^ (ell - 1)).
    2:{ replace (ell - 1) with (Z.succ (ell - 2)) by ring. rewrite Z.pow_succ_r by discriminate. reflexivity. }
    apply fermat_Z; [exact ell_prime|]. intro Hdiv. apply Hnz. now apply Zdivide_mod.
  Qed.

  (* ---- RB -> AB: [aff] commutes with every group operation of the executable ristretto backend ---- *)
  Theorem rb_ab_morphism :
    aff (b_gen (RB K PM)) = b_gen AB /\ aff (b_one (RB K PM)) = b_one AB /\
    (forall P Q, valid P -> valid Q ->
       valid (b_mulp (RB K PM) P Q) /\ aff (b_mulp (RB K PM) P Q) = b_mulp AB (aff P) (aff Q)) /\
    (forall P, valid P -> exists P', b_invp (RB K PM) P = Ok P' /\ valid P' /\ b_invp AB (aff P) = Ok (aff P')) /\
    (forall P x, valid P -> valid (b_pow (RB K PM) P x) /\ aff (b_pow (RB K PM) P x) = b_pow AB (aff P) x) /\
    (forall P Q, valid P -> valid Q -> b_eqb AB (aff P) (aff Q) = true -> b_eqb (RB K PM) P Q = true) /\
    (forall x y, b_xadd (RB K PM) x y = b_xadd AB x y /\ b_xmul (RB K PM) x y = b_xmul AB x y) /\
    (forall bs, b_hash_to_exp (RB K PM) bs = b_hash_to_exp AB bs).
  Proof.
    split; [reflexivity|]. split; [exact (proj2 valid_id)|].
    split; [intros P Q VP VQ; exact (pt_add_correct K P Q VP VQ)|].
    split.
    { intros P VP. exists (pt_neg K P). split; [reflexivity|]. destruct (pt_neg_correct K P VP) as [V A].
      split; [exact V|]. cbn [b_invp AB]. now rewrite A. }
    split; [intros P x VP; exact (rb_pow_correct K PM P x VP)|].
    split.
    { intros P Q VP VQ H. apply apt_eqb_spec in H. now apply pt_eqb_of_aff. }
    split; [intros; split; reflexivity | reflexivity].
  Qed.

  (* a valid point of order dividing l maps to a member *)
  Lemma aff_member P : valid P -> nmul Ln (aff P) = eid -> memA (aff P).
  Proof. intros V H. split; [apply V | exact H]. Qed.
End AB.
