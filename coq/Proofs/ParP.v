(* Proofs/ParP.v — every schedule computes what the sequential iterator computes. *)
From Coq Require Import List Lia.
From Strand Require Import Model.Outcome Model.Par.
Import ListNotations.

Theorem par_map_any_schedule : forall {A B} (f : A -> B) (s : sched) (l : list A), par_map f s l = map f l.
Proof.
  intros A B f s. induction s as [|k a IHa b IHb]; intro l; cbn [par_map]; [reflexivity|].
  rewrite IHa, IHb, <- map_app, firstn_skipn. reflexivity.
Qed.

Theorem par_mapi_any_schedule : forall {A B} (f : nat -> A -> B) (s : sched) (l : list A),
  par_mapi f s l = map (fun ia => f (fst ia) (snd ia)) (combine (seq 0 (length l)) l).
Proof. intros. unfold par_mapi. apply par_map_any_schedule. Qed.

Lemma mapM_app {A B} (f : A -> outcome B) (l1 l2 : list A) :
  mapM f (l1 ++ l2) =
  match mapM f l1 with
  | Ok a => match mapM f l2 with Ok b => Ok (a ++ b) | Err => Err | Panic => Panic end
  | Err => Err
  | Panic => Panic
  end.
Proof.
  induction l1 as [|x l1 IH]; cbn [mapM app].
  - destruct (mapM f l2); reflexivity.
  - destruct (f x); [|reflexivity|reflexivity]. rewrite IH.
    destruct (mapM f l1); [|reflexivity|reflexivity]. destruct (mapM f l2); reflexivity.
Qed.

(* success and the successful value are schedule independent *)
Theorem par_mapM_ok_iff : forall {A B} (f : A -> outcome B) (s : sched) (l : list A) (ys : list B),
  par_mapM f s l = Ok ys <-> mapM f l = Ok ys.
Proof.
  intros A B f s. induction s as [|k a IHa b IHb]; intros l ys; cbn [par_mapM]; [tauto|].
  rewrite <- (firstn_skipn k l) at 3. rewrite mapM_app.
  specialize (IHa (firstn k l)). specialize (IHb (skipn k l)).
  destruct (par_mapM f a (firstn k l)) as [ya| |] eqn:Ea, (par_mapM f b (skipn k l)) as [yb| |] eqn:Eb;
    destruct (mapM f (firstn k l)) as [za| |] eqn:Fa, (mapM f (skipn k l)) as [zb| |] eqn:Fb; cbn [join_res];
    try (pose proof (proj1 (IHa ya) eq_refl) as Ha; try discriminate Ha);
    try (pose proof (proj1 (IHb yb) eq_refl) as Hb; try discriminate Hb);
    try (pose proof (proj2 (IHa za) eq_refl) as Ha'; try discriminate Ha');
    try (pose proof (proj2 (IHb zb) eq_refl) as Hb'; try discriminate Hb');
    try (split; intro H; discriminate H).
  injection Ha as <-. injection Hb as <-. tauto.
Qed.

(* a failure in the sequential run is a failure under every schedule (possibly a different one of the failures) *)
Corollary par_mapM_fails_iff : forall {A B} (f : A -> outcome B) (s : sched) (l : list A),
  is_ok (par_mapM f s l) = is_ok (mapM f l).
Proof.
  intros. destruct (par_mapM f s l) as [y| |] eqn:E.
  - apply par_mapM_ok_iff in E. now rewrite E.
  - destruct (mapM f l) as [z| |] eqn:F; [|reflexivity|reflexivity].
    apply (par_mapM_ok_iff f s) in F. congruence.
  - destruct (mapM f l) as [z| |] eqn:F; [|reflexivity|reflexivity].
    apply (par_mapM_ok_iff f s) in F. congruence.
Qed.

(* if no item can panic, then no schedule panics *)
Theorem par_mapM_no_panic : forall {A B} (f : A -> outcome B) (s : sched) (l : list A),
  (forall a, f a <> Panic) -> par_mapM f s l <> Panic.
Proof.
  intros A B f s. induction s as [|k a IHa b IHb]; intros l Hf; cbn [par_mapM].
  - induction l as [|x l IH]; cbn [mapM]; [discriminate|].
    destruct (f x) eqn:E; [|discriminate|exfalso; eapply Hf; eassumption].
    destruct (mapM f l); [discriminate|discriminate|contradiction].
  - specialize (IHa (firstn k l) Hf). specialize (IHb (skipn k l) Hf).
    destruct (par_mapM f a (firstn k l)), (par_mapM f b (skipn k l)); cbn [join_res]; congruence.
Qed.
