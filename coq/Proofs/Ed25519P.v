(* Proofs/Ed25519P.v — decision facts about the executable Ed25519 model (Model/Ed25519.v) that need no group law:
   both verification procedures (ed25519-zebra / ZIP-215 and ed25519-dalek) refuse every signature whose S half is not
   the canonical 32-byte encoding of an integer below the group order — in particular the classic malleation
   S -> S + l of a valid signature — and neither ever panics; a signature has exactly 64 bytes. *)
From Coq Require Import ZArith List Bool Lia.
From Strand Require Import Base.ZUtil Model.Outcome Model.Codec Model.Sha512 Model.Zkp Model.Ristretto Model.RistrettoFast
  Model.Ed25519 Proofs.CodecP.
Import ListNotations.
Open Scope Z_scope.

Section EdP.
  Variable K : Kernel.
  Variable PM : PMul.

  Lemma canonical_none_iff b : sc_from_canonical_bytes b = None <-> (length b <> 32%nat \/ ell <= le_int b).
  Proof.
    unfold sc_from_canonical_bytes. destruct (Nat.eqb_spec (length b) 32) as [E|E]; cbn [negb].
    - destruct (Z.ltb_spec (le_int b) ell) as [Hlt|Hge]; split; intro H0; try discriminate; try reflexivity.
      + destruct H0 as [H0|H0]; [congruence|lia].
      + right. lia.
    - split; intro; [left; exact E|reflexivity].
  Qed.

  Theorem noncanonical_S_rejected pk sig msg : sc_from_canonical_bytes (skipn 32 sig) = None ->
    ed_verify_zebra K PM pk sig msg <> Ok true /\ ed_verify_dalek K PM pk sig msg <> Ok true.
  Proof.
    intro H. unfold ed_verify_zebra, ed_verify_dalek. destruct (ed_decompress K pk) as [A|]; [|split; discriminate].
    rewrite H. split; [|discriminate]. destruct (ed_decompress K (firstn 32 sig)); discriminate.
  Qed.

  (* the malleated signature R || (S + l) *)
  Theorem malleated_signature_rejected pk Rb S msg : length Rb = 32%nat -> 0 <= S -> S + ell < 2 ^ 256 ->
    let sig' := Rb ++ le_fixed 32 (S + ell) in
    ed_verify_zebra K PM pk sig' msg <> Ok true /\ ed_verify_dalek K PM pk sig' msg <> Ok true.
  Proof.
    intros LR HS Hb sig'. apply noncanonical_S_rejected. subst sig'.
    assert (E : skipn 32 (Rb ++ le_fixed 32 (S + ell)) = le_fixed 32 (S + ell)).
    { rewrite <- LR. rewrite skipn_app, skipn_all, Nat.sub_diag. reflexivity. }
    rewrite E. apply canonical_none_iff. right. rewrite le_fixed_int; [lia|].
    assert (256 ^ Z.of_nat 32 = 2 ^ 256) by (vm_compute; reflexivity). pose proof (Z.lt_le_incl 0 ell ltac:(vm_compute; reflexivity)). lia.
  Qed.

  Theorem wrong_length_S_rejected pk sig msg : length sig <> 64%nat -> (32 <= length sig)%nat ->
    ed_verify_zebra K PM pk sig msg <> Ok true /\ ed_verify_dalek K PM pk sig msg <> Ok true.
  Proof.
    intros H1 H2. apply noncanonical_S_rejected. apply canonical_none_iff. left. rewrite skipn_length. lia.
  Qed.

  Theorem verify_never_panics pk sig msg : ed_verify_zebra K PM pk sig msg <> Panic /\ ed_verify_dalek K PM pk sig msg <> Panic.
  Proof.
    unfold ed_verify_zebra, ed_verify_dalek. destruct (ed_decompress K pk); [|split; discriminate].
    destruct (sc_from_canonical_bytes (skipn 32 sig)); [|split; discriminate].
    split; [|discriminate]. destruct (ed_decompress K (firstn 32 sig)); discriminate.
  Qed.

  Theorem signature_has_64_bytes seed msg : length (ed_sign K PM seed msg) = 64%nat.
  Proof.
    unfold ed_sign. destruct (ed_expand seed) as [a prefix]. rewrite app_length.
    unfold ed_compress, sc_to_bytes. rewrite !le_fixed_len. reflexivity.
  Qed.
End EdP.
Print Assumptions malleated_signature_rejected.
Print Assumptions verify_never_panics.
Print Assumptions signature_has_64_bytes.
