(* Proofs/WireP.v — the wire formats of Model/Wire.v are canonical codecs.
   For every wire type T in {E, X, P, ct, pk, sk, schnorr, cp, vecE, vecX, vecC, vecP, vecCP, proof}:
     (R) rt_T          : RT vT wr_T rd_T, i.e. vT v -> rd_T (wr_T v ++ rest) = Ok (v, rest)
         de_ser_T      : vT v -> de_T (wr_T v) = Ok v
         de_trailing_T : vT v -> rest <> [] -> de_T (wr_T v ++ rest) = Err
         ser_inj_T     : vT v1 -> vT v2 -> wr_T v1 = wr_T v2 -> v1 = v2
     (V) val_T         : VAL wT rd_T, i.e. bytes_ok bs -> rd_T bs = Ok (v, rest) -> wT v /\ bytes_ok rest
         de_val_T      : bytes_ok bs -> de_T bs = Ok v -> wT v
                         (only members / canonical exponents decode.  [bytes_ok bs] is needed only because
                         the model's bytes are arbitrary Z and [le_int] of negative "bytes" can be
                         negative: it is used for "0 <= exponent" and for the plaintext bound.  The
                         element-only facts val_E_any, val_ct_any, val_pk_any, val_vecE_any, val_vecC_any,
                         de_val_{E,ct,pk}_any and the bound val_X_any hold for arbitrary Z lists.)
     (N) np_T, de_np_T : no input makes a reader or strict decoder panic (unconditional)
     (T) pf_T          : PF vT wr_T rd_T, every strict prefix of an honest encoding makes rd_T fail;
         de_trunc_T    : vT v -> (exists x, x <> [] /\ b ++ x = wr_T v) -> de_T b = Err.
   For the five StrandVector instances Model/Wire.v has no de_*; there de_T means [strict rd_T].
   sk is stated on pairs (value, pk_element) with writer [wr_skp].

   Size hypotheses.  The section is parametric in a byte budget N with 1 <= N <= 4294967295 and
   p < 2^(8*N); the instance N = 4294967295 is the bound "p < 2^(8*4294967295)" (see the end of the
   file).  The literal power is deliberately kept out of every proof context: lia, auto and
   assumption try to evaluate it (a 4 GiB number).  Each theorem depends only on the hypotheses it
   needs ([Proof using] + clear): (V) needs only 1 < p, (N) nothing, (R)/(T) the size bounds.
   Vector validity [vvec v wr l] = u32 count /\ every item valid and its encoding shorter than 2^32
   (the inner Vec<u8> prefix); v_vec*_intro derive the per-item bound from N when 4*(4+N) < 2^32. *)
From Coq Require Import ZArith List Bool Lia.
From Strand Require Import Base.ZUtil Model.Outcome Model.Codec Model.Backend Model.ZBackend Model.Zkp
  Model.Wire Proofs.ZLaws Proofs.CodecP.
Import ListNotations.
Open Scope Z_scope.


(* invert a chain of binds ending in [Ok] *)
Ltac binv H :=
  repeat match type of H with
  | bind ?o _ = Ok _ =>
      let E := fresh "E" in
      first [ destruct o as [[? ?]| |] eqn:E | destruct o as [?| |] eqn:E ];
      cbn [bind] in H; try discriminate H
  end.

Section W.
  Set Default Proof Using "Type".
  Variable K : Kernel.
  Variable fl : flavor.
  Variable P : Params.
  (* byte budget: p fits in N bytes, N <= u32::MAX (the task's bound is the instance N = 4294967295) *)
  Variable N : Z.
  Hypothesis N_ok : 1 <= N <= 4294967295.
  Hypothesis p_gt1 : 1 < p_p P.
  Hypothesis p_small : p_p P < 2 ^ (8 * N).
  Hypothesis q_le : 0 < p_q P <= p_p P.
  Notation p := (p_p P).
  Notation q := (p_q P).
  Notation B := (ZB K fl P).

  (* ---------------------------------------------------------------------------------------- *)
  (* integers <-> bytes per flavor                                                            *)
  (* ---------------------------------------------------------------------------------------- *)
  Lemma int_bytes x : 0 <= x -> int_of_bytes fl (bytes_of_int fl x) = x.
  Proof. try clear q_le. try clear p_small. try clear N_ok. try clear N. try clear p_gt1.
    intro Hx. unfold int_of_bytes, bytes_of_int. destruct fl.
    - apply le_bytes_min_int, Hx.
    - apply be_digits_int, Hx.
  Qed.

  Lemma bytes_of_int_ok x : bytes_ok (bytes_of_int fl x).
  Proof. try clear q_le. try clear p_small. try clear N_ok. try clear N. try clear p_gt1. unfold bytes_of_int. destruct fl; [apply le_bytes_min_ok|apply be_digits_ok]. Qed.

  Lemma bytes_of_int_len x : x < 2 ^ (8 * N) -> Z.of_nat (length (bytes_of_int fl x)) <= N.
  Proof using N_ok. try clear q_le. try clear p_small. try clear p_gt1.
    intro Hx. pose proof N_ok as HL. rewrite pow256 in Hx by lia.
    unfold bytes_of_int. destruct fl.
    - apply (le_bytes_min_len N x ltac:(lia) Hx).
    - apply (be_digits_len N x ltac:(lia) Hx).
  Qed.

  Lemma bytes_of_int_u32 x : x < 2 ^ (8 * N) -> Z.of_nat (length (bytes_of_int fl x)) < 2 ^ 32.
  Proof using N_ok. try clear q_le. try clear p_small. try clear p_gt1. intro Hx. pose proof N_ok. pose proof (bytes_of_int_len x Hx). lia. Qed.

  Lemma int_of_bytes_bound bs : bytes_ok bs -> 0 <= int_of_bytes fl bs < 256 ^ Z.of_nat (length bs).
  Proof. try clear q_le. try clear p_small. try clear N_ok. try clear N. try clear p_gt1. intro H. unfold int_of_bytes. destruct fl; [apply le_int_bound|apply be_int_bound]; exact H. Qed.

  (* ---------------------------------------------------------------------------------------- *)
  (* exact characterisation of the primitive decoders                                         *)
  (* ---------------------------------------------------------------------------------------- *)
  Lemma legendre_1 a : legendre K P a = 1 <-> a ^ q mod p = 1.
  Proof using p_gt1. try clear q_le. try clear p_small. try clear N_ok. try clear N.
    unfold legendre. rewrite k_powm_ok, powm_spec by lia.
    destruct (Z.eqb_spec (a ^ q mod p) 0) as [E0|E0]; [lia|].
    destruct (Z.eqb_spec (a ^ q mod p) 1) as [E1|E1]; lia.
  Qed.

  Theorem element_from_int_spec i v :
    element_from_int K P i = Ok v <-> v = i /\ 1 <= v < p /\ v ^ q mod p = 1.
  Proof using p_gt1. try clear q_le. try clear p_small. try clear N_ok. try clear N.
    unfold element_from_int. rewrite Z.geb_leb.
    destruct (Z.ltb_spec i 1) as [H1|H1]; cbn [orb].
    { split; [discriminate|]. intros (-> & ? & _). lia. }
    destruct (Z.leb_spec p i) as [H2|H2].
    { split; [discriminate|]. intros (-> & ? & _). lia. }
    pose proof (legendre_1 i) as HL.
    destruct (Z.eqb_spec (legendre K P i) 1) as [E|E]; cbn [negb].
    - split; [intro H; injection H as <-|intros (-> & _); reflexivity].
      split; [reflexivity|]. split; [lia|]. apply HL, E.
    - split; [discriminate|]. intros (-> & _ & Hm). apply HL in Hm. contradiction.
  Qed.

  Theorem element_from_bytes_spec bs v :
    element_from_bytes K fl P bs = Ok v <->
    v = int_of_bytes fl bs /\ 1 <= v < p /\ v ^ q mod p = 1.
  Proof using p_gt1. try clear q_le. try clear p_small. try clear N_ok. try clear N. unfold element_from_bytes. apply element_from_int_spec. Qed.

  Theorem exp_from_bytes_spec bs v :
    exp_from_bytes fl P bs = Ok v <-> v = int_of_bytes fl bs /\ v < q.
  Proof. try clear q_le. try clear p_small. try clear N_ok. try clear N. try clear p_gt1.
    unfold exp_from_bytes. rewrite Z.geb_leb.
    destruct (Z.leb_spec q (int_of_bytes fl bs)) as [H|H].
    - split; [discriminate|]. intros [-> ?]. lia.
    - split; [intro E; injection E as <-; split; [reflexivity|exact H]|intros [-> _]; reflexivity].
  Qed.

  Lemma element_from_bytes_np bs : element_from_bytes K fl P bs <> Panic.
  Proof. try clear q_le. try clear p_small. try clear N_ok. try clear N. try clear p_gt1.
    unfold element_from_bytes, element_from_int. destruct (_ || _); [discriminate|].
    destruct (negb _); discriminate.
  Qed.

  Lemma exp_from_bytes_np bs : exp_from_bytes fl P bs <> Panic.
  Proof. try clear q_le. try clear p_small. try clear N_ok. try clear N. try clear p_gt1. unfold exp_from_bytes. destruct (_ >=? _); discriminate. Qed.

  (* ---------------------------------------------------------------------------------------- *)
  (* validity predicates                                                                      *)
  (* ---------------------------------------------------------------------------------------- *)
  Definition vE (a : Z) : Prop := member P a.
  Definition vX (x : Z) : Prop := 0 <= x < q.
  Definition vP (m : Z) : Prop := 0 <= m < 2 ^ (8 * N).

  Lemma vE_lt a : vE a -> 0 <= a < 2 ^ (8 * N).
  Proof using p_small. try clear q_le. try clear N_ok. try clear p_gt1. intros [H _]. lia. Qed.
  Lemma vX_lt x : vX x -> 0 <= x < 2 ^ (8 * N).
  Proof using p_small q_le. try clear N_ok. try clear p_gt1. unfold vX. lia. Qed.

  (* ======================================================================================== *)
  (* E                                                                                        *)
  (* ======================================================================================== *)
  Theorem rt_E : RT vE (wr_E fl) (rd_E K fl P).
  Proof using N_ok p_gt1 p_small. try clear q_le.
    intros a rest Ha. pose proof (vE_lt a Ha) as Hl.
    unfold rd_E, wr_E, z_ser_int. rewrite rd_vec_u8_app by (apply bytes_of_int_u32; lia).
    cbn [bind].
    assert (E : element_from_bytes K fl P (bytes_of_int fl a) = Ok a).
    { apply element_from_bytes_spec. rewrite int_bytes by lia. destruct Ha as [? ?]. auto. }
    rewrite E. reflexivity.
  Qed.

  Theorem val_E_any bs a rest : rd_E K fl P bs = Ok (a, rest) -> member P a.
  Proof using p_gt1. try clear q_le. try clear p_small. try clear N_ok. try clear N.
    unfold rd_E. intro H. binv H. injection H as <- <-.
    apply element_from_bytes_spec in E0 as (_ & ? & ?). split; assumption.
  Qed.

  Lemma rd_vec_u8_ok bs b r : bytes_ok bs -> rd_vec_u8 bs = Ok (b, r) ->
    bytes_ok b /\ bytes_ok r /\ Z.of_nat (length b) < 2 ^ 32.
  Proof. try clear q_le. try clear p_small. try clear N_ok. try clear N. try clear p_gt1.
    intros Hok E. apply rd_vec_u8_inv in E as (a & -> & La & Lb).
    apply bytes_ok_app in Hok as [Ha Hok]. apply bytes_ok_app in Hok as [Hb Hr].
    split; [exact Hb|]. split; [exact Hr|].
    pose proof (le_int_bound a Ha) as Hi. rewrite La in Hi. change (256 ^ Z.of_nat 4) with 4294967296 in Hi.
    lia.
  Qed.

  Definition VAL {A} (v : A -> Prop) (rd : reader A) : Prop :=
    forall bs a r, bytes_ok bs -> rd bs = Ok (a, r) -> v a /\ bytes_ok r.

  Theorem val_E : VAL vE (rd_E K fl P).
  Proof using p_gt1. try clear q_le. try clear p_small. try clear N_ok. try clear N.
    intros bs a r Hok H. split; [eapply val_E_any; eauto|].
    unfold rd_E in H. binv H. injection H as <- <-. eapply rd_vec_u8_ok; eauto.
  Qed.

  Theorem np_E : np_reader (rd_E K fl P).
  Proof. try clear q_le. try clear p_small. try clear N_ok. try clear N. try clear p_gt1.
    intro bs. unfold rd_E. apply bind_np; [apply rd_vec_u8_np|]. intros [b r].
    apply bind_np; [apply element_from_bytes_np|]. discriminate.
  Qed.

  Lemma wr_int_pf a b x : a < 2 ^ (8 * N) -> x <> [] -> b ++ x = z_ser_int fl a ->
    rd_vec_u8 b = Err.
  Proof using N_ok. try clear q_le. try clear p_small. try clear p_gt1. intros Ha Hx E. eapply rd_vec_u8_pf; eauto. apply bytes_of_int_u32, Ha. Qed.

  Theorem pf_E : PF vE (wr_E fl) (rd_E K fl P).
  Proof using N_ok p_small. try clear q_le. try clear p_gt1.
    intros a b x Ha Hx E. unfold rd_E. apply bind_err. apply vE_lt in Ha.
    apply (wr_int_pf a b x); [lia|exact Hx|exact E].
  Qed.

  (* ======================================================================================== *)
  (* X                                                                                        *)
  (* ======================================================================================== *)
  Theorem rt_X : RT vX (wr_X fl) (rd_X fl P).
  Proof using N_ok p_small q_le. try clear p_gt1.
    intros a rest Ha. pose proof (vX_lt a Ha) as Hl.
    unfold rd_X, wr_X, z_ser_int. rewrite rd_vec_u8_app by (apply bytes_of_int_u32; lia).
    cbn [bind].
    assert (E : exp_from_bytes fl P (bytes_of_int fl a) = Ok a).
    { apply exp_from_bytes_spec. rewrite int_bytes by lia. unfold vX in Ha. split; [reflexivity|lia]. }
    rewrite E. reflexivity.
  Qed.

  Theorem val_X : VAL vX (rd_X fl P).
  Proof. try clear q_le. try clear p_small. try clear N_ok. try clear N. try clear p_gt1.
    intros bs a r Hok H. unfold rd_X in H. binv H. injection H as <- <-.
    destruct (rd_vec_u8_ok _ _ _ Hok E) as (Hb & Hr & _). split; [|exact Hr].
    apply exp_from_bytes_spec in E0 as [-> Hq]. pose proof (int_of_bytes_bound _ Hb). unfold vX. lia.
  Qed.

  (* without [bytes_ok] only the upper bound survives *)
  Theorem val_X_any bs a rest : rd_X fl P bs = Ok (a, rest) -> a < q.
  Proof. try clear q_le. try clear p_small. try clear N_ok. try clear N. try clear p_gt1.
    unfold rd_X. intro H. binv H. injection H as <- <-. apply exp_from_bytes_spec in E0 as [_ ?]. assumption.
  Qed.

  Theorem np_X : np_reader (rd_X fl P).
  Proof. try clear q_le. try clear p_small. try clear N_ok. try clear N. try clear p_gt1.
    intro bs. unfold rd_X. apply bind_np; [apply rd_vec_u8_np|]. intros [b r].
    apply bind_np; [apply exp_from_bytes_np|]. discriminate.
  Qed.

  Theorem pf_X : PF vX (wr_X fl) (rd_X fl P).
  Proof using N_ok p_small q_le. try clear p_gt1.
    intros a b x Ha Hx E. unfold rd_X. apply bind_err. apply vX_lt in Ha.
    apply (wr_int_pf a b x); [lia|exact Hx|exact E].
  Qed.

  (* ======================================================================================== *)
  (* P (plaintext)                                                                            *)
  (* ======================================================================================== *)
  Lemma wr_P_malachite m : wr_P Malachite m = wr_vec u16le (be_digits m).
  Proof. try clear q_le. try clear p_small. try clear N_ok. try clear N. try clear p_gt1. reflexivity. Qed.

  Lemma digit_u16 d r : 0 <= d < 256 -> rd_u16 (u16le d ++ r) = Ok (d, r).
  Proof. try clear q_le. try clear p_small. try clear N_ok. try clear N. try clear p_gt1. intro H. apply rd_u16_app. lia. Qed.

  Theorem rt_P : RT vP (wr_P fl) (rd_P fl).
  Proof using N_ok. try clear q_le. try clear p_small. try clear p_gt1.
    intros m rest [Hm0 Hm]. pose proof N_ok as HL. unfold rd_P. destruct fl.
    - unfold wr_P. rewrite rd_vec_u8_app.
      + cbn [bind]. rewrite le_bytes_min_int by lia. reflexivity.
      + rewrite pow256 in Hm by lia. pose proof (le_bytes_min_len N m ltac:(lia) Hm). lia.
    - rewrite wr_P_malachite.
      pose proof (be_digits_ok m) as Hok. unfold bytes_ok in Hok. rewrite Forall_forall in Hok.
      rewrite (rd_vec_app 2 rd_u16 u16le (fun d => d)).
      + cbn [bind]. rewrite map_id.
        assert (Hf : forallb (fun d => d <? 256) (be_digits m) = true).
        { apply forallb_forall. intros d Hd. apply Z.ltb_lt. apply Hok in Hd. lia. }
        rewrite Hf, be_digits_int by lia. reflexivity.
      + rewrite pow256 in Hm by lia. pose proof (be_digits_len N m ltac:(lia) Hm). lia.
      + intros a _. rewrite u16le_len. lia.
      + intros a r Ha. apply digit_u16, Hok, Ha.
  Qed.

  (* what a decoded plaintext satisfies: non-negative, at most u32::MAX base-256 digits.  (The bound
     is kept existential so that no proof ever meets the literal 2^(8*4294967295).) *)
  Definition wP (m : Z) : Prop := exists n, 0 <= n <= 4294967295 /\ 0 <= m < 2 ^ (8 * n).

  Lemma wP_intro n m : Z.of_nat n < 2 ^ 32 -> 0 <= m < 256 ^ Z.of_nat n -> wP m.
  Proof. try clear q_le. try clear p_small. try clear N_ok. try clear N. try clear p_gt1. intros Hn Hm. exists (Z.of_nat n). rewrite pow256 by lia. split; lia. Qed.

  Lemma wP_vP m : N = 4294967295 -> wP m -> vP m.
  Proof. try clear q_le. try clear p_small. try clear N_ok. try clear N. try clear p_gt1.
    intros HN (n & Hn & Hm). unfold vP. split; [lia|].
    eapply Z.lt_le_trans; [apply Hm|]. apply Z.pow_le_mono_r; lia.
  Qed.

  Lemma vP_wP m : vP m -> wP m.
  Proof using N_ok. try clear q_le. try clear p_small. try clear p_gt1. intro H. exists N. pose proof N_ok. unfold vP in H. split; lia. Qed.

  Theorem val_P : VAL wP (rd_P fl).
  Proof. try clear q_le. try clear p_small. try clear N_ok. try clear N. try clear p_gt1.
    intros bs m r Hok H. unfold rd_P in H. destruct fl.
    - binv H. injection H as <- <-. destruct (rd_vec_u8_ok _ _ _ Hok E) as (Hb & Hr & Hl).
      split; [|exact Hr]. eapply wP_intro; [exact Hl|]. apply le_int_bound, Hb.
    - binv H. destruct (forallb _ l) eqn:Hf; [|discriminate]. injection H as <- <-.
      destruct (rd_vec_inv 2 rd_u16 bytes_ok (fun d => 0 <= d)) with (4 := E) as (Hl & Hr & a & La & (t & ->) & Ln).
      + intros x y Hxy. apply bytes_ok_app in Hxy. tauto.
      + intros bs' d r' Hok' Ed. apply rd_u16_inv in Ed as (a & -> & _ & ->).
        apply bytes_ok_app in Hok' as [Ha Hr']. split; [|exact Hr']. apply le_int_bound in Ha. lia.
      + exact Hok.
      + split; [|exact Hr].
        assert (Hds : bytes_ok l).
        { unfold bytes_ok. rewrite Forall_forall in *. rewrite forallb_forall in Hf.
          intros d Hd. specialize (Hl d Hd). specialize (Hf d Hd). apply Z.ltb_lt in Hf. lia. }
        apply bytes_ok_app in Hok as [Ha _]. pose proof (le_int_bound a Ha) as Hi. rewrite La in Hi.
        change (256 ^ Z.of_nat 4) with 4294967296 in Hi.
        eapply wP_intro; [|apply be_int_bound, Hds]. lia.
  Qed.

  Theorem np_P : np_reader (rd_P fl).
  Proof. try clear q_le. try clear p_small. try clear N_ok. try clear N. try clear p_gt1.
    intro bs. unfold rd_P. destruct fl.
    - apply bind_np; [apply rd_vec_u8_np|]. intros [b r]. discriminate.
    - apply bind_np; [apply rd_vec_np; exact rd_u16_np|]. intros [b r].
      destruct (forallb _ _); discriminate.
  Qed.

  Theorem pf_P : PF vP (wr_P fl) (rd_P fl).
  Proof using N_ok. try clear q_le. try clear p_small. try clear p_gt1.
    intros m b x [Hm0 Hm] Hx E. pose proof N_ok as HL. unfold rd_P. destruct fl.
    - apply bind_err. unfold wr_P in E. eapply rd_vec_u8_pf; eauto.
      rewrite pow256 in Hm by lia. pose proof (le_bytes_min_len N m ltac:(lia) Hm). lia.
    - apply bind_err. rewrite wr_P_malachite in E.
      pose proof (be_digits_ok m) as Hok. unfold bytes_ok in Hok. rewrite Forall_forall in Hok.
      eapply (rd_vec_pf 2 rd_u16 u16le (fun d => d)); eauto.
      + rewrite pow256 in Hm by lia. pose proof (be_digits_len N m ltac:(lia) Hm). lia.
      + intros a r Ha. apply digit_u16, Hok, Ha.
      + intros a b' x' Ha Hx' E'. apply rd_u16_short.
        assert (L : length (b' ++ x') = 2%nat) by (rewrite E'; apply u16le_len).
        rewrite app_length in L. destruct x'; [congruence|cbn [length] in L; lia].
  Qed.

  (* ======================================================================================== *)
  (* generic StrandVector codec                                                               *)
  (* ======================================================================================== *)
  (* honest vectors: u32 count, every item valid and short enough for its own u32 length prefix *)
  Definition vvec {A} (v : A -> Prop) (wr : A -> bytes) (l : list A) : Prop :=
    Z.of_nat (length l) < 2 ^ 32 /\ Forall (fun a => v a /\ Z.of_nat (length (wr a)) < 2 ^ 32) l.

  Lemma vvec_intro {A} (v : A -> Prop) (wr : A -> bytes) bound l :
    (forall a, v a -> Z.of_nat (length (wr a)) <= bound) -> bound < 2 ^ 32 ->
    Z.of_nat (length l) < 2 ^ 32 -> Forall v l -> vvec v wr l.
  Proof. try clear q_le. try clear p_small. try clear N_ok. try clear N. try clear p_gt1.
    intros Hb Hbd Hl Hf. split; [exact Hl|]. rewrite Forall_forall in *. intros a Ha.
    split; [apply Hf, Ha|]. specialize (Hb a (Hf a Ha)). lia.
  Qed.

  Lemma vvec_forall {A} (v : A -> Prop) wr l : vvec v wr l -> Forall v l.
  Proof. try clear q_le. try clear p_small. try clear N_ok. try clear N. try clear p_gt1. intros [_ H]. rewrite Forall_forall in *. intros a Ha. apply H, Ha. Qed.

  Lemma rt_svec {A} (v : A -> Prop) wr rd : RT v wr rd -> RT (vvec v wr) (wr_svec wr) (rd_svec rd).
  Proof. try clear q_le. try clear p_small. try clear N_ok. try clear N. try clear p_gt1.
    intros H l rest [Hl Hf]. unfold rd_svec, wr_svec. rewrite Forall_forall in Hf.
    rewrite (rd_vec_app 4 rd_vec_u8 (fun a => wr_vec_u8 (wr a)) wr).
    - cbn [bind]. rewrite (mapM_ok (strict rd) wr); [reflexivity|].
      intros b Hb. apply (rt_de _ _ _ H), Hf, Hb.
    - exact Hl.
    - intros a _. rewrite wr_vec_u8_len. lia.
    - intros a r Ha. apply rd_vec_u8_app. apply Hf, Ha.
  Qed.

  Lemma val_svec {A} (v : A -> Prop) rd : VAL v rd -> VAL (Forall v) (rd_svec rd).
  Proof. try clear q_le. try clear p_small. try clear N_ok. try clear N. try clear p_gt1.
    intros H bs l r Hok E. unfold rd_svec in E. binv E. injection E as <- <-.
    destruct (rd_vec_inv 4 rd_vec_u8 bytes_ok bytes_ok) with (4 := E0) as (Hitems & Hr & _).
    - intros x y Hxy. apply bytes_ok_app in Hxy. tauto.
    - intros bs' it r' Hok' Eb. destruct (rd_vec_u8_ok _ _ _ Hok' Eb) as (? & ? & _). split; assumption.
    - exact Hok.
    - split; [|exact Hr]. eapply (mapM_inv (strict rd) bytes_ok v); [|exact Hitems|exact E1].
      intros it y Hit Es. apply strict_inv in Es. exact (proj1 (H _ _ _ Hit Es)).
  Qed.

  Lemma val_svec_any {A} (v : A -> Prop) (rd : reader A) :
    (forall bs a r, rd bs = Ok (a, r) -> v a) ->
    forall bs l r, rd_svec rd bs = Ok (l, r) -> Forall v l.
  Proof. try clear q_le. try clear p_small. try clear N_ok. try clear N. try clear p_gt1.
    intros H bs l r E. unfold rd_svec in E. binv E. injection E as <- <-.
    destruct (rd_vec_inv 4 rd_vec_u8 (fun _ => True) (fun _ => True)) with (4 := E0) as (Hitems & _ & _);
      [auto|auto|exact I|].
    eapply (mapM_inv (strict rd) (fun _ => True) v); [|exact Hitems|exact E1].
    intros it y _ Es. apply strict_inv in Es. exact (H _ _ _ Es).
  Qed.

  Lemma np_svec {A} (rd : reader A) : np_reader rd -> np_reader (rd_svec rd).
  Proof. try clear q_le. try clear p_small. try clear N_ok. try clear N. try clear p_gt1.
    intros H bs. unfold rd_svec. apply bind_np; [apply rd_vec_np; exact rd_vec_u8_np|].
    intros [items r]. apply bind_np; [apply mapM_np, strict_np, H|]. discriminate.
  Qed.

  Lemma pf_svec {A} (v : A -> Prop) wr (rd : reader A) : PF (vvec v wr) (wr_svec wr) (rd_svec rd).
  Proof. try clear q_le. try clear p_small. try clear N_ok. try clear N. try clear p_gt1.
    intros l b x [Hl Hf] Hx E. unfold rd_svec. apply bind_err. unfold wr_svec in E.
    rewrite Forall_forall in Hf.
    eapply (rd_vec_pf 4 rd_vec_u8 (fun a => wr_vec_u8 (wr a)) wr); eauto.
    - intros a r Ha. apply rd_vec_u8_app. apply Hf, Ha.
    - intros a b' x' Ha Hx' E'. eapply rd_vec_u8_pf; eauto. apply Hf, Ha.
  Qed.

  (* ======================================================================================== *)
  (* tactics for field-by-field composites                                                    *)
  (* ======================================================================================== *)
  Definition v_vecE := vvec vE (wr_E fl).
  Definition v_vecX := vvec vX (wr_X fl).
  Definition v_vecP := vvec vP (wr_P fl).

  Theorem rt_vecE : RT v_vecE (wr_vecE fl) (rd_vecE K fl P).
  Proof using N_ok p_gt1 p_small. try clear q_le. exact (rt_svec _ _ _ rt_E). Qed.
  Theorem rt_vecX : RT v_vecX (wr_vecX fl) (rd_vecX fl P).
  Proof using N_ok p_small q_le. try clear p_gt1. exact (rt_svec _ _ _ rt_X). Qed.
  Theorem rt_vecP : RT v_vecP (wr_vecP fl) (rd_vecP fl).
  Proof using N_ok. try clear q_le. try clear p_small. try clear p_gt1. exact (rt_svec _ _ _ rt_P). Qed.

  Theorem val_vecE : VAL (Forall vE) (rd_vecE K fl P).
  Proof using p_gt1. try clear q_le. try clear p_small. try clear N_ok. try clear N. exact (val_svec _ _ val_E). Qed.
  Theorem val_vecX : VAL (Forall vX) (rd_vecX fl P).
  Proof. try clear q_le. try clear p_small. try clear N_ok. try clear N. try clear p_gt1. exact (val_svec _ _ val_X). Qed.
  Theorem val_vecP : VAL (Forall wP) (rd_vecP fl).
  Proof. try clear q_le. try clear p_small. try clear N_ok. try clear N. try clear p_gt1. exact (val_svec _ _ val_P). Qed.
  Theorem val_vecE_any bs l r : rd_vecE K fl P bs = Ok (l, r) -> Forall (member P) l.
  Proof using p_gt1. try clear q_le. try clear p_small. try clear N_ok. try clear N. exact (val_svec_any _ _ val_E_any bs l r). Qed.

  Theorem np_vecE : np_reader (rd_vecE K fl P).
  Proof. try clear q_le. try clear p_small. try clear N_ok. try clear N. try clear p_gt1. exact (np_svec _ np_E). Qed.
  Theorem np_vecX : np_reader (rd_vecX fl P).
  Proof. try clear q_le. try clear p_small. try clear N_ok. try clear N. try clear p_gt1. exact (np_svec _ np_X). Qed.
  Theorem np_vecP : np_reader (rd_vecP fl).
  Proof. try clear q_le. try clear p_small. try clear N_ok. try clear N. try clear p_gt1. exact (np_svec _ np_P). Qed.

  Theorem pf_vecE : PF v_vecE (wr_vecE fl) (rd_vecE K fl P).
  Proof. try clear q_le. try clear p_small. try clear N_ok. try clear N. try clear p_gt1. exact (pf_svec _ _ _). Qed.
  Theorem pf_vecX : PF v_vecX (wr_vecX fl) (rd_vecX fl P).
  Proof. try clear q_le. try clear p_small. try clear N_ok. try clear N. try clear p_gt1. exact (pf_svec _ _ _). Qed.
  Theorem pf_vecP : PF v_vecP (wr_vecP fl) (rd_vecP fl).
  Proof. try clear q_le. try clear p_small. try clear N_ok. try clear N. try clear p_gt1. exact (pf_svec _ _ _). Qed.

  (* (R): consume the fields one after the other *)
  Ltac rt_go :=
    rewrite <- ?app_assoc;
    repeat (first [ rewrite (rt_E _ _) by assumption | rewrite (rt_X _ _) by assumption
                  | rewrite (rt_vecE _ _) by assumption | rewrite (rt_vecX _ _) by assumption ];
            cbn [bind]);
    reflexivity.

  (* (V): invert one bind, apply the field's VAL lemma, thread bytes_ok *)
  Ltac vstep H Hok :=
    lazymatch type of H with
    | bind ?o _ = Ok _ =>
        let E := fresh "E" in let V := fresh "V" in let Hok' := fresh "Hok" in
        destruct o as [[? ?]| |] eqn:E; cbn [bind] in H; try discriminate H;
        first [ destruct (val_E _ _ _ Hok E) as [V Hok'] | destruct (val_X _ _ _ Hok E) as [V Hok']
              | destruct (val_vecE _ _ _ Hok E) as [V Hok'] | destruct (val_vecX _ _ _ Hok E) as [V Hok'] ];
        clear Hok E; rename Hok' into Hok
    end.

  (* (N) *)
  Ltac np_go :=
    repeat first [ discriminate
                 | apply bind_np;
                   [ first [ apply np_E | apply np_X | apply np_vecE | apply np_vecX ] | intros [? ?] ] ].

  (* (T): E : b ++ x = wr_1 a1 ++ ... ++ wr_n an ++ [] *)
  Ltac pfstep Hx E :=
    first [ eapply (pf_step _ _ _ _ _ _ _ _ rt_E pf_E) | eapply (pf_step _ _ _ _ _ _ _ _ rt_X pf_X)
          | eapply (pf_step _ _ _ _ _ _ _ _ rt_vecE pf_vecE) | eapply (pf_step _ _ _ _ _ _ _ _ rt_vecX pf_vecX) ];
    [ | exact Hx | exact E | ]; [ assumption | clear E; intros ? E; cbn beta iota ].
  Ltac pf_end Hx E := apply app_eq_nil in E as [_ E]; congruence.
  Ltac pf_prep E :=
    match type of E with _ = ?r => rewrite <- (app_nil_r r) in E end; rewrite <- ?app_assoc in E.

  (* ======================================================================================== *)
  (* ct                                                                                       *)
  (* ======================================================================================== *)
  Definition v_ct (c : ctext B) : Prop := vE (mhr c) /\ vE (gr c).

  Theorem rt_ct : RT v_ct (wr_ct K fl P) (rd_ct K fl P).
  Proof using N_ok p_gt1 p_small. try clear q_le.
    intros [a b] rest [Ha Hb]. cbn [mhr gr] in Ha, Hb. unfold rd_ct, wr_ct. cbn [mhr gr]. rt_go.
  Qed.

  Theorem val_ct : VAL v_ct (rd_ct K fl P).
  Proof using p_gt1. try clear q_le. try clear p_small. try clear N_ok. try clear N.
    intros bs c r Hok H. unfold rd_ct in H. do 2 vstep H Hok. injection H as <- <-.
    split; [split; assumption|assumption].
  Qed.

  Theorem val_ct_any bs c r : rd_ct K fl P bs = Ok (c, r) -> member P (mhr c) /\ member P (gr c).
  Proof using p_gt1. try clear q_le. try clear p_small. try clear N_ok. try clear N.
    unfold rd_ct. intro H. binv H. injection H as <- <-. cbn [mhr gr].
    split; eapply val_E_any; eauto.
  Qed.

  Theorem np_ct : np_reader (rd_ct K fl P).
  Proof. try clear q_le. try clear p_small. try clear N_ok. try clear N. try clear p_gt1. intro bs. unfold rd_ct. np_go. Qed.

  Theorem pf_ct : PF v_ct (wr_ct K fl P) (rd_ct K fl P).
  Proof using N_ok p_gt1 p_small. try clear q_le.
    intros [a b] bs x [Ha Hb] Hx E. cbn [mhr gr] in Ha, Hb. unfold wr_ct in E. cbn [mhr gr] in E.
    pf_prep E. unfold rd_ct.
    do 2 pfstep Hx E. pf_end Hx E.
  Qed.

  (* ======================================================================================== *)
  (* pk, sk                                                                                   *)
  (* ======================================================================================== *)
  Theorem rt_pk : RT vE (wr_pk fl) (rd_pk K fl P).
  Proof using N_ok p_gt1 p_small. try clear q_le. exact rt_E. Qed.
  Theorem val_pk : VAL vE (rd_pk K fl P).
  Proof using p_gt1. try clear q_le. try clear p_small. try clear N_ok. try clear N. exact val_E. Qed.
  Theorem val_pk_any bs a rest : rd_pk K fl P bs = Ok (a, rest) -> member P a.
  Proof using p_gt1. try clear q_le. try clear p_small. try clear N_ok. try clear N. exact (val_E_any bs a rest). Qed.
  Theorem np_pk : np_reader (rd_pk K fl P).
  Proof. try clear q_le. try clear p_small. try clear N_ok. try clear N. try clear p_gt1. exact np_E. Qed.
  Theorem pf_pk : PF vE (wr_pk fl) (rd_pk K fl P).
  Proof using N_ok p_small. try clear q_le. try clear p_gt1. exact pf_E. Qed.

  (* PrivateKey { value, pk_element } as a pair *)
  Definition wr_skp (vp : Z * Z) : bytes := wr_sk fl (fst vp) (snd vp).
  Definition v_sk (vp : Z * Z) : Prop := vX (fst vp) /\ vE (snd vp).

  Theorem rt_sk : RT v_sk wr_skp (rd_sk K fl P).
  Proof using N_ok p_gt1 p_small q_le.
    intros [x e] rest [Hx He]. cbn [fst snd] in Hx, He. unfold rd_sk, wr_skp, wr_sk. cbn [fst snd]. rt_go.
  Qed.

  Theorem val_sk : VAL v_sk (rd_sk K fl P).
  Proof using p_gt1. try clear q_le. try clear p_small. try clear N_ok. try clear N.
    intros bs c r Hok H. unfold rd_sk in H. do 2 vstep H Hok. injection H as <- <-.
    split; [split; assumption|assumption].
  Qed.

  Theorem np_sk : np_reader (rd_sk K fl P).
  Proof. try clear q_le. try clear p_small. try clear N_ok. try clear N. try clear p_gt1. intro bs. unfold rd_sk. np_go. Qed.

  Theorem pf_sk : PF v_sk wr_skp (rd_sk K fl P).
  Proof using N_ok p_gt1 p_small q_le.
    intros [a b] bs x [Ha Hb] Hx E. cbn [fst snd] in Ha, Hb. unfold wr_skp, wr_sk in E. cbn [fst snd] in E.
    pf_prep E. unfold rd_sk. do 2 pfstep Hx E. pf_end Hx E.
  Qed.

  (* ======================================================================================== *)
  (* schnorr, cp                                                                              *)
  (* ======================================================================================== *)
  Definition v_schnorr (s : schnorr B) : Prop :=
    vE (s_com B s) /\ vX (s_chal B s) /\ vX (s_resp B s).

  Theorem rt_schnorr : RT v_schnorr (wr_schnorr K fl P) (rd_schnorr K fl P).
  Proof using N_ok p_gt1 p_small q_le.
    intros [a c s] rest (Ha & Hc & Hs). cbn [s_com s_chal s_resp] in Ha, Hc, Hs.
    unfold rd_schnorr, wr_schnorr. cbn [s_com s_chal s_resp]. rt_go.
  Qed.

  Theorem val_schnorr : VAL v_schnorr (rd_schnorr K fl P).
  Proof using p_gt1. try clear q_le. try clear p_small. try clear N_ok. try clear N.
    intros bs c r Hok H. unfold rd_schnorr in H. do 3 vstep H Hok. injection H as <- <-.
    split; [repeat (split; [assumption|]); assumption|assumption].
  Qed.

  Theorem np_schnorr : np_reader (rd_schnorr K fl P).
  Proof. try clear q_le. try clear p_small. try clear N_ok. try clear N. try clear p_gt1. intro bs. unfold rd_schnorr. np_go. Qed.

  Theorem pf_schnorr : PF v_schnorr (wr_schnorr K fl P) (rd_schnorr K fl P).
  Proof using N_ok p_gt1 p_small q_le.
    intros [a c s] bs x (Ha & Hc & Hs) Hx E. cbn [s_com s_chal s_resp] in Ha, Hc, Hs.
    unfold wr_schnorr in E. cbn [s_com s_chal s_resp] in E.
    pf_prep E. unfold rd_schnorr. do 3 pfstep Hx E. pf_end Hx E.
  Qed.

  Definition v_cp (s : cproof B) : Prop :=
    vE (c_com1 B s) /\ vE (c_com2 B s) /\ vX (c_chal B s) /\ vX (c_resp B s).

  Theorem rt_cp : RT v_cp (wr_cp K fl P) (rd_cp K fl P).
  Proof using N_ok p_gt1 p_small q_le.
    intros [a b c s] rest (Ha & Hb & Hc & Hs). cbn [c_com1 c_com2 c_chal c_resp] in Ha, Hb, Hc, Hs.
    unfold rd_cp, wr_cp. cbn [c_com1 c_com2 c_chal c_resp]. rt_go.
  Qed.

  Theorem val_cp : VAL v_cp (rd_cp K fl P).
  Proof using p_gt1. try clear q_le. try clear p_small. try clear N_ok. try clear N.
    intros bs c r Hok H. unfold rd_cp in H. do 4 vstep H Hok. injection H as <- <-.
    split; [repeat (split; [assumption|]); assumption|assumption].
  Qed.

  Theorem np_cp : np_reader (rd_cp K fl P).
  Proof. try clear q_le. try clear p_small. try clear N_ok. try clear N. try clear p_gt1. intro bs. unfold rd_cp. np_go. Qed.

  Theorem pf_cp : PF v_cp (wr_cp K fl P) (rd_cp K fl P).
  Proof using N_ok p_gt1 p_small q_le.
    intros [a b' c s] bs x (Ha & Hb & Hc & Hs) Hx E. cbn [c_com1 c_com2 c_chal c_resp] in Ha, Hb, Hc, Hs.
    unfold wr_cp in E. cbn [c_com1 c_com2 c_chal c_resp] in E.
    pf_prep E. unfold rd_cp. do 4 pfstep Hx E. pf_end Hx E.
  Qed.

  (* ======================================================================================== *)
  (* vectors of composites                                                                    *)
  (* ======================================================================================== *)
  Definition v_vecC := vvec v_ct (wr_ct K fl P).
  Definition v_vecCP := vvec v_cp (wr_cp K fl P).

  Theorem rt_vecC : RT v_vecC (wr_vecC K fl P) (rd_vecC K fl P).
  Proof using N_ok p_gt1 p_small. try clear q_le. exact (rt_svec _ _ _ rt_ct). Qed.
  Theorem rt_vecCP : RT v_vecCP (wr_vecCP K fl P) (rd_vecCP K fl P).
  Proof using N_ok p_gt1 p_small q_le. exact (rt_svec _ _ _ rt_cp). Qed.
  Theorem val_vecC : VAL (Forall v_ct) (rd_vecC K fl P).
  Proof using p_gt1. try clear q_le. try clear p_small. try clear N_ok. try clear N. exact (val_svec _ _ val_ct). Qed.
  Theorem val_vecCP : VAL (Forall v_cp) (rd_vecCP K fl P).
  Proof using p_gt1. try clear q_le. try clear p_small. try clear N_ok. try clear N. exact (val_svec _ _ val_cp). Qed.
  Theorem val_vecC_any bs l r : rd_vecC K fl P bs = Ok (l, r) ->
    Forall (fun c : ctext B => member P (mhr c) /\ member P (gr c)) l.
  Proof using p_gt1. try clear q_le. try clear p_small. try clear N_ok. try clear N. exact (val_svec_any _ _ val_ct_any bs l r). Qed.
  Theorem np_vecC : np_reader (rd_vecC K fl P).
  Proof. try clear q_le. try clear p_small. try clear N_ok. try clear N. try clear p_gt1. exact (np_svec _ np_ct). Qed.
  Theorem np_vecCP : np_reader (rd_vecCP K fl P).
  Proof. try clear q_le. try clear p_small. try clear N_ok. try clear N. try clear p_gt1. exact (np_svec _ np_cp). Qed.
  Theorem pf_vecC : PF v_vecC (wr_vecC K fl P) (rd_vecC K fl P).
  Proof. try clear q_le. try clear p_small. try clear N_ok. try clear N. try clear p_gt1. exact (pf_svec _ _ _). Qed.
  Theorem pf_vecCP : PF v_vecCP (wr_vecCP K fl P) (rd_vecCP K fl P).
  Proof. try clear q_le. try clear p_small. try clear N_ok. try clear N. try clear p_gt1. exact (pf_svec _ _ _). Qed.

  (* ======================================================================================== *)
  (* ShuffleProof                                                                             *)
  (* ======================================================================================== *)
  (* honest proofs (what the writer is given) *)
  Definition v_proof (w : sproof) : Prop :=
    vE (sp_t1 w) /\ vE (sp_t2 w) /\ vE (sp_t3 w) /\ vE (sp_t41 w) /\ vE (sp_t42 w) /\
    v_vecE (sp_t_hats w) /\
    vX (sp_s1 w) /\ vX (sp_s2 w) /\ vX (sp_s3 w) /\ vX (sp_s4 w) /\
    v_vecX (sp_s_hats w) /\ v_vecX (sp_s_primes w) /\
    v_vecE (sp_cs w) /\ v_vecE (sp_c_hats w).

  (* what every decoded proof satisfies *)
  Definition w_proof (w : sproof) : Prop :=
    vE (sp_t1 w) /\ vE (sp_t2 w) /\ vE (sp_t3 w) /\ vE (sp_t41 w) /\ vE (sp_t42 w) /\
    Forall vE (sp_t_hats w) /\
    vX (sp_s1 w) /\ vX (sp_s2 w) /\ vX (sp_s3 w) /\ vX (sp_s4 w) /\
    Forall vX (sp_s_hats w) /\ Forall vX (sp_s_primes w) /\
    Forall vE (sp_cs w) /\ Forall vE (sp_c_hats w).

  Lemma v_proof_w_proof w : v_proof w -> w_proof w.
  Proof. try clear q_le. try clear p_small. try clear N_ok. try clear N. try clear p_gt1.
    intros (H1 & H2 & H3 & H4 & H5 & H6 & H7 & H8 & H9 & H10 & H11 & H12 & H13 & H14).
    unfold w_proof; repeat (split; [first [assumption | eapply vvec_forall; eassumption]|]); eapply vvec_forall; eassumption.
  Qed.

  Ltac sp_cbn := cbn [sp_t1 sp_t2 sp_t3 sp_t41 sp_t42 sp_t_hats sp_s1 sp_s2 sp_s3 sp_s4 sp_s_hats
                      sp_s_primes sp_cs sp_c_hats].
  Ltac sp_cbn_in H := cbn [sp_t1 sp_t2 sp_t3 sp_t41 sp_t42 sp_t_hats sp_s1 sp_s2 sp_s3 sp_s4 sp_s_hats
                      sp_s_primes sp_cs sp_c_hats] in H.

  Theorem rt_proof : RT v_proof (wr_proof fl) (rd_proof K fl P).
  Proof using N_ok p_gt1 p_small q_le.
    intros w rest Hw. destruct w. unfold v_proof in Hw. sp_cbn_in Hw.
    destruct Hw as (H1 & H2 & H3 & H4 & H5 & H6 & H7 & H8 & H9 & H10 & H11 & H12 & H13 & H14).
    unfold rd_proof, wr_proof. sp_cbn. rt_go.
  Qed.

  Theorem val_proof : VAL w_proof (rd_proof K fl P).
  Proof using p_gt1. try clear q_le. try clear p_small. try clear N_ok. try clear N.
    intros bs c r Hok H. unfold rd_proof in H. do 14 vstep H Hok. injection H as <- <-.
    split; [unfold w_proof; sp_cbn; repeat (split; [assumption|]); assumption|assumption].
  Qed.

  Theorem np_proof : np_reader (rd_proof K fl P).
  Proof. try clear q_le. try clear p_small. try clear N_ok. try clear N. try clear p_gt1. intro bs. unfold rd_proof. np_go. Qed.

  Theorem pf_proof : PF v_proof (wr_proof fl) (rd_proof K fl P).
  Proof using N_ok p_gt1 p_small q_le.
    intros w bs x Hw Hx E. destruct w. unfold v_proof in Hw. sp_cbn_in Hw.
    destruct Hw as (H1 & H2 & H3 & H4 & H5 & H6 & H7 & H8 & H9 & H10 & H11 & H12 & H13 & H14).
    unfold wr_proof in E. sp_cbn_in E. pf_prep E. unfold rd_proof.
    do 14 pfstep Hx E. pf_end Hx E.
  Qed.

  (* ======================================================================================== *)
  (* named consequences for every wire type (strict top-level decoders; for the StrandVector   *)
  (* instances, which have no de_* in Model/Wire.v, the strict decoder is [strict rd_vec*])    *)
  (* ======================================================================================== *)
  (* ---- E ---- *)
  Theorem de_ser_E a : vE a -> de_E K fl P (wr_E fl a) = Ok a.
  Proof using N_ok p_gt1 p_small. try clear q_le. exact (rt_de _ _ _ rt_E a). Qed.
  Theorem de_trailing_E a rest : vE a -> rest <> [] -> de_E K fl P (wr_E fl a ++ rest) = Err.
  Proof using N_ok p_gt1 p_small. try clear q_le. exact (rt_trailing _ _ _ rt_E a rest). Qed.
  Theorem ser_inj_E a b : vE a -> vE b -> wr_E fl a = wr_E fl b -> a = b.
  Proof using K N_ok p_gt1 p_small. try clear q_le. exact (rt_inj _ _ _ rt_E a b). Qed.
  Theorem de_val_E bs a : bytes_ok bs -> de_E K fl P bs = Ok a -> vE a.
  Proof using p_gt1. try clear q_le. try clear p_small. try clear N_ok. try clear N. intros Hok H. apply strict_inv in H. exact (proj1 (val_E _ _ _ Hok H)). Qed.
  Theorem de_np_E bs : de_E K fl P bs <> Panic.
  Proof. try clear q_le. try clear p_small. try clear N_ok. try clear N. try clear p_gt1. exact (strict_np _ np_E bs). Qed.
  Theorem de_trunc_E a b : vE a -> (exists x, x <> [] /\ b ++ x = wr_E fl a) -> de_E K fl P b = Err.
  Proof using N_ok p_small. try clear q_le. try clear p_gt1. exact (pf_de _ _ _ pf_E a b). Qed.
  (* ---- X ---- *)
  Theorem de_ser_X a : vX a -> de_X fl P (wr_X fl a) = Ok a.
  Proof using N_ok p_small q_le. try clear p_gt1. exact (rt_de _ _ _ rt_X a). Qed.
  Theorem de_trailing_X a rest : vX a -> rest <> [] -> de_X fl P (wr_X fl a ++ rest) = Err.
  Proof using N_ok p_small q_le. try clear p_gt1. exact (rt_trailing _ _ _ rt_X a rest). Qed.
  Theorem ser_inj_X a b : vX a -> vX b -> wr_X fl a = wr_X fl b -> a = b.
  Proof using N_ok p_small q_le. try clear p_gt1. exact (rt_inj _ _ _ rt_X a b). Qed.
  Theorem de_val_X bs a : bytes_ok bs -> de_X fl P bs = Ok a -> vX a.
  Proof. try clear q_le. try clear p_small. try clear N_ok. try clear N. try clear p_gt1. intros Hok H. apply strict_inv in H. exact (proj1 (val_X _ _ _ Hok H)). Qed.
  Theorem de_np_X bs : de_X fl P bs <> Panic.
  Proof. try clear q_le. try clear p_small. try clear N_ok. try clear N. try clear p_gt1. exact (strict_np _ np_X bs). Qed.
  Theorem de_trunc_X a b : vX a -> (exists x, x <> [] /\ b ++ x = wr_X fl a) -> de_X fl P b = Err.
  Proof using N_ok p_small q_le. try clear p_gt1. exact (pf_de _ _ _ pf_X a b). Qed.
  (* ---- P ---- *)
  Theorem de_ser_P a : vP a -> de_P fl (wr_P fl a) = Ok a.
  Proof using N_ok. try clear q_le. try clear p_small. try clear p_gt1. exact (rt_de _ _ _ rt_P a). Qed.
  Theorem de_trailing_P a rest : vP a -> rest <> [] -> de_P fl (wr_P fl a ++ rest) = Err.
  Proof using N_ok. try clear q_le. try clear p_small. try clear p_gt1. exact (rt_trailing _ _ _ rt_P a rest). Qed.
  Theorem ser_inj_P a b : vP a -> vP b -> wr_P fl a = wr_P fl b -> a = b.
  Proof using N_ok. try clear q_le. try clear p_small. try clear p_gt1. exact (rt_inj _ _ _ rt_P a b). Qed.
  Theorem de_val_P bs a : bytes_ok bs -> de_P fl bs = Ok a -> wP a.
  Proof. try clear q_le. try clear p_small. try clear N_ok. try clear N. try clear p_gt1. intros Hok H. apply strict_inv in H. exact (proj1 (val_P _ _ _ Hok H)). Qed.
  Theorem de_np_P bs : de_P fl bs <> Panic.
  Proof. try clear q_le. try clear p_small. try clear N_ok. try clear N. try clear p_gt1. exact (strict_np _ np_P bs). Qed.
  Theorem de_trunc_P a b : vP a -> (exists x, x <> [] /\ b ++ x = wr_P fl a) -> de_P fl b = Err.
  Proof using N_ok. try clear q_le. try clear p_small. try clear p_gt1. exact (pf_de _ _ _ pf_P a b). Qed.
  (* ---- ct ---- *)
  Theorem de_ser_ct a : v_ct a -> de_ct K fl P (wr_ct K fl P a) = Ok a.
  Proof using N_ok p_gt1 p_small. try clear q_le. exact (rt_de _ _ _ rt_ct a). Qed.
  Theorem de_trailing_ct a rest : v_ct a -> rest <> [] -> de_ct K fl P (wr_ct K fl P a ++ rest) = Err.
  Proof using N_ok p_gt1 p_small. try clear q_le. exact (rt_trailing _ _ _ rt_ct a rest). Qed.
  Theorem ser_inj_ct a b : v_ct a -> v_ct b -> wr_ct K fl P a = wr_ct K fl P b -> a = b.
  Proof using N_ok p_gt1 p_small. try clear q_le. exact (rt_inj _ _ _ rt_ct a b). Qed.
  Theorem de_val_ct bs a : bytes_ok bs -> de_ct K fl P bs = Ok a -> v_ct a.
  Proof using p_gt1. try clear q_le. try clear p_small. try clear N_ok. try clear N. intros Hok H. apply strict_inv in H. exact (proj1 (val_ct _ _ _ Hok H)). Qed.
  Theorem de_np_ct bs : de_ct K fl P bs <> Panic.
  Proof. try clear q_le. try clear p_small. try clear N_ok. try clear N. try clear p_gt1. exact (strict_np _ np_ct bs). Qed.
  Theorem de_trunc_ct a b : v_ct a -> (exists x, x <> [] /\ b ++ x = wr_ct K fl P a) -> de_ct K fl P b = Err.
  Proof using N_ok p_gt1 p_small. try clear q_le. exact (pf_de _ _ _ pf_ct a b). Qed.
  (* ---- pk ---- *)
  Theorem de_ser_pk a : vE a -> de_pk K fl P (wr_pk fl a) = Ok a.
  Proof using N_ok p_gt1 p_small. try clear q_le. exact (rt_de _ _ _ rt_pk a). Qed.
  Theorem de_trailing_pk a rest : vE a -> rest <> [] -> de_pk K fl P (wr_pk fl a ++ rest) = Err.
  Proof using N_ok p_gt1 p_small. try clear q_le. exact (rt_trailing _ _ _ rt_pk a rest). Qed.
  Theorem ser_inj_pk a b : vE a -> vE b -> wr_pk fl a = wr_pk fl b -> a = b.
  Proof using K N_ok p_gt1 p_small. try clear q_le. exact (rt_inj _ _ _ rt_pk a b). Qed.
  Theorem de_val_pk bs a : bytes_ok bs -> de_pk K fl P bs = Ok a -> vE a.
  Proof using p_gt1. try clear q_le. try clear p_small. try clear N_ok. try clear N. intros Hok H. apply strict_inv in H. exact (proj1 (val_pk _ _ _ Hok H)). Qed.
  Theorem de_np_pk bs : de_pk K fl P bs <> Panic.
  Proof. try clear q_le. try clear p_small. try clear N_ok. try clear N. try clear p_gt1. exact (strict_np _ np_pk bs). Qed.
  Theorem de_trunc_pk a b : vE a -> (exists x, x <> [] /\ b ++ x = wr_pk fl a) -> de_pk K fl P b = Err.
  Proof using N_ok p_small. try clear q_le. try clear p_gt1. exact (pf_de _ _ _ pf_pk a b). Qed.
  (* ---- sk ---- *)
  Theorem de_ser_sk a : v_sk a -> de_sk K fl P (wr_skp a) = Ok a.
  Proof using N_ok p_gt1 p_small q_le. exact (rt_de _ _ _ rt_sk a). Qed.
  Theorem de_trailing_sk a rest : v_sk a -> rest <> [] -> de_sk K fl P (wr_skp a ++ rest) = Err.
  Proof using N_ok p_gt1 p_small q_le. exact (rt_trailing _ _ _ rt_sk a rest). Qed.
  Theorem ser_inj_sk a b : v_sk a -> v_sk b -> wr_skp a = wr_skp b -> a = b.
  Proof using K N_ok p_gt1 p_small q_le. exact (rt_inj _ _ _ rt_sk a b). Qed.
  Theorem de_val_sk bs a : bytes_ok bs -> de_sk K fl P bs = Ok a -> v_sk a.
  Proof using p_gt1. try clear q_le. try clear p_small. try clear N_ok. try clear N. intros Hok H. apply strict_inv in H. exact (proj1 (val_sk _ _ _ Hok H)). Qed.
  Theorem de_np_sk bs : de_sk K fl P bs <> Panic.
  Proof. try clear q_le. try clear p_small. try clear N_ok. try clear N. try clear p_gt1. exact (strict_np _ np_sk bs). Qed.
  Theorem de_trunc_sk a b : v_sk a -> (exists x, x <> [] /\ b ++ x = wr_skp a) -> de_sk K fl P b = Err.
  Proof using N_ok p_gt1 p_small q_le. exact (pf_de _ _ _ pf_sk a b). Qed.
  (* ---- schnorr ---- *)
  Theorem de_ser_schnorr a : v_schnorr a -> de_schnorr K fl P (wr_schnorr K fl P a) = Ok a.
  Proof using N_ok p_gt1 p_small q_le. exact (rt_de _ _ _ rt_schnorr a). Qed.
  Theorem de_trailing_schnorr a rest : v_schnorr a -> rest <> [] -> de_schnorr K fl P (wr_schnorr K fl P a ++ rest) = Err.
  Proof using N_ok p_gt1 p_small q_le. exact (rt_trailing _ _ _ rt_schnorr a rest). Qed.
  Theorem ser_inj_schnorr a b : v_schnorr a -> v_schnorr b -> wr_schnorr K fl P a = wr_schnorr K fl P b -> a = b.
  Proof using N_ok p_gt1 p_small q_le. exact (rt_inj _ _ _ rt_schnorr a b). Qed.
  Theorem de_val_schnorr bs a : bytes_ok bs -> de_schnorr K fl P bs = Ok a -> v_schnorr a.
  Proof using p_gt1. try clear q_le. try clear p_small. try clear N_ok. try clear N. intros Hok H. apply strict_inv in H. exact (proj1 (val_schnorr _ _ _ Hok H)). Qed.
  Theorem de_np_schnorr bs : de_schnorr K fl P bs <> Panic.
  Proof. try clear q_le. try clear p_small. try clear N_ok. try clear N. try clear p_gt1. exact (strict_np _ np_schnorr bs). Qed.
  Theorem de_trunc_schnorr a b : v_schnorr a -> (exists x, x <> [] /\ b ++ x = wr_schnorr K fl P a) -> de_schnorr K fl P b = Err.
  Proof using N_ok p_gt1 p_small q_le. exact (pf_de _ _ _ pf_schnorr a b). Qed.
  (* ---- cp ---- *)
  Theorem de_ser_cp a : v_cp a -> de_cp K fl P (wr_cp K fl P a) = Ok a.
  Proof using N_ok p_gt1 p_small q_le. exact (rt_de _ _ _ rt_cp a). Qed.
  Theorem de_trailing_cp a rest : v_cp a -> rest <> [] -> de_cp K fl P (wr_cp K fl P a ++ rest) = Err.
  Proof using N_ok p_gt1 p_small q_le. exact (rt_trailing _ _ _ rt_cp a rest). Qed.
  Theorem ser_inj_cp a b : v_cp a -> v_cp b -> wr_cp K fl P a = wr_cp K fl P b -> a = b.
  Proof using N_ok p_gt1 p_small q_le. exact (rt_inj _ _ _ rt_cp a b). Qed.
  Theorem de_val_cp bs a : bytes_ok bs -> de_cp K fl P bs = Ok a -> v_cp a.
  Proof using p_gt1. try clear q_le. try clear p_small. try clear N_ok. try clear N. intros Hok H. apply strict_inv in H. exact (proj1 (val_cp _ _ _ Hok H)). Qed.
  Theorem de_np_cp bs : de_cp K fl P bs <> Panic.
  Proof. try clear q_le. try clear p_small. try clear N_ok. try clear N. try clear p_gt1. exact (strict_np _ np_cp bs). Qed.
  Theorem de_trunc_cp a b : v_cp a -> (exists x, x <> [] /\ b ++ x = wr_cp K fl P a) -> de_cp K fl P b = Err.
  Proof using N_ok p_gt1 p_small q_le. exact (pf_de _ _ _ pf_cp a b). Qed.
  (* ---- vecE ---- *)
  Theorem de_ser_vecE a : v_vecE a -> strict (rd_vecE K fl P) (wr_vecE fl a) = Ok a.
  Proof using N_ok p_gt1 p_small. try clear q_le. exact (rt_de _ _ _ rt_vecE a). Qed.
  Theorem de_trailing_vecE a rest : v_vecE a -> rest <> [] -> strict (rd_vecE K fl P) (wr_vecE fl a ++ rest) = Err.
  Proof using N_ok p_gt1 p_small. try clear q_le. exact (rt_trailing _ _ _ rt_vecE a rest). Qed.
  Theorem ser_inj_vecE a b : v_vecE a -> v_vecE b -> wr_vecE fl a = wr_vecE fl b -> a = b.
  Proof using K N_ok p_gt1 p_small. try clear q_le. exact (rt_inj _ _ _ rt_vecE a b). Qed.
  Theorem de_val_vecE bs a : bytes_ok bs -> strict (rd_vecE K fl P) bs = Ok a -> Forall vE a.
  Proof using p_gt1. try clear q_le. try clear p_small. try clear N_ok. try clear N. intros Hok H. apply strict_inv in H. exact (proj1 (val_vecE _ _ _ Hok H)). Qed.
  Theorem de_np_vecE bs : strict (rd_vecE K fl P) bs <> Panic.
  Proof. try clear q_le. try clear p_small. try clear N_ok. try clear N. try clear p_gt1. exact (strict_np _ np_vecE bs). Qed.
  Theorem de_trunc_vecE a b : v_vecE a -> (exists x, x <> [] /\ b ++ x = wr_vecE fl a) -> strict (rd_vecE K fl P) b = Err.
  Proof. try clear q_le. try clear p_small. try clear N_ok. try clear N. try clear p_gt1. exact (pf_de _ _ _ pf_vecE a b). Qed.
  (* ---- vecX ---- *)
  Theorem de_ser_vecX a : v_vecX a -> strict (rd_vecX fl P) (wr_vecX fl a) = Ok a.
  Proof using N_ok p_small q_le. try clear p_gt1. exact (rt_de _ _ _ rt_vecX a). Qed.
  Theorem de_trailing_vecX a rest : v_vecX a -> rest <> [] -> strict (rd_vecX fl P) (wr_vecX fl a ++ rest) = Err.
  Proof using N_ok p_small q_le. try clear p_gt1. exact (rt_trailing _ _ _ rt_vecX a rest). Qed.
  Theorem ser_inj_vecX a b : v_vecX a -> v_vecX b -> wr_vecX fl a = wr_vecX fl b -> a = b.
  Proof using N_ok p_small q_le. try clear p_gt1. exact (rt_inj _ _ _ rt_vecX a b). Qed.
  Theorem de_val_vecX bs a : bytes_ok bs -> strict (rd_vecX fl P) bs = Ok a -> Forall vX a.
  Proof. try clear q_le. try clear p_small. try clear N_ok. try clear N. try clear p_gt1. intros Hok H. apply strict_inv in H. exact (proj1 (val_vecX _ _ _ Hok H)). Qed.
  Theorem de_np_vecX bs : strict (rd_vecX fl P) bs <> Panic.
  Proof. try clear q_le. try clear p_small. try clear N_ok. try clear N. try clear p_gt1. exact (strict_np _ np_vecX bs). Qed.
  Theorem de_trunc_vecX a b : v_vecX a -> (exists x, x <> [] /\ b ++ x = wr_vecX fl a) -> strict (rd_vecX fl P) b = Err.
  Proof. try clear q_le. try clear p_small. try clear N_ok. try clear N. try clear p_gt1. exact (pf_de _ _ _ pf_vecX a b). Qed.
  (* ---- vecC ---- *)
  Theorem de_ser_vecC a : v_vecC a -> strict (rd_vecC K fl P) (wr_vecC K fl P a) = Ok a.
  Proof using N_ok p_gt1 p_small. try clear q_le. exact (rt_de _ _ _ rt_vecC a). Qed.
  Theorem de_trailing_vecC a rest : v_vecC a -> rest <> [] -> strict (rd_vecC K fl P) (wr_vecC K fl P a ++ rest) = Err.
  Proof using N_ok p_gt1 p_small. try clear q_le. exact (rt_trailing _ _ _ rt_vecC a rest). Qed.
  Theorem ser_inj_vecC a b : v_vecC a -> v_vecC b -> wr_vecC K fl P a = wr_vecC K fl P b -> a = b.
  Proof using N_ok p_gt1 p_small. try clear q_le. exact (rt_inj _ _ _ rt_vecC a b). Qed.
  Theorem de_val_vecC bs a : bytes_ok bs -> strict (rd_vecC K fl P) bs = Ok a -> Forall v_ct a.
  Proof using p_gt1. try clear q_le. try clear p_small. try clear N_ok. try clear N. intros Hok H. apply strict_inv in H. exact (proj1 (val_vecC _ _ _ Hok H)). Qed.
  Theorem de_np_vecC bs : strict (rd_vecC K fl P) bs <> Panic.
  Proof. try clear q_le. try clear p_small. try clear N_ok. try clear N. try clear p_gt1. exact (strict_np _ np_vecC bs). Qed.
  Theorem de_trunc_vecC a b : v_vecC a -> (exists x, x <> [] /\ b ++ x = wr_vecC K fl P a) -> strict (rd_vecC K fl P) b = Err.
  Proof. try clear q_le. try clear p_small. try clear N_ok. try clear N. try clear p_gt1. exact (pf_de _ _ _ pf_vecC a b). Qed.
  (* ---- vecP ---- *)
  Theorem de_ser_vecP a : v_vecP a -> strict (rd_vecP fl) (wr_vecP fl a) = Ok a.
  Proof using N_ok. try clear q_le. try clear p_small. try clear p_gt1. exact (rt_de _ _ _ rt_vecP a). Qed.
  Theorem de_trailing_vecP a rest : v_vecP a -> rest <> [] -> strict (rd_vecP fl) (wr_vecP fl a ++ rest) = Err.
  Proof using N_ok. try clear q_le. try clear p_small. try clear p_gt1. exact (rt_trailing _ _ _ rt_vecP a rest). Qed.
  Theorem ser_inj_vecP a b : v_vecP a -> v_vecP b -> wr_vecP fl a = wr_vecP fl b -> a = b.
  Proof using N_ok. try clear q_le. try clear p_small. try clear p_gt1. exact (rt_inj _ _ _ rt_vecP a b). Qed.
  Theorem de_val_vecP bs a : bytes_ok bs -> strict (rd_vecP fl) bs = Ok a -> Forall wP a.
  Proof. try clear q_le. try clear p_small. try clear N_ok. try clear N. try clear p_gt1. intros Hok H. apply strict_inv in H. exact (proj1 (val_vecP _ _ _ Hok H)). Qed.
  Theorem de_np_vecP bs : strict (rd_vecP fl) bs <> Panic.
  Proof. try clear q_le. try clear p_small. try clear N_ok. try clear N. try clear p_gt1. exact (strict_np _ np_vecP bs). Qed.
  Theorem de_trunc_vecP a b : v_vecP a -> (exists x, x <> [] /\ b ++ x = wr_vecP fl a) -> strict (rd_vecP fl) b = Err.
  Proof. try clear q_le. try clear p_small. try clear N_ok. try clear N. try clear p_gt1. exact (pf_de _ _ _ pf_vecP a b). Qed.
  (* ---- vecCP ---- *)
  Theorem de_ser_vecCP a : v_vecCP a -> strict (rd_vecCP K fl P) (wr_vecCP K fl P a) = Ok a.
  Proof using N_ok p_gt1 p_small q_le. exact (rt_de _ _ _ rt_vecCP a). Qed.
  Theorem de_trailing_vecCP a rest : v_vecCP a -> rest <> [] -> strict (rd_vecCP K fl P) (wr_vecCP K fl P a ++ rest) = Err.
  Proof using N_ok p_gt1 p_small q_le. exact (rt_trailing _ _ _ rt_vecCP a rest). Qed.
  Theorem ser_inj_vecCP a b : v_vecCP a -> v_vecCP b -> wr_vecCP K fl P a = wr_vecCP K fl P b -> a = b.
  Proof using N_ok p_gt1 p_small q_le. exact (rt_inj _ _ _ rt_vecCP a b). Qed.
  Theorem de_val_vecCP bs a : bytes_ok bs -> strict (rd_vecCP K fl P) bs = Ok a -> Forall v_cp a.
  Proof using p_gt1. try clear q_le. try clear p_small. try clear N_ok. try clear N. intros Hok H. apply strict_inv in H. exact (proj1 (val_vecCP _ _ _ Hok H)). Qed.
  Theorem de_np_vecCP bs : strict (rd_vecCP K fl P) bs <> Panic.
  Proof. try clear q_le. try clear p_small. try clear N_ok. try clear N. try clear p_gt1. exact (strict_np _ np_vecCP bs). Qed.
  Theorem de_trunc_vecCP a b : v_vecCP a -> (exists x, x <> [] /\ b ++ x = wr_vecCP K fl P a) -> strict (rd_vecCP K fl P) b = Err.
  Proof. try clear q_le. try clear p_small. try clear N_ok. try clear N. try clear p_gt1. exact (pf_de _ _ _ pf_vecCP a b). Qed.
  (* ---- proof ---- *)
  Theorem de_ser_proof a : v_proof a -> de_proof K fl P (wr_proof fl a) = Ok a.
  Proof using N_ok p_gt1 p_small q_le. exact (rt_de _ _ _ rt_proof a). Qed.
  Theorem de_trailing_proof a rest : v_proof a -> rest <> [] -> de_proof K fl P (wr_proof fl a ++ rest) = Err.
  Proof using N_ok p_gt1 p_small q_le. exact (rt_trailing _ _ _ rt_proof a rest). Qed.
  Theorem ser_inj_proof a b : v_proof a -> v_proof b -> wr_proof fl a = wr_proof fl b -> a = b.
  Proof using K N_ok p_gt1 p_small q_le. exact (rt_inj _ _ _ rt_proof a b). Qed.
  Theorem de_val_proof bs a : bytes_ok bs -> de_proof K fl P bs = Ok a -> w_proof a.
  Proof using p_gt1. try clear q_le. try clear p_small. try clear N_ok. try clear N. intros Hok H. apply strict_inv in H. exact (proj1 (val_proof _ _ _ Hok H)). Qed.
  Theorem de_np_proof bs : de_proof K fl P bs <> Panic.
  Proof. try clear q_le. try clear p_small. try clear N_ok. try clear N. try clear p_gt1. exact (strict_np _ np_proof bs). Qed.
  Theorem de_trunc_proof a b : v_proof a -> (exists x, x <> [] /\ b ++ x = wr_proof fl a) -> de_proof K fl P b = Err.
  Proof using N_ok p_gt1 p_small q_le. exact (pf_de _ _ _ pf_proof a b). Qed.

  (* element-only decoders need no hypothesis on the input at all *)
  Theorem de_val_E_any bs a : de_E K fl P bs = Ok a -> member P a.
  Proof using p_gt1. try clear q_le. try clear p_small. try clear N_ok. try clear N. intro H. apply strict_inv in H. exact (val_E_any _ _ _ H). Qed.
  Theorem de_val_ct_any bs c : de_ct K fl P bs = Ok c -> member P (mhr c) /\ member P (gr c).
  Proof using p_gt1. try clear q_le. try clear p_small. try clear N_ok. try clear N. intro H. apply strict_inv in H. exact (val_ct_any _ _ _ H). Qed.
  Theorem de_val_pk_any bs a : de_pk K fl P bs = Ok a -> member P a.
  Proof using p_gt1. try clear q_le. try clear p_small. try clear N_ok. try clear N. intro H. apply strict_inv in H. exact (val_pk_any _ _ _ H). Qed.

  (* ======================================================================================== *)
  (* decoded shuffle proofs are well formed                                                   *)
  (* ======================================================================================== *)
  Theorem decoded_proof_wf bs w : de_proof K fl P bs = Ok w -> bytes_ok bs ->
    member P (sp_t1 w) /\ member P (sp_t2 w) /\ member P (sp_t3 w) /\ member P (sp_t41 w) /\
    member P (sp_t42 w) /\
    Forall (member P) (sp_t_hats w) /\ Forall (member P) (sp_cs w) /\ Forall (member P) (sp_c_hats w) /\
    0 <= sp_s1 w < q /\ 0 <= sp_s2 w < q /\ 0 <= sp_s3 w < q /\ 0 <= sp_s4 w < q /\
    Forall (fun x => 0 <= x < q) (sp_s_hats w) /\ Forall (fun x => 0 <= x < q) (sp_s_primes w).
  Proof using p_gt1. try clear q_le. try clear p_small. try clear N_ok. try clear N.
    intros H Hok. pose proof (de_val_proof bs w Hok H) as Hw. unfold w_proof, vE, vX in Hw.
    destruct Hw as (H1 & H2 & H3 & H4 & H5 & H6 & H7 & H8 & H9 & H10 & H11 & H12 & H13 & H14).
    repeat (split; [assumption|]); assumption.
  Qed.

  (* ======================================================================================== *)
  (* encoded sizes: when p fits in N bytes with 4*(4+N) < 2^32, the per-item size conditions  *)
  (* of the vector validity predicates follow from plain Forall-validity                      *)
  (* ======================================================================================== *)
  Lemma wr_E_len a : vE a -> Z.of_nat (length (wr_E fl a)) <= 4 + N.
  Proof using N_ok p_small. try clear q_le. try clear p_gt1.
    intro Ha. apply vE_lt in Ha. unfold wr_E, z_ser_int. rewrite wr_vec_u8_len.
    pose proof (bytes_of_int_len a ltac:(lia)). lia.
  Qed.

  Lemma wr_X_len x : vX x -> Z.of_nat (length (wr_X fl x)) <= 4 + N.
  Proof using N_ok p_small q_le. try clear p_gt1.
    intro Hx. apply vX_lt in Hx. unfold wr_X, z_ser_int. rewrite wr_vec_u8_len.
    pose proof (bytes_of_int_len x ltac:(lia)). lia.
  Qed.

  Lemma wr_ct_len c : v_ct c -> Z.of_nat (length (wr_ct K fl P c)) <= 2 * (4 + N).
  Proof using N_ok p_small. try clear q_le. try clear p_gt1.
    intros [Ha Hb]. unfold wr_ct. rewrite app_length.
    pose proof (wr_E_len _ Ha). pose proof (wr_E_len _ Hb). lia.
  Qed.

  Lemma wr_cp_len c : v_cp c -> Z.of_nat (length (wr_cp K fl P c)) <= 4 * (4 + N).
  Proof using N_ok p_small q_le. try clear p_gt1.
    intros (Ha & Hb & Hc & Hs). unfold wr_cp. rewrite !app_length.
    pose proof (wr_E_len _ Ha). pose proof (wr_E_len _ Hb).
    pose proof (wr_X_len _ Hc). pose proof (wr_X_len _ Hs). lia.
  Qed.

  Lemma wr_P_len m : vP m -> Z.of_nat (length (wr_P fl m)) <= 4 + 2 * N.
  Proof using N_ok. try clear q_le. try clear p_small. try clear p_gt1.
    intros [Hm0 Hm]. pose proof N_ok as HL. rewrite pow256 in Hm by lia. unfold wr_P. destruct fl.
    - rewrite wr_vec_u8_len. pose proof (le_bytes_min_len N m ltac:(lia) Hm). lia.
    - rewrite app_length, u32le_len, (flat_map_const_len u16le 2) by (intro; apply u16le_len).
      pose proof (be_digits_len N m ltac:(lia) Hm). lia.
  Qed.

  Theorem v_vecE_intro l : 4 + N < 2 ^ 32 -> Z.of_nat (length l) < 2 ^ 32 -> Forall vE l -> v_vecE l.
  Proof using N_ok p_small. try clear q_le. try clear p_gt1. intros HN. apply (vvec_intro vE (wr_E fl) (4 + N)); [exact wr_E_len|exact HN]. Qed.
  Theorem v_vecX_intro l : 4 + N < 2 ^ 32 -> Z.of_nat (length l) < 2 ^ 32 -> Forall vX l -> v_vecX l.
  Proof using N_ok p_small q_le. try clear p_gt1. intros HN. apply (vvec_intro vX (wr_X fl) (4 + N)); [exact wr_X_len|exact HN]. Qed.
  Theorem v_vecC_intro l : 2 * (4 + N) < 2 ^ 32 -> Z.of_nat (length l) < 2 ^ 32 -> Forall v_ct l -> v_vecC l.
  Proof using N_ok p_small. try clear q_le. try clear p_gt1. intros HN. apply (vvec_intro v_ct (wr_ct K fl P) (2 * (4 + N))); [exact wr_ct_len|exact HN]. Qed.
  Theorem v_vecCP_intro l : 4 * (4 + N) < 2 ^ 32 -> Z.of_nat (length l) < 2 ^ 32 -> Forall v_cp l -> v_vecCP l.
  Proof using N_ok p_small q_le. try clear p_gt1. intros HN. apply (vvec_intro v_cp (wr_cp K fl P) (4 * (4 + N))); [exact wr_cp_len|exact HN]. Qed.
  Theorem v_vecP_intro l : 4 + 2 * N < 2 ^ 32 -> Z.of_nat (length l) < 2 ^ 32 -> Forall vP l -> v_vecP l.
  Proof using N_ok. try clear q_le. try clear p_small. try clear p_gt1. intros HN. apply (vvec_intro vP (wr_P fl) (4 + 2 * N)); [exact wr_P_len|exact HN]. Qed.

  Theorem v_proof_intro w : 4 + N < 2 ^ 32 ->
    Z.of_nat (length (sp_t_hats w)) < 2 ^ 32 -> Z.of_nat (length (sp_s_hats w)) < 2 ^ 32 ->
    Z.of_nat (length (sp_s_primes w)) < 2 ^ 32 -> Z.of_nat (length (sp_cs w)) < 2 ^ 32 ->
    Z.of_nat (length (sp_c_hats w)) < 2 ^ 32 ->
    w_proof w -> v_proof w.
  Proof using N_ok p_small q_le. try clear p_gt1.
    intros HN L1 L2 L3 L4 L5 (H1 & H2 & H3 & H4 & H5 & H6 & H7 & H8 & H9 & H10 & H11 & H12 & H13 & H14).
    unfold v_proof.
    repeat (split; [first [assumption | apply v_vecE_intro; assumption | apply v_vecX_intro; assumption]|]).
    apply v_vecE_intro; assumption.
  Qed.
End W.

(* ------------------------------------------------------------------------------------------ *)
(* The instance asked for: N = u32::MAX, i.e. p < 2^(8*4294967295).  Every theorem above is     *)
(* instantiated the same way: [thm K fl P 4294967295 u32max_ok ...].  (Keep that literal power  *)
(* out of proof contexts where lia/auto run: they try to evaluate it.)                        *)
(* ------------------------------------------------------------------------------------------ *)
Lemma u32max_ok : 1 <= 4294967295 <= 4294967295.
Proof. lia. Qed.

Theorem rt_E_max K fl P : 1 < p_p P -> p_p P < 2 ^ (8 * 4294967295) ->
  forall a rest, member P a -> rd_E K fl P (wr_E fl a ++ rest) = Ok (a, rest).
Proof. intros H1 H2. exact (rt_E K fl P 4294967295 u32max_ok H1 H2). Qed.

Theorem rt_proof_max K fl P : 1 < p_p P -> p_p P < 2 ^ (8 * 4294967295) -> 0 < p_q P <= p_p P ->
  forall w rest, v_proof fl P w -> rd_proof K fl P (wr_proof fl w ++ rest) = Ok (w, rest).
Proof. intros H1 H2 H3. exact (rt_proof K fl P 4294967295 u32max_ok H1 H2 H3). Qed.

Print Assumptions element_from_bytes_spec.
Print Assumptions exp_from_bytes_spec.
Print Assumptions decoded_proof_wf.
Print Assumptions de_ser_E.
Print Assumptions de_trailing_proof.
Print Assumptions ser_inj_proof.
Print Assumptions de_np_proof.
Print Assumptions de_trunc_proof.
