(* Proofs/WireP.v — the wire formats of Model/Wire.v are canonical codecs.
   For every wire type T (E, X, P, ct, pk, sk, schnorr, cp, the five StrandVector instances, proof):
     (R) rt_T          : vT v -> rd_T (wr_T v ++ rest) = Ok (v, rest)
         de_ser_T      : vT v -> de_T (wr_T v) = Ok v
         de_trailing_T : vT v -> rest <> [] -> de_T (wr_T v ++ rest) = Err
         ser_inj_T     : vT v1 -> vT v2 -> wr_T v1 = wr_T v2 -> v1 = v2
     (V) val_T         : bytes_ok bs -> rd_T bs = Ok (v, rest) -> wT v /\ bytes_ok rest
                         (only members / canonical exponents decode; [bytes_ok] is needed only because
                         the model's bytes are arbitrary Z and [le_int] of negative "bytes" can be
                         negative: it is used for "0 <= exponent" and for the plaintext bound.
                         The element-only facts [val_E_any], [val_ct_any], [val_pk_any], [val_vecE_any],
                         [val_vecC_any] hold for arbitrary Z lists.)
     (N) np_T, de_np_T : no input makes a reader or strict decoder panic (unconditional)
     (T) pf_T, de_trunc_T : every strict prefix of an honest encoding is rejected with Err.
   The size hypothesis [p < 2^(8*4294967295)] is stated through [wire_lim := 4294967295] (convertible
   with the literal) only because [lia] would otherwise try to evaluate that power. *)
From Coq Require Import ZArith List Bool Lia.
From Strand Require Import Base.ZUtil Model.Outcome Model.Codec Model.Backend Model.ZBackend Model.Zkp
  Model.Wire Proofs.ZLaws Proofs.CodecP.
Import ListNotations.
Open Scope Z_scope.

Definition wire_lim : Z := 4294967295.
Lemma wire_lim_bound : 1 <= wire_lim < 4294967296.
Proof. unfold wire_lim. lia. Qed.

(* invert a chain of binds ending in [Ok] *)
Ltac binv H :=
  repeat match type of H with
  | bind ?o _ = Ok _ =>
      let E := fresh "E" in
      first [ destruct o as [[? ?]| |] eqn:E | destruct o as [?| |] eqn:E ];
      cbn [bind] in H; try discriminate H
  end.

Section W.
  Variable K : Kernel.
  Variable fl : flavor.
  Variable P : Params.
  Hypothesis p_small : 1 < p_p P /\ p_p P < 2 ^ (8 * wire_lim).
  Hypothesis q_le : 0 < p_q P <= p_p P.
  Notation p := (p_p P).
  Notation q := (p_q P).
  Notation B := (ZB K fl P).

  (* ---------------------------------------------------------------------------------------- *)
  (* integers <-> bytes per flavor                                                            *)
  (* ---------------------------------------------------------------------------------------- *)
  Lemma int_bytes x : 0 <= x -> int_of_bytes fl (bytes_of_int fl x) = x.
  Proof.
    intro Hx. unfold int_of_bytes, bytes_of_int. destruct fl.
    - apply le_bytes_min_int, Hx.
    - apply be_digits_int, Hx.
  Qed.

  Lemma bytes_of_int_ok x : bytes_ok (bytes_of_int fl x).
  Proof. unfold bytes_of_int. destruct fl; [apply le_bytes_min_ok|apply be_digits_ok]. Qed.

  Lemma bytes_of_int_len x : x < 2 ^ (8 * wire_lim) -> Z.of_nat (length (bytes_of_int fl x)) < 2 ^ 32.
  Proof.
    intro Hx. pose proof wire_lim_bound as HL. rewrite pow256 in Hx by lia.
    unfold bytes_of_int. destruct fl.
    - pose proof (le_bytes_min_len wire_lim x ltac:(lia) Hx). lia.
    - pose proof (be_digits_len wire_lim x ltac:(lia) Hx). lia.
  Qed.

  Lemma int_of_bytes_bound bs : bytes_ok bs -> 0 <= int_of_bytes fl bs < 256 ^ Z.of_nat (length bs).
  Proof. intro H. unfold int_of_bytes. destruct fl; [apply le_int_bound|apply be_int_bound]; exact H. Qed.

  (* ---------------------------------------------------------------------------------------- *)
  (* exact characterisation of the primitive decoders                                         *)
  (* ---------------------------------------------------------------------------------------- *)
  Lemma legendre_1 a : legendre K P a = 1 <-> a ^ q mod p = 1.
  Proof.
    unfold legendre. rewrite k_powm_ok, powm_spec by lia.
    destruct (Z.eqb_spec (a ^ q mod p) 0) as [E0|E0]; [lia|].
    destruct (Z.eqb_spec (a ^ q mod p) 1) as [E1|E1]; lia.
  Qed.

  Theorem element_from_int_spec i v :
    element_from_int K P i = Ok v <-> v = i /\ 1 <= v < p /\ v ^ q mod p = 1.
  Proof.
    unfold element_from_int. rewrite Z.geb_leb.
    destruct (Z.ltb_spec i 1) as [H1|H1]; cbn [orb].
    { split; [discriminate|]. intros (-> & ? & _). lia. }
    destruct (Z.leb_spec p i) as [H2|H2].
    { split; [discriminate|]. intros (-> & ? & _). lia. }
    pose proof (legendre_1 i) as HL.
    destruct (Z.eqb_spec (legendre K P i) 1) as [E|E]; cbn [negb].
    - split; [intro H; injection H as <-|intros (-> & _); reflexivity].
      split; [reflexivity|]. split; [lia|]. apply HL, E.
    - split; [discriminate|]. intros (-> & _ & Hm). apply HL in Hm. contradiction.
  Qed.

  Theorem element_from_bytes_spec bs v :
    element_from_bytes K fl P bs = Ok v <->
    v = int_of_bytes fl bs /\ 1 <= v < p /\ v ^ q mod p = 1.
  Proof. unfold element_from_bytes. apply element_from_int_spec. Qed.

  Theorem exp_from_bytes_spec bs v :
    exp_from_bytes fl P bs = Ok v <-> v = int_of_bytes fl bs /\ v < q.
  Proof.
    unfold exp_from_bytes. rewrite Z.geb_leb.
    destruct (Z.leb_spec q (int_of_bytes fl bs)) as [H|H].
    - split; [discriminate|]. intros [-> ?]. lia.
    - split; [intro E; injection E as <-; auto|intros [-> _]; reflexivity].
  Qed.

  Lemma element_from_bytes_np bs : element_from_bytes K fl P bs <> Panic.
  Proof.
    unfold element_from_bytes, element_from_int. destruct (_ || _); [discriminate|].
    destruct (negb _); discriminate.
  Qed.

  Lemma exp_from_bytes_np bs : exp_from_bytes fl P bs <> Panic.
  Proof. unfold exp_from_bytes. destruct (_ >=? _); discriminate. Qed.

  (* ---------------------------------------------------------------------------------------- *)
  (* validity predicates                                                                      *)
  (* ---------------------------------------------------------------------------------------- *)
  Definition vE (a : Z) : Prop := member P a.
  Definition vX (x : Z) : Prop := 0 <= x < q.
  Definition vP (m : Z) : Prop := 0 <= m < 2 ^ (8 * wire_lim).

  Lemma vE_lt a : vE a -> 0 <= a < 2 ^ (8 * wire_lim).
  Proof. intros [H _]. lia. Qed.
  Lemma vX_lt x : vX x -> 0 <= x < 2 ^ (8 * wire_lim).
  Proof. unfold vX. lia. Qed.

  (* ======================================================================================== *)
  (* E                                                                                        *)
  (* ======================================================================================== *)
  Theorem rt_E : RT vE (wr_E fl) (rd_E K fl P).
  Proof.
    intros a rest Ha. pose proof (vE_lt a Ha) as Hl.
    unfold rd_E, wr_E, z_ser_int. rewrite rd_vec_u8_app by (apply bytes_of_int_len; lia).
    cbn [bind].
    assert (E : element_from_bytes K fl P (bytes_of_int fl a) = Ok a).
    { apply element_from_bytes_spec. rewrite int_bytes by lia. destruct Ha as [? ?]. auto. }
    rewrite E. reflexivity.
  Qed.

  Theorem val_E_any bs a rest : rd_E K fl P bs = Ok (a, rest) -> member P a.
  Proof.
    unfold rd_E. intro H. binv H. injection H as <- <-.
    apply element_from_bytes_spec in E0 as (_ & ? & ?). split; assumption.
  Qed.

  Lemma rd_vec_u8_ok bs b r : bytes_ok bs -> rd_vec_u8 bs = Ok (b, r) ->
    bytes_ok b /\ bytes_ok r /\ Z.of_nat (length b) < 2 ^ 32.
  Proof.
    intros Hok E. apply rd_vec_u8_inv in E as (a & -> & La & Lb).
    apply bytes_ok_app in Hok as [Ha Hok]. apply bytes_ok_app in Hok as [Hb Hr].
    split; [exact Hb|]. split; [exact Hr|].
    pose proof (le_int_bound a Ha) as Hi. rewrite La in Hi. change (256 ^ Z.of_nat 4) with 4294967296 in Hi.
    lia.
  Qed.

  Definition VAL {A} (v : A -> Prop) (rd : reader A) : Prop :=
    forall bs a r, bytes_ok bs -> rd bs = Ok (a, r) -> v a /\ bytes_ok r.

  Theorem val_E : VAL vE (rd_E K fl P).
  Proof.
    intros bs a r Hok H. split; [eapply val_E_any; eauto|].
    unfold rd_E in H. binv H. injection H as <- <-. eapply rd_vec_u8_ok; eauto.
  Qed.

  Theorem np_E : np_reader (rd_E K fl P).
  Proof.
    intro bs. unfold rd_E. apply bind_np; [apply rd_vec_u8_np|]. intros [b r].
    apply bind_np; [apply element_from_bytes_np|]. discriminate.
  Qed.

  Lemma wr_int_pf a b x : a < 2 ^ (8 * wire_lim) -> x <> [] -> b ++ x = z_ser_int fl a ->
    rd_vec_u8 b = Err.
  Proof. intros Ha Hx E. eapply rd_vec_u8_pf; eauto. apply bytes_of_int_len, Ha. Qed.

  Theorem pf_E : PF vE (wr_E fl) (rd_E K fl P).
  Proof.
    intros a b x Ha Hx E. unfold rd_E. apply bind_err. apply vE_lt in Ha.
    eapply wr_int_pf; eauto. lia.
  Qed.

  (* ======================================================================================== *)
  (* X                                                                                        *)
  (* ======================================================================================== *)
  Theorem rt_X : RT vX (wr_X fl) (rd_X fl P).
  Proof.
    intros a rest Ha. pose proof (vX_lt a Ha) as Hl.
    unfold rd_X, wr_X, z_ser_int. rewrite rd_vec_u8_app by (apply bytes_of_int_len; lia).
    cbn [bind].
    assert (E : exp_from_bytes fl P (bytes_of_int fl a) = Ok a).
    { apply exp_from_bytes_spec. rewrite int_bytes by lia. unfold vX in Ha. split; [reflexivity|lia]. }
    rewrite E. reflexivity.
  Qed.

  Theorem val_X : VAL vX (rd_X fl P).
  Proof.
    intros bs a r Hok H. unfold rd_X in H. binv H. injection H as <- <-.
    destruct (rd_vec_u8_ok _ _ _ Hok E) as (Hb & Hr & _). split; [|exact Hr].
    apply exp_from_bytes_spec in E0 as [-> Hq]. pose proof (int_of_bytes_bound _ Hb). unfold vX. lia.
  Qed.

  (* without [bytes_ok] only the upper bound survives *)
  Theorem val_X_any bs a rest : rd_X fl P bs = Ok (a, rest) -> a < q.
  Proof.
    unfold rd_X. intro H. binv H. injection H as <- <-. apply exp_from_bytes_spec in E0 as [_ ?]. assumption.
  Qed.

  Theorem np_X : np_reader (rd_X fl P).
  Proof.
    intro bs. unfold rd_X. apply bind_np; [apply rd_vec_u8_np|]. intros [b r].
    apply bind_np; [apply exp_from_bytes_np|]. discriminate.
  Qed.

  Theorem pf_X : PF vX (wr_X fl) (rd_X fl P).
  Proof.
    intros a b x Ha Hx E. unfold rd_X. apply bind_err. apply vX_lt in Ha.
    eapply wr_int_pf; eauto. lia.
  Qed.

  (* ======================================================================================== *)
  (* P (plaintext)                                                                            *)
  (* ======================================================================================== *)
  Lemma wr_P_malachite m : wr_P Malachite m = wr_vec u16le (be_digits m).
  Proof. reflexivity. Qed.

  Lemma digit_u16 d r : 0 <= d < 256 -> rd_u16 (u16le d ++ r) = Ok (d, r).
  Proof. intro H. apply rd_u16_app. lia. Qed.

  Theorem rt_P : RT vP (wr_P fl) (rd_P fl).
  Proof.
    intros m rest [Hm0 Hm]. pose proof wire_lim_bound as HL. unfold rd_P. destruct fl.
    - unfold wr_P. rewrite rd_vec_u8_app.
      + cbn [bind]. rewrite le_bytes_min_int by lia. reflexivity.
      + rewrite pow256 in Hm by lia. pose proof (le_bytes_min_len wire_lim m ltac:(lia) Hm). lia.
    - rewrite wr_P_malachite.
      pose proof (be_digits_ok m) as Hok. unfold bytes_ok in Hok. rewrite Forall_forall in Hok.
      rewrite (rd_vec_app 2 rd_u16 u16le (fun d => d)).
      + cbn [bind]. rewrite map_id.
        assert (Hf : forallb (fun d => d <? 256) (be_digits m) = true).
        { apply forallb_forall. intros d Hd. apply Z.ltb_lt. apply Hok in Hd. lia. }
        rewrite Hf, be_digits_int by lia. reflexivity.
      + rewrite pow256 in Hm by lia. pose proof (be_digits_len wire_lim m ltac:(lia) Hm). lia.
      + intros a _. rewrite u16le_len. lia.
      + intros a r Ha. apply digit_u16, Hok, Ha.
  Qed.

  Lemma pow256_le_lim n : Z.of_nat n < 2 ^ 32 -> 256 ^ Z.of_nat n <= 2 ^ (8 * wire_lim).
  Proof.
    intro H. pose proof wire_lim_bound as HL. rewrite pow256 by lia.
    apply Z.pow_le_mono_r; lia.
  Qed.

  Theorem val_P : VAL vP (rd_P fl).
  Proof.
    intros bs m r Hok H. unfold rd_P in H. destruct fl.
    - binv H. injection H as <- <-. destruct (rd_vec_u8_ok _ _ _ Hok E) as (Hb & Hr & Hl).
      split; [|exact Hr]. pose proof (le_int_bound _ Hb). pose proof (pow256_le_lim _ Hl). unfold vP. lia.
    - binv H. destruct (forallb _ l) eqn:Hf; [|discriminate]. injection H as <- <-.
      destruct (rd_vec_inv 2 rd_u16 bytes_ok (fun d => 0 <= d)) with (4 := E) as (Hl & Hr & a & La & (t & ->) & Ln).
      + intros x y Hxy. apply bytes_ok_app in Hxy. tauto.
      + intros bs' d r' Hok' Ed. apply rd_u16_inv in Ed as (a & -> & _ & ->).
        apply bytes_ok_app in Hok' as [Ha Hr']. split; [|exact Hr']. apply le_int_bound in Ha. lia.
      + exact Hok.
      + split; [|exact Hr].
        assert (Hds : bytes_ok l).
        { unfold bytes_ok. rewrite Forall_forall in *. rewrite forallb_forall in Hf.
          intros d Hd. specialize (Hl d Hd). specialize (Hf d Hd). apply Z.ltb_lt in Hf. lia. }
        apply bytes_ok_app in Hok as [Ha _]. pose proof (le_int_bound a Ha) as Hi. rewrite La in Hi.
        change (256 ^ Z.of_nat 4) with 4294967296 in Hi.
        pose proof (be_int_bound _ Hds). pose proof (pow256_le_lim (length l) ltac:(lia)).
        unfold vP. lia.
  Qed.

  Theorem np_P : np_reader (rd_P fl).
  Proof.
    intro bs. unfold rd_P. destruct fl.
    - apply bind_np; [apply rd_vec_u8_np|]. intros [b r]. discriminate.
    - apply bind_np; [apply rd_vec_np; exact rd_u16_np|]. intros [b r].
      destruct (forallb _ _); discriminate.
  Qed.

  Theorem pf_P : PF vP (wr_P fl) (rd_P fl).
  Proof.
    intros m b x [Hm0 Hm] Hx E. pose proof wire_lim_bound as HL. unfold rd_P. destruct fl.
    - apply bind_err. unfold wr_P in E. eapply rd_vec_u8_pf; eauto.
      rewrite pow256 in Hm by lia. pose proof (le_bytes_min_len wire_lim m ltac:(lia) Hm). lia.
    - apply bind_err. rewrite wr_P_malachite in E.
      pose proof (be_digits_ok m) as Hok. unfold bytes_ok in Hok. rewrite Forall_forall in Hok.
      eapply (rd_vec_pf 2 rd_u16 u16le (fun d => d)); eauto.
      + rewrite pow256 in Hm by lia. pose proof (be_digits_len wire_lim m ltac:(lia) Hm). lia.
      + intros a r Ha. apply digit_u16, Hok, Ha.
      + intros a b' x' Ha Hx' E'. apply rd_u16_short.
        assert (L : length (b' ++ x') = 2%nat) by (rewrite E'; apply u16le_len).
        rewrite app_length in L. destruct x'; [congruence|cbn [length] in L; lia].
  Qed.
End W.
