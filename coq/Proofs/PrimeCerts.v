(* Proofs/PrimeCerts.v — primality certificates checked by the kernel (Base/Pocklington.v):
   * the 62-bit execution parameter set is a safe-prime group UNCONDITIONALLY (q from the full factorisation of
     q-1 into primes below 2000 certified by trial division, p = 2q+1 from q);
   * for the shipped 2048-bit constants [prime p2048] FOLLOWS from [prime q2048] (Pocklington step with F = q,
     witness 2: 2^(p-1) = 1 and gcd(2^2 - 1, p) = 1), so one named hypothesis remains instead of two. *)
From Coq Require Import ZArith Znumtheory List Lia Bool.
From Strand Require Import Base.ZUtil Base.Primes Base.Pocklington Base.FastArith Generated.Constants
  Model.Outcome Model.ZBackend Model.Exec Model.Params2048 Proofs.ZLaws Proofs.ZInst.
Import ListNotations.
Open Scope Z_scope.

Definition q62 : Z := 1702182322940790683.
Definition p62 : Z := 3404364645881581367.

Definition q62_cert : list (Z * Z) := [(2, 2); (293, 2); (641, 2); (1153, 2); (1193, 2); (1733, 2); (1901, 2)].

Lemma powm_is_pow b e m : m <> 0 -> powm b e m = b ^ e mod m.
Proof. apply powm_spec. Qed.

Lemma fast_powm_is_pow b e m : m <> 0 -> fast_powm b e m = b ^ e mod m.
Proof. intro H. rewrite fast_powm_ok. apply powm_spec. exact H. Qed.

Theorem q62_prime : prime q62.
Proof.
  apply (pock_checkb_sound powm q62 q62_cert powm_is_pow).
  - assert (H : forallb prime_check (map fst q62_cert) = true) by (vm_compute; reflexivity).
    rewrite Forall_forall. intros r Hr. apply prime_check_sound. rewrite forallb_forall in H. apply H, Hr.
  - vm_compute. reflexivity.
Qed.

Theorem p62_prime : prime p62.
Proof.
  apply (pock_checkb_sound powm p62 [(q62, 2)] powm_is_pow).
  - constructor; [exact q62_prime|constructor].
  - vm_compute. reflexivity.
Qed.

Theorem P62_safe_prime : SafePrime (mkP p62).
Proof.
  constructor.
  - constructor.
    + vm_compute. reflexivity.
    + vm_compute. reflexivity.
    + apply memberb_spec; [vm_compute; reflexivity|]. vm_compute. reflexivity.
  - exact p62_prime.
  - exact q62_prime.
  - vm_compute. reflexivity.
  - vm_compute. reflexivity.
  - vm_compute. discriminate.
  - vm_compute. reflexivity.
Qed.
Print Assumptions P62_safe_prime.

(* the shipped group: only the primality of q2048 remains a hypothesis *)
Theorem p2048_prime_from_q : prime q2048 -> prime p2048.
Proof.
  intro Hq. apply (pock_checkb_sound fast_powm p2048 [(q2048, 2)] fast_powm_is_pow).
  - constructor; [exact Hq|constructor].
  - vm_compute. reflexivity.
Qed.
Print Assumptions p2048_prime_from_q.

Theorem safe_P2048_from_q : prime q2048 -> SafePrime P2048.
Proof. intro Hq. apply safe_P2048; [apply p2048_prime_from_q|]; exact Hq. Qed.
Print Assumptions safe_P2048_from_q.

(* ---------------------------------------------------------------- curve25519 / ristretto255 / Ed25519 constants *)
(* Pocklington certificate chain (generated once by a sympy script — untrusted, the kernel checks every line with
   chain_checkb) for the order l = 2^252 + 27742317777372353535851937790883648493 of the ristretto255 / Ed25519
   prime-order group and for the field characteristic 2^255 - 19. *)
From Strand Require Import Model.Ristretto.

Definition chain25519 : list (Z * list (Z * Z)) := [
  (531581, [(3797, 2)]);
  (1257559732178653, [(531581, 2); (23, 2); (7, 2)]);
  (4434155615661930479, [(1257559732178653, 2)]);
  (172054593956031949258510691, [(4434155615661930479, 2)]);
  (19757330305831588566944191468367130476339, [(172054593956031949258510691, 2)]);
  (276602624281642239937218680557139826668747, [(19757330305831588566944191468367130476339, 2)]);
  (7237005577332262213973186563042994240857116359379907606001950938285454250989, [(276602624281642239937218680557139826668747, 2)]);
  (8574133, [(103, 2); (7, 2); (3, 2); (2, 2)]);
  (1919519569386763, [(8574133, 2); (127, 2)]);
  (75707, [(37853, 2)]);
  (75445702479781427272750846543864801, [(1919519569386763, 2); (75707, 2)]);
  (132049, [(131, 2); (7, 2)]);
  (74058212732561358302231226437062788676166966415465897661863160754340907, [(75445702479781427272750846543864801, 2); (132049, 2)]);
  (57896044618658097711785492504343953926634992332820282019728792003956564819949, [(74058212732561358302231226437062788676166966415465897661863160754340907, 2)])
].

Lemma chain25519_primes : Forall prime (map fst chain25519).
Proof.
  apply (chain_checkb_sound fast_powm fast_powm_is_pow chain25519 []); [constructor|].
  vm_compute. reflexivity.
Qed.

Theorem ell_prime : prime ell.
Proof.
  pose proof chain25519_primes as H. rewrite Forall_forall in H. apply H. vm_compute. tauto.
Qed.
Print Assumptions ell_prime.

Theorem fp_prime : prime fp.
Proof.
  pose proof chain25519_primes as H. rewrite Forall_forall in H. apply H. vm_compute. tauto.
Qed.
Print Assumptions fp_prime.

Theorem ell_fp_values : ell = 2 ^ 252 + 27742317777372353535851937790883648493 /\ fp = 2 ^ 255 - 19.
Proof. vm_compute. split; reflexivity. Qed.
