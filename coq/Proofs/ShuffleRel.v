(* Proofs/ShuffleRel.v — (A) the Fisher-Yates sampler of Model/Rng.v returns a permutation of 0..n-1
   whatever (well-formed) byte stream it is fed; (B) the relation computed by apply_permutation
   (output k = input perm[k] re-encrypted with that input's exponent), its totality on valid
   permutations, and preservation of the multiset of plaintexts by one shuffle and by any cascade. *)
From Coq Require Import ZArith List Lia Permutation.
From Strand Require Import Model.Outcome Model.Codec Model.Rng Proofs.ListAlg.
Import ListNotations.
Open Scope Z_scope.
Local Notation length := List.length.

(* ====================================================================================== *)
(* PART A — the sampler                                                                    *)
(* ====================================================================================== *)

Definition bytes_ok (s : bytes) : Prop := forall b, In b s -> 0 <= b < 256.

Lemma le_int_range bs : bytes_ok bs -> 0 <= le_int bs < 256 ^ Z.of_nat (length bs).
Proof.
  unfold bytes_ok. induction bs as [|a bs IH]; intros H.
  - cbn. lia.
  - change (le_int (a :: bs)) with (a + 256 * le_int bs).
    assert (Ha : 0 <= a < 256) by (apply H; left; reflexivity).
    assert (Hr : 0 <= le_int bs < 256 ^ Z.of_nat (length bs)) by (apply IH; intros b Hb; apply H; right; exact Hb).
    cbn [length]. rewrite Nat2Z.inj_succ, Z.pow_succ_r by lia. lia.
Qed.

Lemma In_skipn' {A} (x : A) n l : In x (skipn n l) -> In x l.
Proof. intros H. rewrite <- (firstn_skipn n l). apply in_or_app. right. exact H. Qed.

Lemma In_firstn' {A} (x : A) n l : In x (firstn n l) -> In x l.
Proof. intros H. rewrite <- (firstn_skipn n l). apply in_or_app. left. exact H. Qed.

Lemma take_n_ok n s b rest : take_n n s = Ok (b, rest) ->
  b = firstn n s /\ rest = skipn n s /\ (n <= length s)%nat.
Proof.
  unfold take_n. destruct (n <=? length s)%nat eqn:E; [|discriminate].
  intros H. injection H as <- <-. apply Nat.leb_le in E. auto.
Qed.

Lemma take_n_bytes n s b rest : bytes_ok s -> take_n n s = Ok (b, rest) ->
  bytes_ok b /\ bytes_ok rest /\ length b = n.
Proof.
  intros Hs H. apply take_n_ok in H. destruct H as (-> & -> & Hn).
  split; [|split].
  - intros x Hx. apply Hs. eapply In_firstn'; exact Hx.
  - intros x Hx. apply Hs. eapply In_skipn'; exact Hx.
  - apply firstn_length_le. exact Hn.
Qed.

(* the stream left over by gen_index is a suffix of well-formed bytes *)
Lemma gen_index_rest fuel ubound s j rest : bytes_ok s ->
  gen_index fuel ubound s = Ok (j, rest) -> bytes_ok rest.
Proof.
  revert s. induction fuel as [|f IH]; intros s Hs H; cbn [gen_index] in H; [discriminate|].
  destruct (take_n 4 s) as [[b r]| |] eqn:Et; try discriminate.
  destruct (take_n_bytes _ _ _ _ Hs Et) as (Hb & Hr & Lb).
  cbv zeta in H.
  destruct (_ <=? _) in H.
  - injection H as _ <-. exact Hr.
  - apply (IH r Hr H).
Qed.

(* only 0 < ubound is needed: hi = v*ubound / 2^32 with 0 <= v < 2^32 *)
Lemma gen_index_range_gen fuel ubound s j rest : 0 < ubound -> bytes_ok s ->
  gen_index fuel ubound s = Ok (j, rest) -> 0 <= j < ubound.
Proof.
  intros Hu. revert s. induction fuel as [|f IH]; intros s Hs H; cbn [gen_index] in H; [discriminate|].
  destruct (take_n 4 s) as [[b r]| |] eqn:Et; try discriminate.
  destruct (take_n_bytes _ _ _ _ Hs Et) as (Hb & Hr & Lb).
  cbv zeta in H.
  destruct (_ <=? _) in H.
  - injection H as <- _.
    pose proof (le_int_range b Hb) as Hv. rewrite Lb in Hv.
    change (256 ^ Z.of_nat 4) with (2 ^ 32) in Hv.
    assert (H32 : 0 < 2 ^ 32) by (apply Z.pow_pos_nonneg; lia).
    split.
    + apply Z.div_pos; [nia|exact H32].
    + apply Z.div_lt_upper_bound; [exact H32|]. nia.
  - apply (IH r Hr H).
Qed.

Lemma gen_index_range : forall fuel ubound s j rest, 0 < ubound <= 2 ^ 32 ->
  (forall b, In b s -> 0 <= b < 256) ->
  gen_index fuel ubound s = Ok (j, rest) -> 0 <= j < ubound.
Proof. intros fuel ubound s j rest [Hu _] Hs H. eapply gen_index_range_gen; eauto. Qed.

Print Assumptions gen_index_range.

(* ---- swap_nth is a transposition ---- *)
Definition upd (l : list Z) (k : nat) (x : Z) : list Z := firstn k l ++ [x] ++ skipn (S k) l.

Lemma upd_cons_S a l k x : upd (a :: l) (S k) x = a :: upd l k x.
Proof. reflexivity. Qed.

Lemma upd_length l : forall k x, (k < length l)%nat -> length (upd l k x) = length l.
Proof.
  induction l as [|a l IH]; intros k x Hk; cbn [length] in *; [lia|].
  destruct k as [|k]; [reflexivity|]. rewrite upd_cons_S. cbn [length]. rewrite IH by lia. reflexivity.
Qed.

Lemma upd_nth_same l : forall k x, (k < length l)%nat -> nth k (upd l k x) 0 = x.
Proof.
  induction l as [|a l IH]; intros k x Hk; cbn [length] in *; [lia|].
  destruct k as [|k]; [reflexivity|]. rewrite upd_cons_S. cbn [nth]. apply IH. lia.
Qed.

Lemma upd_nth_other l : forall k j x, (k < length l)%nat -> j <> k -> nth j (upd l k x) 0 = nth j l 0.
Proof.
  induction l as [|a l IH]; intros k j x Hk Hj; cbn [length] in *; [lia|].
  destruct k as [|k].
  - destruct j as [|j]; [congruence|]. reflexivity.
  - rewrite upd_cons_S. destruct j as [|j]; [reflexivity|]. cbn [nth]. apply IH; lia.
Qed.

Lemma upd_perm l : forall k x, (k < length l)%nat -> Permutation (nth k l 0 :: upd l k x) (x :: l).
Proof.
  induction l as [|a l IH]; intros k x Hk; cbn [length] in *; [lia|].
  destruct k as [|k].
  - cbn. apply perm_swap.
  - rewrite upd_cons_S. cbn [nth].
    eapply perm_trans; [apply perm_swap|].
    eapply perm_trans; [apply perm_skip; apply IH; lia|]. apply perm_swap.
Qed.

Lemma swap_nth_upd l i j : swap_nth l i j = upd (upd l i (nth j l 0)) j (nth i l 0).
Proof. reflexivity. Qed.

Lemma swap_nth_length l i j : (i < length l)%nat -> (j < length l)%nat -> length (swap_nth l i j) = length l.
Proof.
  intros Hi Hj. rewrite swap_nth_upd. rewrite upd_length; rewrite upd_length by exact Hi; [reflexivity|exact Hj].
Qed.

Lemma swap_nth_perm l i j : (i < length l)%nat -> (j < length l)%nat -> Permutation (swap_nth l i j) l.
Proof.
  intros Hi Hj. rewrite swap_nth_upd.
  set (a := nth i l 0). set (b := nth j l 0). set (l1 := upd l i b).
  assert (L1 : length l1 = length l) by (apply upd_length; exact Hi).
  assert (Hb : nth j l1 0 = b).
  { unfold l1. destruct (Nat.eq_dec j i) as [->|Hne].
    - apply upd_nth_same; exact Hi.
    - rewrite upd_nth_other by assumption. reflexivity. }
  apply (Permutation_cons_inv (a := b)).
  rewrite <- Hb at 1.
  eapply perm_trans; [apply upd_perm; rewrite L1; exact Hj|].
  unfold l1, a. apply upd_perm. exact Hi.
Qed.

(* ---- the shuffle loop ---- *)
Lemma shuffle_from_perm : forall i l s l' rest,
  (i < length l)%nat \/ i = O -> bytes_ok s ->
  shuffle_from i l s = Ok (l', rest) -> Permutation l' l.
Proof.
  induction i as [|i IH]; intros l s l' rest Hi Hs H.
  - cbn [shuffle_from] in H. injection H as <- _. apply Permutation_refl.
  - destruct Hi as [Hi|Hi]; [|discriminate].
    cbn [shuffle_from] in H.
    destruct (gen_index RNG_FUEL (Z.of_nat (S (S i))) s) as [[j r]| |] eqn:Eg; try discriminate.
    assert (Hj : 0 <= j < Z.of_nat (S (S i))) by (eapply gen_index_range_gen; [lia|exact Hs|exact Eg]).
    pose proof (gen_index_rest _ _ _ _ _ Hs Eg) as Hr.
    assert (Hj' : (Z.to_nat j < length l)%nat) by lia.
    eapply perm_trans; [|apply (swap_nth_perm l (S i) (Z.to_nat j) Hi Hj')].
    apply (IH _ r l' rest); [|exact Hr|exact H].
    left. rewrite swap_nth_length by assumption. lia.
Qed.

(* whatever the (well-formed) byte stream, if the Fisher-Yates model returns, it returns a
   permutation of 0..n-1 *)
Theorem gen_permutation_is_perm : forall (n : nat) (s : bytes) (l : list Z) (rest : bytes),
  (forall b, In b s -> 0 <= b < 256) ->
  gen_permutation n s = Ok (l, rest) -> Permutation l (iota n).
Proof.
  intros n s l rest Hs H. unfold gen_permutation in H. fold (iota n) in H.
  apply (shuffle_from_perm _ _ _ _ _) in H; [exact H| |exact Hs].
  rewrite iota_length. destruct n as [|n]; [right; reflexivity|left; cbn; lia].
Qed.

Print Assumptions gen_permutation_is_perm.

(* ====================================================================================== *)
(* PART B — the shuffle relation and plaintext preservation                                *)
(* ====================================================================================== *)
From Strand Require Import Model.Backend Model.Zkp Model.Shuffler Proofs.Laws Proofs.ElgamalP Proofs.ShuffleP.

(* ---- mapM facts (no backend) ---- *)
Lemma mapM_cons_ok {A C} (f : A -> outcome C) x l ds : mapM f (x :: l) = Ok ds ->
  exists y ys, f x = Ok y /\ mapM f l = Ok ys /\ ds = y :: ys.
Proof.
  cbn [mapM]. destruct (f x) as [y| |]; try discriminate.
  destruct (mapM f l) as [ys| |]; try discriminate.
  intros H. injection H as <-. eauto.
Qed.

Lemma mapM_cons_rw {A C} (f : A -> outcome C) x l y ys : f x = Ok y -> mapM f l = Ok ys ->
  mapM f (x :: l) = Ok (y :: ys).
Proof. intros E1 E2. cbn [mapM]. rewrite E1, E2. reflexivity. Qed.

(* mapM commutes with permutations of the input *)
Lemma mapM_perm {A C} (f : A -> outcome C) l l' : Permutation l l' ->
  forall ds, mapM f l = Ok ds -> exists ds', mapM f l' = Ok ds' /\ Permutation ds' ds.
Proof.
  induction 1 as [|x l l' HP IH|x y l|l l' l'' HP1 IH1 HP2 IH2]; intros ds H.
  - exists ds. split; [exact H|apply Permutation_refl].
  - apply mapM_cons_ok in H. destruct H as (y & ys & Ex & El & ->).
    destruct (IH ys El) as (ys' & El' & HP').
    exists (y :: ys'). split; [apply mapM_cons_rw; assumption|apply perm_skip; exact HP'].
  - apply mapM_cons_ok in H. destruct H as (b & ys & Ey & El & ->).
    apply mapM_cons_ok in El. destruct El as (a & zs & Ex & El & ->).
    exists (a :: b :: zs). split; [|apply perm_swap].
    apply mapM_cons_rw; [exact Ex|]. apply mapM_cons_rw; assumption.
  - destruct (IH1 ds H) as (ds1 & E1 & P1). destruct (IH2 ds1 E1) as (ds2 & E2 & P2).
    exists ds2. split; [exact E2|]. eapply perm_trans; eassumption.
Qed.

Lemma combine_pick {A C} (d1 : A) (d2 : C) l1 l2 perm :
  combine (pick d1 l1 perm) (pick d2 l2 perm) =
  map (fun i => (nth (Z.to_nat i) l1 d1, nth (Z.to_nat i) l2 d2)) perm.
Proof. induction perm as [|i perm IH]; [reflexivity|]. cbn [pick map combine]. f_equal. exact IH. Qed.

Section Rel.
  Variable B : Backend.
  Variable mem : E B -> Prop.
  Hypothesis L : Laws B mem.
  Notation mulp := (b_mulp B).
  Notation pow := (b_pow B).
  Notation one := (b_one B).

  Definition wf_ct (c : ctext B) : Prop := mem (mhr c) /\ mem (gr c).

  (* ---- the relation computed by apply_permutation ---- *)
  Lemma apply_permutation_fun pk perm es rs out rs' :
    Permutation perm (iota (length es)) -> length rs = length es ->
    apply_permutation B pk perm es rs = Ok (out, rs') ->
    rs' = rs /\
    out = map (fun i => reenc B pk (nth (Z.to_nat i) es (de B)) (nth (Z.to_nat i) rs 0)) perm.
  Proof.
    intros HP Lr H. destruct (apply_permutation_spec B pk perm es rs out rs' HP Lr H) as [-> ->].
    split; [reflexivity|]. rewrite combine_pick, map_map. reflexivity.
  Qed.

  (* output k is input perm[k] re-encrypted with that input's returned exponent; same length;
     exponents returned unchanged *)
  Theorem apply_permutation_rel : forall pk perm es rs out rs',
    Permutation perm (iota (length es)) -> length rs = length es ->
    apply_permutation B pk perm es rs = Ok (out, rs') ->
    rs' = rs /\ length out = length es /\
    forall k, (k < length es)%nat ->
      exists i c r, nth_error perm k = Some (Z.of_nat i) /\ nth_error es i = Some c /\ nth_error rs i = Some r /\
                    nth_error out k = Some (reenc B pk c r).
  Proof.
    intros pk perm es rs out rs' HP Lr H.
    destruct (apply_permutation_fun pk perm es rs out rs' HP Lr H) as [-> ->].
    pose proof (perm_length _ _ HP) as Lp. pose proof (perm_range _ _ HP) as HR.
    split; [reflexivity|]. split; [rewrite map_length; exact Lp|].
    intros k Hk.
    destruct (nth_error perm k) as [z|] eqn:Ez; [|apply nth_error_None in Ez; lia].
    assert (Hz : in_range (length es) z).
    { rewrite Forall_forall in HR. apply HR. eapply nth_error_In; exact Ez. }
    unfold in_range in Hz.
    exists (Z.to_nat z), (nth (Z.to_nat z) es (de B)), (nth (Z.to_nat z) rs 0).
    split; [rewrite Z2Nat.id by lia; reflexivity|].
    split; [apply nth_error_nth'; lia|].
    split; [apply nth_error_nth'; lia|].
    exact (map_nth_error (fun i : Z => reenc B pk (nth (Z.to_nat i) es (de B)) (nth (Z.to_nat i) rs 0)) k perm Ez).
  Qed.

  (* apply_permutation succeeds on every valid permutation (no panic) *)
  Theorem apply_permutation_ok : forall pk perm es rs,
    Permutation perm (iota (length es)) -> length rs = length es ->
    exists out, apply_permutation B pk perm es rs = Ok (out, rs).
  Proof.
    intros pk perm es rs HP Lr.
    pose proof (perm_length _ _ HP) as Lp. pose proof (perm_range _ _ HP) as HR.
    unfold apply_permutation. rewrite Lp, Lr, Nat.eqb_refl. cbn [negb].
    set (f := fun cr : ctext B * Z => reenc B pk (fst cr) (snd cr)).
    rewrite (mapM_nthZ (f (de B, 0)))
      by (rewrite map_length, combine_length, Lr, Nat.min_id; exact HR).
    cbn [bind]. eexists. reflexivity.
  Qed.

  (* ---- re-encryption does not change the plaintext ---- *)
  Lemma reenc_ct_mul pk c r : mem pk -> 0 <= r ->
    reenc B pk c r = ct_mul B c (encrypt_with_randomness B pk one r).
  Proof.
    intros Hpk Hr. unfold reenc, ct_mul. cbn [encrypt_with_randomness mhr gr].
    change (b_modp B (b_mul B one (pow pk r))) with (mulp one (pow pk r)).
    rewrite (mulp_one_l B mem L) by (apply (pow_mem B mem L); assumption).
    reflexivity.
  Qed.

  Lemma decrypt_mem sk c d : 0 <= sk -> wf_ct c -> decrypt B sk c = Ok d -> mem d.
  Proof.
    intros Hsk [Hm Hg] E. destruct (decrypt_char B mem L sk c Hm Hg Hsk) as (i & D & Hi & _).
    rewrite D in E. injection E as <-. apply (mem_mulp B mem L); assumption.
  Qed.

  Lemma decrypt_total sk c : 0 <= sk -> wf_ct c -> exists d, decrypt B sk c = Ok d.
  Proof.
    intros Hsk [Hm Hg]. destruct (decrypt_char B mem L sk c Hm Hg Hsk) as (i & D & _). eauto.
  Qed.

  Lemma reenc_wf pk c r : mem pk -> 0 <= r -> wf_ct c -> wf_ct (reenc B pk c r).
  Proof.
    intros Hpk Hr [Hm Hg]. unfold wf_ct, reenc. cbn [mhr gr]. split; apply (mem_mulp B mem L); try assumption.
    - apply (pow_mem B mem L); assumption.
    - apply (ElgamalP.gpow_mem B mem L); exact Hr.
  Qed.

  Theorem decrypt_reenc : forall sk c r d, 0 <= sk -> 0 <= r -> wf_ct c ->
    decrypt B sk c = Ok d -> decrypt B sk (reenc B (pk_of_sk B sk) c r) = Ok d.
  Proof.
    intros sk c r d Hsk Hr Hc E.
    assert (Hpk : mem (pk_of_sk B sk)) by (apply (ElgamalP.gpow_mem B mem L); exact Hsk).
    pose proof (decrypt_mem sk c d Hsk Hc E) as Hd. destruct Hc as [Hm Hg].
    rewrite (reenc_ct_mul _ c r Hpk Hr).
    pose proof (mem_one B mem L) as H1.
    destruct (enc_mem B mem L (pk_of_sk B sk) one r Hpk H1 Hr) as [Hm2 Hg2].
    rewrite (decrypt_ct_mul B mem L sk c _ d one Hm Hg Hm2 Hg2 Hsk E
               (decrypt_encrypt B mem L sk one r Hsk Hr H1)).
    rewrite (mulp_one_r B mem L) by exact Hd. reflexivity.
  Qed.

  (* decrypting a list of re-encryptions = decrypting the originals *)
  Lemma mapM_decrypt_reenc sk cs : 0 <= sk -> Forall wf_ct cs ->
    forall rs, Forall (fun r => 0 <= r) rs -> length rs = length cs ->
    mapM (decrypt B sk) (map (reencf B (pk_of_sk B sk)) (combine cs rs)) = mapM (decrypt B sk) cs.
  Proof.
    intros Hsk. induction 1 as [|c cs Hc Hcs IH]; intros rs Hrs Lr; [reflexivity|].
    destruct rs as [|r rs]; [discriminate|]. inversion Hrs as [|? ? Hr Hrs']; subst.
    cbn [combine map mapM]. unfold reencf at 1. cbn [fst snd].
    destruct (decrypt_total sk c Hsk Hc) as (d & Ed).
    rewrite (decrypt_reenc sk c r d Hsk Hr Hc Ed), Ed.
    rewrite IH by (try assumption; cbn [length] in Lr; lia). reflexivity.
  Qed.

  (* hence a shuffle preserves the multiset of plaintexts: nothing dropped, duplicated or altered *)
  Theorem shuffle_preserves_plaintexts : forall sk perm es rs out rs' ds,
    0 <= sk -> Forall (fun r => 0 <= r) rs -> Forall wf_ct es ->
    Permutation perm (iota (length es)) -> length rs = length es ->
    apply_permutation B (pk_of_sk B sk) perm es rs = Ok (out, rs') ->
    mapM (decrypt B sk) es = Ok ds ->
    exists ds', mapM (decrypt B sk) out = Ok ds' /\ Permutation ds' ds /\ Forall wf_ct out.
  Proof.
    intros sk perm es rs out rs' ds Hsk Hrs Hes HP Lr H Hd.
    destruct (apply_permutation_spec B _ perm es rs out rs' HP Lr H) as [-> ->].
    pose proof (perm_range _ _ HP) as HR.
    assert (Hpk : mem (pk_of_sk B sk)) by (apply (ElgamalP.gpow_mem B mem L); exact Hsk).
    assert (Hes' : Forall wf_ct (pick (de B) es perm)) by (apply pick_Forall; assumption).
    assert (Hrs' : Forall (fun r => 0 <= r) (pick 0 rs perm)) by (apply pick_Forall; [rewrite Lr|]; assumption).
    rewrite (mapM_decrypt_reenc sk _ Hsk Hes' _ Hrs') by (rewrite !pick_length; reflexivity).
    destruct (mapM_perm (decrypt B sk) es (pick (de B) es perm)
                (Permutation_sym (pick_perm (de B) es perm HP)) ds Hd) as (ds' & E' & P').
    exists ds'. split; [exact E'|]. split; [exact P'|].
    rewrite Forall_map.
    pose proof (Forall_combine _ _ _ _ Hes' Hrs') as HF.
    eapply Forall_impl; [|exact HF]. intros [c r] [Hc Hr]. cbn [fst snd] in *.
    unfold reencf. cbn [fst snd]. apply reenc_wf; assumption.
  Qed.

  (* any cascade of mixers (each with its own permutation and exponents) preserves the plaintext multiset *)
  Inductive cascade (pk : E B) : list (ctext B) -> list (ctext B) -> Prop :=
  | cascade_nil : forall es, cascade pk es es
  | cascade_step : forall es perm rs out rs' final,
      Permutation perm (iota (length es)) -> length rs = length es -> Forall (fun r => 0 <= r) rs ->
      apply_permutation B pk perm es rs = Ok (out, rs') ->
      cascade pk out final -> cascade pk es final.

  Theorem cascade_preserves_plaintexts : forall sk es final ds,
    0 <= sk -> Forall wf_ct es -> cascade (pk_of_sk B sk) es final ->
    mapM (decrypt B sk) es = Ok ds ->
    exists ds', mapM (decrypt B sk) final = Ok ds' /\ Permutation ds' ds.
  Proof.
    intros sk es final ds Hsk Hes HC. revert ds Hes.
    induction HC as [es|es perm rs out rs' final HP Lr Hrs Happ HC IH]; intros ds Hes Hd.
    - exists ds. split; [exact Hd|apply Permutation_refl].
    - destruct (shuffle_preserves_plaintexts sk perm es rs out rs' ds Hsk Hrs Hes HP Lr Happ Hd)
        as (ds1 & E1 & P1 & Hout).
      destruct (IH ds1 Hout E1) as (ds' & E' & P').
      exists ds'. split; [exact E'|]. eapply perm_trans; eassumption.
  Qed.
End Rel.

Print Assumptions apply_permutation_rel.
Print Assumptions apply_permutation_ok.
Print Assumptions decrypt_reenc.
Print Assumptions shuffle_preserves_plaintexts.
Print Assumptions cascade_preserves_plaintexts.
