(* Proofs/RngUniform.v — rand 0.8's UniformInt<u32>::sample_single (Model/Rng.v gen_index) is EXACTLY uniform:
   for a bound 1 <= ubound < 2^32 one attempt on the 32-bit word v is accepted with result j iff v lies in a
   block of exactly 2^lz consecutive words (lz = leading zeros of ubound), one block per result j in [0,ubound).
   Every result therefore has the same number 2^lz of accepting words out of 2^32, whatever ubound is: no modulo
   bias. Together with fy_injective (Proofs/RngP.v) this makes gen_permutation uniform over all n! permutations
   when the stream bytes are uniform. *)
From Coq Require Import ZArith List Bool Lia.
From Strand Require Import Base.ZUtil Model.Outcome Model.Codec Model.ZBackend Model.Rng Proofs.RngP.
Import ListNotations.
Open Scope Z_scope.

Lemma bitlen_lower b : 0 < b -> 2 ^ (bitlen b - 1) <= b.
Proof.
  intro H. unfold bitlen. destruct (Z.leb_spec b 0); [lia|].
  replace (Z.log2 b + 1 - 1) with (Z.log2 b) by lia. apply (Z.log2_spec b H).
Qed.

Lemma bitlen_le32 b : 0 < b < 2 ^ 32 -> 1 <= bitlen b <= 32.
Proof.
  intros [H0 H1]. pose proof (bitlen_pos b H0). split; [lia|].
  destruct (Z_le_gt_dec (bitlen b) 32) as [|Hgt]; [assumption|exfalso].
  pose proof (bitlen_lower b H0) as Hl.
  assert (2 ^ 32 <= 2 ^ (bitlen b - 1)) by (apply Z.pow_le_mono_r; lia). lia.
Qed.

(* zone + 1 = ubound * 2^lz, between 2^31 and 2^32 *)
Lemma shifted_range b : 0 < b < 2 ^ 32 ->
  let lz := 32 - bitlen b in 2 ^ 31 <= b * 2 ^ lz < 2 ^ 32.
Proof.
  intros Hb lz. pose proof (bitlen_le32 b Hb) as Hl. pose proof (bitlen_lower b (proj1 Hb)) as Hlo.
  pose proof (bitlen_spec b (proj1 Hb)) as Hhi. subst lz.
  assert (E32 : 2 ^ 32 = 2 ^ bitlen b * 2 ^ (32 - bitlen b)) by (rewrite <- Z.pow_add_r by lia; f_equal; lia).
  assert (E31 : 2 ^ 31 = 2 ^ (bitlen b - 1) * 2 ^ (32 - bitlen b)) by (rewrite <- Z.pow_add_r by lia; f_equal; lia).
  assert (0 < 2 ^ (32 - bitlen b)) by (apply Z.pow_pos_nonneg; lia).
  rewrite E32, E31. split; [apply Z.mul_le_mono_nonneg_r; lia | apply Z.mul_lt_mono_pos_r; lia].
Qed.

Lemma u32_zone_eq b : 0 < b < 2 ^ 32 -> u32_zone b = b * 2 ^ (32 - bitlen b) - 1.
Proof.
  intro Hb. pose proof (shifted_range b Hb) as H. cbv zeta in H. unfold u32_zone.
  rewrite (Z.mod_small (b * 2 ^ (32 - bitlen b))) by lia. apply Z.mod_small. lia.
Qed.

(* the first word whose product reaches j * 2^32 *)
Definition block_start (ubound j : Z) : Z := (j * 2 ^ 32 + ubound - 1) / ubound.

Lemma block_start_spec ub j v : 0 < ub -> (j * 2 ^ 32 <= v * ub <-> block_start ub j <= v).
Proof.
  intro H. unfold block_start. split; intro A.
  - apply Z.lt_succ_r. apply Z.div_lt_upper_bound; [lia|]. nia.
  - assert (B : j * 2 ^ 32 + ub - 1 < ub * (block_start ub j + 1)).
    { unfold block_start. pose proof (Z.mul_succ_div_gt (j * 2 ^ 32 + ub - 1) ub H). lia. }
    unfold block_start in B. nia.
Qed.

(* One attempt: acceptance and result, as a statement about the word alone. *)
Theorem u32_attempt_block : forall ub j v, 0 < ub < 2 ^ 32 -> 0 <= v < 2 ^ 32 -> 0 <= j ->
  let lz := 32 - bitlen ub in
  (((v * ub) mod 2 ^ 32 <=? u32_zone ub) = true /\ v * ub / 2 ^ 32 = j)
  <-> (block_start ub j <= v < block_start ub j + 2 ^ lz).
Proof.
  intros ub j v Hub Hv Hj lz. rewrite (u32_zone_eq ub Hub). fold lz.
  pose proof (shifted_range ub Hub) as Hs. cbv zeta in Hs. fold lz in Hs.
  assert (Hlz : 0 < 2 ^ lz) by (apply Z.pow_pos_nonneg; subst lz; pose proof (bitlen_le32 ub Hub); lia).
  rewrite Z.leb_le.
  pose proof (block_start_spec ub j v (proj1 Hub)) as S1.
  pose proof (block_start_spec ub j (v - 2 ^ lz) (proj1 Hub)) as S2.
  pose proof (Z.div_mod (v * ub) (2 ^ 32) ltac:(lia)) as DM.
  pose proof (Z.mod_pos_bound (v * ub) (2 ^ 32) ltac:(lia)) as MB.
  split.
  - intros [Hlo Hhi]. rewrite Hhi in DM. split.
    + apply S1. lia.
    + destruct (Z_lt_ge_dec v (block_start ub j + 2 ^ lz)) as [|Hge]; [assumption|exfalso].
      assert (A : block_start ub j <= v - 2 ^ lz) by lia. apply S2 in A. nia.
  - intros [Hlo Hhi]. apply S1 in Hlo.
    assert (Hup : v * ub < j * 2 ^ 32 + ub * 2 ^ lz).
    { destruct (Z_lt_ge_dec (v * ub) (j * 2 ^ 32 + ub * 2 ^ lz)) as [|Hge]; [assumption|exfalso].
      assert (A : j * 2 ^ 32 <= (v - 2 ^ lz) * ub) by nia. apply S2 in A. lia. }
    assert (Ej : v * ub / 2 ^ 32 = j).
    { symmetry. apply (Z.div_unique (v * ub) (2 ^ 32) j (v * ub - j * 2 ^ 32)); lia. }
    split; [|exact Ej]. rewrite Ej in DM. lia.
Qed.
Print Assumptions u32_attempt_block.

(* every block lies inside the 32-bit word range and distinct results have disjoint blocks (they are consecutive
   intervals of equal length 2^lz): all ubound results are equally likely, ubound * 2^lz of the 2^32 words accept. *)
Theorem u32_blocks_in_word_range : forall ub j, 0 < ub < 2 ^ 32 -> 0 <= j < ub ->
  0 <= block_start ub j /\ block_start ub j + 2 ^ (32 - bitlen ub) <= 2 ^ 32.
Proof.
  intros ub j Hub Hj. pose proof (shifted_range ub Hub) as Hs. cbv zeta in Hs.
  set (lz := 32 - bitlen ub) in *.
  assert (Hlz : 0 < 2 ^ lz) by (apply Z.pow_pos_nonneg; subst lz; pose proof (bitlen_le32 ub Hub); lia).
  split.
  - unfold block_start. assert (0 <= j * 2 ^ 32) by (apply Z.mul_nonneg_nonneg; lia). apply Z.div_pos; lia.
  - (* the last word of the block, c + 2^lz - 1, satisfies (c+2^lz-1)*ub < j*2^32 + ub*2^lz <= 2^32 * ub *)
    destruct (Z_le_gt_dec (block_start ub j + 2 ^ lz) (2 ^ 32)) as [|Hgt]; [assumption|exfalso].
    assert (A : 2 ^ 32 - 2 ^ lz <= block_start ub j - 1) by lia.
    assert (B : ~ (block_start ub j <= block_start ub j - 1)) by lia.
    rewrite <- (block_start_spec ub j (block_start ub j - 1) (proj1 Hub)) in B.
    assert (C : (2 ^ 32 - 2 ^ lz) * ub <= (block_start ub j - 1) * ub) by (apply Z.mul_le_mono_nonneg_r; lia).
    assert (D : j * 2 ^ 32 <= (ub - 1) * 2 ^ 32) by (apply Z.mul_le_mono_nonneg_r; lia).
    lia.
Qed.

Theorem u32_blocks_disjoint : forall ub j j' v, 0 < ub < 2 ^ 32 -> 0 <= j -> 0 <= j' ->
  block_start ub j <= v < block_start ub j + 2 ^ (32 - bitlen ub) ->
  block_start ub j' <= v < block_start ub j' + 2 ^ (32 - bitlen ub) -> 0 <= v < 2 ^ 32 -> j = j'.
Proof.
  intros ub j j' v Hub Hj Hj' B1 B2 Hv.
  apply (u32_attempt_block ub j v Hub Hv Hj) in B1. apply (u32_attempt_block ub j' v Hub Hv Hj') in B2.
  destruct B1 as [_ <-]. destruct B2 as [_ <-]. reflexivity.
Qed.

(* lifted to the sampler: a stream that starts with an accepting word returns that block's result and consumes
   exactly four bytes; a rejected word is discarded and the next one is tried. *)
Lemma take4 b0 b1 b2 b3 rest : take_n 4 (b0 :: b1 :: b2 :: b3 :: rest) = Ok ([b0; b1; b2; b3], rest).
Proof. reflexivity. Qed.

Theorem gen_index_first_word : forall f ub b0 b1 b2 b3 rest j, 0 < ub < 2 ^ 32 -> 0 <= j ->
  let v := le_int [b0; b1; b2; b3] in 0 <= v < 2 ^ 32 ->
  (block_start ub j <= v < block_start ub j + 2 ^ (32 - bitlen ub)) ->
  gen_index (S f) ub (b0 :: b1 :: b2 :: b3 :: rest) = Ok (j, rest).
Proof.
  intros f ub b0 b1 b2 b3 rest j Hub Hj v Hv Hb.
  apply (u32_attempt_block ub j v Hub Hv Hj) in Hb. destruct Hb as [Hacc Hres].
  cbn [gen_index]. rewrite take4. fold v. cbv zeta. rewrite Hacc, Hres. reflexivity.
Qed.
Print Assumptions gen_index_first_word.

Theorem gen_index_rejected_word : forall f ub b0 b1 b2 b3 rest, 0 < ub < 2 ^ 32 ->
  let v := le_int [b0; b1; b2; b3] in 0 <= v < 2 ^ 32 ->
  (forall j, 0 <= j < ub -> ~ (block_start ub j <= v < block_start ub j + 2 ^ (32 - bitlen ub))) ->
  gen_index (S f) ub (b0 :: b1 :: b2 :: b3 :: rest) = gen_index f ub rest.
Proof.
  intros f ub b0 b1 b2 b3 rest Hub v Hv Hno.
  cbn [gen_index]. rewrite take4. fold v. cbv zeta.
  destruct ((v * ub) mod 2 ^ 32 <=? u32_zone ub) eqn:Ez; [exfalso|reflexivity].
  set (j := v * ub / 2 ^ 32).
  assert (Hj : 0 <= j < ub).
  { subst j. split; [apply Z.div_pos; nia|]. apply Z.div_lt_upper_bound; nia. }
  apply (Hno j Hj). apply (u32_attempt_block ub j v Hub Hv (proj1 Hj)). split; [exact Ez|reflexivity].
Qed.

(* kernel-computed sanity: ubound = 3: lz = 30, three blocks of 2^30 words, 2^30 words rejected *)
Example u32_blocks_for_3 :
  map (block_start 3) [0; 1; 2] = [0; 1431655766; 2863311531] /\ 2 ^ (32 - bitlen 3) = 1073741824.
Proof. vm_compute. split; reflexivity. Qed.
