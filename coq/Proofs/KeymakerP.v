(* Proofs/KeymakerP.v — n-of-n distributed ElGamal (Model/Keymaker.v, property C08) and verifiable
   decryption (property C07) over any lawful backend and ANY hash function: the joint key is the product
   of the shares in any order, share proofs verify, joint decryption inverts encryption for every n >= 1
   and in any order, position-wise list form, what a missing factor does; batch verification of
   decryption factors is the conjunction of the single verifications, Chaum-Pedersen special soundness
   (one exponent for both equations), the extracted factor is THE decryption factor, and a false
   statement admits at most one challenge modulo q. *)
From Coq Require Import ZArith Znumtheory List Lia Bool Permutation.
From Strand Require Import Base.Fermat Model.Outcome Model.Codec Model.Backend Model.Zkp Model.Shuffler
  Model.Keymaker Proofs.Laws Proofs.ElgamalP Proofs.SigmaP Proofs.ListAlg Proofs.ShuffleP Proofs.Corollaries.
Import ListNotations.
Open Scope Z_scope.
Local Notation length := List.length.

(* ---------- backend-independent helpers ---------- *)
Lemma mapM_ext_in {A C} (f g : A -> outcome C) l :
  (forall x, In x l -> f x = g x) -> mapM f l = mapM g l.
Proof.
  induction l as [|a l IH]; intros H; [reflexivity|].
  cbn [mapM]. rewrite (H a) by (left; reflexivity).
  rewrite IH by (intros x Hx; apply H; right; exact Hx). reflexivity.
Qed.

Lemma mapM_total {A C} (f : A -> outcome C) (g : A -> C) l :
  (forall x, In x l -> f x = Ok (g x)) -> mapM f l = Ok (map g l).
Proof.
  induction l as [|a l IH]; intros H; [reflexivity|].
  cbn [mapM map]. rewrite (H a) by (left; reflexivity).
  rewrite IH by (intros x Hx; apply H; right; exact Hx). reflexivity.
Qed.

Lemma nth_error_combine {A C} (l1 : list A) (l2 : list C) k a b :
  nth_error l1 k = Some a -> nth_error l2 k = Some b -> nth_error (combine l1 l2) k = Some (a, b).
Proof.
  revert l2 k. induction l1 as [|x l1 IH]; intros l2 k H1 H2; destruct k as [|k]; destruct l2 as [|y l2];
    cbn [nth_error combine] in *; try discriminate.
  - injection H1 as ->. injection H2 as ->. reflexivity.
  - apply IH; assumption.
Qed.

Lemma forallb_nth_false {A} (f : A -> bool) l k a :
  nth_error l k = Some a -> f a = false -> forallb f l = false.
Proof.
  intros Hn Hf. destruct (forallb f l) eqn:E; [|reflexivity].
  rewrite forallb_forall in E. rewrite <- Hf. symmetry. apply E. eapply nth_error_In. exact Hn.
Qed.

Lemma in_combine_seq {A} (l : list A) s i c : In (i, c) (combine (seq s (length l)) l) -> (s <= i < s + length l)%nat.
Proof. intros H. apply in_combine_l in H. apply in_seq in H. exact H. Qed.

Section Km.
  Variable B : Backend.
  Variable mem : E B -> Prop.
  Hypothesis L : Laws B mem.
  Notation q := (b_q B).
  Notation mulp := (b_mulp B).
  Notation pow := (b_pow B).
  Notation gpow := (b_gpow B).
  Notation one := (b_one B).
  Notation g := (b_gen B).
  Notation prodp := (Shuffler.prodp B).
  Notation nonneg := (fun x : Z => 0 <= x).

  Let Hq : 1 < q := q_gt1 B mem L.

  Ltac memt :=
    repeat match goal with
      | |- mem (b_mulp _ _ _) => apply (mem_mulp B mem L)
      | |- mem (b_pow _ _ _) => apply (pow_mem B mem L)
      | |- mem (b_gpow _ _) => apply (ElgamalP.gpow_mem B mem L)
      | |- mem (b_one _) => apply (mem_one B mem L)
      | |- mem (b_gen _) => apply (mem_gen B mem L)
      | |- mem _ => assumption
      | |- 0 <= _ => first [assumption | lia | nia]
      end.

  (* ================= PART 1: n-of-n distributed keys (C08) ================= *)

  (* the accumulator loop `acc = first; acc = acc.mul(x).modp()` is the product of the whole list *)
  Lemma fold_prodp p0 rest : mem p0 -> Forall mem rest -> fold_left mulp rest p0 = prodp (p0 :: rest).
  Proof.
    intros H0 HF. rewrite (fold_mulp_acc B mem L) by assumption.
    symmetry. apply (prodp_cons B mem L); assumption.
  Qed.

  Lemma combine_pks_prodp pks : pks <> [] -> Forall mem pks -> combine_pks B pks = Ok (prodp pks).
  Proof.
    destruct pks as [|p0 rest]; [congruence|]. intros _ HF. inversion HF; subst.
    cbn [combine_pks]. f_equal. apply fold_prodp; assumption.
  Qed.

  Lemma perm_nonempty {A} (l l' : list A) : l <> [] -> Permutation l l' -> l' <> [].
  Proof. intros Hne HP E. subst l'. apply Permutation_sym, Permutation_nil in HP. contradiction. Qed.

  Theorem combine_pks_perm : forall pks pks', pks <> [] -> Forall mem pks -> Permutation pks pks' ->
    exists pk, combine_pks B pks = Ok pk /\ combine_pks B pks' = Ok pk /\ mem pk.
  Proof.
    intros pks pks' Hne HF HP. exists (prodp pks). split; [apply combine_pks_prodp; assumption|]. split.
    - rewrite combine_pks_prodp.
      + f_equal. symmetry. apply (prodp_perm B mem L); assumption.
      + eapply perm_nonempty; eassumption.
      + eapply perm_Forall; eassumption.
    - apply (prodp_mem B mem L); assumption.
  Qed.

  Lemma pow_map_mem b sks : mem b -> Forall nonneg sks -> Forall mem (map (pow b) sks).
  Proof. intros Hb HF. rewrite Forall_map. eapply Forall_impl; [|exact HF]. cbn. intros a Ha. memt. Qed.

  (* product of powers of one base = power to the sum *)
  Lemma prodp_pow b sks : mem b -> Forall nonneg sks -> prodp (map (pow b) sks) = pow b (zsum sks).
  Proof.
    intros Hb HF. induction HF as [|a l Ha Hl IH].
    - cbn [map zsum fold_right]. rewrite (prodp_nil B). symmetry. apply (pow_0 B mem L); exact Hb.
    - cbn [map]. rewrite (prodp_cons B mem L) by (memt; apply pow_map_mem; assumption).
      rewrite IH. cbn [zsum fold_right]. fold (zsum l).
      pose proof (zsum_nonneg l Hl). symmetry. apply (pow_add B mem L); assumption.
  Qed.

  Lemma map_nonempty {X Y} (f : X -> Y) l : l <> [] -> map f l <> [].
  Proof. destruct l; [congruence|discriminate]. Qed.

  Lemma combine_pks_zsum sks : sks <> [] -> Forall nonneg sks ->
    combine_pks B (map (pk_of_sk B) sks) = Ok (gpow (zsum sks)).
  Proof.
    intros Hne HF. change (map (pk_of_sk B) sks) with (map (pow g) sks).
    rewrite combine_pks_prodp.
    - f_equal. apply prodp_pow; [memt|exact HF].
    - apply map_nonempty; exact Hne.
    - apply pow_map_mem; [memt|exact HF].
  Qed.

  Theorem combine_pks_sum : forall sks, sks <> [] -> Forall (fun x => 0 <= x) sks ->
    combine_pks B (map (pk_of_sk B) sks) = Ok (gpow (fold_right Z.add 0 sks)).
  Proof. exact combine_pks_zsum. Qed.

  Theorem km_share_verifies : forall sk label r, 0 <= sk -> 0 <= r ->
    let '(pk, pf) := km_share B sk label r in km_verify_share B pk pf label = true.
  Proof.
    intros sk label r Hsk Hr. unfold km_share, km_verify_share. cbv zeta.
    apply (schnorr_complete B mem L sk None label r); [discriminate|assumption|assumption].
  Qed.

  Lemma joint_dec_prodp decs c : decs <> [] -> Forall mem decs ->
    joint_dec B decs c = bind (b_divp B (mhr c) (prodp decs)) (fun d => Ok (b_modp B d)).
  Proof.
    destruct decs as [|d0 rest]; [congruence|]. intros _ HF. inversion HF; subst.
    cbn [joint_dec]. rewrite fold_prodp by assumption. reflexivity.
  Qed.

  (* joint decryption with the factors of sks IS decryption under the sum of the sks *)
  Lemma joint_dec_factors sks c : sks <> [] -> Forall nonneg sks -> mem (gr c) ->
    joint_dec B (map (fun sk => decryption_factor B sk c) sks) c = decrypt B (zsum sks) c.
  Proof.
    intros Hne HF Hg. change (map (fun sk => decryption_factor B sk c) sks) with (map (pow (gr c)) sks).
    rewrite joint_dec_prodp; [|apply map_nonempty; exact Hne|apply pow_map_mem; assumption].
    rewrite prodp_pow by assumption. reflexivity.
  Qed.

  Theorem joint_dec_correct : forall sks m r pk, sks <> [] -> Forall (fun x => 0 <= x) sks -> 0 <= r -> mem m ->
    combine_pks B (map (pk_of_sk B) sks) = Ok pk ->
    let c := encrypt_with_randomness B pk m r in
    joint_dec B (map (fun sk => decryption_factor B sk c) sks) c = Ok m.
  Proof.
    intros sks m r pk Hne HF Hr Hm Hpk c.
    rewrite combine_pks_zsum in Hpk by assumption. injection Hpk as Hpk.
    pose proof (zsum_nonneg sks HF) as Hs.
    rewrite joint_dec_factors; [|assumption|assumption|].
    - subst c pk. apply (decrypt_encrypt B mem L); assumption.
    - subst c. cbn [encrypt_with_randomness gr]. memt.
  Qed.

  Theorem joint_dec_perm : forall decs decs' c, decs <> [] -> Forall mem decs -> mem (mhr c) -> Permutation decs decs' ->
    joint_dec B decs c = joint_dec B decs' c.
  Proof.
    intros decs decs' c Hne HF _ HP.
    rewrite (joint_dec_prodp decs) by assumption.
    rewrite (joint_dec_prodp decs');
      [|eapply perm_nonempty; eassumption|eapply perm_Forall; eassumption].
    rewrite (prodp_perm B mem L decs decs') by assumption. reflexivity.
  Qed.

  Theorem joint_dec_many_spec : forall (decs : list (list (E B))) cs,
    decs <> [] -> Forall (fun row => length row = length cs) decs ->
    joint_dec_many B decs cs =
    mapM (fun ic : nat * ctext B => joint_dec B (map (fun row => nth (fst ic) row one) decs) (snd ic))
         (combine (seq 0 (length cs)) cs).
  Proof.
    intros decs cs _ HF. unfold joint_dec_many. apply mapM_ext_in.
    intros [i c] Hin. cbn [fst snd]. apply in_combine_seq in Hin.
    rewrite (mapM_total _ (fun row => nth i row one)); [reflexivity|].
    intros row Hrow. rewrite Forall_forall in HF. specialize (HF row Hrow).
    rewrite (nth_error_nth' row one) by lia. reflexivity.
  Qed.

  Lemma zsum_app l1 l2 : zsum (l1 ++ l2) = zsum l1 + zsum l2.
  Proof. induction l1 as [|a l1 IH]; cbn [app zsum fold_right] in *; [reflexivity|]. fold (zsum (l1 ++ l2)) (zsum l1). lia. Qed.

  Lemma mulp_unit_iff m y : mem m -> mem y -> (mulp m y = m <-> y = one).
  Proof.
    intros Hm Hy. split; intros E.
    - apply (mulp_cancel_l B mem L m); [assumption|assumption|memt|].
      rewrite E. symmetry. apply (mulp_one_r B mem L); exact Hm.
    - subst y. apply (mulp_one_r B mem L); exact Hm.
  Qed.

  Theorem joint_dec_missing_factor : forall sks1 x sks2 m r pk, 0 <= x -> Forall (fun x => 0 <= x) (sks1 ++ sks2) ->
    sks1 ++ sks2 <> [] -> 0 <= r -> mem m ->
    combine_pks B (map (pk_of_sk B) (sks1 ++ x :: sks2)) = Ok pk ->
    let c := encrypt_with_randomness B pk m r in
    joint_dec B (map (fun sk => decryption_factor B sk c) (sks1 ++ sks2)) c = Ok (mulp m (pow (gr c) x)) /\
    (mulp m (pow (gr c) x) = m <-> pow (gr c) x = one).
  Proof.
    intros sks1 x sks2 m r pk Hx HF Hne Hr Hm Hpk c.
    assert (HF' : Forall nonneg (sks1 ++ x :: sks2)).
    { apply Forall_app in HF. destruct HF as [H1 H2]. apply Forall_app. split; [exact H1|]. constructor; assumption. }
    rewrite combine_pks_zsum in Hpk; [|destruct sks1; discriminate|exact HF'].
    injection Hpk as Hpk.
    set (S := zsum (sks1 ++ sks2)).
    assert (HS : 0 <= S) by (apply zsum_nonneg; exact HF).
    assert (ES : zsum (sks1 ++ x :: sks2) = S + x).
    { unfold S. rewrite !zsum_app. cbn [zsum fold_right]. fold (zsum sks2). lia. }
    rewrite ES in Hpk.
    assert (Hpkm : mem pk) by (subst pk; memt).
    destruct (enc_mem B mem L pk m r Hpkm Hm Hr) as [Hc1 Hc2]. fold c in Hc1, Hc2.
    assert (Hxm : mem (pow (gr c) x)) by memt.
    split; [|apply mulp_unit_iff; assumption].
    rewrite joint_dec_factors by assumption. fold S.
    destruct (decrypt_char B mem L S c Hc1 Hc2 HS) as (i & E & Hi & Hinv).
    rewrite E. f_equal.
    assert (HFm : mem (pow (gr c) S)) by memt.
    assert (Emhr : mhr c = mulp m (mulp (pow (gr c) S) (pow (gr c) x))).
    { subst c pk. cbn [encrypt_with_randomness mhr gr]. unfold b_gpow.
      fold (mulp m (pow (pow g (S + x)) r)). f_equal.
      rewrite !(pow_mul B mem L) by memt. rewrite <- (pow_add B mem L) by memt.
      f_equal. ring. }
    rewrite Emhr.
    rewrite (mulp_comm B mem L (pow (gr c) S) (pow (gr c) x)) by assumption.
    rewrite <- (mulp_assoc B mem L m) by assumption.
    apply (mulp_cancel_r B mem L); [memt|assumption|assumption|assumption].
  Qed.

  (* ================= PART 2: verifiable decryption (C07) ================= *)

  Theorem verify_decryption_factors_spec : forall pk cs decs proofs label,
    length decs = length proofs -> length decs = length cs ->
    verify_decryption_factors B pk cs decs proofs label =
    Ok (forallb (fun x : ctext B * (E B * cproof B) => let '(c, (d, pf)) := x in
                   verify_decryption B pk d (mhr c) (gr c) pf label) (combine cs (combine decs proofs))).
  Proof.
    intros pk cs decs proofs label H1 H2. unfold verify_decryption_factors.
    rewrite <- H1, <- H2, Nat.eqb_refl. reflexivity.
  Qed.

  Theorem verify_decryption_factors_one_bad : forall pk cs decs proofs label k c d pf,
    length decs = length proofs -> length decs = length cs ->
    nth_error cs k = Some c -> nth_error decs k = Some d -> nth_error proofs k = Some pf ->
    verify_decryption B pk d (mhr c) (gr c) pf label = false ->
    verify_decryption_factors B pk cs decs proofs label = Ok false.
  Proof.
    intros pk cs decs proofs label k c d pf H1 H2 Hc Hd Hp Hbad.
    rewrite verify_decryption_factors_spec by assumption. f_equal.
    apply (forallb_nth_false _ _ k (c, (d, pf))); [|exact Hbad].
    apply nth_error_combine; [exact Hc|]. apply nth_error_combine; assumption.
  Qed.

  (* extraction with the EXPLICIT exponent (t * e) mod q, which depends on (c1, s1, c2, s2, e) only and not
     on the base: the body of SigmaP.schnorr_special_soundness *)
  Lemma ss_extract base pub com c1 s1 c2 s2 e :
    mem base -> mem pub -> mem com -> 0 <= c1 -> 0 <= c2 -> 0 <= s1 -> 0 <= s2 -> 0 <= e ->
    (((c1 + (q - c2 mod q)) mod q) * e) mod q = 1 ->
    pow base s1 = mulp com (pow pub c1) ->
    pow base s2 = mulp com (pow pub c2) ->
    pub = pow base (((s1 + (q - s2 mod q)) * e) mod q).
  Proof.
    intros Hb Hp Hk Hc1 Hc2 Hs1 Hs2 He Hde E1 E2.
    set (d := (c1 + (q - c2 mod q)) mod q) in *.
    pose proof (Z.mod_pos_bound c2 q ltac:(lia)) as Hc2q.
    assert (Hdr : 0 <= d < q) by (apply Z.mod_pos_bound; lia).
    set (t := s1 + (q - s2 mod q)).
    pose proof (Z.mod_pos_bound s2 q ltac:(lia)) as Hs2q.
    assert (Hq_s2 : pow base (q - s2 mod q + s2) = one).
    { rewrite <- (pow_mod B mem L) by (auto; lia). rewrite negmod_cancel by lia.
      apply (pow_0 B mem L); exact Hb. }
    assert (Hq_c2 : pow pub (q - c2 mod q + c2) = one).
    { rewrite <- (pow_mod B mem L) by (auto; lia). rewrite negmod_cancel by lia.
      apply (pow_0 B mem L); exact Hp. }
    assert (Hpc1 : mem (pow pub c1)) by (apply (pow_mem B mem L); assumption).
    assert (Hpc2 : mem (pow pub c2)) by (apply (pow_mem B mem L); assumption).
    assert (Hbt : pow base t = pow pub d).
    { unfold d. rewrite (pow_mod B mem L) by (auto; lia). unfold t.
      apply (mulp_cancel_l B mem L (mulp com (pow pub c2))).
      - apply (mem_mulp B mem L); assumption.
      - apply (pow_mem B mem L); [assumption|lia].
      - apply (pow_mem B mem L); [assumption|lia].
      - rewrite <- E2 at 1.
        rewrite <- (pow_add B mem L) by (auto; lia).
        replace (s2 + (s1 + (q - s2 mod q))) with (s1 + (q - s2 mod q + s2)) by lia.
        rewrite (pow_add B mem L) by (auto; lia). rewrite Hq_s2.
        rewrite (mulp_one_r B mem L) by (apply (pow_mem B mem L); assumption).
        rewrite E1.
        rewrite (mulp_assoc B mem L) by (first [assumption | apply (pow_mem B mem L); [assumption|lia]]).
        rewrite <- (pow_add B mem L) by (auto; lia).
        replace (c2 + (c1 + (q - c2 mod q))) with (c1 + (q - c2 mod q + c2)) by lia.
        rewrite (pow_add B mem L) by (auto; lia). rewrite Hq_c2.
        rewrite (mulp_one_r B mem L) by assumption. reflexivity. }
    rewrite (pow_mod B mem L) by (auto; nia).
    rewrite <- (pow_mul B mem L) by (auto; lia).
    rewrite Hbt. rewrite (pow_mul B mem L) by (auto; lia).
    rewrite (pow_congr B mem L pub (d * e) 1) by (auto; try nia; rewrite Hde; symmetry; apply Z.mod_small; lia).
    symmetry. apply (pow_1 B mem L); assumption.
  Qed.

  Theorem cp_special_soundness : prime q -> forall g1 g2 pub1 pub2 k1 k2 c1 s1 c2 s2,
    mem g1 -> mem g2 -> mem pub1 -> mem pub2 -> mem k1 -> mem k2 ->
    0 <= c1 -> 0 <= c2 -> 0 <= s1 -> 0 <= s2 -> c1 mod q <> c2 mod q ->
    pow g1 s1 = mulp k1 (pow pub1 c1) -> pow g2 s1 = mulp k2 (pow pub2 c1) ->
    pow g1 s2 = mulp k1 (pow pub1 c2) -> pow g2 s2 = mulp k2 (pow pub2 c2) ->
    exists x, 0 <= x < q /\ pub1 = pow g1 x /\ pub2 = pow g2 x.
  Proof.
    intros q_prime g1 g2 pub1 pub2 k1 k2 c1 s1 c2 s2 Hg1 Hg2 Hp1 Hp2 Hk1 Hk2 Hc1 Hc2 Hs1 Hs2 Hd E11 E21 E12 E22.
    set (d := (c1 + (q - c2 mod q)) mod q).
    pose proof (Z.mod_pos_bound c2 q ltac:(lia)) as Hc2q.
    assert (Hdr : 0 <= d < q) by (apply Z.mod_pos_bound; lia).
    assert (Hd0 : ~ (q | d)).
    { intro Hdiv. apply Z.mod_divide in Hdiv; [|lia]. rewrite Z.mod_small in Hdiv by lia.
      apply Hd. apply submod_zero; [lia|exact Hdiv]. }
    destruct (inv_mod_prime q d q_prime Hd0) as (e & He & Hde).
    exists (((s1 + (q - s2 mod q)) * e) mod q).
    split; [apply Z.mod_pos_bound; lia|]. split.
    - apply (ss_extract g1 pub1 k1 c1 s1 c2 s2 e); try assumption; lia.
    - apply (ss_extract g2 pub2 k2 c1 s1 c2 s2 e); try assumption; lia.
  Qed.

  Theorem extracted_factor_decrypts : forall x c f, 0 <= x -> mem (mhr c) -> mem (gr c) ->
    f = pow (gr c) x ->
    exists d, decrypt B x c = Ok d /\ (exists i, b_invp B f = Ok i /\ d = mulp (mhr c) i).
  Proof.
    intros x c f Hx Hm Hg ->.
    assert (Hf : mem (pow (gr c) x)) by memt.
    destruct (invp_ok B mem L _ Hf) as (i & Ei & Hi & Hinv).
    exists (mulp (mhr c) i). split.
    - unfold decrypt, b_divp. rewrite Ei. reflexivity.
    - exists i. split; [exact Ei|reflexivity].
  Qed.

  Theorem cp_false_statement_one_challenge : prime q -> forall g1 g2 x pub2 k1 k2 c1 s1 c2 s2,
    mem g1 -> mem g2 -> g1 <> one -> mem pub2 -> mem k1 -> mem k2 -> 0 <= x ->
    pub2 <> pow g2 x ->
    0 <= c1 -> 0 <= c2 -> 0 <= s1 -> 0 <= s2 ->
    pow g1 s1 = mulp k1 (pow (pow g1 x) c1) -> pow g2 s1 = mulp k2 (pow pub2 c1) ->
    pow g1 s2 = mulp k1 (pow (pow g1 x) c2) -> pow g2 s2 = mulp k2 (pow pub2 c2) ->
    c1 mod q = c2 mod q.
  Proof.
    intros q_prime g1 g2 x pub2 k1 k2 c1 s1 c2 s2 Hg1 Hg2 Hne Hp2 Hk1 Hk2 Hx Hfalse Hc1 Hc2 Hs1 Hs2 E11 E21 E12 E22.
    destruct (Z.eq_dec (c1 mod q) (c2 mod q)) as [|Hd]; [assumption|exfalso].
    assert (Hp1 : mem (pow g1 x)) by memt.
    destruct (cp_special_soundness q_prime g1 g2 (pow g1 x) pub2 k1 k2 c1 s1 c2 s2
                Hg1 Hg2 Hp1 Hp2 Hk1 Hk2 Hc1 Hc2 Hs1 Hs2 Hd E11 E21 E12 E22) as (x' & Hx' & Ex1 & Ex2).
    apply Hfalse. rewrite Ex2. apply (pow_congr B mem L); [assumption|lia|assumption|].
    symmetry. apply (pow_inj B mem L q_prime g1 x x'); try assumption; lia.
  Qed.
End Km.

Print Assumptions combine_pks_perm.
Print Assumptions combine_pks_sum.
Print Assumptions km_share_verifies.
Print Assumptions joint_dec_correct.
Print Assumptions joint_dec_perm.
Print Assumptions joint_dec_many_spec.
Print Assumptions joint_dec_missing_factor.
Print Assumptions verify_decryption_factors_spec.
Print Assumptions verify_decryption_factors_one_bad.
Print Assumptions cp_special_soundness.
Print Assumptions extracted_factor_decrypts.
Print Assumptions cp_false_statement_one_challenge.
