(* Proofs/ElgamalP.v — ElGamal over any backend satisfying the laws: decrypt inverts encrypt, the
   exponential variant, determinism is definitional, homomorphic product. *)
From Coq Require Import ZArith List Lia.
From Strand Require Import Model.Outcome Model.Codec Model.Backend Model.Zkp Proofs.Laws.
Open Scope Z_scope.

Section Elgamal.
  Variable B : Backend.
  Variable mem : E B -> Prop.
  Hypothesis L : Laws B mem.
  Notation mulp := (b_mulp B).
  Notation pow := (b_pow B).
  Notation g := (b_gen B).

  Lemma gpow_mem x : 0 <= x -> mem (b_gpow B x).
  Proof. intro Hx. apply (pow_mem B mem L); [apply (mem_gen B mem L)|exact Hx]. Qed.

  Lemma enc_mem pk m r : mem pk -> mem m -> 0 <= r ->
    mem (mhr (encrypt_with_randomness B pk m r)) /\ mem (gr (encrypt_with_randomness B pk m r)).
  Proof.
    intros Hpk Hm Hr. cbn [encrypt_with_randomness mhr gr]. split.
    - apply (mem_mulp B mem L); [exact Hm|]. apply (pow_mem B mem L); assumption.
    - apply gpow_mem; exact Hr.
  Qed.

  (* decrypt on member components: mhr * (gr^sk)^-1, with the inverse characterised by its law *)
  Lemma decrypt_char sk c : mem (mhr c) -> mem (gr c) -> 0 <= sk ->
    exists i, decrypt B sk c = Ok (mulp (mhr c) i) /\ mem i /\ mulp (pow (gr c) sk) i = b_one B.
  Proof.
    intros Hm Hg Hsk. unfold decrypt, b_divp.
    assert (Hf : mem (pow (gr c) sk)) by (apply (pow_mem B mem L); assumption).
    destruct (invp_ok B mem L _ Hf) as (i & Ei & Hi & Hinv).
    exists i. rewrite Ei. cbn [bind]. split; [reflexivity|]. split; assumption.
  Qed.

  Theorem decrypt_encrypt sk m r : 0 <= sk -> 0 <= r -> mem m ->
    decrypt B sk (encrypt_with_randomness B (pk_of_sk B sk) m r) = Ok m.
  Proof.
    intros Hsk Hr Hm.
    set (c := encrypt_with_randomness B (pk_of_sk B sk) m r).
    assert (Hpk : mem (pk_of_sk B sk)) by (apply gpow_mem; exact Hsk).
    destruct (enc_mem (pk_of_sk B sk) m r Hpk Hm Hr) as [Hc1 Hc2]. fold c in Hc1, Hc2.
    destruct (decrypt_char sk c Hc1 Hc2 Hsk) as (i & E & Hi & Hinv).
    rewrite E. f_equal.
    subst c. cbn [encrypt_with_randomness mhr gr] in *. unfold pk_of_sk, b_gpow in *.
    assert (Hg : mem g) by apply (mem_gen B mem L).
    rewrite (pow_mul B mem L) in Hinv by assumption.
    rewrite (pow_mul B mem L) by assumption.
    rewrite (Z.mul_comm sk r).
    fold mulp.
    assert (Hh : mem (pow g (r * sk))) by (apply (pow_mem B mem L); [assumption|nia]).
    change (b_modp B (b_mul B m (pow g (r * sk)))) with (mulp m (pow g (r * sk))).
    rewrite (mulp_assoc B mem L) by assumption.
    rewrite Hinv. apply (mulp_one_r B mem L); assumption.
  Qed.

  Corollary decrypt_encrypt_exponential sk k r : 0 <= sk -> 0 <= r -> 0 <= k ->
    decrypt B sk (encrypt_exponential B (pk_of_sk B sk) k r) = Ok (b_gpow B k).
  Proof. intros. unfold encrypt_exponential. apply decrypt_encrypt; auto. apply gpow_mem; assumption. Qed.

  (* component-wise product of ciphertexts decrypts to the product of the plaintexts *)
  Theorem decrypt_ct_mul sk c1 c2 d1 d2 :
    mem (mhr c1) -> mem (gr c1) -> mem (mhr c2) -> mem (gr c2) -> 0 <= sk ->
    decrypt B sk c1 = Ok d1 -> decrypt B sk c2 = Ok d2 ->
    decrypt B sk (ct_mul B c1 c2) = Ok (mulp d1 d2).
  Proof.
    intros Hm1 Hg1 Hm2 Hg2 Hsk E1 E2.
    destruct (decrypt_char sk c1 Hm1 Hg1 Hsk) as (i1 & D1 & Hi1 & V1).
    destruct (decrypt_char sk c2 Hm2 Hg2 Hsk) as (i2 & D2 & Hi2 & V2).
    rewrite D1 in E1. rewrite D2 in E2. injection E1 as <-. injection E2 as <-.
    assert (Hm : mem (mhr (ct_mul B c1 c2))) by (cbn; apply (mem_mulp B mem L); assumption).
    assert (Hg : mem (gr (ct_mul B c1 c2))) by (cbn; apply (mem_mulp B mem L); assumption).
    destruct (decrypt_char sk _ Hm Hg Hsk) as (i & D & Hi & V).
    rewrite D. f_equal. cbn [ct_mul mhr gr] in *.
    assert (Hf1 : mem (pow (gr c1) sk)) by (apply (pow_mem B mem L); assumption).
    assert (Hf2 : mem (pow (gr c2) sk)) by (apply (pow_mem B mem L); assumption).
    (* i = i1 * i2 by uniqueness of inverses *)
    assert (Ei : i = mulp i1 i2).
    { rewrite (pow_mulp B mem L) in V by assumption.
      apply (inv_unique B mem L (mulp (pow (gr c1) sk) (pow (gr c2) sk))); auto.
      - apply (mem_mulp B mem L); assumption.
      - apply (mem_mulp B mem L); assumption.
      - rewrite (mulp_assoc B mem L) by (auto; apply (mem_mulp B mem L); assumption).
        rewrite <- (mulp_assoc B mem L (pow (gr c2) sk)) by assumption.
        rewrite (mulp_comm B mem L (pow (gr c2) sk) i1) by assumption.
        rewrite (mulp_assoc B mem L i1) by assumption.
        rewrite V2. rewrite (mulp_one_r B mem L) by assumption. exact V1. }
    subst i.
    rewrite (mulp_assoc B mem L (mhr c1) (mhr c2)) by (auto; apply (mem_mulp B mem L); assumption).
    rewrite <- (mulp_assoc B mem L (mhr c2) i1 i2) by assumption.
    rewrite (mulp_comm B mem L (mhr c2) i1) by assumption.
    rewrite (mulp_assoc B mem L i1 (mhr c2) i2) by assumption.
    rewrite <- (mulp_assoc B mem L (mhr c1) i1) by (auto; apply (mem_mulp B mem L); assumption).
    reflexivity.
  Qed.
End Elgamal.
