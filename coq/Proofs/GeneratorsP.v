(* Proofs/GeneratorsP.v — the FIPS 186-4 A.2.3 style generator derivation of Model/ZBackend.v
   (gen_try / generators_from / generators): prefix stability, length, per-index independence, validity
   (members of the order-q subgroup, >= 2), never Err, and the documented shape of the hashed buffer.
   [sha512] is treated as an arbitrary function bytes -> bytes: nothing here unfolds it (except the two
   kernel-computed examples at the end). *)
From Coq Require Import ZArith Znumtheory Zpow_facts List Lia Bool.
From Strand Require Import Base.ZUtil Base.Fermat Model.Outcome Model.Codec Model.Sha512 Model.Backend
  Model.ZBackend Proofs.ZLaws Proofs.ZInst.
Import ListNotations.
Open Scope Z_scope.

(* the bytes appended by retries count+1 .. count+n for one index *)
Definition cnt_bytes (index count : Z) (n : nat) : bytes :=
  flat_map (fun k => u64le index ++ u64le k) (map (fun j => count + Z.of_nat j) (seq 1 n)).

Lemma cnt_bytes_0 index count : cnt_bytes index count 0 = [].
Proof. reflexivity. Qed.

Lemma cnt_bytes_S index count n :
  cnt_bytes index count (S n) = (u64le index ++ u64le (count + 1)) ++ cnt_bytes index (count + 1) n.
Proof.
  unfold cnt_bytes.
  change (seq 1 (S n)) with (1%nat :: seq 2 n).
  rewrite <- (seq_shift n 1).
  rewrite map_cons, map_map. cbn [flat_map].
  change (Z.of_nat 1) with 1.
  f_equal. f_equal.
  apply map_ext. intro j. lia.
Qed.

Section Gen.
  Variable K : Kernel.
  Variable fl : flavor.
  Variable P : Params.
  Notation p := (p_p P).
  Notation q := (p_q P).

  (* the candidate computed from a buffer *)
  Definition cand (buf : bytes) : Z := k_powm K (z_hash_to_element K fl P buf) (p_cof P) p.

  (* ---------- unfolding equations ---------- *)
  Lemma gen_try_O buf index count : gen_try K fl P 0 buf index count = Panic.
  Proof. reflexivity. Qed.

  Lemma gen_try_S f buf index count :
    gen_try K fl P (S f) buf index count =
    if cand (buf ++ u64le index ++ u64le (count + 1)) >=? 2
    then Ok (cand (buf ++ u64le index ++ u64le (count + 1)), buf ++ u64le index ++ u64le (count + 1))
    else gen_try K fl P f (buf ++ u64le index ++ u64le (count + 1)) index (count + 1).
  Proof. reflexivity. Qed.

  Lemma gf_O pre idx : generators_from K fl P 0 pre idx = Ok [].
  Proof. reflexivity. Qed.

  Lemma gf_S n pre idx :
    generators_from K fl P (S n) pre idx =
    match gen_try K fl P 64 pre (idx + 1) 0 with
    | Ok (g, _) => match generators_from K fl P n pre (idx + 1) with
                   | Ok l => Ok (g :: l) | Err => Err | Panic => Panic end
    | Err => Err | Panic => Panic
    end.
  Proof. reflexivity. Qed.

  Lemma gf_S_inv n pre idx l :
    generators_from K fl P (S n) pre idx = Ok l ->
    exists g buf l', gen_try K fl P 64 pre (idx + 1) 0 = Ok (g, buf) /\
                     generators_from K fl P n pre (idx + 1) = Ok l' /\ l = g :: l'.
  Proof.
    rewrite gf_S. intro H.
    destruct (gen_try K fl P 64 pre (idx + 1) 0) as [[g buf]| |]; try discriminate.
    destruct (generators_from K fl P n pre (idx + 1)) as [l'| |]; try discriminate.
    injection H as <-. exists g, buf, l'. repeat split.
  Qed.

  (* ---------- gen_try: never Err ---------- *)
  Lemma gen_try_not_err fuel : forall buf index count, gen_try K fl P fuel buf index count <> Err.
  Proof.
    induction fuel as [|f IH]; intros buf index count.
    - rewrite gen_try_O. discriminate.
    - rewrite gen_try_S.
      destruct (cand (buf ++ u64le index ++ u64le (count + 1)) >=? 2).
      + discriminate.
      + apply IH.
  Qed.

  Lemma gf_not_err n : forall pre idx, generators_from K fl P n pre idx <> Err.
  Proof.
    induction n as [|n IH]; intros pre idx.
    - rewrite gf_O. discriminate.
    - rewrite gf_S.
      pose proof (gen_try_not_err 64 pre (idx + 1) 0) as Hg.
      destruct (gen_try K fl P 64 pre (idx + 1) 0) as [[g buf]| |]; [|contradiction|discriminate].
      pose proof (IH pre (idx + 1)) as Hr.
      destruct (generators_from K fl P n pre (idx + 1)) as [l'| |]; [discriminate|contradiction|discriminate].
  Qed.

  (* ---------- gen_try: the documented derivation (core form, retries counted in nat) ---------- *)
  Lemma gen_try_core fuel : forall buf index count g buf',
    gen_try K fl P fuel buf index count = Ok (g, buf') ->
    exists m : nat, (1 <= m <= fuel)%nat /\
      buf' = buf ++ cnt_bytes index count m /\
      g = cand buf' /\ 2 <= g /\
      (forall j : nat, (1 <= j < m)%nat -> cand (buf ++ cnt_bytes index count j) < 2).
  Proof.
    induction fuel as [|f IH]; intros buf index count g buf' H.
    - rewrite gen_try_O in H. discriminate.
    - rewrite gen_try_S in H.
      destruct (cand (buf ++ u64le index ++ u64le (count + 1)) >=? 2) eqn:Hc.
      + injection H as <- <-. exists 1%nat.
        rewrite cnt_bytes_S, cnt_bytes_0, app_nil_r.
        apply Z.geb_le in Hc.
        split; [lia|]. split; [reflexivity|]. split; [reflexivity|]. split; [exact Hc|].
        intros j Hj. lia.
      + apply IH in H. destruct H as [m [Hm [Hbuf [Hg [Hg2 Hrej]]]]].
        exists (S m). split; [lia|]. split; [|split; [exact Hg|split; [exact Hg2|]]].
        * rewrite Hbuf, cnt_bytes_S, <- !app_assoc. reflexivity.
        * intros j Hj. destruct j as [|j]; [lia|].
          rewrite cnt_bytes_S.
          destruct j as [|j].
          -- rewrite cnt_bytes_0, app_nil_r.
             rewrite Z.geb_leb in Hc. apply Z.leb_gt in Hc. exact Hc.
          -- specialize (Hrej (S j) ltac:(lia)).
             rewrite <- !app_assoc in Hrej. rewrite <- !app_assoc. exact Hrej.
  Qed.

  Lemma cand_spec buf : p <> 0 -> cand buf = (z_hash_to_element K fl P buf) ^ (p_cof P) mod p.
  Proof. intro Hp. unfold cand. rewrite k_powm_ok, powm_spec by exact Hp. reflexivity. Qed.

  (* ---------- generators_from ---------- *)
  Lemma gf_length n : forall pre idx l, generators_from K fl P n pre idx = Ok l -> length l = n.
  Proof.
    induction n as [|n IH]; intros pre idx l H.
    - rewrite gf_O in H. injection H as <-. reflexivity.
    - apply gf_S_inv in H. destruct H as [g [buf [l' [_ [Hr ->]]]]].
      cbn [length]. f_equal. eapply IH. exact Hr.
  Qed.

  Lemma gf_prefix n : forall k pre idx l, (k <= n)%nat ->
    generators_from K fl P n pre idx = Ok l -> generators_from K fl P k pre idx = Ok (firstn k l).
  Proof.
    induction n as [|n IH]; intros k pre idx l Hk H.
    - assert (k = 0)%nat as -> by lia. rewrite gf_O. reflexivity.
    - destruct k as [|k]; [rewrite gf_O; reflexivity|].
      apply gf_S_inv in H. destruct H as [g [buf [l' [Hg [Hr ->]]]]].
      rewrite gf_S, Hg. rewrite (IH k pre (idx + 1) l' ltac:(lia) Hr).
      reflexivity.
  Qed.

  Lemma gf_nth n : forall pre idx l i, generators_from K fl P n pre idx = Ok l -> (i < n)%nat ->
    exists g buf, gen_try K fl P 64 pre (idx + Z.of_nat i + 1) 0 = Ok (g, buf) /\ nth_error l i = Some g.
  Proof.
    induction n as [|n IH]; intros pre idx l i H Hi; [lia|].
    apply gf_S_inv in H. destruct H as [g [buf [l' [Hg [Hr ->]]]]].
    destruct i as [|i].
    - exists g, buf. split; [|reflexivity].
      replace (idx + Z.of_nat 0 + 1) with (idx + 1) by lia. exact Hg.
    - destruct (IH pre (idx + 1) l' i Hr ltac:(lia)) as [g' [buf' [Hg' Hn]]].
      exists g', buf'. split; [|exact Hn].
      replace (idx + Z.of_nat (S i) + 1) with (idx + 1 + Z.of_nat i + 1) by lia. exact Hg'.
  Qed.

  (* every accepted candidate is a member >= 2 *)
  Lemma cand_member buf : SafePrime P -> 2 <= cand buf -> member P (cand buf).
  Proof.
    intros S Hge.
    pose proof (sp_good P S) as G. pose proof (gp_p P G) as Hp. pose proof (gp_q P G) as Hq.
    rewrite cand_spec in * by lia. rewrite (sp_cof P S) in *.
    set (e := z_hash_to_element K fl P buf) in *.
    split.
    - pose proof (Z.mod_pos_bound (e ^ 2) p ltac:(lia)). lia.
    - apply square_member; [exact (sp_p P S)|exact (sp_rel P S)|lia|].
      intros [c Hc].
      assert (Hz : e ^ 2 mod p = 0).
      { rewrite Hc. replace ((c * p) ^ 2) with ((c * c * p) * p) by ring. apply Z_mod_mult. }
      lia.
  Qed.

  Lemma gen_try_valid fuel buf index count g buf' : SafePrime P ->
    gen_try K fl P fuel buf index count = Ok (g, buf') -> member P g /\ 2 <= g.
  Proof.
    intros S H. apply gen_try_core in H. destruct H as [m [_ [_ [Hg [Hg2 _]]]]].
    split; [|exact Hg2]. rewrite Hg. apply cand_member; [exact S|]. rewrite <- Hg. exact Hg2.
  Qed.

  Lemma gf_valid n : SafePrime P -> forall pre idx l, generators_from K fl P n pre idx = Ok l ->
    Forall (fun g => member P g /\ 2 <= g) l.
  Proof.
    intro S. induction n as [|n IH]; intros pre idx l H.
    - rewrite gf_O in H. injection H as <-. constructor.
    - apply gf_S_inv in H. destruct H as [g [buf [l' [Hg [Hr ->]]]]].
      constructor; [eapply gen_try_valid; eassumption|eapply IH; exact Hr].
  Qed.
End Gen.

(* ================= the theorems ================= *)

(* prefix stability: the first k of n are the k-list; whenever the longer derivation succeeds so does the shorter *)
Theorem generators_prefix_stable : forall K fl P (n k : nat) seed l, (k <= n)%nat ->
  generators K fl P n seed = Ok l -> generators K fl P k seed = Ok (firstn k l).
Proof. intros K fl P n k seed l Hk H. unfold generators in *. eapply gf_prefix; eassumption. Qed.
Print Assumptions generators_prefix_stable.

Theorem generators_length : forall K fl P n seed l, generators K fl P n seed = Ok l -> length l = n.
Proof. intros K fl P n seed l H. unfold generators in H. eapply gf_length; exact H. Qed.
Print Assumptions generators_length.

(* the i-th generator depends only on (seed, i): it is gen_try on the prefix with index i+1 *)
Theorem generators_nth : forall K fl P n seed l i, generators K fl P n seed = Ok l -> (i < n)%nat ->
  exists g buf, gen_try K fl P 64 (seed ++ [103; 103; 101; 110]) (Z.of_nat i + 1) 0 = Ok (g, buf) /\ nth_error l i = Some g.
Proof.
  intros K fl P n seed l i H Hi. unfold generators in H.
  destruct (gf_nth K fl P n _ _ l i H Hi) as [g [buf [Hg Hn]]].
  exists g, buf. split; [|exact Hn]. rewrite Z.add_0_l in Hg. exact Hg.
Qed.
Print Assumptions generators_nth.

(* validity: every derived generator is a member of the order-q subgroup and is >= 2 (so not the identity) *)
Theorem generators_valid : forall K fl P, SafePrime P -> forall n seed l,
  generators K fl P n seed = Ok l -> Forall (fun g => member P g /\ 2 <= g) l.
Proof. intros K fl P S n seed l H. unfold generators in H. eapply gf_valid; eassumption. Qed.
Print Assumptions generators_valid.

(* never an error: the derivation either succeeds or exhausts the model's fuel (Panic) *)
Theorem generators_not_err : forall K fl P n seed, generators K fl P n seed <> Err.
Proof. intros K fl P n seed. unfold generators. apply gf_not_err. Qed.
Print Assumptions generators_not_err.

(* documented derivation. The accepted g is (int(SHA512(buf')) mod p)^cofactor mod p where buf' is the input
   buffer followed by the (index, k) pairs for k = count+1 .. c (c > count); g >= 2; and every earlier retry
   (buffer ending at the pair for c', count < c' < c) produced a candidate < 2 and was rejected. *)
Theorem gen_try_spec : forall K fl P, p_p P <> 0 -> forall fuel buf index count g buf',
  gen_try K fl P fuel buf index count = Ok (g, buf') ->
  exists c, count < c <= count + Z.of_nat fuel /\
    buf' = buf ++ flat_map (fun k => u64le index ++ u64le k)
                           (map (fun j => count + Z.of_nat j) (seq 1 (Z.to_nat (c - count)))) /\
    g = (z_hash_to_element K fl P buf') ^ (p_cof P) mod p_p P /\ 2 <= g /\
    (forall c', count < c' < c ->
       (z_hash_to_element K fl P
          (buf ++ flat_map (fun k => u64le index ++ u64le k)
                           (map (fun j => count + Z.of_nat j) (seq 1 (Z.to_nat (c' - count))))))
       ^ (p_cof P) mod p_p P < 2).
Proof.
  intros K fl P Hp fuel buf index count g buf' H.
  apply gen_try_core in H. destruct H as [m [Hm [Hbuf [Hg [Hg2 Hrej]]]]].
  exists (count + Z.of_nat m).
  replace (count + Z.of_nat m - count) with (Z.of_nat m) by lia. rewrite Nat2Z.id.
  split; [lia|]. split; [exact Hbuf|]. split; [rewrite Hg; apply cand_spec; exact Hp|].
  split; [exact Hg2|].
  intros c' Hc'. rewrite <- cand_spec by exact Hp.
  specialize (Hrej (Z.to_nat (c' - count)) ltac:(lia)). exact Hrej.
Qed.
Print Assumptions gen_try_spec.

(* the same, with the nat retry counter and [cnt_bytes] (no hypothesis on p: stated on the kernel call) *)
Theorem gen_try_spec_nat : forall K fl P fuel buf index count g buf',
  gen_try K fl P fuel buf index count = Ok (g, buf') ->
  exists m : nat, (1 <= m <= fuel)%nat /\
    buf' = buf ++ cnt_bytes index count m /\
    g = k_powm K (z_hash_to_element K fl P buf') (p_cof P) (p_p P) /\ 2 <= g /\
    (forall j : nat, (1 <= j < m)%nat ->
       k_powm K (z_hash_to_element K fl P (buf ++ cnt_bytes index count j)) (p_cof P) (p_p P) < 2).
Proof. intros K fl P fuel buf index count g buf' H. apply gen_try_core in H. exact H. Qed.
Print Assumptions gen_try_spec_nat.

(* ================= kernel-computed facts about concrete inputs ================= *)

Fixpoint nodupb (l : list Z) : bool :=
  match l with
  | [] => true
  | x :: r => negb (existsb (Z.eqb x) r) && nodupb r
  end.

Lemma nodupb_sound l : nodupb l = true -> NoDup l.
Proof.
  induction l as [|x r IH]; intro H; [constructor|].
  cbn [nodupb] in H. apply andb_true_iff in H. destruct H as [Hx Hr].
  constructor; [|apply IH; exact Hr].
  intro Hin. apply negb_true_iff in Hx.
  assert (existsb (Z.eqb x) r = true) as E.
  { apply existsb_exists. exists x. split; [exact Hin|apply Z.eqb_refl]. }
  congruence.
Qed.

Definition P2039 : Params := {| p_p := 2039; p_q := 1019; p_g := 4; p_cof := 2 |}.

(* the 50 derived generators for the empty seed, as computed by the kernel (one vm_compute per flavor) *)
Definition gens50_bigint : list Z :=
  [271; 1856; 1350; 1606; 1619; 1603; 727; 917; 580; 1838; 809; 1998;
   318; 256; 1240; 833; 661; 921; 318; 808; 1645; 1334; 680; 1645; 1922;
   841; 1116; 596; 1127; 1973; 1600; 454; 1455; 370; 1696; 1068; 1590;
   48; 1420; 1829; 983; 271; 885; 411; 908; 1747; 1155; 1840; 1068; 1165].

Definition gens50_malachite : list Z :=
  [1258; 1233; 267; 1097; 1717; 1110; 106; 546; 360; 809; 1309; 1820;
   1494; 1742; 1147; 1899; 273; 167; 1657; 136; 885; 710; 1352; 1898;
   287; 1674; 1409; 552; 174; 1350; 1638; 215; 1700; 1088; 640; 1125;
   1091; 427; 533; 1605; 645; 1969; 664; 180; 715; 722; 1597; 877; 938; 1661].

Example gens50_bigint_ok : generators K_ref Bigint P2039 50 [] = Ok gens50_bigint.
Proof. vm_compute. reflexivity. Qed.

Example gens50_malachite_ok : generators K_ref Malachite P2039 50 [] = Ok gens50_malachite.
Proof. vm_compute. reflexivity. Qed.

(* (1) pairwise distinct: TRUE for the malachite flavor ... *)
Example gens50_malachite_nodup : forall l, generators K_ref Malachite P2039 50 [] = Ok l -> NoDup l.
Proof.
  intros l H. rewrite gens50_malachite_ok in H. injection H as <-.
  apply nodupb_sound. vm_compute. reflexivity.
Qed.

(* ... and FALSE for the bigint flavor: the generators with index 13 and 19 (positions 12 and 18) are both 318
   (also 271 at positions 0/41, 1645 at 20/23, 1068 at 35/48). The subgroup has only 1019 elements, so a
   collision among 50 hash-derived elements is the expected birthday behaviour, not a defect of the derivation. *)
Example gens50_bigint_collision : forall l, generators K_ref Bigint P2039 50 [] = Ok l ->
  nth_error l 12 = Some 318 /\ nth_error l 18 = Some 318.
Proof.
  intros l H. rewrite gens50_bigint_ok in H. injection H as <-. split; reflexivity.
Qed.

Example gens50_bigint_not_nodup : forall l, generators K_ref Bigint P2039 50 [] = Ok l -> ~ NoDup l.
Proof.
  intros l H Hnd. pose proof (generators_length _ _ _ _ _ _ H) as Hlen.
  destruct (gens50_bigint_collision l H) as [H12 H18].
  rewrite NoDup_nth_error in Hnd.
  specialize (Hnd 12%nat 18%nat ltac:(lia) ltac:(congruence)). discriminate.
Qed.

(* the longest duplicate-free prefix in the bigint flavor has 18 elements *)
Example gens18_bigint_nodup : forall l, generators K_ref Bigint P2039 18 [] = Ok l -> NoDup l.
Proof.
  intros l H.
  rewrite (generators_prefix_stable _ _ _ 50 18 [] _ ltac:(lia) gens50_bigint_ok) in H. injection H as <-.
  apply nodupb_sound. vm_compute. reflexivity.
Qed.

(* (2) none of the 50 equals the standard generator 4, in either flavor *)
Example gens50_not_g : forall fl l, generators K_ref fl P2039 50 [] = Ok l -> ~ In (p_g P2039) l.
Proof.
  intros fl l H Hin.
  assert (existsb (Z.eqb (p_g P2039)) l = true) as E.
  { apply existsb_exists. exists (p_g P2039). split; [exact Hin|apply Z.eqb_refl]. }
  destruct fl.
  - rewrite gens50_bigint_ok in H. injection H as <-. vm_compute in E. discriminate.
  - rewrite gens50_malachite_ok in H. injection H as <-. vm_compute in E. discriminate.
Qed.

(* P2039 is a safe-prime set, so the general validity theorem applies to these lists *)
Example P2039_safe : SafePrime P2039.
Proof. apply safe_prime_check_sound. vm_compute. reflexivity. Qed.

Example gens50_valid : forall fl l, generators K_ref fl P2039 50 [] = Ok l ->
  Forall (fun g => member P2039 g /\ 2 <= g) l.
Proof. intros fl l H. eapply generators_valid; [exact P2039_safe|exact H]. Qed.

Print Assumptions gens50_malachite_nodup.
Print Assumptions gens50_bigint_not_nodup.
Print Assumptions gens18_bigint_nodup.
Print Assumptions gens50_not_g.
Print Assumptions gens50_valid.
