(* Proofs/ShuffleP.v — completeness of the Terelius-Wikstrom shuffle proof for the code-shaped model
   Model/Shuffler.v over any lawful backend and ANY hash function: an honest shuffle (apply_permutation)
   followed by gen_proof yields a proof that check_proof accepts. *)
From Coq Require Import ZArith List Lia Bool Permutation.
From Strand Require Import Model.Outcome Model.Codec Model.Backend Model.Zkp Model.Shuffler
  Proofs.Laws Proofs.SigmaP Proofs.ListAlg.
Import ListNotations.
Open Scope Z_scope.
Local Notation length := List.length.

Section ShuffleP.
  Variable B : Backend.
  Variable mem : E B -> Prop.
  Hypothesis L : Laws B mem.
  Notation q := (b_q B).
  Notation mulp := (b_mulp B).
  Notation pow := (b_pow B).
  Notation gpow := (b_gpow B).
  Notation one := (b_one B).
  Notation g := (b_gen B).
  Notation prodp := (prodp B).
  Notation xsum := (xsum B).
  Notation resp1 := (resp1 B).
  Notation nonneg := (fun r : Z => 0 <= r).

  Let Hq : 1 < q := q_gt1 B mem L.

  Lemma gpow_mem x : 0 <= x -> mem (gpow x).
  Proof. intro Hx. apply (pow_mem B mem L); [apply (mem_gen B mem L)|exact Hx]. Qed.

  Ltac memt :=
    repeat match goal with
      | |- mem (b_mulp _ _ _) => apply (mem_mulp B mem L)
      | |- mem (b_pow _ _ _) => apply (pow_mem B mem L)
      | |- mem (b_gpow _ _) => apply gpow_mem
      | |- mem (b_one _) => apply (mem_one B mem L)
      | |- mem (b_gen _) => apply (mem_gen B mem L)
      | |- mem _ => assumption
      | |- 0 <= _ => first [assumption | lia | nia]
      end.

  (* ---------- commutative-monoid shuffles on members ---------- *)
  Lemma mulp_swap a b c : mem a -> mem b -> mem c -> mulp a (mulp b c) = mulp b (mulp a c).
  Proof.
    intros Ha Hb Hc. rewrite <- !(mulp_assoc B mem L) by assumption.
    now rewrite (mulp_comm B mem L a b) by assumption.
  Qed.

  Lemma mulp4 a b c d : mem a -> mem b -> mem c -> mem d ->
    mulp (mulp a b) (mulp c d) = mulp (mulp a c) (mulp b d).
  Proof.
    intros Ha Hb Hc Hd. rewrite !(mulp_assoc B mem L) by memt.
    f_equal. apply mulp_swap; assumption.
  Qed.

  (* (G * H) * H^-1 = G *)
  Lemma mulp_cancel_r G H i : mem G -> mem H -> mem i -> mulp H i = one -> mulp (mulp G H) i = G.
  Proof.
    intros HG HH Hi E. rewrite (mulp_assoc B mem L) by assumption. rewrite E.
    apply (mulp_one_r B mem L); assumption.
  Qed.

  Lemma pow_inv_cancel a a' c : mem a -> mem a' -> 0 <= c -> mulp a a' = one ->
    mulp (pow a c) (pow a' c) = one.
  Proof.
    intros Ha Ha' Hc E. rewrite <- (pow_mulp B mem L) by assumption. rewrite E.
    apply (pow_one B mem L); exact Hc.
  Qed.

  (* ---------- products of lists of members ---------- *)
  Lemma fold_mulp_mem l : Forall mem l -> forall acc, mem acc -> mem (fold_left mulp l acc).
  Proof.
    induction 1 as [|a l Ha Hl IH]; intros acc Hacc; cbn [fold_left]; [exact Hacc|].
    apply IH. memt.
  Qed.

  Lemma prodp_mem l : Forall mem l -> mem (prodp l).
  Proof. intros H. apply fold_mulp_mem; [exact H|memt]. Qed.

  Lemma fold_mulp_acc l : Forall mem l -> forall acc, mem acc ->
    fold_left mulp l acc = mulp acc (prodp l).
  Proof.
    unfold Shuffler.prodp.
    induction 1 as [|a l Ha Hl IH]; intros acc Hacc; cbn [fold_left].
    - symmetry. apply (mulp_one_r B mem L); exact Hacc.
    - rewrite IH by memt. rewrite (IH (mulp one a)) by memt.
      rewrite (mulp_one_l B mem L) by exact Ha.
      apply (mulp_assoc B mem L); try assumption. apply fold_mulp_mem; [assumption|memt].
  Qed.

  Lemma prodp_nil : prodp [] = one.
  Proof. reflexivity. Qed.

  Lemma prodp_cons a l : mem a -> Forall mem l -> prodp (a :: l) = mulp a (prodp l).
  Proof.
    intros Ha Hl. unfold Shuffler.prodp at 1. cbn [fold_left].
    rewrite (mulp_one_l B mem L) by exact Ha. apply fold_mulp_acc; assumption.
  Qed.

  Lemma prodp_perm l1 l2 : Permutation l1 l2 -> Forall mem l1 -> prodp l1 = prodp l2.
  Proof.
    induction 1 as [|x l l' HP IH|x y l|l l' l'' HP1 IH1 HP2 IH2]; intros HF.
    - reflexivity.
    - inversion HF; subst. pose proof (perm_Forall _ _ _ HP H2) as HF'.
      rewrite !prodp_cons by assumption. now rewrite IH.
    - inversion HF as [|? ? Hy HF1]; subst. inversion HF1 as [|? ? Hx HF2]; subst.
      rewrite !prodp_cons by (try assumption; constructor; assumption).
      apply mulp_swap; try assumption. apply prodp_mem; assumption.
    - rewrite IH1 by assumption. apply IH2. apply (perm_Forall _ _ _ HP1 HF).
  Qed.

  (* ---------- exponent arithmetic of the backend versus integers modulo q ---------- *)
  Lemma xsum_acc l : Forall nonneg l -> forall acc, 0 <= acc ->
    0 <= fold_left (b_xadd B) l acc /\ fold_left (b_xadd B) l acc mod q = (acc + zsum l) mod q.
  Proof.
    induction 1 as [|a l Ha Hl IH]; intros acc Hacc; cbn [fold_left].
    - split; [exact Hacc|]. unfold zsum; cbn [fold_right]. now rewrite Z.add_0_r.
    - destruct (xadd_ok B mem L acc a Hacc Ha) as [H0 E].
      destruct (IH _ H0) as [H1 E1]. split; [exact H1|].
      rewrite E1. change (zsum (a :: l)) with (a + zsum l).
      rewrite <- Zplus_mod_idemp_l, E, Zplus_mod_idemp_l. f_equal. lia.
  Qed.

  Lemma xsum_ok l : Forall nonneg l -> 0 <= xsum l /\ xsum l mod q = zsum l mod q.
  Proof. intros H. destruct (xsum_acc l H 0 ltac:(lia)) as [H0 E]. split; [exact H0|]. exact E. Qed.

  Definition xmulf (p : Z * Z) : Z := b_xmul B (fst p) (snd p).
  Notation nonneg2 := (fun p : Z * Z => 0 <= fst p /\ 0 <= snd p).

  Lemma xdot_ok l : Forall nonneg2 l ->
    0 <= xsum (map xmulf l) /\ xsum (map xmulf l) mod q = zdotp l mod q.
  Proof.
    intros H.
    assert (HF : Forall nonneg (map xmulf l) /\ zsum (map xmulf l) mod q = zdotp l mod q).
    { induction H as [|p l [Hp1 Hp2] Hl [IH1 IH2]]; [split; [constructor|reflexivity]|].
      destruct (xmul_ok B mem L _ _ Hp1 Hp2) as [H0 E].
      cbn [map]. split; [constructor; assumption|].
      change (zsum (xmulf p :: map xmulf l)) with (xmulf p + zsum (map xmulf l)).
      change (zdotp (p :: l)) with (fst p * snd p + zdotp l).
      rewrite Zplus_mod, IH2. unfold xmulf at 1. rewrite E. now rewrite <- Zplus_mod. }
    destruct HF as [HF1 HF2]. destruct (xsum_ok _ HF1) as [H0 E]. split; [exact H0|]. now rewrite E.
  Qed.

  Definition umulf (acc x : Z) : Z := b_xmodq B (b_xmul B acc x).

  Lemma uprod_acc l : Forall nonneg l -> forall acc, 0 <= acc ->
    0 <= fold_left umulf l acc /\ fold_left umulf l acc mod q = (acc * zprod l) mod q.
  Proof.
    induction 1 as [|a l Ha Hl IH]; intros acc Hacc; cbn [fold_left].
    - split; [exact Hacc|]. unfold zprod; cbn [fold_right]. now rewrite Z.mul_1_r.
    - destruct (xmul_ok B mem L acc a Hacc Ha) as [H0 E].
      assert (Hu : 0 <= umulf acc a) by (unfold umulf; rewrite (xmodq_ok B mem L) by exact H0; apply Z.mod_pos_bound; lia).
      destruct (IH _ Hu) as [H1 E1]. split; [exact H1|].
      rewrite E1. change (zprod (a :: l)) with (a * zprod l).
      unfold umulf. rewrite (xmodq_ok B mem L) by exact H0.
      rewrite Zmult_mod_idemp_l. rewrite <- Zmult_mod_idemp_l, E, Zmult_mod_idemp_l. f_equal. ring.
  Qed.

  Lemma resp1_ok r c x : 0 <= r -> 0 <= c -> 0 <= x ->
    0 <= resp1 r c x /\ resp1 r c x mod q = (r + c * x) mod q.
  Proof. intros Hr Hc Hx. destruct (resp_ok B mem L r c x Hr Hc Hx) as [[H0 _] E]. split; assumption. Qed.

  Lemma sigma1 base r c x : mem base -> 0 <= r -> 0 <= c -> 0 <= x ->
    pow base (resp1 r c x) = mulp (pow base r) (pow (pow base x) c).
  Proof. exact (sigma_eq B mem L base r c x). Qed.

  (* ---------- lists of powers ---------- *)
  Definition powl (bs : list (E B)) (xs : list Z) : list (E B) :=
    map (fun p => pow (fst p) (snd p)) (combine bs xs).
  Definition mulpowl (k : E B) (al : list (E B)) (rs : list Z) : list (E B) :=
    map (fun ar => mulp (fst ar) (pow k (snd ar))) (combine al rs).
  Definition respl (c : Z) (ws xs : list Z) : list Z :=
    map (fun wx => resp1 (fst wx) c (snd wx)) (combine ws xs).

  Lemma powl_map {X} (f : X -> E B) l xs :
    map (fun p => pow (f (fst p)) (snd p)) (combine l xs) = powl (map f l) xs.
  Proof.
    revert xs. induction l as [|a l IH]; intros xs; [reflexivity|].
    destruct xs as [|x xs]; [reflexivity|]. cbn [combine map]. unfold powl. cbn [combine map fst snd].
    f_equal. apply IH.
  Qed.

  Lemma mulpowl_map {X} (f : X -> E B) k l rs :
    map (fun p => mulp (f (fst p)) (pow k (snd p))) (combine l rs) = mulpowl k (map f l) rs.
  Proof.
    revert rs. induction l as [|a l IH]; intros rs; [reflexivity|].
    destruct rs as [|x rs]; [reflexivity|]. cbn [combine map]. unfold mulpowl. cbn [combine map fst snd].
    f_equal. apply IH.
  Qed.

  Lemma powl_mem bs : Forall mem bs -> forall xs, Forall nonneg xs -> Forall mem (powl bs xs).
  Proof.
    induction 1 as [|b bs Hb Hbs IH]; intros xs Hxs; [constructor|].
    destruct Hxs as [|x xs Hx Hxs]; [constructor|].
    unfold powl. cbn [combine map fst snd]. constructor; [memt|]. apply IH; assumption.
  Qed.

  Lemma mulpowl_mem k al : mem k -> Forall mem al -> forall rs, Forall nonneg rs -> Forall mem (mulpowl k al rs).
  Proof.
    intros Hk. induction 1 as [|b bs Hb Hbs IH]; intros xs Hxs; [constructor|].
    destruct Hxs as [|x xs Hx Hxs]; [constructor|].
    unfold mulpowl. cbn [combine map fst snd]. constructor; [memt|]. apply IH; assumption.
  Qed.

  Lemma respl_nonneg c ws : 0 <= c -> Forall nonneg ws -> forall xs, Forall nonneg xs -> Forall nonneg (respl c ws xs).
  Proof.
    intros Hc. induction 1 as [|w ws Hw Hws IH]; intros xs Hxs; [constructor|].
    destruct Hxs as [|x xs Hx Hxs]; [constructor|].
    unfold respl. cbn [combine map fst snd]. constructor; [apply resp1_ok; assumption|]. apply IH; assumption.
  Qed.

  Lemma respl_length c ws xs : length xs = length ws -> length (respl c ws xs) = length ws.
  Proof. intros H. unfold respl. rewrite map_length, combine_length. lia. Qed.

  (* prod b_i^(w_i + c x_i) = prod b_i^w_i * (prod b_i^x_i)^c *)
  Lemma prod_sigma c bs : Forall mem bs -> 0 <= c -> forall ws xs,
    Forall nonneg ws -> Forall nonneg xs -> length ws = length bs -> length xs = length bs ->
    prodp (powl bs (respl c ws xs)) = mulp (prodp (powl bs ws)) (pow (prodp (powl bs xs)) c).
  Proof.
    intros Hbs Hc. induction Hbs as [|b bs Hb Hbs IH]; intros ws xs Hws Hxs Lw Lx.
    - unfold powl. cbn [combine map]. rewrite prodp_nil. rewrite (pow_one B mem L) by exact Hc.
      symmetry. apply (mulp_one_l B mem L). memt.
    - destruct Hws as [|w ws Hw Hws]; [discriminate|]. destruct Hxs as [|x xs Hx Hxs]; [discriminate|].
      cbn [length] in Lw, Lx.
      unfold respl, powl. cbn [combine map fst snd]. fold (respl c ws xs).
      fold (powl bs (respl c ws xs)) (powl bs ws) (powl bs xs).
      pose proof (powl_mem bs Hbs ws Hws) as M1. pose proof (powl_mem bs Hbs xs Hxs) as M2.
      pose proof (powl_mem bs Hbs _ (respl_nonneg c ws Hc Hws xs Hxs)) as M3.
      pose proof (prodp_mem _ M1) as P1. pose proof (prodp_mem _ M2) as P2.
      destruct (resp1_ok w c x Hw Hc Hx) as [Hr _].
      rewrite !prodp_cons by (try assumption; memt).
      rewrite IH by (try assumption; lia).
      rewrite sigma1 by assumption. rewrite (pow_mulp B mem L) by memt.
      apply mulp4; memt.
  Qed.

  (* prod (a_i k^r_i)^u_i = prod a_i^u_i * k^(sum r_i u_i) *)
  Lemma prod_reenc k al : mem k -> Forall mem al -> forall rs us,
    Forall nonneg rs -> Forall nonneg us -> length rs = length al -> length us = length al ->
    prodp (powl (mulpowl k al rs) us) = mulp (prodp (powl al us)) (pow k (zdotp (combine rs us))).
  Proof.
    intros Hk Hal. induction Hal as [|a al Ha Hal IH]; intros rs us Hrs Hus Lr Lu.
    - unfold mulpowl, powl. cbn [combine map]. rewrite prodp_nil.
      destruct rs; [|discriminate]. cbn [combine zdotp fold_right]. rewrite (pow_0 B mem L) by exact Hk.
      symmetry. apply (mulp_one_l B mem L). memt.
    - destruct Hrs as [|r rs Hr Hrs]; [discriminate|]. destruct Hus as [|u us Hu Hus]; [discriminate|].
      cbn [length] in Lr, Lu.
      unfold mulpowl, powl. cbn [combine map fst snd].
      fold (mulpowl k al rs). fold (powl (mulpowl k al rs) us) (powl al us).
      pose proof (mulpowl_mem k al Hk Hal rs Hrs) as M0.
      pose proof (powl_mem _ M0 us Hus) as M1. pose proof (powl_mem al Hal us Hus) as M2.
      pose proof (prodp_mem _ M2) as P2.
      assert (Hd : 0 <= zdotp (combine rs us)) by (apply zdotp_nonneg, Forall_combine; assumption).
      rewrite !prodp_cons by (try assumption; memt).
      rewrite IH by (try assumption; lia).
      change (zdotp ((r, u) :: combine rs us)) with (r * u + zdotp (combine rs us)).
      rewrite (pow_add B mem L) by memt.
      rewrite (pow_mulp B mem L) by memt. rewrite (pow_mul B mem L) by memt.
      apply mulp4; memt.
  Qed.

  (* prod (a_i k^r_i) = prod a_i * k^(sum r_i) *)
  Lemma prod_plain k al : mem k -> Forall mem al -> forall rs,
    Forall nonneg rs -> length rs = length al ->
    prodp (mulpowl k al rs) = mulp (prodp al) (pow k (zsum rs)).
  Proof.
    intros Hk Hal. induction Hal as [|a al Ha Hal IH]; intros rs Hrs Lr.
    - unfold mulpowl. cbn [combine map]. rewrite prodp_nil.
      destruct rs; [|discriminate]. unfold zsum; cbn [fold_right]. rewrite (pow_0 B mem L) by exact Hk.
      symmetry. apply (mulp_one_l B mem L). memt.
    - destruct Hrs as [|r rs Hr Hrs]; [discriminate|]. cbn [length] in Lr.
      unfold mulpowl. cbn [combine map fst snd]. fold (mulpowl k al rs).
      pose proof (mulpowl_mem k al Hk Hal rs Hrs) as M0. pose proof (prodp_mem _ Hal) as P1.
      pose proof (zsum_nonneg rs Hrs) as Hs.
      rewrite !prodp_cons by (try assumption; memt).
      rewrite IH by (try assumption; lia).
      change (zsum (r :: rs)) with (r + zsum rs).
      rewrite (pow_add B mem L) by memt. apply mulp4; memt.
  Qed.

  (* simultaneous permutation of bases and exponents *)
  Lemma prodp_powl_perm bs xs bs' xs' :
    Permutation (combine bs' xs') (combine bs xs) -> Forall mem bs' -> Forall nonneg xs' ->
    prodp (powl bs' xs') = prodp (powl bs xs).
  Proof.
    intros HP Hb Hx. apply prodp_perm; [|apply powl_mem; assumption].
    unfold powl. apply Permutation_map. exact HP.
  Qed.

  (* ---------- the sigma identities behind every verifier equation ---------- *)
  Lemma sig_core b o x0 c y i R Sx :
    mem b -> mem y -> mem i -> mem R -> mem Sx -> 0 <= o -> 0 <= c -> 0 <= x0 ->
    mulp y i = one -> y = mulp (pow b x0) Sx ->
    mulp (pow b o) R = mulp (mulp (pow i c) (pow b (resp1 o c x0))) (mulp R (pow Sx c)).
  Proof.
    intros Hb Hy Hi HR HS Ho Hc Hx Hinv Ey.
    rewrite sigma1 by assumption.
    rewrite (mulp_swap (pow i c)) by memt.
    rewrite mulp4 by memt.
    rewrite (mulp_assoc B mem L (pow i c)) by memt.
    rewrite <- (pow_mulp B mem L) by memt. rewrite <- Ey.
    rewrite (mulp_comm B mem L (pow i c)) by memt.
    rewrite pow_inv_cancel by assumption.
    symmetry. apply (mulp_one_r B mem L). memt.
  Qed.

  Lemma sig1 o x0 c y i : mem y -> mem i -> 0 <= o -> 0 <= c -> 0 <= x0 ->
    mulp y i = one -> y = gpow x0 ->
    gpow o = mulp (pow i c) (gpow (resp1 o c x0)).
  Proof.
    intros Hy Hi Ho Hc Hx Hinv Ey. unfold b_gpow in *.
    rewrite sigma1 by (try assumption; memt). rewrite <- Ey.
    rewrite mulp_swap by memt.
    rewrite (mulp_comm B mem L (pow i c)) by memt.
    rewrite pow_inv_cancel by assumption.
    symmetry. apply (mulp_one_r B mem L). memt.
  Qed.

  Lemma agg_check b l o x0 c y i ws xs :
    mem b -> Forall mem l -> mem y -> mem i -> 0 <= o -> 0 <= c -> 0 <= x0 ->
    Forall nonneg ws -> Forall nonneg xs -> length ws = length l -> length xs = length l ->
    mulp y i = one -> y = mulp (pow b x0) (prodp (powl l xs)) ->
    mulp (pow b o) (prodp (powl l ws)) =
    mulp (mulp (pow i c) (pow b (resp1 o c x0))) (prodp (powl l (respl c ws xs))).
  Proof.
    intros Hb Hl Hy Hi Ho Hc Hx Hws Hxs Lw Lx Hinv Ey.
    rewrite prod_sigma by assumption.
    apply sig_core with (y := y); try assumption; apply prodp_mem, powl_mem; assumption.
  Qed.

  Lemma chain_check prev ci i c wh wp rh u :
    mem prev -> mem i -> 0 <= c -> 0 <= wh -> 0 <= wp -> 0 <= rh -> 0 <= u ->
    ci = mulp (gpow rh) (pow prev u) -> mulp ci i = one ->
    mulp (gpow wh) (pow prev wp) =
    mulp (mulp (pow i c) (gpow (resp1 wh c rh))) (pow prev (resp1 wp c u)).
  Proof.
    intros Hp Hi Hc Hwh Hwp Hrh Hu Eci Hinv.
    rewrite (sigma1 prev) by assumption. unfold b_gpow in *.
    apply sig_core with (y := ci); try assumption; try memt. subst ci. memt.
  Qed.

  (* ---------- the commitment chain ---------- *)
  Notation chain := (commitment_chain B).
  Notation vs_of := (vs_of B).

  Lemma chain_length us : forall rs prev, length rs = length us -> length (chain prev us rs) = length us.
  Proof.
    induction us as [|u us IH]; intros rs prev Hl; [reflexivity|].
    destruct rs as [|r rs]; [discriminate|]. cbn [commitment_chain length]. f_equal. apply IH.
    cbn [length] in Hl. lia.
  Qed.

  Lemma chain_mem us : Forall nonneg us -> forall rs prev, Forall nonneg rs -> mem prev ->
    Forall mem (chain prev us rs).
  Proof.
    induction 1 as [|u us Hu Hus IH]; intros rs prev Hrs Hp; [constructor|].
    destruct Hrs as [|r rs Hr Hrs]; [constructor|].
    cbn [commitment_chain]. constructor; [memt|]. apply IH; [assumption|memt].
  Qed.

  Lemma vs_cons2 u u1 r :
    vs_of (u :: u1 :: r) = b_xmodq B (b_xmul B u1 (hd 1 (vs_of (u1 :: r)))) :: vs_of (u1 :: r).
  Proof. reflexivity. Qed.

  Lemma vs_cons u rest : vs_of (u :: rest) = hd 1 (vs_of (u :: rest)) :: vs_of rest.
  Proof. destruct rest; reflexivity. Qed.

  Lemma vs_hd l : Forall nonneg l -> 0 <= hd 1 (vs_of l) /\ hd 1 (vs_of l) mod q = zprod (tl l) mod q.
  Proof.
    induction 1 as [|u rest Hu Hrest IH]; [cbn; split; [lia|reflexivity]|].
    destruct rest as [|u1 rest]; [cbn; split; [lia|reflexivity]|].
    rewrite vs_cons2. cbn [hd tl]. destruct IH as [H0 E]. cbn [tl] in E.
    inversion Hrest as [|? ? Hu1 _]; subst.
    destruct (xmul_ok B mem L u1 _ Hu1 H0) as [H1 E1].
    rewrite (xmodq_ok B mem L) by exact H1. split; [apply Z.mod_pos_bound; lia|].
    rewrite Z.mod_mod by lia. rewrite E1. change (zprod (u1 :: rest)) with (u1 * zprod rest).
    rewrite <- Zmult_mod_idemp_r, E, Zmult_mod_idemp_r. reflexivity.
  Qed.

  Lemma vs_nonneg l : Forall nonneg l -> Forall nonneg (vs_of l).
  Proof.
    induction 1 as [|u rest Hu Hrest IH]; [constructor|].
    rewrite vs_cons. constructor; [|exact IH]. apply vs_hd. constructor; assumption.
  Qed.

  Lemma vs_length l : length (vs_of l) = length l.
  Proof. induction l as [|u rest IH]; [reflexivity|]. rewrite vs_cons. cbn [length]. now rewrite IH. Qed.

  Lemma chain_closed us : Forall nonneg us -> forall rs prev, Forall nonneg rs -> length rs = length us ->
    mem prev ->
    last (chain prev us rs) prev = mulp (gpow (zdotp (combine rs (vs_of us)))) (pow prev (zprod us)).
  Proof.
    induction 1 as [|u us Hu Hus IH]; intros rs prev Hrs Hl Hp.
    - destruct rs; [|discriminate]. cbn [commitment_chain last combine]. unfold zdotp, zprod; cbn [fold_right].
      unfold b_gpow. rewrite (pow_0 B mem L) by memt. rewrite (pow_1 B mem L) by exact Hp.
      symmetry. apply (mulp_one_l B mem L); exact Hp.
    - destruct Hrs as [|r rs Hr Hrs]; [discriminate|]. cbn [length] in Hl.
      cbn [commitment_chain]. rewrite last_cons.
      set (c1 := mulp (gpow r) (pow prev u)). assert (Hc1 : mem c1) by (unfold c1; memt).
      rewrite IH by (try assumption; lia).
      rewrite vs_cons. set (v0 := hd 1 (vs_of (u :: us))).
      destruct (vs_hd (u :: us) ltac:(constructor; assumption)) as [Hv0 Ev0]. fold v0 in Hv0, Ev0. cbn [tl] in Ev0.
      cbn [combine]. change (zdotp ((r, v0) :: combine rs (vs_of us))) with (r * v0 + zdotp (combine rs (vs_of us))).
      change (zprod (u :: us)) with (u * zprod us).
      set (D := zdotp (combine rs (vs_of us))).
      assert (HD : 0 <= D) by (apply zdotp_nonneg, Forall_combine; [assumption|apply vs_nonneg; assumption]).
      pose proof (zprod_nonneg us Hus) as HP. set (P := zprod us) in *.
      unfold c1, b_gpow.
      rewrite (pow_mulp B mem L) by memt. rewrite !(pow_mul B mem L) by memt.
      rewrite (pow_add B mem L) by memt.
      rewrite (pow_congr B mem L g (r * v0) (r * P)) by
        (memt; rewrite <- Zmult_mod_idemp_r, Ev0, Zmult_mod_idemp_r; reflexivity).
      rewrite mulp_swap by memt. symmetry. apply (mulp_assoc B mem L); memt.
  Qed.

  Lemma combine_cons {X Y} (a : X) (b : Y) l l' : combine (a :: l) (b :: l') = (a, b) :: combine l l'.
  Proof. reflexivity. Qed.

  (* the per-index chain checks of the verifier *)
  Definition chk_step (c : Z) (x : E B * (E B * (Z * Z))) : outcome (E B) :=
    let '(prev, (ci, (sh, sp))) := x in
    (inv <- b_invp B ci ;;
     Ok (b_modp B (b_mul B (b_mul B (pow inv c) (gpow sh)) (pow prev sp))))%outcome.

  Definition thatf (pww : E B * (Z * Z)) : E B :=
    mulp (gpow (fst (snd pww))) (pow (fst pww) (snd (snd pww))).

  Lemma chain_checks c : 0 <= c -> forall us, Forall nonneg us -> forall rs wh wp prev,
    Forall nonneg rs -> Forall nonneg wh -> Forall nonneg wp ->
    length rs = length us -> length wh = length us -> length wp = length us -> mem prev ->
    exists that,
      mapM (chk_step c) (combine (prev :: chain prev us rs)
                           (combine (chain prev us rs) (combine (respl c wh rs) (respl c wp us)))) = Ok that /\
      forallb (fun ab => b_eqb B (fst ab) (snd ab))
              (combine (map thatf (zip3 (prev :: chain prev us rs) wh wp)) that) = true.
  Proof.
    intros Hc. induction 1 as [|u us Hu Hus IH]; intros rs wh wp prev Hrs Hwh Hwp Lr Lh Lp Hprev.
    - exists []. cbn [commitment_chain combine mapM]. split; [reflexivity|].
      destruct wh; [|discriminate]. reflexivity.
    - destruct Hrs as [|r rs Hr Hrs]; [discriminate|]. destruct Hwh as [|a wh Ha Hwh]; [discriminate|].
      destruct Hwp as [|b wp Hb Hwp]; [discriminate|]. cbn [length] in Lr, Lh, Lp.
      cbn [commitment_chain]. set (c1 := mulp (gpow r) (pow prev u)).
      assert (Hc1 : mem c1) by (unfold c1; memt).
      destruct (IH rs wh wp c1 Hrs Hwh Hwp ltac:(lia) ltac:(lia) ltac:(lia) Hc1) as (that & Hm & Hf).
      destruct (invp_ok B mem L c1 Hc1) as (i & Ei & Hi & Hinv).
      assert (R1 : respl c (a :: wh) (r :: rs) = resp1 a c r :: respl c wh rs) by reflexivity.
      assert (R2 : respl c (b :: wp) (u :: us) = resp1 b c u :: respl c wp us) by reflexivity.
      rewrite R1, R2. rewrite !combine_cons.
      exists (mulp (mulp (pow i c) (gpow (resp1 a c r))) (pow prev (resp1 b c u)) :: that).
      split.
      + cbn [mapM]. unfold chk_step at 1. rewrite Ei. cbn [bind]. rewrite Hm.
        rewrite (modp_mul3 B mem L). reflexivity.
      + unfold zip3. rewrite !combine_cons. cbn [map]. rewrite combine_cons.
        fold (zip3 (c1 :: chain c1 us rs) wh wp).
        cbn [forallb fst snd]. rewrite Hf. rewrite andb_true_r.
        destruct (resp1_ok a c r Ha Hc Hr) as [H1 _]. destruct (resp1_ok b c u Hb Hc Hu) as [H2 _].
        apply (eqb_spec B mem L); [unfold thatf; cbn [fst snd]; memt | memt |].
        unfold thatf. cbn [fst snd]. apply (chain_check prev c1); try assumption. reflexivity.
  Qed.

  (* ---------- gen_commitments: scatter through the permutation ---------- *)
  Lemma set_nth_ok {A} (l : list A) : forall i v, (i < length l)%nat ->
    exists l', set_nth l i v = Some l' /\ length l' = length l /\ nth_error l' i = Some v /\
               forall j, j <> i -> nth_error l' j = nth_error l j.
  Proof.
    induction l as [|x l IH]; intros i v Hi; [cbn in Hi; lia|].
    destruct i as [|i].
    - exists (v :: l). cbn. repeat split. intros j Hj. destruct j; [congruence|reflexivity].
    - destruct (IH i v ltac:(cbn in Hi; lia)) as (l' & E & Hl & Hn & Ho).
      exists (x :: l'). cbn [set_nth]. rewrite E. cbn [length nth_error]. repeat split; [lia|exact Hn|].
      intros j Hj. destruct j; [reflexivity|]. cbn [nth_error]. apply Ho. lia.
  Qed.

  Definition gc_step (acc : outcome (list (E B) * list Z)) (icr : Z * (E B * Z))
    : outcome (list (E B) * list Z) :=
    ('(cp, rp) <- acc ;;
     let '(i, (c, r)) := icr in
     if i <? 0 then Panic else
     match set_nth cp (Z.to_nat i) c, set_nth rp (Z.to_nat i) r with
     | Some cp', Some rp' => Ok (cp', rp')
     | _, _ => Panic
     end)%outcome.

  Lemma gc_fold ics : NoDup (map fst ics) -> forall cp rp, length rp = length cp ->
    Forall (fun x => in_range (length cp) (fst x)) ics ->
    exists cp' rp', fold_left gc_step ics (Ok (cp, rp)) = Ok (cp', rp') /\
      length cp' = length cp /\ length rp' = length cp /\
      (forall i c r, In (i, (c, r)) ics ->
         nth_error cp' (Z.to_nat i) = Some c /\ nth_error rp' (Z.to_nat i) = Some r) /\
      (forall j, ~ In (Z.of_nat j) (map fst ics) ->
         nth_error cp' j = nth_error cp j /\ nth_error rp' j = nth_error rp j).
  Proof.
    induction ics as [|[i [c r]] ics IH]; intros ND cp rp Hl HR.
    - exists cp, rp. cbn [fold_left]. split; [reflexivity|]. split; [reflexivity|]. split; [exact Hl|].
      split; [intros ? ? ? []|]. intros j _. split; reflexivity.
    - cbn [map fst] in ND. inversion ND as [|? ? Hni ND']; subst.
      inversion HR as [|? ? Hi HR']; subst. cbn [fst] in Hi. unfold in_range in Hi.
      destruct (set_nth_ok cp (Z.to_nat i) c ltac:(lia)) as (cp1 & E1 & L1 & N1 & O1).
      destruct (set_nth_ok rp (Z.to_nat i) r ltac:(lia)) as (rp1 & E2 & L2 & N2 & O2).
      destruct (IH ND' cp1 rp1 ltac:(lia) ltac:(rewrite L1; exact HR')) as (cp' & rp' & Hf & Lc & Lr & Hin & Hout).
      exists cp', rp'. split; [|split; [lia|split; [lia|split]]].
      + cbn [fold_left]. unfold gc_step at 2. cbn [bind].
        replace (i <? 0) with false by (symmetry; apply Z.ltb_ge; lia).
        rewrite E1, E2. exact Hf.
      + intros i0 c0 r0 [Heq|Hin0].
        * injection Heq as <- <- <-.
          destruct (Hout (Z.to_nat i)) as [H1 H2]; [rewrite Z2Nat.id by lia; exact Hni|].
          rewrite H1, H2. split; assumption.
        * apply Hin; exact Hin0.
      + intros j Hj. cbn [map fst] in Hj.
        assert (Hji : j <> Z.to_nat i).
        { intros ->. apply Hj. left. rewrite Z2Nat.id by lia. reflexivity. }
        destruct (Hout j) as [H1 H2]; [intro; apply Hj; right; assumption|].
        rewrite H1, H2. split; [apply O1|apply O2]; exact Hji.
  Qed.

  Lemma gen_commitments_ok hs perm rs n : length hs = n -> length rs = n -> Permutation perm (iota n) ->
    exists cp rp, gen_commitments B hs perm rs = Ok (cp, rp) /\ length cp = n /\ length rp = n /\
                  pick one cp perm = mulpowl g hs rs /\ pick 0 rp perm = rs.
  Proof.
    intros Lh Lr HP. pose proof (perm_length _ _ HP) as Lp. pose proof (perm_range _ _ HP) as HR.
    pose proof (perm_NoDup _ _ HP) as ND.
    set (cs0 := mulpowl g hs rs).
    assert (Lc0 : length cs0 = n) by (unfold cs0, mulpowl; rewrite map_length, combine_length; lia).
    assert (Lcr : length (combine cs0 rs) = n) by (rewrite combine_length; lia).
    destruct (gc_fold (combine perm (combine cs0 rs))
                ltac:(rewrite map_fst_combine by lia; exact ND)
                (repeat one (length perm)) (repeat 1 (length perm))
                ltac:(now rewrite !repeat_length)) as (cp & rp & Hf & Lc & Lrp & Hin & _).
    { rewrite repeat_length, Lp. rewrite Forall_forall in *. intros [i x] Hx. cbn [fst].
      apply HR. apply in_combine_l in Hx. exact Hx. }
    rewrite repeat_length in Lc, Lrp.
    exists cp, rp. split; [|split; [lia|split; [lia|]]].
    - rewrite Lp in Hf. unfold gen_commitments. rewrite Lh, Lp, Lr, Nat.eqb_refl. cbn [negb]. exact Hf.
    - assert (Hm : map (fun i => (nth (Z.to_nat i) cp one, nth (Z.to_nat i) rp 0)) perm = combine cs0 rs).
      { apply map_combine_ext; [lia|]. intros i [c r] Hx. destruct (Hin i c r Hx) as [H1 H2].
        f_equal; apply nth_error_nth; assumption. }
      split.
      + transitivity (map fst (combine cs0 rs)); [|apply map_fst_combine; lia].
        unfold pick. rewrite <- Hm, map_map. reflexivity.
      + transitivity (map snd (combine cs0 rs)); [|apply map_snd_combine; lia].
        unfold pick. rewrite <- Hm, map_map. reflexivity.
  Qed.

  (* ---------- small interface lemmas ---------- *)
  Lemma bind_rw {X Y} (m : outcome X) (k : X -> outcome Y) a r : m = Ok a -> k a = r -> bind m k = r.
  Proof. intros -> <-. reflexivity. Qed.

  Lemma divp_ok x y i : b_invp B y = Ok i -> b_divp B x y = Ok (b_mul B x i).
  Proof. intros E. unfold b_divp. rewrite E. reflexivity. Qed.

  Lemma nthZ_ok {A} (d : A) l i : in_range (length l) i -> nthZ l i = Ok (nth (Z.to_nat i) l d).
  Proof.
    intros [H0 H1]. unfold nthZ. replace (i <? 0) with false by (symmetry; apply Z.ltb_ge; lia).
    rewrite (nth_error_nth' l d) by lia. reflexivity.
  Qed.

  Lemma mapM_nthZ {A} (d : A) l perm :
    Forall (in_range (length l)) perm -> mapM (nthZ l) perm = Ok (pick d l perm).
  Proof. apply mapM_nthZ_gen. intros i Hi. apply nthZ_ok; exact Hi. Qed.

  Lemma shuffle_us_ok es e_primes cs n label :
    length (shuffle_us B es e_primes cs n label) = n /\ Forall nonneg (shuffle_us B es e_primes cs n label).
  Proof.
    unfold shuffle_us. cbv zeta. split; [now rewrite map_length, seq_length|].
    rewrite Forall_map. apply Forall_forall. intros i _. apply (hash_range B mem L).
  Qed.

  Lemma xmodq_xsum_ok l : Forall nonneg l ->
    0 <= b_xmodq B (xsum l) /\ b_xmodq B (xsum l) mod q = zsum l mod q.
  Proof.
    intros H. destruct (xsum_ok l H) as [H0 E]. rewrite (xmodq_ok B mem L) by exact H0.
    split; [apply Z.mod_pos_bound; lia|]. rewrite Z.mod_mod by lia. exact E.
  Qed.

  Lemma xmodq_xdot_ok l : Forall nonneg2 l ->
    0 <= b_xmodq B (xsum (map xmulf l)) /\ b_xmodq B (xsum (map xmulf l)) mod q = zdotp l mod q.
  Proof.
    intros H. destruct (xdot_ok l H) as [H0 E]. rewrite (xmodq_ok B mem L) by exact H0.
    split; [apply Z.mod_pos_bound; lia|]. rewrite Z.mod_mod by lia. exact E.
  Qed.

  (* prod a_j^u_j = k^-r' * prod (a_pi(i) k^r_pi(i))^u_pi(i), r' = sum r_j u_j *)
  Lemma agg_reenc k ki A rs us perm :
    mem k -> mem ki -> mulp k ki = one -> Forall mem A -> Forall nonneg rs -> Forall nonneg us ->
    length rs = length A -> length us = length A -> Permutation perm (iota (length A)) ->
    prodp (powl A us) =
    mulp (pow ki (b_xmodq B (xsum (map xmulf (combine rs us)))))
         (prodp (powl (mulpowl k (pick one A perm) (pick 0 rs perm)) (pick 0 us perm))).
  Proof.
    intros Hk Hki Hinv HA Hrs Hus Lr Lu HP.
    pose proof (perm_range _ _ HP) as HR. pose proof (perm_length _ _ HP) as Lp.
    assert (HA' : Forall mem (pick one A perm)) by (apply pick_Forall; assumption).
    assert (Hr' : Forall nonneg (pick 0 rs perm)) by (apply pick_Forall; [rewrite Lr|]; assumption).
    assert (Hu' : Forall nonneg (pick 0 us perm)) by (apply pick_Forall; [rewrite Lu|]; assumption).
    rewrite prod_reenc by (try assumption; rewrite !pick_length; reflexivity).
    rewrite (prodp_powl_perm A us (pick one A perm) (pick 0 us perm))
      by (first [assumption | apply pick_pair_perm; [lia|assumption]]).
    rewrite (zdotp_pick 0 0 rs us perm) by (try lia; rewrite Lr; exact HP).
    destruct (xmodq_xdot_ok (combine rs us) ltac:(apply Forall_combine; assumption)) as [H0 E].
    assert (HZ : 0 <= zdotp (combine rs us)) by (apply zdotp_nonneg, Forall_combine; assumption).
    rewrite (pow_congr B mem L ki _ _ Hki H0 HZ E).
    pose proof (prodp_mem _ (powl_mem A HA us Hus)) as HP1.
    rewrite mulp_swap by memt.
    rewrite (mulp_comm B mem L (pow ki _)) by memt.
    rewrite pow_inv_cancel by assumption.
    symmetry. apply (mulp_one_r B mem L); exact HP1.
  Qed.

  Definition de : ctext B := {| mhr := one; gr := one |}.
  Definition reencf (pk : E B) (cr : ctext B * Z) : ctext B := reenc B pk (fst cr) (snd cr).

  Lemma reenc_mhr pk es' r' :
    map (@mhr B) (map (reencf pk) (combine es' r')) = mulpowl pk (map (@mhr B) es') r'.
  Proof. rewrite map_map. rewrite <- mulpowl_map. reflexivity. Qed.

  Lemma reenc_gr pk es' r' :
    map (@gr B) (map (reencf pk) (combine es' r')) = mulpowl g (map (@gr B) es') r'.
  Proof. rewrite map_map. rewrite <- mulpowl_map. reflexivity. Qed.

  Lemma apply_permutation_spec pk perm es rs e_primes rs' :
    Permutation perm (iota (length es)) -> length rs = length es ->
    apply_permutation B pk perm es rs = Ok (e_primes, rs') ->
    e_primes = map (reencf pk) (combine (pick de es perm) (pick 0 rs perm)) /\ rs' = rs.
  Proof.
    intros HP Lr H. pose proof (perm_length _ _ HP) as Lp. pose proof (perm_range _ _ HP) as HR.
    unfold apply_permutation in H. rewrite Lp, Lr, Nat.eqb_refl in H. cbn [negb] in H.
    change (fun cr : ctext B * Z => reenc B pk (fst cr) (snd cr)) with (reencf pk) in H.
    rewrite (mapM_nthZ (reencf pk (de, 0))) in H
      by (rewrite map_length, combine_length, Lr, Nat.min_id; exact HR).
    cbn [bind] in H. injection H as <- <-. split; [|reflexivity].
    rewrite pick_map. rewrite pick_combine by lia. reflexivity.
  Qed.

  Ltac len := repeat rewrite ?firstn_length, ?skipn_length; lia.

  Ltac memx :=
    repeat match goal with
      | |- mem (b_mulp _ _ _) => apply (mem_mulp B mem L)
      | |- mem (b_pow _ _ _) => apply (pow_mem B mem L)
      | |- mem (b_gpow _ _) => apply gpow_mem
      | |- mem (b_one _) => apply (mem_one B mem L)
      | |- mem (b_gen _) => apply (mem_gen B mem L)
      | |- mem (Shuffler.prodp _ _) => apply prodp_mem
      | |- mem _ => assumption
      | |- Forall mem (powl _ _) => apply powl_mem
      | |- Forall _ (respl _ _ _) => apply respl_nonneg
      | |- Forall _ _ => assumption
      | |- 0 <= _ => first [assumption | (apply resp1_ok; assumption) | lia | nia]
      end.

  Lemma tw_core pk h0 hs es rs perm label draws :
    mem pk -> mem h0 -> Forall mem hs ->
    Forall (fun c => mem (mhr c) /\ mem (gr c)) es ->
    Permutation perm (iota (length es)) -> (1 <= length es)%nat -> length hs = length es ->
    Forall nonneg rs -> length rs = length es ->
    Forall nonneg draws -> length draws = (4 * length es + 4)%nat ->
    let e_primes := map (reencf pk) (combine (pick de es perm) (pick 0 rs perm)) in
    exists pf, gen_proof B pk (h0 :: hs) es e_primes rs perm label draws = Ok pf /\
               check_proof B pk (h0 :: hs) pf es e_primes label = Ok true.
  Proof.
    intros Hpk Hh0 Hhs Hes HP HN Lhs Hrs Lrs Hdr Ldr e_primes.
    pose proof (perm_length _ _ HP) as Lp. pose proof (perm_range _ _ HP) as HR.
    assert (Hg : mem g) by memt.
    (* shuffled inputs *)
    assert (Lep : length e_primes = length es).
    { unfold e_primes. rewrite map_length, combine_length, !pick_length. lia. }
    assert (Hr' : Forall nonneg (pick 0 rs perm)) by (apply pick_Forall; [rewrite Lrs|]; assumption).
    assert (HA : Forall mem (map (@mhr B) es)).
    { rewrite Forall_map. eapply Forall_impl; [|exact Hes]. cbv beta. intros x [H _]; exact H. }
    assert (HG : Forall mem (map (@gr B) es)).
    { rewrite Forall_map. eapply Forall_impl; [|exact Hes]. cbv beta. intros x [_ H]; exact H. }
    assert (Emhr : map (@mhr B) e_primes = mulpowl pk (pick one (map (@mhr B) es) perm) (pick 0 rs perm)).
    { unfold e_primes. rewrite reenc_mhr. rewrite <- (pick_map (@mhr B) de). reflexivity. }
    assert (Egr : map (@gr B) e_primes = mulpowl g (pick one (map (@gr B) es) perm) (pick 0 rs perm)).
    { unfold e_primes. rewrite reenc_gr. rewrite <- (pick_map (@gr B) de). reflexivity. }
    assert (Hem : Forall mem (map (@mhr B) e_primes)).
    { rewrite Emhr. apply mulpowl_mem; try assumption. apply pick_Forall; [rewrite map_length|]; assumption. }
    assert (Heg : Forall mem (map (@gr B) e_primes)).
    { rewrite Egr. apply mulpowl_mem; try assumption. apply pick_Forall; [rewrite map_length|]; assumption. }
    (* commitments *)
    set (rho := firstn (length es) draws). set (draws' := skipn (length es) draws).
    assert (Lrho : length rho = length es) by (unfold rho; len).
    assert (Ld' : length draws' = (3 * length es + 4)%nat) by (unfold draws'; len).
    assert (Hrho : Forall nonneg rho) by (apply Forall_firstn'; assumption).
    assert (Hd' : Forall nonneg draws') by (apply Forall_skipn'; assumption).
    destruct (gen_commitments_ok hs perm rho (length es) Lhs Lrho HP) as (cp & rp & Egc & Lcp & Lrp & Pc & Pr).
    set (cs0 := mulpowl g hs rho) in *.
    assert (Hcs0 : Forall mem cs0) by (apply mulpowl_mem; assumption).
    assert (Pcp : Permutation cs0 cp) by (rewrite <- Pc; apply pick_perm; rewrite Lcp; exact HP).
    assert (Prp : Permutation rho rp) by (rewrite <- Pr at 1; apply pick_perm; rewrite Lrp; exact HP).
    assert (Hcp : Forall mem cp) by (apply (perm_Forall _ _ _ Pcp Hcs0)).
    assert (Hrp : Forall nonneg rp) by (apply (perm_Forall _ _ _ Prp Hrho)).
    assert (Hph : mem (prodp hs)) by (apply prodp_mem; assumption).
    (* challenges us and their permuted order *)
    set (us := shuffle_us B es e_primes cp (length es) label).
    destruct (shuffle_us_ok es e_primes cp (length es) label) as [Lus Hus]. fold us in Lus, Hus.
    set (u' := pick 0 us perm).
    assert (Eu : mapM (nthZ us) perm = Ok u') by (apply mapM_nthZ; rewrite Lus; exact HR).
    assert (Hu' : Forall nonneg u') by (apply pick_Forall; [rewrite Lus|]; assumption).
    assert (Lu' : length u' = length es) by (unfold u'; rewrite pick_length; exact Lp).
    assert (Pu : Permutation u' us) by (apply pick_perm; rewrite Lus; exact HP).
    (* prover randomness *)
    set (r_hats := firstn (length es) draws').
    set (omegas := firstn 4 (skipn (length es) draws')).
    set (omega_hats := firstn (length es) (skipn (length es + 4) draws')).
    set (omega_primes := skipn (length es + 4 + length es) draws').
    assert (Lrh : length r_hats = length es) by (unfold r_hats; len).
    assert (Loh : length omega_hats = length es) by (unfold omega_hats; len).
    assert (Lop : length omega_primes = length es) by (unfold omega_primes; len).
    assert (Hrh : Forall nonneg r_hats) by (apply Forall_firstn'; assumption).
    assert (Hos : Forall nonneg omegas) by (apply Forall_firstn', Forall_skipn'; assumption).
    assert (Hoh : Forall nonneg omega_hats) by (apply Forall_firstn', Forall_skipn'; assumption).
    assert (Hop : Forall nonneg omega_primes) by (apply Forall_skipn'; assumption).
    set (o0 := nth 0 omegas 0). set (o1 := nth 1 omegas 0). set (o2 := nth 2 omegas 0). set (o3 := nth 3 omegas 0).
    assert (Ho0 : 0 <= o0) by (apply Forall_nth_nonneg; assumption).
    assert (Ho1 : 0 <= o1) by (apply Forall_nth_nonneg; assumption).
    assert (Ho2 : 0 <= o2) by (apply Forall_nth_nonneg; assumption).
    assert (Ho3 : 0 <= o3) by (apply Forall_nth_nonneg; assumption).
    set (c_hats := chain h0 u' r_hats).
    assert (Lch : length c_hats = length es) by (unfold c_hats; rewrite chain_length; lia).
    assert (Hch : Forall mem c_hats) by (apply chain_mem; assumption).
    set (r_bar := b_xmodq B (xsum rp)).
    set (r_hat := b_xmodq B (xsum (map xmulf (combine r_hats (vs_of u'))))).
    set (r_tilde := b_xmodq B (xsum (map xmulf (combine rp us)))).
    set (r_prime := b_xmodq B (xsum (map xmulf (combine rs us)))).
    assert (Hvs : Forall nonneg (vs_of u')) by (apply vs_nonneg; assumption).
    destruct (xmodq_xsum_ok rp Hrp) as [Hrb Erb]. fold r_bar in Hrb, Erb.
    destruct (xmodq_xdot_ok (combine r_hats (vs_of u')) ltac:(apply Forall_combine; assumption)) as [Hrt Ert].
    fold r_hat in Hrt, Ert.
    destruct (xmodq_xdot_ok (combine rp us) ltac:(apply Forall_combine; assumption)) as [Hrl Erl].
    fold r_tilde in Hrl, Erl.
    destruct (xmodq_xdot_ok (combine rs us) ltac:(apply Forall_combine; assumption)) as [Hrp' Erp'].
    fold r_prime in Hrp', Erp'.
    destruct (invp_ok B mem L pk Hpk) as (pk_inv & Epk & Hpki & Hpkinv).
    destruct (invp_ok B mem L g Hg) as (g_inv & Eg & Hgi & Hginv).
    set (t := {| t1 := gpow o0; t2 := gpow o1;
                 t3 := mulp (gpow o2) (prodp (powl hs omega_primes));
                 t41 := mulp (pow pk_inv o3)
                          (prodp (map (fun ew : ctext B * Z => pow (mhr (fst ew)) (snd ew)) (combine e_primes omega_primes)));
                 t42 := mulp (pow g_inv o3)
                          (prodp (map (fun ew : ctext B * Z => pow (gr (fst ew)) (snd ew)) (combine e_primes omega_primes)));
                 t_hats := map thatf (zip3 (h0 :: c_hats) omega_hats omega_primes) |}).
    set (c := shuffle_challenge B es e_primes cp c_hats pk t label).
    assert (Hc : 0 <= c) by apply (hash_range B mem L).
    set (s := {| s1 := resp1 o0 c r_bar; s2 := resp1 o1 c r_hat; s3 := resp1 o2 c r_tilde;
                 s4 := resp1 o3 c r_prime;
                 s_hats := respl c omega_hats r_hats; s_primes := respl c omega_primes u' |}).
    exists {| pf_t := t; pf_s := s; pf_cs := cp; pf_c_hats := c_hats |}.
    split.
    - unfold gen_proof. cbv zeta. rewrite Lhs. fold rho draws'. rewrite Egc. cbn [bind].
      unfold gen_proof_ext. cbv zeta.
      rewrite Lep, Lrs, Lp, Lhs, !Nat.eqb_refl, (proj2 (Nat.ltb_lt _ _) HN). cbn [andb negb].
      rewrite Ld', Nat.eqb_refl. cbn [negb].
      eapply bind_rw; [exact Eu|]. eapply bind_rw; [exact Epk|]. eapply bind_rw; [exact Eg|].
      reflexivity.
    - unfold check_proof. cbv zeta. cbn [pf_t pf_s pf_cs pf_c_hats].
      assert (Lth : length (t_hats B t) = length es).
      { unfold t; cbn [t_hats]. unfold zip3. rewrite map_length, !combine_length. cbn [length]. lia. }
      assert (Lsh : length (s_hats s) = length es) by (unfold s; cbn [s_hats]; rewrite respl_length; lia).
      assert (Lsp : length (s_primes s) = length es) by (unfold s; cbn [s_primes]; rewrite respl_length; lia).
      rewrite Lep, Lcp, Lch, Lth, Lsh, Lsp, !Nat.eqb_refl.
      replace (length es =? 0)%nat with false by (symmetry; apply Nat.eqb_neq; lia).
      cbn [negb orb]. rewrite Lhs, Nat.eqb_refl. cbn [negb].
      fold us. fold c.
      (* c_bar = g^r_bar *)
      destruct (invp_ok B mem L (prodp hs) Hph) as (di & Edi & Hdi & Hdinv).
      eapply bind_rw; [apply divp_ok; exact Edi|]. cbv beta.
      set (c_bar := b_modp B (b_mul B (prodp cp) di)).
      assert (Hzr : 0 <= zsum rho) by (apply zsum_nonneg; assumption).
      assert (F1 : c_bar = gpow r_bar).
      { change c_bar with (mulp (prodp cp) di).
        rewrite <- (prodp_perm cs0 cp Pcp Hcs0). unfold cs0.
        rewrite prod_plain by (try assumption; lia).
        rewrite (mulp_comm B mem L (prodp hs)) by memt.
        rewrite mulp_cancel_r by (try assumption; memt).
        unfold b_gpow. symmetry. apply (pow_congr B mem L); try assumption.
        rewrite Erb. now rewrite (zsum_perm _ _ Prp). }
      assert (Hcb : mem c_bar) by (rewrite F1; memt).
      (* c_hat = g^r_hat *)
      set (u := fold_left (fun acc x : Z => b_xmodq B (b_xmul B acc x)) us 1).
      destruct (uprod_acc us Hus 1 ltac:(lia)) as [Hu0 Eu0]. change (fold_left umulf us 1) with u in Hu0, Eu0.
      destruct (invp_ok B mem L (pow h0 u) ltac:(memt)) as (dh & Edh & Hdh & Hdhinv).
      eapply bind_rw; [apply divp_ok; exact Edh|]. cbv beta.
      set (c_hat := b_modp B (b_mul B (last_or c_hats one) dh)).
      assert (Hzp : 0 <= zprod u') by (apply zprod_nonneg; assumption).
      assert (Hzd : 0 <= zdotp (combine r_hats (vs_of u'))) by (apply zdotp_nonneg, Forall_combine; assumption).
      assert (F2 : c_hat = gpow r_hat).
      { change c_hat with (mulp (last c_hats one) dh).
        rewrite (last_nonempty c_hats one h0) by (intro E0; rewrite E0 in Lch; cbn in Lch; lia).
        unfold c_hats. rewrite chain_closed by (try assumption; lia).
        assert (Eh : pow h0 u = pow h0 (zprod u')).
        { apply (pow_congr B mem L); try assumption.
          rewrite Eu0, Z.mul_1_l. now rewrite (zprod_perm _ _ Pu). }
        rewrite Eh in Hdhinv.
        rewrite mulp_cancel_r by (try assumption; memt).
        unfold b_gpow. symmetry. apply (pow_congr B mem L); assumption. }
      assert (Hchm : mem c_hat) by (rewrite F2; memt).
      destruct (invp_ok B mem L c_bar Hcb) as (i1 & Ei1 & Hi1 & Hinv1).
      eapply bind_rw; [exact Ei1|]. cbv beta.
      destruct (invp_ok B mem L c_hat Hchm) as (i2 & Ei2 & Hi2 & Hinv2).
      eapply bind_rw; [exact Ei2|]. cbv beta.
      (* c_tilde = g^r_tilde * prod h_i^u'_i *)
      set (c_tilde := prodp (map (fun cu : E B * Z => pow (fst cu) (snd cu)) (combine cp us))).
      assert (F3 : c_tilde = mulp (pow g r_tilde) (prodp (powl hs u'))).
      { change c_tilde with (prodp (powl cp us)).
        rewrite <- (prodp_powl_perm cp us cs0 u')
          by (first [assumption | rewrite <- Pc; apply pick_pair_perm; [lia | rewrite Lcp; exact HP]]).
        unfold cs0. rewrite prod_reenc by (try assumption; lia).
        assert (Hz : 0 <= zdotp (combine rho u')) by (apply zdotp_nonneg, Forall_combine; assumption).
        rewrite (mulp_comm B mem L) by memx. f_equal.
        symmetry. apply (pow_congr B mem L); try assumption.
        rewrite Erl. pose proof (zdotp_pick 0 0 rp us perm ltac:(lia) ltac:(rewrite Lrp; exact HP)) as Ez.
        rewrite Pr in Ez. fold u' in Ez. now rewrite Ez. }
      assert (Hctm : mem c_tilde) by (rewrite F3; memx).
      destruct (invp_ok B mem L c_tilde Hctm) as (i3 & Ei3 & Hi3 & Hinv3).
      eapply bind_rw; [exact Ei3|]. cbv beta.
      (* a' and b' *)
      rewrite (powl_map (@mhr B) es us), (powl_map (@gr B) es us).
      rewrite (powl_map (@mhr B) e_primes (s_primes s)), (powl_map (@gr B) e_primes (s_primes s)).
      set (a' := prodp (powl (map (@mhr B) es) us)).
      set (b' := prodp (powl (map (@gr B) es) us)).
      assert (F4 : a' = mulp (pow pk_inv r_prime) (prodp (powl (map (@mhr B) e_primes) u'))).
      { rewrite Emhr. apply agg_reenc; try assumption; rewrite map_length; assumption. }
      assert (F5 : b' = mulp (pow g_inv r_prime) (prodp (powl (map (@gr B) e_primes) u'))).
      { rewrite Egr. apply agg_reenc; try assumption; rewrite map_length; assumption. }
      assert (Ham : mem a') by (apply prodp_mem, powl_mem; assumption).
      assert (Hbm : mem b') by (apply prodp_mem, powl_mem; assumption).
      destruct (invp_ok B mem L a' Ham) as (i4 & Ei4 & Hi4 & Hinv4).
      eapply bind_rw; [exact Ei4|]. cbv beta.
      eapply bind_rw; [exact Epk|]. cbv beta.
      destruct (invp_ok B mem L b' Hbm) as (i5 & Ei5 & Hi5 & Hinv5).
      eapply bind_rw; [exact Ei5|]. cbv beta.
      eapply bind_rw; [exact Eg|]. cbv beta.
      (* chain checks *)
      destruct (chain_checks c Hc u' Hu' r_hats omega_hats omega_primes h0 Hrh Hoh Hop
                  ltac:(lia) ltac:(lia) ltac:(lia) Hh0) as (that & Hm & Hf).
      eapply bind_rw; [exact Hm|]. cbv beta.
      f_equal.
      apply andb_true_intro; split; [|exact Hf].
      rewrite !(modp_mul3 B mem L).
      assert (Hsp : Forall nonneg (s_primes s)) by (unfold s; cbn [s_primes]; memx).
      repeat (apply andb_true_intro; split).
      + apply (eqb_spec B mem L); [unfold t; cbn [t1]; memx | unfold s; cbn [s1]; memx |].
        unfold t, s. cbn [t1 s1]. apply (sig1 o0 r_bar c c_bar i1); assumption.
      + apply (eqb_spec B mem L); [unfold t; cbn [t2]; memx | unfold s; cbn [s2]; memx |].
        unfold t, s. cbn [t2 s2]. apply (sig1 o1 r_hat c c_hat i2); assumption.
      + change (map (fun hs' : E B * Z => pow (fst hs') (snd hs')) (combine hs (s_primes s)))
          with (powl hs (s_primes s)).
        unfold t, s. cbn [t3 s3 s_primes]. unfold b_gpow.
        apply (eqb_spec B mem L); [memx | memx |].
        apply (agg_check g hs o2 r_tilde c c_tilde i3); try assumption; lia.
      + unfold t, s. cbn [t41 s4 s_primes]. rewrite (powl_map (@mhr B) e_primes omega_primes).
        apply (eqb_spec B mem L); [memx | memx |].
        apply (agg_check pk_inv (map (@mhr B) e_primes) o3 r_prime c a' i4); try assumption;
          rewrite map_length; lia.
      + unfold t, s. cbn [t42 s4 s_primes]. rewrite (powl_map (@gr B) e_primes omega_primes).
        apply (eqb_spec B mem L); [memx | memx |].
        apply (agg_check g_inv (map (@gr B) e_primes) o3 r_prime c b' i5); try assumption;
          rewrite map_length; lia.
  Qed.
End ShuffleP.

(* ---------- the completeness theorem ---------- *)
Theorem tw_complete : forall (B : Backend) (mem : E B -> Prop), Laws B mem ->
  forall (pk : E B) (gens : list (E B)) (es : list (ctext B)) (rs_reenc : list Z) (perm : list Z)
         (label : bytes) (draws : list Z) (e_primes : list (ctext B)) (rs' : list Z),
  mem pk -> Forall mem gens ->
  Forall (fun c => mem (mhr c) /\ mem (gr c)) es ->
  Permutation perm (map Z.of_nat (seq 0 (length es))) ->
  (1 <= length es)%nat -> length gens = S (length es) ->
  Forall (fun r => 0 <= r) rs_reenc -> length rs_reenc = length es ->
  Forall (fun r => 0 <= r) draws -> length draws = (4 * length es + 4)%nat ->
  apply_permutation B pk perm es rs_reenc = Ok (e_primes, rs') ->
  exists pf, gen_proof B pk gens es e_primes rs' perm label draws = Ok pf /\
             check_proof B pk gens pf es e_primes label = Ok true.
Proof.
  intros B mem L pk gens es rs perm label draws e_primes rs' Hpk Hgens Hes HP HN Lg Hrs Lrs Hdr Ldr Happ.
  change (map Z.of_nat (seq 0 (length es))) with (iota (length es)) in HP.
  destruct gens as [|h0 hs]; [discriminate|]. cbn [length] in Lg.
  inversion Hgens as [|? ? Hh0 Hhs]; subst.
  destruct (apply_permutation_spec B pk perm es rs e_primes rs' HP Lrs Happ) as [-> ->].
  apply (tw_core B mem L); try assumption. lia.
Qed.

Print Assumptions tw_complete.
