(* Proofs/Base64P.v — facts about Model/Base64.v: the unpadded standard base64 codec is a bijection
   between byte strings and the set of strings the decoder accepts (round trip, injectivity,
   canonicity: padding / non-alphabet bytes / length 1 mod 4 / non-zero trailing bits are all
   rejected), output alphabet and length, no panic; and the signature wrapper built on it: byte and
   string round trips preserve keys and signatures exactly, sign/verify survives any such round
   trip given a complete underlying scheme, and the wrapper is extensional in the underlying
   library (two frontends with the same primitives are the same functions). *)
From Coq Require Import ZArith List Bool Lia.
From Strand Require Import Model.Outcome Model.Codec Model.Base64 Proofs.CodecP.
Import ListNotations.
Open Scope Z_scope.

(* ------------------------------------------------------------------------------------------ *)
(* finite checks                                                                              *)
(* ------------------------------------------------------------------------------------------ *)
Lemma range_check (N : nat) (P : Z -> bool) :
  forallb (fun n => P (Z.of_nat n)) (seq 0 N) = true ->
  forall x, 0 <= x < Z.of_nat N -> P x = true.
Proof.
  intros H x Hx. rewrite forallb_forall in H.
  specialize (H (Z.to_nat x)). rewrite Z2Nat.id in H by lia.
  apply H, in_seq. lia.
Qed.

Definition b64_char (c : Z) : Prop :=
  65 <= c <= 90 \/ 97 <= c <= 122 \/ 48 <= c <= 57 \/ c = 43 \/ c = 47.

Definition b64_charb (c : Z) : bool :=
  ((65 <=? c) && (c <=? 90)) || ((97 <=? c) && (c <=? 122)) || ((48 <=? c) && (c <=? 57))
  || (c =? 43) || (c =? 47).

Lemma b64_charb_spec c : b64_charb c = true -> b64_char c.
Proof. unfold b64_charb, b64_char. lia. Qed.

Lemma unsym_sym x : 0 <= x < 64 -> unsym (sym x) = Some x.
Proof.
  intro Hx.
  pose proof (range_check 64
    (fun x => match unsym (sym x) with Some y => y =? x | None => false end)
    ltac:(vm_compute; reflexivity) x ltac:(simpl; lia)) as H.
  cbv beta in H. destruct (unsym (sym x)); [|discriminate]. f_equal. lia.
Qed.

Lemma sym_char x : 0 <= x < 64 -> b64_char (sym x).
Proof.
  intro Hx. apply b64_charb_spec.
  exact (range_check 64 (fun x => b64_charb (sym x)) ltac:(vm_compute; reflexivity) x
           ltac:(simpl; lia)).
Qed.

Lemma unsym_some c x : unsym c = Some x -> 0 <= x < 64 /\ sym x = c /\ b64_char c.
Proof.
  intro H.
  assert (Hc : 0 <= c < 256).
  { unfold unsym in H.
    repeat match type of H with
           | (if ?b then _ else _) = _ => destruct b eqn:?
           end; try discriminate; lia. }
  pose proof (range_check 256
    (fun c => match unsym c with
              | Some x => (0 <=? x) && (x <? 64) && (sym x =? c) && b64_charb c
              | None => true end)
    ltac:(vm_compute; reflexivity) c ltac:(simpl; lia)) as Hf.
  cbv beta in Hf. rewrite H in Hf.
  apply andb_prop in Hf as [Hf Hch]. apply andb_prop in Hf as [Hf Hs].
  apply andb_prop in Hf as [H0 H1].
  split; [lia|]. split; [lia|]. apply b64_charb_spec, Hch.
Qed.

Lemma unsym_pad : unsym 61 = None.
Proof. reflexivity. Qed.

(* ------------------------------------------------------------------------------------------ *)
(* groups                                                                                     *)
(* ------------------------------------------------------------------------------------------ *)
Local Ltac dm := Z.div_mod_to_equations; lia.

Lemma dec4_enc3 a b c :
  0 <= a < 256 -> 0 <= b < 256 -> 0 <= c < 256 ->
  dec4 (sym (a / 4)) (sym ((a mod 4) * 16 + b / 16)) (sym ((b mod 16) * 4 + c / 64))
       (sym (c mod 64)) = Some [a; b; c].
Proof.
  intros Ha Hb Hc. unfold dec4.
  rewrite !unsym_sym by dm.
  f_equal. f_equal; [dm|]. f_equal; [dm|]. f_equal. dm.
Qed.

Lemma dec3_enc2 a b :
  0 <= a < 256 -> 0 <= b < 256 ->
  dec3 (sym (a / 4)) (sym ((a mod 4) * 16 + b / 16)) (sym ((b mod 16) * 4)) = Some [a; b].
Proof.
  intros Ha Hb. unfold dec3.
  rewrite !unsym_sym by dm.
  replace (b mod 16 * 4 mod 4 =? 0) with true by (symmetry; apply Z.eqb_eq; dm).
  f_equal. f_equal; [dm|]. f_equal. dm.
Qed.

Lemma dec2_enc1 a :
  0 <= a < 256 ->
  dec2 (sym (a / 4)) (sym ((a mod 4) * 16)) = Some [a].
Proof.
  intros Ha. unfold dec2.
  rewrite !unsym_sym by dm.
  replace (a mod 4 * 16 mod 16 =? 0) with true by (symmetry; apply Z.eqb_eq; dm).
  f_equal. f_equal. dm.
Qed.

Lemma dec4_some c1 c2 c3 c4 g :
  dec4 c1 c2 c3 c4 = Some g ->
  exists a b c, g = [a; b; c] /\ 0 <= a < 256 /\ 0 <= b < 256 /\ 0 <= c < 256 /\
                enc3 a b c = [c1; c2; c3; c4].
Proof.
  unfold dec4. intro H.
  destruct (unsym c1) as [w|] eqn:E1; [|discriminate].
  destruct (unsym c2) as [x|] eqn:E2; [|discriminate].
  destruct (unsym c3) as [y|] eqn:E3; [|discriminate].
  destruct (unsym c4) as [z|] eqn:E4; [|discriminate].
  apply unsym_some in E1 as (Hw & <- & _). apply unsym_some in E2 as (Hx & <- & _).
  apply unsym_some in E3 as (Hy & <- & _). apply unsym_some in E4 as (Hz & <- & _).
  injection H as <-. do 3 eexists. split; [reflexivity|].
  split; [dm|]. split; [dm|]. split; [dm|].
  unfold enc3. f_equal; [f_equal; dm|]. f_equal; [f_equal; dm|]. f_equal; [f_equal; dm|].
  f_equal. f_equal. dm.
Qed.

Lemma dec3_some c1 c2 c3 g :
  dec3 c1 c2 c3 = Some g ->
  exists a b, g = [a; b] /\ 0 <= a < 256 /\ 0 <= b < 256 /\ enc2 a b = [c1; c2; c3].
Proof.
  unfold dec3. intro H.
  destruct (unsym c1) as [w|] eqn:E1; [|discriminate].
  destruct (unsym c2) as [x|] eqn:E2; [|discriminate].
  destruct (unsym c3) as [y|] eqn:E3; [|discriminate].
  destruct (Z.eqb_spec (y mod 4) 0) as [Hy0|]; [|discriminate].
  apply unsym_some in E1 as (Hw & <- & _). apply unsym_some in E2 as (Hx & <- & _).
  apply unsym_some in E3 as (Hy & <- & _).
  injection H as <-. do 2 eexists. split; [reflexivity|].
  split; [dm|]. split; [dm|].
  unfold enc2. f_equal; [f_equal; dm|]. f_equal; [f_equal; dm|]. f_equal. f_equal. dm.
Qed.

Lemma dec2_some c1 c2 g :
  dec2 c1 c2 = Some g ->
  exists a, g = [a] /\ 0 <= a < 256 /\ enc1 a = [c1; c2].
Proof.
  unfold dec2. intro H.
  destruct (unsym c1) as [w|] eqn:E1; [|discriminate].
  destruct (unsym c2) as [x|] eqn:E2; [|discriminate].
  destruct (Z.eqb_spec (x mod 16) 0) as [Hx0|]; [|discriminate].
  apply unsym_some in E1 as (Hw & <- & _). apply unsym_some in E2 as (Hx & <- & _).
  injection H as <-. eexists. split; [reflexivity|].
  split; [dm|].
  unfold enc1. f_equal; [f_equal; dm|]. f_equal. f_equal. dm.
Qed.

(* ------------------------------------------------------------------------------------------ *)
(* induction in groups of 3 / 4, unfolding equations                                          *)
(* ------------------------------------------------------------------------------------------ *)
Lemma list_ind3 {A} (P : list A -> Prop) :
  P [] -> (forall a, P [a]) -> (forall a b, P [a; b]) ->
  (forall a b c r, P r -> P (a :: b :: c :: r)) -> forall l, P l.
Proof.
  intros H0 H1 H2 H3.
  fix IH 1. intros [|a [|b [|c r]]]; [apply H0|apply H1|apply H2|apply H3, IH].
Qed.

Lemma list_ind4 {A} (P : list A -> Prop) :
  P [] -> (forall a, P [a]) -> (forall a b, P [a; b]) -> (forall a b c, P [a; b; c]) ->
  (forall a b c d r, P r -> P (a :: b :: c :: d :: r)) -> forall l, P l.
Proof.
  intros H0 H1 H2 H3 H4.
  fix IH 1. intros [|a [|b [|c [|d r]]]]; [apply H0|apply H1|apply H2|apply H3|apply H4, IH].
Qed.

Lemma b64_encode_3 a b c r : b64_encode (a :: b :: c :: r) = enc3 a b c ++ b64_encode r.
Proof. reflexivity. Qed.

Lemma b64_decode_4 c1 c2 c3 c4 r :
  b64_decode (c1 :: c2 :: c3 :: c4 :: r) =
  match dec4 c1 c2 c3 c4 with
  | Some g => bind (b64_decode r) (fun l => Ok (g ++ l))
  | None => Err
  end.
Proof. reflexivity. Qed.

(* ------------------------------------------------------------------------------------------ *)
(* the codec                                                                                  *)
(* ------------------------------------------------------------------------------------------ *)
Theorem b64_round_trip : forall bs, bytes_ok bs -> b64_decode (b64_encode bs) = Ok bs.
Proof.
  induction bs as [|a|a b|a b c r IH] using list_ind3; intro H.
  - reflexivity.
  - inversion H as [|? ? Ha _]; subst.
    cbn [b64_encode]. unfold enc1. cbn [b64_decode]. rewrite dec2_enc1 by exact Ha.
    reflexivity.
  - inversion H as [|? ? Ha H']; subst. inversion H' as [|? ? Hb _]; subst.
    cbn [b64_encode]. unfold enc2. cbn [b64_decode]. rewrite dec3_enc2 by assumption.
    reflexivity.
  - inversion H as [|? ? Ha H']; subst. inversion H' as [|? ? Hb H'']; subst.
    inversion H'' as [|? ? Hc Hr]; subst.
    rewrite b64_encode_3. unfold enc3. cbn [app].
    rewrite b64_decode_4, dec4_enc3, IH by assumption. reflexivity.
Qed.
Print Assumptions b64_round_trip.

Theorem b64_encode_injective : forall a b,
  bytes_ok a -> bytes_ok b -> b64_encode a = b64_encode b -> a = b.
Proof.
  intros a b Ha Hb E. apply b64_round_trip in Ha, Hb. rewrite E in Ha. congruence.
Qed.
Print Assumptions b64_encode_injective.

(* every output symbol is one of A-Z a-z 0-9 + / (in particular never '=', never whitespace) *)
Theorem b64_encode_alphabet : forall bs, bytes_ok bs -> Forall b64_char (b64_encode bs).
Proof.
  induction bs as [|a|a b|a b c r IH] using list_ind3; intro H.
  - constructor.
  - inversion H as [|? ? Ha _]; subst. cbn [b64_encode]. unfold enc1.
    repeat (apply Forall_cons; [apply sym_char; dm|]); apply Forall_nil.
  - inversion H as [|? ? Ha H']; subst. inversion H' as [|? ? Hb _]; subst.
    cbn [b64_encode]. unfold enc2. repeat (apply Forall_cons; [apply sym_char; dm|]); apply Forall_nil.
  - inversion H as [|? ? Ha H']; subst. inversion H' as [|? ? Hb H'']; subst.
    inversion H'' as [|? ? Hc Hr]; subst.
    rewrite b64_encode_3. apply Forall_app. split; [|apply IH, Hr].
    unfold enc3. repeat (apply Forall_cons; [apply sym_char; dm|]); apply Forall_nil.
Qed.
Print Assumptions b64_encode_alphabet.

Theorem b64_encode_length : forall bs,
  length (b64_encode bs) = ((4 * length bs + 2) / 3)%nat.
Proof.
  induction bs as [|a|a b|a b c r IH] using list_ind3; try reflexivity.
  rewrite b64_encode_3, app_length, IH. cbn [length enc3].
  replace (4 * S (S (S (length r))) + 2)%nat with ((4 * length r + 2) + 4 * 3)%nat by lia.
  rewrite Nat.div_add by lia. lia.
Qed.
Print Assumptions b64_encode_length.

Theorem b64_decode_no_panic : forall s, b64_decode s <> Panic.
Proof.
  induction s as [|c1|c1 c2|c1 c2 c3|c1 c2 c3 c4 r IH] using list_ind4.
  - discriminate.
  - discriminate.
  - cbn [b64_decode]. destruct (dec2 c1 c2); discriminate.
  - cbn [b64_decode]. destruct (dec3 c1 c2 c3); discriminate.
  - rewrite b64_decode_4. destruct (dec4 c1 c2 c3 c4); [|discriminate].
    destruct (b64_decode r); [discriminate|discriminate|congruence].
Qed.
Print Assumptions b64_decode_no_panic.

(* decoding accepts ONLY the canonical unpadded encoding of a byte string: anything with padding,
   a byte outside the alphabet, a length of 1 mod 4 or non-zero trailing bits is not in the image
   of [b64_encode] and is therefore refused *)
Theorem b64_decode_canonical : forall s bs,
  b64_decode s = Ok bs -> b64_encode bs = s /\ bytes_ok bs.
Proof.
  induction s as [|c1|c1 c2|c1 c2 c3|c1 c2 c3 c4 r IH] using list_ind4; intros bs H.
  - injection H as <-. split; [reflexivity|constructor].
  - discriminate.
  - cbn [b64_decode] in H. destruct (dec2 c1 c2) as [g|] eqn:E; [|discriminate].
    injection H as <-. apply dec2_some in E as (a & -> & Ha & E).
    split; [exact E|]. repeat constructor; lia.
  - cbn [b64_decode] in H. destruct (dec3 c1 c2 c3) as [g|] eqn:E; [|discriminate].
    injection H as <-. apply dec3_some in E as (a & b & -> & Ha & Hb & E).
    split; [exact E|]. repeat constructor; lia.
  - rewrite b64_decode_4 in H. destruct (dec4 c1 c2 c3 c4) as [g|] eqn:E; [|discriminate].
    destruct (b64_decode r) as [l| |] eqn:El; try discriminate.
    injection H as <-. apply dec4_some in E as (a & b & c & -> & Ha & Hb & Hc & E).
    destruct (IH l eq_refl) as [IH1 IH2]. cbn [app].
    split.
    + rewrite b64_encode_3, E, IH1. reflexivity.
    + repeat (constructor; [lia|]). exact IH2.
Qed.
Print Assumptions b64_decode_canonical.

(* the decoder is exactly the partial inverse of the encoder *)
Corollary b64_decode_ok_iff : forall s bs,
  b64_decode s = Ok bs <-> (bytes_ok bs /\ b64_encode bs = s).
Proof.
  intros s bs. split.
  - intro H. apply b64_decode_canonical in H. tauto.
  - intros [H <-]. apply b64_round_trip, H.
Qed.
Print Assumptions b64_decode_ok_iff.

Corollary b64_decode_injective : forall s t bs,
  b64_decode s = Ok bs -> b64_decode t = Ok bs -> s = t.
Proof.
  intros s t bs Hs Ht. apply b64_decode_canonical in Hs as [<- _].
  apply b64_decode_canonical in Ht as [<- _]. reflexivity.
Qed.
Print Assumptions b64_decode_injective.

(* any symbol outside the alphabet anywhere in the input is refused *)
Theorem b64_rejects_non_alphabet : forall s c, In c s -> ~ b64_char c -> b64_decode s = Err.
Proof.
  intros s c Hin Hc.
  destruct (b64_decode s) as [bs| |] eqn:E; [|reflexivity|exfalso; eapply b64_decode_no_panic, E].
  exfalso. apply b64_decode_canonical in E as [<- Hok].
  apply b64_encode_alphabet in Hok. rewrite Forall_forall in Hok. apply Hc, Hok, Hin.
Qed.
Print Assumptions b64_rejects_non_alphabet.

Theorem b64_rejects_padding : forall s, In 61 s -> b64_decode s = Err.            (* '=' *)
Proof.
  intros s H. apply (b64_rejects_non_alphabet s 61 H). unfold b64_char. lia.
Qed.
Print Assumptions b64_rejects_padding.

Theorem b64_rejects_len1mod4 : forall s, (length s mod 4 = 1)%nat -> b64_decode s = Err.
Proof.
  induction s as [|c1|c1 c2|c1 c2 c3|c1 c2 c3 c4 r IH] using list_ind4; intro H;
    try (cbn in H; discriminate); try reflexivity.
  rewrite b64_decode_4.
  assert (Hr : (length r mod 4 = 1)%nat).
  { cbn [length] in H.
    replace (S (S (S (S (length r))))) with (length r + 1 * 4)%nat in H by lia.
    rewrite Nat.mod_add in H by lia. exact H. }
  rewrite (IH Hr). destruct (dec4 c1 c2 c3 c4); reflexivity.
Qed.
Print Assumptions b64_rejects_len1mod4.

(* non-zero trailing bits in the last symbol are refused (2-symbol and 3-symbol tails) *)
Theorem b64_rejects_trailing_bits2 : forall c1 c2 x,
  unsym c2 = Some x -> x mod 16 <> 0 -> b64_decode [c1; c2] = Err.
Proof.
  intros c1 c2 x Hx Hn. cbn [b64_decode]. unfold dec2. rewrite Hx.
  destruct (unsym c1); [|reflexivity].
  destruct (Z.eqb_spec (x mod 16) 0); [contradiction|reflexivity].
Qed.
Print Assumptions b64_rejects_trailing_bits2.

Theorem b64_rejects_trailing_bits3 : forall c1 c2 c3 y,
  unsym c3 = Some y -> y mod 4 <> 0 -> b64_decode [c1; c2; c3] = Err.
Proof.
  intros c1 c2 c3 y Hy Hn. cbn [b64_decode]. unfold dec3. rewrite Hy.
  destruct (unsym c1); [|reflexivity]. destruct (unsym c2); [|reflexivity].
  destruct (Z.eqb_spec (y mod 4) 0); [contradiction|reflexivity].
Qed.
Print Assumptions b64_rejects_trailing_bits3.

(* ------------------------------------------------------------------------------------------ *)
(* the signature wrapper                                                                      *)
(* ------------------------------------------------------------------------------------------ *)
Section SigP.
  Variable sk_valid pk_valid sig_valid : bytes -> bool.
  Variable pk_of_sk : bytes -> bytes.
  Variable sign : bytes -> bytes -> bytes.
  Variable verify : bytes -> bytes -> bytes -> bool.

  Local Notation kvalid := (kvalid sk_valid pk_valid sig_valid).
  Local Notation w_deserialize := (w_deserialize sk_valid pk_valid sig_valid).
  Local Notation w_serialize := (w_serialize sk_valid pk_valid sig_valid).
  Local Notation w_to_string := (w_to_string sk_valid pk_valid sig_valid).
  Local Notation w_from_string := (w_from_string sk_valid pk_valid sig_valid).
  Local Notation w_public_key := (w_public_key sk_valid pk_valid sig_valid pk_of_sk).
  Local Notation w_sign := (w_sign sk_valid pk_valid sig_valid sign).
  Local Notation w_verify := (w_verify sk_valid pk_valid sig_valid verify).

  Lemma w_deserialize_ok k bs v :
    w_deserialize k bs = Ok v <-> (v = bs /\ length bs = klen k /\ kvalid k bs = true).
  Proof.
    unfold Base64.w_deserialize.
    destruct (Nat.eqb_spec (length bs) (klen k)) as [Hl|Hl].
    - destruct (kvalid k bs) eqn:Hv; split.
      + intro H. injection H as <-. auto.
      + intros (-> & _ & _). reflexivity.
      + discriminate.
      + intros (_ & _ & H). discriminate.
    - split; [discriminate|]. intros (_ & H & _). contradiction.
  Qed.

  Lemma w_deserialize_intro k bs :
    length bs = klen k -> kvalid k bs = true -> w_deserialize k bs = Ok bs.
  Proof. intros Hl Hv. apply w_deserialize_ok. auto. Qed.

  Theorem w_deserialize_no_panic : forall k bs, w_deserialize k bs <> Panic.
  Proof.
    intros k bs. unfold Base64.w_deserialize.
    destruct (length bs =? klen k)%nat; [|discriminate]. destruct (kvalid k bs); discriminate.
  Qed.

  (* byte round trip: deserialize returns exactly the input bytes, and is idempotent *)
  Theorem w_bytes_round_trip : forall k bs v,
    w_deserialize k bs = Ok v -> v = bs /\ w_serialize k v = Ok bs /\ w_deserialize k v = Ok v.
  Proof.
    intros k bs v H. pose proof H as H'. apply w_deserialize_ok in H' as (-> & _ & _).
    unfold Base64.w_serialize. auto.
  Qed.

  (* wrong length is always refused, whatever the library says *)
  Theorem w_deserialize_wrong_length : forall k bs,
    length bs <> klen k -> w_deserialize k bs = Err.
  Proof.
    intros k bs H. unfold Base64.w_deserialize.
    destruct (Nat.eqb_spec (length bs) (klen k)); [contradiction|reflexivity].
  Qed.

  (* string round trip *)
  Theorem w_string_round_trip : forall k bs,
    bytes_ok bs -> w_deserialize k bs = Ok bs ->
    exists s, w_to_string k bs = Ok s /\ w_from_string k s = Ok bs.
  Proof.
    intros k bs Hok H. exists (b64_encode bs).
    unfold Base64.w_to_string, Base64.w_from_string. rewrite H. cbn [bind].
    rewrite b64_round_trip by exact Hok. cbn [bind]. auto.
  Qed.

  Theorem w_to_string_ok : forall k bs s,
    w_to_string k bs = Ok s ->
    s = b64_encode bs /\ length bs = klen k /\ kvalid k bs = true /\
    length s = ((4 * klen k + 2) / 3)%nat.
  Proof.
    intros k bs s H. unfold Base64.w_to_string in H.
    apply bind_ok in H as (v & Hv & H). injection H as <-.
    apply w_deserialize_ok in Hv as (-> & Hl & Hv).
    repeat split; auto. rewrite b64_encode_length, Hl. reflexivity.
  Qed.

  (* only the canonical string of a valid value of the right size parses *)
  Theorem w_from_string_sound : forall k s bs,
    w_from_string k s = Ok bs ->
    length bs = klen k /\ kvalid k bs = true /\ b64_encode bs = s /\ bytes_ok bs /\
    w_to_string k bs = Ok s.
  Proof.
    intros k s bs H. unfold Base64.w_from_string in H.
    apply bind_ok in H as (v & Hd & H). pose proof H as H'.
    apply w_deserialize_ok in H as (-> & Hl & Hv).
    apply b64_decode_canonical in Hd as [He Hok].
    repeat split; auto. unfold Base64.w_to_string. rewrite H'. cbn [bind]. rewrite He.
    reflexivity.
  Qed.

  Theorem w_from_string_no_panic : forall k s, w_from_string k s <> Panic.
  Proof.
    intros k s. unfold Base64.w_from_string.
    destruct (b64_decode s) eqn:E; cbn [bind]; [apply w_deserialize_no_panic|discriminate|].
    exfalso. eapply b64_decode_no_panic, E.
  Qed.

  (* two strings that parse to the same value are the same string *)
  Theorem w_from_string_injective : forall k s t bs,
    w_from_string k s = Ok bs -> w_from_string k t = Ok bs -> s = t.
  Proof.
    intros k s t bs Hs Ht. apply w_from_string_sound in Hs as (_ & _ & <- & _).
    apply w_from_string_sound in Ht as (_ & _ & <- & _). reflexivity.
  Qed.

  Theorem w_from_string_rejects_padding : forall k s, In 61 s -> w_from_string k s = Err.
  Proof.
    intros k s H. unfold Base64.w_from_string. rewrite b64_rejects_padding by exact H.
    reflexivity.
  Qed.

  (* string lengths: 43 symbols for keys, 86 for signatures; everything else is refused *)
  Theorem w_from_string_length : forall k s bs,
    w_from_string k s = Ok bs -> length s = match k with KSig => 86%nat | _ => 43%nat end.
  Proof.
    intros k s bs H. apply w_from_string_sound in H as (Hl & _ & <- & _).
    rewrite b64_encode_length, Hl. destruct k; reflexivity.
  Qed.

  (* completeness of the underlying scheme, as hypotheses *)
  Section Complete.
    Hypothesis pk_of_sk_valid : forall sk,
      length sk = 32%nat -> sk_valid sk = true ->
      length (pk_of_sk sk) = 32%nat /\ pk_valid (pk_of_sk sk) = true /\ bytes_ok (pk_of_sk sk).
    Hypothesis sign_valid : forall sk m,
      length sk = 32%nat -> sk_valid sk = true ->
      length (sign sk m) = 64%nat /\ sig_valid (sign sk m) = true /\ bytes_ok (sign sk m).
    Hypothesis verify_complete : forall sk m,
      length sk = 32%nat -> sk_valid sk = true ->
      verify (pk_of_sk sk) (sign sk m) m = true.

    Theorem w_sign_verify : forall sk msg,
      w_deserialize KSk sk = Ok sk ->
      exists sg pk, w_sign sk msg = Ok sg /\ w_public_key sk = Ok pk /\
                    w_verify pk sg msg = Ok true.
    Proof.
      intros sk msg H. pose proof H as H'. apply w_deserialize_ok in H' as (_ & Hl & Hv).
      cbn in Hl, Hv.
      destruct (pk_of_sk_valid sk Hl Hv) as (Hpl & Hpv & _).
      destruct (sign_valid sk msg Hl Hv) as (Hsl & Hsv & _).
      exists (sign sk msg), (pk_of_sk sk).
      unfold Base64.w_sign, Base64.w_public_key, Base64.w_verify. rewrite H. cbn [bind].
      rewrite (w_deserialize_intro KPk), (w_deserialize_intro KSig) by assumption.
      cbn [bind]. rewrite verify_complete by assumption. auto.
    Qed.

    Theorem w_sign_verify_after_round_trips : forall sk msg,
      bytes_ok sk -> w_deserialize KSk sk = Ok sk ->
      exists sg pks sks sgs,
        w_sign sk msg = Ok sg /\
        w_to_string KPk (pk_of_sk sk) = Ok pks /\
        w_to_string KSk sk = Ok sks /\
        w_to_string KSig sg = Ok sgs /\
        exists pk' sk' sg',
          w_from_string KPk pks = Ok pk' /\ w_from_string KSk sks = Ok sk' /\
          w_from_string KSig sgs = Ok sg' /\
          sk' = sk /\ pk' = pk_of_sk sk /\ sg' = sg /\
          w_deserialize KSk sk' = Ok sk' /\ w_deserialize KPk pk' = Ok pk' /\
          w_deserialize KSig sg' = Ok sg' /\
          w_sign sk' msg = Ok sg /\ w_verify pk' sg' msg = Ok true.
    Proof.
      intros sk msg Hok H. pose proof H as H'. apply w_deserialize_ok in H' as (_ & Hl & Hv).
      cbn in Hl, Hv.
      destruct (pk_of_sk_valid sk Hl Hv) as (Hpl & Hpv & Hpok).
      destruct (sign_valid sk msg Hl Hv) as (Hsl & Hsv & Hsok).
      pose proof (w_deserialize_intro KPk _ Hpl Hpv) as Hp.
      pose proof (w_deserialize_intro KSig _ Hsl Hsv) as Hs.
      destruct (w_string_round_trip KPk _ Hpok Hp) as (pks & Hpks & Hpks').
      destruct (w_string_round_trip KSk _ Hok H) as (sks & Hsks & Hsks').
      destruct (w_string_round_trip KSig _ Hsok Hs) as (sgs & Hsgs & Hsgs').
      assert (Hsign : w_sign sk msg = Ok (sign sk msg)).
      { unfold Base64.w_sign. rewrite H. reflexivity. }
      exists (sign sk msg), pks, sks, sgs. repeat (split; [assumption|]).
      exists (pk_of_sk sk), sk, (sign sk msg). repeat (split; [assumption || reflexivity|]).
      unfold Base64.w_verify. rewrite Hp, Hs. cbn [bind].
      rewrite verify_complete by assumption. reflexivity.
    Qed.
  End Complete.
End SigP.

Print Assumptions w_deserialize_no_panic.
Print Assumptions w_deserialize_wrong_length.
Print Assumptions w_bytes_round_trip.
Print Assumptions w_string_round_trip.
Print Assumptions w_to_string_ok.
Print Assumptions w_from_string_sound.
Print Assumptions w_from_string_no_panic.
Print Assumptions w_from_string_injective.
Print Assumptions w_from_string_rejects_padding.
Print Assumptions w_from_string_length.
Print Assumptions w_sign_verify.
Print Assumptions w_sign_verify_after_round_trips.

(* Two frontends (ed25519-zebra / ed25519-dalek) are two instantiations of the same wrapper
   functions; if their primitives agree pointwise, every wrapper operation agrees on every input. *)
Theorem w_frontends_agree :
  forall skv pkv sgv p2s sgn vfy skv' pkv' sgv' p2s' sgn' vfy',
    (forall b, skv b = skv' b) -> (forall b, pkv b = pkv' b) -> (forall b, sgv b = sgv' b) ->
    (forall b, p2s b = p2s' b) -> (forall s m, sgn s m = sgn' s m) ->
    (forall p s m, vfy p s m = vfy' p s m) ->
    (forall k bs, w_deserialize skv pkv sgv k bs = w_deserialize skv' pkv' sgv' k bs) /\
    (forall k bs, w_to_string skv pkv sgv k bs = w_to_string skv' pkv' sgv' k bs) /\
    (forall k s, w_from_string skv pkv sgv k s = w_from_string skv' pkv' sgv' k s) /\
    (forall sk, w_public_key skv pkv sgv p2s sk = w_public_key skv' pkv' sgv' p2s' sk) /\
    (forall sk m, w_sign skv pkv sgv sgn sk m = w_sign skv' pkv' sgv' sgn' sk m) /\
    (forall pk sg m, w_verify skv pkv sgv vfy pk sg m = w_verify skv' pkv' sgv' vfy' pk sg m).
Proof.
  intros skv pkv sgv p2s sgn vfy skv' pkv' sgv' p2s' sgn' vfy' Hsk Hpk Hsg Hp Hs Hv.
  assert (D : forall k bs, w_deserialize skv pkv sgv k bs = w_deserialize skv' pkv' sgv' k bs).
  { intros k bs. unfold w_deserialize. destruct k; cbn [kvalid]; rewrite ?Hsk, ?Hpk, ?Hsg;
      reflexivity. }
  split; [exact D|].
  split. { intros k bs. unfold w_to_string. rewrite D. reflexivity. }
  split. { intros k s. unfold w_from_string. destruct (b64_decode s); cbn [bind]; auto. }
  split. { intros sk. unfold w_public_key. rewrite D.
           destruct (w_deserialize skv' pkv' sgv' KSk sk); cbn [bind]; rewrite ?Hp; reflexivity. }
  split. { intros sk m. unfold w_sign. rewrite D.
           destruct (w_deserialize skv' pkv' sgv' KSk sk); cbn [bind]; rewrite ?Hs; reflexivity. }
  intros pk sg m. unfold w_verify. rewrite !D.
  destruct (w_deserialize skv' pkv' sgv' KPk pk); cbn [bind]; try reflexivity.
  destruct (w_deserialize skv' pkv' sgv' KSig sg); cbn [bind]; rewrite ?Hv; reflexivity.
Qed.
Print Assumptions w_frontends_agree.
