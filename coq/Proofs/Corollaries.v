(* Proofs/Corollaries.v — the API-level statements (public wrappers, ciphertext-bound proofs, verifiable
   decryption) derived from Proofs/ElgamalP.v and Proofs/SigmaP.v, for any lawful backend; and their
   instances at the multiplicative backends including plaintext encoding. *)
From Coq Require Import ZArith Znumtheory List Lia Bool.
From Strand Require Import Base.ZUtil Model.Outcome Model.Codec Model.Backend Model.ZBackend Model.Zkp
  Proofs.Laws Proofs.ZLaws Proofs.ElgamalP Proofs.SigmaP Proofs.ZInst.
Open Scope Z_scope.

Section Generic.
  Variable B : Backend.
  Variable mem : E B -> Prop.
  Hypothesis L : Laws B mem.
  Notation pow := (b_pow B).

  Theorem schnorr_complete secret g label r :
    (forall b, g = Some b -> mem b) -> 0 <= secret -> 0 <= r ->
    schnorr_verify B (pow (base_or_gen B g) secret) g
      (schnorr_prove B secret (pow (base_or_gen B g) secret) g label r) label = true.
  Proof. intros. apply (schnorr_complete_private B mem L); assumption. Qed.

  Theorem cp_complete secret g1 g2 label r :
    (forall b, g1 = Some b -> mem b) -> mem g2 -> 0 <= secret -> 0 <= r ->
    cp_verify B (pow (base_or_gen B g1) secret) (pow g2 secret) g1 g2
      (cp_prove B secret (pow (base_or_gen B g1) secret) (pow g2 secret) g1 g2 label r) label = true.
  Proof. intros. apply (cp_complete_private B mem L); assumption. Qed.

  (* default generator and the same generator passed explicitly are interchangeable, prover and verifier *)
  Theorem schnorr_default_explicit secret pub label r pf :
    schnorr_prove B secret pub None label r = schnorr_prove B secret pub (Some (b_gen B)) label r /\
    schnorr_verify B pub None pf label = schnorr_verify B pub (Some (b_gen B)) pf label.
  Proof. split; reflexivity. Qed.

  Theorem cp_default_explicit secret pub1 pub2 g2 label r pf :
    cp_prove B secret pub1 pub2 None g2 label r = cp_prove B secret pub1 pub2 (Some (b_gen B)) g2 label r /\
    cp_verify B pub1 pub2 None g2 pf label = cp_verify B pub1 pub2 (Some (b_gen B)) g2 pf label.
  Proof. split; reflexivity. Qed.

  (* encrypt_and_pok: the ciphertext decrypts and the plaintext-knowledge proof verifies *)
  Theorem encrypt_and_pok_ok sk m label r nonce :
    0 <= sk -> 0 <= r -> 0 <= nonce -> mem m ->
    let '(c, pf) := encrypt_and_pok B (pk_of_sk B sk) m label r nonce in
    decrypt B sk c = Ok m /\ encryption_popk_verify B (mhr c) (gr c) pf label = true.
  Proof.
    intros Hsk Hr Hn Hm. unfold encrypt_and_pok. split.
    - apply (decrypt_encrypt B mem L); assumption.
    - cbn [encrypt_with_randomness mhr gr]. unfold encryption_popk_verify, encryption_popk, b_gpow.
      apply (schnorr_complete_private B mem L r None); [discriminate|assumption|assumption].
  Qed.

  (* verifiable decryption, completeness: the released factor verifies and dividing by it decrypts *)
  Theorem decrypt_and_prove_ok sk c label r :
    0 <= sk -> 0 <= r -> mem (mhr c) -> mem (gr c) ->
    exists d pf, decrypt_and_prove B sk (pk_of_sk B sk) c label r = Ok (d, pf) /\
      decrypt B sk c = Ok d /\
      verify_decryption B (pk_of_sk B sk) (decryption_factor B sk c) (mhr c) (gr c) pf label = true.
  Proof.
    intros Hsk Hr Hm Hg.
    destruct (decrypt_char B mem L sk c Hm Hg Hsk) as (i & D & Hi & Hinv).
    unfold decrypt_and_prove, decrypt, b_divp in *.
    destruct (b_invp B (pow (gr c) sk)) as [i'| |] eqn:Ei; cbn [bind] in *; try discriminate.
    eexists. eexists. split; [reflexivity|]. split; [reflexivity|].
    unfold verify_decryption, decryption_proof, decryption_factor, pk_of_sk, b_gpow.
    apply (cp_complete_private B mem L sk None (gr c)); [discriminate|assumption|assumption|assumption].
  Qed.

  (* soundness half that is a theorem: an accepted decryption proof satisfies both equations for the
     hashed challenge; with SigmaP.schnorr_special_soundness-style extraction this pins the factor *)
  Theorem verify_decryption_spec pk f c pf label :
    mem pk -> mem f -> mem (mhr c) -> mem (gr c) -> mem (c_com1 B pf) -> mem (c_com2 B pf) ->
    0 <= c_chal B pf -> 0 <= c_resp B pf ->
    (verify_decryption B pk f (mhr c) (gr c) pf label = true <->
     c_chal B pf = cp_challenge B (b_gen B) (gr c) pk f (c_com1 B pf) (c_com2 B pf) (ctx_mhr_label B (mhr c) label) /\
     pow (b_gen B) (c_resp B pf) = b_mulp B (c_com1 B pf) (pow pk (c_chal B pf)) /\
     pow (gr c) (c_resp B pf) = b_mulp B (c_com2 B pf) (pow f (c_chal B pf))).
  Proof.
    intros. unfold verify_decryption.
    apply (cp_verify_spec B mem L pk f None (gr c) pf); try assumption. discriminate.
  Qed.
End Generic.

(* ---------- instances at the multiplicative backends ---------- *)
Section Mult.
  Variable K : Kernel.
  Variable fl : flavor.
  Variable P : Params.
  Hypothesis S : SafePrime P.
  Notation B := (ZB K fl P).
  Let L : Laws B (member P) := ZB_laws K fl P (sp_good P S).

  (* the documented API round trip: encode, encrypt, decrypt, decode *)
  Theorem elgamal_roundtrip sk r pt : 0 <= sk -> 0 <= r -> 0 <= pt < p_q P - 1 ->
    exists e d, encode K P pt = Ok e /\
                decrypt B sk (encrypt_with_randomness B (pk_of_sk B sk) e r) = Ok d /\
                decode P d = Ok pt.
  Proof.
    intros Hsk Hr Hpt. destruct (encode_decode K P S pt Hpt) as (e & He & Hm & Hd).
    exists e, e. split; [exact He|]. split; [|exact Hd].
    apply (decrypt_encrypt B (member P) L); assumption.
  Qed.
End Mult.
