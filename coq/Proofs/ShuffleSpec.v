(* Proofs/ShuffleSpec.v — decision characterisation of the shuffle verifier `check_proof` of
   Model/Shuffler.v over any lawful backend and ANY hash function: on decoded (member) input the
   code-shaped verifier (invp / divp / unreduced triple products / forallb / mapM) returns `Ok true`
   exactly when the component counts are right and the division-free Terelius-Wikstrom equations hold
   for the challenges recomputed from the complete statement; it returns `Ok false` on any wrong count;
   it never panics or errs. Consequence (q prime, g <> 1): an accepted proof stops being accepted when
   one of its responses s1, s2, s3, s4 or the vector s_hats is replaced by other canonical exponents. *)
From Coq Require Import ZArith Znumtheory List Lia Bool.
From Strand Require Import Base.Fermat Model.Outcome Model.Codec Model.Backend Model.Zkp Model.Shuffler
  Proofs.Laws Proofs.SigmaP Proofs.ListAlg Proofs.ShuffleP.
Import ListNotations.
Open Scope Z_scope.
Local Notation length := List.length.

Section Spec.
  Variable B : Backend.
  Variable mem : E B -> Prop.
  Hypothesis L : Laws B mem.
  Notation q := (b_q B).
  Notation mulp := (b_mulp B).
  Notation pow := (b_pow B).
  Notation gpow := (b_gpow B).
  Notation one := (b_one B).
  Notation nonneg := (fun r : Z => 0 <= r).

  (* ---------- the declarative side ---------- *)
  (* well-formedness of what a decoder hands to the verifier *)
  Definition wf_ct (c : ctext B) : Prop := mem (mhr c) /\ mem (gr c).

  Definition wf_proof (pf : sproof B) : Prop :=
    let t := pf_t B pf in let s := pf_s B pf in
    mem (t1 B t) /\ mem (t2 B t) /\ mem (t3 B t) /\ mem (t41 B t) /\ mem (t42 B t) /\ Forall mem (t_hats B t) /\
    0 <= s1 s /\ 0 <= s2 s /\ 0 <= s3 s /\ 0 <= s4 s /\
    Forall (fun x => 0 <= x) (s_hats s) /\ Forall (fun x => 0 <= x) (s_primes s) /\
    Forall mem (pf_cs B pf) /\ Forall mem (pf_c_hats B pf).

  Definition lengths_ok (pf : sproof B) (es e_primes : list (ctext B)) : Prop :=
    let N := length es in
    (1 <= N)%nat /\ length e_primes = N /\ length (pf_cs B pf) = N /\ length (pf_c_hats B pf) = N /\
    length (t_hats B (pf_t B pf)) = N /\ length (s_hats (pf_s B pf)) = N /\ length (s_primes (pf_s B pf)) = N.

  (* the division-free Terelius-Wikstrom equations for challenges us (per ciphertext) and c (final) *)
  Definition tw_equations (pk h0 : E B) (hs : list (E B)) (pf : sproof B) (es e_primes : list (ctext B))
             (us : list Z) (c : Z) : Prop :=
    let t := pf_t B pf in let s := pf_s B pf in
    let cs := pf_cs B pf in let chs := pf_c_hats B pf in
    let u := fold_left (fun acc x => b_xmodq B (b_xmul B acc x)) us 1 in
    (* 1 *) mulp (t1 B t) (pow (prodp B cs) c) = mulp (gpow (s1 s)) (pow (prodp B hs) c) /\
    (* 2 *) mulp (t2 B t) (pow (last chs one) c) = mulp (gpow (s2 s)) (pow (pow h0 u) c) /\
    (* 3 *) mulp (t3 B t) (pow (prodp B (map (fun cu => pow (fst cu) (snd cu)) (combine cs us))) c)
            = mulp (gpow (s3 s)) (prodp B (map (fun hs' => pow (fst hs') (snd hs')) (combine hs (s_primes s)))) /\
    (* 4.1 *) mulp (mulp (t41 B t) (pow (prodp B (map (fun eu => pow (mhr (fst eu)) (snd eu)) (combine es us))) c))
                   (pow pk (s4 s))
            = prodp B (map (fun es' => pow (mhr (fst es')) (snd es')) (combine e_primes (s_primes s))) /\
    (* 4.2 *) mulp (mulp (t42 B t) (pow (prodp B (map (fun eu => pow (gr (fst eu)) (snd eu)) (combine es us))) c))
                   (pow (b_gen B) (s4 s))
            = prodp B (map (fun es' => pow (gr (fst es')) (snd es')) (combine e_primes (s_primes s))) /\
    (* chain *) Forall (fun x : E B * (E B * (E B * (Z * Z))) =>
                   let '(that, (prev, (ci, (sh, sp)))) := x in
                   mulp that (pow ci c) = mulp (gpow sh) (pow prev sp))
                (combine (t_hats B t) (combine (h0 :: chs) (combine chs (combine (s_hats s) (s_primes s))))).

  (* ---------- membership automation ---------- *)
  Ltac memt :=
    repeat match goal with
      | |- mem _ => assumption
      | |- mem (b_mulp _ _ _) => apply (mem_mulp B mem L)
      | |- mem (b_pow _ _ _) => apply (pow_mem B mem L)
      | |- mem (b_gpow _ _) => apply (gpow_mem B mem L)
      | |- mem (b_one _) => apply (mem_one B mem L)
      | |- mem (b_gen _) => apply (mem_gen B mem L)
      | |- mem (Shuffler.prodp _ _) => apply (prodp_mem B mem L)
      | |- 0 <= _ => first [assumption | lia]
      | |- _ = _ => assumption
      | |- Forall _ _ => assumption
      end.

  Lemma last_mem (l : list (E B)) d : Forall mem l -> mem d -> mem (last l d).
  Proof.
    intros H. revert d. induction H as [|a l Ha Hl IH]; intros d Hd; [exact Hd|].
    rewrite last_cons. apply IH. exact Ha.
  Qed.

  Lemma powf_mem {X} (f : X -> E B) (l : list X) xs :
    Forall (fun x => mem (f x)) l -> Forall nonneg xs ->
    Forall mem (map (fun p : X * Z => pow (f (fst p)) (snd p)) (combine l xs)).
  Proof.
    intros Hl Hx. rewrite (powl_map B). apply (powl_mem B mem L); [|exact Hx].
    rewrite Forall_map. exact Hl.
  Qed.

  Lemma powid_mem (l : list (E B)) xs : Forall mem l -> Forall nonneg xs ->
    Forall mem (map (fun p : E B * Z => pow (fst p) (snd p)) (combine l xs)).
  Proof. intros Hl Hx. exact (powl_mem B mem L l Hl xs Hx). Qed.

  (* ---------- moving a factor across an equation ---------- *)
  Lemma move_r x y k k' : mem x -> mem y -> mem k -> mem k' -> mulp k k' = one ->
    (mulp x k = y <-> x = mulp y k').
  Proof.
    intros Hx Hy Hk Hk' E. split; intros H.
    - rewrite <- H. symmetry. apply (mulp_cancel_r B mem L); assumption.
    - rewrite H. apply (mulp_cancel_r B mem L); try assumption.
      rewrite (mulp_comm B mem L) by assumption. exact E.
  Qed.

  Lemma mulp_cancel_right a b k : mem a -> mem b -> mem k -> mulp a k = mulp b k -> a = b.
  Proof.
    intros Ha Hb Hk E. apply (mulp_cancel_l B mem L k); try assumption.
    rewrite (mulp_comm B mem L k a), (mulp_comm B mem L k b) by assumption. exact E.
  Qed.

  (* t = (i^c * G) * T  <=>  t * a^c = G * T        (a i = 1): equation 3 and the chain equations *)
  Lemma eq3 t a i G T c : mem t -> mem a -> mem i -> mem G -> mem T -> 0 <= c -> mulp a i = one ->
    (t = mulp (mulp (pow i c) G) T <-> mulp t (pow a c) = mulp G T).
  Proof.
    intros Ht Ha Hi HG HT Hc E.
    rewrite (mulp_assoc B mem L) by memt. rewrite (mulp_comm B mem L (pow i c)) by memt.
    symmetry. apply move_r; memt. apply (pow_inv_cancel B mem L); assumption.
  Qed.

  (* t = (i^c * k'^s) * T  <=>  (t * a^c) * k^s = T     (a i = 1, k k' = 1): equations 4.1 and 4.2 *)
  Lemma eq4 t a i k k' T c s : mem t -> mem a -> mem i -> mem k -> mem k' -> mem T -> 0 <= c -> 0 <= s ->
    mulp a i = one -> mulp k k' = one ->
    (t = mulp (mulp (pow i c) (pow k' s)) T <-> mulp (mulp t (pow a c)) (pow k s) = T).
  Proof.
    intros Ht Ha Hi Hk Hk' HT Hc Hs E1 E2.
    etransitivity; [apply (eq3 t a i (pow k' s) T c); memt|].
    rewrite (mulp_comm B mem L (pow k' s)) by memt.
    symmetry. apply move_r; memt. apply (pow_inv_cancel B mem L); assumption.
  Qed.

  (* t = i^c * g^s  <=>  t * N^c = g^s * D^c     (D di = 1, (N di) i = 1): equations 1 and 2 *)
  Lemma eq12 t N D di i c s : mem t -> mem N -> mem D -> mem di -> mem i -> 0 <= c -> 0 <= s ->
    mulp D di = one -> mulp (mulp N di) i = one ->
    (t = mulp (pow i c) (gpow s) <-> mulp t (pow N c) = mulp (gpow s) (pow D c)).
  Proof.
    intros Ht HN HD Hdi Hi Hc Hs E1 E2.
    rewrite (mulp_comm B mem L (pow i c)) by memt.
    etransitivity;
      [symmetry; apply (move_r t (gpow s) (pow (mulp N di) c) (pow i c)); memt;
       apply (pow_inv_cancel B mem L); memt|].
    rewrite (pow_mulp B mem L) by memt. rewrite <- (mulp_assoc B mem L) by memt.
    apply move_r; memt. apply (pow_inv_cancel B mem L); memt.
    rewrite (mulp_comm B mem L) by assumption. exact E1.
  Qed.

  (* ---------- the chain: mapM / forallb versus Forall ---------- *)
  Definition chain_eq (c : Z) (x : E B * (E B * (E B * (Z * Z)))) : Prop :=
    let '(that, (prev, (ci, (sh, sp)))) := x in
    mulp that (pow ci c) = mulp (gpow sh) (pow prev sp).

  Definition okx (x : E B * (E B * (Z * Z))) : Prop :=
    let '(prev, (ci, (sh, sp))) := x in mem prev /\ mem ci /\ 0 <= sh /\ 0 <= sp.

  Lemma okx_combine prevs cis shs sps :
    Forall mem prevs -> Forall mem cis -> Forall nonneg shs -> Forall nonneg sps ->
    Forall okx (combine prevs (combine cis (combine shs sps))).
  Proof.
    intros H1 H2 H3 H4.
    pose proof (Forall_combine _ _ _ _ H3 H4) as F1.
    pose proof (Forall_combine _ _ _ _ H2 F1) as F2.
    pose proof (Forall_combine _ _ _ _ H1 F2) as F3.
    eapply Forall_impl; [|exact F3]. cbv beta.
    intros [prev [ci [sh sp]]]. cbn [fst snd okx]. tauto.
  Qed.

  Lemma and2_iff (A1 A2 B1 B2 : Prop) : (A1 <-> B1) -> (A2 <-> B2) -> (A1 /\ A2 <-> B1 /\ B2).
  Proof. tauto. Qed.

  Lemma chain_that c l : 0 <= c -> Forall okx l ->
    exists that, mapM (chk_step B c) l = Ok that /\
      forall ths, Forall mem ths ->
        (forallb (fun ab => b_eqb B (fst ab) (snd ab)) (combine ths that) = true <->
         Forall (chain_eq c) (combine ths l)).
  Proof.
    intros Hc. induction 1 as [|[prev [ci [sh sp]]] l (Hp & Hci & Hsh & Hsp) Hl (that & Hm & IH)].
    - exists []. split; [reflexivity|]. intros ths _. destruct ths; cbn [combine forallb]; split; auto.
    - destruct (invp_ok B mem L ci Hci) as (i & Ei & Hi & Hinv).
      exists (mulp (mulp (pow i c) (gpow sh)) (pow prev sp) :: that). split.
      + cbn [mapM]. unfold chk_step at 1. rewrite Ei. cbn [bind]. rewrite Hm.
        rewrite (modp_mul3 B mem L). reflexivity.
      + intros ths Hths. destruct Hths as [|th ths Hth Hths].
        * cbn [combine forallb]. split; auto.
        * cbn [combine forallb fst snd]. rewrite andb_true_iff, Forall_cons_iff.
          apply and2_iff; [|apply IH; exact Hths].
          etransitivity; [apply (eqb_spec B mem L); memt|].
          unfold chain_eq. apply eq3; memt.
  Qed.

  (* ---------- the guard ---------- *)
  Definition guard (pf : sproof B) (es e_primes : list (ctext B)) : bool :=
    ((length es =? 0) || negb (length e_primes =? length es) || negb (length (pf_cs B pf) =? length es)
     || negb (length (pf_c_hats B pf) =? length es) || negb (length (t_hats B (pf_t B pf)) =? length es)
     || negb (length (s_hats (pf_s B pf)) =? length es) || negb (length (s_primes (pf_s B pf)) =? length es))%nat.

  Lemma guard_false_iff pf es e_primes : guard pf es e_primes = false <-> lengths_ok pf es e_primes.
  Proof.
    unfold guard, lengths_ok. cbv zeta.
    rewrite !orb_false_iff, !negb_false_iff, !Nat.eqb_eq, Nat.eqb_neq. split.
    - intros ((((((H0 & H1) & H2) & H3) & H4) & H5) & H6). repeat split; try assumption. lia.
    - intros (H0 & H1 & H2 & H3 & H4 & H5 & H6). repeat split; try assumption. lia.
  Qed.

  Lemma guard_true_iff pf es e_primes : guard pf es e_primes = true <-> ~ lengths_ok pf es e_primes.
  Proof.
    rewrite <- guard_false_iff. destruct (guard pf es e_primes); split; intro H; congruence.
  Qed.

  Lemma check_guard_true pk h0 hs pf es e_primes label :
    guard pf es e_primes = true -> check_proof B pk (h0 :: hs) pf es e_primes label = Ok false.
  Proof.
    intros G. unfold guard in G. unfold check_proof. cbv zeta. rewrite G. reflexivity.
  Qed.

  (* wrong component counts are rejected outright *)
  Theorem check_proof_wrong_counts : forall pk gens pf es e_primes label,
    gens <> [] -> ~ lengths_ok pf es e_primes ->
    check_proof B pk gens pf es e_primes label = Ok false.
  Proof.
    intros pk gens pf es e_primes label Hg Hn. destruct gens as [|h0 hs]; [congruence|].
    apply check_guard_true. apply guard_true_iff. exact Hn.
  Qed.

  Lemma and6_iff (A1 A2 A3 A4 A5 A6 B1 B2 B3 B4 B5 B6 : Prop) :
    (A1 <-> B1) -> (A2 <-> B2) -> (A3 <-> B3) -> (A4 <-> B4) -> (A5 <-> B5) -> (A6 <-> B6) ->
    (((((A1 /\ A2) /\ A3) /\ A4) /\ A5) /\ A6 <-> B1 /\ B2 /\ B3 /\ B4 /\ B5 /\ B6).
  Proof. tauto. Qed.

  (* ---------- the body of the verifier once the counts are right ---------- *)
  Lemma check_body pk h0 hs pf es e_primes label :
    mem pk -> mem h0 -> Forall mem hs -> Forall wf_ct es -> Forall wf_ct e_primes -> wf_proof pf ->
    length hs = length es -> lengths_ok pf es e_primes ->
    exists b, check_proof B pk (h0 :: hs) pf es e_primes label = Ok b /\
      (b = true <->
       tw_equations pk h0 hs pf es e_primes
         (shuffle_us B es e_primes (pf_cs B pf) (length es) label)
         (shuffle_challenge B es e_primes (pf_cs B pf) (pf_c_hats B pf) pk (pf_t B pf) label)).
  Proof.
    intros Hpk Hh0 Hhs Hes Hep Hwf Lhs Hlen.
    pose proof (proj2 (guard_false_iff pf es e_primes) Hlen) as G.
    unfold wf_proof in Hwf. cbv zeta in Hwf.
    destruct Hwf as (Ht1 & Ht2 & Ht3 & Ht41 & Ht42 & Hth & Hs1 & Hs2 & Hs3 & Hs4 & Hsh & Hsp & Hcs & Hchs).
    assert (Hg : mem (b_gen B)) by memt.
    assert (Hem : Forall (fun x : ctext B => mem (mhr x)) es)
      by (eapply Forall_impl; [|exact Hes]; intros x [H _]; exact H).
    assert (Heg : Forall (fun x : ctext B => mem (gr x)) es)
      by (eapply Forall_impl; [|exact Hes]; intros x [_ H]; exact H).
    assert (Hpm : Forall (fun x : ctext B => mem (mhr x)) e_primes)
      by (eapply Forall_impl; [|exact Hep]; intros x [H _]; exact H).
    assert (Hpg : Forall (fun x : ctext B => mem (gr x)) e_primes)
      by (eapply Forall_impl; [|exact Hep]; intros x [_ H]; exact H).
    set (us := shuffle_us B es e_primes (pf_cs B pf) (length es) label).
    set (c := shuffle_challenge B es e_primes (pf_cs B pf) (pf_c_hats B pf) pk (pf_t B pf) label).
    destruct (shuffle_us_ok B mem L es e_primes (pf_cs B pf) (length es) label) as [Lus Hus].
    fold us in Lus, Hus.
    assert (Hc : 0 <= c) by apply (hash_range B mem L).
    set (u := fold_left (fun acc x : Z => b_xmodq B (b_xmul B acc x)) us 1).
    destruct (uprod_acc B mem L us Hus 1 ltac:(lia)) as [Hu0 _].
    change (fold_left (umulf B) us 1) with u in Hu0.
    (* every value that gets inverted is a member *)
    set (Pcs := prodp B (pf_cs B pf)). set (Phs := prodp B hs).
    assert (HPcs : mem Pcs) by (unfold Pcs; memt).
    assert (HPhs : mem Phs) by (unfold Phs; memt).
    destruct (invp_ok B mem L Phs HPhs) as (di & Edi & Hdi & Hdinv).
    set (c_bar := mulp Pcs di). assert (Hcb : mem c_bar) by (unfold c_bar; memt).
    set (lastc := last (pf_c_hats B pf) one).
    assert (Hlast : mem lastc) by (apply last_mem; [assumption|memt]).
    assert (Hhu : mem (pow h0 u)) by memt.
    destruct (invp_ok B mem L (pow h0 u) Hhu) as (dh & Edh & Hdh & Hdhinv).
    set (c_hat := mulp lastc dh). assert (Hchat : mem c_hat) by (unfold c_hat; memt).
    destruct (invp_ok B mem L c_bar Hcb) as (i1 & Ei1 & Hi1 & Hinv1).
    destruct (invp_ok B mem L c_hat Hchat) as (i2 & Ei2 & Hi2 & Hinv2).
    set (c_tilde := prodp B (map (fun cu : E B * Z => pow (fst cu) (snd cu)) (combine (pf_cs B pf) us))).
    assert (Hct : mem c_tilde) by (unfold c_tilde; memt; apply powid_mem; assumption).
    destruct (invp_ok B mem L c_tilde Hct) as (i3 & Ei3 & Hi3 & Hinv3).
    set (a' := prodp B (map (fun eu : ctext B * Z => pow (mhr (fst eu)) (snd eu)) (combine es us))).
    set (b' := prodp B (map (fun eu : ctext B * Z => pow (gr (fst eu)) (snd eu)) (combine es us))).
    assert (Ha' : mem a') by (unfold a'; memt; apply (powf_mem (@mhr B)); assumption).
    assert (Hb' : mem b') by (unfold b'; memt; apply (powf_mem (@gr B)); assumption).
    destruct (invp_ok B mem L a' Ha') as (i4 & Ei4 & Hi4 & Hinv4).
    destruct (invp_ok B mem L pk Hpk) as (pki & Epk & Hpki & Hpkinv).
    destruct (invp_ok B mem L b' Hb') as (i5 & Ei5 & Hi5 & Hinv5).
    destruct (invp_ok B mem L (b_gen B) Hg) as (gi & Eg & Hgi & Hginv).
    set (tt3 := prodp B (map (fun hs' : E B * Z => pow (fst hs') (snd hs')) (combine hs (s_primes (pf_s B pf))))).
    set (tt41 := prodp B (map (fun es' : ctext B * Z => pow (mhr (fst es')) (snd es'))
                              (combine e_primes (s_primes (pf_s B pf))))).
    set (tt42 := prodp B (map (fun es' : ctext B * Z => pow (gr (fst es')) (snd es'))
                              (combine e_primes (s_primes (pf_s B pf))))).
    assert (Htt3 : mem tt3) by (unfold tt3; memt; apply powid_mem; assumption).
    assert (Htt41 : mem tt41) by (unfold tt41; memt; apply (powf_mem (@mhr B)); assumption).
    assert (Htt42 : mem tt42) by (unfold tt42; memt; apply (powf_mem (@gr B)); assumption).
    destruct (chain_that c (combine (h0 :: pf_c_hats B pf)
                              (combine (pf_c_hats B pf) (combine (s_hats (pf_s B pf)) (s_primes (pf_s B pf)))))
                Hc ltac:(apply okx_combine; try assumption; constructor; assumption))
      as (that & Hm & Hthat).
    eexists. split.
    - unfold guard in G. unfold check_proof. cbv zeta. rewrite G.
      rewrite Lhs, Nat.eqb_refl. cbn [negb].
      fold us. fold c. fold u. fold Pcs Phs.
      eapply bind_rw; [apply divp_ok; exact Edi|]. cbv beta.
      eapply bind_rw; [apply divp_ok; exact Edh|]. cbv beta.
      eapply bind_rw; [exact Ei1|]. cbv beta.
      eapply bind_rw; [exact Ei2|]. cbv beta.
      eapply bind_rw; [exact Ei3|]. cbv beta.
      eapply bind_rw; [exact Ei4|]. cbv beta.
      eapply bind_rw; [exact Epk|]. cbv beta.
      eapply bind_rw; [exact Ei5|]. cbv beta.
      eapply bind_rw; [exact Eg|]. cbv beta.
      eapply bind_rw; [exact Hm|]. cbv beta.
      reflexivity.
    - unfold tw_equations. cbv zeta. fold us. fold u. fold Pcs Phs lastc c_tilde a' b' tt3 tt41 tt42.
      rewrite !(modp_mul3 B mem L). rewrite !andb_true_iff.
      apply and6_iff.
      + etransitivity; [apply (eqb_spec B mem L); memt|].
        apply (eq12 (t1 B (pf_t B pf)) Pcs Phs di i1 c (s1 (pf_s B pf))); assumption.
      + etransitivity; [apply (eqb_spec B mem L); memt|].
        apply (eq12 (t2 B (pf_t B pf)) lastc (pow h0 u) dh i2 c (s2 (pf_s B pf))); assumption.
      + etransitivity; [apply (eqb_spec B mem L); memt|].
        apply eq3; memt.
      + etransitivity; [apply (eqb_spec B mem L); memt|].
        apply eq4; memt.
      + etransitivity; [apply (eqb_spec B mem L); memt|].
        apply eq4; memt.
      + exact (Hthat _ Hth).
  Qed.

  (* ---------- the three main theorems ---------- *)
  (* the verifier decides exactly: right counts and all equations, with the challenges recomputed from
     the complete statement *)
  Theorem check_proof_spec : forall pk h0 hs pf es e_primes label,
    mem pk -> mem h0 -> Forall mem hs -> Forall wf_ct es -> Forall wf_ct e_primes -> wf_proof pf ->
    length hs = length es ->
    (check_proof B pk (h0 :: hs) pf es e_primes label = Ok true <->
     lengths_ok pf es e_primes /\
     tw_equations pk h0 hs pf es e_primes
       (shuffle_us B es e_primes (pf_cs B pf) (length es) label)
       (shuffle_challenge B es e_primes (pf_cs B pf) (pf_c_hats B pf) pk (pf_t B pf) label)).
  Proof.
    intros pk h0 hs pf es e_primes label Hpk Hh0 Hhs Hes Hep Hwf Lhs.
    destruct (guard pf es e_primes) eqn:G.
    - rewrite (check_guard_true pk h0 hs pf es e_primes label G).
      apply guard_true_iff in G. split; [discriminate|]. intros [H _]. contradiction.
    - apply guard_false_iff in G.
      destruct (check_body pk h0 hs pf es e_primes label Hpk Hh0 Hhs Hes Hep Hwf Lhs G) as (b & Eb & Hb).
      rewrite Eb. split.
      + intros H. injection H as ->. split; [exact G|]. apply Hb. reflexivity.
      + intros [_ H]. f_equal. apply Hb. exact H.
  Qed.

  (* total on decoded input: a decision, never a panic or an error *)
  Theorem check_proof_total : forall pk h0 hs pf es e_primes label,
    mem pk -> mem h0 -> Forall mem hs -> Forall wf_ct es -> Forall wf_ct e_primes -> wf_proof pf ->
    length hs = length es ->
    exists b, check_proof B pk (h0 :: hs) pf es e_primes label = Ok b.
  Proof.
    intros pk h0 hs pf es e_primes label Hpk Hh0 Hhs Hes Hep Hwf Lhs.
    destruct (guard pf es e_primes) eqn:G.
    - exists false. apply check_guard_true. exact G.
    - apply guard_false_iff in G.
      destruct (check_body pk h0 hs pf es e_primes label Hpk Hh0 Hhs Hes Hep Hwf Lhs G) as (b & Eb & _).
      exists b. exact Eb.
  Qed.

  (* ---------- response binding (q prime, g <> 1) ---------- *)
  Hypothesis q_prime : prime q.

  Definition with_resp (pf : sproof B) (s : responses) : sproof B :=
    {| pf_t := pf_t B pf; pf_s := s; pf_cs := pf_cs B pf; pf_c_hats := pf_c_hats B pf |}.

  Lemma gpow_inj_range x y : b_gen B <> one -> 0 <= x < q -> 0 <= y < q -> gpow x = gpow y -> x = y.
  Proof.
    intros Hne Hx Hy E. unfold b_gpow in E.
    apply (pow_inj B mem L q_prime) in E; try lia; [|apply (mem_gen B mem L)|exact Hne].
    rewrite !Z.mod_small in E by lia. exact E.
  Qed.

  (* the challenges do not depend on the responses: an accepted proof and a variant with other responses
     face the same equations; if those are contradictory the variant is rejected *)
  Lemma binding_generic pk h0 hs pf s' es e_primes label :
    mem pk -> mem h0 -> Forall mem hs -> Forall wf_ct es -> Forall wf_ct e_primes -> wf_proof pf ->
    length hs = length es -> wf_proof (with_resp pf s') ->
    check_proof B pk (h0 :: hs) pf es e_primes label = Ok true ->
    (forall us c, Forall nonneg us -> 0 <= c -> lengths_ok pf es e_primes -> lengths_ok (with_resp pf s') es e_primes ->
       tw_equations pk h0 hs pf es e_primes us c ->
       tw_equations pk h0 hs (with_resp pf s') es e_primes us c -> False) ->
    check_proof B pk (h0 :: hs) (with_resp pf s') es e_primes label = Ok false.
  Proof.
    intros Hpk Hh0 Hhs Hes Hep Hwf Lhs Hwf' Hacc Hcontra.
    destruct (check_proof_total pk h0 hs (with_resp pf s') es e_primes label Hpk Hh0 Hhs Hes Hep Hwf' Lhs)
      as ([|] & Eb); [exfalso|exact Eb].
    apply check_proof_spec in Hacc; try assumption.
    apply check_proof_spec in Eb; try assumption.
    destruct Hacc as [Hl1 H1]. destruct Eb as [Hl2 H2].
    unfold with_resp in H2 at 2 3 4. cbn [pf_t pf_cs pf_c_hats] in H2.
    refine (Hcontra _ _ _ _ Hl1 Hl2 H1 H2).
    - apply (shuffle_us_ok B mem L).
    - apply (hash_range B mem L).
  Qed.

  Ltac wf_resp Hwf :=
    let H := fresh in
    pose proof Hwf as H; unfold wf_proof in H |- *; cbv zeta in H |- *;
    unfold with_resp; cbn [pf_t pf_s pf_cs pf_c_hats s1 s2 s3 s4 s_hats s_primes];
    repeat split; try apply H; try lia.

  Ltac unpack_eqs Hwf H1 H2 :=
    unfold wf_proof in Hwf; cbv zeta in Hwf;
    unfold tw_equations in H1, H2; cbv zeta in H1, H2;
    unfold with_resp in H2;
    cbn [pf_t pf_s pf_cs pf_c_hats s1 s2 s3 s4 s_hats s_primes] in H2.

  Lemma us_prod_nonneg us : Forall nonneg us ->
    0 <= fold_left (fun acc x : Z => b_xmodq B (b_xmul B acc x)) us 1.
  Proof.
    intros Hus. destruct (uprod_acc B mem L us Hus 1 ltac:(lia)) as [H _]. exact H.
  Qed.

  Theorem check_proof_s1_binding : forall pk h0 hs pf es e_primes label s1',
    mem pk -> mem h0 -> Forall mem hs -> Forall wf_ct es -> Forall wf_ct e_primes -> wf_proof pf ->
    length hs = length es -> b_gen B <> one ->
    0 <= s1 (pf_s B pf) < q -> 0 <= s1' < q ->
    check_proof B pk (h0 :: hs) pf es e_primes label = Ok true ->
    s1' <> s1 (pf_s B pf) ->
    check_proof B pk (h0 :: hs)
      {| pf_t := pf_t B pf;
         pf_s := {| s1 := s1'; s2 := s2 (pf_s B pf); s3 := s3 (pf_s B pf); s4 := s4 (pf_s B pf);
                    s_hats := s_hats (pf_s B pf); s_primes := s_primes (pf_s B pf) |};
         pf_cs := pf_cs B pf; pf_c_hats := pf_c_hats B pf |} es e_primes label = Ok false.
  Proof.
    intros pk h0 hs pf es e_primes label s1' Hpk Hh0 Hhs Hes Hep Hwf Lhs Hne Hr Hr' Hacc Hd.
    apply (binding_generic pk h0 hs pf _ es e_primes label); try assumption; [wf_resp Hwf|].
    intros us c Hus Hc _ _ H1 H2. unpack_eqs Hwf H1 H2.
    destruct Hwf as (Ht1 & Ht2 & Ht3 & Ht41 & Ht42 & Hth & Hs1 & Hs2 & Hs3 & Hs4 & Hsh & Hsp & Hcs & Hchs).
    destruct H1 as (E1 & _). destruct H2 as (E2 & _).
    rewrite E1 in E2. apply mulp_cancel_right in E2; [|memt..].
    apply gpow_inj_range in E2; try assumption. congruence.
  Qed.

  Theorem check_proof_s2_binding : forall pk h0 hs pf es e_primes label s2',
    mem pk -> mem h0 -> Forall mem hs -> Forall wf_ct es -> Forall wf_ct e_primes -> wf_proof pf ->
    length hs = length es -> b_gen B <> one ->
    0 <= s2 (pf_s B pf) < q -> 0 <= s2' < q ->
    check_proof B pk (h0 :: hs) pf es e_primes label = Ok true ->
    s2' <> s2 (pf_s B pf) ->
    check_proof B pk (h0 :: hs)
      {| pf_t := pf_t B pf;
         pf_s := {| s1 := s1 (pf_s B pf); s2 := s2'; s3 := s3 (pf_s B pf); s4 := s4 (pf_s B pf);
                    s_hats := s_hats (pf_s B pf); s_primes := s_primes (pf_s B pf) |};
         pf_cs := pf_cs B pf; pf_c_hats := pf_c_hats B pf |} es e_primes label = Ok false.
  Proof.
    intros pk h0 hs pf es e_primes label s2' Hpk Hh0 Hhs Hes Hep Hwf Lhs Hne Hr Hr' Hacc Hd.
    apply (binding_generic pk h0 hs pf _ es e_primes label); try assumption; [wf_resp Hwf|].
    intros us c Hus Hc _ _ H1 H2. unpack_eqs Hwf H1 H2.
    destruct Hwf as (Ht1 & Ht2 & Ht3 & Ht41 & Ht42 & Hth & Hs1 & Hs2 & Hs3 & Hs4 & Hsh & Hsp & Hcs & Hchs).
    destruct H1 as (_ & E1 & _). destruct H2 as (_ & E2 & _).
    pose proof (us_prod_nonneg us Hus) as Hu.
    rewrite E1 in E2. apply mulp_cancel_right in E2; [|memt..].
    apply gpow_inj_range in E2; try assumption. congruence.
  Qed.

  Theorem check_proof_s3_binding : forall pk h0 hs pf es e_primes label s3',
    mem pk -> mem h0 -> Forall mem hs -> Forall wf_ct es -> Forall wf_ct e_primes -> wf_proof pf ->
    length hs = length es -> b_gen B <> one ->
    0 <= s3 (pf_s B pf) < q -> 0 <= s3' < q ->
    check_proof B pk (h0 :: hs) pf es e_primes label = Ok true ->
    s3' <> s3 (pf_s B pf) ->
    check_proof B pk (h0 :: hs)
      {| pf_t := pf_t B pf;
         pf_s := {| s1 := s1 (pf_s B pf); s2 := s2 (pf_s B pf); s3 := s3'; s4 := s4 (pf_s B pf);
                    s_hats := s_hats (pf_s B pf); s_primes := s_primes (pf_s B pf) |};
         pf_cs := pf_cs B pf; pf_c_hats := pf_c_hats B pf |} es e_primes label = Ok false.
  Proof.
    intros pk h0 hs pf es e_primes label s3' Hpk Hh0 Hhs Hes Hep Hwf Lhs Hne Hr Hr' Hacc Hd.
    apply (binding_generic pk h0 hs pf _ es e_primes label); try assumption; [wf_resp Hwf|].
    intros us c Hus Hc _ _ H1 H2. unpack_eqs Hwf H1 H2.
    destruct Hwf as (Ht1 & Ht2 & Ht3 & Ht41 & Ht42 & Hth & Hs1 & Hs2 & Hs3 & Hs4 & Hsh & Hsp & Hcs & Hchs).
    destruct H1 as (_ & _ & E1 & _). destruct H2 as (_ & _ & E2 & _).
    rewrite E1 in E2. apply mulp_cancel_right in E2; [|memt; apply powid_mem; assumption..].
    apply gpow_inj_range in E2; try assumption. congruence.
  Qed.

  Theorem check_proof_s4_binding : forall pk h0 hs pf es e_primes label s4',
    mem pk -> mem h0 -> Forall mem hs -> Forall wf_ct es -> Forall wf_ct e_primes -> wf_proof pf ->
    length hs = length es -> b_gen B <> one ->
    0 <= s4 (pf_s B pf) < q -> 0 <= s4' < q ->
    check_proof B pk (h0 :: hs) pf es e_primes label = Ok true ->
    s4' <> s4 (pf_s B pf) ->
    check_proof B pk (h0 :: hs)
      {| pf_t := pf_t B pf;
         pf_s := {| s1 := s1 (pf_s B pf); s2 := s2 (pf_s B pf); s3 := s3 (pf_s B pf); s4 := s4';
                    s_hats := s_hats (pf_s B pf); s_primes := s_primes (pf_s B pf) |};
         pf_cs := pf_cs B pf; pf_c_hats := pf_c_hats B pf |} es e_primes label = Ok false.
  Proof.
    intros pk h0 hs pf es e_primes label s4' Hpk Hh0 Hhs Hes Hep Hwf Lhs Hne Hr Hr' Hacc Hd.
    apply (binding_generic pk h0 hs pf _ es e_primes label); try assumption; [wf_resp Hwf|].
    intros us c Hus Hc _ _ H1 H2. unpack_eqs Hwf H1 H2.
    destruct Hwf as (Ht1 & Ht2 & Ht3 & Ht41 & Ht42 & Hth & Hs1 & Hs2 & Hs3 & Hs4 & Hsh & Hsp & Hcs & Hchs).
    destruct H1 as (_ & _ & _ & _ & E1 & _). destruct H2 as (_ & _ & _ & _ & E2 & _).
    assert (Heg : Forall (fun x : ctext B => mem (gr x)) es)
      by (eapply Forall_impl; [|exact Hes]; intros x [_ H]; exact H).
    rewrite <- E2 in E1.
    apply (mulp_cancel_l B mem L) in E1; [|memt; apply (powf_mem (@gr B)); assumption..].
    apply (gpow_inj_range (s4 (pf_s B pf)) s4') in E1; try assumption. congruence.
  Qed.

  (* the chain equations determine every s_hat *)
  Lemma chain_sh_unique c : 0 <= c -> b_gen B <> one -> forall shs shs' ths prevs cis sps,
    length shs' = length shs ->
    (length shs <= length ths)%nat -> (length shs <= length prevs)%nat ->
    (length shs <= length cis)%nat -> (length shs <= length sps)%nat ->
    Forall mem prevs -> Forall nonneg sps ->
    Forall (fun x => 0 <= x < q) shs -> Forall (fun x => 0 <= x < q) shs' ->
    Forall (chain_eq c) (combine ths (combine prevs (combine cis (combine shs sps)))) ->
    Forall (chain_eq c) (combine ths (combine prevs (combine cis (combine shs' sps)))) ->
    shs = shs'.
  Proof.
    intros Hc Hne. induction shs as [|a shs IH]; intros shs' ths prevs cis sps L0 L1 L2 L3 L4 Hp Hsp Hr Hr' F1 F2.
    - destruct shs'; [reflexivity|discriminate].
    - destruct shs' as [|a' shs']; [discriminate|].
      destruct ths as [|th ths]; [cbn in L1; lia|]. destruct prevs as [|prev prevs]; [cbn in L2; lia|].
      destruct cis as [|ci cis]; [cbn in L3; lia|]. destruct sps as [|sp sps]; [cbn in L4; lia|].
      cbn [length] in *. cbn [combine] in F1, F2.
      inversion F1 as [|? ? E1 F1']; subst. inversion F2 as [|? ? E2 F2']; subst.
      inversion Hp as [|? ? Hprev Hp']; subst. inversion Hsp as [|? ? Hsp0 Hsp']; subst.
      inversion Hr as [|? ? Ha Hr0]; subst. inversion Hr' as [|? ? Ha' Hr0']; subst.
      unfold chain_eq in E1, E2. rewrite E1 in E2.
      apply mulp_cancel_right in E2; [|memt..].
      apply gpow_inj_range in E2; try assumption. subst a'. f_equal.
      apply (IH shs' ths prevs cis sps); try assumption; lia.
  Qed.

  Theorem check_proof_s_hats_binding : forall pk h0 hs pf es e_primes label s_hats',
    mem pk -> mem h0 -> Forall mem hs -> Forall wf_ct es -> Forall wf_ct e_primes -> wf_proof pf ->
    length hs = length es -> b_gen B <> one ->
    Forall (fun x => 0 <= x < q) (s_hats (pf_s B pf)) -> Forall (fun x => 0 <= x < q) s_hats' ->
    check_proof B pk (h0 :: hs) pf es e_primes label = Ok true ->
    s_hats' <> s_hats (pf_s B pf) ->
    check_proof B pk (h0 :: hs)
      {| pf_t := pf_t B pf;
         pf_s := {| s1 := s1 (pf_s B pf); s2 := s2 (pf_s B pf); s3 := s3 (pf_s B pf); s4 := s4 (pf_s B pf);
                    s_hats := s_hats'; s_primes := s_primes (pf_s B pf) |};
         pf_cs := pf_cs B pf; pf_c_hats := pf_c_hats B pf |} es e_primes label = Ok false.
  Proof.
    intros pk h0 hs pf es e_primes label sh' Hpk Hh0 Hhs Hes Hep Hwf Lhs Hne Hr Hr' Hacc Hd.
    apply (binding_generic pk h0 hs pf _ es e_primes label); try assumption.
    { wf_resp Hwf. eapply Forall_impl; [|exact Hr']. cbv beta. intros; lia. }
    intros us c Hus Hc Hl1 Hl2 H1 H2. unpack_eqs Hwf H1 H2.
    destruct Hwf as (Ht1 & Ht2 & Ht3 & Ht41 & Ht42 & Hth & Hs1 & Hs2 & Hs3 & Hs4 & Hsh & Hsp & Hcs & Hchs).
    destruct H1 as (_ & _ & _ & _ & _ & F1). destruct H2 as (_ & _ & _ & _ & _ & F2).
    unfold lengths_ok in Hl1, Hl2. cbv zeta in Hl1, Hl2. unfold with_resp in Hl2.
    cbn [pf_t pf_s pf_cs pf_c_hats s_hats s_primes] in Hl2.
    destruct Hl1 as (N1 & N2 & N3 & N4 & N5 & N6 & N7). destruct Hl2 as (_ & _ & _ & _ & _ & M6 & _).
    apply Hd. symmetry.
    apply (chain_sh_unique c Hc Hne (s_hats (pf_s B pf)) sh' (t_hats B (pf_t B pf))
             (h0 :: pf_c_hats B pf) (pf_c_hats B pf) (s_primes (pf_s B pf))); try assumption;
      try (cbn [length]; lia).
    constructor; assumption.
  Qed.
End Spec.

Print Assumptions check_proof_spec.
Print Assumptions check_proof_total.
Print Assumptions check_proof_wrong_counts.
Print Assumptions check_proof_s1_binding.
Print Assumptions check_proof_s2_binding.
Print Assumptions check_proof_s3_binding.
Print Assumptions check_proof_s4_binding.
Print Assumptions check_proof_s_hats_binding.
