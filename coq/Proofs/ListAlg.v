(* Proofs/ListAlg.v — backend-independent list facts used by Proofs/ShuffleP.v: reading a list through
   an index list ([pick], the functional form of `mapM (nthZ l) perm`), its interaction with map /
   combine / Permutation, integer sums, dot products and products and their permutation invariance,
   and small facts on firstn/skipn/last. *)
From Coq Require Import ZArith List Lia Permutation FinFun.
From Strand Require Import Model.Outcome.
Import ListNotations.
Open Scope Z_scope.
Local Notation length := List.length.

(* ---------- Forall helpers ---------- *)
Lemma perm_Forall {A} (P : A -> Prop) l1 l2 : Permutation l1 l2 -> Forall P l1 -> Forall P l2.
Proof.
  intros HP HF. rewrite Forall_forall in *. intros x Hx. apply HF.
  apply (Permutation_in x (Permutation_sym HP)). exact Hx.
Qed.

Lemma Forall_firstn' {A} (P : A -> Prop) n l : Forall P l -> Forall P (firstn n l).
Proof.
  revert l. induction n as [|n IH]; intros l H; cbn [firstn]; [constructor|].
  destruct l as [|a l]; [constructor|]. inversion H; subst. constructor; auto.
Qed.

Lemma Forall_skipn' {A} (P : A -> Prop) n l : Forall P l -> Forall P (skipn n l).
Proof.
  revert l. induction n as [|n IH]; intros l H; cbn [skipn]; [exact H|].
  destruct l as [|a l]; [constructor|]. inversion H; subst. auto.
Qed.

Lemma Forall_nth_nonneg l k : Forall (fun r => 0 <= r) l -> 0 <= nth k l 0.
Proof.
  revert k. induction l as [|a l IH]; intros k H; destruct k; cbn [nth]; try lia.
  - inversion H; assumption.
  - inversion H; subst. apply IH; assumption.
Qed.

Lemma Forall_combine {A C} (P : A -> Prop) (Q : C -> Prop) l1 l2 :
  Forall P l1 -> Forall Q l2 -> Forall (fun p => P (fst p) /\ Q (snd p)) (combine l1 l2).
Proof.
  revert l2. induction l1 as [|a l1 IH]; intros l2 H1 H2; cbn [combine]; [constructor|].
  destruct l2 as [|b l2]; [constructor|]. inversion H1; inversion H2; subst.
  constructor; [cbn; auto|]. apply IH; assumption.
Qed.

Lemma map_combine_ext {X Y} (f : X -> Y) l1 l2 :
  length l1 = length l2 -> (forall x y, In (x, y) (combine l1 l2) -> f x = y) -> map f l1 = l2.
Proof.
  revert l2. induction l1 as [|a l1 IH]; intros l2 Hl H; destruct l2 as [|b l2]; try discriminate; [reflexivity|].
  cbn [map]. f_equal.
  - apply H. left. reflexivity.
  - apply IH; [cbn in Hl; lia|]. intros x y Hin. apply H. right. exact Hin.
Qed.

Lemma map_fst_combine {X Y} (l1 : list X) (l2 : list Y) :
  length l1 = length l2 -> map fst (combine l1 l2) = l1.
Proof.
  revert l2. induction l1 as [|a l1 IH]; intros l2 Hl; destruct l2; try discriminate; [reflexivity|].
  cbn. f_equal. apply IH. cbn in Hl. lia.
Qed.

Lemma map_snd_combine {X Y} (l1 : list X) (l2 : list Y) :
  length l1 = length l2 -> map snd (combine l1 l2) = l2.
Proof.
  revert l2. induction l1 as [|a l1 IH]; intros l2 Hl; destruct l2; try discriminate; [reflexivity|].
  cbn. f_equal. apply IH. cbn in Hl. lia.
Qed.

(* ---------- last ---------- *)
Lemma last_cons {A} (a : A) l d : last (a :: l) d = last l a.
Proof.
  revert a d. induction l as [|b l IH]; intros a d; [reflexivity|].
  change (last (a :: b :: l) d) with (last (b :: l) d). rewrite (IH b d), (IH b a). reflexivity.
Qed.

Lemma last_nonempty {A} (l : list A) d d' : l <> [] -> last l d = last l d'.
Proof. destruct l as [|a l]; [congruence|]. intros _. now rewrite !last_cons. Qed.

(* ---------- pick: reading a list through a list of integer indices ---------- *)
Definition iota (n : nat) : list Z := map Z.of_nat (seq 0 n).

Definition pick {A} (d : A) (l : list A) (perm : list Z) : list A :=
  map (fun i => nth (Z.to_nat i) l d) perm.

Definition in_range (n : nat) (i : Z) : Prop := 0 <= i < Z.of_nat n.

Lemma iota_range n : Forall (in_range n) (iota n).
Proof.
  unfold iota. rewrite Forall_map. rewrite Forall_forall. intros k Hk.
  apply in_seq in Hk. unfold in_range. lia.
Qed.

Lemma iota_NoDup n : NoDup (iota n).
Proof. unfold iota. apply Injective_map_NoDup; [exact Nat2Z.inj | apply seq_NoDup]. Qed.

Lemma iota_length n : length (iota n) = n.
Proof. unfold iota. now rewrite map_length, seq_length. Qed.

Lemma perm_range perm n : Permutation perm (iota n) -> Forall (in_range n) perm.
Proof. intros H. apply (perm_Forall _ (iota n)); [now apply Permutation_sym | apply iota_range]. Qed.

Lemma perm_NoDup perm n : Permutation perm (iota n) -> NoDup perm.
Proof. intros H. apply (Permutation_NoDup (Permutation_sym H)). apply iota_NoDup. Qed.

Lemma perm_length perm n : Permutation perm (iota n) -> length perm = n.
Proof. intros H. rewrite (Permutation_length H). apply iota_length. Qed.

Lemma pick_length {A} (d : A) l perm : length (pick d l perm) = length perm.
Proof. apply map_length. Qed.

Lemma mapM_nthZ_gen {A} (nthZ : list A -> Z -> outcome A) (d : A) l perm :
  (forall i, in_range (length l) i -> nthZ l i = Ok (nth (Z.to_nat i) l d)) ->
  Forall (in_range (length l)) perm -> mapM (nthZ l) perm = Ok (pick d l perm).
Proof.
  intros Hn H. induction H as [|i perm Hi H IH]; [reflexivity|].
  cbn [mapM pick map]. rewrite (Hn i Hi). fold (pick d l perm). rewrite IH. reflexivity.
Qed.

Lemma pick_map {A C} (f : A -> C) d l perm : pick (f d) (map f l) perm = map f (pick d l perm).
Proof.
  unfold pick. rewrite map_map. apply map_ext. intros i. apply map_nth.
Qed.

Lemma pick_combine {A C} (d1 : A) (d2 : C) l1 l2 perm : length l1 = length l2 ->
  pick (d1, d2) (combine l1 l2) perm = combine (pick d1 l1 perm) (pick d2 l2 perm).
Proof.
  intros Hl. induction perm as [|i perm IH]; [reflexivity|].
  cbn [pick map combine]. fold (pick (d1, d2) (combine l1 l2) perm) (pick d1 l1 perm) (pick d2 l2 perm).
  rewrite IH. f_equal. apply combine_nth. exact Hl.
Qed.

Lemma nth_seq_id {A} (d : A) l : map (fun k => nth k l d) (seq 0 (length l)) = l.
Proof.
  induction l as [|a l IH]; [reflexivity|].
  cbn [length seq map nth]. f_equal. rewrite <- seq_shift, map_map. exact IH.
Qed.

Lemma pick_iota {A} (d : A) l : pick d l (iota (length l)) = l.
Proof.
  unfold pick, iota. rewrite map_map.
  rewrite (map_ext _ (fun k => nth k l d)); [apply nth_seq_id|].
  intros k. now rewrite Nat2Z.id.
Qed.

Lemma pick_perm {A} (d : A) l perm : Permutation perm (iota (length l)) -> Permutation (pick d l perm) l.
Proof.
  intros H. rewrite <- (pick_iota d l) at 2. unfold pick. apply Permutation_map. exact H.
Qed.

Lemma pick_pair_perm {A C} (d1 : A) (d2 : C) l1 l2 perm :
  length l1 = length l2 -> Permutation perm (iota (length l1)) ->
  Permutation (combine (pick d1 l1 perm) (pick d2 l2 perm)) (combine l1 l2).
Proof.
  intros Hl H. rewrite <- pick_combine by exact Hl. apply pick_perm.
  rewrite combine_length, <- Hl, Nat.min_id. exact H.
Qed.

Lemma pick_Forall {A} (P : A -> Prop) d l perm :
  Forall (in_range (length l)) perm -> Forall P l -> Forall P (pick d l perm).
Proof.
  intros Hr HP. unfold pick. rewrite Forall_map. rewrite Forall_forall in *. intros i Hi.
  apply HP. apply nth_In. specialize (Hr i Hi). unfold in_range in Hr. lia.
Qed.

(* ---------- integer sums, dot products, products ---------- *)
Definition zsum (l : list Z) : Z := fold_right Z.add 0 l.
Definition zdotp (l : list (Z * Z)) : Z := fold_right (fun p acc => fst p * snd p + acc) 0 l.
Definition zprod (l : list Z) : Z := fold_right Z.mul 1 l.

Lemma zsum_nonneg l : Forall (fun r => 0 <= r) l -> 0 <= zsum l.
Proof. induction 1; cbn [zsum fold_right]; [lia|]. fold (zsum l). lia. Qed.

Lemma zprod_nonneg l : Forall (fun r => 0 <= r) l -> 0 <= zprod l.
Proof. induction 1; cbn [zprod fold_right]; [lia|]. fold (zprod l). nia. Qed.

Lemma zdotp_nonneg l : Forall (fun p => 0 <= fst p /\ 0 <= snd p) l -> 0 <= zdotp l.
Proof. induction 1; cbn [zdotp fold_right]; [lia|]. fold (zdotp l). nia. Qed.

Lemma zsum_perm l1 l2 : Permutation l1 l2 -> zsum l1 = zsum l2.
Proof. unfold zsum. induction 1; cbn [fold_right] in *; lia. Qed.

Lemma zprod_perm l1 l2 : Permutation l1 l2 -> zprod l1 = zprod l2.
Proof. unfold zprod. induction 1; cbn [fold_right] in *; try congruence. ring. Qed.

Lemma zdotp_perm l1 l2 : Permutation l1 l2 -> zdotp l1 = zdotp l2.
Proof. unfold zdotp. induction 1; cbn [fold_right] in *; lia. Qed.

Lemma zdotp_pick d1 d2 l1 l2 perm : length l1 = length l2 -> Permutation perm (iota (length l1)) ->
  zdotp (combine (pick d1 l1 perm) (pick d2 l2 perm)) = zdotp (combine l1 l2).
Proof. intros Hl H. apply zdotp_perm. apply pick_pair_perm; assumption. Qed.
