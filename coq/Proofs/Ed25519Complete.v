(* Proofs/Ed25519Complete.v — byte-level completeness of the executable Ed25519 model: decoding the encoding of a valid
   point returns the same curve point, hence every signature the model produces is accepted by the model of the
   ed25519-zebra (ZIP-215) verification procedure, for every seed and every message. No hypothesis: the group law,
   the square-root computation and the codec are all proved (Base/Edwards.v, Proofs/SqrtRatio.v). *)
From Coq Require Import ZArith Znumtheory Zpow_facts Lia List Bool Ring Field.
From Coq Require Import Ncring Cring Integral_domain NsatzTactic.
From Strand Require Import Base.ZUtil Base.Fermat Base.ZpField Base.Edwards Model.Outcome Model.Codec Model.Sha512 Model.Ristretto
  Model.RistrettoFast Model.Ed25519 Proofs.CodecP Proofs.PrimeCerts Proofs.RistrettoGroup Proofs.RistrettoDecode
  Proofs.SqrtRatio Proofs.Ed25519Group.
Import ListNotations.
Open Scope Z_scope.

Local Instance Fp_ops : @Ring_ops Fp f0 f1 fa fm fs fo (@eq Fp) := Fops Fp f0 f1 fa fm fs fo.
Local Instance Fp_ri : Ring (Ro:=Fp_ops) := Fri Fp f0 f1 fa fm fs fo fd fi Fth.
Local Instance Fp_cri : Cring (Rr:=Fp_ri) := Fcri Fp f0 f1 fa fm fs fo fd fi Fth.
Local Instance Fp_di : Integral_domain (Rcr:=Fp_cri) := Fdi Fp f0 f1 fa fm fs fo fd fi Fth F_dec.
Ltac nsatz_internal_discrR ::= (let Hd := fresh in intro Hd; apply (f_equal (zv fp)) in Hd; vm_compute in Hd; discriminate Hd).

(* ---- integer layer: y and the sign bit packed into 32 bytes ---- *)
Lemma canon_range a : a = zv fp (F a) -> 0 <= a < fp.
Proof. intro H. rewrite H. apply (zv_range fp fp_prime). Qed.

Lemma pack_land y b : 0 <= y < 2 ^ 255 -> Z.land (y + (if b : bool then 2 ^ 255 else 0)) (2 ^ 255 - 1) = y.
Proof.
  intro Hy. change (2 ^ 255 - 1) with (Z.ones 255). rewrite Z.land_ones by discriminate.
  destruct b.
  - replace (y + 2 ^ 255) with (y + 1 * 2 ^ 255) by ring. rewrite Z_mod_plus_full. now apply Z.mod_small.
  - rewrite Z.add_0_r. now apply Z.mod_small.
Qed.

Lemma pack_testbit y b : 0 <= y < 2 ^ 255 -> Z.testbit (y + (if b : bool then 2 ^ 255 else 0)) 255 = b.
Proof.
  intro Hy. rewrite Z.testbit_odd, Z.shiftr_div_pow2 by discriminate.
  destruct b.
  - replace (y + 2 ^ 255) with (y + 1 * 2 ^ 255) by ring. rewrite Z.div_add by discriminate.
    rewrite Z.div_small by exact Hy. reflexivity.
  - rewrite Z.add_0_r, Z.div_small by exact Hy. reflexivity.
Qed.

Lemma fp_lt_255 : fp < 2 ^ 255.  Proof. reflexivity. Qed.

(* ---- the inverse used by compress ---- *)
Lemma F_finv K a : F a <> f0 -> fm (F (finv K a)) (F a) = f1.
Proof.
  intro Ha. unfold finv. rewrite F_fpow.
  transitivity (F (a ^ (fp - 2) * a)); [unfold F; now rewrite of_Z_mul|].
  replace (a ^ (fp - 2) * a) with (a ^ (fp - 1)).
  2:{ replace (fp - 1) with (Z.succ (fp - 2)) by ring. rewrite Z.pow_succ_r by discriminate. ring. }
  apply Zp_eq. unfold F. rewrite zv_of_Z. change (zv fp f1) with 1.
  apply fermat_Z; [exact fp_prime|]. intro Hd. apply Ha. apply Zp_eq. unfold F, f0. rewrite zv_of_Z, (zv_z0 fp fp_prime).
  now apply Zdivide_mod.
Qed.

(* 1 + d y^2 never vanishes (d is not a square, -1 is) *)
Lemma one_plus_dyy_nz (Y : Fp) : fa (fm (fm Y Y) dF) f1 <> f0.
Proof.
  intro H. destruct (F_dec Y f0) as [Y0|Yn].
  - apply (F_1_neq_0 Fth). rewrite <- H, Y0. ring.
  - apply (dF_nonsquare (fd iF Y)).
    assert (E : fm (fm Y Y) dF = fo f1) by nsatz.
    transitivity (fd (fm iF iF) (fm Y Y)); [field; exact Yn|]. rewrite iF_sq, <- E. field. exact Yn.
Qed.

(* canonical even/odd bookkeeping for the sign of x *)
Lemma fabs_even K a : a = zv fp (F a) -> Z.odd (fabs K a) = false.
Proof.
  intro Ca. pose proof (canon_range a Ca) as R. unfold fabs, fis_neg. destruct (Z.odd a) eqn:O; [|exact O].
  rewrite (fneg_K K). unfold fneg, fmod. cbn [k_mod K_ref].
  destruct (Z.eq_dec a 0) as [->|N]; [discriminate O|].
  replace (- a) with (fp - a + (-1) * fp) by ring. rewrite Z_mod_plus_full, Z.mod_small by lia.
  rewrite Z.odd_sub, O. reflexivity.
Qed.

Lemma fabs_canon K a : a = zv fp (F a) -> fabs K a = zv fp (F (fabs K a)).
Proof. intro Ca. unfold fabs. destruct (fis_neg a); [apply fneg_canon | exact Ca]. Qed.

Lemma fneg_val K a : 0 < a < fp -> fneg K a = fp - a.
Proof.
  intro R. rewrite (fneg_K K). unfold fneg, fmod. cbn [k_mod K_ref].
  replace (- a) with (fp - a + (-1) * fp) by ring. rewrite Z_mod_plus_full. apply Z.mod_small. lia.
Qed.

Lemma fneg_0 K : fneg K 0 = 0.
Proof. rewrite (fneg_K K). reflexivity. Qed.

(* choosing the root by the sign bit recovers x *)
Lemma sign_select K x a : x = zv fp (F x) -> a = zv fp (F a) -> Z.odd a = false ->
  fm (F a) (F a) = fm (F x) (F x) ->
  (if Z.odd x then fneg K a else a) = x.
Proof.
  intros Cx Ca Ea S. pose proof (canon_range x Cx) as Rx. pose proof (canon_range a Ca) as Ra.
  destruct (sq_eq_cases Fp f0 f1 fa fm fs fo fd fi Fth F_dec iF iF_sq _ _ S) as [E|E].
  - assert (a = x) by (apply canon_eq; assumption). subst a. rewrite Ea. reflexivity.
  - assert (Ex : a = fneg K x).
    { apply canon_eq; [exact Ca | apply fneg_canon | now rewrite F_fneg]. }
    destruct (Z.eq_dec x 0) as [->|N].
    + rewrite fneg_0 in Ex. subst a. reflexivity.
    + rewrite (fneg_val K x) in Ex by lia. subst a.
      assert (O : Z.odd x = true).
      { rewrite Z.odd_sub in Ea. change (Z.odd fp) with true in Ea. destruct (Z.odd x); [reflexivity|discriminate]. }
      rewrite O. rewrite (fneg_val K (fp - x)) by lia. ring.
Qed.

Lemma fsub_canon K a b : fsub K a b = zv fp (F (fsub K a b)).
Proof. rewrite (fsub_K K). unfold fsub, fmod, F. cbn [k_mod K_ref]. rewrite zv_of_Z. symmetry. apply Z.mod_mod. discriminate. Qed.

(* the value SQRT_RATIO_M1 returns is canonical and non-negative (even) *)
Lemma sqrt_ratio_snd K u v :
  snd (sqrt_ratio_m1 K u v) = zv fp (F (snd (sqrt_ratio_m1 K u v))) /\ Z.odd (snd (sqrt_ratio_m1 K u v)) = false.
Proof.
  unfold sqrt_ratio_m1. cbn [snd].
  match goal with |- fabs K ?t = _ /\ _ => assert (C : t = zv fp (F t)) end.
  { match goal with |- (if ?c then _ else _) = _ => destruct c end; apply fmul_canon. }
  split; [now apply fabs_canon | now apply fabs_even].
Qed.

Lemma curve_to_sqrt (X Y : Fp) :
  fs (fm Y Y) (fm X X) = fa f1 (fm (fm (fm (fm dF X) X) Y) Y) ->
  fs (fm Y Y) f1 = fm (fm X X) (fa (fm (fm Y Y) dF) f1).
Proof. intro C. nsatz. Qed.

(* decoding the encoding of a valid point gives back the same curve point *)
Theorem ed_decompress_compress K P : valid P ->
  exists Q, ed_decompress K (ed_compress K P) = Some Q /\ valid Q /\ aff Q = aff P.
Proof.
  intros (Hz & C & _).
  unfold ed_compress.
  set (zi := finv K (pz P)). set (x := fmul K (px P) zi). set (y := fmul K (py P) zi).
  assert (Cx : x = zv fp (F x)) by apply fmul_canon. assert (Cy : y = zv fp (F y)) by apply fmul_canon.
  pose proof (canon_range x Cx) as Rx. pose proof (canon_range y Cy) as Ry. pose proof fp_lt_255 as Hfp.
  assert (Iz : fm (F zi) (F (pz P)) = f1) by (apply F_finv; exact Hz).
  assert (Ax : F x = fd (F (px P)) (F (pz P))).
  { unfold x. rewrite F_fmul. transitivity (fd (fm (F (px P)) (fm (F zi) (F (pz P)))) (F (pz P))); [field; exact Hz|]. rewrite Iz. field. exact Hz. }
  assert (Ay : F y = fd (F (py P)) (F (pz P))).
  { unfold y. rewrite F_fmul. transitivity (fd (fm (F (py P)) (fm (F zi) (F (pz P)))) (F (pz P))); [field; exact Hz|]. rewrite Iz. field. exact Hz. }
  unfold aff in C |- *. rewrite <- Ax, <- Ay in C |- *. unfold Edwards.onc in C.
  set (b := fis_neg x). set (n := y + (if b then 2 ^ 255 else 0)).
  unfold ed_decompress. rewrite le_fixed_len. cbn [Nat.eqb negb].
  assert (En : le_int (le_fixed 32 n) = n).
  { apply le_fixed_int. unfold n. change (256 ^ Z.of_nat 32) with (2 ^ 256). destruct b; lia. }
  assert (Ey : fmod K y = y).
  { rewrite (fmod_K K). unfold fmod. cbn [k_mod K_ref]. apply Z.mod_small. exact Ry. }
  assert (El : fmod K (Z.land n (2 ^ 255 - 1)) = y) by (unfold n; rewrite pack_land by lia; exact Ey).
  assert (Et : Z.testbit n 255 = b) by (unfold n; apply pack_testbit; lia).
  rewrite En, El, Et.
  set (u := fsub K (fsq K y) 1). set (v := fadd K (fmul K (fsq K y) ed_d) 1).
  assert (Eu : F u = fs (fm (F y) (F y)) f1) by (unfold u, fsq; now rewrite F_fsub, F_fmul, F_1).
  assert (Ev : F v = fa (fm (fm (F y) (F y)) dF) f1) by (unfold v, fsq; now rewrite F_fadd, !F_fmul, F_1).
  assert (Hv : F v <> f0) by (rewrite Ev; apply one_plus_dyy_nz).
  assert (Hux : F u = fm (fm (F x) (F x)) (F v)).
  { rewrite Eu, Ev. apply curve_to_sqrt. exact C. }
  assert (Ru : 0 <= u < fp) by (apply canon_range; unfold u; apply fsub_canon).
  pose proof (sqrt_ratio_complete K u v x Ru Hv Hux) as W.
  pose proof (sqrt_ratio_ok K u v W) as SQ.
  destruct (sqrt_ratio_snd K u v) as [Cr Er].
  destruct (sqrt_ratio_m1 K u v) as [ok r0]. cbn [fst snd] in W, SQ, Cr, Er. subst ok. cbn [negb].
  assert (S : fm (F r0) (F r0) = fm (F x) (F x)).
  { apply (fm_cancel_r _ _ (F v) Hv). transitivity (F u); [rewrite <- SQ; ring | rewrite Hux; ring]. }
  pose proof (sign_select K x r0 Cx Cr Er S) as Sel. fold (fis_neg x) in Sel. fold b in Sel. rewrite Sel.
  eexists. split; [reflexivity|].
  assert (A : (fd (F x) (F 1), fd (F y) (F 1)) = (F x, F y)) by (rewrite F_1; apply aff_z1).
  split; [|cbn [px py pz]; exact A].
  unfold valid, aff. cbn [px py pz pt]. rewrite A. split; [rewrite F_1; exact (F_1_neq_0 Fth)|]. split; [exact C|].
  rewrite F_fmul, F_1. ring.
Qed.

(* the encoding depends only on the affine point *)
Lemma ed_compress_aff K P Q : valid P -> valid Q -> aff P = aff Q -> ed_compress K P = ed_compress K Q.
Proof.
  intros (Hp & _ & _) (Hq & _ & _) E. unfold aff in E.
  assert (Ex : fd (F (px P)) (F (pz P)) = fd (F (px Q)) (F (pz Q))) by exact (f_equal fst E).
  assert (Ey : fd (F (py P)) (F (pz P)) = fd (F (py Q)) (F (pz Q))) by exact (f_equal snd E).
  assert (Ip : fm (F (finv K (pz P))) (F (pz P)) = f1) by (apply F_finv; exact Hp).
  assert (Iq : fm (F (finv K (pz Q))) (F (pz Q)) = f1) by (apply F_finv; exact Hq).
  assert (X : fmul K (px P) (finv K (pz P)) = fmul K (px Q) (finv K (pz Q))).
  { apply canon_eq; try apply fmul_canon. rewrite !F_fmul.
    transitivity (fd (fm (F (px P)) (fm (F (finv K (pz P))) (F (pz P)))) (F (pz P))); [field; exact Hp|].
    rewrite Ip. transitivity (fd (F (px P)) (F (pz P))); [field; exact Hp|]. rewrite Ex.
    transitivity (fd (fm (F (px Q)) (fm (F (finv K (pz Q))) (F (pz Q)))) (F (pz Q))); [rewrite Iq; field; exact Hq|]. field. exact Hq. }
  assert (Y : fmul K (py P) (finv K (pz P)) = fmul K (py Q) (finv K (pz Q))).
  { apply canon_eq; try apply fmul_canon. rewrite !F_fmul.
    transitivity (fd (fm (F (py P)) (fm (F (finv K (pz P))) (F (pz P)))) (F (pz P))); [field; exact Hp|].
    rewrite Ip. transitivity (fd (F (py P)) (F (pz P))); [field; exact Hp|]. rewrite Ey.
    transitivity (fd (fm (F (py Q)) (fm (F (finv K (pz Q))) (F (pz Q)))) (F (pz Q))); [rewrite Iq; field; exact Hq|]. field. exact Hq. }
  unfold ed_compress. rewrite X, Y. reflexivity.
Qed.

Lemma bytes_eqb_refl bs : Zkp.bytes_eqb bs bs = true.
Proof. induction bs as [|b r IH]; cbn; [reflexivity|]. now rewrite Z.eqb_refl, IH. Qed.

(* ---------------------------------------------------------------- signatures made by the model verify *)
Lemma ed_compress_len K P : length (ed_compress K P) = 32%nat.
Proof. unfold ed_compress. apply le_fixed_len. Qed.

Lemma smod_range K a : 0 <= smod K a < ell.
Proof. unfold smod. rewrite k_mod_ok. apply Z.mod_pos_bound. reflexivity. Qed.

Lemma h_scalar_range K bs : 0 <= h_scalar K bs < ell.
Proof. unfold h_scalar, sc_from_bytes_mod_order. apply smod_range. Qed.

Lemma sc_roundtrip S : 0 <= S < ell -> sc_from_canonical_bytes (sc_to_bytes S) = Some S.
Proof.
  intro H. unfold sc_from_canonical_bytes, sc_to_bytes. rewrite le_fixed_len. cbn [Nat.eqb negb].
  assert (E : le_int (le_fixed 32 S) = S).
  { apply le_fixed_int. change (256 ^ Z.of_nat 32) with (2 ^ 256). assert (ell < 2 ^ 256) by reflexivity. lia. }
  rewrite E. destruct (Z.ltb_spec S ell); [reflexivity|lia].
Qed.

Section Sign.
  Variable K : Kernel.
  Variable PM : PMul.

  (* ed25519-zebra (ZIP-215 rules): for EVERY 32-byte-or-not seed and EVERY message the signature the model produces is
     accepted under the public key the model derives — the end-to-end "valid signatures verify" of C20, on the model *)
  Theorem ed_sign_verify_zebra seed msg :
    ed_verify_zebra K PM (ed_pk K PM seed) (ed_sign K PM seed msg) msg = Ok true.
  Proof.
    unfold ed_pk, ed_sign. destruct (ed_expand seed) as [a0 prefix].
    set (a := smod K a0). set (B := pt_base K).
    set (Apt := pm_mul PM a B). set (Ab := ed_compress K Apt).
    set (r := h_scalar K (prefix ++ msg)). set (Rpt := pm_mul PM r B). set (Rb := ed_compress K Rpt).
    set (k := h_scalar K (Rb ++ Ab ++ msg)). set (S := sc_add K r (sc_mul K k a)).
    pose proof (smod_range K a0) as Ra. fold a in Ra.
    pose proof (h_scalar_range K (prefix ++ msg)) as Rr. fold r in Rr.
    pose proof (h_scalar_range K (Rb ++ Ab ++ msg)) as Rk. fold k in Rk.
    destruct (pm_correct K PM a B (valid_base K)) as [VA AA]. fold Apt in VA, AA.
    destruct (pm_correct K PM r B (valid_base K)) as [VR AR]. fold Rpt in VR, AR.
    destruct (ed_decompress_compress K Apt VA) as (A' & DA & VA' & AA'). fold Ab in DA.
    destruct (ed_decompress_compress K Rpt VR) as (R' & DR & VR' & AR'). fold Rb in DR.
    unfold ed_verify_zebra. rewrite DA.
    assert (LR : length Rb = 32%nat) by apply ed_compress_len.
    assert (F32 : firstn 32 (Rb ++ sc_to_bytes S) = Rb) by (rewrite <- LR at 1; apply firstn_app_length || (rewrite firstn_app, LR, Nat.sub_diag, firstn_O, app_nil_r; rewrite <- LR; apply firstn_all)).
    assert (S32 : skipn 32 (Rb ++ sc_to_bytes S) = sc_to_bytes S) by (rewrite <- LR; apply skipn_app_length || (rewrite skipn_app, LR, Nat.sub_diag; rewrite <- LR at 1; rewrite skipn_all; reflexivity)).
    rewrite F32, S32. fold k.
    assert (RS : 0 <= S < ell) by (unfold S, sc_add; apply smod_range).
    rewrite (sc_roundtrip S RS), DR.
    f_equal.
    apply (ed_equation_complete_gen K PM A' R' a r k); try lia; try assumption.
    - rewrite AA'. exact AA.
    - rewrite AR'. exact AR.
  Qed.

  (* ed25519-dalek (`verify`, byte comparison of the re-encoded R'): likewise *)
  Theorem ed_sign_verify_dalek seed msg :
    ed_verify_dalek K PM (ed_pk K PM seed) (ed_sign K PM seed msg) msg = Ok true.
  Proof.
    unfold ed_pk, ed_sign. destruct (ed_expand seed) as [a0 prefix].
    set (a := smod K a0). set (B := pt_base K).
    set (Apt := pm_mul PM a B). set (Ab := ed_compress K Apt).
    set (r := h_scalar K (prefix ++ msg)). set (Rpt := pm_mul PM r B). set (Rb := ed_compress K Rpt).
    set (k := h_scalar K (Rb ++ Ab ++ msg)). set (S := sc_add K r (sc_mul K k a)).
    pose proof (smod_range K a0) as Ra. fold a in Ra.
    pose proof (h_scalar_range K (prefix ++ msg)) as Rr. fold r in Rr.
    pose proof (h_scalar_range K (Rb ++ Ab ++ msg)) as Rk. fold k in Rk.
    destruct (pm_correct K PM a B (valid_base K)) as [VA AA]. fold Apt in VA, AA.
    destruct (pm_correct K PM r B (valid_base K)) as [VR AR]. fold Rpt in VR, AR.
    destruct (ed_decompress_compress K Apt VA) as (A' & DA & VA' & AA'). fold Ab in DA.
    unfold ed_verify_dalek. rewrite DA.
    assert (LR : length Rb = 32%nat) by apply ed_compress_len.
    assert (F32 : firstn 32 (Rb ++ sc_to_bytes S) = Rb) by (rewrite firstn_app, LR, Nat.sub_diag, firstn_O, app_nil_r; rewrite <- LR; apply firstn_all).
    assert (S32 : skipn 32 (Rb ++ sc_to_bytes S) = sc_to_bytes S) by (rewrite skipn_app, LR, Nat.sub_diag; rewrite <- LR at 1; rewrite skipn_all; reflexivity).
    rewrite F32, S32. fold k.
    assert (RS : 0 <= S < ell) by (unfold S, sc_add; apply smod_range).
    rewrite (sc_roundtrip S RS). f_equal.
    destruct (ed_rprime_aff K PM A' a r k ltac:(lia) ltac:(lia) ltac:(lia) VA' ltac:(rewrite AA'; exact AA)) as [Vrp Arp].
    fold S in Vrp, Arp.
    rewrite (ed_compress_aff K _ Rpt Vrp VR ltac:(rewrite Arp; symmetry; exact AR)). apply bytes_eqb_refl.
  Qed.
End Sign.
