(* Proofs/Untrusted.v — from bytes to a verdict without panic: whatever decodes as a shuffle proof and as
   ciphertext lists is well-formed input for the verifier (C11), on which the verifier is total (C04). *)
From Coq Require Import ZArith List Lia.
From Strand Require Import Base.ZUtil Model.Outcome Model.Codec Model.Backend Model.ZBackend Model.Zkp
  Model.Wire Model.Shuffler Model.Exec Proofs.Laws Proofs.ZLaws Proofs.CodecP Proofs.WireP Proofs.ShuffleSpec.
Import ListNotations.
Open Scope Z_scope.

Section U.
  Variable K : Kernel.
  Variable fl : flavor.
  Variable P : Params.
  Hypothesis G : GoodParams P.
  Notation B := (ZB K fl P).

  Lemma of_wire_wf bs w : bytes_ok bs -> de_proof K fl P bs = Ok w ->
    wf_proof B (member P) (of_wire K fl P w).
  Proof.
    intros Hb Hd.
    destruct (decoded_proof_wf K fl P (gp_p P G) bs w Hd Hb)
      as (H1 & H2 & H3 & H4 & H5 & H6 & H7 & H8 & H9 & H10 & H11 & H12 & H13 & H14).
    assert (F1 : Forall (fun x => 0 <= x) (sp_s_hats w)) by (eapply Forall_impl; [|exact H13]; cbv beta; intros; lia).
    assert (F2 : Forall (fun x => 0 <= x) (sp_s_primes w)) by (eapply Forall_impl; [|exact H14]; cbv beta; intros; lia).
    unfold wf_proof, of_wire. cbn.
    refine (conj H1 (conj H2 (conj H3 (conj H4 (conj H5 (conj H6 (conj _ (conj _ (conj _ (conj _
           (conj F1 (conj F2 (conj H7 H8))))))))))))); lia.
  Qed.

  (* decode, then verify: always a decision *)
  Theorem decode_then_check_total : forall pfb csb csb' pk h0 hs label w es es',
    bytes_ok pfb -> bytes_ok csb -> bytes_ok csb' ->
    de_proof K fl P pfb = Ok w ->
    strict (rd_vecC K fl P) csb = Ok es -> strict (rd_vecC K fl P) csb' = Ok es' ->
    member P pk -> member P h0 -> Forall (member P) hs -> length hs = length es ->
    exists b, check_proof B pk (h0 :: hs) (of_wire K fl P w) es es' label = Ok b.
  Proof.
    intros pfb csb csb' pk h0 hs label w es es' Hb1 Hb2 Hb3 Hd He He' Hpk Hh0 Hhs Hl.
    apply (check_proof_total B (member P) (ZB_laws K fl P G)); try assumption.
    - apply strict_inv in He.
      pose proof (val_vecC_any K fl P (gp_p P G) _ _ _ He) as Hv.
      exact Hv.
    - apply strict_inv in He'.
      pose proof (val_vecC_any K fl P (gp_p P G) _ _ _ He') as Hv.
      exact Hv.
    - exact (of_wire_wf pfb w Hb1 Hd).
  Qed.
End U.
