(* Proofs/RistrettoWireP.v — what can be proved about the ristretto backend's byte layer WITHOUT the curve's group
   law: every wire reader of Model/RBackend.v is total on every byte string (never Panic: C13 for the third
   backend), the exponent decoder accepts exactly the 32-byte little-endian encodings of integers below the group
   order (C11), canonical scalars round-trip and nothing else decodes to them (C12), the element decoder refuses
   everything that is not 32 bytes / not canonical / negative before the curve equation is even looked at, and the
   wide reduction used by the samplers and by hash_to_exp lands in [0, l) and reaches every value (C18). *)
From Coq Require Import ZArith List Bool Lia.
From Strand Require Import Base.ZUtil Model.Outcome Model.Codec Model.Sha512 Model.Backend Model.Zkp Model.Shuffler
  Model.Ristretto Model.RistrettoFast Model.RBackend Proofs.CodecP.
Import ListNotations.
Open Scope Z_scope.

Section RW.
  Variable K : Kernel.
  Variable PM : PMul.
  Local Open Scope outcome_scope.

  Lemma of_option_err_np {A} (o : option A) : of_option_err o <> Panic.
  Proof. destruct o; discriminate. Qed.

  Lemma r_element_from_bytes_np bs : r_element_from_bytes K bs <> Panic.
  Proof. unfold r_element_from_bytes. destruct (length bs =? 32)%nat; [apply of_option_err_np|discriminate]. Qed.

  Lemma r_exp_from_bytes_np bs : r_exp_from_bytes bs <> Panic.
  Proof. unfold r_exp_from_bytes. destruct (length bs =? 32)%nat; [apply of_option_err_np|discriminate]. Qed.

  Ltac np_step :=
    match goal with
    | |- bind ?o _ <> Panic => apply bind_np; [|intros [? ?]]
    | |- bind ?o _ <> Panic => apply bind_np; [|intros ?]
    | |- Ok _ <> Panic => discriminate
    end.

  Lemma np_RE : np_reader (rd_RE K).
  Proof.
    intros bs. unfold rd_RE. apply bind_np; [apply take_n_np|]. intros [b r].
    apply bind_np; [apply r_element_from_bytes_np|]. intros v. discriminate.
  Qed.

  Lemma np_RX : np_reader rd_RX.
  Proof.
    intros bs. unfold rd_RX. apply bind_np; [apply take_n_np|]. intros [b r].
    apply bind_np; [apply r_exp_from_bytes_np|]. intros v. discriminate.
  Qed.

  Lemma np_RP : np_reader rd_RP.
  Proof. intros bs. apply take_n_np. Qed.

  Lemma np_Rct : np_reader (rd_Rct K PM).
  Proof.
    intros bs. unfold rd_Rct. apply bind_np; [apply np_RE|]. intros [a r1].
    apply bind_np; [apply np_RE|]. intros [b r2]. discriminate.
  Qed.

  Lemma np_Rsk : np_reader (rd_Rsk K).
  Proof.
    intros bs. unfold rd_Rsk. apply bind_np; [apply np_RX|]. intros [a r1].
    apply bind_np; [apply np_RE|]. intros [b r2]. discriminate.
  Qed.

  Lemma np_Rschnorr : np_reader (rd_Rschnorr K PM).
  Proof.
    intros bs. unfold rd_Rschnorr. apply bind_np; [apply np_RE|]. intros [a r1].
    apply bind_np; [apply np_RX|]. intros [c r2]. apply bind_np; [apply np_RX|]. intros [s r3]. discriminate.
  Qed.

  Lemma np_Rcp : np_reader (rd_Rcp K PM).
  Proof.
    intros bs. unfold rd_Rcp. apply bind_np; [apply np_RE|]. intros [a r1].
    apply bind_np; [apply np_RE|]. intros [b r2].
    apply bind_np; [apply np_RX|]. intros [c r3]. apply bind_np; [apply np_RX|]. intros [s r4]. discriminate.
  Qed.

  Lemma np_Rsvec {A} (rd : reader A) : np_reader rd -> np_reader (rd_Rsvec rd).
  Proof.
    intros Hrd bs. unfold rd_Rsvec. apply bind_np; [apply rd_vec_np; intro; apply rd_vec_u8_np|]. intros [items r].
    apply bind_np; [apply mapM_np; intro; apply strict_np; exact Hrd|]. intros l. discriminate.
  Qed.

  Lemma np_Rproof : np_reader (rd_Rproof K PM).
  Proof.
    intros bs. unfold rd_Rproof.
    repeat (apply bind_np; [first [apply np_RE | apply np_RX | apply (np_Rsvec _ np_RE) | apply (np_Rsvec _ np_RX)]|intros [? ?]]).
    discriminate.
  Qed.

  (* every ristretto wire reader is total on every byte string *)
  Theorem ristretto_readers_never_panic :
    np_reader (rd_RE K) /\ np_reader rd_RX /\ np_reader rd_RP /\ np_reader (rd_Rct K PM) /\ np_reader (rd_Rsk K) /\
    np_reader (rd_Rschnorr K PM) /\ np_reader (rd_Rcp K PM) /\
    np_reader (rd_Rsvec (rd_RE K)) /\ np_reader (rd_Rsvec rd_RX) /\ np_reader (rd_Rsvec (rd_Rct K PM)) /\
    np_reader (rd_Rproof K PM).
  Proof.
    repeat split; auto using np_RE, np_RX, np_RP, np_Rct, np_Rsk, np_Rschnorr, np_Rcp, np_Rproof, np_Rsvec.
  Qed.

  (* ---- exponents: exact acceptance set, round trip, uniqueness ---- *)
  Theorem r_exp_acceptance bs v :
    r_exp_from_bytes bs = Ok v <-> (length bs = 32%nat /\ v = le_int bs /\ v < ell).
  Proof.
    unfold r_exp_from_bytes, sc_from_canonical_bytes. split.
    - destruct (length bs =? 32)%nat eqn:El; [|discriminate]. apply Nat.eqb_eq in El. cbn [negb].
      destruct (le_int bs <? ell) eqn:Ev; cbn [of_option_err]; [|discriminate].
      intro H. injection H as <-. apply Z.ltb_lt in Ev. auto.
    - intros (El & -> & Hv). rewrite El. cbn. apply Z.ltb_lt in Hv. rewrite Hv. reflexivity.
  Qed.

  Lemma pow256_32 : 256 ^ Z.of_nat 32 = 2 ^ 256.
  Proof. vm_compute. reflexivity. Qed.

  Lemma ell_lt_256 : ell < 2 ^ 256.
  Proof. vm_compute. reflexivity. Qed.

  Theorem r_exp_roundtrip x : 0 <= x < ell -> r_exp_from_bytes (sc_to_bytes x) = Ok x.
  Proof.
    intro Hx. apply r_exp_acceptance. unfold sc_to_bytes. rewrite le_fixed_len. split; [reflexivity|].
    rewrite le_fixed_int by (rewrite pow256_32; pose proof ell_lt_256; lia). split; [reflexivity|lia].
  Qed.

  Theorem sc_to_bytes_len x : length (sc_to_bytes x) = 32%nat.
  Proof. apply le_fixed_len. Qed.

  Theorem sc_to_bytes_injective x y : 0 <= x < ell -> 0 <= y < ell -> sc_to_bytes x = sc_to_bytes y -> x = y.
  Proof.
    intros Hx Hy E. pose proof (r_exp_roundtrip x Hx) as A. rewrite E, (r_exp_roundtrip y Hy) in A. congruence.
  Qed.

  (* wrong lengths are refused outright (33-byte and 31-byte strings never decode as exponent or element) *)
  Theorem r_wrong_length_refused bs : length bs <> 32%nat ->
    r_exp_from_bytes bs = Err /\ r_element_from_bytes K bs = Err.
  Proof.
    intro H. apply Nat.eqb_neq in H. unfold r_exp_from_bytes, r_element_from_bytes. rewrite H. auto.
  Qed.

  (* elements: non-canonical field encodings (value >= 2^255-19, in particular any set top bit) and negative
     (odd) values are refused before DECODE runs *)
  Theorem r_element_precheck bs : length bs = 32%nat -> (le_int bs >= fp \/ Z.odd (le_int bs) = true) ->
    r_element_from_bytes K bs = Err.
  Proof.
    intros El H. unfold r_element_from_bytes, decompress. rewrite El. cbn [Nat.eqb negb].
    replace ((32 =? 32)%nat) with true by reflexivity. cbn [negb].
    destruct H as [H|H].
    - replace (le_int bs >=? fp) with true by (symmetry; apply Z.geb_le; lia). reflexivity.
    - rewrite H, orb_true_r. reflexivity.
  Qed.

  (* ---- the wide reduction (samplers, hash_to_exp): in range for every input, onto ---- *)
  Theorem sc_reduce_range bs : 0 <= sc_from_bytes_mod_order K bs < ell.
  Proof.
    unfold sc_from_bytes_mod_order, smod. rewrite k_mod_ok. apply Z.mod_pos_bound. vm_compute. reflexivity.
  Qed.

  Theorem r_rnd_exp_in_range s v rest : r_rnd_exp K s = Ok (v, rest) -> 0 <= v < ell.
  Proof.
    unfold r_rnd_exp. intro H. apply bind_ok in H. destruct H as ([b r] & _ & H). injection H as <- _.
    apply sc_reduce_range.
  Qed.

  Theorem r_hash_to_exp_in_range bs : 0 <= r_hash_to_exp K bs < ell.
  Proof. apply sc_reduce_range. Qed.

  Theorem r_rnd_exp_onto v rest : 0 <= v < ell ->
    exists s, bytes_ok s /\ length s = 64%nat /\ r_rnd_exp K (s ++ rest) = Ok (v, rest).
  Proof.
    intro Hv. exists (le_fixed 64 v). split; [apply le_fixed_ok|]. split; [apply le_fixed_len|].
    unfold r_rnd_exp. replace 64%nat with (length (le_fixed 64 v)) at 1 by apply le_fixed_len.
    rewrite take_n_app. cbn [bind]. unfold sc_from_bytes_mod_order, smod. rewrite k_mod_ok.
    rewrite le_fixed_int.
    - rewrite Z.mod_small by lia. reflexivity.
    - assert (ell < 256 ^ Z.of_nat 64) by (vm_compute; reflexivity). lia.
  Qed.
  (* scalars and 30-byte plaintexts as codecs in the sense of Proofs/CodecP.v (round trip under any suffix, every
     strict prefix fails), so C12's generic consequences (strict decode inverts encode, appended / removed bytes
     rejected, injectivity) hold for them *)
  Theorem rt_RX : RT (fun x => 0 <= x < ell) sc_to_bytes rd_RX.
  Proof.
    intros x rest Hx. unfold rd_RX.
    replace 32%nat with (length (sc_to_bytes x)) at 1 by apply sc_to_bytes_len.
    rewrite take_n_app. cbn [bind]. rewrite (r_exp_roundtrip x Hx). reflexivity.
  Qed.

  Theorem pf_RX : PF (fun x => 0 <= x < ell) sc_to_bytes rd_RX.
  Proof.
    intros a b x Ha Hx E. unfold rd_RX. rewrite take_n_short; [reflexivity|].
    assert (L : length (b ++ x) = 32%nat) by (rewrite E; apply sc_to_bytes_len).
    rewrite app_length in L. destruct x; [congruence|]. cbn [length] in L. lia.
  Qed.

  Theorem rt_RP : RT (fun m : bytes => length m = 30%nat) (fun m => m) rd_RP.
  Proof. intros m rest Hm. unfold rd_RP. rewrite <- Hm. apply take_n_app. Qed.

  Theorem pf_RP : PF (fun m : bytes => length m = 30%nat) (fun m => m) rd_RP.
  Proof.
    intros a b x Ha Hx E. unfold rd_RP. apply take_n_short. subst a. rewrite app_length in Ha.
    destruct x; [congruence|]. cbn [length] in Ha. lia.
  Qed.
End RW.

Print Assumptions ristretto_readers_never_panic.
Print Assumptions r_exp_acceptance.
Print Assumptions r_rnd_exp_onto.
Print Assumptions rt_RX.
Print Assumptions pf_RX.
