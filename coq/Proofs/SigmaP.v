(* Proofs/SigmaP.v — Schnorr and Chaum-Pedersen over any lawful backend and for ANY hash function
   (hash_to_exp is just a field of the backend): completeness, decision characterisation, rejection of
   altered responses, special soundness, uniqueness of the admissible challenge for false statements. *)
From Coq Require Import ZArith Znumtheory List Lia Bool.
From Strand Require Import Base.Fermat Model.Outcome Model.Codec Model.Backend Model.Zkp Proofs.Laws.
Open Scope Z_scope.

(* modular-subtraction helpers on plain integers *)
Lemma submod_zero q x y : 1 < q -> (x + (q - y mod q)) mod q = 0 -> x mod q = y mod q.
Proof.
  intros Hq H. rewrite <- Zplus_mod_idemp_l in H.
  pose proof (Z.mod_pos_bound x q ltac:(lia)) as Ha. pose proof (Z.mod_pos_bound y q ltac:(lia)) as Hb.
  set (a := x mod q) in *. set (b := y mod q) in *.
  destruct (Z_lt_le_dec a b) as [Hlt|Hle].
  - rewrite Z.mod_small in H by lia. lia.
  - replace (a + (q - b)) with ((a - b) + 1 * q) in H by lia.
    rewrite Z_mod_plus_full in H. rewrite Z.mod_small in H by lia. lia.
Qed.

Lemma negmod_cancel q y : 1 < q -> (q - y mod q + y) mod q = 0.
Proof.
  intros Hq. pose proof (Z.div_mod y q ltac:(lia)).
  replace (q - y mod q + y) with ((1 + y / q) * q) by lia. apply Z_mod_mult.
Qed.

Section Sigma.
  Variable B : Backend.
  Variable mem : E B -> Prop.
  Hypothesis L : Laws B mem.
  Notation q := (b_q B).
  Notation mulp := (b_mulp B).
  Notation pow := (b_pow B).
  Notation one := (b_one B).

  (* response = (r + c*x) reduced, computed with the backend's exponent operations *)
  Definition resp (r c x : Z) : Z := b_xmodq B (b_xadd B r (b_xmul B c x)).

  Lemma resp_ok r c x : 0 <= r -> 0 <= c -> 0 <= x ->
    0 <= resp r c x < q /\ resp r c x mod q = (r + c * x) mod q.
  Proof.
    intros Hr Hc Hx. unfold resp. pose proof (q_gt1 B mem L) as Hq.
    destruct (xmul_ok B mem L c x Hc Hx) as [H1 E1].
    destruct (xadd_ok B mem L r _ Hr H1) as [H2 E2].
    rewrite (xmodq_ok B mem L) by exact H2.
    split; [apply Z.mod_pos_bound; lia|].
    rewrite Z.mod_mod by lia. rewrite E2.
    rewrite Zplus_mod, E1, <- Zplus_mod. reflexivity.
  Qed.

  (* the algebraic heart of completeness: base^(r + c x) = base^r * (base^x)^c *)
  Lemma sigma_eq base r c x : mem base -> 0 <= r -> 0 <= c -> 0 <= x ->
    pow base (resp r c x) = mulp (pow base r) (pow (pow base x) c).
  Proof.
    intros Hb Hr Hc Hx. destruct (resp_ok r c x Hr Hc Hx) as [[H0 _] E].
    rewrite (pow_congr B mem L base (resp r c x) (r + c * x)) by (auto; nia).
    rewrite (pow_add B mem L) by (auto; nia).
    rewrite (pow_mul B mem L) by auto. now rewrite (Z.mul_comm x c).
  Qed.

  Lemma base_mem g : (forall b, g = Some b -> mem b) -> mem (base_or_gen B g).
  Proof. intros H. destruct g as [b|]; cbn; [apply H; reflexivity | apply (mem_gen B mem L)]. Qed.

  Lemma chal_nonneg bs : 0 <= b_hash_to_exp B bs.
  Proof. apply (hash_range B mem L). Qed.

  (* ---------- Schnorr ---------- *)
  Theorem schnorr_complete_private secret g context r :
    (forall b, g = Some b -> mem b) -> 0 <= secret -> 0 <= r ->
    schnorr_verify_private B (pow (base_or_gen B g) secret) g
      (schnorr_prove_private B secret (pow (base_or_gen B g) secret) g context r) context = true.
  Proof.
    intros Hg Hs Hr. pose proof (base_mem g Hg) as Hb.
    unfold schnorr_verify_private, schnorr_prove_private. cbn [s_com s_chal s_resp].
    rewrite Z.eqb_refl. cbn [andb].
    set (c := schnorr_challenge B _ _ _ _).
    assert (Hc : 0 <= c) by apply chal_nonneg.
    fold (resp r c secret). fold (mulp (pow (base_or_gen B g) r) (pow (pow (base_or_gen B g) secret) c)).
    apply (eqb_spec B mem L).
    - apply (pow_mem B mem L); [exact Hb|]. apply (resp_ok r c secret); assumption.
    - apply (mem_mulp B mem L); repeat apply (pow_mem B mem L); assumption.
    - apply sigma_eq; assumption.
  Qed.

  (* decision characterisation: accept <=> challenge is the hash of the transcript /\ equation holds *)
  Theorem schnorr_verify_spec pub g pf context :
    (forall b, g = Some b -> mem b) -> mem pub -> mem (s_com B pf) -> 0 <= s_chal B pf -> 0 <= s_resp B pf ->
    (schnorr_verify_private B pub g pf context = true <->
     s_chal B pf = schnorr_challenge B (base_or_gen B g) pub (s_com B pf) context /\
     pow (base_or_gen B g) (s_resp B pf) = mulp (s_com B pf) (pow pub (s_chal B pf))).
  Proof.
    intros Hg Hpub Hcom Hc Hs. pose proof (base_mem g Hg) as Hb.
    unfold schnorr_verify_private. rewrite andb_true_iff, Z.eqb_eq.
    fold (mulp (s_com B pf) (pow pub (s_chal B pf))).
    rewrite (eqb_spec B mem L).
    - split; intros [H1 H2]; split; auto.
    - apply (pow_mem B mem L); assumption.
    - apply (mem_mulp B mem L); [assumption|apply (pow_mem B mem L); assumption].
  Qed.

  (* ---------- Chaum-Pedersen ---------- *)
  Theorem cp_complete_private secret g1 g2 context r :
    (forall b, g1 = Some b -> mem b) -> mem g2 -> 0 <= secret -> 0 <= r ->
    cp_verify_private B (pow (base_or_gen B g1) secret) (pow g2 secret) g1 g2
      (cp_prove_private B secret (pow (base_or_gen B g1) secret) (pow g2 secret) g1 g2 context r) context = true.
  Proof.
    intros Hg1 Hg2 Hs Hr. pose proof (base_mem g1 Hg1) as Hb.
    unfold cp_verify_private, cp_prove_private. cbn [c_com1 c_com2 c_chal c_resp].
    rewrite Z.eqb_refl. cbn [andb].
    set (c := cp_challenge B _ _ _ _ _ _ _).
    assert (Hc : 0 <= c) by apply chal_nonneg.
    fold (resp r c secret).
    destruct (resp_ok r c secret Hr Hc Hs) as [[H0 _] _].
    apply andb_true_iff. split.
    - fold (mulp (pow (base_or_gen B g1) r) (pow (pow (base_or_gen B g1) secret) c)).
      apply (eqb_spec B mem L).
      + apply (pow_mem B mem L); assumption.
      + apply (mem_mulp B mem L); repeat apply (pow_mem B mem L); assumption.
      + apply sigma_eq; assumption.
    - fold (mulp (pow g2 r) (pow (pow g2 secret) c)).
      apply (eqb_spec B mem L).
      + apply (pow_mem B mem L); assumption.
      + apply (mem_mulp B mem L); repeat apply (pow_mem B mem L); assumption.
      + apply sigma_eq; assumption.
  Qed.

  Theorem cp_verify_spec pub1 pub2 g1 g2 pf context :
    (forall b, g1 = Some b -> mem b) -> mem g2 -> mem pub1 -> mem pub2 ->
    mem (c_com1 B pf) -> mem (c_com2 B pf) -> 0 <= c_chal B pf -> 0 <= c_resp B pf ->
    (cp_verify_private B pub1 pub2 g1 g2 pf context = true <->
     c_chal B pf = cp_challenge B (base_or_gen B g1) g2 pub1 pub2 (c_com1 B pf) (c_com2 B pf) context /\
     pow (base_or_gen B g1) (c_resp B pf) = mulp (c_com1 B pf) (pow pub1 (c_chal B pf)) /\
     pow g2 (c_resp B pf) = mulp (c_com2 B pf) (pow pub2 (c_chal B pf))).
  Proof.
    intros Hg1 Hg2 Hp1 Hp2 Hk1 Hk2 Hc Hs. pose proof (base_mem g1 Hg1) as Hb.
    unfold cp_verify_private. rewrite !andb_true_iff, Z.eqb_eq.
    fold (mulp (c_com1 B pf) (pow pub1 (c_chal B pf))) (mulp (c_com2 B pf) (pow pub2 (c_chal B pf))).
    rewrite !(eqb_spec B mem L);
      try (apply (pow_mem B mem L); assumption);
      try (apply (mem_mulp B mem L); [assumption|apply (pow_mem B mem L); assumption]).
    split; [intros [[H1 H2] H3] | intros (H1 & H2 & H3)]; auto.
  Qed.

  (* ---------- consequences that need q prime ---------- *)
  Hypothesis q_prime : prime q.

  (* a^x = a^y with a <> 1  ==>  x = y (mod q) *)
  Lemma pow_inj a x y : mem a -> a <> one -> 0 <= x -> 0 <= y -> pow a x = pow a y -> x mod q = y mod q.
  Proof.
    intros Ha Hne Hx Hy E. pose proof (q_gt1 B mem L) as Hq.
    destruct (Z.eq_dec (x mod q) (y mod q)) as [|Hd]; [assumption|exfalso].
    pose proof (Z.mod_pos_bound y q ltac:(lia)) as Hyq.
    set (d := (x + (q - y mod q)) mod q).
    assert (Hd0 : d <> 0) by (intro H0; apply Hd; apply submod_zero; assumption).
    assert (Hpd : pow a d = one).
    { unfold d. rewrite (pow_mod B mem L) by (auto; lia).
      rewrite (pow_add B mem L) by (auto; lia).
      rewrite E. rewrite <- (pow_add B mem L) by (auto; lia).
      rewrite <- (pow_mod B mem L) by (auto; lia).
      rewrite (Z.add_comm y). rewrite negmod_cancel by lia.
      apply (pow_0 B mem L); exact Ha. }
    assert (Hdr : 0 <= d < q) by (apply Z.mod_pos_bound; lia).
    destruct (inv_mod_prime q d q_prime) as (e & He & Hde).
    { intro Hdiv. apply Z.mod_divide in Hdiv; [|lia]. rewrite Z.mod_small in Hdiv by lia. contradiction. }
    apply Hne.
    rewrite <- (pow_1 B mem L a Ha).
    rewrite <- (pow_congr B mem L a (d * e) 1) by (auto; try nia; rewrite Hde; symmetry; apply Z.mod_small; lia).
    rewrite <- (pow_mul B mem L) by (auto; lia). rewrite Hpd. apply (pow_one B mem L); lia.
  Qed.

  (* an accepted proof stops being accepted when only its response is changed to another canonical exponent *)
  Theorem schnorr_response_binding pub g pf s' context :
    (forall b, g = Some b -> mem b) -> base_or_gen B g <> one ->
    mem pub -> mem (s_com B pf) -> 0 <= s_chal B pf -> 0 <= s_resp B pf < q -> 0 <= s' < q ->
    schnorr_verify_private B pub g pf context = true ->
    s' <> s_resp B pf ->
    schnorr_verify_private B pub g {| s_com := s_com B pf; s_chal := s_chal B pf; s_resp := s' |} context = false.
  Proof.
    intros Hg Hne Hpub Hcom Hc Hs Hs' Hacc Hd.
    set (pf' := {| s_com := s_com B pf; s_chal := s_chal B pf; s_resp := s' |}).
    destruct (schnorr_verify_private B pub g pf' context) eqn:E; [exfalso|reflexivity].
    apply schnorr_verify_spec in Hacc; try assumption; try lia.
    apply schnorr_verify_spec in E; subst pf'; cbn [s_com s_chal s_resp]; try assumption; try lia.
    cbn [s_com s_chal s_resp] in E. destruct Hacc as [_ H1]. destruct E as [_ H2].
    assert (pow (base_or_gen B g) s' = pow (base_or_gen B g) (s_resp B pf)) as Ep by congruence.
    apply pow_inj in Ep; try lia; [|apply base_mem; assumption|assumption].
    rewrite !Z.mod_small in Ep by lia. contradiction.
  Qed.

  (* special soundness: two accepting transcripts with the same commitment and different challenges
     yield a witness *)
  Theorem schnorr_special_soundness base pub com c1 s1 c2 s2 :
    mem base -> mem pub -> mem com -> 0 <= c1 -> 0 <= c2 -> 0 <= s1 -> 0 <= s2 ->
    c1 mod q <> c2 mod q ->
    pow base s1 = mulp com (pow pub c1) ->
    pow base s2 = mulp com (pow pub c2) ->
    exists x, 0 <= x < q /\ pub = pow base x.
  Proof.
    intros Hb Hp Hk Hc1 Hc2 Hs1 Hs2 Hd E1 E2. pose proof (q_gt1 B mem L) as Hq.
    (* d = c1 - c2 mod q is invertible; x = (s1 - s2) / d *)
    set (d := (c1 + (q - c2 mod q)) mod q).
    pose proof (Z.mod_pos_bound c2 q ltac:(lia)) as Hc2q.
    assert (Hdr : 0 <= d < q) by (apply Z.mod_pos_bound; lia).
    assert (Hd0 : ~ (q | d)).
    { intro Hdiv. apply Z.mod_divide in Hdiv; [|lia]. rewrite Z.mod_small in Hdiv by lia.
      apply Hd. apply submod_zero; [lia|exact Hdiv]. }
    destruct (inv_mod_prime q d q_prime Hd0) as (e & He & Hde).
    set (t := s1 + (q - s2 mod q)).
    pose proof (Z.mod_pos_bound s2 q ltac:(lia)) as Hs2q.
    exists ((t * e) mod q). split; [apply Z.mod_pos_bound; lia|].
    (* base^t = pub^d *)
    assert (Hq_s2 : pow base (q - s2 mod q + s2) = one).
    { rewrite <- (pow_mod B mem L) by (auto; lia). rewrite negmod_cancel by lia.
      apply (pow_0 B mem L); exact Hb. }
    assert (Hq_c2 : pow pub (q - c2 mod q + c2) = one).
    { rewrite <- (pow_mod B mem L) by (auto; lia). rewrite negmod_cancel by lia.
      apply (pow_0 B mem L); exact Hp. }
    assert (Hpc1 : mem (pow pub c1)) by (apply (pow_mem B mem L); assumption).
    assert (Hpc2 : mem (pow pub c2)) by (apply (pow_mem B mem L); assumption).
    assert (Hbt : pow base t = pow pub d).
    { unfold d. rewrite (pow_mod B mem L) by (auto; lia). unfold t.
      (* multiply both sides by base^s2 = com * pub^c2 and cancel *)
      apply (mulp_cancel_l B mem L (mulp com (pow pub c2))).
      - apply (mem_mulp B mem L); assumption.
      - apply (pow_mem B mem L); [assumption|lia].
      - apply (pow_mem B mem L); [assumption|lia].
      - rewrite <- E2 at 1.
        rewrite <- (pow_add B mem L) by (auto; lia).
        replace (s2 + (s1 + (q - s2 mod q))) with (s1 + (q - s2 mod q + s2)) by lia.
        rewrite (pow_add B mem L) by (auto; lia). rewrite Hq_s2.
        rewrite (mulp_one_r B mem L) by (apply (pow_mem B mem L); assumption).
        rewrite E1.
        rewrite (mulp_assoc B mem L) by (first [assumption | apply (pow_mem B mem L); [assumption|lia]]).
        rewrite <- (pow_add B mem L) by (auto; lia).
        replace (c2 + (c1 + (q - c2 mod q))) with (c1 + (q - c2 mod q + c2)) by lia.
        rewrite (pow_add B mem L) by (auto; lia). rewrite Hq_c2.
        rewrite (mulp_one_r B mem L) by assumption. reflexivity. }
    rewrite (pow_mod B mem L) by (auto; nia).
    rewrite <- (pow_mul B mem L) by (auto; lia).
    rewrite Hbt. rewrite (pow_mul B mem L) by (auto; lia).
    rewrite (pow_congr B mem L pub (d * e) 1) by (auto; try nia; rewrite Hde; symmetry; apply Z.mod_small; lia).
    symmetry. apply (pow_1 B mem L); assumption.
  Qed.
End Sigma.
