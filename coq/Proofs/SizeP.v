(* Proofs/SizeP.v — decoded data is backed by input (the model-level half of C13's "memory in proportion to the input").
   For every wire reader of the multiplicative backends and every byte string:
       rd bs = Ok (v, rest)  ->  length rest + size v <= length bs
   where [size] counts what the decoded value retains: the bytes of every big integer (bsz), 4 per vector item and per
   length prefix. Hence nothing decodes to more data than the bytes it consumed, every accepted item count is
   backed by at least 8 input bytes per item (rd_svec) / minsz bytes per item (rd_vec), and a count that is not backed is
   refused before a single item is read. What the Rust allocator does with that (borsh's 4096-byte cautious
   pre-allocation, Vec growth) is measured by the counting allocator in the harness, not proved. *)
From Coq Require Import ZArith List Bool Lia.
From Strand Require Import Base.ZUtil Model.Outcome Model.Codec Model.Backend Model.ZBackend Model.Zkp Model.Wire
  Proofs.CodecP.
Import ListNotations.
Open Scope Z_scope.
Local Notation length := List.length.

(* bytes needed for a non-negative integer (at least one) *)
Definition bsz (v : Z) : nat := S (Z.to_nat (Z.log2 v / 8)).

Lemma bsz_bound v n : 0 <= v < 256 ^ Z.of_nat n -> (bsz v <= S n)%nat.
Proof.
  intros [H0 H1]. unfold bsz. apply le_n_S.
  destruct (Z.eq_dec v 0) as [->|Hv]; [cbn; lia|].
  assert (Hl : Z.log2 v < 8 * Z.of_nat n).
  { apply Z.log2_lt_pow2; [lia|]. rewrite pow256 by lia. exact H1. }
  assert (Z.log2 v / 8 < Z.of_nat n) by (apply Z.div_lt_upper_bound; lia).
  pose proof (Z.log2_nonneg v). assert (0 <= Z.log2 v / 8) by (apply Z.div_pos; lia). lia.
Qed.

Definition BK {A} (sz : A -> nat) (rd : reader A) : Prop :=
  forall bs a r, bytes_ok bs -> rd bs = Ok (a, r) -> (length r + sz a <= length bs)%nat /\ bytes_ok r.

Lemma bytes_ok_split a b : bytes_ok (a ++ b) -> bytes_ok a /\ bytes_ok b.
Proof. apply bytes_ok_app. Qed.

Lemma bk_take_n n : BK (fun b : bytes => length b) (take_n n).
Proof.
  intros bs a r Hb H. apply take_n_inv in H as [-> L]. apply bytes_ok_split in Hb as [Ha Hr].
  rewrite app_length. split; [lia|exact Hr].
Qed.

Lemma bk_vec_u8 : BK (fun b : bytes => 4 + length b)%nat rd_vec_u8.
Proof.
  intros bs b r Hb H. apply rd_vec_u8_inv in H as (a & -> & La & _).
  apply bytes_ok_split in Hb as [_ Hb]. apply bytes_ok_split in Hb as [_ Hr].
  rewrite !app_length. split; [lia|exact Hr].
Qed.

Lemma vec_u8_inv_ok bs b r : bytes_ok bs -> rd_vec_u8 bs = Ok (b, r) -> bytes_ok b.
Proof.
  intros Hb H. apply rd_vec_u8_inv in H as (a & -> & _ & _).
  apply bytes_ok_split in Hb as [_ Hb]. apply bytes_ok_split in Hb as [Hb _]. exact Hb.
Qed.

Lemma bk_u16 : BK (fun _ : Z => 2%nat) rd_u16.
Proof.
  intros bs a r Hb H. apply rd_u16_inv in H as (x & -> & L & _).
  apply bytes_ok_split in Hb as [_ Hr]. rewrite app_length. split; [lia|exact Hr].
Qed.

(* n items *)
Fixpoint sum_sz {A} (sz : A -> nat) (l : list A) : nat :=
  match l with [] => O | a :: t => (sz a + sum_sz sz t)%nat end.

Lemma bk_rd_n {A} (sz : A -> nat) (rd : reader A) : BK sz rd -> forall k, BK (sum_sz sz) (rd_n rd k).
Proof.
  intros H k. induction k as [|k IH]; intros bs l r Hb E; cbn [rd_n] in E.
  - injection E as <- <-. cbn. split; [lia|exact Hb].
  - destruct (rd bs) as [[a r1]| |] eqn:Ea; try discriminate.
    destruct (rd_n rd k r1) as [[l1 r2]| |] eqn:El; try discriminate.
    injection E as <- <-. destruct (H _ _ _ Hb Ea) as [L1 Hb1]. destruct (IH _ _ _ Hb1 El) as [L2 Hb2].
    cbn [sum_sz]. split; [lia|exact Hb2].
Qed.

Lemma bk_rd_vec {A} minsz (sz : A -> nat) (rd : reader A) : BK sz rd ->
  BK (fun l => 4 + sum_sz sz l)%nat (rd_vec minsz rd).
Proof.
  intros H bs l r Hb E. unfold rd_vec in E.
  destruct (rd_u32 bs) as [[n r1]| |] eqn:En; try discriminate.
  apply rd_u32_inv in En as (a & -> & La & ->).
  destruct (_ <=? _); try discriminate.
  apply bytes_ok_split in Hb as [_ Hb1].
  destruct (bk_rd_n sz rd H _ _ _ _ Hb1 E) as [L Hr]. rewrite app_length. split; [lia|exact Hr].
Qed.

(* an accepted count is backed: at least minsz input bytes per announced item are present BEFORE any item is read *)
Lemma rd_vec_count_backed {A} minsz (rd : reader A) bs l r : rd_vec minsz rd bs = Ok (l, r) ->
  (4 + length l * minsz <= length bs)%nat.
Proof.
  unfold rd_vec. intro E. destruct (rd_u32 bs) as [[n r1]| |] eqn:En; try discriminate.
  apply rd_u32_inv in En as (a & -> & La & ->).
  destruct (Z.leb_spec (le_int a * Z.of_nat minsz) (Z.of_nat (length r1))) as [Hle|]; try discriminate.
  assert (Hlen : length l = Z.to_nat (le_int a)).
  { destruct (rd_n_inv rd (fun _ => True) (fun _ => True) (fun _ _ _ _ _ => conj I I) _ _ _ _ I E) as (_ & _ & L). exact L. }
  rewrite app_length, La, Hlen.
  destruct (Z_lt_le_dec (le_int a) 0) as [Hn|Hn].
  - assert (Z.to_nat (le_int a) = 0%nat) as -> by lia. lia.
  - apply Nat2Z.inj_le. rewrite Nat2Z.inj_add, Nat2Z.inj_mul, Z2Nat.id by lia. lia.
Qed.

Lemma rd_vec_unbacked_refused {A} minsz (rd : reader A) a r :
  length a = 4%nat -> Z.of_nat (length r) < le_int a * Z.of_nat minsz -> rd_vec minsz rd (a ++ r) = Err.
Proof.
  intros La H. unfold rd_vec, rd_u32.
  replace 4%nat with (length a) by exact La. rewrite take_n_app.
  destruct (Z.leb_spec (le_int a * Z.of_nat minsz) (Z.of_nat (length r))); [lia|reflexivity].
Qed.

(* strict item decoding inside a vector wrapper *)
Lemma strict_bk {A} (sz : A -> nat) (rd : reader A) : BK sz rd ->
  forall it a, bytes_ok it -> strict rd it = Ok a -> (sz a <= length it)%nat.
Proof.
  intros H it a Hb E. apply strict_inv in E. destruct (H _ _ _ Hb E) as [L _]. cbn in L. lia.
Qed.

Lemma mapM_strict_sum {A} (sz : A -> nat) (rd : reader A) : BK sz rd ->
  forall items l, Forall bytes_ok items -> mapM (strict rd) items = Ok l ->
  (sum_sz (fun a => 4 + sz a) l <= sum_sz (fun b : bytes => 4 + length b) items)%nat /\ length l = length items.
Proof.
  intros H items. induction items as [|it items IH]; intros l Hb E; cbn [mapM] in E.
  - injection E as <-. cbn. lia.
  - inversion Hb as [|? ? Hit Hits]; subst.
    destruct (strict rd it) as [a| |] eqn:Ea; try discriminate.
    destruct (mapM (strict rd) items) as [l1| |] eqn:El; try discriminate.
    injection E as <-. pose proof (strict_bk sz rd H it a Hit Ea). destruct (IH l1 Hits eq_refl) as [S1 S2].
    cbn [sum_sz length]. lia.
Qed.

Lemma rd_n_vec_u8_items_ok k : forall bs items r, bytes_ok bs -> rd_n rd_vec_u8 k bs = Ok (items, r) -> Forall bytes_ok items.
Proof.
  induction k as [|k IH]; intros bs items r Hb E; cbn [rd_n] in E.
  - injection E as <- <-. constructor.
  - destruct (rd_vec_u8 bs) as [[b r1]| |] eqn:Eb; try discriminate.
    destruct (rd_n rd_vec_u8 k r1) as [[l1 r2]| |] eqn:El; try discriminate.
    injection E as <- <-. destruct (bk_vec_u8 _ _ _ Hb Eb) as [_ Hr1].
    constructor; [exact (vec_u8_inv_ok _ _ _ Hb Eb)|exact (IH _ _ _ Hr1 El)].
Qed.

Section W.
  Variable K : Kernel.
  Variable fl : flavor.
  Variable P : Params.
  Notation B := (ZB K fl P).
  Local Open Scope outcome_scope.

  (* StrandVector*: every item costs 8 bytes of framing (outer and inner length prefix are at least 4 each is NOT
     assumed: 4 for the outer prefix, the item's own size for the rest) *)
  Lemma bk_svec {A} (sz : A -> nat) (rd : reader A) : BK sz rd ->
    BK (fun l => 4 + sum_sz (fun a => 4 + sz a) l)%nat (rd_svec rd).
  Proof.
    intros H bs l r Hb E. unfold rd_svec in E. apply bind_ok in E as ([items r1] & E1 & E2).
    apply bind_ok in E2 as (l' & E2 & E3). injection E3 as <- <-.
    destruct (bk_rd_vec 4 _ _ bk_vec_u8 _ _ _ Hb E1) as [L Hr]. split; [|exact Hr].
    assert (Hits : Forall bytes_ok items).
    { unfold rd_vec in E1. destruct (rd_u32 bs) as [[n r0]| |] eqn:En; try discriminate.
      apply rd_u32_inv in En as (a & -> & La & ->). destruct (_ <=? _); try discriminate.
      apply bytes_ok_split in Hb as [_ Hb0]. exact (rd_n_vec_u8_items_ok _ _ _ _ Hb0 E1). }
    destruct (mapM_strict_sum sz rd H items l' Hits E2) as [S1 _].
    lia.
  Qed.

  Lemma element_from_bytes_val b v : element_from_bytes K fl P b = Ok v -> v = int_of_bytes fl b.
  Proof.
    unfold element_from_bytes, element_from_int. destruct (_ || _); [discriminate|].
    destruct (negb _); [discriminate|]. intro H. injection H as <-. reflexivity.
  Qed.

  Lemma exp_from_bytes_val b v : exp_from_bytes fl P b = Ok v -> v = int_of_bytes fl b.
  Proof. unfold exp_from_bytes. destruct (_ >=? _); [discriminate|]. intro H. injection H as <-. reflexivity. Qed.

  Lemma int_of_bytes_bound' b : bytes_ok b -> 0 <= int_of_bytes fl b < 256 ^ Z.of_nat (length b).
  Proof. intro H. unfold int_of_bytes. destruct fl; [apply le_int_bound|apply be_int_bound]; exact H. Qed.

  Lemma bk_E : BK bsz (rd_E K fl P).
  Proof.
    intros bs v r Hb E. unfold rd_E in E. apply bind_ok in E as ([b r1] & E1 & E2).
    apply bind_ok in E2 as (v' & E2 & E3). injection E3 as <- <-.
    destruct (bk_vec_u8 _ _ _ Hb E1) as [L Hr]. split; [|exact Hr].
    apply element_from_bytes_val in E2. subst v'.
    pose proof (bsz_bound _ _ (int_of_bytes_bound' b (vec_u8_inv_ok _ _ _ Hb E1))). lia.
  Qed.

  Lemma bk_X : BK bsz (rd_X fl P).
  Proof.
    intros bs v r Hb E. unfold rd_X in E. apply bind_ok in E as ([b r1] & E1 & E2).
    apply bind_ok in E2 as (v' & E2 & E3). injection E3 as <- <-.
    destruct (bk_vec_u8 _ _ _ Hb E1) as [L Hr]. split; [|exact Hr].
    apply exp_from_bytes_val in E2. subst v'.
    pose proof (bsz_bound _ _ (int_of_bytes_bound' b (vec_u8_inv_ok _ _ _ Hb E1))). lia.
  Qed.

  Definition sz_ct (c : ctext B) : nat := (bsz (mhr c) + bsz (gr c))%nat.
  Lemma bk_ct : BK sz_ct (rd_ct K fl P).
  Proof.
    intros bs c r Hb E. unfold rd_ct in E. apply bind_ok in E as ([a r1] & E1 & E2).
    apply bind_ok in E2 as ([b r2] & E2 & E3). injection E3 as <- <-.
    destruct (bk_E _ _ _ Hb E1) as [L1 Hb1]. destruct (bk_E _ _ _ Hb1 E2) as [L2 Hb2].
    unfold sz_ct. cbn [mhr gr]. split; [lia|exact Hb2].
  Qed.

  Definition sz_sk (vp : Z * Z) : nat := (bsz (fst vp) + bsz (snd vp))%nat.
  Lemma bk_sk : BK sz_sk (rd_sk K fl P).
  Proof.
    intros bs c r Hb E. unfold rd_sk in E. apply bind_ok in E as ([a r1] & E1 & E2).
    apply bind_ok in E2 as ([b r2] & E2 & E3). injection E3 as <- <-.
    destruct (bk_X _ _ _ Hb E1) as [L1 Hb1]. destruct (bk_E _ _ _ Hb1 E2) as [L2 Hb2].
    unfold sz_sk. cbn [fst snd]. split; [lia|exact Hb2].
  Qed.

  Definition sz_schnorr (s : schnorr B) : nat := (bsz (s_com B s) + bsz (s_chal B s) + bsz (s_resp B s))%nat.
  Lemma bk_schnorr : BK sz_schnorr (rd_schnorr K fl P).
  Proof.
    intros bs c r Hb E. unfold rd_schnorr in E. apply bind_ok in E as ([a r1] & E1 & E2).
    apply bind_ok in E2 as ([b r2] & E2 & E3). apply bind_ok in E3 as ([d r3] & E3 & E4). injection E4 as <- <-.
    destruct (bk_E _ _ _ Hb E1) as [L1 Hb1]. destruct (bk_X _ _ _ Hb1 E2) as [L2 Hb2]. destruct (bk_X _ _ _ Hb2 E3) as [L3 Hb3].
    unfold sz_schnorr. cbn [s_com s_chal s_resp]. split; [lia|exact Hb3].
  Qed.

  Definition sz_cp (s : cproof B) : nat :=
    (bsz (c_com1 B s) + bsz (c_com2 B s) + bsz (c_chal B s) + bsz (c_resp B s))%nat.
  Lemma bk_cp : BK sz_cp (rd_cp K fl P).
  Proof.
    intros bs c r Hb E. unfold rd_cp in E. apply bind_ok in E as ([a r1] & E1 & E2).
    apply bind_ok in E2 as ([b r2] & E2 & E3). apply bind_ok in E3 as ([d r3] & E3 & E4).
    apply bind_ok in E4 as ([e r4] & E4 & E5). injection E5 as <- <-.
    destruct (bk_E _ _ _ Hb E1) as [L1 Hb1]. destruct (bk_E _ _ _ Hb1 E2) as [L2 Hb2].
    destruct (bk_X _ _ _ Hb2 E3) as [L3 Hb3]. destruct (bk_X _ _ _ Hb3 E4) as [L4 Hb4].
    unfold sz_cp. cbn [c_com1 c_com2 c_chal c_resp]. split; [lia|exact Hb4].
  Qed.

  Definition sz_vec {A} (sz : A -> nat) (l : list A) : nat := (4 + sum_sz (fun a => 4 + sz a) l)%nat.

  Definition sz_proof (w : sproof) : nat :=
    (bsz (sp_t1 w) + bsz (sp_t2 w) + bsz (sp_t3 w) + bsz (sp_t41 w) + bsz (sp_t42 w) + sz_vec bsz (sp_t_hats w) +
     bsz (sp_s1 w) + bsz (sp_s2 w) + bsz (sp_s3 w) + bsz (sp_s4 w) + sz_vec bsz (sp_s_hats w) + sz_vec bsz (sp_s_primes w) +
     sz_vec bsz (sp_cs w) + sz_vec bsz (sp_c_hats w))%nat.

  Lemma bk_proof : BK sz_proof (rd_proof K fl P).
  Proof.
    intros bs w r Hb E. unfold rd_proof in E.
    apply bind_ok in E as ([t1 r1] & E1 & E). apply bind_ok in E as ([t2 r2] & E2 & E).
    apply bind_ok in E as ([t3 r3] & E3 & E). apply bind_ok in E as ([t41 r4] & E4 & E).
    apply bind_ok in E as ([t42 r5] & E5 & E). apply bind_ok in E as ([th r6] & E6 & E).
    apply bind_ok in E as ([s1 r7] & E7 & E). apply bind_ok in E as ([s2 r8] & E8 & E).
    apply bind_ok in E as ([s3 r9] & E9 & E). apply bind_ok in E as ([s4 r10] & E10 & E).
    apply bind_ok in E as ([sh r11] & E11 & E). apply bind_ok in E as ([sp r12] & E12 & E).
    apply bind_ok in E as ([cs r13] & E13 & E). apply bind_ok in E as ([ch r14] & E14 & E).
    injection E as <- <-.
    destruct (bk_E _ _ _ Hb E1) as [L1 H1]. destruct (bk_E _ _ _ H1 E2) as [L2 H2]. destruct (bk_E _ _ _ H2 E3) as [L3 H3].
    destruct (bk_E _ _ _ H3 E4) as [L4 H4]. destruct (bk_E _ _ _ H4 E5) as [L5 H5].
    destruct (bk_svec _ _ bk_E _ _ _ H5 E6) as [L6 H6].
    destruct (bk_X _ _ _ H6 E7) as [L7 H7]. destruct (bk_X _ _ _ H7 E8) as [L8 H8]. destruct (bk_X _ _ _ H8 E9) as [L9 H9].
    destruct (bk_X _ _ _ H9 E10) as [L10 H10].
    destruct (bk_svec _ _ bk_X _ _ _ H10 E11) as [L11 H11]. destruct (bk_svec _ _ bk_X _ _ _ H11 E12) as [L12 H12].
    destruct (bk_svec _ _ bk_E _ _ _ H12 E13) as [L13 H13]. destruct (bk_svec _ _ bk_E _ _ _ H13 E14) as [L14 H14].
    unfold sz_proof, sz_vec. cbn [sp_t1 sp_t2 sp_t3 sp_t41 sp_t42 sp_t_hats sp_s1 sp_s2 sp_s3 sp_s4 sp_s_hats sp_s_primes sp_cs sp_c_hats].
    split; [lia|exact H14].
  Qed.

  (* everything at once, and for the strict top-level decoders: the decoded value is no larger than the input *)
  Theorem decoded_data_is_backed_by_input :
    BK bsz (rd_E K fl P) /\ BK bsz (rd_X fl P) /\ BK sz_ct (rd_ct K fl P) /\ BK bsz (rd_pk K fl P) /\ BK sz_sk (rd_sk K fl P) /\
    BK sz_schnorr (rd_schnorr K fl P) /\ BK sz_cp (rd_cp K fl P) /\
    BK (sz_vec bsz) (rd_vecE K fl P) /\ BK (sz_vec bsz) (rd_vecX fl P) /\ BK (sz_vec sz_ct) (rd_vecC K fl P) /\
    BK (sz_vec sz_cp) (rd_vecCP K fl P) /\ BK sz_proof (rd_proof K fl P).
  Proof.
    exact (conj bk_E (conj bk_X (conj bk_ct (conj bk_E (conj bk_sk (conj bk_schnorr (conj bk_cp
          (conj (bk_svec _ _ bk_E) (conj (bk_svec _ _ bk_X) (conj (bk_svec _ _ bk_ct) (conj (bk_svec _ _ bk_cp) bk_proof))))))))))).
  Qed.

  Theorem strict_decode_no_larger_than_input {A} (sz : A -> nat) (rd : reader A) : BK sz rd ->
    forall bs v, bytes_ok bs -> strict rd bs = Ok v -> (sz v <= length bs)%nat.
  Proof. exact (strict_bk sz rd). Qed.
End W.

Print Assumptions decoded_data_is_backed_by_input.
Print Assumptions rd_vec_count_backed.
Print Assumptions rd_vec_unbacked_refused.
