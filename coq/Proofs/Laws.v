(* Proofs/Laws.v — what the protocol proofs need from a backend: the laws of a commutative group of
   exponent q on the members, stated for the code's own operations (unreduced `mul` + `modp`, `invp`
   that may panic, `emod_pow`), and the exponent operations as integers modulo q. Junk values (non
   members) are allowed to exist in the carrier; every law is conditional on membership. *)
From Coq Require Import ZArith List Lia.
From Strand Require Import Model.Outcome Model.Codec Model.Backend.
Open Scope Z_scope.

Section Laws.
  Variable B : Backend.
  Variable mem : E B -> Prop.
  Notation q := (b_q B).
  Notation mulp := (b_mulp B).
  Notation pow := (b_pow B).
  Notation one := (b_one B).

  Record Laws : Prop := {
    q_gt1 : 1 < q;
    mem_one : mem one;
    mem_gen : mem (b_gen B);
    mem_mulp : forall a b, mem a -> mem b -> mem (mulp a b);
    modp_mem : forall a, mem a -> b_modp B a = a;
    modp_mul_l : forall a b, b_modp B (b_mul B (b_modp B a) b) = b_modp B (b_mul B a b);
    modp_mul_r : forall a b, b_modp B (b_mul B a (b_modp B b)) = b_modp B (b_mul B a b);
    mulp_comm : forall a b, mem a -> mem b -> mulp a b = mulp b a;
    mulp_assoc : forall a b c, mem a -> mem b -> mem c -> mulp (mulp a b) c = mulp a (mulp b c);
    mulp_one_l : forall a, mem a -> mulp one a = a;
    invp_ok : forall a, mem a -> exists a', b_invp B a = Ok a' /\ mem a' /\ mulp a a' = one;
    pow_mem : forall a x, mem a -> 0 <= x -> mem (pow a x);
    pow_0 : forall a, mem a -> pow a 0 = one;
    pow_1 : forall a, mem a -> pow a 1 = a;
    pow_one : forall x, 0 <= x -> pow one x = one;
    pow_add : forall a x y, mem a -> 0 <= x -> 0 <= y -> pow a (x + y) = mulp (pow a x) (pow a y);
    pow_mul : forall a x y, mem a -> 0 <= x -> 0 <= y -> pow (pow a x) y = pow a (x * y);
    pow_mulp : forall a b x, mem a -> mem b -> 0 <= x -> pow (mulp a b) x = mulp (pow a x) (pow b x);
    pow_q : forall a, mem a -> pow a q = one;
    eqb_spec : forall a b, mem a -> mem b -> (b_eqb B a b = true <-> a = b);
    xadd_ok : forall x y, 0 <= x -> 0 <= y -> 0 <= b_xadd B x y /\ b_xadd B x y mod q = (x + y) mod q;
    xmul_ok : forall x y, 0 <= x -> 0 <= y -> 0 <= b_xmul B x y /\ b_xmul B x y mod q = (x * y) mod q;
    xmodq_ok : forall x, 0 <= x -> b_xmodq B x = x mod q;
    hash_range : forall bs, 0 <= b_hash_to_exp B bs < q
  }.

  Hypothesis L : Laws.

  Lemma mulp_one_r a : mem a -> mulp a one = a.
  Proof. intro Ha. rewrite (mulp_comm L) by (auto using (mem_one L)). apply (mulp_one_l L); exact Ha. Qed.

  (* exponents only matter modulo q *)
  Lemma pow_mod a x : mem a -> 0 <= x -> pow a (x mod q) = pow a x.
  Proof.
    intros Ha Hx. pose proof (q_gt1 L) as Hq.
    rewrite (Z.div_mod x q) at 2 by lia.
    assert (0 <= x / q) by (apply Z.div_pos; lia).
    assert (0 <= x mod q) by (apply Z.mod_pos_bound; lia).
    rewrite (pow_add L) by (auto; nia).
    rewrite <- (pow_mul L) by (auto; lia).
    rewrite (pow_q L) by exact Ha. rewrite (pow_one L) by lia.
    rewrite (mulp_one_l L); [reflexivity|]. apply (pow_mem L); auto.
  Qed.

  Lemma pow_congr a x y : mem a -> 0 <= x -> 0 <= y -> x mod q = y mod q -> pow a x = pow a y.
  Proof. intros Ha Hx Hy E. rewrite <- (pow_mod a x), <- (pow_mod a y) by auto. now rewrite E. Qed.

  (* a.mul(b).mul(c).modp() *)
  Lemma modp_mul3 a b c :
    b_modp B (b_mul B (b_mul B a b) c) = mulp (mulp a b) c.
  Proof. unfold b_mulp. now rewrite (modp_mul_l L). Qed.

  Lemma mulp_cancel_l a b c : mem a -> mem b -> mem c -> mulp a b = mulp a c -> b = c.
  Proof.
    intros Ha Hb Hc E. destruct (invp_ok L a Ha) as (a' & _ & Ha' & Hinv).
    assert (mulp a' (mulp a b) = mulp a' (mulp a c)) as E2 by now rewrite E.
    rewrite <- !(mulp_assoc L) in E2 by auto.
    rewrite (mulp_comm L a' a) in E2 by auto. rewrite Hinv in E2.
    now rewrite !(mulp_one_l L) in E2 by auto.
  Qed.

  Lemma inv_unique a a1 : mem a -> mem a1 -> mulp a a1 = one ->
    forall a2, mem a2 -> mulp a a2 = one -> a1 = a2.
  Proof. intros Ha H1 E1 a2 H2 E2. apply (mulp_cancel_l a); auto. congruence. Qed.
End Laws.

Arguments Laws B mem : clear implicits.
