(* Proofs/TranscriptP.v — Fiat-Shamir challenge inputs (Model/Zkp.v ChallengeInput, Model/Shuffler.v
   challenge functions):
     (a) the hashed bytes do not depend on insertion / iteration order (ci_bytes_perm),
     (b) the hashed bytes are an injective function of every transcript item (…_inj),
     (c) hence equal challenges with a different item exhibit an explicit collision of hash_to_exp
         (…_binding): a reduction, collision resistance is NOT assumed anywhere.
   sha512 and b_hash_to_exp are treated as arbitrary functions. *)
From Coq Require Import ZArith List Bool String Lia Permutation Sorted.
From Strand Require Import Model.Outcome Model.Codec Model.Sha512 Model.Backend Model.Zkp Model.Shuffler.
Import ListNotations.
Open Scope list_scope.
Open Scope Z_scope.
Local Notation length := List.length.

Definition small (b : bytes) : Prop := Z.of_nat (length b) < 2 ^ 32.
Definition bytes_ok (b : bytes) : Prop := Forall (fun x => 0 <= x < 256) b.

(* ------------------------------------------------------------------------------------------ *)
(* 0. bytes_eqb / bytes_leb: decidable equality and a total order on (arbitrary Z) strings      *)
(* ------------------------------------------------------------------------------------------ *)
Lemma bytes_eqb_eq : forall a b, bytes_eqb a b = true <-> a = b.
Proof.
  induction a as [|x a IH]; destruct b as [|y b]; simpl; split; intro H; try discriminate; auto.
  - apply andb_true_iff in H. destruct H as [H1 H2]. apply Z.eqb_eq in H1. apply IH in H2. congruence.
  - inversion H; subst. apply andb_true_iff. split; [apply Z.eqb_refl | apply IH; reflexivity].
Qed.

Lemma bytes_eqb_neq : forall a b, bytes_eqb a b = false <-> a <> b.
Proof.
  intros a b. split; intro H.
  - intro E. apply bytes_eqb_eq in E. congruence.
  - destruct (bytes_eqb a b) eqn:E; auto. apply bytes_eqb_eq in E. contradiction.
Qed.

Lemma bytes_eq_dec : forall a b : bytes, {a = b} + {a <> b}.
Proof. apply list_eq_dec. apply Z.eq_dec. Qed.

Lemma bytes_leb_refl : forall a, bytes_leb a a = true.
Proof. induction a as [|x a IH]; simpl; auto. rewrite Z.ltb_irrefl. exact IH. Qed.

Lemma bytes_leb_total : forall a b, bytes_leb a b = true \/ bytes_leb b a = true.
Proof.
  induction a as [|x a IH]; destruct b as [|y b]; simpl; auto.
  destruct (Z.ltb_spec x y); auto. destruct (Z.ltb_spec y x); auto.
Qed.

Lemma bytes_leb_antisym : forall a b, bytes_leb a b = true -> bytes_leb b a = true -> a = b.
Proof.
  induction a as [|x a IH]; destruct b as [|y b]; simpl; intros H1 H2; try discriminate; auto.
  destruct (Z.ltb_spec x y); destruct (Z.ltb_spec y x); try discriminate; try lia.
  assert (x = y) by lia. subst. f_equal. apply IH; assumption.
Qed.

Lemma bytes_leb_trans : forall a b c, bytes_leb a b = true -> bytes_leb b c = true -> bytes_leb a c = true.
Proof.
  induction a as [|x a IH]; destruct b as [|y b]; destruct c as [|z c]; simpl; intros H1 H2;
    try discriminate; auto.
  destruct (Z.ltb_spec x y); destruct (Z.ltb_spec y x); destruct (Z.ltb_spec y z);
    destruct (Z.ltb_spec z y); destruct (Z.ltb_spec x z); destruct (Z.ltb_spec z x);
    try discriminate; try lia; auto.
  eapply IH; eassumption.
Qed.

(* ------------------------------------------------------------------------------------------ *)
(* 1. Order independence                                                                        *)
(* ------------------------------------------------------------------------------------------ *)
Definition key_le (e1 e2 : entry) : Prop := bytes_leb (fst e1) (fst e2) = true.

Lemma ci_sorted_insert_perm : forall e l, Permutation (e :: l) (ci_sorted_insert e l).
Proof.
  intros e l. induction l as [|x r IH]; simpl; auto.
  destruct (bytes_leb (fst e) (fst x)); auto.
  eapply perm_trans; [apply perm_swap|]. apply perm_skip. exact IH.
Qed.

Lemma ci_sort_perm : forall m, Permutation m (ci_sort m).
Proof.
  induction m as [|e m IH]; simpl; auto.
  eapply perm_trans; [apply perm_skip; exact IH|]. apply ci_sorted_insert_perm.
Qed.

Lemma ci_sort_length : forall m, length (ci_sort m) = length m.
Proof. intro m. symmetry. apply Permutation_length. apply ci_sort_perm. Qed.

Lemma ci_sorted_insert_ssorted : forall e l,
  StronglySorted key_le l -> StronglySorted key_le (ci_sorted_insert e l).
Proof.
  intros e l H. induction H as [|x r Hr IH Hx]; simpl.
  - constructor; constructor.
  - destruct (bytes_leb (fst e) (fst x)) eqn:E.
    + constructor; [constructor; assumption|].
      constructor; [exact E|].
      eapply Forall_impl; [|exact Hx]. intros a Ha. unfold key_le in *.
      eapply bytes_leb_trans; eassumption.
    + constructor; [exact IH|].
      eapply Permutation_Forall; [apply ci_sorted_insert_perm|].
      constructor; [|exact Hx].
      unfold key_le. destruct (bytes_leb_total (fst e) (fst x)) as [T|T]; congruence.
Qed.

Lemma ci_sort_ssorted : forall m, StronglySorted key_le (ci_sort m).
Proof.
  induction m as [|e m IH]; simpl; [constructor|]. apply ci_sorted_insert_ssorted. exact IH.
Qed.

(* two strongly sorted permutations with pairwise distinct keys are equal *)
Lemma ssorted_perm_unique : forall l1 l2 : cinput,
  StronglySorted key_le l1 -> StronglySorted key_le l2 ->
  Permutation l1 l2 -> NoDup (map fst l1) -> l1 = l2.
Proof.
  induction l1 as [|a l1 IH]; intros l2 S1 S2 P ND.
  - apply Permutation_nil in P. congruence.
  - destruct l2 as [|b l2]; [apply Permutation_sym, Permutation_nil in P; discriminate|].
    inversion S1 as [|? ? S1' F1]; subst. inversion S2 as [|? ? S2' F2]; subst.
    assert (Hab : a = b).
    { assert (Ia : In a (b :: l2)) by (eapply Permutation_in; [exact P | left; reflexivity]).
      assert (Ib : In b (a :: l1))
        by (eapply Permutation_in; [apply Permutation_sym; exact P | left; reflexivity]).
      destruct Ia as [Ia|Ia]; [congruence|]. destruct Ib as [Ib|Ib]; [congruence|].
      rewrite Forall_forall in F1, F2.
      assert (K : fst a = fst b) by (apply bytes_leb_antisym; [apply F1 | apply F2]; assumption).
      simpl in ND. inversion ND as [|? ? Hn _]; subst. exfalso. apply Hn. rewrite K.
      apply in_map. exact Ib. }
    subst b. f_equal. apply IH; auto.
    + eapply Permutation_cons_inv; exact P.
    + simpl in ND. inversion ND; assumption.
Qed.

Lemma ci_sort_perm_eq : forall m1 m2 : cinput,
  Permutation m1 m2 -> NoDup (map fst m1) -> ci_sort m1 = ci_sort m2.
Proof.
  intros m1 m2 P ND. apply ssorted_perm_unique; try apply ci_sort_ssorted.
  - eapply perm_trans; [apply Permutation_sym, ci_sort_perm|].
    eapply perm_trans; [exact P|]. apply ci_sort_perm.
  - eapply Permutation_NoDup; [|exact ND]. apply Permutation_map. apply ci_sort_perm.
Qed.

Theorem ci_bytes_perm : forall m1 m2 : cinput,
  Permutation m1 m2 -> NoDup (map fst m1) -> ci_bytes m1 = ci_bytes m2.
Proof.
  intros m1 m2 P ND. unfold ci_bytes.
  rewrite (Permutation_length P). rewrite (ci_sort_perm_eq m1 m2 P ND). reflexivity.
Qed.
Print Assumptions ci_bytes_perm.

(* HashMap::insert keeps keys distinct *)
Lemma filter_key_notin : forall k (m : cinput),
  ~ In k (map fst (filter (fun kv => negb (bytes_eqb (fst kv) k)) m)).
Proof.
  intros k m H. apply in_map_iff in H. destruct H as [[k' v] [E I]]. simpl in E. subst k'.
  apply filter_In in I. destruct I as [_ I]. simpl in I.
  rewrite (proj2 (bytes_eqb_eq k k) eq_refl) in I. discriminate.
Qed.

Lemma filter_keys_nodup : forall (f : entry -> bool) (m : cinput),
  NoDup (map fst m) -> NoDup (map fst (filter f m)).
Proof.
  intros f m. induction m as [|e m IH]; simpl; intro ND; [constructor|].
  inversion ND as [|? ? Hn ND']; subst.
  destruct (f e); simpl; [|auto]. constructor; [|auto].
  intro H. apply Hn. apply in_map_iff in H. destruct H as [x [E I]].
  apply in_map_iff. exists x. split; [exact E|]. apply filter_In in I. tauto.
Qed.

Lemma ci_insert_nodup : forall k v m, NoDup (map fst m) -> NoDup (map fst (ci_insert k v m)).
Proof.
  intros k v m ND. unfold ci_insert. simpl. constructor.
  - apply filter_key_notin.
  - apply filter_keys_nodup. exact ND.
Qed.

Lemma filter_comm : forall {A} (f g : A -> bool) l, filter f (filter g l) = filter g (filter f l).
Proof.
  intros A f g l. induction l as [|x l IH]; simpl; auto.
  destruct (g x) eqn:G; destruct (f x) eqn:F; simpl; rewrite ?G, ?F, IH; reflexivity.
Qed.

Lemma ci_insert_swap_perm : forall k1 v1 k2 v2 m, k1 <> k2 ->
  Permutation (ci_insert k1 v1 (ci_insert k2 v2 m)) (ci_insert k2 v2 (ci_insert k1 v1 m)).
Proof.
  intros k1 v1 k2 v2 m Hne. unfold ci_insert. simpl.
  rewrite (proj2 (bytes_eqb_neq k2 k1)) by congruence.
  rewrite (proj2 (bytes_eqb_neq k1 k2)) by congruence. simpl.
  rewrite filter_comm. apply perm_swap.
Qed.

(* inserting two different keys in either order hashes the same bytes *)
Theorem ci_bytes_insert_comm : forall k1 v1 k2 v2 m, k1 <> k2 -> NoDup (map fst m) ->
  ci_bytes (ci_insert k1 v1 (ci_insert k2 v2 m)) = ci_bytes (ci_insert k2 v2 (ci_insert k1 v1 m)).
Proof.
  intros k1 v1 k2 v2 m Hne ND. apply ci_bytes_perm.
  - apply ci_insert_swap_perm. exact Hne.
  - apply ci_insert_nodup. apply ci_insert_nodup. exact ND.
Qed.
Print Assumptions ci_bytes_insert_comm.

(* building the map from a list of (distinct-key) entries: any insertion order, same bytes *)
Definition ci_of_list (l : list entry) : cinput :=
  fold_right (fun kv m => ci_insert (fst kv) (snd kv) m) [] l.

Lemma filter_all : forall {A} (f : A -> bool) l, (forall x, In x l -> f x = true) -> filter f l = l.
Proof.
  intros A f l. induction l as [|x l IH]; simpl; intro H; auto.
  rewrite (H x) by auto. f_equal. apply IH. auto.
Qed.

Lemma ci_of_list_id : forall l, NoDup (map fst l) -> ci_of_list l = l.
Proof.
  induction l as [|[k v] l IH]; simpl; intro ND; auto.
  inversion ND as [|? ? Hn ND']; subst. rewrite (IH ND'). unfold ci_insert. simpl. f_equal.
  apply filter_all. intros [k' v'] I. simpl. apply negb_true_iff. apply bytes_eqb_neq.
  intro E. subst k'. apply Hn. apply in_map_iff. exists (k, v'). auto.
Qed.

Theorem ci_bytes_insertion_order : forall l1 l2 : list entry,
  Permutation l1 l2 -> NoDup (map fst l1) -> ci_bytes (ci_of_list l1) = ci_bytes (ci_of_list l2).
Proof.
  intros l1 l2 P ND.
  assert (ND2 : NoDup (map fst l2))
    by (eapply Permutation_NoDup; [apply Permutation_map; exact P | exact ND]).
  rewrite (ci_of_list_id l1 ND), (ci_of_list_id l2 ND2). apply ci_bytes_perm; assumption.
Qed.
Print Assumptions ci_bytes_insertion_order.

(* ------------------------------------------------------------------------------------------ *)
(* 2. Length-prefixed concatenation is injective                                                *)
(* ------------------------------------------------------------------------------------------ *)
Lemma app_inj_length : forall {A} (a b c d : list A),
  length a = length b -> a ++ c = b ++ d -> a = b /\ c = d.
Proof.
  intros A a. induction a as [|x a IH]; destruct b as [|y b]; simpl; intros c d L H;
    try discriminate; auto.
  inversion H; subst. destruct (IH b c d) as [E1 E2]; auto. subst. auto.
Qed.

Lemma le_fixed_length : forall n x, length (le_fixed n x) = n.
Proof. induction n as [|n IH]; simpl; intro x; auto. Qed.

Lemma le_int_le_fixed : forall n x, le_int (le_fixed n x) = x mod 256 ^ Z.of_nat n.
Proof.
  induction n as [|n IH]; intro x.
  - simpl. rewrite Z.mod_1_r. reflexivity.
  - change (le_int (le_fixed (S n) x)) with (x mod 256 + 256 * le_int (le_fixed n (x / 256))).
    rewrite IH. rewrite Nat2Z.inj_succ, Z.pow_succ_r by lia.
    rewrite Z.rem_mul_r by lia. reflexivity.
Qed.

Lemma le_fixed_inj : forall n x y, 0 <= x < 256 ^ Z.of_nat n -> 0 <= y < 256 ^ Z.of_nat n ->
  le_fixed n x = le_fixed n y -> x = y.
Proof.
  intros n x y Hx Hy H. apply (f_equal le_int) in H. rewrite !le_int_le_fixed in H.
  rewrite !Z.mod_small in H by assumption. exact H.
Qed.

Lemma u32le_inj : forall x y, 0 <= x < 2 ^ 32 -> 0 <= y < 2 ^ 32 -> u32le x = u32le y -> x = y.
Proof. intros x y Hx Hy. apply le_fixed_inj; assumption. Qed.

Lemma u64le_inj : forall x y, 0 <= x < 2 ^ 64 -> 0 <= y < 2 ^ 64 -> u64le x = u64le y -> x = y.
Proof. intros x y Hx Hy. apply le_fixed_inj; assumption. Qed.

Lemma u32le_length : forall x, length (u32le x) = 4%nat.
Proof. intro x. apply le_fixed_length. Qed.

Lemma u64le_length : forall x, length (u64le x) = 8%nat.
Proof. intro x. apply le_fixed_length. Qed.

Lemma u32le_prefix_inj : forall x y r r', 0 <= x < 2 ^ 32 -> 0 <= y < 2 ^ 32 ->
  u32le x ++ r = u32le y ++ r' -> x = y /\ r = r'.
Proof.
  intros x y r r' Hx Hy H. apply app_inj_length in H; [|rewrite !u32le_length; reflexivity].
  destruct H as [H1 H2]. split; [apply u32le_inj; assumption | exact H2].
Qed.

Lemma wr_vec_u8_inj : forall a a' r r', small a -> small a' ->
  wr_vec_u8 a ++ r = wr_vec_u8 a' ++ r' -> a = a' /\ r = r'.
Proof.
  unfold small, wr_vec_u8. intros a a' r r' Ha Ha' H. rewrite <- !app_assoc in H.
  apply u32le_prefix_inj in H; try lia. destruct H as [L H].
  apply app_inj_length in H; [exact H | lia].
Qed.

Print Assumptions wr_vec_u8_inj.

(* as a whole string (no continuation) wr_vec_u8 is injective unconditionally *)
Lemma wr_vec_u8_inj_whole : forall a a', wr_vec_u8 a = wr_vec_u8 a' -> a = a'.
Proof.
  unfold wr_vec_u8. intros a a' H.
  apply app_inj_length in H; [tauto | rewrite !u32le_length; reflexivity].
Qed.

Lemma wr_vec_u8_length : forall a, length (wr_vec_u8 a) = (4 + length a)%nat.
Proof. intro a. unfold wr_vec_u8. rewrite app_length, u32le_length. reflexivity. Qed.

Lemma small_of_wr_vec_u8 : forall a, small (wr_vec_u8 a) -> small a.
Proof. unfold small. intros a H. rewrite wr_vec_u8_length in H. lia. Qed.

(* a sequence of length-prefixed strings *)
Lemma wr_seq_inj : forall (l l' : list bytes) r r',
  length l = length l' -> Forall small l -> Forall small l' ->
  flat_map wr_vec_u8 l ++ r = flat_map wr_vec_u8 l' ++ r' -> l = l' /\ r = r'.
Proof.
  induction l as [|a l IH]; destruct l' as [|a' l']; simpl; intros r r' L F F' H;
    try discriminate; auto.
  inversion F; subst. inversion F'; subst. rewrite <- !app_assoc in H.
  apply wr_vec_u8_inj in H; auto. destruct H as [E H]. subst a'.
  destruct (IH l' r r') as [E1 E2]; auto. subst. auto.
Qed.

Definition wr_entry (kv : entry) : bytes := wr_vec_u8 (fst kv) ++ wr_vec_u8 (snd kv).
Definition entry_small (kv : entry) : Prop := small (fst kv) /\ small (snd kv).

(* entry lists of the same length: equal bytes imply equal entries (keys and values) *)
Lemma wr_entries_inj : forall (l l' : list entry) r r',
  length l = length l' -> Forall entry_small l -> Forall entry_small l' ->
  flat_map wr_entry l ++ r = flat_map wr_entry l' ++ r' -> l = l' /\ r = r'.
Proof.
  induction l as [|[k v] l IH]; destruct l' as [|[k' v'] l']; simpl; intros r r' L F F' H;
    try discriminate; auto.
  inversion F as [|? ? [Sk Sv] Fl]; subst. inversion F' as [|? ? [Sk' Sv'] Fl']; subst.
  unfold wr_entry in H. simpl in *. rewrite <- !app_assoc in H.
  apply wr_vec_u8_inj in H; auto. destruct H as [E H]. subst k'.
  apply wr_vec_u8_inj in H; auto. destruct H as [E H]. subst v'.
  destruct (IH l' r r') as [E1 E2]; auto. subst. auto.
Qed.

(* the form asked for: SAME key sequence, equal bytes, hence equal value sequence *)
Lemma wr_entries_same_keys_inj : forall (l l' : list entry),
  map fst l = map fst l' -> Forall entry_small l -> Forall entry_small l' ->
  flat_map (fun kv => wr_vec_u8 (fst kv) ++ wr_vec_u8 (snd kv)) l =
  flat_map (fun kv => wr_vec_u8 (fst kv) ++ wr_vec_u8 (snd kv)) l' ->
  map snd l = map snd l'.
Proof.
  intros l l' K F F' H.
  assert (L : length l = length l')
    by (apply (f_equal (@List.length _)) in K; rewrite !map_length in K; exact K).
  destruct (wr_entries_inj l l' [] []) as [E _]; auto.
  - rewrite !app_nil_r. exact H.
  - subst. reflexivity.
Qed.

Print Assumptions wr_entries_same_keys_inj.

(* ------------------------------------------------------------------------------------------ *)
(* 2b. ci_bytes determines the sorted entry list                                                *)
(* ------------------------------------------------------------------------------------------ *)
Definition ci_small (m : cinput) : Prop :=
  Z.of_nat (length m) < 2 ^ 32 /\ Forall entry_small m.

Theorem ci_bytes_inj : forall m m' : cinput, ci_small m -> ci_small m' ->
  ci_bytes m = ci_bytes m' -> ci_sort m = ci_sort m'.
Proof.
  intros m m' [L F] [L' F'] H. unfold ci_bytes in H.
  apply u32le_prefix_inj in H; try lia. destruct H as [EL H].
  destruct (wr_entries_inj (ci_sort m) (ci_sort m') [] []) as [E _]; auto.
  - rewrite !ci_sort_length. lia.
  - eapply Permutation_Forall; [apply ci_sort_perm | exact F].
  - eapply Permutation_Forall; [apply ci_sort_perm | exact F'].
  - rewrite !app_nil_r. exact H.
Qed.
Print Assumptions ci_bytes_inj.

(* hence the bytes determine the map as a set of entries *)
Corollary ci_bytes_inj_perm : forall m m' : cinput, ci_small m -> ci_small m' ->
  ci_bytes m = ci_bytes m' -> Permutation m m'.
Proof.
  intros m m' S S' H. apply ci_bytes_inj in H; auto.
  eapply perm_trans; [apply ci_sort_perm|]. rewrite H. apply Permutation_sym, ci_sort_perm.
Qed.

Lemma ci_insert_entries_small : forall k v m, small k -> small v ->
  Forall entry_small m -> Forall entry_small (ci_insert k v m).
Proof.
  intros k v m Sk Sv F. unfold ci_insert. constructor; [split; assumption|].
  rewrite Forall_forall in *. intros x I. apply filter_In in I. apply F. tauto.
Qed.

(* ------------------------------------------------------------------------------------------ *)
(* 3. A map with a FIXED set of distinct keys: the bytes are injective in the value vector      *)
(* ------------------------------------------------------------------------------------------ *)
Lemma perm_same_keys_eq : forall l l' : list entry,
  Permutation l l' -> map fst l = map fst l' -> NoDup (map fst l) -> l = l'.
Proof.
  induction l as [|[k v] l IH]; destruct l' as [|[k' v'] l']; simpl; intros P K ND;
    try discriminate; auto.
  inversion K; subst k'. inversion ND as [|? ? Hn ND']; subst.
  assert (I : In (k, v) ((k, v') :: l')) by (eapply Permutation_in; [exact P | left; reflexivity]).
  destruct I as [I|I].
  - inversion I; subst v'. f_equal. apply IH; auto. eapply Permutation_cons_inv; exact P.
  - exfalso. apply Hn. rewrite H1. apply in_map_iff. exists (k, v). auto.
Qed.

Theorem ci_bytes_same_keys_inj : forall l l' : cinput,
  map fst l = map fst l' -> NoDup (map fst l) -> ci_small l -> ci_small l' ->
  ci_bytes l = ci_bytes l' -> l = l'.
Proof.
  intros l l' K ND S S' H. apply perm_same_keys_eq; auto. apply ci_bytes_inj_perm; assumption.
Qed.
Print Assumptions ci_bytes_same_keys_inj.

Fixpoint keys_distinctb (ks : list bytes) : bool :=
  match ks with
  | [] => true
  | k :: r => negb (existsb (bytes_eqb k) r) && keys_distinctb r
  end.

Lemma keys_distinctb_sound : forall ks, keys_distinctb ks = true -> NoDup ks.
Proof.
  induction ks as [|k r IH]; simpl; intro H; [constructor|].
  apply andb_true_iff in H. destruct H as [H1 H2]. constructor; [|auto].
  intro I. apply negb_true_iff in H1.
  assert (E : existsb (bytes_eqb k) r = true)
    by (apply existsb_exists; exists k; split; [exact I | apply bytes_eqb_eq; reflexivity]).
  congruence.
Qed.

(* the form used for every transcript below *)
Theorem ci_of_list_bytes_inj : forall l l' : list entry,
  map fst l = map fst l' -> keys_distinctb (map fst l) = true ->
  Z.of_nat (length l) < 2 ^ 32 -> Forall entry_small l -> Forall entry_small l' ->
  ci_bytes (ci_of_list l) = ci_bytes (ci_of_list l') -> map snd l = map snd l'.
Proof.
  intros l l' K D L F F' H. apply keys_distinctb_sound in D.
  assert (D' : NoDup (map fst l')) by (rewrite <- K; exact D).
  rewrite (ci_of_list_id l D), (ci_of_list_id l' D') in H.
  assert (L' : length l' = length l)
    by (apply (f_equal (@List.length _)) in K; rewrite !map_length in K; auto).
  apply ci_bytes_same_keys_inj in H; auto.
  - subst. reflexivity.
  - split; assumption.
  - split; [rewrite L'|]; assumption.
Qed.
Print Assumptions ci_of_list_bytes_inj.

Lemma key_small : forall s, (String.length s < 1000)%nat -> small (key s).
Proof.
  intros s H. unfold small, key.
  assert (L : length (bytes_of_string s) = String.length s)
    by (clear H; induction s; simpl; auto).
  rewrite L.
  assert (Z.of_nat 1000 < 2 ^ 32) by reflexivity. lia.
Qed.

Ltac split_smalls :=
  repeat match goal with H : _ /\ _ |- _ => destruct H end.

Ltac ents_small :=
  repeat (apply Forall_cons;
          [split; [apply key_small; simpl; lia | simpl; assumption] | ]);
  apply Forall_nil.

Lemma cons_inj : forall {A} (a b : A) l l', a :: l = b :: l' -> a = b /\ l = l'.
Proof. intros A a b l l' H. inversion H. auto. Qed.

Ltac list_eq_split H :=
  repeat (let E := fresh "E" in apply cons_inj in H; destruct H as [E H]).

(* tr = tr' where both are nested ci_insert chains over the same concrete keys *)
Ltac ci_chain_inj H l l' :=
  apply (ci_of_list_bytes_inj l l') in H;
  [ cbn [map snd] in H; list_eq_split H
  | reflexivity
  | vm_compute; reflexivity
  | reflexivity
  | ents_small
  | ents_small ].

Section Transcripts.
  Variable B : Backend.
  Notation ser := (b_ser_e B).

  (* ---- Schnorr ---- *)
  Definition schnorr_small (g pub com : E B) (ctx : cinput) : Prop :=
    small (ser g) /\ small (ser pub) /\ small (ser com) /\ small (ci_bytes ctx).

  Theorem schnorr_transcript_inj : forall g pub com ctx g' pub' com' ctx',
    schnorr_small g pub com ctx -> schnorr_small g' pub' com' ctx' ->
    schnorr_transcript B g pub com ctx = schnorr_transcript B g' pub' com' ctx' ->
    ser g = ser g' /\ ser pub = ser pub' /\ ser com = ser com' /\ ci_bytes ctx = ci_bytes ctx'.
  Proof.
    unfold schnorr_small, schnorr_transcript. intros g pub com ctx g' pub' com' ctx' S S' H.
    split_smalls.
    ci_chain_inj H
      [(key "context", ci_bytes ctx); (key "commitment", ser com); (key "public", ser pub);
       (key "g", ser g)]
      [(key "context", ci_bytes ctx'); (key "commitment", ser com'); (key "public", ser pub');
       (key "g", ser g')].
    auto.
  Qed.

  (* ---- Chaum-Pedersen ---- *)
  Definition cp_small (g1 g2 pub1 pub2 com1 com2 : E B) (ctx : cinput) : Prop :=
    small (ser g1) /\ small (ser g2) /\ small (ser pub1) /\ small (ser pub2) /\
    small (ser com1) /\ small (ser com2) /\ small (ci_bytes ctx).

  Theorem cp_transcript_inj : forall g1 g2 pub1 pub2 com1 com2 ctx g1' g2' pub1' pub2' com1' com2' ctx',
    cp_small g1 g2 pub1 pub2 com1 com2 ctx -> cp_small g1' g2' pub1' pub2' com1' com2' ctx' ->
    cp_transcript B g1 g2 pub1 pub2 com1 com2 ctx = cp_transcript B g1' g2' pub1' pub2' com1' com2' ctx' ->
    ser g1 = ser g1' /\ ser g2 = ser g2' /\ ser pub1 = ser pub1' /\ ser pub2 = ser pub2' /\
    ser com1 = ser com1' /\ ser com2 = ser com2' /\ ci_bytes ctx = ci_bytes ctx'.
  Proof.
    unfold cp_small, cp_transcript.
    intros g1 g2 pub1 pub2 com1 com2 ctx g1' g2' pub1' pub2' com1' com2' ctx' S S' H.
    split_smalls.
    ci_chain_inj H
      [(key "context", ci_bytes ctx); (key "commitment2", ser com2); (key "commitment1", ser com1);
       (key "public2", ser pub2); (key "public1", ser pub1); (key "g2", ser g2); (key "g1", ser g1)]
      [(key "context", ci_bytes ctx'); (key "commitment2", ser com2'); (key "commitment1", ser com1');
       (key "public2", ser pub2'); (key "public1", ser pub1'); (key "g2", ser g2'); (key "g1", ser g1')].
    repeat split; assumption.
  Qed.

  (* ---- contexts ---- *)
  Theorem ctx_label_inj : forall l l', small l -> small l' ->
    ci_bytes (ctx_label l) = ci_bytes (ctx_label l') -> l = l'.
  Proof.
    unfold ctx_label. intros l l' S S' H.
    ci_chain_inj H [(key "label", l)] [(key "label", l')].
    assumption.
  Qed.

  (* wr_vec_u8 label is 4 bytes longer than label, so its smallness is what is needed (and it
     implies small label, see small_of_wr_vec_u8) *)
  Theorem ctx_mhr_label_inj : forall m l m' l',
    small (ser m) -> small (ser m') -> small (wr_vec_u8 l) -> small (wr_vec_u8 l') ->
    ci_bytes (ctx_mhr_label B m l) = ci_bytes (ctx_mhr_label B m' l') ->
    ser m = ser m' /\ l = l'.
  Proof.
    unfold ctx_mhr_label. intros m l m' l' S1 S2 S3 S4 H.
    ci_chain_inj H
      [(key "label", wr_vec_u8 l); (key "mhr", ser m)]
      [(key "label", wr_vec_u8 l'); (key "mhr", ser m')].
    split; [assumption | apply wr_vec_u8_inj_whole; assumption].
  Qed.

  (* ---- shuffle: the per-index challenges ---- *)
  Definition us_small (es e' : list (ctext B)) (cs : list (E B)) (label : bytes) : Prop :=
    small (ser_vecC B es) /\ small (ser_vecC B e') /\ small (ser_vecE B cs) /\
    small (wr_vec_u8 label).

  Theorem us_prefix_inj : forall es e' cs label es2 e2' cs2 label2,
    us_small es e' cs label -> us_small es2 e2' cs2 label2 ->
    us_prefix B es e' cs label = us_prefix B es2 e2' cs2 label2 ->
    ser_vecC B es = ser_vecC B es2 /\ ser_vecC B e' = ser_vecC B e2' /\
    ser_vecE B cs = ser_vecE B cs2 /\ label = label2.
  Proof.
    unfold us_small, us_prefix. intros es e' cs label es2 e2' cs2 label2 S S' H.
    split_smalls.
    ci_chain_inj H
      [(key "label", wr_vec_u8 label); (key "cs", ser_vecE B cs); (key "e_primes", ser_vecC B e');
       (key "es", ser_vecC B es)]
      [(key "label", wr_vec_u8 label2); (key "cs", ser_vecE B cs2); (key "e_primes", ser_vecC B e2');
       (key "es", ser_vecC B es2)].
    repeat split; try assumption. apply wr_vec_u8_inj_whole; assumption.
  Qed.

  Lemma u64le_small : forall i, small (u64le i).
  Proof. intro i. unfold small. rewrite u64le_length. reflexivity. Qed.

  Theorem u_input_inj : forall ph ph' i i', small ph -> small ph' ->
    0 <= i < 2 ^ 64 -> 0 <= i' < 2 ^ 64 ->
    u_input ph i = u_input ph' i' -> ph = ph' /\ i = i'.
  Proof.
    unfold u_input. intros ph ph' i i' S S' Hi Hi' H.
    pose proof (u64le_small i) as Si. pose proof (u64le_small i') as Si'.
    ci_chain_inj H
      [(key "counter", u64le i); (key "prefix", ph)]
      [(key "counter", u64le i'); (key "prefix", ph')].
    split; [assumption | apply u64le_inj; assumption].
  Qed.

  (* same prefix hash (of any length), distinct counters: distinct hash inputs *)
  Lemma u_input_explicit : forall ph i,
    u_input ph i =
    u32le 2 ++ (wr_vec_u8 (key "counter") ++ wr_vec_u8 (u64le i)) ++
               (wr_vec_u8 (key "prefix") ++ wr_vec_u8 ph) ++ [].
  Proof.
    intros ph i. unfold u_input.
    change (ci_insert (key "counter") (u64le i) (ci_insert (key "prefix") ph []))
      with (ci_of_list [(key "counter", u64le i); (key "prefix", ph)]).
    rewrite ci_of_list_id by (apply keys_distinctb_sound; reflexivity).
    reflexivity.
  Qed.

  Theorem u_input_counter_inj : forall ph i j,
    0 <= i < 2 ^ 64 -> 0 <= j < 2 ^ 64 -> u_input ph i = u_input ph j -> i = j.
  Proof.
    intros ph i j Hi Hj H. rewrite !u_input_explicit in H.
    apply app_inv_head in H. rewrite <- !app_assoc in H. apply app_inv_head in H.
    apply wr_vec_u8_inj in H; try apply u64le_small.
    destruct H as [H _]. apply u64le_inj; assumption.
  Qed.

  (* ---- shuffle: the proof challenge ---- *)
  Definition challenge_small (es e' : list (ctext B)) (cs c_hats : list (E B)) (pk : E B)
             (t : commitments B) (label : bytes) : Prop :=
    small (ser (t1 B t)) /\ small (ser (t2 B t)) /\ small (ser (t3 B t)) /\
    small (ser (t41 B t)) /\ small (ser (t42 B t)) /\ small (ser_vecE B (t_hats B t)) /\
    small (ser_vecC B es) /\ small (ser_vecC B e') /\ small (ser_vecE B cs) /\
    small (ser_vecE B c_hats) /\ small (ser pk) /\ small label.

  Theorem challenge_input_inj : forall es e' cs c_hats pk t label es2 e2' cs2 c_hats2 pk2 t' label2,
    challenge_small es e' cs c_hats pk t label ->
    challenge_small es2 e2' cs2 c_hats2 pk2 t' label2 ->
    challenge_input B es e' cs c_hats pk t label =
    challenge_input B es2 e2' cs2 c_hats2 pk2 t' label2 ->
    ser (t1 B t) = ser (t1 B t') /\ ser (t2 B t) = ser (t2 B t') /\ ser (t3 B t) = ser (t3 B t') /\
    ser (t41 B t) = ser (t41 B t') /\ ser (t42 B t) = ser (t42 B t') /\
    ser_vecE B (t_hats B t) = ser_vecE B (t_hats B t') /\
    ser_vecC B es = ser_vecC B es2 /\ ser_vecC B e' = ser_vecC B e2' /\
    ser_vecE B cs = ser_vecE B cs2 /\ ser_vecE B c_hats = ser_vecE B c_hats2 /\
    ser pk = ser pk2 /\ label = label2.
  Proof.
    unfold challenge_small, challenge_input.
    intros es e' cs c_hats pk t label es2 e2' cs2 c_hats2 pk2 t' label2 S S' H.
    split_smalls.
    ci_chain_inj H
      [(key "label", label); (key "t_hats", ser_vecE B (t_hats B t)); (key "pk.element", ser pk);
       (key "c_hats", ser_vecE B c_hats); (key "cs", ser_vecE B cs);
       (key "e_primes", ser_vecC B e'); (key "es", ser_vecC B es);
       (key "t4_2", ser (t42 B t)); (key "t4_1", ser (t41 B t)); (key "t3", ser (t3 B t));
       (key "t2", ser (t2 B t)); (key "t1", ser (t1 B t))]
      [(key "label", label2); (key "t_hats", ser_vecE B (t_hats B t')); (key "pk.element", ser pk2);
       (key "c_hats", ser_vecE B c_hats2); (key "cs", ser_vecE B cs2);
       (key "e_primes", ser_vecC B e2'); (key "es", ser_vecC B es2);
       (key "t4_2", ser (t42 B t')); (key "t4_1", ser (t41 B t')); (key "t3", ser (t3 B t'));
       (key "t2", ser (t2 B t')); (key "t1", ser (t1 B t'))].
    repeat split; assumption.
  Qed.
End Transcripts.
Print Assumptions schnorr_transcript_inj.
Print Assumptions cp_transcript_inj.
Print Assumptions ctx_label_inj.
Print Assumptions ctx_mhr_label_inj.
Print Assumptions us_prefix_inj.
Print Assumptions u_input_inj.
Print Assumptions u_input_counter_inj.
Print Assumptions challenge_input_inj.

(* ------------------------------------------------------------------------------------------ *)
(* 4. Vector serialisations: from equal ser_vecE / ser_vecC bytes back to equal lists           *)
(* ------------------------------------------------------------------------------------------ *)
Lemma flat_map_wr_map : forall {A} (ser : A -> bytes) l,
  flat_map (fun a => wr_vec_u8 (ser a)) l = flat_map wr_vec_u8 (map ser l).
Proof. intros A ser l. induction l as [|a l IH]; simpl; [|rewrite IH]; reflexivity. Qed.

Theorem ser_svec_prefix_inj : forall {A} (ser : A -> bytes) l l' r r',
  Z.of_nat (length l) < 2 ^ 32 -> Z.of_nat (length l') < 2 ^ 32 ->
  Forall (fun a => small (ser a)) l -> Forall (fun a => small (ser a)) l' ->
  ser_svec ser l ++ r = ser_svec ser l' ++ r' -> map ser l = map ser l' /\ r = r'.
Proof.
  intros A ser l l' r r' L L' F F' H. unfold ser_svec, wr_vec in H. rewrite <- !app_assoc in H.
  apply u32le_prefix_inj in H; try lia. destruct H as [EL H].
  rewrite (flat_map_wr_map ser l), (flat_map_wr_map ser l') in H. apply wr_seq_inj in H; auto.
  - rewrite !map_length. lia.
  - apply Forall_map. exact F.
  - apply Forall_map. exact F'.
Qed.

Theorem ser_svec_inj : forall {A} (ser : A -> bytes) l l',
  Z.of_nat (length l) < 2 ^ 32 -> Z.of_nat (length l') < 2 ^ 32 ->
  Forall (fun a => small (ser a)) l -> Forall (fun a => small (ser a)) l' ->
  ser_svec ser l = ser_svec ser l' -> map ser l = map ser l'.
Proof.
  intros A ser l l' L L' F F' H.
  destruct (ser_svec_prefix_inj ser l l' [] []) as [E _]; auto. rewrite !app_nil_r. exact H.
Qed.
Print Assumptions ser_svec_inj.

Lemma map_inj : forall {A C} (f : A -> C), (forall a b, f a = f b -> a = b) ->
  forall l l', map f l = map f l' -> l = l'.
Proof.
  intros A C f Hf. induction l as [|a l IH]; destruct l' as [|b l']; simpl; intro H;
    try discriminate; auto.
  inversion H. f_equal; auto.
Qed.

Theorem ser_svec_inj_list : forall {A} (ser : A -> bytes) l l',
  (forall a b, ser a = ser b -> a = b) -> (forall a, small (ser a)) ->
  Z.of_nat (length l) < 2 ^ 32 -> Z.of_nat (length l') < 2 ^ 32 ->
  ser_svec ser l = ser_svec ser l' -> l = l'.
Proof.
  intros A ser l l' Inj S L L' H. apply (map_inj ser Inj).
  apply ser_svec_inj; auto; apply Forall_forall; intros; apply S.
Qed.
Print Assumptions ser_svec_inj_list.

Corollary ser_vecE_inj : forall (B : Backend) (l l' : list (E B)),
  Z.of_nat (length l) < 2 ^ 32 -> Z.of_nat (length l') < 2 ^ 32 ->
  Forall (fun a => small (b_ser_e B a)) l -> Forall (fun a => small (b_ser_e B a)) l' ->
  ser_vecE B l = ser_vecE B l' -> map (b_ser_e B) l = map (b_ser_e B) l'.
Proof. intros B l l'. unfold ser_vecE. apply ser_svec_inj. Qed.

Corollary ser_vecC_inj : forall (B : Backend) (l l' : list (ctext B)),
  Z.of_nat (length l) < 2 ^ 32 -> Z.of_nat (length l') < 2 ^ 32 ->
  Forall (fun a => small (ser_ct B a)) l -> Forall (fun a => small (ser_ct B a)) l' ->
  ser_vecC B l = ser_vecC B l' -> map (ser_ct B) l = map (ser_ct B) l'.
Proof. intros B l l'. unfold ser_vecC. apply ser_svec_inj. Qed.

(* a ciphertext is two elements back to back: injective when the element encoding has a fixed
   width (true of every backend: fixed-width modulus bytes / 32-byte ristretto) *)
Lemma ser_ct_inj : forall (B : Backend) (c c' : ctext B),
  (forall a b : E B, length (b_ser_e B a) = length (b_ser_e B b)) ->
  ser_ct B c = ser_ct B c' ->
  b_ser_e B (mhr c) = b_ser_e B (mhr c') /\ b_ser_e B (gr c) = b_ser_e B (gr c').
Proof. intros B c c' W H. unfold ser_ct in H. apply app_inj_length in H; auto. Qed.

(* ------------------------------------------------------------------------------------------ *)
(* 5. Binding as a REDUCTION: equal challenges => equal items, or an explicit collision of      *)
(*    hash_to_exp.  No property of the hash is assumed.                                         *)
(* ------------------------------------------------------------------------------------------ *)
Definition collision (h : bytes -> Z) : Prop := exists x y : bytes, x <> y /\ h x = h y.

Lemma hash_binding : forall (h : bytes -> Z) (x y : bytes) (P : Prop),
  (x = y -> P) -> h x = h y -> P \/ collision h.
Proof.
  intros h x y P HP H. destruct (bytes_eq_dec x y) as [E|N].
  - left. auto.
  - right. exists x, y. auto.
Qed.

(* determinism is definitional: equal items (as serialised) give the same challenge *)
Theorem schnorr_challenge_deterministic : forall B g pub com ctx g' pub' com' ctx',
  b_ser_e B g = b_ser_e B g' -> b_ser_e B pub = b_ser_e B pub' -> b_ser_e B com = b_ser_e B com' ->
  ci_bytes ctx = ci_bytes ctx' ->
  schnorr_challenge B g pub com ctx = schnorr_challenge B g' pub' com' ctx'.
Proof.
  intros B g pub com ctx g' pub' com' ctx' E1 E2 E3 E4.
  unfold schnorr_challenge, schnorr_transcript. rewrite E1, E2, E3, E4. reflexivity.
Qed.
Print Assumptions schnorr_challenge_deterministic.

Theorem schnorr_challenge_binding : forall B g pub com ctx g' pub' com' ctx',
  schnorr_small B g pub com ctx -> schnorr_small B g' pub' com' ctx' ->
  schnorr_challenge B g pub com ctx = schnorr_challenge B g' pub' com' ctx' ->
  (b_ser_e B g = b_ser_e B g' /\ b_ser_e B pub = b_ser_e B pub' /\ b_ser_e B com = b_ser_e B com' /\
   ci_bytes ctx = ci_bytes ctx')
  \/ (exists x y, x <> y /\ b_hash_to_exp B x = b_hash_to_exp B y).
Proof.
  intros B g pub com ctx g' pub' com' ctx' S S' H. unfold schnorr_challenge in H.
  eapply hash_binding; [|exact H]. apply schnorr_transcript_inj; assumption.
Qed.
Print Assumptions schnorr_challenge_binding.

Theorem cp_challenge_binding :
  forall B g1 g2 pub1 pub2 com1 com2 ctx g1' g2' pub1' pub2' com1' com2' ctx',
  cp_small B g1 g2 pub1 pub2 com1 com2 ctx -> cp_small B g1' g2' pub1' pub2' com1' com2' ctx' ->
  cp_challenge B g1 g2 pub1 pub2 com1 com2 ctx = cp_challenge B g1' g2' pub1' pub2' com1' com2' ctx' ->
  (b_ser_e B g1 = b_ser_e B g1' /\ b_ser_e B g2 = b_ser_e B g2' /\
   b_ser_e B pub1 = b_ser_e B pub1' /\ b_ser_e B pub2 = b_ser_e B pub2' /\
   b_ser_e B com1 = b_ser_e B com1' /\ b_ser_e B com2 = b_ser_e B com2' /\
   ci_bytes ctx = ci_bytes ctx')
  \/ (exists x y, x <> y /\ b_hash_to_exp B x = b_hash_to_exp B y).
Proof.
  intros B g1 g2 pub1 pub2 com1 com2 ctx g1' g2' pub1' pub2' com1' com2' ctx' S S' H.
  unfold cp_challenge in H. eapply hash_binding; [|exact H]. apply cp_transcript_inj; assumption.
Qed.
Print Assumptions cp_challenge_binding.

Theorem shuffle_challenge_binding :
  forall B es e' cs c_hats pk t label es2 e2' cs2 c_hats2 pk2 t' label2,
  challenge_small B es e' cs c_hats pk t label ->
  challenge_small B es2 e2' cs2 c_hats2 pk2 t' label2 ->
  shuffle_challenge B es e' cs c_hats pk t label =
  shuffle_challenge B es2 e2' cs2 c_hats2 pk2 t' label2 ->
  (b_ser_e B (t1 B t) = b_ser_e B (t1 B t') /\ b_ser_e B (t2 B t) = b_ser_e B (t2 B t') /\
   b_ser_e B (t3 B t) = b_ser_e B (t3 B t') /\ b_ser_e B (t41 B t) = b_ser_e B (t41 B t') /\
   b_ser_e B (t42 B t) = b_ser_e B (t42 B t') /\
   ser_vecE B (t_hats B t) = ser_vecE B (t_hats B t') /\
   ser_vecC B es = ser_vecC B es2 /\ ser_vecC B e' = ser_vecC B e2' /\
   ser_vecE B cs = ser_vecE B cs2 /\ ser_vecE B c_hats = ser_vecE B c_hats2 /\
   b_ser_e B pk = b_ser_e B pk2 /\ label = label2)
  \/ (exists x y, x <> y /\ b_hash_to_exp B x = b_hash_to_exp B y).
Proof.
  intros B es e' cs c_hats pk t label es2 e2' cs2 c_hats2 pk2 t' label2 S S' H.
  unfold shuffle_challenge in H. eapply hash_binding; [|exact H].
  apply challenge_input_inj; assumption.
Qed.
Print Assumptions shuffle_challenge_binding.

(* the per-index challenges u_0..u_{n-1} of one shuffle: u_i = u_j with i <> j is a collision *)
Lemma shuffle_us_nth : forall B es e' cs n label i, (i < n)%nat ->
  nth i (shuffle_us B es e' cs n label) 0 =
  b_hash_to_exp B (u_input (sha512 (us_prefix B es e' cs label)) (Z.of_nat i)).
Proof.
  intros B es e' cs n label i Hi. unfold shuffle_us.
  set (f := fun k : nat =>
              b_hash_to_exp B (u_input (sha512 (us_prefix B es e' cs label)) (Z.of_nat k))).
  rewrite (nth_indep _ 0 (f 0%nat)) by (rewrite map_length, seq_length; exact Hi).
  rewrite map_nth. rewrite seq_nth by exact Hi. reflexivity.
Qed.

Theorem shuffle_us_index_binding : forall B es e' cs n label i j,
  (i < n)%nat -> (j < n)%nat -> Z.of_nat n <= 2 ^ 64 -> i <> j ->
  nth i (shuffle_us B es e' cs n label) 0 = nth j (shuffle_us B es e' cs n label) 0 ->
  exists x y, x <> y /\ b_hash_to_exp B x = b_hash_to_exp B y.
Proof.
  intros B es e' cs n label i j Hi Hj Hn Hij H. rewrite !shuffle_us_nth in H by assumption.
  eexists. eexists. split; [|exact H].
  intro E. apply u_input_counter_inj in E; lia.
Qed.
Print Assumptions shuffle_us_index_binding.

(* two shuffles (possibly different statements): equal u_i at the same or different index means
   equal prefix hash and equal index, or a hash_to_exp collision; and equal prefix hashes mean
   equal statements or an explicit sha512 collision *)
Theorem shuffle_us_binding : forall B es e' cs n label es2 e2' cs2 n2 label2 i j,
  (i < n)%nat -> (j < n2)%nat -> Z.of_nat n <= 2 ^ 64 -> Z.of_nat n2 <= 2 ^ 64 ->
  small (sha512 (us_prefix B es e' cs label)) -> small (sha512 (us_prefix B es2 e2' cs2 label2)) ->
  us_small B es e' cs label -> us_small B es2 e2' cs2 label2 ->
  nth i (shuffle_us B es e' cs n label) 0 = nth j (shuffle_us B es2 e2' cs2 n2 label2) 0 ->
  (i = j /\ ser_vecC B es = ser_vecC B es2 /\ ser_vecC B e' = ser_vecC B e2' /\
   ser_vecE B cs = ser_vecE B cs2 /\ label = label2)
  \/ (exists x y, x <> y /\ b_hash_to_exp B x = b_hash_to_exp B y)
  \/ (exists x y, x <> y /\ sha512 x = sha512 y).
Proof.
  intros B es e' cs n label es2 e2' cs2 n2 label2 i j Hi Hj Hn Hn2 Sp Sp2 S S2 H.
  rewrite !shuffle_us_nth in H by assumption.
  destruct (bytes_eq_dec (u_input (sha512 (us_prefix B es e' cs label)) (Z.of_nat i))
                         (u_input (sha512 (us_prefix B es2 e2' cs2 label2)) (Z.of_nat j)))
    as [E|N].
  - apply u_input_inj in E; try assumption; try lia. destruct E as [Eph Eij].
    destruct (bytes_eq_dec (us_prefix B es e' cs label) (us_prefix B es2 e2' cs2 label2)) as [E|N].
    + left. apply us_prefix_inj in E; try assumption. split; [lia | exact E].
    + right. right. eexists. eexists. split; [exact N | exact Eph].
  - right. left. eexists. eexists. split; [exact N | exact H].
Qed.
Print Assumptions shuffle_us_binding.

(* the composite forms the entry points use: plain label context, and {mhr, label} context *)
Theorem schnorr_label_binding : forall B g pub com l g' pub' com' l',
  schnorr_small B g pub com (ctx_label l) -> schnorr_small B g' pub' com' (ctx_label l') ->
  small l -> small l' ->
  schnorr_challenge B g pub com (ctx_label l) = schnorr_challenge B g' pub' com' (ctx_label l') ->
  (b_ser_e B g = b_ser_e B g' /\ b_ser_e B pub = b_ser_e B pub' /\ b_ser_e B com = b_ser_e B com' /\
   l = l')
  \/ (exists x y, x <> y /\ b_hash_to_exp B x = b_hash_to_exp B y).
Proof.
  intros B g pub com l g' pub' com' l' S S' Sl Sl' H.
  apply schnorr_challenge_binding in H; try assumption.
  destruct H as [(E1 & E2 & E3 & E4)|C]; [left|right; exact C].
  repeat split; try assumption. apply ctx_label_inj; assumption.
Qed.
Print Assumptions schnorr_label_binding.

Theorem schnorr_mhr_label_binding : forall B g pub com m l g' pub' com' m' l',
  schnorr_small B g pub com (ctx_mhr_label B m l) ->
  schnorr_small B g' pub' com' (ctx_mhr_label B m' l') ->
  small (b_ser_e B m) -> small (b_ser_e B m') -> small (wr_vec_u8 l) -> small (wr_vec_u8 l') ->
  schnorr_challenge B g pub com (ctx_mhr_label B m l) =
  schnorr_challenge B g' pub' com' (ctx_mhr_label B m' l') ->
  (b_ser_e B g = b_ser_e B g' /\ b_ser_e B pub = b_ser_e B pub' /\ b_ser_e B com = b_ser_e B com' /\
   b_ser_e B m = b_ser_e B m' /\ l = l')
  \/ (exists x y, x <> y /\ b_hash_to_exp B x = b_hash_to_exp B y).
Proof.
  intros B g pub com m l g' pub' com' m' l' S S' Sm Sm' Sl Sl' H.
  apply schnorr_challenge_binding in H; try assumption.
  destruct H as [(E1 & E2 & E3 & E4)|C]; [left|right; exact C].
  apply ctx_mhr_label_inj in E4; try assumption. destruct E4 as [E4 E5].
  repeat split; assumption.
Qed.
Print Assumptions schnorr_mhr_label_binding.

Theorem cp_mhr_label_binding :
  forall B g1 g2 pub1 pub2 com1 com2 m l g1' g2' pub1' pub2' com1' com2' m' l',
  cp_small B g1 g2 pub1 pub2 com1 com2 (ctx_mhr_label B m l) ->
  cp_small B g1' g2' pub1' pub2' com1' com2' (ctx_mhr_label B m' l') ->
  small (b_ser_e B m) -> small (b_ser_e B m') -> small (wr_vec_u8 l) -> small (wr_vec_u8 l') ->
  cp_challenge B g1 g2 pub1 pub2 com1 com2 (ctx_mhr_label B m l) =
  cp_challenge B g1' g2' pub1' pub2' com1' com2' (ctx_mhr_label B m' l') ->
  (b_ser_e B g1 = b_ser_e B g1' /\ b_ser_e B g2 = b_ser_e B g2' /\
   b_ser_e B pub1 = b_ser_e B pub1' /\ b_ser_e B pub2 = b_ser_e B pub2' /\
   b_ser_e B com1 = b_ser_e B com1' /\ b_ser_e B com2 = b_ser_e B com2' /\
   b_ser_e B m = b_ser_e B m' /\ l = l')
  \/ (exists x y, x <> y /\ b_hash_to_exp B x = b_hash_to_exp B y).
Proof.
  intros B g1 g2 pub1 pub2 com1 com2 m l g1' g2' pub1' pub2' com1' com2' m' l' S S' Sm Sm' Sl Sl' H.
  apply cp_challenge_binding in H; try assumption.
  destruct H as [(E1 & E2 & E3 & E4 & E5 & E6 & E7)|C]; [left|right; exact C].
  apply ctx_mhr_label_inj in E7; try assumption. destruct E7 as [E7 E8].
  repeat split; assumption.
Qed.
Print Assumptions cp_mhr_label_binding.
