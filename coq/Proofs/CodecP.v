(* Proofs/CodecP.v — byte-level facts about Model/Codec.v: integer <-> bytes round trips, length
   bounds, borsh readers invert the writers with any suffix, readers never panic, truncated inputs
   are rejected, and the generic "codec" lemmas (round trip => strict decode / trailing bytes /
   injectivity) used by Proofs/WireP.v. *)
From Coq Require Import ZArith List Bool Lia.
From Strand Require Import Model.Outcome Model.Codec.
Import ListNotations.
Open Scope Z_scope.

Definition bytes_ok (bs : bytes) : Prop := Forall (fun b => 0 <= b < 256) bs.

Lemma bytes_ok_app a b : bytes_ok (a ++ b) <-> bytes_ok a /\ bytes_ok b.
Proof. unfold bytes_ok. apply Forall_app. Qed.

Lemma bytes_ok_rev a : bytes_ok a -> bytes_ok (rev a).
Proof. unfold bytes_ok. apply Forall_rev. Qed.

Lemma pow256 n : 0 <= n -> 2 ^ (8 * n) = 256 ^ n.
Proof. intro Hn. rewrite Z.pow_mul_r by lia. reflexivity. Qed.

Lemma pow256_pos n : 0 < 256 ^ Z.of_nat n.
Proof. apply Z.pow_pos_nonneg; lia. Qed.

Lemma pow256_S n : 256 ^ Z.of_nat (S n) = 256 * 256 ^ Z.of_nat n.
Proof. rewrite Nat2Z.inj_succ, Z.pow_succ_r by lia. reflexivity. Qed.

(* ------------------------------------------------------------------------------------------ *)
(* le_int / be_int                                                                            *)
(* ------------------------------------------------------------------------------------------ *)
Lemma le_int_nil : le_int [] = 0.
Proof. reflexivity. Qed.

Lemma le_int_cons b bs : le_int (b :: bs) = b + 256 * le_int bs.
Proof. reflexivity. Qed.

Lemma le_int_bound bs : bytes_ok bs -> 0 <= le_int bs < 256 ^ Z.of_nat (length bs).
Proof.
  induction 1 as [|b bs Hb Hbs IH].
  - rewrite le_int_nil. cbn [length]. change (256 ^ Z.of_nat 0) with 1. lia.
  - rewrite le_int_cons. cbn [length]. rewrite pow256_S. lia.
Qed.

Lemma be_int_snoc l b : be_int (l ++ [b]) = be_int l * 256 + b.
Proof. unfold be_int. rewrite fold_left_app. reflexivity. Qed.

Lemma be_int_rev l : be_int (rev l) = le_int l.
Proof.
  induction l as [|b l IH]; [reflexivity|].
  cbn [rev]. rewrite be_int_snoc, IH, le_int_cons. lia.
Qed.

Lemma be_int_le_int l : be_int l = le_int (rev l).
Proof. rewrite <- be_int_rev, rev_involutive. reflexivity. Qed.

Lemma be_int_bound bs : bytes_ok bs -> 0 <= be_int bs < 256 ^ Z.of_nat (length bs).
Proof.
  intro H. rewrite be_int_le_int, <- (rev_length bs). apply le_int_bound, bytes_ok_rev, H.
Qed.

(* ------------------------------------------------------------------------------------------ *)
(* le_digits, le_bytes_min, be_digits                                                         *)
(* ------------------------------------------------------------------------------------------ *)
Lemma le_digits_fuel_int f : forall x, 0 <= x < 256 ^ Z.of_nat f -> le_int (le_digits_fuel f x) = x.
Proof.
  induction f as [|f IH]; intros x Hx.
  - change (256 ^ Z.of_nat 0) with 1 in Hx. cbn [le_digits_fuel]. rewrite le_int_nil. lia.
  - cbn [le_digits_fuel]. destruct (Z.leb_spec x 0) as [H0|H0].
    + rewrite le_int_nil. lia.
    + rewrite le_int_cons, IH.
      * pose proof (Z.div_mod x 256 ltac:(lia)). lia.
      * rewrite pow256_S in Hx. split; [apply Z.div_pos; lia|].
        apply Z.div_lt_upper_bound; lia.
Qed.

Lemma le_digits_fuel_ok f : forall x, bytes_ok (le_digits_fuel f x).
Proof.
  induction f as [|f IH]; intros x; cbn [le_digits_fuel]; [constructor|].
  destruct (x <=? 0); [constructor|]. constructor; [|apply IH].
  apply Z.mod_pos_bound; lia.
Qed.

Lemma le_digits_fuel_len n : forall f x, x < 256 ^ Z.of_nat n ->
  (length (le_digits_fuel f x) <= n)%nat.
Proof.
  induction n as [|n IH]; intros f x Hx.
  - change (256 ^ Z.of_nat 0) with 1 in Hx. destruct f; cbn [le_digits_fuel length]; [lia|].
    destruct (Z.leb_spec x 0); [cbn [length]; lia | lia].
  - destruct f; cbn [le_digits_fuel length]; [lia|].
    destruct (Z.leb_spec x 0) as [H0|H0]; cbn [length]; [lia|].
    apply le_n_S, IH. rewrite pow256_S in Hx. apply Z.div_lt_upper_bound; lia.
Qed.

Lemma le_digits_fuel_enough x : 0 < x -> x < 256 ^ Z.of_nat (S (Z.to_nat (Z.log2 x / 8))).
Proof.
  intro Hx. pose proof (Z.log2_spec x Hx) as [_ Hu]. pose proof (Z.log2_nonneg x) as HL.
  set (L := Z.log2 x) in *.
  assert (Hk : 0 <= L / 8) by (apply Z.div_pos; lia).
  rewrite Nat2Z.inj_succ, Z2Nat.id by exact Hk.
  rewrite <- pow256 by lia.
  eapply Z.lt_le_trans; [exact Hu|].
  apply Z.pow_le_mono_r; [lia|].
  pose proof (Z.div_mod L 8 ltac:(lia)). pose proof (Z.mod_pos_bound L 8 ltac:(lia)). lia.
Qed.

Lemma le_digits_0 : le_digits 0 = [].
Proof. reflexivity. Qed.

Lemma le_digits_int x : 0 <= x -> le_int (le_digits x) = x.
Proof.
  intro Hx. destruct (Z.eq_dec x 0) as [->|Hn]; [reflexivity|].
  unfold le_digits. apply le_digits_fuel_int. split; [lia|]. apply le_digits_fuel_enough. lia.
Qed.

Lemma le_digits_ok x : bytes_ok (le_digits x).
Proof. apply le_digits_fuel_ok. Qed.

Lemma le_digits_len_nat n x : x < 256 ^ Z.of_nat n -> (length (le_digits x) <= n)%nat.
Proof. apply le_digits_fuel_len. Qed.

Lemma le_digits_len n x : 0 <= n -> x < 256 ^ n -> Z.of_nat (length (le_digits x)) <= n.
Proof.
  intros Hn Hx. rewrite <- (Z2Nat.id n Hn) in Hx. apply le_digits_len_nat in Hx. lia.
Qed.

Lemma le_digits_nonempty x : 0 < x -> le_digits x <> [].
Proof.
  intros Hx E. pose proof (le_digits_int x ltac:(lia)) as H. rewrite E, le_int_nil in H. lia.
Qed.

Lemma le_bytes_min_int x : 0 <= x -> le_int (le_bytes_min x) = x.
Proof.
  intro Hx. unfold le_bytes_min. destruct (Z.leb_spec x 0); [|apply le_digits_int, Hx].
  cbn. lia.
Qed.

Lemma le_bytes_min_ok x : bytes_ok (le_bytes_min x).
Proof.
  unfold le_bytes_min. destruct (x <=? 0); [|apply le_digits_ok].
  constructor; [lia|constructor].
Qed.

Lemma le_bytes_min_len n x : 1 <= n -> x < 256 ^ n -> Z.of_nat (length (le_bytes_min x)) <= n.
Proof.
  intros Hn Hx. unfold le_bytes_min. destruct (x <=? 0); [cbn [length]; lia|].
  apply le_digits_len; [lia|exact Hx].
Qed.

Lemma be_digits_int x : 0 <= x -> be_int (be_digits x) = x.
Proof. intro Hx. unfold be_digits. rewrite be_int_rev. apply le_digits_int, Hx. Qed.

Lemma be_digits_ok x : bytes_ok (be_digits x).
Proof. apply bytes_ok_rev, le_digits_ok. Qed.

Lemma be_digits_len n x : 0 <= n -> x < 256 ^ n -> Z.of_nat (length (be_digits x)) <= n.
Proof. unfold be_digits. rewrite rev_length. apply le_digits_len. Qed.

(* ------------------------------------------------------------------------------------------ *)
(* fixed-width little endian                                                                  *)
(* ------------------------------------------------------------------------------------------ *)
Lemma le_fixed_len n : forall x, length (le_fixed n x) = n.
Proof. induction n as [|n IH]; intro x; cbn [le_fixed length]; [reflexivity|]. now rewrite IH. Qed.

Lemma le_fixed_ok n : forall x, bytes_ok (le_fixed n x).
Proof.
  induction n as [|n IH]; intro x; cbn [le_fixed]; constructor; [|apply IH].
  apply Z.mod_pos_bound; lia.
Qed.

Lemma le_fixed_int n : forall x, 0 <= x < 256 ^ Z.of_nat n -> le_int (le_fixed n x) = x.
Proof.
  induction n as [|n IH]; intros x Hx.
  - change (256 ^ Z.of_nat 0) with 1 in Hx. cbn [le_fixed]. rewrite le_int_nil. lia.
  - cbn [le_fixed]. rewrite le_int_cons, IH.
    + pose proof (Z.div_mod x 256 ltac:(lia)). lia.
    + rewrite pow256_S in Hx. split; [apply Z.div_pos; lia|]. apply Z.div_lt_upper_bound; lia.
Qed.

Lemma u32le_len x : length (u32le x) = 4%nat.
Proof. apply le_fixed_len. Qed.
Lemma u16le_len x : length (u16le x) = 2%nat.
Proof. apply le_fixed_len. Qed.
Lemma u32le_ok x : bytes_ok (u32le x).
Proof. apply le_fixed_ok. Qed.
Lemma u16le_ok x : bytes_ok (u16le x).
Proof. apply le_fixed_ok. Qed.
Lemma u32le_int x : 0 <= x < 2 ^ 32 -> le_int (u32le x) = x.
Proof. intro H. apply le_fixed_int. exact H. Qed.
Lemma u16le_int x : 0 <= x < 2 ^ 16 -> le_int (u16le x) = x.
Proof. intro H. apply le_fixed_int. exact H. Qed.

(* ------------------------------------------------------------------------------------------ *)
(* take_n, rd_u32, rd_u16, rd_vec_u8                                                          *)
(* ------------------------------------------------------------------------------------------ *)
Lemma take_n_app a rest : take_n (length a) (a ++ rest) = Ok (a, rest).
Proof.
  unfold take_n. rewrite app_length.
  destruct (Nat.leb_spec (length a) (length a + length rest)) as [_|H]; [|lia].
  rewrite firstn_app, skipn_app, Nat.sub_diag, firstn_all, skipn_all. cbn [firstn skipn].
  rewrite app_nil_r. reflexivity.
Qed.

Lemma take_n_inv n bs a r : take_n n bs = Ok (a, r) -> bs = a ++ r /\ length a = n.
Proof.
  unfold take_n. destruct (Nat.leb_spec n (length bs)) as [H|H]; [|discriminate].
  intro E. injection E as <- <-. split; [symmetry; apply firstn_skipn|].
  apply firstn_length_le, H.
Qed.

Lemma take_n_short n bs : (length bs < n)%nat -> take_n n bs = Err.
Proof. intro H. unfold take_n. destruct (Nat.leb_spec n (length bs)); [lia|reflexivity]. Qed.

Lemma take_n_np n bs : take_n n bs <> Panic.
Proof. unfold take_n. destruct (n <=? length bs)%nat; discriminate. Qed.

Lemma rd_u32_app n rest : 0 <= n < 2 ^ 32 -> rd_u32 (u32le n ++ rest) = Ok (n, rest).
Proof.
  intro H. unfold rd_u32. rewrite <- (u32le_len n), take_n_app, u32le_int by exact H. reflexivity.
Qed.

Lemma rd_u16_app n rest : 0 <= n < 2 ^ 16 -> rd_u16 (u16le n ++ rest) = Ok (n, rest).
Proof.
  intro H. unfold rd_u16. rewrite <- (u16le_len n), take_n_app, u16le_int by exact H. reflexivity.
Qed.

Lemma rd_u32_inv bs n r : rd_u32 bs = Ok (n, r) ->
  exists a, bs = a ++ r /\ length a = 4%nat /\ n = le_int a.
Proof.
  unfold rd_u32. destruct (take_n 4 bs) as [[a r']| |] eqn:E; try discriminate.
  intro H. injection H as <- <-. apply take_n_inv in E as [-> L]. eauto.
Qed.

Lemma rd_u16_inv bs n r : rd_u16 bs = Ok (n, r) ->
  exists a, bs = a ++ r /\ length a = 2%nat /\ n = le_int a.
Proof.
  unfold rd_u16. destruct (take_n 2 bs) as [[a r']| |] eqn:E; try discriminate.
  intro H. injection H as <- <-. apply take_n_inv in E as [-> L]. eauto.
Qed.

Lemma rd_u32_short bs : (length bs < 4)%nat -> rd_u32 bs = Err.
Proof. intro H. unfold rd_u32. rewrite take_n_short by exact H. reflexivity. Qed.

Lemma rd_u16_short bs : (length bs < 2)%nat -> rd_u16 bs = Err.
Proof. intro H. unfold rd_u16. rewrite take_n_short by exact H. reflexivity. Qed.

Lemma rd_u32_np bs : rd_u32 bs <> Panic.
Proof.
  unfold rd_u32. pose proof (take_n_np 4 bs). destruct (take_n 4 bs) as [[a r]| |]; congruence.
Qed.

Lemma rd_u16_np bs : rd_u16 bs <> Panic.
Proof.
  unfold rd_u16. pose proof (take_n_np 2 bs). destruct (take_n 2 bs) as [[a r]| |]; congruence.
Qed.

Lemma rd_vec_u8_app b rest : Z.of_nat (length b) < 2 ^ 32 ->
  rd_vec_u8 (wr_vec_u8 b ++ rest) = Ok (b, rest).
Proof.
  intro H. unfold rd_vec_u8, wr_vec_u8. rewrite <- app_assoc, rd_u32_app by lia.
  destruct (Z.leb_spec (Z.of_nat (length b)) (Z.of_nat (length (b ++ rest)))) as [_|Hc].
  - rewrite Nat2Z.id. apply take_n_app.
  - rewrite app_length in Hc. lia.
Qed.

Lemma rd_vec_u8_inv bs b r : rd_vec_u8 bs = Ok (b, r) ->
  exists a, bs = a ++ b ++ r /\ length a = 4%nat /\ Z.to_nat (le_int a) = length b.
Proof.
  unfold rd_vec_u8. destruct (rd_u32 bs) as [[n r']| |] eqn:E; try discriminate.
  intro H. apply rd_u32_inv in E as (a & -> & L & ->).
  destruct (_ <=? _); [|discriminate]. apply take_n_inv in H as [-> L'].
  exists a. auto.
Qed.

Lemma rd_vec_u8_np bs : rd_vec_u8 bs <> Panic.
Proof.
  unfold rd_vec_u8. pose proof (rd_u32_np bs). destruct (rd_u32 bs) as [[n r]| |]; try congruence.
  destruct (_ <=? _); [apply take_n_np|discriminate].
Qed.

Lemma wr_vec_u8_len b : length (wr_vec_u8 b) = (4 + length b)%nat.
Proof. unfold wr_vec_u8. rewrite app_length, u32le_len. reflexivity. Qed.

Lemma wr_vec_u8_ok b : bytes_ok b -> bytes_ok (wr_vec_u8 b).
Proof. intro H. unfold wr_vec_u8. apply bytes_ok_app. split; [apply u32le_ok|exact H]. Qed.

(* ------------------------------------------------------------------------------------------ *)
(* outcome plumbing                                                                           *)
(* ------------------------------------------------------------------------------------------ *)
Definition np_reader {A} (rd : reader A) : Prop := forall bs, rd bs <> Panic.

Lemma bind_np {A B} (o : outcome A) (f : A -> outcome B) :
  o <> Panic -> (forall a, f a <> Panic) -> bind o f <> Panic.
Proof. intros Ho Hf. destruct o; cbn [bind]; [apply Hf|discriminate|congruence]. Qed.

Lemma bind_err {A B} (o : outcome A) (f : A -> outcome B) : o = Err -> bind o f = Err.
Proof. intros ->. reflexivity. Qed.

Lemma mapM_np {A B} (f : A -> outcome B) l : (forall a, f a <> Panic) -> mapM f l <> Panic.
Proof.
  intro Hf. induction l as [|x l IH]; cbn [mapM]; [discriminate|].
  pose proof (Hf x). destruct (f x); try congruence. destruct (mapM f l); congruence.
Qed.

Lemma mapM_ok {A B} (f : A -> outcome B) (g : B -> A) l :
  (forall b, In b l -> f (g b) = Ok b) -> mapM f (map g l) = Ok l.
Proof.
  induction l as [|x l IH]; intro H; cbn [mapM map]; [reflexivity|].
  rewrite H by (left; reflexivity). rewrite IH; [reflexivity|].
  intros b Hb. apply H. right. exact Hb.
Qed.

Lemma mapM_inv {A B} (f : A -> outcome B) (Q : A -> Prop) (v : B -> Prop) :
  (forall a b, Q a -> f a = Ok b -> v b) ->
  forall l l', Forall Q l -> mapM f l = Ok l' -> Forall v l'.
Proof.
  intros H l. induction l as [|x l IH]; intros l' HQ E; cbn [mapM] in E.
  - injection E as <-. constructor.
  - inversion HQ as [|? ? Hx Hl]; subst.
    destruct (f x) as [y| |] eqn:Ex; try discriminate.
    destruct (mapM f l) as [ys| |] eqn:El; try discriminate.
    injection E as <-. constructor; [eapply H; eauto|]. apply IH; auto.
Qed.

Lemma strict_np {A} (rd : reader A) : np_reader rd -> forall bs, strict rd bs <> Panic.
Proof.
  intros H bs. unfold strict. pose proof (H bs). destruct (rd bs) as [[a [|x r]]| |]; congruence.
Qed.

Lemma strict_inv {A} (rd : reader A) bs a : strict rd bs = Ok a -> rd bs = Ok (a, []).
Proof.
  unfold strict. destruct (rd bs) as [[a' [|x r]]| |]; try discriminate. intro E. now injection E as <-.
Qed.

Lemma strict_err {A} (rd : reader A) bs : rd bs = Err -> strict rd bs = Err.
Proof. unfold strict. intros ->. reflexivity. Qed.

(* ------------------------------------------------------------------------------------------ *)
(* rd_n / rd_vec                                                                              *)
(* ------------------------------------------------------------------------------------------ *)
Lemma rd_n_np {A} (rd : reader A) : np_reader rd -> forall k, np_reader (rd_n rd k).
Proof.
  intros H k. induction k as [|k IH]; intro bs; cbn [rd_n]; [discriminate|].
  pose proof (H bs). destruct (rd bs) as [[a r]| |]; try congruence.
  pose proof (IH r). destruct (rd_n rd k r) as [[l r']| |]; congruence.
Qed.

Lemma rd_vec_np {A} minsz (rd : reader A) : np_reader rd -> np_reader (rd_vec minsz rd).
Proof.
  intros H bs. unfold rd_vec. pose proof (rd_u32_np bs).
  destruct (rd_u32 bs) as [[n r]| |]; try congruence.
  destruct (_ <=? _); [apply rd_n_np, H|discriminate].
Qed.

Lemma rd_n_app {A B} (rd : reader B) (w : A -> bytes) (f : A -> B) l rest :
  (forall a r, In a l -> rd (w a ++ r) = Ok (f a, r)) ->
  rd_n rd (length l) (flat_map w l ++ rest) = Ok (map f l, rest).
Proof.
  induction l as [|x l IH]; intro H; cbn [length rd_n flat_map map]; [reflexivity|].
  rewrite <- app_assoc, H by (left; reflexivity). rewrite IH; [reflexivity|].
  intros a r Ha. apply H. right. exact Ha.
Qed.

Lemma flat_map_min_len {A} (w : A -> bytes) k l :
  (forall a, In a l -> (k <= length (w a))%nat) -> (length l * k <= length (flat_map w l))%nat.
Proof.
  induction l as [|x l IH]; intro H; cbn [length flat_map]; [lia|].
  rewrite app_length. pose proof (H x (or_introl eq_refl)).
  assert (length l * k <= length (flat_map w l))%nat by (apply IH; intros a Ha; apply H; right; exact Ha).
  lia.
Qed.

Lemma flat_map_const_len {A} (w : A -> bytes) k l :
  (forall a, length (w a) = k) -> length (flat_map w l) = (length l * k)%nat.
Proof.
  intro H. induction l as [|x l IH]; cbn [length flat_map]; [reflexivity|].
  rewrite app_length, H, IH. lia.
Qed.

Lemma rd_vec_app {A B} minsz (rd : reader B) (w : A -> bytes) (f : A -> B) l rest :
  Z.of_nat (length l) < 2 ^ 32 ->
  (forall a, In a l -> (minsz <= length (w a))%nat) ->
  (forall a r, In a l -> rd (w a ++ r) = Ok (f a, r)) ->
  rd_vec minsz rd (wr_vec w l ++ rest) = Ok (map f l, rest).
Proof.
  intros Hl Hmin Hrt. unfold rd_vec, wr_vec. rewrite <- app_assoc, rd_u32_app by lia.
  pose proof (flat_map_min_len w minsz l Hmin) as Hlen.
  destruct (Z.leb_spec (Z.of_nat (length l) * Z.of_nat minsz) (Z.of_nat (length (flat_map w l ++ rest)))) as [_|Hc].
  - rewrite Nat2Z.id. apply rd_n_app, Hrt.
  - rewrite app_length in Hc. nia.
Qed.

(* decoded items satisfy [v], threading an invariant [Q] on the remaining input *)
Lemma rd_n_inv {A} (rd : reader A) (Q : bytes -> Prop) (v : A -> Prop) :
  (forall bs a r, Q bs -> rd bs = Ok (a, r) -> v a /\ Q r) ->
  forall k bs l r, Q bs -> rd_n rd k bs = Ok (l, r) -> Forall v l /\ Q r /\ length l = k.
Proof.
  intros H k. induction k as [|k IH]; intros bs l r HQ E; cbn [rd_n] in E.
  - injection E as <- <-. auto.
  - destruct (rd bs) as [[a r1]| |] eqn:Ea; try discriminate.
    destruct (rd_n rd k r1) as [[l1 r2]| |] eqn:El; try discriminate.
    injection E as <- <-. destruct (H _ _ _ HQ Ea) as [Hv HQ1].
    destruct (IH _ _ _ HQ1 El) as (Hl & HQ2 & Hlen). cbn [length]. auto.
Qed.

Lemma rd_vec_inv {A} minsz (rd : reader A) (Q : bytes -> Prop) (v : A -> Prop) :
  (forall a b, Q (a ++ b) -> Q b) ->
  (forall bs a r, Q bs -> rd bs = Ok (a, r) -> v a /\ Q r) ->
  forall bs l r, Q bs -> rd_vec minsz rd bs = Ok (l, r) ->
  Forall v l /\ Q r /\
  exists a, length a = 4%nat /\ (exists t, bs = a ++ t) /\ length l = Z.to_nat (le_int a).
Proof.
  intros Hsuf H bs l r HQ E. unfold rd_vec in E.
  destruct (rd_u32 bs) as [[n r1]| |] eqn:En; try discriminate.
  apply rd_u32_inv in En as (a & -> & La & ->).
  destruct (_ <=? _); try discriminate.
  destruct (rd_n_inv rd Q v H _ _ _ _ (Hsuf _ _ HQ) E) as (Hl & HQr & Hlen).
  split; [exact Hl|]. split; [exact HQr|]. exists a. eauto.
Qed.

(* ------------------------------------------------------------------------------------------ *)
(* generic codec facts                                                                        *)
(* ------------------------------------------------------------------------------------------ *)
(* (R): the reader inverts the writer on valid values, whatever follows *)
Definition RT {A} (v : A -> Prop) (wr : A -> bytes) (rd : reader A) : Prop :=
  forall a rest, v a -> rd (wr a ++ rest) = Ok (a, rest).

Lemma rt_de {A} (v : A -> Prop) wr rd : RT v wr rd -> forall a, v a -> strict rd (wr a) = Ok a.
Proof.
  intros H a Ha. unfold strict. rewrite <- (app_nil_r (wr a)), (H a [] Ha). reflexivity.
Qed.

Lemma rt_trailing {A} (v : A -> Prop) wr rd : RT v wr rd ->
  forall a rest, v a -> rest <> [] -> strict rd (wr a ++ rest) = Err.
Proof.
  intros H a rest Ha Hr. unfold strict. rewrite (H a rest Ha). destruct rest; congruence.
Qed.

Lemma rt_inj {A} (v : A -> Prop) wr rd : RT v wr rd ->
  forall a b, v a -> v b -> wr a = wr b -> a = b.
Proof.
  intros H a b Ha Hb E. pose proof (H a [] Ha) as E1. pose proof (H b [] Hb) as E2.
  rewrite E in E1. congruence.
Qed.

(* step lemma for sequenced readers: consume one field *)
Lemma rt_step {A C} (v : A -> Prop) wr rd (f : A * bytes -> outcome C) a rest :
  RT v wr rd -> v a -> bind (rd (wr a ++ rest)) f = f (a, rest).
Proof. intros H Ha. rewrite (H a rest Ha). reflexivity. Qed.

(* (T): every strict prefix of an honest encoding makes the reader fail *)
Definition PF {A} (v : A -> Prop) (wr : A -> bytes) (rd : reader A) : Prop :=
  forall a b x, v a -> x <> [] -> b ++ x = wr a -> rd b = Err.

Lemma prefix_split (b x w t : bytes) : b ++ x = w ++ t ->
  (exists l, b = w ++ l /\ l ++ x = t) \/ (exists y, y <> [] /\ b ++ y = w).
Proof.
  intro E. apply app_eq_app in E as (l & [[E1 E2]|[E1 E2]]).
  - left. exists l. auto.
  - destruct l as [|c l].
    + left. exists []. rewrite app_nil_r in *. cbn [app] in E2. auto.
    + right. exists (c :: l). split; [discriminate|]. symmetry. exact E1.
Qed.

Lemma pf_step {A C} (v : A -> Prop) wr rd (f : A * bytes -> outcome C) a b x t :
  RT v wr rd -> PF v wr rd -> v a -> x <> [] -> b ++ x = wr a ++ t ->
  (forall l, l ++ x = t -> f (a, l) = Err) ->
  bind (rd b) f = Err.
Proof.
  intros Hrt Hpf Ha Hx E Hk. apply prefix_split in E as [(l & -> & El)|(y & Hy & Ey)].
  - rewrite (Hrt a l Ha). cbn [bind]. apply Hk, El.
  - rewrite (Hpf a b y Ha Hy Ey). reflexivity.
Qed.

Lemma pf_de {A} (v : A -> Prop) wr rd : PF v wr rd ->
  forall a b, v a -> (exists x, x <> [] /\ b ++ x = wr a) -> strict rd b = Err.
Proof. intros H a b Ha (x & Hx & E). apply strict_err. eapply H; eauto. Qed.

Lemma rd_vec_u8_pf bytes_ b x : Z.of_nat (length bytes_) < 2 ^ 32 -> x <> [] ->
  b ++ x = wr_vec_u8 bytes_ -> rd_vec_u8 b = Err.
Proof.
  intros Hl Hx E. unfold wr_vec_u8 in E. apply prefix_split in E as [(l & -> & El)|(y & Hy & Ey)].
  - unfold rd_vec_u8. rewrite rd_u32_app by lia.
    destruct (Z.leb_spec (Z.of_nat (length bytes_)) (Z.of_nat (length l))) as [Hc|_]; [|reflexivity].
    rewrite <- El, app_length in Hc. destruct x; [congruence|cbn [length] in Hc; lia].
  - unfold rd_vec_u8. rewrite rd_u32_short; [reflexivity|].
    rewrite <- (u32le_len (Z.of_nat (length bytes_))), <- Ey, app_length.
    destruct y; [congruence|cbn [length]; lia].
Qed.

Lemma rd_n_pf {A B} (rd : reader B) (w : A -> bytes) (f : A -> B) l : forall b x,
  (forall a r, In a l -> rd (w a ++ r) = Ok (f a, r)) ->
  (forall a b x, In a l -> x <> [] -> b ++ x = w a -> rd b = Err) ->
  x <> [] -> b ++ x = flat_map w l -> rd_n rd (length l) b = Err.
Proof.
  induction l as [|c l IH]; intros b x Hrt Hpf Hx E; cbn [flat_map length rd_n] in *.
  - apply app_eq_nil in E as [_ E]. congruence.
  - apply prefix_split in E as [(t & -> & Et)|(y & Hy & Ey)].
    + rewrite Hrt by (left; reflexivity). rewrite (IH t x); auto.
      * intros a r Ha. apply Hrt. right. exact Ha.
      * intros a b' x' Ha. apply Hpf. right. exact Ha.
    + rewrite (Hpf c b y); auto. left; reflexivity.
Qed.

Lemma rd_vec_pf {A B} minsz (rd : reader B) (w : A -> bytes) (f : A -> B) l b x :
  Z.of_nat (length l) < 2 ^ 32 ->
  (forall a r, In a l -> rd (w a ++ r) = Ok (f a, r)) ->
  (forall a b x, In a l -> x <> [] -> b ++ x = w a -> rd b = Err) ->
  x <> [] -> b ++ x = wr_vec w l -> rd_vec minsz rd b = Err.
Proof.
  intros Hl Hrt Hpf Hx E. unfold wr_vec in E.
  apply prefix_split in E as [(t & -> & Et)|(y & Hy & Ey)].
  - unfold rd_vec. rewrite rd_u32_app by lia.
    destruct (_ <=? _); [|reflexivity]. rewrite Nat2Z.id. eapply rd_n_pf; eauto.
  - unfold rd_vec. rewrite rd_u32_short; [reflexivity|].
    rewrite <- (u32le_len (Z.of_nat (length l))), <- Ey, app_length.
    destruct y; [congruence|cbn [length]; lia].
Qed.

Print Assumptions le_digits_int.
Print Assumptions le_digits_ok.
Print Assumptions le_digits_len_nat.
Print Assumptions le_digits_len.
Print Assumptions le_bytes_min_int.
Print Assumptions le_bytes_min_ok.
Print Assumptions le_bytes_min_len.
Print Assumptions be_digits_int.
Print Assumptions be_digits_ok.
Print Assumptions be_digits_len.
Print Assumptions le_int_bound.
Print Assumptions be_int_bound.
Print Assumptions le_fixed_int.
Print Assumptions le_fixed_len.
Print Assumptions le_fixed_ok.
Print Assumptions rd_u32_app.
Print Assumptions rd_u16_app.
Print Assumptions take_n_app.
Print Assumptions rd_vec_u8_app.
Print Assumptions take_n_np.
Print Assumptions rd_u32_np.
Print Assumptions rd_u16_np.
Print Assumptions rd_vec_u8_np.
Print Assumptions rd_n_np.
Print Assumptions rd_vec_np.
Print Assumptions mapM_np.
Print Assumptions strict_np.
Print Assumptions rd_n_app.
Print Assumptions rd_vec_app.
Print Assumptions rd_n_inv.
Print Assumptions rd_vec_inv.
Print Assumptions rt_de.
Print Assumptions rt_trailing.
Print Assumptions rt_inj.
Print Assumptions rt_step.
Print Assumptions pf_step.
Print Assumptions pf_de.
Print Assumptions rd_vec_u8_pf.
Print Assumptions rd_n_pf.
Print Assumptions rd_vec_pf.
