(* Proofs/SqrtRatio.v — completeness of SQRT_RATIO_M1 (RFC 9496 4.2, the square-root computation shared by ristretto255 and
   Ed25519 point decoding): if u = x^2 v with v <> 0 then the model's [sqrt_ratio_m1 u v] reports "square" and returns r with
   v r^2 = u. With [sqrt_ratio_ok] (Proofs/RistrettoDecode.v) this is the full specification of the "square" branch.
   Argument: r = u v^3 (u v^7)^((p-5)/8), so v r^2 = u (u v^7)^((p-1)/4); u v^7 = (x v^4)^2 is a square, hence its
   (p-1)/4-th power is (x v^4)^((p-1)/2) = +-1 (Fermat). Large exponents are never evaluated: they stay symbolic in Z.pow. *)
From Coq Require Import ZArith Znumtheory Zpow_facts Lia List Bool Ring Field.
From Strand Require Import Base.ZUtil Base.Fermat Base.ZpField Base.Edwards Model.Outcome Model.Codec Model.Ristretto
  Model.RistrettoFast Proofs.PrimeCerts Proofs.RistrettoGroup Proofs.RistrettoDecode.
Open Scope Z_scope.

(* ---- powers through the reduction Z -> GF(p) ---- *)
Definition e58 : Z := Eval vm_compute in (fp - 5) / 8.
Definition e14 : Z := Eval vm_compute in (fp - 1) / 4.
Definition e12 : Z := Eval vm_compute in (fp - 1) / 2.
Lemma e58_eq : (fp - 5) / 8 = e58.  Proof. reflexivity. Qed.
Lemma e14_eq : 2 * e58 + 1 = e14.  Proof. reflexivity. Qed.
Lemma e12_eq : 2 * e14 = e12.  Proof. reflexivity. Qed.
Lemma e12_fp : 2 * e12 = fp - 1.  Proof. reflexivity. Qed.
Lemma e58_nonneg : 0 <= e58.  Proof. discriminate. Qed.
Lemma e14_nonneg : 0 <= e14.  Proof. discriminate. Qed.
Lemma e12_nonneg : 0 <= e12.  Proof. discriminate. Qed.
Global Opaque e58 e14 e12.

Lemma F_pow_congr a b k : 0 <= k -> F a = F b -> F (a ^ k) = F (b ^ k).
Proof.
  intros Hk E. apply (of_Z_eq fp) in E. apply (of_Z_eq fp).
  rewrite (Zpower_mod a) by reflexivity. rewrite (Zpower_mod b) by reflexivity. now rewrite E.
Qed.

Lemma F_pow_add a j k : 0 <= j -> 0 <= k -> F (a ^ (j + k)) = fm (F (a ^ j)) (F (a ^ k)).
Proof. intros Hj Hk. rewrite Z.pow_add_r by assumption. apply of_Z_mul. Qed.

Lemma F_pow_1 a : F (a ^ 1) = F a.  Proof. now rewrite Z.pow_1_r. Qed.

Lemma F_pow_sq a k : 0 <= k -> F ((a * a) ^ k) = F (a ^ (2 * k)).
Proof. intro Hk. rewrite <- Z.pow_2_r, <- Z.pow_mul_r by lia. reflexivity. Qed.

Lemma F_fpow K a e : F (fpow K a e) = F (a ^ e).
Proof. unfold fpow. rewrite k_powm_ok, powm_spec by discriminate. unfold F. apply (of_Z_mod fp fp_prime). Qed.

(* Euler: the (p-1)/2-th power of a non-zero residue is +-1 *)
Lemma euler_pm1_F z : F z <> f0 -> F (z ^ e12) = f1 \/ F (z ^ e12) = fo f1.
Proof.
  intro Hz.
  assert (S : fm (F (z ^ e12)) (F (z ^ e12)) = fm f1 f1).
  { rewrite <- F_pow_add by apply e12_nonneg. replace (e12 + e12) with (fp - 1) by (rewrite <- e12_fp; ring).
    transitivity f1; [|ring]. apply Zp_eq. unfold F. rewrite zv_of_Z.
    change (zv fp f1) with 1.
    apply fermat_Z; [exact fp_prime|]. intro Hd. apply Hz. apply Zp_eq. unfold F, f0. rewrite zv_of_Z, (zv_z0 fp fp_prime).
    now apply Zdivide_mod. }
  exact (sq_eq_cases Fp f0 f1 fa fm fs fo fd fi Fth F_dec iF iF_sq _ _ S).
Qed.

Lemma canon_eq a b : a = zv fp (F a) -> b = zv fp (F b) -> F a = F b -> a = b.
Proof. intros Ha Hb E. rewrite Ha, Hb, E. reflexivity. Qed.

Lemma fmul_canon K a b : fmul K a b = zv fp (F (fmul K a b)).
Proof. rewrite (F_fmul K). apply fmul_zv. Qed.

Lemma fneg_canon K a : fneg K a = zv fp (F (fneg K a)).
Proof.
  rewrite (fneg_K K). unfold fneg, fmod, F. cbn [k_mod K_ref]. rewrite zv_of_Z. symmetry. apply Z.mod_mod. discriminate.
Qed.

Lemma small_canon a : 0 <= a < fp -> a = zv fp (F a).
Proof. intro H. unfold F. rewrite zv_of_Z. symmetry. now apply Z.mod_small. Qed.

Theorem sqrt_ratio_complete K u v x : 0 <= u < fp -> F v <> f0 -> F u = fm (fm (F x) (F x)) (F v) ->
  fst (sqrt_ratio_m1 K u v) = true.
Proof.
  intros Hu Hv Hx. unfold sqrt_ratio_m1.
  set (v3 := fmul K (fsq K v) v). set (v7 := fmul K (fsq K v3) v). set (w := fmul K u v7).
  set (r := fmul K (fmul K u v3) (fpow K w ((fp - 5) / 8))).
  set (check := fmul K v (fsq K r)).
  cbn [fst].
  set (U := F u) in *. set (V := F v) in *. set (X := F x) in *.
  assert (E3 : F v3 = fm (fm V V) V) by (unfold v3, fsq; now rewrite !F_fmul).
  assert (E7 : F v7 = fm (fm (F v3) (F v3)) V) by (unfold v7, fsq; now rewrite !F_fmul).
  assert (Ew : F w = fm U (F v7)) by (unfold w; now rewrite F_fmul).
  set (z := zv fp (fm X (fm (fm V V) (fm V V)))).
  assert (Ez : F z = fm X (fm (fm V V) (fm V V))) by (unfold z, F; apply (of_Z_zv fp fp_prime)).
  assert (Ewz : F w = F (z * z)).
  { unfold F at 2. rewrite of_Z_mul. fold (F z). change (zmul fp) with fm. rewrite Ew, E7, E3, Ez, Hx. ring. }
  assert (Er : F r = fm (fm U (F v3)) (F (w ^ e58))).
  { unfold r. rewrite !F_fmul, F_fpow, e58_eq. reflexivity. }
  assert (Ec : F check = fm U (F (w ^ e14))).
  { unfold check, fsq. rewrite !F_fmul, Er. rewrite <- e14_eq.
    rewrite (F_pow_add w (2 * e58) 1) by (try discriminate; pose proof e58_nonneg; lia).
    replace (2 * e58) with (e58 + e58) by ring. rewrite (F_pow_add w e58 e58) by apply e58_nonneg.
    rewrite F_pow_1, Ew, E7, E3. fold V. ring. }
  assert (Ep : F (w ^ e14) = F (z ^ e12)).
  { rewrite (F_pow_congr w (z * z) e14 e14_nonneg Ewz). rewrite F_pow_sq by apply e14_nonneg. now rewrite e12_eq. }
  rewrite Ep in Ec.
  assert (Cc : check = zv fp (F check)) by (unfold check; apply fmul_canon).
  destruct (F_dec (F z) f0) as [Z0|Zn].
  - (* x = 0: u = 0, check = 0 = u *)
    assert (X0 : X = f0).
    { rewrite Ez in Z0. destruct (zmul_eq0 fp fp_prime _ _ Z0) as [H|H]; [exact H|].
      exfalso. change (zmul fp) with fm in H.
      destruct (zmul_eq0 fp fp_prime _ _ H) as [H1|H1]; destruct (zmul_eq0 fp fp_prime _ _ H1); contradiction. }
    assert (U0 : U = f0) by (rewrite Hx, X0; ring).
    assert (E : check = u).
    { apply canon_eq; [exact Cc | now apply small_canon |]. fold U. rewrite Ec, U0. ring. }
    apply orb_true_iff. left. now apply Z.eqb_eq.
  - destruct (euler_pm1_F z Zn) as [P1|P1]; rewrite P1 in Ec; apply orb_true_iff.
    + left. apply Z.eqb_eq. apply canon_eq; [exact Cc | now apply small_canon |]. fold U. rewrite Ec. ring.
    + right. apply Z.eqb_eq. apply canon_eq; [exact Cc | apply fneg_canon |]. rewrite F_fneg. fold U. rewrite Ec. ring.
Qed.
