(* Proofs/RistrettoEncode.v — RFC 9496 ENCODE depends only on the curve point, not on its projective representation:
   for valid extended points P, Q with the same affine image (and on which the encoder's inverse square root exists, as it
   does on everything DECODE returns), compress P = compress Q. With ENCODE (DECODE bs) = bs this gives the byte-level
   round trip of the ristretto backend: whatever decrypts to the same curve point serialises to the same bytes. *)
From Coq Require Import ZArith Znumtheory Zpow_facts Lia List Bool Ring Field.
From Coq Require Import Ncring Cring Integral_domain NsatzTactic.
From Strand Require Import Base.ZUtil Base.Fermat Base.ZpField Base.Edwards Model.Outcome Model.Codec Model.Ristretto
  Model.RistrettoFast Model.RBackend Proofs.CodecP Proofs.PrimeCerts Proofs.RistrettoGroup Proofs.RistrettoDecode
  Proofs.SqrtRatio Proofs.Ed25519Complete Proofs.RistrettoCanon.
Import ListNotations.
Open Scope Z_scope.

Local Instance Fp_ops : @Ring_ops Fp f0 f1 fa fm fs fo (@eq Fp) := Fops Fp f0 f1 fa fm fs fo.
Local Instance Fp_ri : Ring (Ro:=Fp_ops) := Fri Fp f0 f1 fa fm fs fo fd fi Fth.
Local Instance Fp_cri : Cring (Rr:=Fp_ri) := Fcri Fp f0 f1 fa fm fs fo fd fi Fth.
Local Instance Fp_di : Integral_domain (Rcr:=Fp_cri) := Fdi Fp f0 f1 fa fm fs fo fd fi Fth F_dec.
Ltac nsatz_internal_discrR ::= (let Hd := fresh in intro Hd; apply (f_equal (zv fp)) in Hd; vm_compute in Hd; discriminate Hd).

(* the quantities ENCODE computes, as functions of the AFFINE point (x, y) *)
Definition kF : Fp := F invsqrt_a_minus_d.
Definition W1 (x y : Fp) : Fp := fm (fm (fa f1 y) (fs f1 y)) (fm (fm x y) (fm x y)).
Definition rotF (x y : Fp) : bool := Z.odd (zv fp (fm x y)).
Definition xsF (x y : Fp) : Fp := if rotF x y then fm y iF else x.
Definition negF (x y : Fp) : bool := Z.odd (zv fp (xsF x y)).
Definition ysF (x y : Fp) : Fp :=
  let y0 := if rotF x y then fm x iF else y in if negF x y then fo y0 else y0.
Definition dF' (x y : Fp) : Fp := if rotF x y then fm (fm (fa f1 y) (fs f1 y)) kF else fm x y.

(* the encoder's inverse square root exists *)
Definition sq_ok (A : Fp * Fp) : Prop := let '(x, y) := A in exists r, fm (fm r r) (W1 x y) = f1.

Lemma even_canon_unique a b : a = zv fp (F a) -> b = zv fp (F b) -> Z.odd a = false -> Z.odd b = false ->
  fm (F a) (F a) = fm (F b) (F b) -> a = b.
Proof.
  intros Ca Cb Ea Eb S. rewrite <- (fabs_unique K_ref a b Ca Cb Eb S). unfold fabs, fis_neg. now rewrite Ea.
Qed.

(* one run of the encoder on a valid point, described through the affine image *)
Theorem compress_spec K P : valid P -> sq_ok (aff P) ->
  let '(x, y) := aff P in
  exists s, compress K P = le_fixed 32 s /\ s = zv fp (F s) /\ Z.odd s = false /\
            fm (fm (F s) (F s)) (W1 x y) = fm (fm (dF' x y) (fs f1 (ysF x y))) (fm (dF' x y) (fs f1 (ysF x y))).
Proof.
  intros V SQ. pose proof (valid_coords P V) as VC. destruct V as (Hz & _ & _).
  destruct (aff P) as [x y]. destruct VC as (EX & EY & ET). destruct SQ as (r & Hr).
  set (L := F (pz P)) in *.
  unfold compress.
  set (u1 := fmul K (fadd K (pz P) (py P)) (fsub K (pz P) (py P))).
  set (u2 := fmul K (px P) (py P)).
  set (w := fmul K u1 (fsq K u2)).
  assert (Eu1 : F u1 = fm (fm L L) (fm (fa f1 y) (fs f1 y))) by (unfold u1; rewrite F_fmul, F_fadd, F_fsub, EY; fold L; ring).
  assert (Eu2 : F u2 = fm (fm L L) (fm x y)) by (unfold u2; rewrite F_fmul, EX, EY; fold L; ring).
  assert (L3 : fm (fm L L) L <> f0) by (repeat apply E_mul_nz; exact Hz).
  assert (Ew : F w = fm (fm (fm (fm L L) L) (fm (fm L L) L)) (W1 x y)) by (unfold w, fsq, W1; rewrite !F_fmul, Eu1, Eu2; ring).
  (* the inverse square root exists for this representation too *)
  set (r0 := zv fp (fd r (fm (fm L L) L))).
  assert (Fr0 : F r0 = fd r (fm (fm L L) L)) by (unfold r0, F; apply (of_Z_zv fp fp_prime)).
  assert (Q0 : fm (fm (F r0) (F r0)) (F w) = f1).
  { rewrite Fr0, Ew. rewrite <- Hr. field. exact Hz. }
  assert (Wn : F w <> f0) by (intro Z; apply (F_1_neq_0 Fth); rewrite <- Q0, Z; ring).
  assert (Ws : fst (sqrt_ratio_m1 K 1 w) = true).
  { apply (sqrt_ratio_complete K 1 w r0); [split; [lia|reflexivity] | exact Wn |]. rewrite F_1. symmetry. exact Q0. }
  pose proof (sqrt_ratio_ok K 1 w Ws) as SQc. rewrite F_1 in SQc.
  destruct (sqrt_ratio_m1 K 1 w) as [ws I]. cbn [fst snd] in Ws, SQc.
  set (den1 := fmul K I u1). set (den2 := fmul K I u2).
  set (zinv := fmul K (fmul K den1 den2) (pt P)).
  assert (Zi : fm (F zinv) L = f1).
  { transitivity (fm (F w) (fm (F I) (F I))); [|exact SQc].
    unfold zinv, den1, den2. rewrite !F_fmul, Eu1, Eu2, ET, Ew. fold L. unfold W1. ring. }
  (* rotate *)
  assert (Rt : fmul K (pt P) zinv = zv fp (fm x y)).
  { rewrite fmul_zv. f_equal. rewrite ET. fold L. transitivity (fm (fm x y) (fm (F zinv) L)); [ring|]. rewrite Zi. ring. }
  assert (Erot : fis_neg (fmul K (pt P) zinv) = rotF x y) by (unfold fis_neg, rotF; now rewrite Rt).
  rewrite Erot.
  set (xs := if rotF x y then fmul K (py P) sqrt_m1 else px P).
  assert (Exs : F xs = fm L (xsF x y)).
  { unfold xs, xsF. destruct (rotF x y); [rewrite F_fmul, EY; fold L iF; ring | rewrite EX; fold L; ring]. }
  assert (Rx : fmul K xs zinv = zv fp (xsF x y)).
  { rewrite fmul_zv. f_equal. rewrite Exs. transitivity (fm (xsF x y) (fm (F zinv) L)); [ring|]. rewrite Zi. ring. }
  assert (Eneg : fis_neg (fmul K xs zinv) = negF x y) by (unfold fis_neg, negF; now rewrite Rx).
  rewrite Eneg.
  set (ys0 := if rotF x y then fmul K (px P) sqrt_m1 else py P).
  set (ys := if negF x y then fneg K ys0 else ys0).
  assert (Eys : F ys = fm L (ysF x y)).
  { unfold ys, ys0, ysF. destruct (negF x y), (rotF x y); rewrite ?F_fneg, ?F_fmul, ?EX, ?EY; fold L iF; ring. }
  set (dinv := if rotF x y then fmul K den1 invsqrt_a_minus_d else den2).
  assert (Edinv : F dinv = fm (fm (F I) (fm L L)) (dF' x y)).
  { unfold dinv, dF', den1, den2. destruct (rotF x y); rewrite !F_fmul, ?Eu1, ?Eu2; fold kF; ring. }
  set (c := fmul K dinv (fsub K (pz P) ys)).
  exists (fabs K c).
  assert (Cc : c = zv fp (F c)) by (unfold c; apply fmul_canon).
  split; [reflexivity|]. split; [now apply fabs_canon|]. split; [now apply fabs_even|].
  rewrite F_fabs_sq. unfold c. rewrite F_fmul, F_fsub, Edinv, Eys. fold L.
  (* (I L^3)^2 W1 = 1 *)
  assert (K1 : fm (fm (fm (F I) (fm (fm L L) L)) (fm (F I) (fm (fm L L) L))) (W1 x y) = f1).
  { transitivity (fm (F w) (fm (F I) (F I))); [rewrite Ew; ring | exact SQc]. }
  transitivity (fm (fm (fm (fm (F I) (fm (fm L L) L)) (fm (F I) (fm (fm L L) L))) (W1 x y))
                   (fm (fm (dF' x y) (fs f1 (ysF x y))) (fm (dF' x y) (fs f1 (ysF x y))))); [ring|].
  rewrite K1. ring.
Qed.

Lemma W1_sq_nz x y : sq_ok (x, y) -> W1 x y <> f0.
Proof. intros (r & Hr) Z. apply (F_1_neq_0 Fth). rewrite <- Hr, Z. ring. Qed.

(* the degenerate points (W1 = 0: the 4-torsion) all encode to the zero string, whatever their representation *)
Lemma compress_degenerate K P : valid P -> (let '(x, y) := aff P in W1 x y = f0) -> compress K P = le_fixed 32 0.
Proof.
  intros V HW. pose proof (valid_coords P V) as VC. destruct V as (Hz & _ & _).
  destruct (aff P) as [x y]. destruct VC as (EX & EY & ET).
  set (L := F (pz P)) in *.
  unfold compress.
  set (u1 := fmul K (fadd K (pz P) (py P)) (fsub K (pz P) (py P))).
  set (u2 := fmul K (px P) (py P)).
  set (w := fmul K u1 (fsq K u2)).
  assert (Eu1 : F u1 = fm (fm L L) (fm (fa f1 y) (fs f1 y))) by (unfold u1; rewrite F_fmul, F_fadd, F_fsub, EY; fold L; ring).
  assert (Eu2 : F u2 = fm (fm L L) (fm x y)) by (unfold u2; rewrite F_fmul, EX, EY; fold L; ring).
  assert (Ew : F w = fm (fm (fm (fm L L) L) (fm (fm L L) L)) (W1 x y)) by (unfold w, fsq, W1; rewrite !F_fmul, Eu1, Eu2; ring).
  assert (w0 : w = 0) by (apply canon_zero; [unfold w; apply fmul_canon | rewrite Ew, HW; ring]).
  rewrite w0.
  (* SQRT_RATIO_M1(1, 0) returns 0 *)
  assert (I0 : snd (sqrt_ratio_m1 K 1 0) = 0).
  { destruct (sqrt_ratio_snd K 1 0) as [C _]. apply canon_zero; [exact C|].
    unfold sqrt_ratio_m1. cbn [snd].
    match goal with |- F (fabs K ?t) = _ => assert (T0 : F t = f0) end.
    { match goal with |- F (if ?c then _ else _) = _ => destruct c end; unfold fsq; rewrite !F_fmul, F_0; ring. }
    unfold fabs. destruct (fis_neg _); [rewrite F_fneg, T0; ring | exact T0]. }
  destruct (sqrt_ratio_m1 K 1 0) as [ws I]. cbn [snd] in I0. subst I.
  match goal with |- le_fixed 32 (fabs K (fmul K ?dinv ?rest)) = _ =>
    assert (Dz : F dinv = f0) end.
  { match goal with |- F (if ?c then _ else _) = _ => destruct c end; rewrite !F_fmul, F_0; ring. }
  match goal with |- le_fixed 32 (fabs K (fmul K ?dinv ?rest)) = _ =>
    assert (R0 : fmul K dinv rest = 0) by (apply canon_zero; [apply fmul_canon | rewrite F_fmul, Dz; ring]) end.
  rewrite R0. reflexivity.
Qed.

(* ENCODE depends only on the curve point *)
Theorem compress_aff K P Q : valid P -> valid Q -> aff P = aff Q ->
  (let '(x, y) := aff P in W1 x y = f0 \/ sq_ok (x, y)) -> compress K P = compress K Q.
Proof.
  intros VP VQ E H.
  pose proof (compress_spec K P VP) as SP. pose proof (compress_spec K Q VQ) as SQ.
  pose proof (compress_degenerate K P VP) as DP. pose proof (compress_degenerate K Q VQ) as DQ.
  rewrite <- E in SQ, DQ. destruct (aff P) as [x y].
  destruct H as [H0|Hs].
  - rewrite (DP H0), (DQ H0). reflexivity.
  - destruct (SP Hs) as (s1 & -> & C1 & E1 & Q1). destruct (SQ Hs) as (s2 & -> & C2 & E2 & Q2).
    f_equal. apply even_canon_unique; try assumption.
    apply (fm_cancel_r _ _ (W1 x y) (W1_sq_nz x y Hs)). rewrite Q1, Q2. reflexivity.
Qed.

Lemma sq_core (S X Y x0 : Fp) :
  fm (fm (fa f1 Y) (fs f1 Y)) (fm (fa f1 (fm S S)) (fa f1 (fm S S))) = fm (fm (fa f1 f1) (fa f1 f1)) (fm S S) ->
  fm x0 (fm (fm (fa f1 f1) S) (fm X Y)) = fa f1 (fm S S) ->
  fm (fm (fm x0 x0) (W1 X Y)) (fm (fm (fa f1 f1) (fa f1 f1)) (fm S S)) = fm f1 (fm (fm (fa f1 f1) (fa f1 f1)) (fm S S)).
Proof. intros L2 K1. unfold W1. nsatz. Qed.

(* everything DECODE returns is either degenerate (the neutral element) or has the encoder's inverse square root *)
Lemma decode_s_sq K s P : decode_s K s = Some P -> let '(x, y) := aff P in W1 x y = f0 \/ sq_ok (x, y).
Proof.
  unfold decode_s.
  set (u1 := fsub K 1 (fsq K s)). set (u2 := fadd K 1 (fsq K s)).
  set (v := fsub K (fneg K (fmul K ed_d (fsq K u1))) (fsq K u2)).
  pose proof (sqrt_ratio_ok K 1 (fmul K v (fsq K u2))) as SQ.
  destruct (sqrt_ratio_m1 K 1 (fmul K v (fsq K u2))) as [ws I]. cbn [fst snd] in SQ.
  set (x := fabs K (fmul K (fmul K 2 s) (fmul K I u2))).
  set (y := fmul K u1 (fmul K (fmul K I (fmul K I u2)) v)).
  destruct ws; cbn [negb orb]; [|discriminate].
  destruct (fis_neg (fmul K x y)) eqn:Et; cbn [orb]; [discriminate|].
  destruct (y =? 0) eqn:Ey0; [discriminate|].
  intro E. injection E as <-. specialize (SQ eq_refl).
  unfold aff. cbn [px py pz]. rewrite F_1.
  assert (D1 : forall X : Fp, fd X f1 = X) by (intro X0; field; exact (F_1_neq_0 Fth)). rewrite !D1.
  change (W1 (F x) (F y) = f0 \/ sq_ok (F x, F y)).
  assert (Cy : y = zv fp (F y)) by (unfold y; apply fmul_canon).
  assert (Ex2 : fm (F x) (F x) = fm (fm (fm (fa f1 f1) (F s)) (fm (F I) (F u2))) (fm (fm (fa f1 f1) (F s)) (fm (F I) (F u2)))).
  { unfold x. rewrite F_fabs_sq, !F_fmul, F_2. reflexivity. }
  assert (E1 : F u1 = fs f1 (fm (F s) (F s))) by (unfold u1, fsq; now rewrite F_fsub, F_fmul, F_1).
  assert (E2 : F u2 = fa f1 (fm (F s) (F s))) by (unfold u2, fsq; now rewrite F_fadd, F_fmul, F_1).
  assert (Ev : F v = fs (fo (fm dF (fm (F u1) (F u1)))) (fm (F u2) (F u2))).
  { unfold v, fsq. now rewrite F_fsub, F_fneg, !F_fmul. }
  assert (Ey : F y = fm (F u1) (fm (fm (F I) (fm (F I) (F u2))) (F v))) by (unfold y; now rewrite !F_fmul).
  assert (H : fm (fm (F v) (fm (F u2) (F u2))) (fm (F I) (F I)) = f1).
  { unfold fsq in SQ. rewrite !F_fmul, F_1 in SQ. exact SQ. }
  rewrite E1, E2 in Ev. rewrite Ev, E2 in H. rewrite E2 in Ex2. rewrite E1, E2, Ev in Ey.
  pose proof (alg_1mY2 (F s) (F I) (F x) (F y) H Ex2 Ey) as L2.
  assert (Yn : F y <> f0).
  { intro Z. apply Z.eqb_neq in Ey0. apply Ey0. now apply canon_zero. }
  destruct (F_dec (F s) f0) as [S0|Sn].
  - left. assert (Fx0 : F x = f0).
    { assert (Q : fm (F x) (F x) = f0) by (rewrite Ex2, S0; ring).
      destruct (zmul_eq0 fp fp_prime _ _ Q); assumption. }
    unfold W1. rewrite Fx0. ring.
  - right. pose proof (alg_X_nz (F s) (F I) (F x) H Ex2 Sn) as Xn.
    assert (Tn : fm (F x) (F y) <> f0) by (apply E_mul_nz; assumption).
    unfold sq_ok. exists (fd (fa f1 (fm (F s) (F s))) (fm (fm (fa f1 f1) (F s)) (fm (F x) (F y)))).
    set (x0F := fd (fa f1 (fm (F s) (F s))) (fm (fm (fa f1 f1) (F s)) (fm (F x) (F y)))).
    assert (D : fm (fm (fa f1 f1) (fa f1 f1)) (fm (F s) (F s)) <> f0) by (repeat apply E_mul_nz; assumption || exact two_nzF).
    apply (fm_cancel_r _ _ _ D).
    assert (K1 : fm x0F (fm (fm (fa f1 f1) (F s)) (fm (F x) (F y))) = fa f1 (fm (F s) (F s)))
      by (unfold x0F; field; split; [exact Yn | split; [exact Xn | split; [exact Sn | exact two_nzF]]]).
    exact (sq_core (F s) (F x) (F y) x0F L2 K1).
Qed.

Lemma decompress_sq K bs P : decompress K bs = Some P -> let '(x, y) := aff P in W1 x y = f0 \/ sq_ok (x, y).
Proof.
  unfold decompress. destruct (negb (length bs =? 32)%nat); [discriminate|].
  destruct ((le_int bs >=? fp) || Z.odd (le_int bs)); [discriminate|]. apply decode_s_sq.
Qed.

(* ---------------------------------------------------------------- the ristretto backend's API path, end to end *)
From Strand Require Import Model.Backend Model.Zkp.

Section Api.
  Variable K : Kernel.
  Variable PM : PMul.
  Notation B := (RB K PM).

  (* encode -> encrypt -> decrypt -> decode is the identity on every 30-byte plaintext for which encode succeeds,
     for every key and every randomness; and the decrypted element serialises to the very bytes of the encoded one *)
  Theorem rb_api_roundtrip data m sk r : bytes_ok data -> length data = 30%nat -> r_encode K data = Ok m ->
    exists d, decrypt B sk (encrypt_with_randomness B (pk_of_sk B sk) m r) = Ok d /\
              r_decode K d = data /\ b_ser_e B d = b_ser_e B m.
  Proof.
    intros Hd Ld Enc.
    destruct (r_encode_decode K data m Hd Ld Enc) as [Dm Vm].
    (* m was decoded from a candidate string *)
    assert (SQm : let '(x, y) := aff m in W1 x y = f0 \/ sq_ok (x, y)).
    { unfold r_encode in Enc.
      destruct (first_some _ (zseq 64)) as [Q|] eqn:E1; cbn [of_option_err] in Enc; [|discriminate].
      injection Enc as <-.
      destruct (first_some_spec _ _ _ E1) as (j & _ & E2). destruct (first_some_spec _ _ _ E2) as (i & _ & E3).
      exact (decompress_sq K _ _ E3). }
    destruct (rb_elgamal_roundtrip K PM sk r m Vm) as (d & Dd & Vd & Ad & _).
    exists d. split; [exact Dd|].
    assert (C : compress K d = compress K m).
    { apply compress_aff; [exact Vd | exact Vm | exact Ad | rewrite Ad; exact SQm]. }
    split; [|exact C].
    unfold r_decode. rewrite C. exact Dm.
  Qed.
End Api.
