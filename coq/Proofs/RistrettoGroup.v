(* Proofs/RistrettoGroup.v — the Edwards-curve arithmetic of the executable ristretto255 model
   (Model/Ristretto.v: extended coordinates over GF(2^255-19), unified addition, negation, double-and-add)
   IS the group law of the curve  -x^2 + y^2 = 1 + d x^2 y^2 :  every operation maps valid points to valid
   points and commutes with the affine group law proved in Base/Edwards.v. Nothing is assumed: 2^255-19 is
   prime (Proofs/PrimeCerts.v), d is a non-residue (Euler's criterion, evaluated by the kernel), sqrt(-1)
   squares to -1, and the base point has order dividing l (kernel evaluation of [l]B).
   On top of it: ElGamal round trip, homomorphic product, Schnorr / Chaum-Pedersen completeness for the
   ristretto backend record RB of Model/RBackend.v, with results compared by the backend's own equality
   (RFC 9496 4.3.3), without any group-law hypothesis. *)
From Coq Require Import ZArith Znumtheory Zpow_facts Lia List Bool Ring Field.
From Strand Require Import Base.ZUtil Base.ZpField Base.Edwards Model.Outcome Model.Codec Model.Backend Model.Zkp
  Model.Ristretto Model.RistrettoFast Model.RBackend Proofs.PrimeCerts.
Import ListNotations.
Open Scope Z_scope.

(* ---------------------------------------------------------------- the field GF(2^255-19) *)
Definition Fp : Type := Zp fp.
Definition F (a : Z) : Fp := of_Z fp a.
Definition f0 : Fp := z0 fp.
Definition f1 : Fp := z1 fp.
Definition fa : Fp -> Fp -> Fp := zadd fp.
Definition fm : Fp -> Fp -> Fp := zmul fp.
Definition fs : Fp -> Fp -> Fp := zsub fp.
Definition fo : Fp -> Fp := zopp fp.
Definition fd : Fp -> Fp -> Fp := zdiv fp.
Definition fi : Fp -> Fp := zinv fp.

Lemma Fth : field_theory f0 f1 fa fm fs fo fd fi (@eq Fp).
Proof. exact (Zp_field fp fp_prime). Qed.
Add Field FpField : Fth.

Definition F_dec : forall a b : Fp, {a = b} + {a <> b} := Zp_eq_dec fp.

Definition dF : Fp := F ed_d.
Definition iF : Fp := F sqrt_m1.

Definition half_fp : Z := Eval vm_compute in (fp - 1) / 2.

Lemma fp_gt2 : 2 < fp.  Proof. reflexivity. Qed.

Lemma dF_nonsquare : forall x : Fp, fm x x <> dF.
Proof.
  apply (nonsquare_by_euler fp fp_prime ed_d half_fp).
  - reflexivity.
  - discriminate.
  - vm_compute. discriminate.
  - assert (E : powm ed_d half_fp fp = fp - 1) by (vm_compute; reflexivity).
    rewrite powm_spec in E by discriminate. rewrite E. discriminate.
Qed.

Lemma iF_sq : fm iF iF = fo f1.
Proof. apply Zp_eq. vm_compute. reflexivity. Qed.

Lemma two_nzF : fa f1 f1 <> f0.
Proof. intro H. apply (f_equal (zv fp)) in H. vm_compute in H. discriminate. Qed.

(* the reduction Z -> GF(p) commutes with the model's field operations, for every arithmetic kernel *)
Lemma fneg_K K a : fneg K a = fneg K_ref a.  Proof. unfold fneg. now rewrite (fmod_K K). Qed.

Lemma F_fmul K a b : F (fmul K a b) = fm (F a) (F b).
Proof. rewrite fmul_K. unfold fmul, fmod, F. cbn [k_mod k_mul K_ref]. rewrite (of_Z_mod fp fp_prime). apply of_Z_mul. Qed.
Lemma F_fadd K a b : F (fadd K a b) = fa (F a) (F b).
Proof. rewrite fadd_K. unfold fadd, fmod, F. cbn [k_mod K_ref]. rewrite (of_Z_mod fp fp_prime). apply of_Z_add. Qed.
Lemma F_fsub K a b : F (fsub K a b) = fs (F a) (F b).
Proof. rewrite fsub_K. unfold fsub, fmod, F. cbn [k_mod K_ref]. rewrite (of_Z_mod fp fp_prime). apply of_Z_sub. Qed.
Lemma F_fneg K a : F (fneg K a) = fo (F a).
Proof. rewrite fneg_K. unfold fneg, fmod, F. cbn [k_mod K_ref]. rewrite (of_Z_mod fp fp_prime). apply (of_Z_opp fp fp_prime). Qed.
Lemma F_0 : F 0 = f0.  Proof. reflexivity. Qed.
Lemma F_1 : F 1 = f1.  Proof. reflexivity. Qed.
Lemma F_2 : F 2 = fa f1 f1.  Proof. apply Zp_eq. vm_compute. reflexivity. Qed.

(* canonical results: the integer a field operation returns is the value of its image in GF(p) *)
Lemma fmul_zv K a b : fmul K a b = zv fp (fm (F a) (F b)).
Proof. rewrite <- (F_fmul K). unfold F. rewrite zv_of_Z. rewrite fmul_K. unfold fmul, fmod. cbn [k_mod k_mul K_ref].
  symmetry. apply Z.mod_mod. discriminate. Qed.

(* ---------------------------------------------------------------- instantiating the abstract group law *)
Notation onc := (onc Fp f1 fa fm fs dF).
Notation eid := (eid Fp f0 f1).
Notation eneg := (eneg Fp fo).
Notation eadd := (eadd Fp f1 fa fm fs fd dF).
Notation nmul := (nmul Fp f0 f1 fa fm fs fd dF).
Notation pmul := (pmul Fp f1 fa fm fs fd dF).

Definition E_assoc := eadd_assoc Fp f0 f1 fa fm fs fo fd fi Fth F_dec dF iF dF_nonsquare iF_sq two_nzF.
Definition E_comm := eadd_comm Fp f0 f1 fa fm fs fo fd fi Fth dF.
Definition E_onc := eadd_onc Fp f0 f1 fa fm fs fo fd fi Fth F_dec dF iF dF_nonsquare iF_sq two_nzF.
Definition E_id_l := eadd_id_l Fp f0 f1 fa fm fs fo fd fi Fth dF.
Definition E_id_r := eadd_id_r Fp f0 f1 fa fm fs fo fd fi Fth dF.
Definition E_neg_r := eadd_neg_r Fp f0 f1 fa fm fs fo fd fi Fth F_dec dF iF dF_nonsquare iF_sq two_nzF.
Definition E_onc_neg := onc_eneg Fp f0 f1 fa fm fs fo fd fi Fth F_dec dF iF iF_sq.
Definition E_onc_id := onc_eid Fp f0 f1 fa fm fs fo fd fi Fth dF.
Definition E_den_p := den_plus_nz Fp f0 f1 fa fm fs fo fd fi Fth F_dec dF iF dF_nonsquare iF_sq two_nzF.
Definition E_den_m := den_minus_nz Fp f0 f1 fa fm fs fo fd fi Fth F_dec dF iF dF_nonsquare iF_sq two_nzF.
Definition E_mul_nz := mul_nz Fp f0 f1 fa fm fs fo fd fi Fth F_dec.
Definition E_nmul_onc := nmul_onc Fp f0 f1 fa fm fs fo fd fi Fth F_dec dF iF dF_nonsquare iF_sq two_nzF.
Definition E_nmul_add := nmul_add Fp f0 f1 fa fm fs fo fd fi Fth F_dec dF iF dF_nonsquare iF_sq two_nzF.
Definition E_nmul_mul := nmul_mul Fp f0 f1 fa fm fs fo fd fi Fth F_dec dF iF dF_nonsquare iF_sq two_nzF.
Definition E_nmul_eadd := nmul_eadd Fp f0 f1 fa fm fs fo fd fi Fth F_dec dF iF dF_nonsquare iF_sq two_nzF.
Definition E_nmul_eneg := nmul_eneg Fp f0 f1 fa fm fs fo fd fi Fth F_dec dF iF dF_nonsquare iF_sq two_nzF.
Definition E_nmul_eid := nmul_eid Fp f0 f1 fa fm fs fo fd fi Fth dF.
Definition E_pmul_nmul := pmul_nmul Fp f0 f1 fa fm fs fo fd fi Fth F_dec dF iF dF_nonsquare iF_sq two_nzF.
Definition E_cancel_r := eadd_cancel_r Fp f0 f1 fa fm fs fo fd fi Fth F_dec dF iF dF_nonsquare iF_sq two_nzF.

(* ---------------------------------------------------------------- points: validity and the affine image *)
Declare Scope Fp_scope.
Delimit Scope Fp_scope with Fp.
Infix "+" := fa : Fp_scope.
Infix "*" := fm : Fp_scope.
Infix "-" := fs : Fp_scope.
Infix "/" := fd : Fp_scope.
Notation "- x" := (fo x) : Fp_scope.

Definition aff (P : point) : Fp * Fp := (fd (F (px P)) (F (pz P)), fd (F (py P)) (F (pz P))).

(* a valid extended point: Z <> 0, (X/Z, Y/Z) on the curve, T Z = X Y *)
Definition valid (P : point) : Prop :=
  F (pz P) <> f0 /\ onc (aff P) /\ fm (F (pt P)) (F (pz P)) = fm (F (px P)) (F (py P)).

Lemma div_eq2 (u v u' v' : Fp) : v <> f0 -> v' <> f0 -> fm u v' = fm u' v -> fd u v = fd u' v'.
Proof. intros Hv Hv' E. field_simplify_eq; [|split; assumption]. rewrite E. ring. Qed.

Lemma fm_cancel_r (a b c : Fp) : c <> f0 -> fm a c = fm b c -> a = b.
Proof.
  intros Hc E. assert (a = fd (fm a c) c) as -> by (field; exact Hc). rewrite E. field. exact Hc.
Qed.

(* coordinates of a valid point in terms of its affine image *)
Lemma valid_coords P : valid P ->
  let '(x, y) := aff P in
  F (px P) = fm x (F (pz P)) /\ F (py P) = fm y (F (pz P)) /\ F (pt P) = fm (fm x y) (F (pz P)).
Proof.
  intros (Hz & _ & Ht). unfold aff. split; [|split].
  - field. exact Hz.
  - field. exact Hz.
  - apply (fm_cancel_r _ _ (F (pz P)) Hz). rewrite Ht. field. exact Hz.
Qed.

Lemma valid_id : valid pt_id /\ aff pt_id = eid.
Proof.
  unfold valid, aff, pt_id. cbn [px py pz pt]. rewrite F_0, F_1.
  assert (N : f1 <> f0) by exact (F_1_neq_0 Fth).
  assert (A : (fd f0 f1, fd f1 f1) = eid) by (unfold Edwards.eid; f_equal; field; exact N).
  split; [|exact A]. split; [exact N|]. split.
  - rewrite A. exact E_onc_id.
  - ring.
Qed.

Ltac pushF := repeat first [rewrite F_fmul | rewrite F_fsub | rewrite F_fadd | rewrite F_fneg].

Theorem pt_add_correct K P Q : valid P -> valid Q ->
  valid (pt_add K P Q) /\ aff (pt_add K P Q) = eadd (aff P) (aff Q).
Proof.
  intros VP VQ.
  pose proof (valid_coords P VP) as CP. pose proof (valid_coords Q VQ) as CQ.
  destruct VP as (Hz1 & C1 & _), VQ as (Hz2 & C2 & _).
  destruct (aff P) as [x1 y1] eqn:EP, (aff Q) as [x2 y2] eqn:EQ.
  destruct CP as (EX1 & EY1 & ET1), CQ as (EX2 & EY2 & ET2).
  pose proof (E_den_p _ _ _ _ C1 C2) as Dp. pose proof (E_den_m _ _ _ _ C1 C2) as Dm.
  assert (N2 : fa f1 f1 <> f0) by exact two_nzF.
  unfold Edwards.eadd.
  (* the four output coordinates as field expressions *)
  set (Z1 := F (pz P)) in *. set (Z2 := F (pz Q)) in *.
  set (e := (dF * x1 * x2 * y1 * y2)%Fp) in *.
  set (k := ((f1 + f1) * Z1 * Z2)%Fp).
  assert (Hk : k <> f0) by (unfold k; repeat apply E_mul_nz; assumption).
  assert (RX : F (px (pt_add K P Q)) = (k * (x1 * y2 + y1 * x2) * (k * (f1 - e)))%Fp).
  { unfold pt_add. cbn [px]. pushF. rewrite ?F_2.
    fold dF. rewrite EX1, EY1, ET1, EX2, EY2, ET2. unfold k, e, Z1, Z2. ring. }
  assert (RY : F (py (pt_add K P Q)) = (k * (f1 + e) * (k * (y1 * y2 + x1 * x2)))%Fp).
  { unfold pt_add. cbn [py]. pushF. rewrite ?F_2.
    fold dF. rewrite EX1, EY1, ET1, EX2, EY2, ET2. unfold k, e, Z1, Z2. ring. }
  assert (RZ : F (pz (pt_add K P Q)) = (k * (f1 - e) * (k * (f1 + e)))%Fp).
  { unfold pt_add. cbn [pz]. pushF. rewrite ?F_2.
    fold dF. rewrite ET1, ET2. unfold k, e, Z1, Z2. ring. }
  assert (RT : F (pt (pt_add K P Q)) = (k * (x1 * y2 + y1 * x2) * (k * (y1 * y2 + x1 * x2)))%Fp).
  { unfold pt_add. cbn [pt]. pushF. rewrite ?F_2.
    fold dF. rewrite EX1, EY1, EX2, EY2. unfold k, Z1, Z2. ring. }
  assert (HZ : F (pz (pt_add K P Q)) <> f0).
  { rewrite RZ. repeat apply E_mul_nz; assumption. }
  assert (A : aff (pt_add K P Q) = (fd (x1 * y2 + y1 * x2)%Fp (f1 + e)%Fp, fd (y1 * y2 + x1 * x2)%Fp (f1 - e)%Fp)).
  { unfold aff. f_equal.
    - apply div_eq2; [exact HZ | exact Dp | ]. rewrite RX, RZ. ring.
    - apply div_eq2; [exact HZ | exact Dm | ]. rewrite RY, RZ. ring. }
  split; [|exact A].
  split; [exact HZ|]. split.
  - rewrite A. exact (E_onc (x1, y1) (x2, y2) C1 C2).
  - rewrite RX, RY, RZ, RT. ring.
Qed.

Theorem pt_neg_correct K P : valid P -> valid (pt_neg K P) /\ aff (pt_neg K P) = eneg (aff P).
Proof.
  intros (Hz & C & Ht).
  assert (A : aff (pt_neg K P) = eneg (aff P)).
  { unfold aff, pt_neg, Edwards.eneg. cbn [px py pz pt]. rewrite F_fneg. f_equal. field. exact Hz. }
  split; [|exact A]. split; [exact Hz|]. split.
  - rewrite A. apply E_onc_neg. exact C.
  - unfold pt_neg. cbn [px py pz pt]. rewrite !F_fneg.
    transitivity (fo (fm (F (pt P)) (F (pz P)))); [ring|]. rewrite Ht. ring.
Qed.

Lemma pt_mul_pos_correct K e P : valid P ->
  valid (pt_mul_pos K e P) /\ aff (pt_mul_pos K e P) = pmul e (aff P).
Proof.
  intro V. induction e as [e [IV IA]|e [IV IA]|]; cbn [pt_mul_pos Edwards.pmul].
  - destruct (pt_add_correct K _ _ IV IV) as [V2 A2].
    destruct (pt_add_correct K _ _ V2 V) as [V3 A3].
    split; [exact V3|]. now rewrite A3, A2, IA.
  - destruct (pt_add_correct K _ _ IV IV) as [V2 A2].
    split; [exact V2|]. now rewrite A2, IA.
  - split; [exact V|reflexivity].
Qed.

Theorem pt_mul_correct K e P : valid P ->
  valid (pt_mul K e P) /\ aff (pt_mul K e P) = nmul (Z.to_nat e) (aff P).
Proof.
  intro V. destruct e as [|e|e]; cbn [pt_mul Z.to_nat].
  - exact valid_id.
  - destruct (pt_mul_pos_correct K e P V) as [V' A]. split; [exact V'|].
    rewrite A. apply E_pmul_nmul. apply V.
  - exact valid_id.
Qed.

(* equal affine images are equal in the sense of the backend's equality (RFC 9496 4.3.3) *)
Theorem pt_eqb_of_aff K P Q : valid P -> valid Q -> aff P = aff Q -> pt_eqb K P Q = true.
Proof.
  intros VP VQ E.
  pose proof (valid_coords P VP) as CP. pose proof (valid_coords Q VQ) as CQ.
  rewrite <- E in CQ. destruct (aff P) as [x y].
  destruct CP as (EX1 & EY1 & _), CQ as (EX2 & EY2 & _).
  unfold pt_eqb. apply orb_true_iff. left. apply Z.eqb_eq.
  rewrite !(fmul_zv K). f_equal. rewrite EX1, EY1, EX2, EY2. ring.
Qed.
