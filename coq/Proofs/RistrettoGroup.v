(* Proofs/RistrettoGroup.v — the Edwards-curve arithmetic of the executable ristretto255 model
   (Model/Ristretto.v: extended coordinates over GF(2^255-19), unified addition, negation, double-and-add)
   IS the group law of the curve  -x^2 + y^2 = 1 + d x^2 y^2 :  every operation maps valid points to valid
   points and commutes with the affine group law proved in Base/Edwards.v. Nothing is assumed: 2^255-19 is
   prime (Proofs/PrimeCerts.v), d is a non-residue (Euler's criterion, evaluated by the kernel), sqrt(-1)
   squares to -1, and the base point has order dividing l (kernel evaluation of [l]B).
   On top of it: ElGamal round trip, homomorphic product, Schnorr / Chaum-Pedersen completeness for the
   ristretto backend record RB of Model/RBackend.v, with results compared by the backend's own equality
   (RFC 9496 4.3.3), without any group-law hypothesis. *)
From Coq Require Import ZArith Znumtheory Zpow_facts Lia List Bool Ring Field.
From Strand Require Import Base.ZUtil Base.ZpField Base.Edwards Model.Outcome Model.Codec Model.Backend Model.Zkp
  Model.Ristretto Model.RistrettoFast Model.RBackend Proofs.PrimeCerts.
Import ListNotations.
Open Scope Z_scope.

(* ---------------------------------------------------------------- the field GF(2^255-19) *)
Definition Fp : Type := Zp fp.
Definition F (a : Z) : Fp := of_Z fp a.
Definition f0 : Fp := z0 fp.
Definition f1 : Fp := z1 fp.
Definition fa : Fp -> Fp -> Fp := zadd fp.
Definition fm : Fp -> Fp -> Fp := zmul fp.
Definition fs : Fp -> Fp -> Fp := zsub fp.
Definition fo : Fp -> Fp := zopp fp.
Definition fd : Fp -> Fp -> Fp := zdiv fp.
Definition fi : Fp -> Fp := zinv fp.

Lemma Fth : field_theory f0 f1 fa fm fs fo fd fi (@eq Fp).
Proof. exact (Zp_field fp fp_prime). Qed.
Add Field FpField : Fth.

Definition F_dec : forall a b : Fp, {a = b} + {a <> b} := Zp_eq_dec fp.

Definition dF : Fp := F ed_d.
Definition iF : Fp := F sqrt_m1.

Definition half_fp : Z := Eval vm_compute in (fp - 1) / 2.

Lemma fp_gt2 : 2 < fp.  Proof. reflexivity. Qed.

Lemma dF_nonsquare : forall x : Fp, fm x x <> dF.
Proof.
  apply (nonsquare_by_euler fp fp_prime ed_d half_fp).
  - reflexivity.
  - discriminate.
  - vm_compute. discriminate.
  - assert (E : powm ed_d half_fp fp = fp - 1) by (vm_compute; reflexivity).
    rewrite powm_spec in E by discriminate. rewrite E. discriminate.
Qed.

Lemma iF_sq : fm iF iF = fo f1.
Proof. apply Zp_eq. vm_compute. reflexivity. Qed.

Lemma two_nzF : fa f1 f1 <> f0.
Proof. intro H. apply (f_equal (zv fp)) in H. vm_compute in H. discriminate. Qed.

(* the reduction Z -> GF(p) commutes with the model's field operations, for every arithmetic kernel *)
Lemma fneg_K K a : fneg K a = fneg K_ref a.  Proof. unfold fneg. now rewrite (fmod_K K). Qed.

Lemma F_fmul K a b : F (fmul K a b) = fm (F a) (F b).
Proof. rewrite fmul_K. unfold fmul, fmod, F. cbn [k_mod k_mul K_ref]. rewrite (of_Z_mod fp fp_prime). apply of_Z_mul. Qed.
Lemma F_fadd K a b : F (fadd K a b) = fa (F a) (F b).
Proof. rewrite fadd_K. unfold fadd, fmod, F. cbn [k_mod K_ref]. rewrite (of_Z_mod fp fp_prime). apply of_Z_add. Qed.
Lemma F_fsub K a b : F (fsub K a b) = fs (F a) (F b).
Proof. rewrite fsub_K. unfold fsub, fmod, F. cbn [k_mod K_ref]. rewrite (of_Z_mod fp fp_prime). apply of_Z_sub. Qed.
Lemma F_fneg K a : F (fneg K a) = fo (F a).
Proof. rewrite fneg_K. unfold fneg, fmod, F. cbn [k_mod K_ref]. rewrite (of_Z_mod fp fp_prime). apply (of_Z_opp fp fp_prime). Qed.
Lemma F_0 : F 0 = f0.  Proof. reflexivity. Qed.
Lemma F_1 : F 1 = f1.  Proof. reflexivity. Qed.
Lemma F_2 : F 2 = fa f1 f1.  Proof. apply Zp_eq. vm_compute. reflexivity. Qed.

(* canonical results: the integer a field operation returns is the value of its image in GF(p) *)
Lemma fmul_zv K a b : fmul K a b = zv fp (fm (F a) (F b)).
Proof. rewrite <- (F_fmul K). unfold F. rewrite zv_of_Z. rewrite fmul_K. unfold fmul, fmod. cbn [k_mod k_mul K_ref].
  symmetry. apply Z.mod_mod. discriminate. Qed.

(* ---------------------------------------------------------------- instantiating the abstract group law *)
Notation onc := (onc Fp f1 fa fm fs dF).
Notation eid := (eid Fp f0 f1).
Notation eneg := (eneg Fp fo).
Notation eadd := (eadd Fp f1 fa fm fs fd dF).
Notation nmul := (nmul Fp f0 f1 fa fm fs fd dF).
Notation pmul := (pmul Fp f1 fa fm fs fd dF).

Definition E_assoc := eadd_assoc Fp f0 f1 fa fm fs fo fd fi Fth F_dec dF iF dF_nonsquare iF_sq two_nzF.
Definition E_comm := eadd_comm Fp f0 f1 fa fm fs fo fd fi Fth dF.
Definition E_onc := eadd_onc Fp f0 f1 fa fm fs fo fd fi Fth F_dec dF iF dF_nonsquare iF_sq two_nzF.
Definition E_id_l := eadd_id_l Fp f0 f1 fa fm fs fo fd fi Fth dF.
Definition E_id_r := eadd_id_r Fp f0 f1 fa fm fs fo fd fi Fth dF.
Definition E_neg_r := eadd_neg_r Fp f0 f1 fa fm fs fo fd fi Fth F_dec dF iF dF_nonsquare iF_sq two_nzF.
Definition E_onc_neg := onc_eneg Fp f0 f1 fa fm fs fo fd fi Fth F_dec dF iF iF_sq.
Definition E_onc_id := onc_eid Fp f0 f1 fa fm fs fo fd fi Fth dF.
Definition E_den_p := den_plus_nz Fp f0 f1 fa fm fs fo fd fi Fth F_dec dF iF dF_nonsquare iF_sq two_nzF.
Definition E_den_m := den_minus_nz Fp f0 f1 fa fm fs fo fd fi Fth F_dec dF iF dF_nonsquare iF_sq two_nzF.
Definition E_mul_nz := mul_nz Fp f0 f1 fa fm fs fo fd fi Fth F_dec.
Definition E_nmul_onc := nmul_onc Fp f0 f1 fa fm fs fo fd fi Fth F_dec dF iF dF_nonsquare iF_sq two_nzF.
Definition E_nmul_add := nmul_add Fp f0 f1 fa fm fs fo fd fi Fth F_dec dF iF dF_nonsquare iF_sq two_nzF.
Definition E_nmul_mul := nmul_mul Fp f0 f1 fa fm fs fo fd fi Fth F_dec dF iF dF_nonsquare iF_sq two_nzF.
Definition E_nmul_eadd := nmul_eadd Fp f0 f1 fa fm fs fo fd fi Fth F_dec dF iF dF_nonsquare iF_sq two_nzF.
Definition E_nmul_eneg := nmul_eneg Fp f0 f1 fa fm fs fo fd fi Fth F_dec dF iF dF_nonsquare iF_sq two_nzF.
Definition E_nmul_eid := nmul_eid Fp f0 f1 fa fm fs fo fd fi Fth dF.
Definition E_pmul_nmul := pmul_nmul Fp f0 f1 fa fm fs fo fd fi Fth F_dec dF iF dF_nonsquare iF_sq two_nzF.
Definition E_cancel_r := eadd_cancel_r Fp f0 f1 fa fm fs fo fd fi Fth F_dec dF iF dF_nonsquare iF_sq two_nzF.

(* ---------------------------------------------------------------- points: validity and the affine image *)
Declare Scope Fp_scope.
Delimit Scope Fp_scope with Fp.
Infix "+" := fa : Fp_scope.
Infix "*" := fm : Fp_scope.
Infix "-" := fs : Fp_scope.
Infix "/" := fd : Fp_scope.
Notation "- x" := (fo x) : Fp_scope.

Definition aff (P : point) : Fp * Fp := (fd (F (px P)) (F (pz P)), fd (F (py P)) (F (pz P))).

(* a valid extended point: Z <> 0, (X/Z, Y/Z) on the curve, T Z = X Y *)
Definition valid (P : point) : Prop :=
  F (pz P) <> f0 /\ onc (aff P) /\ fm (F (pt P)) (F (pz P)) = fm (F (px P)) (F (py P)).

Lemma div_eq2 (u v u' v' : Fp) : v <> f0 -> v' <> f0 -> fm u v' = fm u' v -> fd u v = fd u' v'.
Proof. intros Hv Hv' E. field_simplify_eq; [|split; assumption]. rewrite E. ring. Qed.

Lemma fm_cancel_r (a b c : Fp) : c <> f0 -> fm a c = fm b c -> a = b.
Proof.
  intros Hc E. assert (a = fd (fm a c) c) as -> by (field; exact Hc). rewrite E. field. exact Hc.
Qed.

(* coordinates of a valid point in terms of its affine image *)
Lemma valid_coords P : valid P ->
  let '(x, y) := aff P in
  F (px P) = fm x (F (pz P)) /\ F (py P) = fm y (F (pz P)) /\ F (pt P) = fm (fm x y) (F (pz P)).
Proof.
  intros (Hz & _ & Ht). unfold aff. split; [|split].
  - field. exact Hz.
  - field. exact Hz.
  - apply (fm_cancel_r _ _ (F (pz P)) Hz). rewrite Ht. field. exact Hz.
Qed.

Lemma valid_id : valid pt_id /\ aff pt_id = eid.
Proof.
  unfold valid, aff, pt_id. cbn [px py pz pt]. rewrite F_0, F_1.
  assert (N : f1 <> f0) by exact (F_1_neq_0 Fth).
  assert (A : (fd f0 f1, fd f1 f1) = eid) by (unfold Edwards.eid; f_equal; field; exact N).
  split; [|exact A]. split; [exact N|]. split.
  - rewrite A. exact E_onc_id.
  - ring.
Qed.

Ltac pushF := repeat first [rewrite F_fmul | rewrite F_fsub | rewrite F_fadd | rewrite F_fneg].

Theorem pt_add_correct K P Q : valid P -> valid Q ->
  valid (pt_add K P Q) /\ aff (pt_add K P Q) = eadd (aff P) (aff Q).
Proof.
  intros VP VQ.
  pose proof (valid_coords P VP) as CP. pose proof (valid_coords Q VQ) as CQ.
  destruct VP as (Hz1 & C1 & _), VQ as (Hz2 & C2 & _).
  destruct (aff P) as [x1 y1] eqn:EP, (aff Q) as [x2 y2] eqn:EQ.
  destruct CP as (EX1 & EY1 & ET1), CQ as (EX2 & EY2 & ET2).
  pose proof (E_den_p _ _ _ _ C1 C2) as Dp. pose proof (E_den_m _ _ _ _ C1 C2) as Dm.
  assert (N2 : fa f1 f1 <> f0) by exact two_nzF.
  unfold Edwards.eadd.
  (* the four output coordinates as field expressions *)
  set (Z1 := F (pz P)) in *. set (Z2 := F (pz Q)) in *.
  set (e := (dF * x1 * x2 * y1 * y2)%Fp) in *.
  set (k := ((f1 + f1) * Z1 * Z2)%Fp).
  assert (Hk : k <> f0) by (unfold k; repeat apply E_mul_nz; assumption).
  assert (RX : F (px (pt_add K P Q)) = (k * (x1 * y2 + y1 * x2) * (k * (f1 - e)))%Fp).
  { unfold pt_add. cbn [px]. pushF. rewrite ?F_2.
    fold dF. rewrite EX1, EY1, ET1, EX2, EY2, ET2. unfold k, e, Z1, Z2. ring. }
  assert (RY : F (py (pt_add K P Q)) = (k * (f1 + e) * (k * (y1 * y2 + x1 * x2)))%Fp).
  { unfold pt_add. cbn [py]. pushF. rewrite ?F_2.
    fold dF. rewrite EX1, EY1, ET1, EX2, EY2, ET2. unfold k, e, Z1, Z2. ring. }
  assert (RZ : F (pz (pt_add K P Q)) = (k * (f1 - e) * (k * (f1 + e)))%Fp).
  { unfold pt_add. cbn [pz]. pushF. rewrite ?F_2.
    fold dF. rewrite ET1, ET2. unfold k, e, Z1, Z2. ring. }
  assert (RT : F (pt (pt_add K P Q)) = (k * (x1 * y2 + y1 * x2) * (k * (y1 * y2 + x1 * x2)))%Fp).
  { unfold pt_add. cbn [pt]. pushF. rewrite ?F_2.
    fold dF. rewrite EX1, EY1, EX2, EY2. unfold k, Z1, Z2. ring. }
  assert (HZ : F (pz (pt_add K P Q)) <> f0).
  { rewrite RZ. repeat apply E_mul_nz; assumption. }
  assert (A : aff (pt_add K P Q) = (fd (x1 * y2 + y1 * x2)%Fp (f1 + e)%Fp, fd (y1 * y2 + x1 * x2)%Fp (f1 - e)%Fp)).
  { unfold aff. f_equal.
    - apply div_eq2; [exact HZ | exact Dp | ]. rewrite RX, RZ. ring.
    - apply div_eq2; [exact HZ | exact Dm | ]. rewrite RY, RZ. ring. }
  split; [|exact A].
  split; [exact HZ|]. split.
  - rewrite A. exact (E_onc (x1, y1) (x2, y2) C1 C2).
  - rewrite RX, RY, RZ, RT. ring.
Qed.

Theorem pt_neg_correct K P : valid P -> valid (pt_neg K P) /\ aff (pt_neg K P) = eneg (aff P).
Proof.
  intros (Hz & C & Ht).
  assert (A : aff (pt_neg K P) = eneg (aff P)).
  { unfold aff, pt_neg, Edwards.eneg. cbn [px py pz pt]. rewrite F_fneg. f_equal. field. exact Hz. }
  split; [|exact A]. split; [exact Hz|]. split.
  - rewrite A. apply E_onc_neg. exact C.
  - unfold pt_neg. cbn [px py pz pt]. rewrite !F_fneg.
    transitivity (fo (fm (F (pt P)) (F (pz P)))); [ring|]. rewrite Ht. ring.
Qed.

Lemma pt_mul_pos_correct K e P : valid P ->
  valid (pt_mul_pos K e P) /\ aff (pt_mul_pos K e P) = pmul e (aff P).
Proof.
  intro V. induction e as [e [IV IA]|e [IV IA]|]; cbn [pt_mul_pos Edwards.pmul].
  - destruct (pt_add_correct K _ _ IV IV) as [V2 A2].
    destruct (pt_add_correct K _ _ V2 V) as [V3 A3].
    split; [exact V3|]. now rewrite A3, A2, IA.
  - destruct (pt_add_correct K _ _ IV IV) as [V2 A2].
    split; [exact V2|]. now rewrite A2, IA.
  - split; [exact V|reflexivity].
Qed.

Theorem pt_mul_correct K e P : valid P ->
  valid (pt_mul K e P) /\ aff (pt_mul K e P) = nmul (Z.to_nat e) (aff P).
Proof.
  intro V. destruct e as [|e|e]; cbn [pt_mul Z.to_nat].
  - exact valid_id.
  - destruct (pt_mul_pos_correct K e P V) as [V' A]. split; [exact V'|].
    rewrite A. apply E_pmul_nmul. apply V.
  - exact valid_id.
Qed.

(* equal affine images are equal in the sense of the backend's equality (RFC 9496 4.3.3) *)
Theorem pt_eqb_of_aff K P Q : valid P -> valid Q -> aff P = aff Q -> pt_eqb K P Q = true.
Proof.
  intros VP VQ E.
  pose proof (valid_coords P VP) as CP. pose proof (valid_coords Q VQ) as CQ.
  rewrite <- E in CQ. destruct (aff P) as [x y].
  destruct CP as (EX1 & EY1 & _), CQ as (EX2 & EY2 & _).
  unfold pt_eqb. apply orb_true_iff. left. apply Z.eqb_eq.
  rewrite !(fmul_zv K). f_equal. rewrite EX1, EY1, EX2, EY2. ring.
Qed.

(* ... and conversely: the backend's equality holds EXACTLY when the two curve points differ by one of the four
   4-torsion points (0, +-1), (+-i, 0) — RFC 9496 equality is equality modulo that subgroup *)
Definition tors4F := tors4 Fp f0 f1 fo iF.
Definition E_cross := cross_eq_iff_tors4 Fp f0 f1 fa fm fs fo fd fi Fth F_dec dF iF dF_nonsquare iF_sq two_nzF.

Theorem pt_eqb_iff K P Q : valid P -> valid Q ->
  (pt_eqb K P Q = true <-> tors4F (eadd (aff P) (eneg (aff Q)))).
Proof.
  intros VP VQ.
  pose proof (valid_coords P VP) as CP. pose proof (valid_coords Q VQ) as CQ.
  destruct VP as (Hz1 & C1 & _), VQ as (Hz2 & C2 & _).
  destruct (aff P) as [x1 y1] eqn:EP, (aff Q) as [x2 y2] eqn:EQ.
  destruct CP as (EX1 & EY1 & _), CQ as (EX2 & EY2 & _).
  rewrite <- (E_cross x1 y1 x2 y2 C1 C2).
  assert (Hzz : fm (F (pz P)) (F (pz Q)) <> f0) by (apply E_mul_nz; assumption).
  unfold pt_eqb. rewrite orb_true_iff, !Z.eqb_eq, !(fmul_zv K).
  rewrite EX1, EY1, EX2, EY2.
  split.
  - intros [H|H]; apply (Zp_eq fp) in H; [left|right]; apply (fm_cancel_r _ _ (fm (F (pz P)) (F (pz Q))) Hzz).
    + transitivity (fm (fm x1 (F (pz P))) (fm y2 (F (pz Q)))); [ring|]. rewrite H. ring.
    + transitivity (fm (fm y1 (F (pz P))) (fm y2 (F (pz Q)))); [ring|]. rewrite H. ring.
  - intros [H|H]; [left|right]; f_equal.
    + transitivity (fm (fm x1 y2) (fm (F (pz P)) (F (pz Q)))); [ring|]. rewrite H. ring.
    + transitivity (fm (fm y1 y2) (fm (F (pz P)) (F (pz Q)))); [ring|]. rewrite H. ring.
Qed.

(* ---------------------------------------------------------------- the base point *)
Lemma valid_base K : valid (pt_base K).
Proof.
  unfold valid, aff, pt_base. cbn [px py pz pt]. rewrite F_1, F_fmul.
  assert (N : f1 <> f0) by exact (F_1_neq_0 Fth).
  split; [exact N|]. split; [|ring].
  assert (Ex : fd (F base_x) f1 = F base_x) by (field; exact N).
  assert (Ey : fd (F base_y) f1 = F base_y) by (field; exact N).
  rewrite Ex, Ey. unfold Edwards.onc, dF, fs, fm, fa, f1, F.
  change (z1 fp) with (of_Z fp 1). rewrite <- !of_Z_mul, <- of_Z_sub, <- of_Z_add.
  apply of_Z_eq. vm_compute. reflexivity.
Qed.

(* [l]B is the neutral element: kernel evaluation of the model's own double-and-add on the reference kernel *)
Lemma ell_base_coords :
  exists R, pt_mul K_ref ell (pt_base K_ref) = R /\ px R = 0 /\ py R = pz R.
Proof. eexists. split; [vm_compute; reflexivity|]. split; reflexivity. Qed.

(* the group order as a natural number; a NOTATION, so that no conversion test ever has to unfold a constant
   against [Z.to_nat ell] (which would evaluate a 252-bit unary number) *)
Notation Ln := (Z.to_nat ell).

Lemma base_order K : nmul Ln (aff (pt_base K)) = eid.
Proof.
  assert (EB : pt_base K = pt_base K_ref) by (unfold pt_base; now rewrite fmul_K).
  rewrite EB. destruct (pt_mul_correct K_ref ell _ (valid_base K_ref)) as [V A].
  rewrite <- A.
  destruct ell_base_coords as (R & ER & Hx & Hy). rewrite ER in V |- *. clear ER A.
  destruct V as (Hz & _ & _).
  unfold aff. rewrite Hx, Hy, F_0. unfold Edwards.eid.
  apply f_equal2; field; exact Hz.
Qed.

(* multiples only depend on the multiplier modulo the order *)
Lemma nmul_mod A (a : nat) : onc A -> nmul Ln A = eid -> nmul (a mod Ln) A = nmul a A.
Proof.
  intros C H. assert (Ln <> 0)%nat by (intro E; apply (f_equal Z.of_nat) in E; rewrite Z2Nat.id in E; discriminate).
  rewrite (Nat.div_mod a Ln) at 2 by assumption.
  rewrite (E_nmul_add _ _ _ C). rewrite Nat.mul_comm. rewrite (E_nmul_mul _ _ _ C). rewrite H, E_nmul_eid.
  now rewrite E_id_l.
Qed.

Lemma nmul_congr A (a b : Z) : onc A -> nmul Ln A = eid -> 0 <= a -> 0 <= b -> a mod ell = b mod ell ->
  nmul (Z.to_nat a) A = nmul (Z.to_nat b) A.
Proof.
  intros C H Ha Hb E.
  rewrite <- (nmul_mod A (Z.to_nat a) C H), <- (nmul_mod A (Z.to_nat b) C H).
  f_equal. apply Nat2Z.inj. rewrite !Nat2Z.inj_mod, !Z2Nat.id by (try assumption; discriminate). exact E.
Qed.

(* ---------------------------------------------------------------- the ristretto backend record *)
Section RBTheorems.
  Variable K : Kernel.
  Variable PM : PMul.
  Notation B := (RB K PM).

  Lemma rb_pow a x : b_pow B a x = pt_mul K x a.
  Proof. cbn. rewrite pm_ok. symmetry. apply pt_mul_K. Qed.

  Lemma rb_pow_correct a x : valid a -> valid (b_pow B a x) /\ aff (b_pow B a x) = nmul (Z.to_nat x) (aff a).
  Proof. intro V. rewrite rb_pow. now apply pt_mul_correct. Qed.

  Lemma rb_gen_valid : valid (b_gen B).  Proof. exact (valid_base K). Qed.

  (* ElGamal: decryption inverts encryption for EVERY secret key, message point and randomness *)
  Theorem rb_elgamal_roundtrip sk r m : valid m ->
    exists d, decrypt B sk (encrypt_with_randomness B (pk_of_sk B sk) m r) = Ok d /\
              valid d /\ aff d = aff m /\ b_eqb B d m = true.
  Proof.
    intro Vm.
    unfold decrypt, encrypt_with_randomness, pk_of_sk, b_gpow, b_divp. cbn [mhr gr].
    cbn [b_invp b_modp b_mul RB bind].
    destruct (rb_pow_correct (b_gen B) sk rb_gen_valid) as [Vpk Apk].
    destruct (rb_pow_correct _ r Vpk) as [Vh Ah].
    destruct (rb_pow_correct (b_gen B) r rb_gen_valid) as [Vgr Agr].
    destruct (rb_pow_correct _ sk Vgr) as [Vf Af].
    destruct (pt_add_correct K _ _ Vm Vh) as [Vc Ac].
    destruct (pt_neg_correct K _ Vf) as [Vn An].
    destruct (pt_add_correct K _ _ Vc Vn) as [Vd Ad].
    eexists. split; [reflexivity|].
    assert (A : aff (pt_add K (pt_add K m (b_pow B (b_pow B (b_gen B) sk) r)) (pt_neg K (b_pow B (b_pow B (b_gen B) r) sk))) = aff m).
    { rewrite Ad, Ac, An, Ah, Af, Apk, Agr.
      set (G := aff (b_gen B)). assert (CG : onc G) by apply rb_gen_valid.
      rewrite <- !(E_nmul_mul _ _ _ CG). rewrite (Nat.mul_comm (Z.to_nat sk)).
      apply E_cancel_r; [apply Vm | now apply E_nmul_onc]. }
    split; [exact Vd|]. split; [exact A|].
    apply pt_eqb_of_aff; assumption.
  Qed.

  (* homomorphic product *)
  Theorem rb_ct_mul_aff (c1 c2 : ctext B) : valid (mhr c1) -> valid (mhr c2) -> valid (gr c1) -> valid (gr c2) ->
    aff (mhr (ct_mul B c1 c2)) = eadd (aff (mhr c1)) (aff (mhr c2)) /\
    aff (gr (ct_mul B c1 c2)) = eadd (aff (gr c1)) (aff (gr c2)).
  Proof.
    intros V1 V2 V3 V4. unfold ct_mul, b_mulp. cbn [mhr gr b_modp b_mul RB]. split.
    - apply (pt_add_correct K _ _ V1 V2).
    - apply (pt_add_correct K _ _ V3 V4).
  Qed.

  Lemma rb_hash_nonneg bs : 0 <= b_hash_to_exp B bs < ell.
  Proof.
    cbn. unfold r_hash_to_exp, sc_from_bytes_mod_order, smod. rewrite k_mod_ok. apply Z.mod_pos_bound. reflexivity.
  Qed.

  (* the response s = (r + c x mod l) mod l acts on a point of order dividing l like r + c x *)
  Lemma rb_response A c x r : onc A -> nmul Ln A = eid -> 0 <= c -> 0 <= x -> 0 <= r ->
    nmul (Z.to_nat (b_xmodq B (b_xadd B r (b_xmul B c x)))) A =
    eadd (nmul (Z.to_nat r) A) (nmul (Z.to_nat c) (nmul (Z.to_nat x) A)).
  Proof.
    intros C H Hc Hx Hr. cbn [b_xmodq b_xadd b_xmul RB]. unfold sc_add, sc_mul, smod. rewrite !k_mod_ok, k_mul_ok.
    rewrite <- (E_nmul_mul _ _ _ C), <- (E_nmul_add _ _ _ C).
    rewrite <- Z2Nat.inj_mul, <- Z2Nat.inj_add by nia.
    apply nmul_congr; try assumption.
    - apply Z.mod_pos_bound. reflexivity.
    - nia.
    - rewrite Z.mod_mod by discriminate. rewrite Zplus_mod_idemp_r. reflexivity.
  Qed.

  (* Schnorr completeness, explicit base of order dividing l (every secret, nonce, label) *)
  Theorem rb_schnorr_complete g x r label : valid g -> nmul Ln (aff g) = eid -> 0 <= x -> 0 <= r ->
    schnorr_verify B (b_pow B g x) (Some g) (schnorr_prove B x (b_pow B g x) (Some g) label r) label = true.
  Proof.
    intros Vg Hg Hx Hr.
    unfold schnorr_verify, schnorr_prove, schnorr_verify_private, schnorr_prove_private, base_or_gen.
    cbn [s_com s_chal s_resp]. rewrite Z.eqb_refl. cbn [andb].
    set (c := schnorr_challenge B g (b_pow B g x) (b_pow B g r) (ctx_label label)).
    assert (Hc : 0 <= c) by (unfold c, schnorr_challenge; apply rb_hash_nonneg).
    destruct (rb_pow_correct g x Vg) as [Vy Ay]. destruct (rb_pow_correct g r Vg) as [Vt At].
    destruct (rb_pow_correct _ c Vy) as [Vyc Ayc].
    destruct (rb_pow_correct g (b_xmodq B (b_xadd B r (b_xmul B c x))) Vg) as [Vl Al].
    cbn [b_modp b_mul RB]. destruct (pt_add_correct K _ _ Vt Vyc) as [Vr Ar].
    change (b_eqb B) with (pt_eqb K). apply pt_eqb_of_aff; [exact Vl|exact Vr|].
    rewrite Al, Ar, At, Ayc, Ay. apply rb_response; try assumption. apply Vg.
  Qed.

  (* ... and with the default generator *)
  Theorem rb_schnorr_complete_default x r label : 0 <= x -> 0 <= r ->
    schnorr_verify B (b_gpow B x) None (schnorr_prove B x (b_gpow B x) None label r) label = true.
  Proof.
    intros Hx Hr. pose proof (rb_schnorr_complete (b_gen B) x r label rb_gen_valid (base_order K) Hx Hr) as H.
    exact H.
  Qed.

  (* Chaum-Pedersen completeness for two bases of order dividing l *)
  Theorem rb_cp_complete g1 g2 x r label : valid g1 -> valid g2 ->
    nmul Ln (aff g1) = eid -> nmul Ln (aff g2) = eid -> 0 <= x -> 0 <= r ->
    cp_verify B (b_pow B g1 x) (b_pow B g2 x) (Some g1) g2
              (cp_prove B x (b_pow B g1 x) (b_pow B g2 x) (Some g1) g2 label r) label = true.
  Proof.
    intros V1 V2 H1 H2 Hx Hr.
    unfold cp_verify, cp_prove, cp_verify_private, cp_prove_private, base_or_gen.
    cbn [c_com1 c_com2 c_chal c_resp]. rewrite Z.eqb_refl. cbn [andb].
    set (c := cp_challenge B g1 g2 (b_pow B g1 x) (b_pow B g2 x) (b_pow B g1 r) (b_pow B g2 r) (ctx_label label)).
    assert (Hc : 0 <= c) by (unfold c, cp_challenge; apply rb_hash_nonneg).
    cbn [b_modp b_mul RB]. change (b_eqb B) with (pt_eqb K).
    apply andb_true_iff. split.
    - destruct (rb_pow_correct g1 x V1) as [Vy Ay]. destruct (rb_pow_correct g1 r V1) as [Vt At].
      destruct (rb_pow_correct _ c Vy) as [Vyc Ayc].
      destruct (rb_pow_correct g1 (b_xmodq B (b_xadd B r (b_xmul B c x))) V1) as [Vl Al].
      destruct (pt_add_correct K _ _ Vt Vyc) as [Vr Ar].
      apply pt_eqb_of_aff; [exact Vl|exact Vr|].
      rewrite Al, Ar, At, Ayc, Ay. apply rb_response; try assumption. apply V1.
    - destruct (rb_pow_correct g2 x V2) as [Vy Ay]. destruct (rb_pow_correct g2 r V2) as [Vt At].
      destruct (rb_pow_correct _ c Vy) as [Vyc Ayc].
      destruct (rb_pow_correct g2 (b_xmodq B (b_xadd B r (b_xmul B c x))) V2) as [Vl Al].
      destruct (pt_add_correct K _ _ Vt Vyc) as [Vr Ar].
      apply pt_eqb_of_aff; [exact Vl|exact Vr|].
      rewrite Al, Ar, At, Ayc, Ay. apply rb_response; try assumption. apply V2.
  Qed.

  (* the private form used by the ciphertext-bound proofs: any challenge context, default or explicit first base *)
  Theorem rb_cp_complete_private (g1 : option point) g2 x r context :
    valid (base_or_gen B g1) -> valid g2 ->
    nmul Ln (aff (base_or_gen B g1)) = eid -> nmul Ln (aff g2) = eid -> 0 <= x -> 0 <= r ->
    cp_verify_private B (b_pow B (base_or_gen B g1) x) (b_pow B g2 x) g1 g2
      (cp_prove_private B x (b_pow B (base_or_gen B g1) x) (b_pow B g2 x) g1 g2 context r) context = true.
  Proof.
    intros V1 V2 H1 H2 Hx Hr. set (b1 := base_or_gen B g1) in *.
    unfold cp_verify_private, cp_prove_private. fold b1.
    cbn [c_com1 c_com2 c_chal c_resp]. rewrite Z.eqb_refl. cbn [andb].
    set (c := cp_challenge B b1 g2 (b_pow B b1 x) (b_pow B g2 x) (b_pow B b1 r) (b_pow B g2 r) context).
    assert (Hc : 0 <= c) by (unfold c, cp_challenge; apply rb_hash_nonneg).
    cbn [b_modp b_mul RB]. change (b_eqb B) with (pt_eqb K).
    apply andb_true_iff. split.
    - destruct (rb_pow_correct b1 x V1) as [Vy Ay]. destruct (rb_pow_correct b1 r V1) as [Vt At].
      destruct (rb_pow_correct _ c Vy) as [Vyc Ayc].
      destruct (rb_pow_correct b1 (b_xmodq B (b_xadd B r (b_xmul B c x))) V1) as [Vl Al].
      destruct (pt_add_correct K _ _ Vt Vyc) as [Vr Ar].
      apply pt_eqb_of_aff; [exact Vl|exact Vr|].
      rewrite Al, Ar, At, Ayc, Ay. apply rb_response; try assumption. apply V1.
    - destruct (rb_pow_correct g2 x V2) as [Vy Ay]. destruct (rb_pow_correct g2 r V2) as [Vt At].
      destruct (rb_pow_correct _ c Vy) as [Vyc Ayc].
      destruct (rb_pow_correct g2 (b_xmodq B (b_xadd B r (b_xmul B c x))) V2) as [Vl Al].
      destruct (pt_add_correct K _ _ Vt Vyc) as [Vr Ar].
      apply pt_eqb_of_aff; [exact Vl|exact Vr|].
      rewrite Al, Ar, At, Ayc, Ay. apply rb_response; try assumption. apply V2.
  Qed.

  (* verifiable decryption, completeness: the factor and proof released by the key holder verify against the holder's
     public key and the ciphertext, and the returned plaintext is mhr - [sk]gr, for every key, nonce, label and every
     ciphertext whose second component has order dividing l (every honestly made ciphertext: gr = [r]B) *)
  Theorem rb_decrypt_and_prove_complete sk (c : ctext B) label r :
    valid (mhr c) -> valid (gr c) -> nmul Ln (aff (gr c)) = eid -> 0 <= sk -> 0 <= r ->
    exists d pf, decrypt_and_prove B sk (pk_of_sk B sk) c label r = Ok (d, pf) /\
      verify_decryption B (pk_of_sk B sk) (decryption_factor B sk c) (mhr c) (gr c) pf label = true /\
      valid d /\ aff d = eadd (aff (mhr c)) (eneg (nmul (Z.to_nat sk) (aff (gr c)))).
  Proof.
    intros Vm Vg Hg Hsk Hr.
    exists (pt_add K (mhr c) (pt_neg K (b_pow B (gr c) sk))).
    exists (decryption_proof B sk (pk_of_sk B sk) (b_pow B (gr c) sk) (mhr c) (gr c) label r).
    split; [reflexivity|].
    destruct (rb_pow_correct (gr c) sk Vg) as [Vf Af].
    destruct (pt_neg_correct K _ Vf) as [Vn An].
    destruct (pt_add_correct K _ _ Vm Vn) as [Vd Ad].
    split; [|split; [exact Vd|]].
    - pose proof (rb_cp_complete_private None (gr c) sk r (ctx_mhr_label B (mhr c) label)
                    rb_gen_valid Vg (base_order K) Hg Hsk Hr) as H.
      unfold base_or_gen in H. exact H.
    - rewrite Ad, An, Af. reflexivity.
  Qed.

  (* honestly made ciphertexts meet the order premise *)
  Lemma rb_gr_order pk m r : nmul Ln (aff (gr (encrypt_with_randomness B pk m r))) = eid.
  Proof.
    unfold encrypt_with_randomness, b_gpow. cbn [gr].
    destruct (rb_pow_correct (b_gen B) r rb_gen_valid) as [_ A]. rewrite A.
    assert (C : onc (aff (b_gen B))) by apply rb_gen_valid.
    rewrite <- (E_nmul_mul _ _ _ C), Nat.mul_comm, (E_nmul_mul _ _ _ C).
    change (aff (b_gen B)) with (aff (pt_base K)). rewrite (base_order K). apply E_nmul_eid.
  Qed.
End RBTheorems.
