(* Proofs/ThresholdP.v — threshold.rs over any lawful backend: the share is the polynomial value
   (eval_poly), Feldman consistency of g^share with the verification-key factor built from the
   coefficient commitments (C09), the library's Lagrange coefficient satisfies the defining congruence
   of Base/Poly.v, interpolation at zero, and the combination of the present trustees' decryption
   factors (C10). Three facts about backend operations that Laws does not cover are section hypotheses;
   they are proved for the multiplicative backends at the end. *)
From Coq Require Import ZArith Znumtheory List Lia Bool Morphisms Setoid.
From Strand Require Import Base.ZUtil Base.InvM Model.Outcome Model.Codec Model.Backend Model.ZBackend
  Model.Zkp Model.Shuffler Model.Keymaker Proofs.Laws Proofs.SigmaP Proofs.ShuffleP Proofs.ZLaws
  Proofs.ZInst Base.Poly.
Import ListNotations.
Open Scope Z_scope.
Local Notation length := List.length.

(* ---------- plain integer / list facts ---------- *)
Lemma peval_nonneg l x : 0 <= x -> Forall (fun c => 0 <= c) l -> 0 <= peval l x.
Proof.
  intros Hx. induction 1 as [|a l Ha Hl IH]; [rewrite peval_nil; lia|].
  rewrite peval_cons. nia.
Qed.

Lemma zsum_map_nonneg (f : Z -> Z) l : (forall i, In i l -> 0 <= f i) -> 0 <= zsum (map f l).
Proof.
  induction l as [|a l IH]; intros H; [cbn [map]; rewrite zsum_nil; lia|].
  cbn [map]. rewrite zsum_cons.
  pose proof (H a (or_introl eq_refl)). assert (0 <= zsum (map f l)) by (apply IH; intros i Hi; apply H; right; exact Hi).
  lia.
Qed.

Lemma others_cons_eq i l : others i (i :: l) = others i l.
Proof. unfold others. cbn [filter]. rewrite Z.eqb_refl. reflexivity. Qed.

Lemma others_cons_ne i p l : p <> i -> others i (p :: l) = p :: others i l.
Proof. intro H. unfold others. cbn [filter]. apply Z.eqb_neq in H. rewrite H. reflexivity. Qed.

Lemma nth0_firstn (t : nat) (l : list Z) : (1 <= t)%nat -> nth 0 (firstn t l) 0 = nth 0 l 0.
Proof. intro H. destruct t as [|t']; [lia|]. destruct l; reflexivity. Qed.

Lemma small_diff_not_divide q a b : 0 <= a < q -> 0 <= b < q -> a <> b -> ~ (q | a - b).
Proof. intros Ha Hb Hne [k Hk]. assert (k = 0) by nia. subst k. lia. Qed.

Lemma map_mod_small q l : Forall (fun x => 0 <= x < q) l -> map (fun x => x mod q) l = l.
Proof.
  intro H. rewrite <- (map_id l) at 2. apply map_ext_in.
  intros a Ha. rewrite Forall_forall in H. apply Z.mod_small. apply H; exact Ha.
Qed.

Section Thr.
  Variable B : Backend.
  Variable mem : E B -> Prop.
  Hypothesis L : Laws B mem.
  Notation q := (b_q B).
  Notation mulp := (b_mulp B).
  Notation pow := (b_pow B).
  Notation gpow := (b_gpow B).
  Notation one := (b_one B).
  Notation nonneg := (fun c : Z => 0 <= c).
  Local Open Scope outcome_scope.

  (* what Laws does not say about three exponent-side operations of the backend *)
  Hypothesis from_u64_ok : forall v, 0 <= v ->
    0 <= b_from_u64 B v <= v /\ b_from_u64 B v mod q = v mod q.
  Hypothesis sub_mod_ok : forall v o, 0 <= v -> 0 <= o -> o <= v + q ->
    exists d, b_sub_mod B v o = Ok d /\ 0 <= d /\ d mod q = (v - o) mod q.
  Hypothesis xinvq_ok : forall d, 0 <= d -> d mod q <> 0 ->
    exists i, b_xinvq B d = Ok i /\ 0 <= i /\ (d * i) mod q = 1.

  Let Hq : 1 < q := q_gt1 B mem L.

  (* reduced product of two exponents, up to congruence of the factors *)
  Lemma umul_ok a b a' b' : 0 <= a -> 0 <= b -> eqm q a a' -> eqm q b b' ->
    0 <= b_xmodq B (b_xmul B a b) < q /\ eqm q (b_xmodq B (b_xmul B a b)) (a' * b').
  Proof.
    intros Ha Hb Ea Eb. destruct (xmul_ok B mem L a b Ha Hb) as [H0 E].
    rewrite (xmodq_ok B mem L) by exact H0.
    split; [apply Z.mod_pos_bound; lia|].
    unfold eqm. rewrite Z.mod_mod by lia. rewrite E.
    change (eqm q (a * b) (a' * b')). rewrite Ea, Eb. reflexivity.
  Qed.

  (* ---------- eval_poly ---------- *)
  Definition ev_step (tt : Z) (sp : Z * Z) (c : Z) : Z * Z :=
    let '(sum, power) := sp in
    let power' := b_xmodq B (b_xmul B power tt) in
    (b_xadd B sum (b_xmodq B (b_xmul B c power')), power').

  Lemma ev_fold tt x : 0 <= tt -> eqm q tt x ->
    forall l, Forall nonneg l -> forall s pw xk, 0 <= s -> 0 <= pw -> eqm q pw xk ->
    0 <= fst (fold_left (ev_step tt) l (s, pw)) /\
    eqm q (fst (fold_left (ev_step tt) l (s, pw))) (s + xk * x * peval l x).
  Proof.
    intros Ht Et. induction 1 as [|a l Ha Hl IH]; intros s pw xk Hs Hpw Epw; cbn [fold_left].
    - cbn [fst]. split; [exact Hs|]. rewrite peval_nil.
      replace (s + xk * x * 0) with s by ring. reflexivity.
    - cbn [ev_step].
      destruct (umul_ok pw tt xk x Hpw Ht Epw Et) as [[Hp0 _] Ep].
      set (pw' := b_xmodq B (b_xmul B pw tt)) in *.
      destruct (umul_ok a pw' a (xk * x) Ha Hp0 eq_refl Ep) as [[Hm0 _] Em].
      set (m := b_xmodq B (b_xmul B a pw')) in *.
      destruct (xadd_ok B mem L s m Hs Hm0) as [Hs0 Es].
      destruct (IH (b_xadd B s m) pw' (xk * x) Hs0 Hp0 Ep) as [H1 E1].
      split; [exact H1|]. rewrite E1.
      change (eqm q (b_xadd B s m) (s + m)) in Es. rewrite Es, Em. rewrite peval_cons.
      match goal with |- eqm _ ?u ?v => replace u with v by ring end. reflexivity.
  Qed.

  (* the share is the polynomial value mod q *)
  Theorem eval_poly_spec : forall x t coeffs, 0 <= x -> (1 <= t)%nat -> coeffs <> [] ->
    Forall (fun c => 0 <= c) coeffs ->
    exists s, eval_poly B x t coeffs = Ok s /\ 0 <= s < q /\
              s mod q = peval (firstn t coeffs) x mod q.
  Proof.
    intros x t coeffs Hx Ht Hne Hc. destruct coeffs as [|c0 rest]; [congruence|].
    destruct t as [|t']; [lia|].
    inversion Hc as [|? ? Hc0 Hrest]; subst.
    destruct (from_u64_ok x Hx) as [[Ht0 _] Et].
    unfold eval_poly. cbn [firstn skipn].
    change (fold_left _ (firstn t' rest) (c0, 1))
      with (fold_left (ev_step (b_from_u64 B x)) (firstn t' rest) (c0, 1)).
    destruct (ev_fold (b_from_u64 B x) x Ht0 Et (firstn t' rest)
                (ListAlg.Forall_firstn' _ t' rest Hrest) c0 1 1 Hc0 ltac:(lia) eq_refl) as [H0 E].
    destruct (fold_left (ev_step (b_from_u64 B x)) (firstn t' rest) (c0, 1)) as [sum pw].
    cbn [fst] in H0, E.
    exists (b_xmodq B sum). rewrite (xmodq_ok B mem L) by exact H0.
    split; [reflexivity|]. split; [apply Z.mod_pos_bound; lia|].
    rewrite Z.mod_mod by lia. rewrite peval_cons.
    replace (c0 + x * peval (firstn t' rest) x) with (c0 + 1 * x * peval (firstn t' rest) x) by ring.
    exact E.
  Qed.

  (* ---------- verification_key_factor ---------- *)
  Definition vk_step (tt : Z) (ap : E B * Z) (c : E B) : E B * Z :=
    let '(accum, power) := ap in (mulp accum (pow c power), b_xmodq B (b_xmul B power tt)).

  Lemma gpow_add x y : 0 <= x -> 0 <= y -> mulp (gpow x) (gpow y) = gpow (x + y).
  Proof. intros Hx Hy. unfold b_gpow. symmetry. apply (pow_add B mem L); auto. apply (mem_gen B mem L). Qed.

  Lemma gpow_congr x y : 0 <= x -> 0 <= y -> eqm q x y -> gpow x = gpow y.
  Proof. intros Hx Hy E. unfold b_gpow. apply (pow_congr B mem L); auto. apply (mem_gen B mem L). Qed.

  Lemma vk_fold tt x : 0 <= tt -> 0 <= x -> eqm q tt x ->
    forall l, Forall nonneg l -> forall e pw xk, 0 <= e -> 0 <= pw -> 0 <= xk -> eqm q pw xk ->
    fst (fold_left (vk_step tt) (map gpow l) (gpow e, pw)) = gpow (e + xk * peval l x).
  Proof.
    intros Ht Hx Et. induction 1 as [|a l Ha Hl IH]; intros e pw xk He Hpw Hxk Epw; cbn [map fold_left].
    - cbn [fst]. rewrite peval_nil. f_equal. ring.
    - cbn [vk_step].
      destruct (umul_ok pw tt xk x Hpw Ht Epw Et) as [[Hp0 _] Ep].
      set (pw' := b_xmodq B (b_xmul B pw tt)) in *.
      assert (Hacc : mulp (gpow e) (pow (gpow a) pw) = gpow (e + a * pw)).
      { unfold b_gpow at 2. rewrite (pow_mul B mem L) by (auto; apply (mem_gen B mem L)).
        fold (gpow (a * pw)). apply gpow_add; [exact He|nia]. }
      rewrite Hacc.
      pose proof (peval_nonneg l x Hx Hl) as HP.
      rewrite (IH (e + a * pw) pw' (xk * x)) by (auto; nia).
      rewrite peval_cons. apply gpow_congr; [nia|nia|].
      rewrite Epw.
      match goal with |- eqm _ ?u ?v => replace u with v by ring end. reflexivity.
  Qed.

  (* g^share equals the verification-key factor computed from the coefficient commitments *)
  Theorem feldman_consistent : forall j t coeffs s, 0 <= j -> (1 <= t)%nat -> coeffs <> [] ->
    Forall (fun c => 0 <= c) coeffs ->
    compute_peer_share B j t coeffs = Ok s ->
    b_gpow B s = verification_key_factor B (map (b_gpow B) coeffs) t j.
  Proof.
    intros j t coeffs s Hj Ht Hne Hc Hs. unfold compute_peer_share in Hs.
    destruct (eval_poly_spec (j + 1) t coeffs ltac:(lia) Ht Hne Hc) as (s' & E & Hr & Em).
    rewrite E in Hs. injection Hs as <-.
    unfold verification_key_factor. rewrite firstn_map.
    destruct (from_u64_ok (j + 1) ltac:(lia)) as [[Ht0 _] Et].
    change (fold_left _ (map (b_gpow B) (firstn t coeffs)) (one, 1))
      with (fold_left (vk_step (b_from_u64 B (j + 1))) (map gpow (firstn t coeffs)) (one, 1)).
    assert (H1 : one = gpow 0) by (symmetry; apply (pow_0 B mem L), (mem_gen B mem L)).
    rewrite H1.
    pose proof (ListAlg.Forall_firstn' _ t coeffs Hc) as Hf.
    rewrite (vk_fold (b_from_u64 B (j + 1)) (j + 1) Ht0 ltac:(lia) Et (firstn t coeffs) Hf 0 1 1)
      by (try lia; reflexivity).
    pose proof (peval_nonneg (firstn t coeffs) (j + 1) ltac:(lia) Hf) as HP.
    apply gpow_congr; [lia|lia|].
    unfold eqm. rewrite Em. f_equal. ring.
  Qed.

  (* under prime q and a non-trivial generator, a share altered by a non-zero amount fails *)
  Theorem feldman_detects_tamper : prime q -> b_gen B <> b_one B ->
    forall s d, 0 <= s -> 0 <= d -> d mod q <> 0 -> b_gpow B (s + d) <> b_gpow B s.
  Proof.
    intros Hpr Hg s d Hs Hd Hd0 E. unfold b_gpow in E.
    apply (pow_inj B mem L Hpr) in E; [|apply (mem_gen B mem L)|exact Hg|lia|lia].
    apply Hd0. apply (mod0_iff_divide q d Hq).
    apply (eqm_iff_divide_sub q (s + d) s Hq) in E. replace (s + d - s) with d in E by ring. exact E.
  Qed.

  (* ---------- lagrange ---------- *)
  Definition lg_step (trustee tt : Z) (acc : outcome (Z * Z)) (p : Z) : outcome (Z * Z) :=
    '(num, den) <- acc ;;
    if p =? trustee then Ok (num, den)
    else
      let pe := b_from_u64 B p in
      d <- b_sub_mod B pe tt ;;
      Ok (b_xmodq B (b_xmul B num pe), b_xmodq B (b_xmul B den (b_xmodq B d))).

  Lemma lg_fold trustee : 0 <= trustee < q ->
    forall l, Forall (fun x => 0 <= x < q) l -> forall num den, 0 <= num -> 0 <= den ->
    exists num' den',
      fold_left (lg_step trustee (b_from_u64 B trustee)) l (Ok (num, den)) = Ok (num', den') /\
      0 <= num' /\ 0 <= den' /\
      eqm q num' (num * zprod (others trustee l)) /\
      eqm q den' (den * zprod (map (fun j => j - trustee) (others trustee l))).
  Proof.
    intros Htr. destruct (from_u64_ok trustee ltac:(lia)) as [[Ht0 Ht1] Et].
    induction 1 as [|p l Hp Hl IH]; intros num den Hn Hd; cbn [fold_left].
    - exists num, den. split; [reflexivity|]. split; [exact Hn|]. split; [exact Hd|].
      cbn [others filter map]. rewrite zprod_nil, !Z.mul_1_r. split; reflexivity.
    - cbn [lg_step bind]. destruct (Z.eqb_spec p trustee) as [->|Hne].
      + rewrite others_cons_eq. apply IH; assumption.
      + rewrite (others_cons_ne trustee p l Hne). cbn [map]. rewrite !zprod_cons.
        destruct (from_u64_ok p ltac:(lia)) as [[Hp0 Hp1] Ep].
        destruct (sub_mod_ok (b_from_u64 B p) (b_from_u64 B trustee) Hp0 Ht0 ltac:(lia))
          as (d & Ed & Hd0 & Edm).
        rewrite Ed. cbn [bind].
        destruct (umul_ok num (b_from_u64 B p) num p Hn Hp0 eq_refl Ep) as [[Hn1 _] En1].
        assert (Exd : 0 <= b_xmodq B d /\ eqm q (b_xmodq B d) (p - trustee)).
        { rewrite (xmodq_ok B mem L) by exact Hd0. split; [apply Z.mod_pos_bound; lia|].
          unfold eqm. rewrite Z.mod_mod by lia. rewrite Edm.
          change (eqm q (b_from_u64 B p - b_from_u64 B trustee) (p - trustee)).
          change (eqm q (b_from_u64 B p) p) in Ep. change (eqm q (b_from_u64 B trustee) trustee) in Et.
          rewrite Ep, Et. reflexivity. }
        destruct Exd as [Hxd0 Exd].
        destruct (umul_ok den (b_xmodq B d) den (p - trustee) Hd Hxd0 eq_refl Exd) as [[Hd1 _] Ed1].
        destruct (IH _ _ Hn1 Hd1) as (num' & den' & Ef & Hn' & Hd' & En' & Ed').
        exists num', den'. split; [exact Ef|]. split; [exact Hn'|]. split; [exact Hd'|].
        split.
        * rewrite En', En1. match goal with |- eqm _ ?u ?v => replace u with v by ring end. reflexivity.
        * rewrite Ed', Ed1. match goal with |- eqm _ ?u ?v => replace u with v by ring end. reflexivity.
  Qed.

  Lemma den_not_divide : prime q -> forall trustee l, 0 <= trustee < q ->
    Forall (fun x => 0 <= x < q) l ->
    ~ (q | zprod (map (fun j => j - trustee) (others trustee l))).
  Proof.
    intros Hpr trustee l Htr Hl. apply (zprod_not_divide q _ Hpr).
    intros x Hx. apply in_map_iff in Hx. destruct Hx as (j & <- & Hj).
    apply others_In in Hj. destruct Hj as [Hj Hne].
    rewrite Forall_forall in Hl. apply small_diff_not_divide; auto.
  Qed.

  (* the library's coefficient satisfies the defining congruence of Base/Poly.v *)
  Theorem lagrange_spec : prime q -> forall trustee present,
    Forall (fun x => 0 <= x < q) present -> NoDup present -> In trustee present ->
    exists lam, lagrange B trustee present = Ok lam /\ 0 <= lam /\
      (lam * zprod (map (fun j => j - trustee) (others trustee present))) mod q
      = zprod (others trustee present) mod q.
  Proof.
    intros Hpr trustee present Hrange Hnd Hin.
    assert (Htr : 0 <= trustee < q) by (rewrite Forall_forall in Hrange; apply Hrange; exact Hin).
    destruct (lg_fold trustee Htr present Hrange 1 1 ltac:(lia) ltac:(lia))
      as (num' & den' & Ef & Hn0 & Hd0 & En & Ed).
    rewrite Z.mul_1_l in En, Ed.
    set (N := zprod (others trustee present)) in *.
    set (D := zprod (map (fun j => j - trustee) (others trustee present))) in *.
    unfold lagrange.
    change (fold_left _ present (Ok (1, 1)))
      with (fold_left (lg_step trustee (b_from_u64 B trustee)) present (Ok (1, 1))).
    rewrite Ef. cbn [bind fst snd]. unfold b_xdivq.
    assert (Hdnz : den' mod q <> 0).
    { intro H0. apply (den_not_divide Hpr trustee present Htr Hrange). fold D.
      apply (mod0_iff_divide q D Hq). rewrite <- Ed. exact H0. }
    destruct (xinvq_ok den' Hd0 Hdnz) as (i & Ei & Hi0 & Hdi).
    rewrite Ei. cbn [bind].
    destruct (xmul_ok B mem L num' i Hn0 Hi0) as [Hl0 El].
    exists (b_xmul B num' i). split; [reflexivity|]. split; [exact Hl0|].
    change (eqm q (b_xmul B num' i * D) N).
    change (eqm q (b_xmul B num' i) (num' * i)) in El.
    assert (Hdi' : eqm q (den' * i) 1).
    { unfold eqm. rewrite Hdi. symmetry. apply Z.mod_1_l. exact Hq. }
    rewrite El, <- Ed, <- En.
    replace (num' * i * den') with (num' * (den' * i)) by ring.
    rewrite Hdi'. rewrite Z.mul_1_r. reflexivity.
  Qed.

  (* interpolation at zero: any |S| >= number of coefficients *)
  Theorem lagrange_interpolates : prime q -> forall present cs (lam : Z -> Z),
    Forall (fun x => 0 < x < q) present -> NoDup present -> (length cs <= length present)%nat ->
    (forall i, In i present -> lagrange B i present = Ok (lam i)) ->
    zsum (map (fun i => lam i * peval cs i) present) mod q = nth 0 cs 0 mod q.
  Proof.
    intros Hpr present cs lam Hrange Hnd Hlen Hlam.
    assert (Hrange' : Forall (fun x => 0 <= x < q) present).
    { eapply Forall_impl; [|exact Hrange]. cbv beta. intros a Ha. lia. }
    apply (lagrange_at_zero q Hpr present lam).
    - rewrite (map_mod_small q present Hrange'). exact Hnd.
    - intros i Hi. rewrite Forall_forall in Hrange. pose proof (Hrange i Hi).
      rewrite Z.mod_small by lia. lia.
    - intros i Hi. destruct (lagrange_spec Hpr i present Hrange' Hnd Hi) as (l' & E & _ & Hc).
      rewrite (Hlam i Hi) in E. injection E as <-. exact Hc.
    - exact Hlen.
  Qed.

  (* ---------- combination of decryption factors ---------- *)
  Lemma prodp_pow_sum a (f : Z -> Z) l : mem a -> (forall i, In i l -> 0 <= f i) ->
    prodp B (map (fun i => pow a (f i)) l) = pow a (zsum (map f l)).
  Proof.
    intros Ha. induction l as [|x l IH]; intros Hf; cbn [map].
    - rewrite zsum_nil. unfold prodp. cbn [fold_left]. symmetry. apply (pow_0 B mem L); exact Ha.
    - assert (Hf' : forall i, In i l -> 0 <= f i) by (intros i Hi; apply Hf; right; exact Hi).
      pose proof (Hf x (or_introl eq_refl)) as Hx.
      rewrite (prodp_cons B mem L).
      + rewrite (IH Hf'). rewrite zsum_cons. symmetry.
        apply (pow_add B mem L); [exact Ha|exact Hx|apply zsum_map_nonneg; exact Hf'].
      + apply (pow_mem B mem L); assumption.
      + apply Forall_forall. intros y Hy. apply in_map_iff in Hy. destruct Hy as (i & <- & Hi).
        apply (pow_mem B mem L); auto.
  Qed.

  (* group form: combining the present trustees' decryption factors with the library's coefficients
     gives the factor of the joint secret P(0) *)
  Theorem threshold_factor_combination : prime q ->
    forall present coeffs t (g_r : E B) (lam : Z -> Z) (share : Z -> Z),
    mem g_r -> Forall (fun x => 0 < x < q) present -> NoDup present ->
    (1 <= t)%nat -> (t <= length present)%nat -> coeffs <> [] -> Forall (fun c => 0 <= c) coeffs ->
    (forall i, In i present -> lagrange B i present = Ok (lam i)) ->
    (forall i, In i present -> eval_poly B i t coeffs = Ok (share i)) ->
    prodp B (map (fun i => b_pow B (b_pow B g_r (share i)) (lam i)) present)
    = b_pow B g_r (nth 0 coeffs 0).
  Proof.
    intros Hpr present coeffs t g_r lam share Hg Hrange Hnd Ht Htn Hne Hc Hlam Hsh.
    assert (Hrange' : Forall (fun x => 0 <= x < q) present).
    { eapply Forall_impl; [|exact Hrange]. cbv beta. intros a Ha. lia. }
    assert (Hi0 : forall i, In i present -> 0 <= i).
    { intros i Hi. rewrite Forall_forall in Hrange. pose proof (Hrange i Hi). lia. }
    assert (Hshare : forall i, In i present ->
              0 <= share i /\ eqm q (share i) (peval (firstn t coeffs) i)).
    { intros i Hi. destruct (eval_poly_spec i t coeffs (Hi0 i Hi) Ht Hne Hc) as (s & E & Hr & Em).
      rewrite (Hsh i Hi) in E. injection E as <-. split; [lia|exact Em]. }
    assert (Hlam0 : forall i, In i present -> 0 <= lam i).
    { intros i Hi. destruct (lagrange_spec Hpr i present Hrange' Hnd Hi) as (l' & E & Hl0 & _).
      rewrite (Hlam i Hi) in E. injection E as <-. exact Hl0. }
    rewrite (map_ext_in _ (fun i => pow g_r (share i * lam i))).
    2:{ intros i Hi. apply (pow_mul B mem L); [exact Hg|apply Hshare; exact Hi|apply Hlam0; exact Hi]. }
    rewrite (prodp_pow_sum g_r (fun i => share i * lam i) present Hg).
    2:{ intros i Hi. pose proof (Hlam0 i Hi). destruct (Hshare i Hi) as [? _]. nia. }
    apply (pow_congr B mem L); [exact Hg| |apply ListAlg.Forall_nth_nonneg; exact Hc|].
    { apply zsum_map_nonneg. intros i Hi. pose proof (Hlam0 i Hi). destruct (Hshare i Hi) as [? _]. nia. }
    rewrite <- (nth0_firstn t coeffs Ht).
    rewrite <- (lagrange_interpolates Hpr present (firstn t coeffs) lam Hrange Hnd).
    - apply (zsum_map_eqm q). intros i Hi. destruct (Hshare i Hi) as [_ E].
      rewrite E. rewrite Z.mul_comm. reflexivity.
    - rewrite firstn_length. lia.
    - exact Hlam.
  Qed.
End Thr.

Print Assumptions eval_poly_spec.
Print Assumptions feldman_consistent.
Print Assumptions feldman_detects_tamper.
Print Assumptions lagrange_spec.
Print Assumptions lagrange_interpolates.
Print Assumptions threshold_factor_combination.

(* ---------- the multiplicative backends ---------- *)
Section ZBInst.
  Variable K : Kernel.
  Variable fl : flavor.
  Variable P : Params.
  Notation Bz := (ZB K fl P).

  Theorem ZB_from_u64_ok : forall v, 0 <= v ->
    0 <= b_from_u64 Bz v <= v /\ b_from_u64 Bz v mod p_q P = v mod p_q P.
  Proof. intros v Hv. cbn [ZB b_from_u64]. split; [lia|reflexivity]. Qed.

  (* exp_sub_mod panics exactly when v + q < o *)
  Theorem ZB_sub_mod_ok : 1 < p_q P -> forall v o, 0 <= v -> 0 <= o -> o <= v + p_q P ->
    exists d, b_sub_mod Bz v o = Ok d /\ 0 <= d /\ d mod p_q P = (v - o) mod p_q P.
  Proof.
    intros Hq v o _ _ Hle. cbn [ZB b_sub_mod]. unfold z_sub_mod. rewrite !k_mod_ok.
    destruct (v >? o).
    - eexists. split; [reflexivity|]. split; [apply Z.mod_pos_bound; lia|]. apply Z.mod_mod; lia.
    - replace (v + p_q P <? o) with false by (symmetry; apply Z.ltb_ge; lia).
      eexists. split; [reflexivity|]. split; [apply Z.mod_pos_bound; lia|].
      rewrite Z.mod_mod by lia. replace (v + p_q P - o) with (v - o + 1 * p_q P) by ring.
      apply Z_mod_plus_full.
  Qed.

  Theorem ZB_sub_mod_panics : forall v o, v + p_q P < o -> 0 < p_q P -> b_sub_mod Bz v o = Panic.
  Proof.
    intros v o Hlt Hq. cbn [ZB b_sub_mod]. unfold z_sub_mod.
    replace (v >? o) with false by (symmetry; rewrite Z.gtb_ltb; apply Z.ltb_ge; lia).
    replace (v + p_q P <? o) with true by (symmetry; apply Z.ltb_lt; lia). reflexivity.
  Qed.

  (* invq is total on non-multiples of a prime q *)
  Theorem ZB_xinvq_ok : prime (p_q P) -> forall d, 0 <= d -> d mod p_q P <> 0 ->
    exists i, b_xinvq Bz d = Ok i /\ 0 <= i /\ (d * i) mod p_q P = 1.
  Proof.
    intros Hpr d _ Hd. cbn [ZB b_xinvq]. unfold z_inv. rewrite k_invm_ok.
    destruct (invm_prime d (p_q P) Hpr Hd) as (r & E & Hr & Hm). rewrite E.
    exists r. split; [reflexivity|]. split; [lia|exact Hm].
  Qed.
End ZBInst.

Theorem eval_poly_spec_ZB : forall K fl P, GoodParams P ->
  forall x t coeffs, 0 <= x -> (1 <= t)%nat -> coeffs <> [] -> Forall (fun c => 0 <= c) coeffs ->
  exists s, eval_poly (ZB K fl P) x t coeffs = Ok s /\ 0 <= s < p_q P /\
            s mod p_q P = peval (firstn t coeffs) x mod p_q P.
Proof.
  intros K fl P G. exact (eval_poly_spec (ZB K fl P) (member P) (ZB_laws K fl P G) (ZB_from_u64_ok K fl P)).
Qed.

Theorem feldman_consistent_ZB : forall K fl P, GoodParams P ->
  forall j t coeffs s, 0 <= j -> (1 <= t)%nat -> coeffs <> [] -> Forall (fun c => 0 <= c) coeffs ->
  compute_peer_share (ZB K fl P) j t coeffs = Ok s ->
  b_gpow (ZB K fl P) s = verification_key_factor (ZB K fl P) (map (b_gpow (ZB K fl P)) coeffs) t j.
Proof.
  intros K fl P G. exact (feldman_consistent (ZB K fl P) (member P) (ZB_laws K fl P G) (ZB_from_u64_ok K fl P)).
Qed.

Theorem feldman_detects_tamper_ZB : forall K fl P, SafePrime P ->
  forall s d, 0 <= s -> 0 <= d -> d mod p_q P <> 0 ->
  b_gpow (ZB K fl P) (s + d) <> b_gpow (ZB K fl P) s.
Proof.
  intros K fl P S.
  exact (feldman_detects_tamper (ZB K fl P) (member P) (ZB_laws K fl P (sp_good P S)) (sp_q P S) (sp_g1 P S)).
Qed.

Theorem lagrange_spec_ZB : forall K fl P, SafePrime P -> forall trustee present,
  Forall (fun x => 0 <= x < p_q P) present -> NoDup present -> In trustee present ->
  exists lam, lagrange (ZB K fl P) trustee present = Ok lam /\ 0 <= lam /\
    (lam * zprod (map (fun j => j - trustee) (others trustee present))) mod p_q P
    = zprod (others trustee present) mod p_q P.
Proof.
  intros K fl P S.
  exact (lagrange_spec (ZB K fl P) (member P) (ZB_laws K fl P (sp_good P S)) (ZB_from_u64_ok K fl P)
           (ZB_sub_mod_ok K fl P (gp_q P (sp_good P S))) (ZB_xinvq_ok K fl P (sp_q P S)) (sp_q P S)).
Qed.

Theorem lagrange_interpolates_ZB : forall K fl P, SafePrime P -> forall present cs (lam : Z -> Z),
  Forall (fun x => 0 < x < p_q P) present -> NoDup present -> (length cs <= length present)%nat ->
  (forall i, In i present -> lagrange (ZB K fl P) i present = Ok (lam i)) ->
  zsum (map (fun i => lam i * peval cs i) present) mod p_q P = nth 0 cs 0 mod p_q P.
Proof.
  intros K fl P S.
  exact (lagrange_interpolates (ZB K fl P) (member P) (ZB_laws K fl P (sp_good P S)) (ZB_from_u64_ok K fl P)
           (ZB_sub_mod_ok K fl P (gp_q P (sp_good P S))) (ZB_xinvq_ok K fl P (sp_q P S)) (sp_q P S)).
Qed.

Theorem threshold_factor_combination_ZB : forall K fl P, SafePrime P ->
  forall present coeffs t (g_r : Z) (lam : Z -> Z) (share : Z -> Z),
  member P g_r -> Forall (fun x => 0 < x < p_q P) present -> NoDup present ->
  (1 <= t)%nat -> (t <= length present)%nat -> coeffs <> [] -> Forall (fun c => 0 <= c) coeffs ->
  (forall i, In i present -> lagrange (ZB K fl P) i present = Ok (lam i)) ->
  (forall i, In i present -> eval_poly (ZB K fl P) i t coeffs = Ok (share i)) ->
  prodp (ZB K fl P) (map (fun i => b_pow (ZB K fl P) (b_pow (ZB K fl P) g_r (share i)) (lam i)) present)
  = b_pow (ZB K fl P) g_r (nth 0 coeffs 0).
Proof.
  intros K fl P S.
  exact (threshold_factor_combination (ZB K fl P) (member P) (ZB_laws K fl P (sp_good P S))
           (ZB_from_u64_ok K fl P) (ZB_sub_mod_ok K fl P (gp_q P (sp_good P S)))
           (ZB_xinvq_ok K fl P (sp_q P S)) (sp_q P S)).
Qed.

Print Assumptions ZB_from_u64_ok.
Print Assumptions ZB_sub_mod_ok.
Print Assumptions ZB_xinvq_ok.
Print Assumptions eval_poly_spec_ZB.
Print Assumptions feldman_consistent_ZB.
Print Assumptions feldman_detects_tamper_ZB.
Print Assumptions lagrange_spec_ZB.
Print Assumptions lagrange_interpolates_ZB.
Print Assumptions threshold_factor_combination_ZB.
