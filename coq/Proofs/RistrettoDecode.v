(* Proofs/RistrettoDecode.v — what RFC 9496 DECODE (the model of CompressedRistretto::decompress) returns is a point
   of the curve: for every byte string, if [decompress] answers [Some P] then P is a valid extended point (Z = 1,
   T = X Y, -x^2 + y^2 = 1 + d x^2 y^2). The only fact needed about SQRT_RATIO_M1 is the one the code itself checks:
   when it reports "was square", v r^2 = u. *)
From Coq Require Import ZArith Znumtheory Lia List Bool Ring Field.
From Coq Require Import Ncring Cring Integral_domain NsatzTactic.
From Strand Require Import Base.ZUtil Base.ZpField Base.Edwards Model.Outcome Model.Codec Model.Ristretto Model.RistrettoFast
  Model.RBackend Proofs.PrimeCerts Proofs.RistrettoGroup.
Import ListNotations.
Open Scope Z_scope.

(* nsatz on GF(2^255-19): the instances of Base/Edwards.v at the concrete field *)
Local Instance Fp_ops : @Ring_ops Fp f0 f1 fa fm fs fo (@eq Fp) := Fops Fp f0 f1 fa fm fs fo.
Local Instance Fp_ri : Ring (Ro:=Fp_ops) := Fri Fp f0 f1 fa fm fs fo fd fi Fth.
Local Instance Fp_cri : Cring (Rr:=Fp_ri) := Fcri Fp f0 f1 fa fm fs fo fd fi Fth.
Local Instance Fp_di : Integral_domain (Rcr:=Fp_cri) := Fdi Fp f0 f1 fa fm fs fo fd fi Fth F_dec.

(* integer coefficients of nsatz certificates are non-zero in GF(2^255-19): decided by evaluation *)
Ltac nsatz_internal_discrR ::= (let Hd := fresh in intro Hd; apply (f_equal (zv fp)) in Hd; vm_compute in Hd; discriminate Hd).

Lemma F_inj_canon a b : a = b -> F a = F b.  Proof. now intros ->. Qed.

Lemma F_fabs_sq K a : fm (F (fabs K a)) (F (fabs K a)) = fm (F a) (F a).
Proof. unfold fabs. destruct (fis_neg a); [rewrite F_fneg; ring | reflexivity]. Qed.

Lemma iF_neq_m1 : iF <> fo f1.
Proof.
  intro H. assert (E : fm iF iF = f1) by (rewrite H; ring). rewrite iF_sq in E.
  apply two_nzF. transitivity (fs f1 (fo f1)); [ring|]. rewrite E. ring.
Qed.

(* SQRT_RATIO_M1: if it reports a square, the returned value r satisfies v r^2 = u *)
Lemma sqrt_ratio_ok K u v : fst (sqrt_ratio_m1 K u v) = true ->
  fm (F v) (fm (F (snd (sqrt_ratio_m1 K u v))) (F (snd (sqrt_ratio_m1 K u v)))) = F u.
Proof.
  unfold sqrt_ratio_m1.
  set (r := fmul K (fmul K u (fmul K (fsq K v) v)) (fpow K (fmul K u (fmul K (fsq K (fmul K (fsq K v) v)) v)) ((fp - 5) / 8))).
  set (check := fmul K v (fsq K r)).
  cbn [fst snd]. rewrite F_fabs_sq.
  assert (Ec : F check = fm (F v) (fm (F r) (F r))) by (unfold check, fsq; now rewrite !F_fmul).
  intro W. apply orb_true_iff in W.
  destruct (check =? fneg K u) eqn:Efl.
  - (* flipped: check = -u, r' = i r *)
    cbn [orb]. rewrite F_fmul. apply Z.eqb_eq in Efl. apply F_inj_canon in Efl. rewrite F_fneg, Ec in Efl.
    fold iF. transitivity (fo (fm (F v) (fm (F r) (F r)))); [|rewrite Efl; ring].
    transitivity (fm (fm iF iF) (fm (F v) (fm (F r) (F r)))); [ring|]. rewrite iF_sq. ring.
  - destruct W as [W|W]; [|discriminate]. apply Z.eqb_eq in W. apply F_inj_canon in W. rewrite Ec in W.
    destruct (check =? fneg K (fmul K u sqrt_m1)) eqn:Efi; cbn [orb].
    + (* correct and flipped_i at once: only for u = 0 *)
      apply Z.eqb_eq in Efi. apply F_inj_canon in Efi. rewrite F_fneg, F_fmul, Ec in Efi. fold iF in Efi.
      assert (E2 : F u = fo (fm (F u) iF)) by (transitivity (fm (F v) (fm (F r) (F r))); [symmetry; exact W | exact Efi]).
      assert (U0 : fm (F u) (fa f1 iF) = f0).
      { transitivity (fa (F u) (fm (F u) iF)); [ring|]. rewrite E2 at 1. ring. }
      destruct (zmul_eq0 fp fp_prime _ _ U0) as [Z|Z].
      * (* u = 0: then v r^2 = 0 and so is v (i r)^2 *)
        rewrite F_fmul. fold iF. change (z0 fp) with f0 in Z.
        transitivity (fm (fm iF iF) (fm (F v) (fm (F r) (F r)))); [ring|]. rewrite W, Z. ring.
      * exfalso. apply iF_neq_m1. change (z0 fp) with f0 in Z.
        transitivity (fs (fa f1 iF) f1); [ring|]. rewrite Z. ring.
    + exact W.
Qed.

Lemma aff_z1 (X Y : Fp) : (fd X f1, fd Y f1) = (X, Y).
Proof. assert (N : f1 <> f0) by exact (F_1_neq_0 Fth). apply f_equal2; field; exact N. Qed.

(* RFC 9496 DECODE on the integer s *)
Theorem decode_s_valid K s P : decode_s K s = Some P -> valid P.
Proof.
  unfold decode_s.
  set (u1 := fsub K 1 (fsq K s)). set (u2 := fadd K 1 (fsq K s)).
  set (v := fsub K (fneg K (fmul K ed_d (fsq K u1))) (fsq K u2)).
  pose proof (sqrt_ratio_ok K 1 (fmul K v (fsq K u2))) as SQ.
  destruct (sqrt_ratio_m1 K 1 (fmul K v (fsq K u2))) as [ws I]. cbn [fst snd] in SQ.
  set (x := fabs K (fmul K (fmul K 2 s) (fmul K I u2))).
  set (y := fmul K u1 (fmul K (fmul K I (fmul K I u2)) v)).
  destruct ws; cbn [negb orb]; [|discriminate].
  destruct (fis_neg (fmul K x y) || (y =? 0)); [discriminate|].
  intro E. injection E as <-.
  specialize (SQ eq_refl).
  unfold valid, aff. cbn [px py pz pt]. rewrite F_1, F_fmul.
  split; [exact (F_1_neq_0 Fth)|]. split; [|ring].
  rewrite aff_z1. unfold Edwards.onc.
  (* everything in terms of S = F s and the inverse square root I *)
  assert (Ex2 : fm (F x) (F x) = fm (fm (fm (fa f1 f1) (F s)) (fm (F I) (F u2))) (fm (fm (fa f1 f1) (F s)) (fm (F I) (F u2)))).
  { unfold x. rewrite F_fabs_sq, !F_fmul, F_2. reflexivity. }
  assert (Ey : F y = fm (F u1) (fm (fm (F I) (fm (F I) (F u2))) (F v))) by (unfold y; now rewrite !F_fmul).
  assert (E1 : F u1 = fs f1 (fm (F s) (F s))) by (unfold u1, fsq; now rewrite F_fsub, F_fmul, F_1).
  assert (E2 : F u2 = fa f1 (fm (F s) (F s))) by (unfold u2, fsq; now rewrite F_fadd, F_fmul, F_1).
  assert (Ev : F v = fs (fo (fm dF (fm (F u1) (F u1)))) (fm (F u2) (F u2))).
  { unfold v, fsq. now rewrite F_fsub, F_fneg, !F_fmul. }
  assert (H : fm (fm (F v) (fm (F u2) (F u2))) (fm (F I) (F I)) = f1).
  { unfold fsq in SQ. rewrite !F_fmul, F_1 in SQ. exact SQ. }
  transitivity (fa f1 (fm (fm dF (fm (F x) (F x))) (fm (F y) (F y)))); [|ring].
  transitivity (fs (fm (F y) (F y)) (fm (F x) (F x))); [ring|].
  rewrite Ex2, Ey. generalize dependent (F I). generalize dependent (F v). generalize dependent (F u2).
  generalize dependent (F u1). generalize (F s). clear.
  intros S U1 E1 U2 E2 V Ev J H. subst U1 U2 V.
  nsatz.
Qed.

(* CompressedRistretto::decompress and Ctx::element_from_bytes of the ristretto backend: whatever is accepted is a valid
   point of the curve (and 32 bytes long, canonical and non-negative: Proofs/RistrettoWireP.v) *)
Theorem decompress_valid K bs P : decompress K bs = Some P -> valid P.
Proof.
  unfold decompress. destruct (negb (length bs =? 32)%nat); [discriminate|].
  destruct ((le_int bs >=? fp) || Z.odd (le_int bs)); [discriminate|]. apply decode_s_valid.
Qed.

Theorem r_element_from_bytes_valid K bs P : r_element_from_bytes K bs = Ok P -> valid P.
Proof.
  unfold r_element_from_bytes. destruct (length bs =? 32)%nat; [|discriminate].
  destruct (decompress K bs) as [Q|] eqn:E; cbn; [|discriminate]. intro H. injection H as <-. now apply (decompress_valid K bs).
Qed.

(* ---------------------------------------------------------------- Ed25519 point decoding (Model/Ed25519.v) *)
From Strand Require Import Model.Ed25519.

(* CompressedEdwardsY::decompress: whatever it accepts — the public key A and the commitment R of a signature — is a valid
   point of the curve, for every byte string (so the group-law theorems apply to everything the verifiers compute with) *)
Theorem ed_decompress_valid K bs P : ed_decompress K bs = Some P -> valid P.
Proof.
  unfold ed_decompress. destruct (negb (length bs =? 32)%nat); [discriminate|].
  remember (Z.testbit (le_int bs) 255) as sgn eqn:Esgn. clear Esgn.
  set (y := fmod K (Z.land (le_int bs) (2 ^ 255 - 1))).
  set (u := fsub K (fsq K y) 1). set (v := fadd K (fmul K (fsq K y) ed_d) 1).
  pose proof (sqrt_ratio_ok K u v) as SQ.
  destruct (sqrt_ratio_m1 K u v) as [ok x0]. cbn [fst snd] in SQ.
  destruct ok; cbn [negb]; [|discriminate]. specialize (SQ eq_refl).
  intro E. injection E as <-.
  set (x := if sgn then fneg K x0 else x0).
  assert (Ex2 : fm (F x) (F x) = fm (F x0) (F x0)).
  { unfold x. destruct sgn; [rewrite F_fneg; ring | reflexivity]. }
  unfold valid, aff. cbn [px py pz pt]. rewrite F_1, F_fmul.
  split; [exact (F_1_neq_0 Fth)|]. split; [|ring].
  rewrite aff_z1. unfold Edwards.onc.
  assert (Eu : F u = fs (fm (F y) (F y)) f1) by (unfold u, fsq; now rewrite F_fsub, F_fmul, F_1).
  assert (Ev : F v = fa (fm (fm (F y) (F y)) dF) f1) by (unfold v, fsq; now rewrite F_fadd, !F_fmul, F_1).
  rewrite Eu, Ev in SQ.
  transitivity (fa f1 (fm (fm dF (fm (F x) (F x))) (fm (F y) (F y)))); [|ring].
  transitivity (fs (fm (F y) (F y)) (fm (F x) (F x))); [ring|].
  rewrite Ex2. generalize dependent (F x0). generalize (F y). clear. intros Y X SQ.
  nsatz.
Qed.
