(* Model/ZBackend.v — the two multiplicative backends (num-bigint, malachite) over a parameter record
   (p, q, g), mirroring src/backend/num_bigint.rs and src/backend/malachite.rs function by function.
   They share all arithmetic and differ in byte order of codecs and hash_to_exp. No proofs here. *)
From Coq Require Import ZArith List Bool.
From Strand Require Import Base.ZUtil Model.Outcome Model.Codec Model.Sha512 Model.Backend.
Import ListNotations.
Open Scope Z_scope.

Record Params : Type := { p_p : Z; p_q : Z; p_g : Z; p_cof : Z }.

Inductive flavor := Bigint | Malachite.

Section Z.
  Variable K : Kernel.
  Variable fl : flavor.
  Variable P : Params.
  Let p := p_p P.
  Let q := p_q P.

  Definition z_inv (a m : Z) : outcome Z :=
    match k_invm K a m with Some r => Ok r | None => Panic end.   (* .expect("there is always an inverse for prime p") *)

  Definition z_xsub (a b : Z) : outcome Z := if a <? b then Panic else Ok (a - b).

  (* Ctx::exp_sub_mod *)
  Definition z_sub_mod (v o : Z) : outcome Z :=
    if v >? o then Ok (k_mod K (v - o) q)
    else if v + q <? o then Panic else Ok (k_mod K (v + q - o) q).

  (* integer <-> bytes per flavor *)
  Definition int_of_bytes (bs : bytes) : Z :=
    match fl with Bigint => le_int bs | Malachite => be_int bs end.
  Definition bytes_of_int (x : Z) : bytes :=
    match fl with Bigint => le_bytes_min x | Malachite => be_digits x end.

  Definition z_ser_int (x : Z) : bytes := wr_vec_u8 (bytes_of_int x).

  Definition z_hash_to_exp (bs : bytes) : Z := k_mod K (int_of_bytes (sha512 bs)) q.
  Definition z_hash_to_element (bs : bytes) : Z := k_mod K (int_of_bytes (sha512 bs)) p.

  Definition ZB : Backend := {|
    E := Z;
    b_q := q;
    b_gen := p_g P;
    b_one := 1;
    b_mul := k_mul K;
    b_modp := fun a => k_mod K a p;
    b_invp := fun a => z_inv a p;
    b_pow := fun a x => k_powm K a x p;
    b_eqb := Z.eqb;
    b_xadd := Z.add;
    b_xmul := k_mul K;
    b_xsub := z_xsub;
    b_xmodq := fun a => k_mod K a q;
    b_xinvq := fun a => z_inv a q;
    b_sub_mod := z_sub_mod;
    b_from_u64 := fun v => v;
    b_ser_e := z_ser_int;
    b_ser_x := z_ser_int;
    b_hash_to_exp := z_hash_to_exp
  |}.

  (* legendre symbol as num-modular computes it for BigUint (Euler's criterion): 1, 0 or -1 *)
  Definition legendre (a : Z) : Z :=
    let r := k_powm K a q p in
    if r =? 0 then 0 else if r =? 1 then 1 else -1.

  (* Ctx::element_from_bytes / element_from_biguint *)
  Definition element_from_int (v : Z) : outcome Z :=
    if (v <? 1) || (v >=? p) then Err
    else if negb (legendre v =? 1) then Err
    else Ok v.
  Definition element_from_bytes (bs : bytes) : outcome Z := element_from_int (int_of_bytes bs).

  (* Ctx::exp_from_bytes *)
  Definition exp_from_bytes (bs : bytes) : outcome Z :=
    let v := int_of_bytes bs in if v >=? q then Err else Ok v.

  (* Ctx::encode *)
  Definition encode (m : Z) : outcome Z :=
    if m >=? q - 1 then Err
    else let nz := m + 1 in
         let l := legendre nz in
         if l =? 0 then Err
         else Ok (k_mod K (if l =? 1 then nz else p - nz) p).

  (* Ctx::decode *)
  Definition decode (e : Z) : outcome Z :=
    if e >? q then (if p <? e then Panic else if p - e <? 1 then Panic else Ok (p - e - 1))
    else if e <? 1 then Panic else Ok (e - 1).

  (* generators_fips *)
  Fixpoint gen_try (fuel : nat) (buf : bytes) (index count : Z) : outcome (Z * bytes) :=
    match fuel with
    | O => Panic   (* model fuel exhausted — excluded by theorem statements *)
    | S f =>
        let count' := count + 1 in
        let buf' := buf ++ u64le index ++ u64le count' in
        let g := k_powm K (z_hash_to_element buf') (p_cof P) p in
        if g >=? 2 then Ok (g, buf') else gen_try f buf' index count'
    end.

  Fixpoint generators_from (n : nat) (prefix : bytes) (index : Z) : outcome (list Z) :=
    match n with
    | O => Ok []
    | S k =>
        let index' := index + 1 in
        match gen_try 64 prefix index' 0 with
        | Ok (g, _) => match generators_from k prefix index' with
                       | Ok l => Ok (g :: l) | Err => Err | Panic => Panic end
        | Err => Err | Panic => Panic
        end
    end.

  Definition generators (size : nat) (seed : bytes) : outcome (list Z) :=
    generators_from size (seed ++ [103; 103; 101; 110]) 0.
End Z.
