(* Model/Params2048.v — the shipped parameter set P2048, built from the regenerated constants. *)
From Coq Require Import ZArith.
From Strand Require Import Generated.Constants Model.ZBackend.
Definition P2048 : Params := {| p_p := p2048; p_q := q2048; p_g := g2048; p_cof := cofactor2048 |}.
