(* Model/Codec.v — byte-level model of the wire primitives: integers <-> bytes as num-bigint
   (minimal little-endian, 0 |-> [0]) and malachite (big-endian base-256 digits, 0 |-> []) produce
   them, and the borsh 0.9.3 rules used by strand (u32/u64 LE, Vec<u8>, Vec<Vec<u8>>, fixed arrays,
   strict top-level decode). Bytes are Z in [0,256). No proofs here. *)
From Coq Require Import ZArith List Bool Lia.
From Strand Require Import Model.Outcome.
Import ListNotations.
Open Scope Z_scope.

Definition bytes := list Z.

Definition byteb (b : Z) : bool := (0 <=? b) && (b <? 256).
Definition bytesb (bs : bytes) : bool := forallb byteb bs.

(* ---- integers ---- *)
Definition le_int (bs : bytes) : Z := fold_right (fun b acc => b + 256 * acc) 0 bs.
Definition be_int (bs : bytes) : Z := fold_left (fun acc b => acc * 256 + b) bs 0.

Fixpoint le_digits_fuel (fuel : nat) (x : Z) : bytes :=
  match fuel with
  | O => []
  | S f => if x <=? 0 then [] else (x mod 256) :: le_digits_fuel f (x / 256)
  end.
(* base-256 digits of x, least significant first, none for 0 *)
Definition le_digits (x : Z) : bytes := le_digits_fuel (S (Z.to_nat (Z.log2 x / 8))) x.
(* BigUint::to_bytes_le *)
Definition le_bytes_min (x : Z) : bytes := if x <=? 0 then [0] else le_digits x.
(* Natural::to_digits_desc(&256) *)
Definition be_digits (x : Z) : bytes := rev (le_digits x).

Fixpoint le_fixed (n : nat) (x : Z) : bytes :=
  match n with O => [] | S k => (x mod 256) :: le_fixed k (x / 256) end.
Definition u16le := le_fixed 2.
Definition u32le := le_fixed 4.
Definition u64le := le_fixed 8.

(* ---- borsh readers: bytes -> outcome (value * rest) ---- *)
Definition reader (A : Type) := bytes -> outcome (A * bytes).

Definition take_n (n : nat) : reader bytes := fun bs =>
  if (n <=? length bs)%nat then Ok (firstn n bs, skipn n bs) else Err.

Definition rd_u32 : reader Z := fun bs =>
  match take_n 4 bs with Ok (b, r) => Ok (le_int b, r) | Err => Err | Panic => Panic end.
Definition rd_u16 : reader Z := fun bs =>
  match take_n 2 bs with Ok (b, r) => Ok (le_int b, r) | Err => Err | Panic => Panic end.

(* Vec<u8>: u32 length, then that many bytes (checked against the remaining input first) *)
Definition rd_vec_u8 : reader bytes := fun bs =>
  match rd_u32 bs with
  | Ok (n, r) =>
      (* compare in Z first: the length prefix is attacker-chosen (up to 2^32-1) and must never be
         turned into a unary nat unless it is backed by input *)
      if n <=? Z.of_nat (length r) then take_n (Z.to_nat n) r else Err
  | Err => Err | Panic => Panic
  end.

(* n items with the same reader *)
Fixpoint rd_n {A} (rd : reader A) (n : nat) : reader (list A) := fun bs =>
  match n with
  | O => Ok ([], bs)
  | S k => match rd bs with
           | Ok (a, r) => match rd_n rd k r with
                          | Ok (l, r') => Ok (a :: l, r')
                          | Err => Err | Panic => Panic end
           | Err => Err | Panic => Panic
           end
  end.

(* Vec<T> for a non-u8 T.  A u32 count can exceed the remaining input by far; the model stops at the
   first failing item exactly like the push loop, but to stay total and cheap it first refuses counts
   larger than the remaining byte count when every item needs at least [minsz] >= 1 bytes — the same
   verdict the loop reaches (it runs out of input), see Proofs/Codec.v. *)
Definition rd_vec {A} (minsz : nat) (rd : reader A) : reader (list A) := fun bs =>
  match rd_u32 bs with
  | Ok (n, r) => if n * Z.of_nat minsz <=? Z.of_nat (length r) then rd_n rd (Z.to_nat n) r else Err
  | Err => Err | Panic => Panic
  end.

Definition strict {A} (rd : reader A) (bs : bytes) : outcome A :=
  match rd bs with
  | Ok (a, []) => Ok a
  | Ok (_, _ :: _) => Err
  | Err => Err | Panic => Panic
  end.

(* ---- writers ---- *)
Definition wr_vec_u8 (b : bytes) : bytes := u32le (Z.of_nat (length b)) ++ b.
Definition wr_vec {A} (wr : A -> bytes) (l : list A) : bytes :=
  u32le (Z.of_nat (length l)) ++ flat_map wr l.
