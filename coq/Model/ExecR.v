(* Model/ExecR.v — the correspondence interpreter for the ristretto backend (ctx "R"). Same operation
   names and argument shapes as Model/Exec.v, except that group elements travel as their 32-byte
   compressed encoding (VB) — an argument that does not decompress makes the case malformed (VBad) — and
   plaintexts as 30 bytes. Exponents are integers. No proofs here. *)
From Coq Require Import ZArith List Bool String.
From Strand Require Import Base.ZUtil Model.Outcome Model.Codec Model.Sha512 Model.Keccak Model.Backend
  Model.Zkp Model.Shuffler Model.Keymaker Model.Ristretto Model.RistrettoFast Model.RBackend Model.Ed25519 Model.Rng Model.Exec.
Import ListNotations.
Open Scope list_scope.
Open Scope Z_scope.

Section ExecR.
  Variable K : Kernel.
  Variable PM : PMul.
  Let B := RB K PM.

  Definition vE (p : point) : val := VB (compress K p).
  Definition gE (v : val) : option point := match v with VB b => decompress K b | _ => None end.
  Definition gOptE (v : val) : option (option point) :=
    match v with VNone => Some None | VB b => match decompress K b with Some p => Some (Some p) | None => None end | _ => None end.
  Fixpoint gEs (l : list val) : option (list point) :=
    match l with
    | [] => Some []
    | v :: r => match gE v, gEs r with Some p, Some ps => Some (p :: ps) | _, _ => None end
    end.
  Definition vEs (l : list point) : val := VL (map vE l).
  Definition rZs (l : list Z) : val := VL (map VZ l).

  Definition r_ct (c : ctext B) : val := VL [vE (mhr c); vE (gr c)].
  Definition gr_ct (v : val) : option (ctext B) :=
    match v with
    | VL [a; b] => match gE a, gE b with Some x, Some y => Some (Build_ctext B x y) | _, _ => None end
    | _ => None end.
  Fixpoint gr_cts (l : list val) : option (list (ctext B)) :=
    match l with
    | [] => Some []
    | v :: r => match gr_ct v, gr_cts r with Some c, Some cs => Some (c :: cs) | _, _ => None end
    end.
  Definition r_schnorr (s : schnorr B) : val := VL [vE (s_com B s); VZ (s_chal B s); VZ (s_resp B s)].
  Definition gr_schnorr (v : val) : option (schnorr B) :=
    match v with
    | VL [a; VZ c; VZ s] => match gE a with Some x => Some (Build_schnorr B x c s) | None => None end
    | _ => None end.
  Definition r_cp (s : cproof B) : val := VL [vE (c_com1 B s); vE (c_com2 B s); VZ (c_chal B s); VZ (c_resp B s)].
  Definition gr_cp (v : val) : option (cproof B) :=
    match v with
    | VL [a; b; VZ c; VZ s] =>
        match gE a, gE b with Some x, Some y => Some (Build_cproof B x y c s) | _, _ => None end
    | _ => None end.
  Fixpoint gr_cps (l : list val) : option (list (cproof B)) :=
    match l with
    | [] => Some []
    | v :: r => match gr_cp v, gr_cps r with Some c, Some cs => Some (c :: cs) | _, _ => None end
    end.
  Fixpoint gr_LLE (l : list val) : option (list (list point)) :=
    match l with
    | [] => Some []
    | VL v :: r => match gEs v, gr_LLE r with Some c, Some cs => Some (c :: cs) | _, _ => None end
    | _ => None
    end.

  Definition oE (o : outcome point) : val := omap vE o.

  (* ---------- arithmetic, codecs ---------- *)
  Definition execr_arith (op : string) (args : list val) : option val :=
    match args with
    | [] =>
        if opis op "gen" then Some (vE (b_gen B)) else
        if opis op "one" then Some (vE (b_one B)) else
        if opis op "xzero" then Some (VZ 0) else if opis op "xone" then Some (VZ 1) else None
    | [VZ a] =>
        if opis op "gpow" then Some (vE (b_gpow B a)) else
        if opis op "xmodq" then Some (VZ (b_xmodq B a)) else
        if opis op "cexpmodulo" then Some (VZ (b_xmodq B a)) else
        if opis op "xinvq" then Some (of_outZ (b_xinvq B a)) else
        if opis op "xfrom_u64" then Some (VZ (b_from_u64 B a)) else
        if opis op "pk_of_sk" then Some (vE (pk_of_sk B a)) else
        if opis op "ser_x" then Some (VB (sc_to_bytes a)) else
        None
    | [VB b] =>
        if opis op "hash_to_exp" then Some (VZ (b_hash_to_exp B b)) else
        if opis op "e_from_bytes" then Some (oE (r_element_from_bytes K b)) else
        if opis op "x_from_bytes" then Some (of_outZ (r_exp_from_bytes b)) else
        if opis op "encode" then Some (oE (r_encode K b)) else
        if opis op "de_e" then Some (oE (strict (rd_RE K) b)) else
        if opis op "de_pk" then Some (oE (strict (rd_RE K) b)) else
        if opis op "de_x" then Some (of_outZ (strict rd_RX b)) else
        if opis op "de_p" then Some (of_outB (strict rd_RP b)) else
        if opis op "ser_p" then Some (VB b) else
        if opis op "de_c" then Some (omap r_ct (strict (rd_Rct K PM) b)) else
        if opis op "de_sk" then
          Some (omap (fun ve => VL [VB (sc_to_bytes (fst ve) ++ compress K (snd ve)); vE (snd ve)]) (strict (rd_Rsk K) b)) else
        if opis op "de_schnorr" then Some (omap r_schnorr (strict (rd_Rschnorr K PM) b)) else
        if opis op "de_cp" then Some (omap r_cp (strict (rd_Rcp K PM) b)) else
        if opis op "de_vec_e" then Some (omap vEs (strict (rd_Rsvec (rd_RE K)) b)) else
        if opis op "de_vec_x" then Some (omap rZs (strict (rd_Rsvec rd_RX) b)) else
        if opis op "de_vec_p" then Some (omap (fun l => VL (map VB l)) (strict (rd_Rsvec rd_RP) b)) else
        if opis op "de_vec_c" then Some (omap (fun l => VL (map r_ct l)) (strict (rd_Rsvec (rd_Rct K PM)) b)) else
        if opis op "de_vec_cp" then Some (omap (fun l => VL (map r_cp l)) (strict (rd_Rsvec (rd_Rcp K PM)) b)) else
        if opis op "de_plain_vec_c" then Some (omap (fun l => VL (map r_ct l)) (strict (rd_vec 64 (rd_Rct K PM)) b)) else
        if opis op "de_proof" then Some (omap (fun p => VB (wr_Rproof K PM p)) (strict (rd_Rproof K PM) b)) else
        (* element-valued single argument *)
        match decompress K b with
        | Some a =>
            if opis op "emodp" then Some (vE (b_modp B a)) else
            if opis op "cmodulo" then Some (vE (b_modp B a)) else
            if opis op "einvp" then Some (oE (b_invp B a)) else
            if opis op "decode" then Some (VB (r_decode K a)) else
            if opis op "ser_e" then Some (VB (compress K a)) else
            if opis op "ser_pk" then Some (VB (compress K a)) else
            None
        | None => None
        end
    | [VB a; VB b] =>
        match decompress K a, decompress K b with
        | Some x, Some y =>
            if opis op "emul" then Some (vE (b_mul B x y)) else
            if opis op "emulp" then Some (vE (b_mulp B x y)) else
            if opis op "edivp" then Some (oE (b_divp B x y)) else
            if opis op "eeq" then Some (VBool (b_eqb B x y)) else
            None
        | _, _ => None
        end
    | [VB a; VZ x] =>
        if opis op "decrypt_exp" then Some (of_outZ (r_decrypt_exp K PM a x)) else
        match decompress K a with
        | Some e => if opis op "epow" then Some (vE (b_pow B e x)) else None
        | None => None
        end
    | [VZ a; VZ b] =>
        if opis op "xadd" then Some (VZ (b_xadd B a b)) else
        if opis op "xsub" then Some (of_outZ (b_xsub B a b)) else
        if opis op "xmul" then Some (VZ (b_xmul B a b)) else
        if opis op "xdivq" then Some (of_outZ (b_xdivq B a b)) else
        if opis op "xsubmod" then Some (of_outZ (b_sub_mod B a b)) else
        None
    | [VZ x; VB pk; VZ r1; VZ r2] =>
        match decompress K pk with
        | Some pk' => if opis op "encrypt_exp_r" then Some (of_outB (r_encrypt_exp K PM x pk' r1 r2)) else None
        | None => None
        end
    | [VL l] =>
        if opis op "ser_c" then match gr_ct (VL l) with Some c => Some (VB (r_ser_ct K PM c)) | None => None end else
        if opis op "ser_schnorr" then match gr_schnorr (VL l) with Some s => Some (VB (wr_Rschnorr K PM s)) | None => None end else
        if opis op "ser_cp" then match gr_cp (VL l) with Some s => Some (VB (wr_Rcp K PM s)) | None => None end else
        if opis op "ser_vec_e" then match gEs l with Some es => Some (VB (wr_Rsvec (compress K) es)) | None => None end else
        if opis op "ser_vec_x" then match gZs l with Some zs => Some (VB (wr_Rsvec sc_to_bytes zs)) | None => None end else
        if opis op "ser_vec_c" then match gr_cts l with Some cs => Some (VB (wr_Rsvec (r_ser_ct K PM) cs)) | None => None end else
        None
    | _ => None
    end.

  (* ---------- ElGamal and sigma proofs ---------- *)
  Definition execr_proto (op : string) (args : list val) : option val :=
    match args with
    | [VB pk; VB m; VZ r] =>
        match decompress K pk, decompress K m with
        | Some pk', Some m' =>
            if opis op "encrypt_r" then Some (r_ct (encrypt_with_randomness B pk' m' r)) else None
        | _, _ => None end
    | [VB pk; VZ m; VZ r] =>
        match decompress K pk with
        | Some pk' => if opis op "encrypt_exponential_r" then Some (r_ct (encrypt_exponential B pk' m r)) else None
        | None => None end
    | [VZ sk; VL c] =>
        match gr_ct (VL c) with
        | Some c' =>
            if opis op "decrypt" then Some (oE (decrypt B sk c')) else
            if opis op "decryption_factor" then Some (vE (decryption_factor B sk c')) else None
        | None => None end
    | [VB pk; VB m; VB label; VZ r; VZ nonce] =>
        match decompress K pk, decompress K m with
        | Some pk', Some m' =>
            if opis op "encrypt_and_pok_r" then
              let '(c, pf) := encrypt_and_pok B pk' m' label r nonce in Some (VL [r_ct c; r_schnorr pf])
            else None
        | _, _ => None end
    | [VZ sk; VL c; VB label; VZ r] =>
        match gr_ct (VL c) with
        | Some c' =>
            if opis op "decrypt_and_prove_r" then
              Some (omap (fun dp => VL [vE (fst dp); r_cp (snd dp)]) (decrypt_and_prove B sk (pk_of_sk B sk) c' label r)) else
            if opis op "km_decryption_factor_r" then
              let '(f, pf) := km_decryption_factor B sk c' label r in Some (VL [vE f; r_cp pf])
            else None
        | None => None end
    | [VZ secret; VB pub; g; VB label; VZ r] =>
        match decompress K pub, gOptE g with
        | Some pub', Some g' =>
            if opis op "schnorr_prove_r" then Some (r_schnorr (schnorr_prove B secret pub' g' label r)) else
            if opis op "popk_r" then
              match g' with Some g_r => Some (r_schnorr (encryption_popk B secret pub' g_r label r)) | None => None end
            else None
        | _, _ => None
        end
    | [VB pub; g; VL pf; VB label] =>
        match decompress K pub, gOptE g, gr_schnorr (VL pf) with
        | Some pub', Some g', Some pf' =>
            if opis op "schnorr_verify" then Some (VBool (schnorr_verify B pub' g' pf' label)) else
            if opis op "popk_verify" then
              match g' with Some g_r => Some (VBool (encryption_popk_verify B pub' g_r pf' label)) | None => None end
            else None
        | _, _, _ => None
        end
    | [VZ secret; VB pub1; VB pub2; g1; VB g2; VB label; VZ r] =>
        match decompress K pub1, decompress K pub2, gOptE g1, decompress K g2 with
        | Some p1, Some p2, Some g1', Some g2' =>
            if opis op "cp_prove_r" then Some (r_cp (cp_prove B secret p1 p2 g1' g2' label r)) else
            if opis op "dec_proof_r" then
              match g1' with
              | Some m => Some (r_cp (decryption_proof B secret p1 p2 m g2' label r))
              | None => None end
            else None
        | _, _, _, _ => None
        end
    | [VB pub1; VB pub2; g1; VB g2; VL pf; VB label] =>
        match decompress K pub1, decompress K pub2, gOptE g1, decompress K g2, gr_cp (VL pf) with
        | Some p1, Some p2, Some g1', Some g2', Some pf' =>
            if opis op "cp_verify" then Some (VBool (cp_verify B p1 p2 g1' g2' pf' label)) else
            if opis op "verify_decryption" then
              match g1' with
              | Some m => Some (VBool (verify_decryption B p1 p2 m g2' pf' label))
              | None => None end
            else None
        | _, _, _, _, _ => None
        end
    | _ => None
    end.

  (* ---------- samplers and generators ---------- *)
  Definition execr_rng (op : string) (args : list val) : option val :=
    match args with
    | [VB s] =>
        if opis op "rnd_exp" then Some (omap (fun xr => VL [VZ (fst xr); consumed s (snd xr)]) (r_rnd_exp K s)) else
        if opis op "rnd_plaintext" then Some (omap (fun xr => VL [VB (fst xr); consumed s (snd xr)]) (r_rnd_plaintext s)) else
        if opis op "rnd" then Some (omap (fun xr => VL [vE (fst xr); consumed s (snd xr)]) (r_rnd K s)) else
        if opis op "from_uniform" then Some (vE (from_uniform_bytes K s)) else
        None
    | [VZ n; VB s] =>
        if opis op "generators" then Some (vEs (r_generators K (Z.to_nat n) s)) else
        if opis op "gen_permutation" then
          Some (omap (fun pr => VL [rZs (fst pr); consumed s (snd pr)]) (gen_permutation (Z.to_nat n) s))
        else None
    | _ => None
    end.

  (* ---------- shuffle ---------- *)
  Definition execr_shuffle (op : string) (args : list val) : option val :=
    match args with
    | [VB pk; VL perm; VL cs; VL rs] =>
        if opis op "apply_permutation_r" then
          match decompress K pk, gZs perm, gr_cts cs, gZs rs with
          | Some pk', Some perm', Some cs', Some rs' =>
              Some (omap (fun o => VL [VL (map r_ct (fst o)); rZs (snd o)]) (apply_permutation B pk' perm' cs' rs'))
          | _, _, _, _ => None
          end
        else None
    | [VB pk; VL gens; VL es; VL eps; VL rps; VL perm; VB label; VL draws] =>
        if opis op "gen_proof_r" then
          match decompress K pk, gEs gens, gr_cts es, gr_cts eps, gZs rps, gZs perm, gZs draws with
          | Some pk', Some gens', Some es', Some eps', Some rps', Some perm', Some draws' =>
              Some (omap (fun p => VB (wr_Rproof K PM p)) (gen_proof B pk' gens' es' eps' rps' perm' label draws'))
          | _, _, _, _, _, _, _ => None
          end
        else None
    | [VB pk; VL gens; VB pfb; VL es; VL eps; VB label] =>
        if opis op "check_proof" then
          match decompress K pk, gEs gens, gr_cts es, gr_cts eps with
          | Some pk', Some gens', Some es', Some eps' =>
              match strict (rd_Rproof K PM) pfb with
              | Ok p => Some (omap VBool (check_proof B pk' gens' p es' eps' label))
              | Err => Some VErr
              | Panic => Some VPanic
              end
          | _, _, _, _ => None
          end
        else None
    | [VB pk; VL es; VL eps; VL cs; VZ n; VB label] =>
        if opis op "shuffle_us" then
          match gr_cts es, gr_cts eps, gEs cs with
          | Some es', Some eps', Some cs' => Some (rZs (shuffle_us B es' eps' cs' (Z.to_nat n) label))
          | _, _, _ => None
          end
        else None
    | [VB pk; VL es; VL eps; VB pfb; VB label] =>
        if opis op "shuffle_challenge" then
          match decompress K pk, gr_cts es, gr_cts eps with
          | Some pk', Some es', Some eps' =>
              match strict (rd_Rproof K PM) pfb with
              | Ok p => Some (VZ (shuffle_challenge B es' eps' (pf_cs B p) (pf_c_hats B p) pk' (pf_t B p) label))
              | Err => Some VErr
              | Panic => Some VPanic
              end
          | _, _, _ => None
          end
        else None
    | _ => None
    end.

  (* ---------- keymaker / threshold ---------- *)
  Definition execr_km (op : string) (args : list val) : option val :=
    match args with
    | [VZ sk; VB label; VZ r] =>
        if opis op "km_share_r" then
          let '(pk, pf) := km_share B sk label r in Some (VL [vE pk; r_schnorr pf]) else None
    | [VB pk; VL pf; VB label] =>
        if opis op "km_verify_share" then
          match decompress K pk, gr_schnorr (VL pf) with
          | Some pk', Some p => Some (VBool (km_verify_share B pk' p label))
          | _, _ => None end
        else None
    | [VL l] =>
        if opis op "combine_pks" then match gEs l with Some pks => Some (oE (combine_pks B pks)) | None => None end else
        if opis op "gen_coefficients_r" then
          match gZs l with
          | Some ds => let '(cf, cm) := gen_coefficients B ds in Some (VL [rZs cf; vEs cm])
          | None => None end
        else None
    | [VL a; VL b] =>
        if opis op "joint_dec" then
          match gEs a, gr_ct (VL b) with Some decs, Some c => Some (oE (joint_dec B decs c)) | _, _ => None end else
        if opis op "joint_dec_many" then
          match gr_LLE a, gr_cts b with Some decs, Some cs => Some (omap vEs (joint_dec_many B decs cs)) | _, _ => None end
        else None
    | [VB pk; VL cs; VL decs; VL proofs; VB label] =>
        if opis op "verify_decryption_factors" then
          match decompress K pk, gr_cts cs, gEs decs, gr_cps proofs with
          | Some pk', Some cs', Some decs', Some pfs => Some (omap VBool (verify_decryption_factors B pk' cs' decs' pfs label))
          | _, _, _, _ => None end
        else None
    | [VZ a; VZ t; VL coeffs] =>
        match gZs coeffs with
        | Some cf =>
            if opis op "eval_poly" then Some (of_outZ (eval_poly B a (Z.to_nat t) cf)) else
            if opis op "compute_peer_share" then Some (of_outZ (compute_peer_share B a (Z.to_nat t) cf)) else None
        | None => None end
    | [VL comms; VZ t; VZ recv] =>
        if opis op "verification_key_factor" then
          match gEs comms with Some cm => Some (vE (verification_key_factor B cm (Z.to_nat t) recv)) | None => None end
        else None
    | [VL c; VZ share; VB vk; VB label; VZ r] =>
        if opis op "th_decryption_factor_r" then
          match gr_ct (VL c), decompress K vk with
          | Some c', Some vk' => let '(f, pf) := th_decryption_factor B c' share vk' label r in Some (VL [vE f; r_cp pf])
          | _, _ => None end
        else None
    | [VZ trustee; VL present] =>
        if opis op "lagrange" then
          match gZs present with Some ps => Some (of_outZ (lagrange B trustee ps)) | None => None end
        else None
    | _ => None
    end.

  (* ---------- Ed25519 (Model/Ed25519.v): keys and signatures are byte strings ---------- *)
  Definition execr_ed (op : string) (args : list val) : option val :=
    match args with
    | [VB seed] =>
        if opis op "ed_pk" then Some (VB (ed_pk K PM seed)) else
        if opis op "ed_pk_unreduced" then Some (VB (ed_pk_unreduced K PM seed)) else None
    | [VB seed; VB msg] =>
        if opis op "ed_sign" then Some (VB (ed_sign K PM seed msg)) else None
    | [VB pk; VB sg; VB msg] =>
        if opis op "ed_verify_z" then Some (omap VBool (ed_verify_zebra K PM pk sg msg)) else
        if opis op "ed_verify_d" then Some (omap VBool (ed_verify_dalek K PM pk sg msg)) else None
    | _ => None
    end.

  Definition exec_r (op : string) (args : list val) : val :=
    match execr_ed op args with Some v => v | None =>
    match execr_arith op args with Some v => v | None =>
    match execr_proto op args with Some v => v | None =>
    match execr_rng op args with Some v => v | None =>
    match execr_shuffle op args with Some v => v | None =>
    match execr_km op args with Some v => v | None => VBad
    end end end end end end.
End ExecR.

(* a ristretto correspondence case: operation, arguments, what the implementation returned *)
Definition rcase := (string * list val * val)%type.
Fixpoint rmismatches_from (K : Kernel) (PM : PMul) (i : Z) (cs : list rcase) : list (Z * val) :=
  match cs with
  | [] => []
  | (op, args, expected) :: r =>
      let m := exec_r K PM op args in
      if val_eqb m expected then rmismatches_from K PM (i + 1) r
      else (i, m) :: rmismatches_from K PM (i + 1) r
  end.
Definition rmismatches (K : Kernel) (PM : PMul) (cs : list rcase) := rmismatches_from K PM 0 cs.
