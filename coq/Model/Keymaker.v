(* Model/Keymaker.v — src/keymaker.rs (n-of-n distributed ElGamal) and src/threshold.rs (t-of-n) over
   the Backend record. `verification_key_factor` follows the repaired code (power accumulated in the
   exponent ring, like eval_poly). No proofs here. *)
From Coq Require Import ZArith List Bool.
From Strand Require Import Model.Outcome Model.Codec Model.Backend Model.Zkp.
Import ListNotations.
Open Scope Z_scope.

Section Keymaker.
  Variable B : Backend.
  Notation Et := (E B).
  Notation mulp := (b_mulp B).
  Notation pow := (b_pow B).
  Local Open Scope outcome_scope.

  (* Keymaker::share / verify_share *)
  Definition km_share (sk : Z) (label : bytes) (r : Z) : Et * schnorr B :=
    let pk := pk_of_sk B sk in (pk, schnorr_prove B sk pk None label r).
  Definition km_verify_share (pk : Et) (pf : schnorr B) (label : bytes) : bool :=
    schnorr_verify B pk None pf label.

  (* Keymaker::combine_pks: acc = pks[0]; acc = acc.mul(pk).modp() for the rest *)
  Definition combine_pks (pks : list Et) : outcome Et :=
    match pks with [] => Panic | p0 :: rest => Ok (fold_left mulp rest p0) end.

  (* Keymaker::decryption_factor *)
  Definition km_decryption_factor (sk : Z) (c : ctext B) (label : bytes) (r : Z) : Et * cproof B :=
    let f := decryption_factor B sk c in
    (f, decryption_proof B sk (pk_of_sk B sk) f (mhr c) (gr c) label r).

  (* Keymaker::joint_dec *)
  Definition joint_dec (decs : list Et) (c : ctext B) : outcome Et :=
    match decs with
    | [] => Panic
    | d0 :: rest => d <- b_divp B (mhr c) (fold_left mulp rest d0) ;; Ok (b_modp B d)
    end.

  (* Keymaker::joint_dec_many: position-wise over the ciphertext list *)
  Definition joint_dec_many (decs : list (list Et)) (cs : list (ctext B)) : outcome (list Et) :=
    mapM (fun ic : nat * ctext B =>
            let '(i, c) := ic in
            col <- mapM (fun row => of_option (nth_error row i)) decs ;;
            joint_dec col c)
         (combine (seq 0 (length cs)) cs).

  (* Keymaker::verify_decryption_factors *)
  Definition verify_decryption_factors (pk : Et) (cs : list (ctext B)) (decs : list Et)
             (proofs : list (cproof B)) (label : bytes) : outcome bool :=
    if negb ((length decs =? length proofs) && (length decs =? length cs))%nat then Panic
    else Ok (forallb (fun x : ctext B * (Et * cproof B) =>
                        let '(c, (d, pf)) := x in verify_decryption B pk d (mhr c) (gr c) pf label)
                     (combine cs (combine decs proofs))).

  (* ---------- threshold.rs ---------- *)
  Definition gen_coefficients (draws : list Z) : list Z * list Et :=
    (draws, map (b_gpow B) draws).

  (* eval_poly: Horner-free evaluation with a running power, everything reduced mod q *)
  Definition eval_poly (trustee : Z) (threshold : nat) (coeffs : list Z) : outcome Z :=
    match coeffs with
    | [] => Panic
    | c0 :: _ =>
        let t := b_from_u64 B trustee in
        let '(sum, _) :=
          fold_left (fun (sp : Z * Z) coefficient =>
                       let '(sum, power) := sp in
                       let power' := b_xmodq B (b_xmul B power t) in
                       (b_xadd B sum (b_xmodq B (b_xmul B coefficient power')), power'))
                    (skipn 1 (firstn threshold coeffs)) (c0, 1) in
        Ok (b_xmodq B sum)
    end.

  Definition compute_peer_share (target : Z) (threshold : nat) (coeffs : list Z) : outcome Z :=
    eval_poly (target + 1) threshold coeffs.

  (* verification_key_factor (repaired): prod_i commitment_i ^ ((receiver+1)^i mod q) *)
  Definition verification_key_factor (commitments : list Et) (threshold : nat) (receiver : Z) : Et :=
    let t := b_from_u64 B (receiver + 1) in
    fst (fold_left (fun (ap : Et * Z) commitment =>
                      let '(accum, power) := ap in
                      (mulp accum (pow commitment power), b_xmodq B (b_xmul B power t)))
                   (firstn threshold commitments) (b_one B, 1)).

  Definition th_decryption_factor (c : ctext B) (share : Z) (v_key : Et) (label : bytes) (r : Z) : Et * cproof B :=
    let f := pow (gr c) share in
    (f, decryption_proof B share v_key f (mhr c) (gr c) label r).

  (* lagrange: numerator * denominator^-1, NOT reduced (divq) *)
  Definition lagrange (trustee : Z) (present : list Z) : outcome Z :=
    let t := b_from_u64 B trustee in
    nd <- fold_left (fun (acc : outcome (Z * Z)) p =>
                       '(num, den) <- acc ;;
                       if p =? trustee then Ok (num, den)
                       else
                         let pe := b_from_u64 B p in
                         d <- b_sub_mod B pe t ;;
                         Ok (b_xmodq B (b_xmul B num pe), b_xmodq B (b_xmul B den (b_xmodq B d))))
                    present (Ok (1, 1)) ;;
    b_xdivq B (fst nd) (snd nd).
End Keymaker.
