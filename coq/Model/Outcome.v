(* Model/Outcome.v — result type of the code-shaped model: every Rust `expect`/`unwrap`/index/`assert!`/
   BigUint underflow is an explicit [Panic]; every `Err(..)` is [Err]. *)
From Coq Require Import List.
Import ListNotations.

Inductive outcome (A : Type) : Type :=
| Ok (a : A)
| Err
| Panic.
Arguments Ok {A} a.
Arguments Err {A}.
Arguments Panic {A}.

Definition bind {A B} (o : outcome A) (f : A -> outcome B) : outcome B :=
  match o with Ok a => f a | Err => Err | Panic => Panic end.

Declare Scope outcome_scope.
Delimit Scope outcome_scope with outcome.
Notation "x <- o ;; k" := (bind o (fun x => k))
  (at level 61, o at next level, right associativity) : outcome_scope.
Notation "' p <- o ;; k" := (bind o (fun x => match x with p => k end))
  (at level 61, p pattern, o at next level, right associativity) : outcome_scope.

Definition of_option {A} (o : option A) : outcome A :=
  match o with Some a => Ok a | None => Panic end.   (* Option::expect / index out of bounds *)

Definition of_option_err {A} (o : option A) : outcome A :=
  match o with Some a => Ok a | None => Err end.

Definition is_ok {A} (o : outcome A) : bool := match o with Ok _ => true | _ => false end.

(* map over a list, first non-Ok outcome wins (sequential `collect::<Result<_,_>>`) *)
Fixpoint mapM {A B} (f : A -> outcome B) (l : list A) : outcome (list B) :=
  match l with
  | [] => Ok []
  | x :: r => match f x with
              | Ok y => match mapM f r with Ok ys => Ok (y :: ys) | Err => Err | Panic => Panic end
              | Err => Err
              | Panic => Panic
              end
  end.

Lemma bind_ok {A B} (o : outcome A) (f : A -> outcome B) b :
  bind o f = Ok b -> exists a, o = Ok a /\ f a = Ok b.
Proof. destruct o; simpl; intros H; try discriminate. eauto. Qed.
