(* Model/Zkp.v — src/elgamal.rs and src/zkp.rs over the Backend record: ElGamal, ChallengeInput
   (string-keyed map, borsh-serialised sorted by key), Schnorr and Chaum-Pedersen provers/verifiers and
   their ciphertext-bound wrappers. Randomness is an explicit argument. No proofs here. *)
From Coq Require Import ZArith List Bool String.
From Strand Require Import Model.Outcome Model.Codec Model.Sha512 Model.Backend.
Import ListNotations.
Open Scope list_scope.
Open Scope Z_scope.

(* ---------- ChallengeInput ---------- *)
Fixpoint bytes_eqb (a b : bytes) : bool :=
  match a, b with
  | [], [] => true
  | x :: a', y :: b' => (x =? y) && bytes_eqb a' b'
  | _, _ => false
  end.

(* lexicographic <= on byte strings (Rust String/Vec<u8> ordering) *)
Fixpoint bytes_leb (a b : bytes) : bool :=
  match a, b with
  | [], _ => true
  | _ :: _, [] => false
  | x :: a', y :: b' => if x <? y then true else if y <? x then false else bytes_leb a' b'
  end.

Definition entry := (bytes * bytes)%type.
Definition cinput := list entry.

(* HashMap::insert: replaces an existing entry with the same key *)
Definition ci_insert (k v : bytes) (m : cinput) : cinput :=
  (k, v) :: filter (fun kv => negb (bytes_eqb (fst kv) k)) m.

Fixpoint ci_sorted_insert (e : entry) (l : cinput) : cinput :=
  match l with
  | [] => [e]
  | x :: r => if bytes_leb (fst e) (fst x) then e :: l else x :: ci_sorted_insert e r
  end.
Definition ci_sort (m : cinput) : cinput := fold_right ci_sorted_insert [] m.

(* borsh of HashMap<String, Vec<u8>>: u32 count, then key/value pairs sorted by key *)
Definition ci_bytes (m : cinput) : bytes :=
  u32le (Z.of_nat (List.length m)) ++
  flat_map (fun kv => wr_vec_u8 (fst kv) ++ wr_vec_u8 (snd kv)) (ci_sort m).

Definition key (s : string) : bytes := bytes_of_string s.

Section Protocols.
  Variable B : Backend.
  Notation Et := (E B).
  Local Open Scope outcome_scope.

  (* ---------- ElGamal (src/elgamal.rs) ---------- *)
  Record ctext := { mhr : Et; gr : Et }.

  Definition encrypt_with_randomness (pk m : Et) (r : Z) : ctext :=
    {| mhr := b_modp B (b_mul B m (b_pow B pk r)); gr := b_gpow B r |}.

  Definition encrypt_exponential (pk : Et) (k r : Z) : ctext :=
    encrypt_with_randomness pk (b_gpow B k) r.

  Definition decrypt (sk : Z) (c : ctext) : outcome Et :=
    d <- b_divp B (mhr c) (b_pow B (gr c) sk) ;; Ok (b_modp B d).

  Definition decryption_factor (sk : Z) (c : ctext) : Et := b_pow B (gr c) sk.

  Definition pk_of_sk (sk : Z) : Et := b_gpow B sk.

  Definition ct_mul (c1 c2 : ctext) : ctext :=
    {| mhr := b_mulp B (mhr c1) (mhr c2); gr := b_mulp B (gr c1) (gr c2) |}.

  (* ---------- challenges ---------- *)
  (* context of the plain schnorr_*/cp_* entry points: {label: raw bytes} *)
  Definition ctx_label (label : bytes) : cinput := ci_insert (key "label") label [].
  (* context of encryption_popk / decryption_proof: {mhr: element, label: Vec<u8> borsh} *)
  Definition ctx_mhr_label (m : Et) (label : bytes) : cinput :=
    ci_insert (key "label") (wr_vec_u8 label) (ci_insert (key "mhr") (b_ser_e B m) []).

  Definition schnorr_transcript (g pub com : Et) (context : cinput) : bytes :=
    ci_bytes (ci_insert (key "context") (ci_bytes context)
             (ci_insert (key "commitment") (b_ser_e B com)
             (ci_insert (key "public") (b_ser_e B pub)
             (ci_insert (key "g") (b_ser_e B g) [])))).

  Definition schnorr_challenge (g pub com : Et) (context : cinput) : Z :=
    b_hash_to_exp B (schnorr_transcript g pub com context).

  Definition cp_transcript (g1 g2 pub1 pub2 com1 com2 : Et) (context : cinput) : bytes :=
    ci_bytes (ci_insert (key "context") (ci_bytes context)
             (ci_insert (key "commitment2") (b_ser_e B com2)
             (ci_insert (key "commitment1") (b_ser_e B com1)
             (ci_insert (key "public2") (b_ser_e B pub2)
             (ci_insert (key "public1") (b_ser_e B pub1)
             (ci_insert (key "g2") (b_ser_e B g2)
             (ci_insert (key "g1") (b_ser_e B g1) []))))))).

  Definition cp_challenge (g1 g2 pub1 pub2 com1 com2 : Et) (context : cinput) : Z :=
    b_hash_to_exp B (cp_transcript g1 g2 pub1 pub2 com1 com2 context).

  (* ---------- Schnorr ---------- *)
  Record schnorr := { s_com : Et; s_chal : Z; s_resp : Z }.

  Definition base_or_gen (g : option Et) : Et := match g with Some g' => g' | None => b_gen B end.

  Definition schnorr_prove_private (secret : Z) (pub : Et) (g : option Et) (context : cinput) (r : Z) : schnorr :=
    let com := b_pow B (base_or_gen g) r in
    let c := schnorr_challenge (base_or_gen g) pub com context in
    {| s_com := com; s_chal := c; s_resp := b_xmodq B (b_xadd B r (b_xmul B c secret)) |}.

  Definition schnorr_verify_private (pub : Et) (g : option Et) (pf : schnorr) (context : cinput) : bool :=
    let c' := schnorr_challenge (base_or_gen g) pub (s_com pf) context in
    let ok1 := c' =? s_chal pf in
    let lhs := b_pow B (base_or_gen g) (s_resp pf) in
    let rhs := b_modp B (b_mul B (s_com pf) (b_pow B pub (s_chal pf))) in
    ok1 && b_eqb B lhs rhs.

  Definition schnorr_prove secret pub g (label : bytes) r :=
    schnorr_prove_private secret pub g (ctx_label label) r.
  Definition schnorr_verify pub g pf (label : bytes) :=
    schnorr_verify_private pub g pf (ctx_label label).

  Definition encryption_popk (secret : Z) (m g_r : Et) (label : bytes) (r : Z) : schnorr :=
    schnorr_prove_private secret g_r None (ctx_mhr_label m label) r.
  Definition encryption_popk_verify (m g_r : Et) (pf : schnorr) (label : bytes) : bool :=
    schnorr_verify_private g_r None pf (ctx_mhr_label m label).

  (* PublicKey::encrypt_and_pok with explicit draws: first the encryption randomness, then the nonce *)
  Definition encrypt_and_pok (pk m : Et) (label : bytes) (r nonce : Z) : ctext * schnorr :=
    let c := encrypt_with_randomness pk m r in
    (c, encryption_popk r (mhr c) (gr c) label nonce).

  (* ---------- Chaum-Pedersen ---------- *)
  Record cproof := { c_com1 : Et; c_com2 : Et; c_chal : Z; c_resp : Z }.

  Definition cp_prove_private (secret : Z) (pub1 pub2 : Et) (g1 : option Et) (g2 : Et)
             (context : cinput) (r : Z) : cproof :=
    let com1 := b_pow B (base_or_gen g1) r in
    let com2 := b_pow B g2 r in
    let c := cp_challenge (base_or_gen g1) g2 pub1 pub2 com1 com2 context in
    {| c_com1 := com1; c_com2 := com2; c_chal := c;
       c_resp := b_xmodq B (b_xadd B r (b_xmul B c secret)) |}.

  Definition cp_verify_private (pub1 pub2 : Et) (g1 : option Et) (g2 : Et) (pf : cproof)
             (context : cinput) : bool :=
    let c' := cp_challenge (base_or_gen g1) g2 pub1 pub2 (c_com1 pf) (c_com2 pf) context in
    let ok1 := c' =? c_chal pf in
    let lhs1 := b_pow B (base_or_gen g1) (c_resp pf) in
    let rhs1 := b_modp B (b_mul B (c_com1 pf) (b_pow B pub1 (c_chal pf))) in
    let lhs2 := b_pow B g2 (c_resp pf) in
    let rhs2 := b_modp B (b_mul B (c_com2 pf) (b_pow B pub2 (c_chal pf))) in
    ok1 && b_eqb B lhs1 rhs1 && b_eqb B lhs2 rhs2.

  Definition cp_prove secret pub1 pub2 g1 g2 (label : bytes) r :=
    cp_prove_private secret pub1 pub2 g1 g2 (ctx_label label) r.
  Definition cp_verify pub1 pub2 g1 g2 pf (label : bytes) :=
    cp_verify_private pub1 pub2 g1 g2 pf (ctx_label label).

  Definition decryption_proof (secret : Z) (pk dec_factor m g_r : Et) (label : bytes) (r : Z) : cproof :=
    cp_prove_private secret pk dec_factor None g_r (ctx_mhr_label m label) r.
  Definition verify_decryption (pk dec_factor m g_r : Et) (pf : cproof) (label : bytes) : bool :=
    cp_verify_private pk dec_factor None g_r pf (ctx_mhr_label m label).

  (* PrivateKey::decrypt_and_prove *)
  Definition decrypt_and_prove (sk : Z) (pk_el : Et) (c : ctext) (label : bytes) (r : Z)
    : outcome (Et * cproof) :=
    let f := b_pow B (gr c) sk in
    let pf := decryption_proof sk pk_el f (mhr c) (gr c) label r in
    d <- b_divp B (mhr c) f ;; Ok (b_modp B d, pf).
End Protocols.

Arguments mhr {B} c.
Arguments gr {B} c.
