(* Model/Sha512.v — executable SHA-512 (FIPS 180-4) over Z; bytes are Z in [0,256). No proofs here
   except the FIPS test vectors as Examples (kernel-computed). *)
From Coq Require Import ZArith List Bool.
Import ListNotations.
Open Scope Z_scope.

Definition w64 (x : Z) : Z := Z.land x 0xFFFFFFFFFFFFFFFF.
Definition rotr (n x : Z) : Z := Z.lor (Z.shiftr x n) (w64 (Z.shiftl x (64 - n))).
Definition shr (n x : Z) : Z := Z.shiftr x n.
Definition add64 (a b : Z) : Z := w64 (a + b).
Definition Ch (x y z : Z) := Z.lxor (Z.land x y) (Z.land (Z.lxor x 0xFFFFFFFFFFFFFFFF) z).
Definition Maj (x y z : Z) := Z.lxor (Z.lxor (Z.land x y) (Z.land x z)) (Z.land y z).
Definition bSig0 x := Z.lxor (Z.lxor (rotr 28 x) (rotr 34 x)) (rotr 39 x).
Definition bSig1 x := Z.lxor (Z.lxor (rotr 14 x) (rotr 18 x)) (rotr 41 x).
Definition sSig0 x := Z.lxor (Z.lxor (rotr 1 x) (rotr 8 x)) (shr 7 x).
Definition sSig1 x := Z.lxor (Z.lxor (rotr 19 x) (rotr 61 x)) (shr 6 x).

Definition K512 : list Z := [0x428a2f98d728ae22; 0x7137449123ef65cd; 0xb5c0fbcfec4d3b2f; 0xe9b5dba58189dbbc; 0x3956c25bf348b538; 0x59f111f1b605d019; 0x923f82a4af194f9b; 0xab1c5ed5da6d8118; 0xd807aa98a3030242; 0x12835b0145706fbe; 0x243185be4ee4b28c; 0x550c7dc3d5ffb4e2; 0x72be5d74f27b896f; 0x80deb1fe3b1696b1; 0x9bdc06a725c71235; 0xc19bf174cf692694; 0xe49b69c19ef14ad2; 0xefbe4786384f25e3; 0x0fc19dc68b8cd5b5; 0x240ca1cc77ac9c65; 0x2de92c6f592b0275; 0x4a7484aa6ea6e483; 0x5cb0a9dcbd41fbd4; 0x76f988da831153b5; 0x983e5152ee66dfab; 0xa831c66d2db43210; 0xb00327c898fb213f; 0xbf597fc7beef0ee4; 0xc6e00bf33da88fc2; 0xd5a79147930aa725; 0x06ca6351e003826f; 0x142929670a0e6e70; 0x27b70a8546d22ffc; 0x2e1b21385c26c926; 0x4d2c6dfc5ac42aed; 0x53380d139d95b3df; 0x650a73548baf63de; 0x766a0abb3c77b2a8; 0x81c2c92e47edaee6; 0x92722c851482353b; 0xa2bfe8a14cf10364; 0xa81a664bbc423001; 0xc24b8b70d0f89791; 0xc76c51a30654be30; 0xd192e819d6ef5218; 0xd69906245565a910; 0xf40e35855771202a; 0x106aa07032bbd1b8; 0x19a4c116b8d2d0c8; 0x1e376c085141ab53; 0x2748774cdf8eeb99; 0x34b0bcb5e19b48a8; 0x391c0cb3c5c95a63; 0x4ed8aa4ae3418acb; 0x5b9cca4f7763e373; 0x682e6ff3d6b2b8a3; 0x748f82ee5defb2fc; 0x78a5636f43172f60; 0x84c87814a1f0ab72; 0x8cc702081a6439ec; 0x90befffa23631e28; 0xa4506cebde82bde9; 0xbef9a3f7b2c67915; 0xc67178f2e372532b; 0xca273eceea26619c; 0xd186b8c721c0c207; 0xeada7dd6cde0eb1e; 0xf57d4f7fee6ed178; 0x06f067aa72176fba; 0x0a637dc5a2c898a6; 0x113f9804bef90dae; 0x1b710b35131c471b; 0x28db77f523047d84; 0x32caab7b40c72493; 0x3c9ebe0a15c9bebc; 0x431d67c49c100d4c; 0x4cc5d4becb3e42b6; 0x597f299cfc657e2a; 0x5fcb6fab3ad6faec; 0x6c44198c4a475817].
Definition H512 : list Z := [0x6a09e667f3bcc908; 0xbb67ae8584caa73b; 0x3c6ef372fe94f82b; 0xa54ff53a5f1d36f1; 0x510e527fade682d1; 0x9b05688c2b3e6c1f; 0x1f83d9abfb41bd6b; 0x5be0cd19137e2179].

(* big-endian integer of a byte list *)
Definition be_int (bs : list Z) : Z := fold_left (fun acc b => acc * 256 + b) bs 0.
(* n big-endian bytes of x *)
Fixpoint be_bytes (n : nat) (x : Z) : list Z :=
  match n with O => [] | S k => be_bytes k (x / 256) ++ [x mod 256] end.

Fixpoint chunks (fuel : nat) (n : nat) (l : list Z) : list (list Z) :=
  match fuel with
  | O => []
  | S f => match l with [] => [] | _ => firstn n l :: chunks f n (skipn n l) end
  end.

Definition pad512 (msg : list Z) : list Z :=
  let len := Z.of_nat (length msg) in
  let k := (111 - len) mod 128 in
  msg ++ [0x80] ++ repeat 0 (Z.to_nat k) ++ be_bytes 16 (len * 8).

(* message schedule: build W in reverse (most recent first) *)
Fixpoint sched (n : nat) (w : list Z) : list Z :=
  match n with
  | O => w
  | S k =>
      let nw := add64 (add64 (sSig1 (nth 1 w 0)) (nth 6 w 0)) (add64 (sSig0 (nth 14 w 0)) (nth 15 w 0)) in
      sched k (nw :: w)
  end.

Definition round (st : list Z) (kw : Z * Z) : list Z :=
  match st with
  | [a; b; c; d; e; f; g; h] =>
      let t1 := add64 (add64 (add64 h (bSig1 e)) (add64 (Ch e f g) (fst kw))) (snd kw) in
      let t2 := add64 (bSig0 a) (Maj a b c) in
      [add64 t1 t2; a; b; c; add64 d t1; e; f; g]
  | _ => st
  end.

Definition compress (st : list Z) (block : list Z) : list Z :=
  let w0 := map be_int (chunks 16 8 block) in
  let w := rev (sched 64 (rev w0)) in
  let st' := fold_left round (combine K512 w) st in
  map (fun ab => add64 (fst ab) (snd ab)) (combine st st').

Definition sha512 (msg : list Z) : list Z :=
  let p := pad512 msg in
  let blocks := chunks (S (length p / 128)) 128 p in
  flat_map (be_bytes 8) (fold_left compress blocks H512).

(* hex helpers for test vectors and the correspondence files *)
Definition hexdigit (c : Z) : Z :=
  if (48 <=? c) && (c <=? 57) then c - 48
  else if (97 <=? c) && (c <=? 102) then c - 87
  else if (65 <=? c) && (c <=? 70) then c - 55 else 0.

From Coq Require Import String Ascii.
Fixpoint hex_aux (s : string) : list Z :=
  match s with
  | String a (String b r) =>
      (hexdigit (Z.of_N (N_of_ascii a)) * 16 + hexdigit (Z.of_N (N_of_ascii b))) :: hex_aux r
  | _ => []
  end.
Definition hex (s : string) : list Z := hex_aux s.
Fixpoint bytes_of_string (s : string) : list Z :=
  match s with EmptyString => [] | String a r => Z.of_N (N_of_ascii a) :: bytes_of_string r end.

Example sha512_abc :
  sha512 (bytes_of_string "abc") =
  hex "ddaf35a193617abacc417349ae20413112e6fa4e89a97ea20a9eeee64b55d39a2192992a274fc1a836ba3c23a3feebbd454d4423643ce80e2a9ac94fa54ca49f".
Proof. vm_compute. reflexivity. Qed.

Example sha512_empty :
  sha512 [] =
  hex "cf83e1357eefb8bdf1542850d66d8007d620e4050b5715dc83f4a921d36ce9ce47d0d13c5d85f2b0ff8318d2877eec2f63b931bd47417a81a538327af927da3e".
Proof. vm_compute. reflexivity. Qed.

Example sha512_896bits :
  sha512 (bytes_of_string "abcdefghbcdefghicdefghijdefghijkefghijklfghijklmghijklmnhijklmnoijklmnopjklmnopqklmnopqrlmnopqrsmnopqrstnopqrstu") =
  hex "8e959b75dae313da8cf4f72814fc143f8f7779c6eb9f7fa17299aeadb6889018501d289e4900f7e4331b99dec4b5433ac7d329eeb6dd26545e96e55b874be909".
Proof. vm_compute. reflexivity. Qed.
