(* Model/Base64.v — executable model of the string form of Ed25519 keys/signatures in strand's
   signature wrapper: base64 with the Rust `base64` 0.21 engine `general_purpose::STANDARD_NO_PAD`
   (alphabet A-Z a-z 0-9 + /, no padding written, padding REJECTED on decode
   (`DecodePaddingMode::RequireNone`), every byte outside the alphabet rejected, length 1 mod 4
   rejected, non-zero trailing bits rejected (`decode_allow_trailing_bits = false`)), and of the
   wrapper itself, parametrised by the underlying Ed25519 library (zebra / dalek) as oracles.
   Text is a list of ASCII codes ([bytes]).  No proofs here; see Proofs/Base64P.v. *)
From Coq Require Import ZArith List Bool Lia.
From Coq Require String Ascii.
Import String.StringSyntax.
Delimit Scope string_scope with string.
From Strand Require Import Model.Outcome Model.Codec.
Import ListNotations.
Open Scope Z_scope.

(* ---- sextet <-> ASCII ---- *)
Definition alphabet : list Z :=
  [ 65; 66; 67; 68; 69; 70; 71; 72; 73; 74; 75; 76; 77; 78; 79; 80;      (* A-P *)
    81; 82; 83; 84; 85; 86; 87; 88; 89; 90;                               (* Q-Z *)
    97; 98; 99;100;101;102;103;104;105;106;107;108;109;110;111;112;      (* a-p *)
   113;114;115;116;117;118;119;120;121;122;                               (* q-z *)
    48; 49; 50; 51; 52; 53; 54; 55; 56; 57;                               (* 0-9 *)
    43; 47 ].                                                             (* + / *)

Definition sym (x : Z) : Z := nth (Z.to_nat x) alphabet 0.

Definition unsym (c : Z) : option Z :=
  if (65 <=? c) && (c <=? 90) then Some (c - 65)
  else if (97 <=? c) && (c <=? 122) then Some (c - 71)
  else if (48 <=? c) && (c <=? 57) then Some (c + 4)
  else if c =? 43 then Some 62
  else if c =? 47 then Some 63
  else None.                       (* '=' (61), whitespace, '-', '_', anything else, anything >= 128 *)

(* ---- groups ---- *)
Definition enc3 (a b c : Z) : bytes :=
  [ sym (a / 4); sym ((a mod 4) * 16 + b / 16); sym ((b mod 16) * 4 + c / 64); sym (c mod 64) ].
Definition enc2 (a b : Z) : bytes :=
  [ sym (a / 4); sym ((a mod 4) * 16 + b / 16); sym ((b mod 16) * 4) ].
Definition enc1 (a : Z) : bytes :=
  [ sym (a / 4); sym ((a mod 4) * 16) ].

(* four symbols -> three bytes *)
Definition dec4 (c1 c2 c3 c4 : Z) : option bytes :=
  match unsym c1, unsym c2, unsym c3, unsym c4 with
  | Some w, Some x, Some y, Some z =>
      Some [ w * 4 + x / 16; (x mod 16) * 16 + y / 4; (y mod 4) * 64 + z ]
  | _, _, _, _ => None
  end.
(* final three symbols -> two bytes; the low 2 bits of the last symbol must be zero *)
Definition dec3 (c1 c2 c3 : Z) : option bytes :=
  match unsym c1, unsym c2, unsym c3 with
  | Some w, Some x, Some y =>
      if y mod 4 =? 0 then Some [ w * 4 + x / 16; (x mod 16) * 16 + y / 4 ] else None
  | _, _, _ => None
  end.
(* final two symbols -> one byte; the low 4 bits of the last symbol must be zero *)
Definition dec2 (c1 c2 : Z) : option bytes :=
  match unsym c1, unsym c2 with
  | Some w, Some x => if x mod 16 =? 0 then Some [ w * 4 + x / 16 ] else None
  | _, _ => None
  end.

(* ---- encode / decode ---- *)
Fixpoint b64_encode (bs : bytes) : bytes :=
  match bs with
  | a :: b :: c :: r => enc3 a b c ++ b64_encode r
  | [a; b] => enc2 a b
  | [a] => enc1 a
  | [] => []
  end.

Fixpoint b64_decode (s : bytes) : outcome bytes :=
  match s with
  | c1 :: c2 :: c3 :: c4 :: r =>
      match dec4 c1 c2 c3 c4 with
      | Some g => (l <- b64_decode r ;; Ok (g ++ l))%outcome
      | None => Err
      end
  | [c1; c2; c3] => of_option_err (dec3 c1 c2 c3)
  | [c1; c2] => of_option_err (dec2 c1 c2)
  | [_] => Err                                     (* length 1 mod 4 *)
  | [] => Ok []
  end.

(* ---- the signature wrapper, over the underlying library ---- *)
Section Sig.
  Variable sk_valid : bytes -> bool.     (* the library accepts these 32 bytes as a signing key *)
  Variable pk_valid : bytes -> bool.     (* ... these 32 bytes as a verification key *)
  Variable sig_valid : bytes -> bool.    (* ... these 64 bytes as a signature encoding *)
  Variable pk_of_sk : bytes -> bytes.
  Variable sign : bytes -> bytes -> bytes.              (* sk msg -> 64 bytes *)
  Variable verify : bytes -> bytes -> bytes -> bool.    (* pk sig msg *)

  Inductive kind := KSk | KPk | KSig.
  Definition klen (k : kind) : nat := match k with KSig => 64 | _ => 32 end.
  Definition kvalid (k : kind) : bytes -> bool :=
    match k with KSk => sk_valid | KPk => pk_valid | KSig => sig_valid end.

  (* borsh strict decode of a fixed array, then library validation; returns the canonical bytes *)
  Definition w_deserialize (k : kind) (bs : bytes) : outcome bytes :=
    if (length bs =? klen k)%nat then (if kvalid k bs then Ok bs else Err) else Err.
  (* borsh encode of a held value = its raw bytes *)
  Definition w_serialize (k : kind) (bs : bytes) : outcome bytes := w_deserialize k bs.

  Definition w_to_string (k : kind) (bs : bytes) : outcome bytes :=
    (v <- w_deserialize k bs ;; Ok (b64_encode v))%outcome.
  Definition w_from_string (k : kind) (s : bytes) : outcome bytes :=
    (bs <- b64_decode s ;; w_deserialize k bs)%outcome.

  Definition w_public_key (sk : bytes) : outcome bytes :=
    (v <- w_deserialize KSk sk ;; Ok (pk_of_sk v))%outcome.
  Definition w_sign (sk msg : bytes) : outcome bytes :=
    (v <- w_deserialize KSk sk ;; Ok (sign v msg))%outcome.
  Definition w_verify (pk sg msg : bytes) : outcome bool :=
    (p <- w_deserialize KPk pk ;; s <- w_deserialize KSig sg ;; Ok (verify p s msg))%outcome.
End Sig.

(* ---- test vectors ---- *)
Definition ascii_codes (s : String.string) : bytes :=
  map (fun c => Z.of_N (Ascii.N_of_ascii c)) (String.list_ascii_of_string s).
Local Notation "'T' s" := (ascii_codes s%string) (at level 9, s at level 0).

Example ascii_codes_foobar : T "foobar" = [102; 111; 111; 98; 97; 114].
Proof. vm_compute. reflexivity. Qed.
Example ascii_codes_Zm9vYmFy : T "Zm9vYmFy" = [90; 109; 57; 118; 89; 109; 70; 121].
Proof. vm_compute. reflexivity. Qed.

(* RFC 4648 section 10, padding stripped *)
Example enc_rfc0 : b64_encode (T "") = T "".               Proof. vm_compute. reflexivity. Qed.
Example enc_rfc1 : b64_encode (T "f") = T "Zg".            Proof. vm_compute. reflexivity. Qed.
Example enc_rfc2 : b64_encode (T "fo") = T "Zm8".          Proof. vm_compute. reflexivity. Qed.
Example enc_rfc3 : b64_encode (T "foo") = T "Zm9v".        Proof. vm_compute. reflexivity. Qed.
Example enc_rfc4 : b64_encode (T "foob") = T "Zm9vYg".     Proof. vm_compute. reflexivity. Qed.
Example enc_rfc5 : b64_encode (T "fooba") = T "Zm9vYmE".   Proof. vm_compute. reflexivity. Qed.
Example enc_rfc6 : b64_encode (T "foobar") = T "Zm9vYmFy". Proof. vm_compute. reflexivity. Qed.
Example enc_rfc6_codes :
  b64_encode [102; 111; 111; 98; 97; 114] = [90; 109; 57; 118; 89; 109; 70; 121].
Proof. vm_compute. reflexivity. Qed.

Example dec_rfc0 : b64_decode (T "") = Ok (T "").               Proof. vm_compute. reflexivity. Qed.
Example dec_rfc1 : b64_decode (T "Zg") = Ok (T "f").            Proof. vm_compute. reflexivity. Qed.
Example dec_rfc2 : b64_decode (T "Zm8") = Ok (T "fo").          Proof. vm_compute. reflexivity. Qed.
Example dec_rfc3 : b64_decode (T "Zm9v") = Ok (T "foo").        Proof. vm_compute. reflexivity. Qed.
Example dec_rfc4 : b64_decode (T "Zm9vYg") = Ok (T "foob").     Proof. vm_compute. reflexivity. Qed.
Example dec_rfc5 : b64_decode (T "Zm9vYmE") = Ok (T "fooba").   Proof. vm_compute. reflexivity. Qed.
Example dec_rfc6 : b64_decode (T "Zm9vYmFy") = Ok (T "foobar"). Proof. vm_compute. reflexivity. Qed.

(* high bytes, '+' and '/' : python3 base64.b64encode(bytes([255,254,253,252,251])) = "//79/Ps=" *)
Example enc_high : b64_encode [255; 254; 253; 252; 251] = T "//79/Ps".
Proof. vm_compute. reflexivity. Qed.
Example dec_high : b64_decode (T "//79/Ps") = Ok [255; 254; 253; 252; 251].
Proof. vm_compute. reflexivity. Qed.

(* a 32-byte key-sized value and a 64-byte signature-sized value (reference: python3 base64) *)
Example enc_32 :
  b64_encode (map Z.of_nat (seq 0 32)) = T "AAECAwQFBgcICQoLDA0ODxAREhMUFRYXGBkaGxwdHh8".
Proof. vm_compute. reflexivity. Qed.
Example dec_32 :
  b64_decode (T "AAECAwQFBgcICQoLDA0ODxAREhMUFRYXGBkaGxwdHh8") = Ok (map Z.of_nat (seq 0 32)).
Proof. vm_compute. reflexivity. Qed.
Example enc_64 :
  b64_encode (map (fun i => (Z.of_nat i * 7 + 3) mod 256) (seq 0 64))
  = T "AwoRGB8mLTQ7QklQV15lbHN6gYiPlp2kq7K5wMfO1dzj6vH4/wYNFBsiKTA3PkVMU1phaG92fYSLkpmgp661vA".
Proof. vm_compute. reflexivity. Qed.
Example dec_64 :
  b64_decode
    (T "AwoRGB8mLTQ7QklQV15lbHN6gYiPlp2kq7K5wMfO1dzj6vH4/wYNFBsiKTA3PkVMU1phaG92fYSLkpmgp661vA")
  = Ok (map (fun i => (Z.of_nat i * 7 + 3) mod 256) (seq 0 64)).
Proof. vm_compute. reflexivity. Qed.

(* a few hundred bytes *)
Example round_trip_600 :
  let bs := map (fun i => (Z.of_nat i * 131 + 17) mod 256) (seq 0 600) in
  b64_decode (b64_encode bs) = Ok bs /\ length (b64_encode bs) = 800%nat.
Proof. vm_compute. split; reflexivity. Qed.

(* rejections *)
Example rej_padding : b64_decode (T "Zg==") = Err.          Proof. vm_compute. reflexivity. Qed.
Example rej_padding1 : b64_decode (T "Zm8=") = Err.         Proof. vm_compute. reflexivity. Qed.
Example rej_trailing_bits : b64_decode (T "Zh") = Err.      (* 'h' = 33 = 100001b *)
Proof. vm_compute. reflexivity. Qed.
Example rej_trailing_bits3 : b64_decode (T "Zm9") = Err.    (* '9' = 61 = 111101b *)
Proof. vm_compute. reflexivity. Qed.
Example rej_len1 : b64_decode (T "Z") = Err.                Proof. vm_compute. reflexivity. Qed.
Example rej_len5 : b64_decode (T "Zm9vY") = Err.            Proof. vm_compute. reflexivity. Qed.
Example rej_newline : b64_decode (T "Zm9v" ++ [10]) = Err.  Proof. vm_compute. reflexivity. Qed.
Example rej_newline_codes : b64_decode [90; 109; 57; 118; 10] = Err.
Proof. vm_compute. reflexivity. Qed.
Example rej_urlsafe : b64_decode (T "Zm-v") = Err.          Proof. vm_compute. reflexivity. Qed.
Example rej_urlsafe2 : b64_decode (T "Zm_v") = Err.         Proof. vm_compute. reflexivity. Qed.
Example rej_space : b64_decode (T "Zm 9v") = Err.           Proof. vm_compute. reflexivity. Qed.
Example rej_high : b64_decode [90; 109; 57; 246] = Err.     Proof. vm_compute. reflexivity. Qed.
Example rej_negative : b64_decode [90; 109; 57; -10] = Err. Proof. vm_compute. reflexivity. Qed.
