(* Model/Par.v — schedule model of `.par().map(f).collect()` (src/util.rs: `par()` is `into_iter()` in the
   sequential build and rayon's `into_par_iter()` with the `rayon` feature): an indexed parallel iterator
   splits the index range recursively at arbitrary points, evaluates the leaves in any order and on any
   thread, and joins the results by position. No proofs here. *)
From Coq Require Import List.
From Strand Require Import Model.Outcome.
Import ListNotations.

Inductive sched : Type :=
| Leaf
| Split (k : nat) (left right : sched).   (* split the current slice after its first k items *)

Fixpoint par_map {A B} (f : A -> B) (s : sched) (l : list A) : list B :=
  match s with
  | Leaf => map f l
  | Split k a b => par_map f a (firstn k l) ++ par_map f b (skipn k l)
  end.

(* collect::<Result<Vec<_>,_>>(): Ok of all items if every item is Ok; otherwise SOME failure (rayon does not
   promise the first one; a panic in a worker is re-raised) *)
Definition join_res {B} (x y : outcome (list B)) : outcome (list B) :=
  match x, y with
  | Ok a, Ok b => Ok (a ++ b)
  | Panic, _ => Panic
  | _, Panic => Panic
  | _, _ => Err
  end.

Fixpoint par_mapM {A B} (f : A -> outcome B) (s : sched) (l : list A) : outcome (list B) :=
  match s with
  | Leaf => mapM f l
  | Split k a b => join_res (par_mapM f a (firstn k l)) (par_mapM f b (skipn k l))
  end.

(* (0..n).par().enumerate()-style position-aligned maps *)
Definition par_mapi {A B} (f : nat -> A -> B) (s : sched) (l : list A) : list B :=
  par_map (fun ia => f (fst ia) (snd ia)) s (combine (seq 0 (length l)) l).
