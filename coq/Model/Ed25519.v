(* Model/Ed25519.v — executable Ed25519 (RFC 8032) as the two libraries behind src/signature.rs
   (ed25519-zebra 3.1, ZIP-215 verification rules) and src/signature2.rs (ed25519-dalek 2, `verify`)
   implement it, on top of the field / Edwards-curve model of Model/Ristretto.v and the Gallina SHA-512.
   Key expansion, public key derivation, deterministic signing (identical in both libraries) and the two
   verification procedures, which differ on non-canonical encodings and small-order components:
     zebra:  S canonical, A and R decompress (non-canonical y accepted), [8]([S]B - [k]A - R) = 0
     dalek:  S canonical, A decompresses, compress([S]B - [k]A) = R bytes (byte comparison).
   No proofs here. *)
From Coq Require Import ZArith List Bool.
From Strand Require Import Base.ZUtil Model.Outcome Model.Codec Model.Sha512 Model.Zkp Model.Ristretto Model.RistrettoFast.
Import ListNotations.
Open Scope Z_scope.

Section Ed.
  Variable K : Kernel.
  Variable PM : PMul.

  Definition finv (a : Z) : Z := fpow K a (fp - 2).

  (* CompressedEdwardsY::decompress (curve25519-dalek 3 and 4): bit 255 is the sign of x, the low 255 bits
     are y and are reduced mod p (non-canonical y accepted); x = sqrt((y^2-1)/(d y^2+1)) if it exists *)
  Definition ed_decompress (bs : bytes) : option point :=
    if negb (length bs =? 32)%nat then None else
    let n := le_int bs in
    let y := fmod K (Z.land n (2 ^ 255 - 1)) in
    let sign := Z.testbit n 255 in
    let yy := fsq K y in
    let u := fsub K yy 1 in
    let v := fadd K (fmul K yy ed_d) 1 in
    let '(ok, x) := sqrt_ratio_m1 K u v in
    if negb ok then None else
    let x := if sign then fneg K x else x in
    Some {| px := x; py := y; pz := 1; pt := fmul K x y |}.

  (* EdwardsPoint::compress *)
  Definition ed_compress (p1 : point) : bytes :=
    let zi := finv (pz p1) in
    let x := fmul K (px p1) zi in
    let y := fmul K (py p1) zi in
    le_fixed 32 (y + (if fis_neg x then 2 ^ 255 else 0)).

  (* EdwardsPoint equality with the identity: X = 0 and Y = Z *)
  Definition ed_is_identity (p1 : point) : bool := (px p1 =? 0) && (py p1 =? pz p1).
  Definition ed_mul8 (p1 : point) : point :=
    let p2 := pt_add K p1 p1 in let p4 := pt_add K p2 p2 in pt_add K p4 p4.

  (* clamp_integer on the first half of SHA-512(seed) *)
  Definition clamp (h32 : bytes) : Z :=
    let n := le_int h32 in
    Z.lor (Z.land n (2 ^ 255 - 1 - 7)) (2 ^ 254).

  Definition ed_expand (seed : bytes) : Z * bytes :=
    let h := sha512 seed in (clamp (firstn 32 h), skipn 32 h).

  (* public key bytes: zebra multiplies by the unreduced clamped integer (Scalar::from_bits), dalek by its
     reduction mod l; the basepoint has order l so both give the same point — the tie checks both *)
  Definition ed_pk_unreduced (seed : bytes) : bytes :=
    let '(a, _) := ed_expand seed in ed_compress (pm_mul PM a (pt_base K)).
  Definition ed_pk (seed : bytes) : bytes :=
    let '(a, _) := ed_expand seed in ed_compress (pm_mul PM (smod K a) (pt_base K)).

  Definition h_scalar (bs : bytes) : Z := sc_from_bytes_mod_order K (sha512 bs).

  (* RFC 8032 5.1.6 *)
  Definition ed_sign (seed msg : bytes) : bytes :=
    let '(a, prefix) := ed_expand seed in
    let A := ed_compress (pm_mul PM (smod K a) (pt_base K)) in
    let r := h_scalar (prefix ++ msg) in
    let Rb := ed_compress (pm_mul PM r (pt_base K)) in
    let k := h_scalar (Rb ++ A ++ msg) in
    let S := sc_add K r (sc_mul K k (smod K a)) in
    Rb ++ sc_to_bytes S.

  (* R' = [k](-A) + [s]B *)
  Definition ed_rprime (A : point) (k s : Z) : point :=
    pt_add K (pm_mul PM k (pt_neg K A)) (pm_mul PM s (pt_base K)).

  (* ed25519-zebra VerificationKey::try_from + verify. Outcome: Err = key bytes rejected at parse time
     (the wrapper's deserialize error), Ok b = verification decision *)
  Definition ed_verify_zebra (pk sig msg : bytes) : outcome bool :=
    match ed_decompress pk with
    | None => Err
    | Some A =>
        let Rb := firstn 32 sig in let sb := skipn 32 sig in
        let k := h_scalar (Rb ++ pk ++ msg) in
        match sc_from_canonical_bytes sb, ed_decompress Rb with
        | Some s, Some R =>
            let d := pt_add K R (pt_neg K (ed_rprime A k s)) in
            Ok (ed_is_identity (ed_mul8 d))
        | _, _ => Ok false
        end
    end.

  (* ed25519-dalek VerifyingKey::from_bytes + verify (non-strict) *)
  Definition ed_verify_dalek (pk sig msg : bytes) : outcome bool :=
    match ed_decompress pk with
    | None => Err
    | Some A =>
        let Rb := firstn 32 sig in let sb := skipn 32 sig in
        let k := h_scalar (Rb ++ pk ++ msg) in
        match sc_from_canonical_bytes sb with
        | Some s => Ok (bytes_eqb (ed_compress (ed_rprime A k s)) Rb)
        | None => Ok false
        end
    end.
End Ed.
