(* Model/RistrettoFast.v — scalar multiplication on the Edwards curve evaluated over Bignums.BigZ without
   converting back to Z between field operations, proven equal to the reference [pt_mul K_ref] of
   Model/Ristretto.v. Like Base/FastArith.v it exists only so that vm_compute can RUN the ristretto model
   (a reference scalar multiplication costs ~20 s, this one a fraction of a second); no theorem about the
   model depends on it. *)
From Coq Require Import ZArith List Bool Lia.
From Bignums Require Import BigZ.
From Strand Require Import Base.ZUtil Base.FastArith Model.Ristretto.
Open Scope Z_scope.

Record bpoint : Type := { bpx : bigZ; bpy : bigZ; bpz : bigZ; bpt : bigZ }.

Definition Fpb : bigZ := Eval vm_compute in bz fp.
Definition D2 : Z := Eval vm_compute in fmul K_ref 2 ed_d.
Definition D2b : bigZ := Eval vm_compute in bz D2.
Definition twob : bigZ := Eval vm_compute in bz 2.

Definition bmulm (a b : bigZ) : bigZ := BigZ.modulo (BigZ.mul a b) Fpb.
Definition baddm (a b : bigZ) : bigZ := BigZ.modulo (BigZ.add a b) Fpb.
Definition bsubm (a b : bigZ) : bigZ := BigZ.modulo (BigZ.sub a b) Fpb.

Lemma zb_Fpb : zb Fpb = fp.  Proof. vm_compute. reflexivity. Qed.
Lemma zb_D2b : zb D2b = fmul K_ref 2 ed_d.  Proof. vm_compute. reflexivity. Qed.
Lemma zb_twob : zb twob = 2.  Proof. vm_compute. reflexivity. Qed.

Lemma bmulm_spec a b : zb (bmulm a b) = fmul K_ref (zb a) (zb b).
Proof. unfold bmulm, zb, fmul, fmod. cbn [k_mod k_mul K_ref]. rewrite BigZ.spec_modulo, BigZ.spec_mul. fold (zb Fpb). now rewrite zb_Fpb. Qed.
Lemma baddm_spec a b : zb (baddm a b) = fadd K_ref (zb a) (zb b).
Proof. unfold baddm, zb, fadd, fmod. cbn [k_mod K_ref]. rewrite BigZ.spec_modulo, BigZ.spec_add. fold (zb Fpb). now rewrite zb_Fpb. Qed.
Lemma bsubm_spec a b : zb (bsubm a b) = fsub K_ref (zb a) (zb b).
Proof. unfold bsubm, zb, fsub, fmod. cbn [k_mod K_ref]. rewrite BigZ.spec_modulo, BigZ.spec_sub. fold (zb Fpb). now rewrite zb_Fpb. Qed.

Definition bpt_add (p1 p2 : bpoint) : bpoint :=
  let A := bmulm (bsubm (bpy p1) (bpx p1)) (bsubm (bpy p2) (bpx p2)) in
  let B := bmulm (baddm (bpy p1) (bpx p1)) (baddm (bpy p2) (bpx p2)) in
  let C := bmulm (bmulm (bpt p1) D2b) (bpt p2) in
  let D := bmulm (bmulm (bpz p1) twob) (bpz p2) in
  let E' := bsubm B A in let F := bsubm D C in let G := baddm D C in let H := baddm B A in
  {| bpx := bmulm E' F; bpy := bmulm G H; bpz := bmulm F G; bpt := bmulm E' H |}.

Fixpoint bpt_mul_pos (e : positive) (p1 : bpoint) : bpoint :=
  match e with
  | xH => p1
  | xO e' => let h := bpt_mul_pos e' p1 in bpt_add h h
  | xI e' => let h := bpt_mul_pos e' p1 in bpt_add (bpt_add h h) p1
  end.

Definition to_b (p1 : point) : bpoint := {| bpx := bz (px p1); bpy := bz (py p1); bpz := bz (pz p1); bpt := bz (pt p1) |}.
Definition of_b (p1 : bpoint) : point := {| px := zb (bpx p1); py := zb (bpy p1); pz := zb (bpz p1); pt := zb (bpt p1) |}.

Lemma of_to_b p1 : of_b (to_b p1) = p1.
Proof. destruct p1 as [a b c d]. unfold of_b, to_b. cbn [px py pz pt bpx bpy bpz bpt]. now rewrite !zb_bz. Qed.

Lemma bpt_add_spec p1 p2 : of_b (bpt_add p1 p2) = pt_add K_ref (of_b p1) (of_b p2).
Proof.
  unfold bpt_add, pt_add, of_b. cbn [px py pz pt bpx bpy bpz bpt].
  repeat (rewrite ?bmulm_spec, ?baddm_spec, ?bsubm_spec). rewrite zb_D2b, zb_twob. reflexivity.
Qed.

Lemma bpt_mul_pos_spec e p1 : of_b (bpt_mul_pos e p1) = pt_mul_pos K_ref e (of_b p1).
Proof.
  induction e as [e IH | e IH | ]; cbn [bpt_mul_pos pt_mul_pos].
  - rewrite !bpt_add_spec, IH. reflexivity.
  - rewrite bpt_add_spec, IH. reflexivity.
  - reflexivity.
Qed.

Definition fast_pt_mul (e : Z) (p1 : point) : point :=
  match e with Zpos e' => of_b (bpt_mul_pos e' (to_b p1)) | _ => pt_id end.

Lemma fast_pt_mul_ok e p1 : fast_pt_mul e p1 = pt_mul K_ref e p1.
Proof. destruct e as [|e'|e']; try reflexivity. cbn [fast_pt_mul pt_mul]. now rewrite bpt_mul_pos_spec, of_to_b. Qed.

(* every kernel computes the same points as the reference kernel *)
Lemma fmod_K K a : fmod K a = fmod K_ref a.  Proof. unfold fmod. now rewrite k_mod_ok. Qed.
Lemma fmul_K K a b : fmul K a b = fmul K_ref a b.  Proof. unfold fmul. rewrite (fmod_K K), (k_mul_ok K). reflexivity. Qed.
Lemma fadd_K K a b : fadd K a b = fadd K_ref a b.  Proof. unfold fadd. rewrite (fmod_K K). reflexivity. Qed.
Lemma fsub_K K a b : fsub K a b = fsub K_ref a b.  Proof. unfold fsub. rewrite (fmod_K K). reflexivity. Qed.
Lemma pt_add_K K p1 p2 : pt_add K p1 p2 = pt_add K_ref p1 p2.
Proof. unfold pt_add. rewrite !(fmul_K K), !(fadd_K K), !(fsub_K K). reflexivity. Qed.
Lemma pt_mul_K K e p1 : pt_mul K e p1 = pt_mul K_ref e p1.
Proof.
  destruct e as [|e'|e']; try reflexivity. cbn [pt_mul].
  induction e' as [e IH | e IH | ]; cbn [pt_mul_pos]; rewrite ?(pt_add_K K), ?IH; reflexivity.
Qed.

(* the scalar multiplication handed to the ristretto backend: any function equal to the reference *)
Record PMul : Type := { pm_mul : Z -> point -> point; pm_ok : forall e p1, pm_mul e p1 = pt_mul K_ref e p1 }.
Definition PM_ref : PMul := {| pm_mul := pt_mul K_ref; pm_ok := fun _ _ => eq_refl |}.
Definition PM_fast : PMul := {| pm_mul := fast_pt_mul; pm_ok := fast_pt_mul_ok |}.
