(* Model/Exec.v — interpreter used by the correspondence check: it evaluates a named API operation of
   the model on dynamically typed arguments, so that the driver can compare, inside Coq, the model's
   result with what the implementation returned for the same inputs. No proofs here. *)
From Coq Require Import ZArith List Bool String.
From Strand Require Import Base.ZUtil Model.Outcome Model.Codec Model.Sha512 Model.Backend
  Model.ZBackend Model.Zkp Model.Wire Model.Rng Model.Shuffler Model.Keymaker Model.Base64.
Import ListNotations.
Open Scope list_scope.
Open Scope Z_scope.

Inductive val : Type :=
| VZ (z : Z)
| VB (b : bytes)
| VL (l : list val)
| VBool (b : bool)
| VNone
| VErr
| VPanic
| VBad.          (* malformed case: wrong arity / unknown op *)

Fixpoint val_eqb (a b : val) : bool :=
  match a, b with
  | VZ x, VZ y => x =? y
  | VB x, VB y => bytes_eqb x y
  | VL x, VL y =>
      (fix go (l1 l2 : list val) : bool :=
         match l1, l2 with
         | [], [] => true
         | u :: r1, v :: r2 => val_eqb u v && go r1 r2
         | _, _ => false
         end) x y
  | VBool x, VBool y => Bool.eqb x y
  | VNone, VNone => true
  | VErr, VErr => true
  | VPanic, VPanic => true
  | _, _ => false
  end.

Definition mkP (p : Z) : Params := {| p_p := p; p_q := (p - 1) / 2; p_g := 4; p_cof := 2 |}.

Definition of_outZ (o : outcome Z) : val :=
  match o with Ok z => VZ z | Err => VErr | Panic => VPanic end.
Definition of_outB (o : outcome bytes) : val :=
  match o with Ok z => VB z | Err => VErr | Panic => VPanic end.
Definition of_out (o : outcome val) : val :=
  match o with Ok v => v | Err => VErr | Panic => VPanic end.
Definition omap {A} (f : A -> val) (o : outcome A) : val :=
  match o with Ok a => f a | Err => VErr | Panic => VPanic end.

Definition opis (op s : string) : bool := String.eqb op s.
Arguments opis _ _%string.

(* argument extraction *)
Definition gZ (v : val) : option Z := match v with VZ z => Some z | _ => None end.
Definition gB (v : val) : option bytes := match v with VB b => Some b | _ => None end.
Fixpoint gZs (l : list val) : option (list Z) :=
  match l with
  | [] => Some []
  | VZ z :: r => match gZs r with Some zs => Some (z :: zs) | None => None end
  | _ => None
  end.
Definition gLZ (v : val) : option (list Z) := match v with VL l => gZs l | _ => None end.
Definition gOptZ (v : val) : option (option Z) :=
  match v with VNone => Some None | VZ z => Some (Some z) | _ => None end.

(* ---------- Ed25519 wrappers + base64 (backend independent). The underlying library is an oracle: the driver passes,
   as a table, which byte strings the library accepts, and what it returns for sign / verify. ---------- *)
Fixpoint tbl_lookup (t : list val) (b : bytes) : bool :=
  match t with
  | VL [VB k; VBool v] :: r => if bytes_eqb k b then v else tbl_lookup r b
  | _ => false
  end.
Definition kind_of (z : Z) : kind := if z =? 0 then KSk else if z =? 1 then KPk else KSig.

Definition exec_sig (op : string) (args : list val) : option val :=
  match args with
  | [VB b] =>
      if opis op "b64_encode" then Some (VB (b64_encode b)) else
      if opis op "b64_decode" then Some (of_outB (b64_decode b)) else None
  | [VZ k; VB s; VL t] =>
      let v := tbl_lookup t in
      if opis op "sig_from_string" then Some (of_outB (w_from_string v v v (kind_of k) s)) else
      if opis op "sig_to_string" then Some (of_outB (w_to_string v v v (kind_of k) s)) else
      if opis op "sig_deserialize" then Some (of_outB (w_deserialize v v v (kind_of k) s)) else None
  | [VB sk; VB msg; VL t; VB raw] =>
      let v := tbl_lookup t in
      if opis op "sig_sign" then Some (of_outB (w_sign v v v (fun _ _ => raw) sk msg)) else None
  | [VB pk; VB sg; VB msg; VL t; VBool raw] =>
      let v := tbl_lookup t in
      if opis op "sig_verify" then Some (omap VBool (w_verify v v v (fun _ _ _ => raw) pk sg msg)) else None
  | _ => None
  end.

Section Exec.
  Variable K : Kernel.
  Variable fl : flavor.
  Variable P : Params.
  Let B := ZB K fl P.

  Definition v_ct (c : ctext B) : val := VL [VZ (mhr c); VZ (gr c)].
  Definition v_schnorr (s : schnorr B) : val := VL [VZ (s_com B s); VZ (s_chal B s); VZ (s_resp B s)].
  Definition v_cp (s : cproof B) : val :=
    VL [VZ (c_com1 B s); VZ (c_com2 B s); VZ (c_chal B s); VZ (c_resp B s)].
  Definition v_Zs (l : list Z) : val := VL (map VZ l).

  Definition g_ct (v : val) : option (ctext B) :=
    match v with VL [VZ a; VZ b] => Some (Build_ctext B a b) | _ => None end.
  Definition g_schnorr (v : val) : option (schnorr B) :=
    match v with VL [VZ a; VZ b; VZ c] => Some (Build_schnorr B a b c) | _ => None end.
  Definition g_cp (v : val) : option (cproof B) :=
    match v with VL [VZ a; VZ b; VZ c; VZ d] => Some (Build_cproof B a b c d) | _ => None end.
  Fixpoint g_cts (l : list val) : option (list (ctext B)) :=
    match l with
    | [] => Some []
    | v :: r => match g_ct v, g_cts r with Some c, Some cs => Some (c :: cs) | _, _ => None end
    end.
  Definition g_Lct (v : val) : option (list (ctext B)) := match v with VL l => g_cts l | _ => None end.

  (* ---------- arithmetic ---------- *)
  Definition exec_arith (op : string) (args : list val) : option val :=
    match args with
    | [] =>
        if opis op "gen" then Some (VZ (b_gen B)) else
        if opis op "one" then Some (VZ (b_one B)) else
        if opis op "xzero" then Some (VZ 0) else if opis op "xone" then Some (VZ 1) else None
    | [VZ a] =>
        if opis op "emodp" then Some (VZ (b_modp B a)) else
        if opis op "cmodulo" then Some (VZ (b_modp B a)) else
        if opis op "einvp" then Some (of_outZ (b_invp B a)) else
        if opis op "gpow" then Some (VZ (b_gpow B a)) else
        if opis op "xmodq" then Some (VZ (b_xmodq B a)) else
        if opis op "cexpmodulo" then Some (VZ (b_xmodq B a)) else
        if opis op "xinvq" then Some (of_outZ (b_xinvq B a)) else
        if opis op "xfrom_u64" then Some (VZ (b_from_u64 B a)) else
        if opis op "encode" then Some (of_outZ (encode K P a)) else
        if opis op "decode" then Some (of_outZ (decode P a)) else
        if opis op "pk_of_sk" then Some (VZ (pk_of_sk B a)) else
        None
    | [VB b] =>
        if opis op "hash_to_exp" then Some (VZ (b_hash_to_exp B b)) else
        if opis op "e_from_bytes" then Some (of_outZ (element_from_bytes K fl P b)) else
        if opis op "x_from_bytes" then Some (of_outZ (exp_from_bytes fl P b)) else
        None
    | [VZ a; VZ b] =>
        if opis op "emul" then Some (VZ (b_mul B a b)) else
        if opis op "emulp" then Some (VZ (b_mulp B a b)) else
        if opis op "edivp" then Some (of_outZ (b_divp B a b)) else
        if opis op "epow" then Some (VZ (b_pow B a b)) else
        if opis op "eeq" then Some (VBool (b_eqb B a b)) else
        if opis op "xadd" then Some (VZ (b_xadd B a b)) else
        if opis op "xsub" then Some (of_outZ (b_xsub B a b)) else
        if opis op "xmul" then Some (VZ (b_xmul B a b)) else
        if opis op "xdivq" then Some (of_outZ (b_xdivq B a b)) else
        if opis op "xsubmod" then Some (of_outZ (b_sub_mod B a b)) else
        None
    | _ => None
    end.

  (* ---------- wire formats ---------- *)
  Definition exec_wire (op : string) (args : list val) : option val :=
    match args with
    | [VZ a] =>
        if opis op "ser_e" then Some (VB (wr_E fl a)) else
        if opis op "ser_x" then Some (VB (wr_X fl a)) else
        if opis op "ser_p" then Some (VB (wr_P fl a)) else
        if opis op "ser_pk" then Some (VB (wr_pk fl a)) else
        if opis op "ser_sk" then Some (VB (wr_sk fl a (pk_of_sk B a))) else
        None
    | [VB b] =>
        if opis op "de_e" then Some (of_outZ (de_E K fl P b)) else
        if opis op "de_x" then Some (of_outZ (de_X fl P b)) else
        if opis op "de_p" then Some (of_outZ (de_P fl b)) else
        if opis op "de_pk" then Some (of_outZ (de_pk K fl P b)) else
        if opis op "de_sk" then
          Some (omap (fun ve => VL [VB (wr_sk fl (fst ve) (snd ve)); VZ (snd ve)]) (de_sk K fl P b)) else
        if opis op "de_c" then Some (omap v_ct (de_ct K fl P b)) else
        if opis op "de_schnorr" then Some (omap v_schnorr (de_schnorr K fl P b)) else
        if opis op "de_cp" then Some (omap v_cp (de_cp K fl P b)) else
        if opis op "de_vec_e" then Some (omap v_Zs (strict (rd_vecE K fl P) b)) else
        if opis op "de_vec_x" then Some (omap v_Zs (strict (rd_vecX fl P) b)) else
        if opis op "de_vec_p" then Some (omap v_Zs (strict (rd_vecP fl) b)) else
        if opis op "de_vec_c" then Some (omap (fun l => VL (map v_ct l)) (strict (rd_vecC K fl P) b)) else
        if opis op "de_vec_cp" then Some (omap (fun l => VL (map v_cp l)) (strict (rd_vecCP K fl P) b)) else
        if opis op "de_proof" then Some (omap (fun p => VB (wr_proof fl p)) (de_proof K fl P b)) else
        None
    | [VL l] =>
        if opis op "ser_c" then match g_ct (VL l) with Some c => Some (VB (wr_ct K fl P c)) | None => None end else
        if opis op "ser_schnorr" then match g_schnorr (VL l) with Some s => Some (VB (wr_schnorr K fl P s)) | None => None end else
        if opis op "ser_cp" then match g_cp (VL l) with Some s => Some (VB (wr_cp K fl P s)) | None => None end else
        if opis op "ser_vec_e" then match gZs l with Some zs => Some (VB (wr_vecE fl zs)) | None => None end else
        if opis op "ser_vec_x" then match gZs l with Some zs => Some (VB (wr_vecX fl zs)) | None => None end else
        if opis op "ser_vec_p" then match gZs l with Some zs => Some (VB (wr_vecP fl zs)) | None => None end else
        if opis op "ser_vec_c" then match g_cts l with Some cs => Some (VB (wr_vecC K fl P cs)) | None => None end else
        None
    | [VZ x; VZ pk; VZ r] =>
        if opis op "encrypt_exp_r" then Some (of_outB (encrypt_exp K fl P x pk r)) else None
    | [VB b; VZ sk] =>
        if opis op "decrypt_exp" then Some (of_outZ (decrypt_exp K fl P b sk)) else None
    | _ => None
    end.

  (* ---------- ElGamal and sigma proofs ---------- *)
  Definition exec_proto (op : string) (args : list val) : option val :=
    match args with
    | [VZ pk; VZ m; VZ r] =>
        if opis op "encrypt_r" then Some (v_ct (encrypt_with_randomness B pk m r)) else
        if opis op "encrypt_exponential_r" then Some (v_ct (encrypt_exponential B pk m r)) else
        None
    | [VZ sk; VL [VZ c1; VZ c2]] =>
        let c := Build_ctext B c1 c2 in
        if opis op "decrypt" then Some (of_outZ (decrypt B sk c)) else
        if opis op "decryption_factor" then Some (VZ (decryption_factor B sk c)) else
        None
    | [VZ pk; VZ m; VB label; VZ r; VZ nonce] =>
        if opis op "encrypt_and_pok_r" then
          let '(c, pf) := encrypt_and_pok B pk m label r nonce in Some (VL [v_ct c; v_schnorr pf])
        else None
    | [VZ sk; VL [VZ c1; VZ c2]; VB label; VZ r] =>
        let c := Build_ctext B c1 c2 in
        if opis op "decrypt_and_prove_r" then
          Some (omap (fun dp => VL [VZ (fst dp); v_cp (snd dp)]) (decrypt_and_prove B sk (pk_of_sk B sk) c label r))
        else None
    | [VZ secret; VZ pub; g; VB label; VZ r] =>
        match gOptZ g with
        | Some g' =>
            if opis op "schnorr_prove_r" then Some (v_schnorr (schnorr_prove B secret pub g' label r)) else
            if opis op "popk_r" then
              (* args: secret mhr gr label r *)
              match g' with Some g_r => Some (v_schnorr (encryption_popk B secret pub g_r label r)) | None => None end
            else None
        | None => None
        end
    | [VZ pub; g; VL [VZ com; VZ ch; VZ rs]; VB label] =>
        let pf := Build_schnorr B com ch rs in
        match gOptZ g with
        | Some g' =>
            if opis op "schnorr_verify" then Some (VBool (schnorr_verify B pub g' pf label)) else
            if opis op "popk_verify" then
              (* args: mhr gr proof label *)
              match g' with Some g_r => Some (VBool (encryption_popk_verify B pub g_r pf label)) | None => None end
            else None
        | None => None
        end
    | [VZ secret; VZ pub1; VZ pub2; g1; VZ g2; VB label; VZ r] =>
        match gOptZ g1 with
        | Some g1' =>
            if opis op "cp_prove_r" then Some (v_cp (cp_prove B secret pub1 pub2 g1' g2 label r)) else
            if opis op "dec_proof_r" then
              (* args: secret pk dec_factor mhr gr label r *)
              match g1' with
              | Some m => Some (v_cp (decryption_proof B secret pub1 pub2 m g2 label r))
              | None => None end
            else None
        | None => None
        end
    | [VZ pub1; VZ pub2; g1; VZ g2; VL [VZ k1; VZ k2; VZ ch; VZ rs]; VB label] =>
        let pf := Build_cproof B k1 k2 ch rs in
        match gOptZ g1 with
        | Some g1' =>
            if opis op "cp_verify" then Some (VBool (cp_verify B pub1 pub2 g1' g2 pf label)) else
            if opis op "verify_decryption" then
              (* args: pk dec_factor mhr gr proof label *)
              match g1' with
              | Some m => Some (VBool (verify_decryption B pub1 pub2 m g2 pf label))
              | None => None end
            else None
        | None => None
        end
    | _ => None
    end.

  (* ---------- samplers (num-bigint backend; malachite's sampler is an opaque dependency) ---------- *)
  Definition consumed (s rest : bytes) : val := VZ (Z.of_nat (List.length s) - Z.of_nat (List.length rest)).
  Definition exec_rng (op : string) (args : list val) : option val :=
    match args with
    | [VB s] =>
        match fl with
        | Bigint =>
            if opis op "rnd_exp" then Some (omap (fun xr => VL [VZ (fst xr); consumed s (snd xr)]) (rnd_exp_bigint P s)) else
            if opis op "rnd_plaintext" then Some (omap (fun xr => VL [VZ (fst xr); consumed s (snd xr)]) (rnd_plaintext_bigint P s)) else
            if opis op "rnd" then Some (omap (fun xr => VL [VZ (fst xr); consumed s (snd xr)]) (rnd_bigint K P s)) else
            None
        | Malachite => None
        end
    | [VZ n; VB s] =>
        if opis op "gen_permutation" then
          Some (omap (fun pr => VL [v_Zs (fst pr); consumed s (snd pr)]) (gen_permutation (Z.to_nat n) s))
        else None
    | _ => None
    end.

  (* ---------- shuffle ---------- *)
  Definition to_wire (p : Shuffler.sproof B) : Wire.sproof :=
    let t := pf_t B p in let s := pf_s B p in
    Wire.Build_sproof (t1 B t) (t2 B t) (t3 B t) (t41 B t) (t42 B t) (t_hats B t)
                      (s1 s) (s2 s) (s3 s) (s4 s) (s_hats s) (s_primes s) (pf_cs B p) (pf_c_hats B p).
  Definition of_wire (w : Wire.sproof) : Shuffler.sproof B :=
    Shuffler.Build_sproof B
      (Build_commitments B (sp_t1 w) (sp_t2 w) (sp_t3 w) (sp_t41 w) (sp_t42 w) (sp_t_hats w))
      (Build_responses (sp_s1 w) (sp_s2 w) (sp_s3 w) (sp_s4 w) (sp_s_hats w) (sp_s_primes w))
      (sp_cs w) (sp_c_hats w).

  Definition exec_shuffle (op : string) (args : list val) : option val :=
    match args with
    | [VZ n; VB seed] =>
        if opis op "generators" then Some (omap v_Zs (generators K fl P (Z.to_nat n) seed)) else None
    | [VZ pk; VL perm; VL cs; VL rs] =>
        if opis op "apply_permutation_r" then
          match gZs perm, g_cts cs, gZs rs with
          | Some perm', Some cs', Some rs' =>
              Some (omap (fun o => VL [VL (map v_ct (fst o)); v_Zs (snd o)]) (apply_permutation B pk perm' cs' rs'))
          | _, _, _ => None
          end
        else None
    | [VZ pk; VL gens; VL es; VL eps; VL rps; VL perm; VB label; VL draws] =>
        if opis op "gen_proof_r" then
          match gZs gens, g_cts es, g_cts eps, gZs rps, gZs perm, gZs draws with
          | Some gens', Some es', Some eps', Some rps', Some perm', Some draws' =>
              Some (omap (fun p => VB (wr_proof fl (to_wire p))) (gen_proof B pk gens' es' eps' rps' perm' label draws'))
          | _, _, _, _, _, _ => None
          end
        else None
    | [VZ pk; VL gens; VB pfb; VL es; VL eps; VB label] =>
        if opis op "check_proof" then
          match gZs gens, g_cts es, g_cts eps with
          | Some gens', Some es', Some eps' =>
              match de_proof K fl P pfb with
              | Ok w => Some (omap VBool (check_proof B pk gens' (of_wire w) es' eps' label))
              | Err => Some VErr
              | Panic => Some VPanic
              end
          | _, _, _ => None
          end
        else None
    | [VZ pk; VL es; VL eps; VL cs; VZ n; VB label] =>
        if opis op "shuffle_us" then
          match g_cts es, g_cts eps, gZs cs with
          | Some es', Some eps', Some cs' => Some (v_Zs (shuffle_us B es' eps' cs' (Z.to_nat n) label))
          | _, _, _ => None
          end
        else None
    | [VZ pk; VL es; VL eps; VL cs; VL idx; VB label] =>
        (* selected per-index challenges u_i (the implementation returns all n; the model evaluates only the asked ones) *)
        if opis op "shuffle_us_at" then
          match g_cts es, g_cts eps, gZs cs, gZs idx with
          | Some es', Some eps', Some cs', Some idx' =>
              let ph := sha512 (us_prefix B es' eps' cs' label) in
              Some (v_Zs (map (fun i => b_hash_to_exp B (u_input ph i)) idx'))
          | _, _, _, _ => None
          end
        else None
    | [VZ pk; VL es; VL eps; VB pfb; VB label] =>
        if opis op "shuffle_challenge" then
          match g_cts es, g_cts eps with
          | Some es', Some eps' =>
              match de_proof K fl P pfb with
              | Ok w => let p := of_wire w in
                        Some (VZ (shuffle_challenge B es' eps' (pf_cs B p) (pf_c_hats B p) pk (pf_t B p) label))
              | Err => Some VErr
              | Panic => Some VPanic
              end
          | _, _ => None
          end
        else None
    | _ => None
    end.

  (* ---------- keymaker / threshold ---------- *)
  Fixpoint g_cps (l : list val) : option (list (cproof B)) :=
    match l with
    | [] => Some []
    | v :: r => match g_cp v, g_cps r with Some c, Some cs => Some (c :: cs) | _, _ => None end
    end.
  Fixpoint g_LLZ (l : list val) : option (list (list Z)) :=
    match l with
    | [] => Some []
    | v :: r => match gLZ v, g_LLZ r with Some c, Some cs => Some (c :: cs) | _, _ => None end
    end.

  Definition exec_km (op : string) (args : list val) : option val :=
    match args with
    | [VZ sk; VB label; VZ r] =>
        if opis op "km_share_r" then
          let '(pk, pf) := km_share B sk label r in Some (VL [VZ pk; v_schnorr pf]) else None
    | [VZ pk; VL pf; VB label] =>
        if opis op "km_verify_share" then
          match g_schnorr (VL pf) with Some p => Some (VBool (km_verify_share B pk p label)) | None => None end
        else None
    | [VL l] =>
        if opis op "combine_pks" then match gZs l with Some pks => Some (of_outZ (combine_pks B pks)) | None => None end else
        if opis op "gen_coefficients_r" then
          match gZs l with
          | Some ds => let '(cf, cm) := gen_coefficients B ds in Some (VL [v_Zs cf; v_Zs cm])
          | None => None end
        else None
    | [VZ sk; VL c; VB label; VZ r] =>
        if opis op "km_decryption_factor_r" then
          match g_ct (VL c) with
          | Some c' => let '(f, pf) := km_decryption_factor B sk c' label r in Some (VL [VZ f; v_cp pf])
          | None => None end
        else None
    | [VL a; VL b] =>
        if opis op "joint_dec" then
          match gZs a, g_ct (VL b) with Some decs, Some c => Some (of_outZ (joint_dec B decs c)) | _, _ => None end else
        if opis op "joint_dec_many" then
          match g_LLZ a, g_cts b with Some decs, Some cs => Some (omap v_Zs (joint_dec_many B decs cs)) | _, _ => None end
        else None
    | [VZ pk; VL cs; VL decs; VL proofs; VB label] =>
        if opis op "verify_decryption_factors" then
          match g_cts cs, gZs decs, g_cps proofs with
          | Some cs', Some decs', Some pfs => Some (omap VBool (verify_decryption_factors B pk cs' decs' pfs label))
          | _, _, _ => None end
        else None
    | [VZ a; VZ t; VL coeffs] =>
        match gZs coeffs with
        | Some cf =>
            if opis op "eval_poly" then Some (of_outZ (eval_poly B a (Z.to_nat t) cf)) else
            if opis op "compute_peer_share" then Some (of_outZ (compute_peer_share B a (Z.to_nat t) cf)) else None
        | None => None end
    | [VL comms; VZ t; VZ recv] =>
        if opis op "verification_key_factor" then
          match gZs comms with Some cm => Some (VZ (verification_key_factor B cm (Z.to_nat t) recv)) | None => None end
        else None
    | [VL c; VZ share; VZ vk; VB label; VZ r] =>
        if opis op "th_decryption_factor_r" then
          match g_ct (VL c) with
          | Some c' => let '(f, pf) := th_decryption_factor B c' share vk label r in Some (VL [VZ f; v_cp pf])
          | None => None end
        else None
    | [VZ trustee; VL present] =>
        if opis op "lagrange" then
          match gZs present with Some ps => Some (of_outZ (lagrange B trustee ps)) | None => None end
        else None
    | _ => None
    end.
End Exec.
