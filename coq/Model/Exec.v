(* Model/Exec.v — interpreter used by the correspondence check: it evaluates a named API operation of
   the model on dynamically typed arguments, so that the driver can compare, inside Coq, the model's
   result with what the implementation returned for the same inputs. No proofs here. *)
From Coq Require Import ZArith List Bool String.
From Strand Require Import Base.ZUtil Model.Outcome Model.Codec Model.Sha512 Model.Backend
  Model.ZBackend Model.Zkp.
Import ListNotations.
Open Scope list_scope.
Open Scope Z_scope.

Inductive val : Type :=
| VZ (z : Z)
| VB (b : bytes)
| VL (l : list val)
| VBool (b : bool)
| VNone
| VErr
| VPanic
| VBad.          (* malformed case: wrong arity / unknown op *)

Fixpoint val_eqb (a b : val) : bool :=
  match a, b with
  | VZ x, VZ y => x =? y
  | VB x, VB y => bytes_eqb x y
  | VL x, VL y =>
      (fix go (l1 l2 : list val) : bool :=
         match l1, l2 with
         | [], [] => true
         | u :: r1, v :: r2 => val_eqb u v && go r1 r2
         | _, _ => false
         end) x y
  | VBool x, VBool y => Bool.eqb x y
  | VNone, VNone => true
  | VErr, VErr => true
  | VPanic, VPanic => true
  | _, _ => false
  end.

Definition mkP (p : Z) : Params := {| p_p := p; p_q := (p - 1) / 2; p_g := 4; p_cof := 2 |}.

Definition of_outZ (o : outcome Z) : val :=
  match o with Ok z => VZ z | Err => VErr | Panic => VPanic end.
Definition of_out (o : outcome val) : val :=
  match o with Ok v => v | Err => VErr | Panic => VPanic end.

Definition opis (op s : string) : bool := String.eqb op s.
Arguments opis _ _%string.

Section Exec.
  Variable K : Kernel.
  Variable fl : flavor.
  Variable P : Params.
  Let B := ZB K fl P.

  Definition v_ct (c : ctext B) : val := VL [VZ (mhr c); VZ (gr c)].
  Definition v_schnorr (s : schnorr B) : val := VL [VZ (s_com B s); VZ (s_chal B s); VZ (s_resp B s)].
  Definition v_cp (s : cproof B) : val :=
    VL [VZ (c_com1 B s); VZ (c_com2 B s); VZ (c_chal B s); VZ (c_resp B s)].
  Definition optE (v : val) : option (option Z) :=
    match v with VNone => Some None | VZ z => Some (Some z) | _ => None end.

  Definition exec (op : string) (args : list val) : val :=
    match args with
    | [] =>
        if opis op "gen" then VZ (b_gen B) else
        if opis op "one" then VZ (b_one B) else
        if opis op "xzero" then VZ 0 else if opis op "xone" then VZ 1 else VBad
    | [VZ a] =>
        if opis op "emodp" then VZ (b_modp B a) else
        if opis op "cmodulo" then VZ (b_modp B a) else
        if opis op "einvp" then of_outZ (b_invp B a) else
        if opis op "gpow" then VZ (b_gpow B a) else
        if opis op "xmodq" then VZ (b_xmodq B a) else
        if opis op "cexpmodulo" then VZ (b_xmodq B a) else
        if opis op "xinvq" then of_outZ (b_xinvq B a) else
        if opis op "xfrom_u64" then VZ (b_from_u64 B a) else
        if opis op "encode" then of_outZ (encode K P a) else
        if opis op "decode" then of_outZ (decode P a) else
        if opis op "pk_of_sk" then VZ (pk_of_sk B a) else
        if opis op "ser_e" then VB (b_ser_e B a) else
        if opis op "ser_x" then VB (b_ser_x B a) else
        VBad
    | [VB b] =>
        if opis op "hash_to_exp" then VZ (b_hash_to_exp B b) else
        if opis op "e_from_bytes" then of_outZ (element_from_bytes K fl P b) else
        if opis op "x_from_bytes" then of_outZ (exp_from_bytes fl P b) else
        VBad
    | [VZ a; VZ b] =>
        if opis op "emul" then VZ (b_mul B a b) else
        if opis op "emulp" then VZ (b_mulp B a b) else
        if opis op "edivp" then of_outZ (b_divp B a b) else
        if opis op "epow" then VZ (b_pow B a b) else
        if opis op "eeq" then VBool (b_eqb B a b) else
        if opis op "xadd" then VZ (b_xadd B a b) else
        if opis op "xsub" then of_outZ (b_xsub B a b) else
        if opis op "xmul" then VZ (b_xmul B a b) else
        if opis op "xdivq" then of_outZ (b_xdivq B a b) else
        if opis op "xsubmod" then of_outZ (b_sub_mod B a b) else
        VBad
    | [VZ pk; VZ m; VZ r] =>
        if opis op "encrypt_r" then v_ct (encrypt_with_randomness B pk m r) else
        if opis op "encrypt_exponential_r" then v_ct (encrypt_exponential B pk m r) else
        VBad
    | [VZ sk; VL [VZ c1; VZ c2]] =>
        let c := Build_ctext B c1 c2 in
        if opis op "decrypt" then of_outZ (decrypt B sk c) else
        if opis op "decryption_factor" then VZ (decryption_factor B sk c) else
        VBad
    | [VZ pk; VZ m; VB label; VZ r; VZ nonce] =>
        if opis op "encrypt_and_pok_r" then
          let '(c, pf) := encrypt_and_pok B pk m label r nonce in VL [v_ct c; v_schnorr pf]
        else VBad
    | [VZ sk; VL [VZ c1; VZ c2]; VB label; VZ r] =>
        let c := Build_ctext B c1 c2 in
        if opis op "decrypt_and_prove_r" then
          match decrypt_and_prove B sk (pk_of_sk B sk) c label r with
          | Ok (d, pf) => VL [VZ d; v_cp pf] | Err => VErr | Panic => VPanic end
        else VBad
    | [VZ secret; VZ pub; g; VB label; VZ r] =>
        match optE g with
        | Some g' =>
            if opis op "schnorr_prove_r" then v_schnorr (schnorr_prove B secret pub g' label r) else
            if opis op "popk_r" then
              match g' with Some g_r => v_schnorr (encryption_popk B secret pub g_r label r) | None => VBad end
            else VBad
        | None => VBad
        end
    | [VZ pub; g; VL [VZ com; VZ ch; VZ rs]; VB label] =>
        let pf := Build_schnorr B com ch rs in
        match optE g with
        | Some g' =>
            if opis op "schnorr_verify" then VBool (schnorr_verify B pub g' pf label) else
            if opis op "popk_verify" then
              match g' with Some g_r => VBool (encryption_popk_verify B pub g_r pf label) | None => VBad end
            else VBad
        | None => VBad
        end
    | [VZ secret; VZ pub1; VZ pub2; g1; VZ g2; VB label; VZ r] =>
        match optE g1 with
        | Some g1' =>
            if opis op "cp_prove_r" then v_cp (cp_prove B secret pub1 pub2 g1' g2 label r) else
            if opis op "dec_proof_r" then
              (* args: secret pk dec_factor mhr gr label r  (g1 slot carries mhr) *)
              match g1' with
              | Some m => v_cp (decryption_proof B secret pub1 pub2 m g2 label r)
              | None => VBad end
            else VBad
        | None => VBad
        end
    | [VZ pub1; VZ pub2; g1; VZ g2; VL [VZ k1; VZ k2; VZ ch; VZ rs]; VB label] =>
        let pf := Build_cproof B k1 k2 ch rs in
        match optE g1 with
        | Some g1' =>
            if opis op "cp_verify" then VBool (cp_verify B pub1 pub2 g1' g2 pf label) else
            if opis op "verify_decryption" then
              match g1' with
              | Some m => VBool (verify_decryption B pub1 pub2 m g2 pf label)
              | None => VBad end
            else VBad
        | None => VBad
        end
    | _ => VBad
    end.
End Exec.

(* a correspondence case: flavor, parameters, operation, arguments, what the implementation returned *)
Definition case := (Kernel * flavor * Params * string * list val * val)%type.

Definition run_case (c : case) : val :=
  let '(K, fl, P, op, args, _) := c in exec K fl P op args.

Fixpoint mismatches_from (i : Z) (cs : list case) : list (Z * val) :=
  match cs with
  | [] => []
  | c :: r =>
      let m := run_case c in
      let '(_, _, _, _, _, expected) := c in
      if val_eqb m expected then mismatches_from (i + 1) r
      else (i, m) :: mismatches_from (i + 1) r
  end.
Definition mismatches (cs : list case) := mismatches_from 0 cs.
