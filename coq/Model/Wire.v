(* Model/Wire.v — borsh wire formats of every strand wire type for the multiplicative backends:
   element, exponent, plaintext, Ciphertext, PublicKey, PrivateKey, Schnorr, ChaumPedersen, the
   StrandVector* wrappers (Vec<Vec<u8>>, each item strictly decoded) and ShuffleProof. Writers and
   readers mirror the BorshSerialize / BorshDeserialize impls field by field. No proofs here. *)
From Coq Require Import ZArith List Bool.
From Strand Require Import Base.ZUtil Model.Outcome Model.Codec Model.Backend Model.ZBackend Model.Zkp.
Import ListNotations.
Open Scope Z_scope.

Section Wire.
  Variable K : Kernel.
  Variable fl : flavor.
  Variable P : Params.
  Notation B := (ZB K fl P).
  Local Open Scope outcome_scope.

  (* ---- primitives ---- *)
  Definition wr_E (a : Z) : bytes := z_ser_int fl a.
  Definition wr_X (a : Z) : bytes := z_ser_int fl a.
  Definition rd_E : reader Z := fun bs =>
    '(b, r) <- rd_vec_u8 bs ;; v <- element_from_bytes K fl P b ;; Ok (v, r).
  Definition rd_X : reader Z := fun bs =>
    '(b, r) <- rd_vec_u8 bs ;; v <- exp_from_bytes fl P b ;; Ok (v, r).

  (* plaintext: num-bigint = Vec<u8> of LE bytes; malachite = Vec<u16> of BE base-256 digits *)
  Definition wr_P (m : Z) : bytes :=
    match fl with
    | Bigint => wr_vec_u8 (le_bytes_min m)
    | Malachite => let ds := be_digits m in u32le (Z.of_nat (length ds)) ++ flat_map u16le ds
    end.
  Definition rd_P : reader Z := fun bs =>
    match fl with
    | Bigint => '(b, r) <- rd_vec_u8 bs ;; Ok (le_int b, r)
    | Malachite =>
        '(ds, r) <- rd_vec 2 rd_u16 bs ;;
        (* Natural::from_digits_desc(&256, ..) is None when a digit is >= 256: an io error *)
        if forallb (fun d => d <? 256) ds then Ok (be_int ds, r) else Err
    end.

  (* ---- composites ---- *)
  Definition wr_ct (c : ctext B) : bytes := wr_E (mhr c) ++ wr_E (gr c).
  Definition rd_ct : reader (ctext B) := fun bs =>
    '(a, r1) <- rd_E bs ;; '(b, r2) <- rd_E r1 ;; Ok (Build_ctext B a b, r2).

  Definition wr_pk (e : Z) : bytes := wr_E e.
  Definition rd_pk : reader Z := rd_E.
  Definition wr_sk (v pk : Z) : bytes := wr_X v ++ wr_E pk.
  Definition rd_sk : reader (Z * Z) := fun bs =>
    '(v, r1) <- rd_X bs ;; '(e, r2) <- rd_E r1 ;; Ok ((v, e), r2).

  Definition wr_schnorr (s : schnorr B) : bytes := wr_E (s_com B s) ++ wr_X (s_chal B s) ++ wr_X (s_resp B s).
  Definition rd_schnorr : reader (schnorr B) := fun bs =>
    '(a, r1) <- rd_E bs ;; '(c, r2) <- rd_X r1 ;; '(s, r3) <- rd_X r2 ;; Ok (Build_schnorr B a c s, r3).

  Definition wr_cp (s : cproof B) : bytes :=
    wr_E (c_com1 B s) ++ wr_E (c_com2 B s) ++ wr_X (c_chal B s) ++ wr_X (c_resp B s).
  Definition rd_cp : reader (cproof B) := fun bs =>
    '(a, r1) <- rd_E bs ;; '(b, r2) <- rd_E r1 ;; '(c, r3) <- rd_X r2 ;; '(s, r4) <- rd_X r3 ;;
    Ok (Build_cproof B a b c s, r4).

  (* StrandVector*: Vec<Vec<u8>> on the wire, every inner byte string decoded strictly as one item *)
  Definition wr_svec {A} (wr : A -> bytes) (l : list A) : bytes :=
    wr_vec (fun a => wr_vec_u8 (wr a)) l.
  Definition rd_svec {A} (rd : reader A) : reader (list A) := fun bs =>
    '(items, r) <- rd_vec 4 rd_vec_u8 bs ;;
    l <- mapM (strict rd) items ;; Ok (l, r).

  Definition wr_vecE := wr_svec wr_E.
  Definition rd_vecE := rd_svec rd_E.
  Definition wr_vecX := wr_svec wr_X.
  Definition rd_vecX := rd_svec rd_X.
  Definition wr_vecC := wr_svec wr_ct.
  Definition rd_vecC := rd_svec rd_ct.
  Definition wr_vecP := wr_svec wr_P.
  Definition rd_vecP := rd_svec rd_P.
  Definition wr_vecCP := wr_svec wr_cp.
  Definition rd_vecCP := rd_svec rd_cp.

  (* ShuffleProof = Commitments{t1,t2,t3,t4_1,t4_2,t_hats} Responses{s1..s4,s_hats,s_primes} cs c_hats *)
  Record sproof := {
    sp_t1 : Z; sp_t2 : Z; sp_t3 : Z; sp_t41 : Z; sp_t42 : Z; sp_t_hats : list Z;
    sp_s1 : Z; sp_s2 : Z; sp_s3 : Z; sp_s4 : Z; sp_s_hats : list Z; sp_s_primes : list Z;
    sp_cs : list Z; sp_c_hats : list Z
  }.
  Definition wr_proof (p : sproof) : bytes :=
    wr_E (sp_t1 p) ++ wr_E (sp_t2 p) ++ wr_E (sp_t3 p) ++ wr_E (sp_t41 p) ++ wr_E (sp_t42 p) ++
    wr_vecE (sp_t_hats p) ++
    wr_X (sp_s1 p) ++ wr_X (sp_s2 p) ++ wr_X (sp_s3 p) ++ wr_X (sp_s4 p) ++
    wr_vecX (sp_s_hats p) ++ wr_vecX (sp_s_primes p) ++
    wr_vecE (sp_cs p) ++ wr_vecE (sp_c_hats p).
  Definition rd_proof : reader sproof := fun bs =>
    '(t1, r) <- rd_E bs ;; '(t2, r) <- rd_E r ;; '(t3, r) <- rd_E r ;; '(t41, r) <- rd_E r ;;
    '(t42, r) <- rd_E r ;; '(th, r) <- rd_vecE r ;;
    '(s1, r) <- rd_X r ;; '(s2, r) <- rd_X r ;; '(s3, r) <- rd_X r ;; '(s4, r) <- rd_X r ;;
    '(sh, r) <- rd_vecX r ;; '(sp, r) <- rd_vecX r ;;
    '(cs, r) <- rd_vecE r ;; '(ch, r) <- rd_vecE r ;;
    Ok (Build_sproof t1 t2 t3 t41 t42 th s1 s2 s3 s4 sh sp cs ch, r).

  (* strict top-level decoders = StrandDeserialize::strand_deserialize *)
  Definition de_E := strict rd_E.
  Definition de_X := strict rd_X.
  Definition de_P := strict rd_P.
  Definition de_ct := strict rd_ct.
  Definition de_pk := strict rd_pk.
  Definition de_sk := strict rd_sk.
  Definition de_schnorr := strict rd_schnorr.
  Definition de_cp := strict rd_cp.
  Definition de_proof := strict rd_proof.

  (* ---- exponent transport (Ctx::encrypt_exp / decrypt_exp) ---- *)
  Definition encrypt_exp (x pk r : Z) : outcome bytes :=
    e <- encode K P x ;; Ok (wr_ct (encrypt_with_randomness B pk e r)).
  Definition decrypt_exp (bs : bytes) (sk : Z) : outcome Z :=
    c <- de_ct bs ;; d <- decrypt B sk c ;; decode P d.
End Wire.
