(* Model/Keccak.v — executable Keccak-f[1600] and SHAKE256 (FIPS 202) over Z; bytes are Z in [0,256).
   Used by the ristretto generator derivation (sha3::Shake256 in src/backend/ristretto.rs).
   No proofs here except test vectors as Examples (kernel-computed). *)
From Coq Require Import ZArith List Bool.
Import ListNotations.
Open Scope Z_scope.

Definition m64 : Z := 0xFFFFFFFFFFFFFFFF.
Definition rotl64 (x n : Z) : Z :=
  if n =? 0 then x else Z.land (Z.lor (Z.shiftl x n) (Z.shiftr x (64 - n))) m64.
Definition not64 (x : Z) : Z := Z.lxor x m64.

Definition lane (st : list Z) (i : nat) : Z := nth i st 0.
(* state index = x + 5*y *)
Definition idx (x y : nat) : nat := (x mod 5 + 5 * (y mod 5))%nat.

Definition rho_off : list Z :=      (* indexed by x + 5*y *)
  [ 0;  1; 62; 28; 27;
   36; 44;  6; 55; 20;
    3; 10; 43; 25; 39;
   41; 45; 15; 21;  8;
   18;  2; 61; 56; 14].

Definition RC : list Z :=
  [0x0000000000000001; 0x0000000000008082; 0x800000000000808A; 0x8000000080008000;
   0x000000000000808B; 0x0000000080000001; 0x8000000080008081; 0x8000000000008009;
   0x000000000000008A; 0x0000000000000088; 0x0000000080008009; 0x000000008000000A;
   0x000000008000808B; 0x800000000000008B; 0x8000000000008089; 0x8000000000008003;
   0x8000000000008002; 0x8000000000000080; 0x000000000000800A; 0x800000008000000A;
   0x8000000080008081; 0x8000000000008080; 0x0000000080000001; 0x8000000080008008].

Definition xs5 : list nat := [0; 1; 2; 3; 4]%nat.
Definition ix25 : list nat := seq 0 25.

Definition theta (a : list Z) : list Z :=
  let c := map (fun x => Z.lxor (Z.lxor (Z.lxor (Z.lxor (lane a (idx x 0)) (lane a (idx x 1))) (lane a (idx x 2))) (lane a (idx x 3))) (lane a (idx x 4))) xs5 in
  let d := map (fun x => Z.lxor (nth ((x + 4) mod 5) c 0) (rotl64 (nth ((x + 1) mod 5) c 0) 1)) xs5 in
  map (fun i => Z.lxor (lane a i) (nth (i mod 5) d 0)) ix25.

(* B[y, 2x+3y] = rot(A[x,y], r[x,y]) ; computed per destination (X,Y): source x = (X + 3Y) mod 5, y = X *)
Definition rho_pi (a : list Z) : list Z :=
  map (fun i => let X := (i mod 5)%nat in let Y := (i / 5)%nat in
                let sx := ((X + 3 * Y) mod 5)%nat in let sy := X in
                rotl64 (lane a (idx sx sy)) (nth (idx sx sy) rho_off 0)) ix25.

Definition chi (b : list Z) : list Z :=
  map (fun i => let x := (i mod 5)%nat in let y := (i / 5)%nat in
                Z.lxor (lane b i) (Z.land (not64 (lane b (idx (x + 1) y))) (lane b (idx (x + 2) y)))) ix25.

Definition iota (rc : Z) (a : list Z) : list Z :=
  match a with h :: t => Z.lxor h rc :: t | [] => [] end.

Definition keccak_round (a : list Z) (rc : Z) : list Z := iota rc (chi (rho_pi (theta a))).
Definition keccak_f (a : list Z) : list Z := fold_left keccak_round RC a.

(* ---- sponge, rate 136 bytes (SHAKE256) ---- *)
Definition le64 (bs : list Z) : Z := fold_right (fun b acc => b + 256 * acc) 0 bs.
Fixpoint lanes_of (n : nat) (bs : list Z) : list Z :=
  match n with O => [] | S k => le64 (firstn 8 bs) :: lanes_of k (skipn 8 bs) end.
Fixpoint bytes_of_lane (n : nat) (x : Z) : list Z :=
  match n with O => [] | S k => (x mod 256) :: bytes_of_lane k (x / 256) end.

Definition rate : nat := 136.
Definition xor_block (st : list Z) (blk : list Z) : list Z :=
  let ls := lanes_of 17 blk in
  map (fun i => if (i <? 17)%nat then Z.lxor (lane st i) (nth i ls 0) else lane st i) ix25.

Fixpoint absorb (fuel : nat) (st : list Z) (msg : list Z) : list Z :=
  match fuel with
  | O => st
  | S f => match msg with
           | [] => st
           | _ => absorb f (keccak_f (xor_block st (firstn rate msg))) (skipn rate msg)
           end
  end.

Definition pad_shake (msg : list Z) : list Z :=
  let r := Z.of_nat rate in
  let len := Z.of_nat (length msg) in
  let k := (r - 1 - len mod r) in            (* bytes of padding after the first one: total pad = k+1 in [1, r] *)
  if k =? 0 then msg ++ [0x9F] else msg ++ [0x1F] ++ repeat 0 (Z.to_nat (k - 1)) ++ [0x80].

Fixpoint squeeze (nblocks : nat) (st : list Z) : list Z :=
  match nblocks with
  | O => []
  | S k => flat_map (bytes_of_lane 8) (firstn 17 st) ++ squeeze k (keccak_f st)
  end.

Definition shake256 (msg : list Z) (outlen : nat) : list Z :=
  let padded := pad_shake msg in
  let st := absorb (S (length padded / rate)) (repeat 0 25%nat) padded in
  firstn outlen (squeeze (S (outlen / rate)) st).
