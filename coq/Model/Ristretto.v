(* Model/Ristretto.v — executable model of what src/backend/ristretto.rs obtains from curve25519-dalek 4:
   the field GF(2^255-19), the twisted Edwards curve -x^2 + y^2 = 1 + d x^2 y^2 in extended coordinates,
   the ristretto255 group on top of it (RFC 9496: DECODE = CompressedRistretto::decompress, ENCODE =
   RistrettoPoint::compress, equality, the Elligator MAP and from_uniform_bytes), and the scalar ring
   Z_l (from_bytes_mod_order, from_bytes_mod_order_wide, from_canonical_bytes, invert).
   All field arithmetic goes through a [Kernel] (Base/ZUtil.v), so the same definitions run with plain Z
   or with the proven-equal BigZ kernel. No proofs here. *)
From Coq Require Import ZArith List Bool.
From Strand Require Import Base.ZUtil Model.Outcome Model.Codec.
Import ListNotations.
Open Scope Z_scope.

Definition fp : Z := 57896044618658097711785492504343953926634992332820282019728792003956564819949.   (* 2^255 - 19 *)
Definition ell : Z := 7237005577332262213973186563042994240857116359379907606001950938285454250989.    (* 2^252 + 27742317777372353535851937790883648493 *)
Definition ed_d : Z := 37095705934669439343138083508754565189542113879843219016388785533085940283555.
Definition sqrt_m1 : Z := 19681161376707505956807079304988542015446066515923890162744021073123829784752.
Definition sqrt_ad_minus_one : Z := 25063068953384623474111414158702152701244531502492656460079210482610430750235.
Definition invsqrt_a_minus_d : Z := 54469307008909316920995813868745141605393597292927456921205312896311721017578.
Definition one_minus_d_sq : Z := 1159843021668779879193775521855586647937357759715417654439879720876111806838.
Definition d_minus_one_sq : Z := 40440834346308536858101042469323190826248399146238708352240133220865137265952.
Definition base_x : Z := 15112221349535400772501151409588531511454012693041857206046113283949847762202.
Definition base_y : Z := 46316835694926478169428394003475163141307993866256225615783033603165251855960.

Record point : Type := { px : Z; py : Z; pz : Z; pt : Z }.   (* extended coordinates, x = X/Z, y = Y/Z, xy = T/Z *)

Section R.
  Variable K : Kernel.

  (* ---- field: every value is kept canonical in [0, fp) ---- *)
  Definition fmod (a : Z) : Z := k_mod K a fp.
  Definition fmul (a b : Z) : Z := fmod (k_mul K a b).
  Definition fadd (a b : Z) : Z := fmod (a + b).
  Definition fsub (a b : Z) : Z := fmod (a - b).
  Definition fneg (a : Z) : Z := fmod (- a).
  Definition fsq (a : Z) : Z := fmul a a.
  Definition fpow (a e : Z) : Z := k_powm K a e fp.
  Definition fis_neg (a : Z) : bool := Z.odd a.                  (* IS_NEGATIVE: low bit of the canonical encoding *)
  Definition fabs (a : Z) : Z := if fis_neg a then fneg a else a.

  (* RFC 9496 4.2 SQRT_RATIO_M1 *)
  Definition sqrt_ratio_m1 (u v : Z) : bool * Z :=
    let v3 := fmul (fsq v) v in
    let v7 := fmul (fsq v3) v in
    let r := fmul (fmul u v3) (fpow (fmul u v7) ((fp - 5) / 8)) in
    let check := fmul v (fsq r) in
    let correct := check =? u in
    let flipped := check =? fneg u in
    let flipped_i := check =? fneg (fmul u sqrt_m1) in
    let r := if flipped || flipped_i then fmul sqrt_m1 r else r in
    (correct || flipped, fabs r).

  (* ---- Edwards points ---- *)
  Definition pt_id : point := {| px := 0; py := 1; pz := 1; pt := 0 |}.
  Definition pt_base : point := {| px := base_x; py := base_y; pz := 1; pt := fmul base_x base_y |}.

  (* unified addition, a = -1 (add-2008-hwcd-3); complete on this curve *)
  Definition pt_add (p1 p2 : point) : point :=
    let A := fmul (fsub (py p1) (px p1)) (fsub (py p2) (px p2)) in
    let B := fmul (fadd (py p1) (px p1)) (fadd (py p2) (px p2)) in
    let C := fmul (fmul (pt p1) (fmul 2 ed_d)) (pt p2) in
    let D := fmul (fmul (pz p1) 2) (pz p2) in
    let E' := fsub B A in let F := fsub D C in let G := fadd D C in let H := fadd B A in
    {| px := fmul E' F; py := fmul G H; pz := fmul F G; pt := fmul E' H |}.

  Definition pt_neg (p1 : point) : point :=
    {| px := fneg (px p1); py := py p1; pz := pz p1; pt := fneg (pt p1) |}.

  Fixpoint pt_mul_pos (e : positive) (p1 : point) : point :=
    match e with
    | xH => p1
    | xO e' => let h := pt_mul_pos e' p1 in pt_add h h
    | xI e' => let h := pt_mul_pos e' p1 in pt_add (pt_add h h) p1
    end.
  (* scalar multiplication by a canonical scalar (callers pass values in [0, ell)) *)
  Definition pt_mul (e : Z) (p1 : point) : point :=
    match e with Zpos e' => pt_mul_pos e' p1 | _ => pt_id end.

  (* ristretto equality (RFC 9496 4.3.3) *)
  Definition pt_eqb (p1 p2 : point) : bool :=
    (fmul (px p1) (py p2) =? fmul (py p1) (px p2)) || (fmul (py p1) (py p2) =? fmul (px p1) (px p2)).

  (* RFC 9496 4.3.1 DECODE on the integer s: the byte-level conditions are in [decompress] below *)
  Definition decode_s (s : Z) : option point :=
    let ss := fsq s in
    let u1 := fsub 1 ss in
    let u2 := fadd 1 ss in
    let u2_sqr := fsq u2 in
    let v := fsub (fneg (fmul ed_d (fsq u1))) u2_sqr in
    let '(was_square, invsqrt) := sqrt_ratio_m1 1 (fmul v u2_sqr) in
    let den_x := fmul invsqrt u2 in
    let den_y := fmul (fmul invsqrt den_x) v in
    let x := fabs (fmul (fmul 2 s) den_x) in
    let y := fmul u1 den_y in
    let t := fmul x y in
    if negb was_square || fis_neg t || (y =? 0) then None
    else Some {| px := x; py := y; pz := 1; pt := t |}.

  (* CompressedRistretto(bytes).decompress(): 32 bytes, canonical (little-endian value < p, which also
     forces bit 255 to be clear) and non-negative field element, then DECODE *)
  Definition decompress (bs : bytes) : option point :=
    if negb (length bs =? 32)%nat then None else
    let s := le_int bs in
    if (s >=? fp) || Z.odd s then None else decode_s s.

  (* RFC 9496 4.3.2 ENCODE *)
  Definition compress (p1 : point) : bytes :=
    let x0 := px p1 in let y0 := py p1 in let z0 := pz p1 in let t0 := pt p1 in
    let u1 := fmul (fadd z0 y0) (fsub z0 y0) in
    let u2 := fmul x0 y0 in
    let '(_, invsqrt) := sqrt_ratio_m1 1 (fmul u1 (fsq u2)) in
    let den1 := fmul invsqrt u1 in
    let den2 := fmul invsqrt u2 in
    let z_inv := fmul (fmul den1 den2) t0 in
    let ix0 := fmul x0 sqrt_m1 in
    let iy0 := fmul y0 sqrt_m1 in
    let ench := fmul den1 invsqrt_a_minus_d in
    let rotate := fis_neg (fmul t0 z_inv) in
    let x := if rotate then iy0 else x0 in
    let y := if rotate then ix0 else y0 in
    let den_inv := if rotate then ench else den2 in
    let y := if fis_neg (fmul x z_inv) then fneg y else y in
    let s := fabs (fmul den_inv (fsub z0 y)) in
    le_fixed 32 s.

  (* RFC 9496 4.3.4 MAP (Elligator 2 on the Jacobi quartic) *)
  Definition elligator (t : Z) : point :=
    let r := fmul sqrt_m1 (fsq t) in
    let u := fmul (fadd r 1) one_minus_d_sq in
    let v := fmul (fsub (fneg 1) (fmul r ed_d)) (fadd r ed_d) in
    let '(was_square, s) := sqrt_ratio_m1 u v in
    let s_prime := fneg (fabs (fmul s t)) in
    let s := if was_square then s else s_prime in
    let c := if was_square then fneg 1 else r in
    let N := fsub (fmul (fmul c (fsub r 1)) d_minus_one_sq) v in
    let w0 := fmul (fmul 2 s) v in
    let w1 := fmul N sqrt_ad_minus_one in
    let w2 := fsub 1 (fsq s) in
    let w3 := fadd 1 (fsq s) in
    {| px := fmul w0 w3; py := fmul w2 w1; pz := fmul w1 w3; pt := fmul w0 w2 |}.

  (* FieldElement::from_bytes: bit 255 is ignored, the value is reduced *)
  Definition fe_from_bytes (bs : bytes) : Z := fmod (Z.land (le_int bs) (2 ^ 255 - 1)).

  (* RistrettoPoint::from_uniform_bytes(&[u8; 64]) *)
  Definition from_uniform_bytes (bs : bytes) : point :=
    pt_add (elligator (fe_from_bytes (firstn 32 bs))) (elligator (fe_from_bytes (skipn 32 bs))).

  (* ---- scalars: integers in [0, ell) ---- *)
  Definition smod (a : Z) : Z := k_mod K a ell.
  Definition sc_add (a b : Z) : Z := smod (a + b).
  Definition sc_sub (a b : Z) : Z := smod (a - b).
  Definition sc_mul (a b : Z) : Z := smod (k_mul K a b).
  Definition sc_invert (a : Z) : Z := k_powm K a (ell - 2) ell.        (* Scalar::invert; 0 |-> 0 *)
  Definition sc_from_bytes_mod_order (bs : bytes) : Z := smod (le_int bs).           (* 32 or 64 (wide) bytes *)
  Definition sc_from_canonical_bytes (bs : bytes) : option Z :=
    if negb (length bs =? 32)%nat then None else
    let v := le_int bs in if v <? ell then Some v else None.
  Definition sc_to_bytes (a : Z) : bytes := le_fixed 32 a.
End R.
