(* Model/Shuffler.v — src/shuffler.rs over the Backend record: re-encryption shuffle, Terelius-Wikstrom
   prover and verifier, the two challenge functions. Randomness is an explicit list of draws in the
   order the sequential build consumes them. The verifier follows the repaired code: it first rejects
   (Ok false) when N = 0 or any proof vector / the output list does not have exactly N entries, so all
   later indexing is in range and is written with zips. No proofs here. *)
From Coq Require Import ZArith List Bool String.
From Strand Require Import Model.Outcome Model.Codec Model.Sha512 Model.Backend Model.Zkp.
Import ListNotations.
Open Scope list_scope.
Open Scope Z_scope.
Local Notation length := List.length.

Section Shuffler.
  Variable B : Backend.
  Notation Et := (E B).
  Notation mulp := (b_mulp B).
  Notation pow := (b_pow B).
  Notation gpow := (b_gpow B).
  Local Open Scope outcome_scope.

  (* ---- generic wire pieces needed by the transcripts ---- *)
  Definition ser_ct (c : ctext B) : bytes := b_ser_e B (mhr c) ++ b_ser_e B (gr c).
  Definition ser_svec {A} (ser : A -> bytes) (l : list A) : bytes :=
    wr_vec (fun a => wr_vec_u8 (ser a)) l.
  Definition ser_vecE := ser_svec (b_ser_e B).
  Definition ser_vecC := ser_svec ser_ct.

  (* ---- shuffle ---- *)
  Definition reenc (pk : Et) (c : ctext B) (r : Z) : ctext B :=
    {| mhr := mulp (mhr c) (pow pk r); gr := mulp (gr c) (gpow r) |}.

  Definition nthZ {A} (l : list A) (i : Z) : outcome A :=
    if i <? 0 then Panic else of_option (nth_error l (Z.to_nat i)).

  (* Shuffler::apply_permutation with the N exponent draws rs (input order) *)
  Definition apply_permutation (pk : Et) (perm : list Z) (cs : list (ctext B)) (rs : list Z)
    : outcome (list (ctext B) * list Z) :=
    if negb (length perm =? length cs)%nat then Panic
    else if negb (length rs =? length cs)%nat then Err    (* model: not enough draws supplied *)
    else let e_primes := map (fun cr => reenc pk (fst cr) (snd cr)) (combine cs rs) in
         out <- mapM (nthZ e_primes) perm ;; Ok (out, rs).

  (* ---- challenges ---- *)
  Definition us_prefix (es e_primes : list (ctext B)) (cs : list Et) (label : bytes) : bytes :=
    ci_bytes (ci_insert (key "label") (wr_vec_u8 label)
             (ci_insert (key "cs") (ser_vecE cs)
             (ci_insert (key "e_primes") (ser_vecC e_primes)
             (ci_insert (key "es") (ser_vecC es) [])))).

  Definition u_input (prefix_hash : bytes) (i : Z) : bytes :=
    ci_bytes (ci_insert (key "counter") (u64le i) (ci_insert (key "prefix") prefix_hash [])).

  Definition shuffle_us (es e_primes : list (ctext B)) (cs : list Et) (n : nat) (label : bytes) : list Z :=
    let ph := sha512 (us_prefix es e_primes cs label) in
    map (fun i => b_hash_to_exp B (u_input ph (Z.of_nat i))) (seq 0 n).

  Record commitments := { t1 : Et; t2 : Et; t3 : Et; t41 : Et; t42 : Et; t_hats : list Et }.
  Record responses := { s1 : Z; s2 : Z; s3 : Z; s4 : Z; s_hats : list Z; s_primes : list Z }.
  Record sproof := { pf_t : commitments; pf_s : responses; pf_cs : list Et; pf_c_hats : list Et }.

  Definition challenge_input (es e_primes : list (ctext B)) (cs c_hats : list Et) (pk : Et)
             (t : commitments) (label : bytes) : bytes :=
    ci_bytes (ci_insert (key "label") label
             (ci_insert (key "t_hats") (ser_vecE (t_hats t))
             (ci_insert (key "pk.element") (b_ser_e B pk)
             (ci_insert (key "c_hats") (ser_vecE c_hats)
             (ci_insert (key "cs") (ser_vecE cs)
             (ci_insert (key "e_primes") (ser_vecC e_primes)
             (ci_insert (key "es") (ser_vecC es)
             (ci_insert (key "t4_2") (b_ser_e B (t42 t))
             (ci_insert (key "t4_1") (b_ser_e B (t41 t))
             (ci_insert (key "t3") (b_ser_e B (t3 t))
             (ci_insert (key "t2") (b_ser_e B (t2 t))
             (ci_insert (key "t1") (b_ser_e B (t1 t)) [])))))))))))).

  Definition shuffle_challenge es e_primes cs c_hats pk t label : Z :=
    b_hash_to_exp B (challenge_input es e_primes cs c_hats pk t label).

  (* ---- helpers ---- *)
  Definition prodp (l : list Et) : Et := fold_left mulp l (b_one B).       (* acc = acc.mul(x).modp() *)
  Definition xsum (l : list Z) : Z := fold_left (b_xadd B) l 0.             (* acc = acc.add(x), from 0 *)
  Definition zip3 {A1 A2 A3} (a : list A1) (b : list A2) (c : list A3) := combine a (combine b c).

  Fixpoint set_nth {A} (l : list A) (i : nat) (v : A) : option (list A) :=
    match l, i with
    | [], _ => None
    | _ :: r, O => Some (v :: r)
    | x :: r, S k => match set_nth r k v with Some r' => Some (x :: r') | None => None end
    end.

  (* Shuffler::gen_commitments: c_i = h_i * g^r_i placed at position perm[i] *)
  Definition gen_commitments (hs : list Et) (perm : list Z) (rs : list Z) : outcome (list Et * list Z) :=
    if negb (length hs =? length perm)%nat then Panic
    else if negb (length rs =? length hs)%nat then Err
    else
      let cs := map (fun hr => mulp (fst hr) (gpow (snd hr))) (combine hs rs) in
      fold_left (fun acc icr =>
                   '(cp, rp) <- acc ;;
                   let '(i, (c, r)) := icr in
                   if i <? 0 then Panic else
                   match set_nth cp (Z.to_nat i) c, set_nth rp (Z.to_nat i) r with
                   | Some cp', Some rp' => Ok (cp', rp')
                   | _, _ => Panic
                   end)
                (combine perm (combine cs rs))
                (Ok (repeat (b_one B) (length perm), repeat 1 (length perm))).

  (* gen_commitment_chain: c_i = g^r_i * c_{i-1}^{u_i}, c_{-1} = initial *)
  Fixpoint commitment_chain (prev : Et) (us rs : list Z) : list Et :=
    match us, rs with
    | u :: us', r :: rs' => let c := mulp (gpow r) (pow prev u) in c :: commitment_chain c us' rs'
    | _, _ => []
    end.

  (* vs[N-1] = 1, vs[i] = u'_{i+1} * vs[i+1] mod q *)
  Fixpoint vs_of (u_primes : list Z) : list Z :=
    match u_primes with
    | [] => []
    | _ :: rest =>
        match rest with
        | [] => [1]
        | u_next :: _ => let tl := vs_of rest in
                         b_xmodq B (b_xmul B u_next (hd 1 tl)) :: tl
        end
    end.

  Definition resp1 (omega c r : Z) : Z := b_xmodq B (b_xadd B omega (b_xmul B c r)).

  (* Shuffler::gen_proof_ext.  draws = r_hats (N) ++ omegas (4) ++ omega_hats (N) ++ omega_primes (N) *)
  Definition gen_proof_ext (pk : Et) (gens : list Et) (es e_primes : list (ctext B)) (r_primes : list Z)
             (perm : list Z) (cs : list Et) (rs : list Z) (label : bytes) (draws : list Z)
    : outcome sproof :=
    match gens with
    | [] => Panic
    | h_initial :: hs =>
        let N := length es in
        if negb ((N =? length e_primes) && (N =? length r_primes) && (N =? length perm)
                 && (N =? length hs) && (0 <? N))%nat then Panic
        else if negb (length draws =? 3 * N + 4)%nat then Err
        else
          let us := shuffle_us es e_primes cs N label in
          u_primes <- mapM (nthZ us) perm ;;
          let r_hats := firstn N draws in
          let omegas := firstn 4 (skipn N draws) in
          let omega_hats := firstn N (skipn (N + 4) draws) in
          let omega_primes := skipn (N + 4 + N) draws in
          let c_hats := commitment_chain h_initial u_primes r_hats in
          let vs := vs_of u_primes in
          let r_bar := b_xmodq B (xsum rs) in
          let r_hat := b_xmodq B (xsum (map (fun rv => b_xmul B (fst rv) (snd rv)) (combine r_hats vs))) in
          let r_tilde := b_xmodq B (xsum (map (fun ru => b_xmul B (fst ru) (snd ru)) (combine rs us))) in
          let r_prime := b_xmodq B (xsum (map (fun ru => b_xmul B (fst ru) (snd ru)) (combine r_primes us))) in
          let o0 := nth 0 omegas 0 in let o1 := nth 1 omegas 0 in
          let o2 := nth 2 omegas 0 in let o3 := nth 3 omegas 0 in
          let t3_temp := prodp (map (fun hw => pow (fst hw) (snd hw)) (combine hs omega_primes)) in
          let t41_temp := prodp (map (fun ew => pow (mhr (fst ew)) (snd ew)) (combine e_primes omega_primes)) in
          let t42_temp := prodp (map (fun ew => pow (gr (fst ew)) (snd ew)) (combine e_primes omega_primes)) in
          pk_inv <- b_invp B pk ;;
          g_inv <- b_invp B (b_gen B) ;;
          let t := {| t1 := gpow o0; t2 := gpow o1;
                      t3 := mulp (gpow o2) t3_temp;
                      t41 := mulp (pow pk_inv o3) t41_temp;
                      t42 := mulp (pow g_inv o3) t42_temp;
                      t_hats := map (fun pww => mulp (gpow (fst (snd pww))) (pow (fst pww) (snd (snd pww))))
                                    (zip3 (h_initial :: c_hats) omega_hats omega_primes) |} in
          let c := shuffle_challenge es e_primes cs c_hats pk t label in
          Ok {| pf_t := t;
                pf_s := {| s1 := resp1 o0 c r_bar; s2 := resp1 o1 c r_hat;
                           s3 := resp1 o2 c r_tilde; s4 := resp1 o3 c r_prime;
                           s_hats := map (fun wr => resp1 (fst wr) c (snd wr)) (combine omega_hats r_hats);
                           s_primes := map (fun wu => resp1 (fst wu) c (snd wu)) (combine omega_primes u_primes) |};
                pf_cs := cs; pf_c_hats := c_hats |}
    end.

  (* Shuffler::gen_proof: draws = commitment randomness (N) ++ the 3N+4 draws of gen_proof_ext *)
  Definition gen_proof pk gens es e_primes r_primes perm label (draws : list Z) : outcome sproof :=
    match gens with
    | [] => Panic
    | _ :: hs =>
        let N := length hs in
        '(cs, rs) <- gen_commitments hs perm (firstn N draws) ;;
        gen_proof_ext pk gens es e_primes r_primes perm cs rs label (skipn N draws)
    end.

  Definition last_or {A} (l : list A) (d : A) : A := last l d.

  (* Shuffler::check_proof *)
  Definition check_proof (pk : Et) (gens : list Et) (pf : sproof) (es e_primes : list (ctext B))
             (label : bytes) : outcome bool :=
    match gens with
    | [] => Panic
    | h_initial :: hs =>
        let N := length es in
        let t := pf_t pf in let s := pf_s pf in
        if ((N =? 0) || negb (length e_primes =? N) || negb (length (pf_cs pf) =? N)
            || negb (length (pf_c_hats pf) =? N) || negb (length (t_hats t) =? N)
            || negb (length (s_hats s) =? N) || negb (length (s_primes s) =? N))%nat
        then Ok false
        else if negb (N =? length hs)%nat then Panic
        else
          let us := shuffle_us es e_primes (pf_cs pf) N label in
          let c_bar_num := prodp (pf_cs pf) in
          let c_bar_den := prodp hs in
          let u := fold_left (fun acc x => b_xmodq B (b_xmul B acc x)) us 1 in
          let c_tilde := prodp (map (fun cu => pow (fst cu) (snd cu)) (combine (pf_cs pf) us)) in
          let a_prime := prodp (map (fun eu => pow (mhr (fst eu)) (snd eu)) (combine es us)) in
          let b_prime := prodp (map (fun eu => pow (gr (fst eu)) (snd eu)) (combine es us)) in
          let tt3 := prodp (map (fun hs' => pow (fst hs') (snd hs')) (combine hs (s_primes s))) in
          let tt41 := prodp (map (fun es' => pow (mhr (fst es')) (snd es')) (combine e_primes (s_primes s))) in
          let tt42 := prodp (map (fun es' => pow (gr (fst es')) (snd es')) (combine e_primes (s_primes s))) in
          cb <- b_divp B c_bar_num c_bar_den ;;
          let c_bar := b_modp B cb in
          ch <- b_divp B (last_or (pf_c_hats pf) (b_one B)) (pow h_initial u) ;;
          let c_hat := b_modp B ch in
          let c := shuffle_challenge es e_primes (pf_cs pf) (pf_c_hats pf) pk t label in
          i1 <- b_invp B c_bar ;;
          let tp1 := mulp (pow i1 c) (gpow (s1 s)) in
          i2 <- b_invp B c_hat ;;
          let tp2 := mulp (pow i2 c) (gpow (s2 s)) in
          i3 <- b_invp B c_tilde ;;
          let tp3 := b_modp B (b_mul B (b_mul B (pow i3 c) (gpow (s3 s))) tt3) in
          i4 <- b_invp B a_prime ;;
          pk_inv <- b_invp B pk ;;
          let tp41 := b_modp B (b_mul B (b_mul B (pow i4 c) (pow pk_inv (s4 s))) tt41) in
          i5 <- b_invp B b_prime ;;
          g_inv <- b_invp B (b_gen B) ;;
          let tp42 := b_modp B (b_mul B (b_mul B (pow i5 c) (pow g_inv (s4 s))) tt42) in
          that <- mapM (fun x : Et * (Et * (Z * Z)) =>
                          let '(prev, (ci, (sh, sp))) := x in
                          inv <- b_invp B ci ;;
                          Ok (b_modp B (b_mul B (b_mul B (pow inv c) (gpow sh)) (pow prev sp))))
                       (combine (h_initial :: pf_c_hats pf)
                                (combine (pf_c_hats pf) (combine (s_hats s) (s_primes s)))) ;;
          Ok (b_eqb B (t1 t) tp1 && b_eqb B (t2 t) tp2 && b_eqb B (t3 t) tp3
              && b_eqb B (t41 t) tp41 && b_eqb B (t42 t) tp42
              && forallb (fun ab => b_eqb B (fst ab) (snd ab)) (combine (t_hats t) that))
    end.
End Shuffler.
