(* Model/Rng.v — the samplers as functions of the random byte stream: num-bigint's
   gen_biguint_below (words of 32 bits, top word shifted, rejection), the num-bigint backend's rnd_exp /
   rnd_plaintext / rnd, rand 0.8's gen_range on u32 (widening multiply with rejection zone) and
   SliceRandom::shuffle (Durstenfeld/Fisher-Yates, i = n-1 .. 1). A stream that is too short is [Err]
   (the checks always supply enough bytes). No proofs here. *)
From Coq Require Import ZArith List Bool.
From Strand Require Import Base.ZUtil Model.Outcome Model.Codec Model.ZBackend.
Import ListNotations.
Open Scope Z_scope.

Definition bitlen (x : Z) : Z := if x <=? 0 then 0 else Z.log2 x + 1.

(* RandBigInt::gen_biguint(bits) *)
Definition gen_biguint (bits : Z) (s : bytes) : outcome (Z * bytes) :=
  let len := (bits + 31) / 32 in
  let rem := bits mod 32 in
  match take_n (Z.to_nat (4 * len)) s with
  | Ok (b, rest) =>
      let v := le_int b in
      if rem =? 0 then Ok (v, rest)
      else
        let lowbits := 32 * (len - 1) in
        let low := v mod 2 ^ lowbits in
        let top := v / 2 ^ lowbits in
        Ok (low + Z.shiftr top (32 - rem) * 2 ^ lowbits, rest)
  | Err => Err | Panic => Panic
  end.

(* RandBigInt::gen_biguint_below(bound): rejection loop, fuelled in the model *)
Fixpoint gen_below (fuel : nat) (bound : Z) (s : bytes) : outcome (Z * bytes) :=
  match fuel with
  | O => Err
  | S f =>
      if bound <=? 0 then Panic     (* assert!(!bound.is_zero()) *)
      else match gen_biguint (bitlen bound) s with
           | Ok (n, rest) => if n <? bound then Ok (n, rest) else gen_below f bound rest
           | Err => Err | Panic => Panic
           end
  end.

Definition RNG_FUEL : nat := 200.

Section Samplers.
  Variable K : Kernel.
  Variable P : Params.
  (* num-bigint backend *)
  Definition rnd_exp_bigint (s : bytes) : outcome (Z * bytes) := gen_below RNG_FUEL (p_q P) s.
  Definition rnd_plaintext_bigint (s : bytes) : outcome (Z * bytes) := gen_below RNG_FUEL (p_q P - 1) s.
  Definition rnd_bigint (s : bytes) : outcome (Z * bytes) :=
    match gen_below RNG_FUEL (p_q P - 1) s with
    | Ok (m, rest) => match encode K P m with
                      | Ok e => Ok (e, rest)
                      | _ => Panic        (* .expect("0..(q-1) should always be encodable") *)
                      end
    | Err => Err | Panic => Panic
    end.
End Samplers.

(* rand 0.8 UniformInt<u32>::sample_single(0, ubound): v * range widened, accept when the low half <= zone *)
Definition u32_zone (range : Z) : Z :=
  let lz := 32 - bitlen range in
  ((range * 2 ^ lz) mod 2 ^ 32 - 1) mod 2 ^ 32.

Fixpoint gen_index (fuel : nat) (ubound : Z) (s : bytes) : outcome (Z * bytes) :=
  match fuel with
  | O => Err
  | S f =>
      match take_n 4 s with
      | Ok (b, rest) =>
          let v := le_int b in
          let prod := v * ubound in
          let hi := prod / 2 ^ 32 in
          let lo := prod mod 2 ^ 32 in
          if lo <=? u32_zone ubound then Ok (hi, rest) else gen_index f ubound rest
      | Err => Err | Panic => Panic
      end
  end.

Definition swap_nth (l : list Z) (i j : nat) : list Z :=
  let a := nth i l 0 in
  let b := nth j l 0 in
  let l1 := firstn i l ++ [b] ++ skipn (S i) l in
  firstn j l1 ++ [a] ++ skipn (S j) l1.

(* SliceRandom::shuffle: for i in (1..len).rev() { swap(i, gen_index(i+1)) } *)
Fixpoint shuffle_from (i : nat) (l : list Z) (s : bytes) : outcome (list Z * bytes) :=
  match i with
  | O => Ok (l, s)
  | S i' =>
      match gen_index RNG_FUEL (Z.of_nat (S i)) s with
      | Ok (j, rest) => shuffle_from i' (swap_nth l i (Z.to_nat j)) rest
      | Err => Err | Panic => Panic
      end
  end.

(* shuffler::gen_permutation(size) *)
Definition gen_permutation (size : nat) (s : bytes) : outcome (list Z * bytes) :=
  shuffle_from (pred size) (map Z.of_nat (seq 0 size)) s.
