(* Model/Backend.v — the Rust trait `Ctx` (+ `Element`, `Exponent`) as a record of operations. All
   protocol code of the model (Elgamal, Zkp, Shuffler, Keymaker, Threshold) is written once against
   this record, exactly as the Rust code is written once against `Ctx`. Exponents are integers
   (unreduced for the multiplicative backends, always reduced for ristretto). No proofs here. *)
From Coq Require Import ZArith List.
From Strand Require Import Model.Outcome Model.Codec.
Open Scope Z_scope.

Record Backend : Type := {
  E : Type;                        (* C::E *)
  b_q : Z;                         (* group order (exp_modulus) *)
  b_gen : E;                       (* ctx.generator() *)
  b_one : E;                       (* E::mul_identity() *)
  b_mul : E -> E -> E;             (* Element::mul — unreduced product for the multiplicative backends *)
  b_modp : E -> E;                 (* Element::modp *)
  b_invp : E -> outcome E;         (* Element::invp — Panic is the `expect` on a missing inverse *)
  b_pow : E -> Z -> E;             (* Ctx::emod_pow *)
  b_eqb : E -> E -> bool;          (* PartialEq *)
  b_xadd : Z -> Z -> Z;            (* Exponent::add *)
  b_xmul : Z -> Z -> Z;            (* Exponent::mul *)
  b_xsub : Z -> Z -> outcome Z;    (* Exponent::sub — Panic on BigUint underflow *)
  b_xmodq : Z -> Z;                (* Exponent::modq *)
  b_xinvq : Z -> outcome Z;        (* Exponent::invq *)
  b_sub_mod : Z -> Z -> outcome Z; (* Ctx::exp_sub_mod *)
  b_from_u64 : Z -> Z;             (* Ctx::exp_from_u64 *)
  b_ser_e : E -> bytes;            (* borsh encoding of an element *)
  b_ser_x : Z -> bytes;            (* borsh encoding of an exponent *)
  b_hash_to_exp : bytes -> Z       (* Ctx::hash_to_exp *)
}.

Section Derived.
  Variable B : Backend.
  Local Open Scope outcome_scope.

  Definition b_gpow (x : Z) : E B := b_pow B (b_gen B) x.             (* Ctx::gmod_pow *)
  Definition b_mulp (a b : E B) : E B := b_modp B (b_mul B a b).     (* a.mul(b).modp(ctx) *)
  (* Element::divp: self * other^-1, NOT reduced *)
  Definition b_divp (a b : E B) : outcome (E B) := i <- b_invp B b ;; Ok (b_mul B a i).
  (* Exponent::divq: self * other^-1, NOT reduced *)
  Definition b_xdivq (a b : Z) : outcome Z := i <- b_xinvq B b ;; Ok (b_xmul B a i).
End Derived.
