(* Model/RBackend.v — src/backend/ristretto.rs: the `Ctx` instance for ristretto255 as a [Backend]
   record over the executable model of Model/Ristretto.v, plus the functions that are specific to this
   backend (encode/decode of 30-byte plaintexts, byte constructors, exponent transport, SHAKE-256
   generator derivation, the byte-stream samplers) and its wire formats (fixed 32/30-byte items).
   No proofs here. *)
From Coq Require Import ZArith List Bool.
From Strand Require Import Base.ZUtil Model.Outcome Model.Codec Model.Sha512 Model.Keccak Model.Backend
  Model.Zkp Model.Shuffler Model.Ristretto Model.RistrettoFast.
Import ListNotations.
Open Scope Z_scope.

Section RB.
  Variable K : Kernel.
  Variable PM : PMul.
  Local Open Scope outcome_scope.

  (* Scalar::from_hash(Sha512) = from_bytes_mod_order_wide of the 64 digest bytes *)
  Definition r_hash_to_exp (bs : bytes) : Z := sc_from_bytes_mod_order K (sha512 bs).

  Definition RB : Backend := {|
    E := point;
    b_q := ell;
    b_gen := pt_base K;
    b_one := pt_id;
    b_mul := pt_add K;
    b_modp := fun a => a;
    b_invp := fun a => Ok (pt_neg K a);
    b_pow := fun a x => pm_mul PM x a;
    b_eqb := pt_eqb K;
    b_xadd := sc_add K;
    b_xmul := sc_mul K;
    b_xsub := fun a b => Ok (sc_sub K a b);
    b_xmodq := fun a => a;
    b_xinvq := fun a => Ok (sc_invert K a);
    b_sub_mod := fun a b => Ok (sc_sub K a b);
    b_from_u64 := fun v => smod K v;
    b_ser_e := compress K;
    b_ser_x := sc_to_bytes;
    b_hash_to_exp := r_hash_to_exp
  |}.

  (* Ctx::element_from_bytes: to_u8_array::<32> then decompress *)
  Definition r_element_from_bytes (bs : bytes) : outcome point :=
    if (length bs =? 32)%nat then of_option_err (decompress K bs) else Err.
  (* Ctx::exp_from_bytes: to_u8_array::<32> then Scalar::from_canonical_bytes *)
  Definition r_exp_from_bytes (bs : bytes) : outcome Z :=
    if (length bs =? 32)%nat then of_option_err (sc_from_canonical_bytes bs) else Err.

  Fixpoint first_some {A C} (f : A -> option C) (l : list A) : option C :=
    match l with
    | [] => None
    | a :: r => match f a with Some c => Some c | None => first_some f r end
    end.
  Definition zseq (n : nat) : list Z := map Z.of_nat (seq 0 n).

  (* Ctx::encode: data in bytes 1..31, byte 31 = j in 0..64 (outer), byte 0 = 2i, i in 0..128 (inner);
     first candidate that decompresses *)
  Definition r_encode (data : bytes) : outcome point :=
    of_option_err
      (first_some (fun j => first_some (fun i => decompress K ((2 * i) :: data ++ [j])) (zseq 128)) (zseq 64)).
  (* Ctx::decode *)
  Definition r_decode (e : point) : bytes := firstn 30 (skipn 1 (compress K e)).

  Definition r_ser_ct (c : ctext RB) : bytes := compress K (mhr c) ++ compress K (gr c).

  (* ---- wire: [u8; 32] items, no length prefixes ---- *)
  Definition rd_RE : reader point := fun bs =>
    '(b, r) <- take_n 32 bs ;; v <- r_element_from_bytes b ;; Ok (v, r).
  Definition rd_RX : reader Z := fun bs =>
    '(b, r) <- take_n 32 bs ;; v <- r_exp_from_bytes b ;; Ok (v, r).
  Definition rd_RP : reader bytes := take_n 30.
  Definition rd_Rct : reader (ctext RB) := fun bs =>
    '(a, r1) <- rd_RE bs ;; '(b, r2) <- rd_RE r1 ;; Ok (Build_ctext RB a b, r2).
  Definition rd_Rsk : reader (Z * point) := fun bs =>
    '(v, r1) <- rd_RX bs ;; '(e, r2) <- rd_RE r1 ;; Ok ((v, e), r2).
  Definition wr_Rschnorr (s : schnorr RB) : bytes :=
    compress K (s_com RB s) ++ sc_to_bytes (s_chal RB s) ++ sc_to_bytes (s_resp RB s).
  Definition rd_Rschnorr : reader (schnorr RB) := fun bs =>
    '(a, r1) <- rd_RE bs ;; '(c, r2) <- rd_RX r1 ;; '(s, r3) <- rd_RX r2 ;; Ok (Build_schnorr RB a c s, r3).
  Definition wr_Rcp (s : cproof RB) : bytes :=
    compress K (c_com1 RB s) ++ compress K (c_com2 RB s) ++ sc_to_bytes (c_chal RB s) ++ sc_to_bytes (c_resp RB s).
  Definition rd_Rcp : reader (cproof RB) := fun bs =>
    '(a, r1) <- rd_RE bs ;; '(b, r2) <- rd_RE r1 ;; '(c, r3) <- rd_RX r2 ;; '(s, r4) <- rd_RX r3 ;;
    Ok (Build_cproof RB a b c s, r4).

  (* StrandVector*: Vec<Vec<u8>>, every inner byte string decoded strictly as one item *)
  Definition rd_Rsvec {A} (rd : reader A) : reader (list A) := fun bs =>
    '(items, r) <- rd_vec 4 rd_vec_u8 bs ;;
    l <- mapM (strict rd) items ;; Ok (l, r).
  Definition wr_Rsvec {A} (wr : A -> bytes) (l : list A) : bytes := wr_vec (fun a => wr_vec_u8 (wr a)) l.

  Definition wr_Rproof (p : sproof RB) : bytes :=
    let t := pf_t RB p in let s := pf_s RB p in
    compress K (t1 RB t) ++ compress K (t2 RB t) ++ compress K (t3 RB t) ++ compress K (t41 RB t) ++
    compress K (t42 RB t) ++ wr_Rsvec (compress K) (t_hats RB t) ++
    sc_to_bytes (s1 s) ++ sc_to_bytes (s2 s) ++ sc_to_bytes (s3 s) ++ sc_to_bytes (s4 s) ++
    wr_Rsvec sc_to_bytes (s_hats s) ++ wr_Rsvec sc_to_bytes (s_primes s) ++
    wr_Rsvec (compress K) (pf_cs RB p) ++ wr_Rsvec (compress K) (pf_c_hats RB p).
  Definition rd_Rproof : reader (sproof RB) := fun bs =>
    '(t1, r) <- rd_RE bs ;; '(t2, r) <- rd_RE r ;; '(t3, r) <- rd_RE r ;; '(t41, r) <- rd_RE r ;;
    '(t42, r) <- rd_RE r ;; '(th, r) <- rd_Rsvec rd_RE r ;;
    '(s1, r) <- rd_RX r ;; '(s2, r) <- rd_RX r ;; '(s3, r) <- rd_RX r ;; '(s4, r) <- rd_RX r ;;
    '(sh, r) <- rd_Rsvec rd_RX r ;; '(sp, r) <- rd_Rsvec rd_RX r ;;
    '(cs, r) <- rd_Rsvec rd_RE r ;; '(ch, r) <- rd_Rsvec rd_RE r ;;
    Ok (Build_sproof RB (Build_commitments RB t1 t2 t3 t41 t42 th) (Build_responses s1 s2 s3 s4 sh sp) cs ch, r).

  (* ---- exponent transport: the scalar's 32 bytes in two 16-byte halves, each encoded and encrypted;
     r1, r2 are the two encryption exponents in call order ---- *)
  Definition r_encrypt_exp (x : Z) (pk : point) (r1 r2 : Z) : outcome bytes :=
    let bs := sc_to_bytes x in
    first <- r_encode (firstn 16 bs ++ repeat 0 14%nat) ;;
    second <- r_encode (skipn 16 bs ++ repeat 0 14%nat) ;;
    Ok (wr_vec r_ser_ct [encrypt_with_randomness RB pk first r1; encrypt_with_randomness RB pk second r2]).
  Definition r_decrypt_exp (bs : bytes) (sk : Z) : outcome Z :=
    v <- strict (rd_vec 64 rd_Rct) bs ;;
    match v with
    | [c1; c2] =>
        d1 <- decrypt RB sk c1 ;; d2 <- decrypt RB sk c2 ;;
        r_exp_from_bytes (firstn 16 (r_decode d1) ++ firstn 16 (r_decode d2))
    | _ => Err
    end.

  (* ---- generators: SHAKE-256(seed) stream, 64 bytes per generator ---- *)
  Fixpoint gens_from_stream (n : nat) (s : bytes) : list point :=
    match n with
    | O => []
    | S k => from_uniform_bytes K (firstn 64 s) :: gens_from_stream k (skipn 64 s)
    end.
  Definition r_generators (size : nat) (seed : bytes) : list point :=
    gens_from_stream size (shake256 seed (64 * size)).

  (* ---- samplers as functions of the RNG byte stream (Err: model ran out of scripted bytes) ---- *)
  Definition r_rnd_exp (s : bytes) : outcome (Z * bytes) :=
    '(b, r) <- take_n 64 s ;; Ok (sc_from_bytes_mod_order K b, r).
  Definition r_rnd (s : bytes) : outcome (point * bytes) :=
    '(b, r) <- take_n 64 s ;; Ok (from_uniform_bytes K b, r).
  Definition r_rnd_plaintext (s : bytes) : outcome (bytes * bytes) := take_n 30 s.
End RB.
