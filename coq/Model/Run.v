(* Model/Run.v — top-level dispatcher of the correspondence interpreter and the comparison function
   evaluated by the generated cases files. *)
From Coq Require Import ZArith List Bool String.
From Strand Require Import Base.ZUtil Model.Outcome Model.Codec Model.ZBackend Model.Exec.
Import ListNotations.
Open Scope Z_scope.

Definition first_some (l : list (option val)) : val :=
  match flat_map (fun o => match o with Some v => [v] | None => [] end) l with
  | v :: _ => v
  | [] => VBad
  end.

Definition exec (K : Kernel) (fl : flavor) (P : Params) (op : string) (args : list val) : val :=
  match exec_arith K fl P op args with
  | Some v => v
  | None =>
  match exec_proto K fl P op args with
  | Some v => v
  | None =>
  match exec_wire K fl P op args with
  | Some v => v
  | None =>
  match exec_rng K fl P op args with
  | Some v => v
  | None =>
  match exec_shuffle K fl P op args with
  | Some v => v
  | None =>
  match exec_km K fl P op args with
  | Some v => v
  | None =>
  match exec_sig op args with
  | Some v => v
  | None => VBad
  end end end end end end end.

(* a correspondence case: kernel, flavor, parameters, operation, arguments, what the implementation returned *)
Definition case := (Kernel * flavor * Params * string * list val * val)%type.

Definition run_case (c : case) : val :=
  let '(K, fl, P, op, args, _) := c in exec K fl P op args.

Fixpoint mismatches_from (i : Z) (cs : list case) : list (Z * val) :=
  match cs with
  | [] => []
  | c :: r =>
      let m := run_case c in
      let '(_, _, _, _, _, expected) := c in
      if val_eqb m expected then mismatches_from (i + 1) r
      else (i, m) :: mismatches_from (i + 1) r
  end.
Definition mismatches (cs : list case) := mismatches_from 0 cs.
