#!/bin/sh
# tools/lane.sh <lane number> <queue file>
# Isolated seeded-change trials: lane k has its own copy of /verif (with the built Coq development and cargo
# target dir) under /tmp/lane<k>/verif and its own scratch worktree of /repo under /tmp/lane<k>/repo, so trials
# touch neither /repo nor /verif and several lanes can run side by side. Each queue line is
# "<seeded dir name> <check> [<check>...]". Output: /tmp/lane<k>/results.log . Remove the lane when done:
#   git -C /repo worktree remove --force /tmp/lane<k>/repo ; rm -rf /tmp/lane<k>
set -u
K="$1"; Q="$2"
L=/tmp/lane$K
mkdir -p $L
if [ ! -d $L/repo ]; then git -C /repo worktree add -q --detach $L/repo HEAD || exit 2; fi
rsync -a --delete --exclude .git --exclude 'replays/' --exclude '.cache/run/' /verif/ $L/verif/
sed -i "s#path = \"/repo\"#path = \"$L/repo\"#" $L/verif/harness/Cargo.toml
export VERIF_REPO=$L/repo CARGO_NET_OFFLINE=true
: > $L/results.log
while read d checks; do
  [ -z "$d" ] && continue
  echo "=== $d" >> $L/results.log
  ( cd $L/repo && git checkout -q -- . && git apply /verif/seeded/$d/patch.diff ) || { echo "patch does not apply" >> $L/results.log; continue; }
  for p in $checks; do
    OUT=$L/out/$d; mkdir -p $OUT
    ( cd $L/verif && VERIF_OUT=$OUT timeout 2400 ./check $p --tier quick > $OUT/$p.log 2>&1 ); rc=$?
    echo "$p rc=$rc $(grep -m1 -E '^VIOLATION|^OK' $OUT/$p.log | cut -c1-200)" >> $L/results.log
    grep -m1 -A1 '^VIOLATION' $OUT/$p.log | tail -1 | cut -c1-300 >> $L/results.log
  done
  ( cd $L/repo && git checkout -q -- . )
done < "$Q"
echo "LANE-DONE" >> $L/results.log
