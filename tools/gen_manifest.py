#!/usr/bin/env python3
# Regenerates MANIFEST.json from the table below (claimed checks) and properties.jsonl (for the rest).
import json, os, subprocess
ROOT = os.path.dirname(os.path.dirname(os.path.abspath(__file__)))
props = [json.loads(l) for l in open(os.path.join(ROOT, "properties.jsonl"))]
TECH = "Coq 8.16 proof over a code-shaped Gallina model + checked model/code correspondence (vm_compute vs Rust harness)"
BASE_NOTE = ("Trusted: Coq kernel + VM; the Rust harness and Python driver that render cases; the constants translator; "
             "dependencies (num-bigint, malachite, num-modular, borsh, sha2, rand) are modelled and tied by correspondence only. "
             "No axioms are declared; Print Assumptions of every property theorem is checked against an allow-list on every run. ")
CLAIMED = {
 "C01": ("Theorems (Properties/C01.v): decrypt(encrypt(m)) = m for every key, member message and randomness over ANY backend satisfying the group laws; exponential variant; homomorphic product; encrypt_and_pok; the full encode->encrypt->decrypt->decode API path for every safe-prime parameter set on both multiplicative backends. Tie: exhaustive (sk,m,r) tables on p=23(,47,59) and scripted-RNG/boundary runs at 16/62/2048 bits of every ElGamal entry point incl. exponent transport and wire round trips, each evaluated by the model inside Coq.",
         BASE_NOTE + "ristretto255 is covered by the generic theorems only under the hypothesis that curve25519-dalek implements a prime-order group (Laws B mem); its round trips are exercised on the implementation."),
 "C05": ("Theorems (Properties/C05.v): completeness of Schnorr, Chaum-Pedersen, plaintext-knowledge and decryption proofs for every secret, nonce, base, label and EVERY hash function, over any lawful backend; default/explicit generator interchange. Tie: every prover output and verifier decision (exhaustive (secret,nonce) on p=23 for every base; boundary/random at 16/62/2048 bits; labels empty/short/long) equals the Gallina model that computes the real SHA-512 transcript.",
         BASE_NOTE + "ristretto under the group-law hypothesis."),
 "C06": ("Theorems (Properties/C06.v): decision characterisation (accept <=> challenge = H(transcript) and the equation(s) hold), response binding and special soundness for prime q. Tie: the whole Schnorr proof space of p=23 and a CP slice decided by implementation and model; adversarial mutation/simulation families at 16/62/2048 bits.",
         BASE_NOTE + "Computational soundness (DL/ROM) is not claimed; 'accepted only if hash hits' is stated as the decision characterisation."),
 "C14": ("Theorems (Properties/C14.v): for every safe-prime parameter set and every m in [0,q-2]: encode succeeds, yields a member, decode returns m; injective; m >= q-1 is refused (Err, not Panic). Uses Fermat/Euler (proved via mathcomp bridge). Tie: encode/decode on all small sets exhaustively, boundary and random at 62/2048 bits, library samplers under scripted RNG (num-bigint sampler compared with the byte-level Gallina model), serialization of encoded elements.",
         BASE_NOTE + "ristretto encode totality is only tested; malachite's sampler is an opaque dependency (only the bounds strand passes are checked)."),
 "C15": ("Theorems (Properties/C15.v): the code-shaped operations of both multiplicative backends satisfy all group/exponent laws with canonical results for every admissible parameter set and every arithmetic kernel; small sets certified safe-prime by a proved trial-division checker; the regenerated 2048-bit constants satisfy p=2q+1, 1<g<p, g^q=1, cofactor 2. Tie: every Element/Exponent/Ctx method exhaustively on p=23(,47), boundary/random at 16/62/2048 bits, both backends on identical integers.",
         BASE_NOTE + "prime p2048 /\\ prime q2048 is an explicit hypothesis (cannot be certified with what is installed). Constants theorems use Bignums.BigZ for evaluation: Print Assumptions lists Coq's primitive 63-bit integer axioms (allow-listed)."),
}
src_commits = subprocess.run(["git", "-C", "/repo", "log", "--format=%h %s"], capture_output=True, text=True).stdout.splitlines()
hooks = [l.split()[0] for l in src_commits if "verif hook" in l]
man = {
 "version": 1,
 "setup_cmd": "/verif/setup.sh",
 "hooks": {"guard": "strand_verif", "enable": "cargo feature strand_verif (the harness crate depends on strand = { path = \"/repo\", features = [\"strand_verif\"] })",
           "baseline_off_cmd": "cd /repo && cargo test --workspace --no-fail-fast --offline",
           "source_commits": hooks, "add_only": True},
 "engines": [
  {"name": "coq-model", "path": "coq/", "serves_properties": sorted(CLAIMED), "kind_free_text": "Coq 8.16.1 development: Base (number theory), Model (code-shaped Gallina model, executable), Proofs, Properties (pinned theorem statements); cases evaluated with vm_compute"},
  {"name": "harness", "path": "harness/", "serves_properties": sorted(CLAIMED), "kind_free_text": "Rust crate linking /repo's working tree (feature strand_verif): executes the implementation on the same cases, every call under catch_unwind"}],
 "checks": [], "not_applicable": [],
 "notes": "Technique: machine-checked proof in Coq + checked model/code correspondence. See DESIGN.md. known_findings.json lists repaired defects (fix: commits in /repo)."
}
for p in props:
    i = p["id"]
    if i in CLAIMED:
        text, note = CLAIMED[i]
        man["checks"].append({"property_id": i, "quick_cmd": "./check %s --tier quick" % i, "thorough_cmd": "./check %s --tier thorough" % i,
                              "evidence_file": "evidence/%s.json" % i, "replay_cmd_template": "./check %s --replay {path}" % i,
                              "engine": "coq-model", "level_claimed": {"category": "proof", "text": text, "design_ref": "DESIGN.md §3 " + i},
                              "level_note": note, "technique": TECH})
    else:
        man["not_applicable"].append({"property_id": i, "reason": "not claimed yet: its model/theorems/tie are still being built in this session (plan in DESIGN.md §3 %s); the technique applies" % i})
json.dump(man, open(os.path.join(ROOT, "MANIFEST.json"), "w"), indent=1)
print("claimed:", sorted(CLAIMED))
