#!/usr/bin/env python3
# Regenerates MANIFEST.json from the table below (claimed checks) and properties.jsonl (for the rest).
import json, os, subprocess
ROOT = os.path.dirname(os.path.dirname(os.path.abspath(__file__)))
props = [json.loads(l) for l in open(os.path.join(ROOT, "properties.jsonl"))]
TECH = "Coq 8.16 proof over a code-shaped Gallina model + checked model/code correspondence (vm_compute vs Rust harness)"
BASE_NOTE = ("Trusted: Coq kernel + VM; the Rust harness and Python driver that render cases; the constants translator; "
             "dependencies (num-bigint, malachite, num-modular, borsh, sha2, rand) are modelled and tied by correspondence only. "
             "No axioms are declared; Print Assumptions of every property theorem is checked against an allow-list on every run. ")
CLAIMED = {
 "C01": ("Theorems (Properties/C01.v): decrypt(encrypt(m)) = m for every key, member message and randomness over ANY backend satisfying the group laws; exponential variant; homomorphic product; encrypt_and_pok; the full encode->encrypt->decrypt->decode API path for every safe-prime parameter set on both multiplicative backends. Tie: exhaustive (sk,m,r) tables on p=23(,47,59) and scripted-RNG/boundary runs at 16/62/2048 bits of every ElGamal entry point incl. exponent transport and wire round trips, each evaluated by the model inside Coq.",
         BASE_NOTE + "ristretto255 is covered by the generic theorems only under the hypothesis that curve25519-dalek implements a prime-order group (Laws B mem); its round trips are exercised on the implementation."),
 "C05": ("Theorems (Properties/C05.v): completeness of Schnorr, Chaum-Pedersen, plaintext-knowledge and decryption proofs for every secret, nonce, base, label and EVERY hash function, over any lawful backend; default/explicit generator interchange. Tie: every prover output and verifier decision (exhaustive (secret,nonce) on p=23 for every base; boundary/random at 16/62/2048 bits; labels empty/short/long) equals the Gallina model that computes the real SHA-512 transcript.",
         BASE_NOTE + "ristretto under the group-law hypothesis."),
 "C06": ("Theorems (Properties/C06.v): decision characterisation (accept <=> challenge = H(transcript) and the equation(s) hold), response binding and special soundness for prime q. Tie: the whole Schnorr proof space of p=23 and a CP slice decided by implementation and model; adversarial mutation/simulation families at 16/62/2048 bits.",
         BASE_NOTE + "Computational soundness (DL/ROM) is not claimed; 'accepted only if hash hits' is stated as the decision characterisation."),
 "C14": ("Theorems (Properties/C14.v): for every safe-prime parameter set and every m in [0,q-2]: encode succeeds, yields a member, decode returns m; injective; m >= q-1 is refused (Err, not Panic). Uses Fermat/Euler (proved via mathcomp bridge). Tie: encode/decode on all small sets exhaustively, boundary and random at 62/2048 bits, library samplers under scripted RNG (num-bigint sampler compared with the byte-level Gallina model), serialization of encoded elements.",
         BASE_NOTE + "ristretto encode totality is only tested; malachite's sampler is an opaque dependency (only the bounds strand passes are checked)."),
 "C15": ("Theorems (Properties/C15.v): the code-shaped operations of both multiplicative backends satisfy all group/exponent laws with canonical results for every admissible parameter set and every arithmetic kernel; small sets certified safe-prime by a proved trial-division checker; the regenerated 2048-bit constants satisfy p=2q+1, 1<g<p, g^q=1, cofactor 2. Tie: every Element/Exponent/Ctx method exhaustively on p=23(,47), boundary/random at 16/62/2048 bits, both backends on identical integers.",
         BASE_NOTE + "prime p2048 /\\ prime q2048 is an explicit hypothesis (cannot be certified with what is installed). Constants theorems use Bignums.BigZ for evaluation: Print Assumptions lists Coq's primitive 63-bit integer axioms (allow-listed)."),
}

CLAIMED.update({
 "C02": ("Theorems (Properties/C02.v): the permutation sampler (byte-level model of rand 0.8 Fisher-Yates) returns a permutation for every byte stream; apply_permutation: output k = input perm[k] re-encrypted with that input's returned exponent, same length, total on permutations; outputs decrypt to a permutation of the input plaintexts; any cascade of mixers preserves the plaintext multiset — for any lawful backend. Tie: all permutations of N<=4(5), gen_shuffle up to N=64, gen_permutation bytes->permutation, on small/16/62/2048-bit sets.",
         BASE_NOTE + "ristretto under the group-law hypothesis."),
 "C03": ("Theorem (Properties/C03.v): tw_complete — for every lawful backend, N>=1, ciphertext list, key, generators, permutation, exponents, all 4N+4 prover draws, label and every hash function, check_proof accepts gen_proof's output for apply_permutation's output (900-line kernel-checked proof of the Terelius-Wikstrom algebra on the code-shaped model). Tie: generators, shuffle outputs, proof BYTES (same RNG draws) and decisions equal the model for all N! permutations N<=4(5) and sampled larger N; verification in a fresh process.",
         BASE_NOTE + "ristretto under the group-law hypothesis; serialization round trip of proofs is C12."),
 "C04": ("Theorems (Properties/C04.v): check_proof = Ok true <=> all seven component counts are N>=1 and the 5+N division-free TW equations hold for challenges recomputed from the complete statement (tw_equations is the independent reference verifier); wrong counts => Ok false for arbitrary contents; total (never Panic) on member inputs; changing s1..s4 or the chain responses of an accepted proof => rejected. Tie: every single-field mutation, every vector-length combination, replays against other inputs/outputs/pk/generators/label, N=0, mismatched lists.",
         BASE_NOTE + "Computational soundness (a permutation witness exists, under DL in the ROM) is NOT claimed. Model follows the repaired verifier (fix: commit in /repo, known_findings.json)."),
 "C07": ("Theorems (Properties/C07.v): completeness of decrypt_and_prove; decision characterisation of verify_decryption; Chaum-Pedersen special soundness extracting ONE exponent for key and factor; such a factor is the one private-key decryption divides by; a wrong factor admits at most one challenge mod q; batch verification = conjunction, one bad pair at any position rejects. Tie: exhaustive (sk, ciphertext) on p=23, wrong factors / moved proofs at 16/62/2048 bits, batches 1..8 with a bad pair at every position via the keymaker hook.",
         BASE_NOTE + "Soundness is stated as extraction/uniqueness, not as an absolute 'rejects' (that would need collision resistance of SHA-512 mod q)."),
 "C08": ("Theorems (Properties/C08.v): joint key = product of shares in any order (= g^(sum sk)); share proofs verify; joint decryption of an encryption under the joint key returns the plaintext for every n>=1; factor order irrelevant; lists position by position; omitting a trustee yields m*gr^x (the plaintext only if gr^x = 1). Tie: n in 1..16, all orders for n<=3(4), lists of length 0..5, exhaustive secrets n<=2 on p=23, through the crate-private Keymaker (hook).",
         BASE_NOTE + "ristretto under the group-law hypothesis; rayon build in C19."),
 "C09": ("Theorems (Properties/C09.v): for every t>=1, receiver, coefficient vector: g^share = verification_key_factor(commitments) (no bound on the number of trustees); share = P(j+1) mod q; tampered share detected (q prime). Tie: every (n,t,receiver) up to 20(40) on small sets, n up to 100 at 62/2048 bits, gen_coefficients under scripted RNG, release (+debug) builds.",
         BASE_NOTE + "Model follows the repaired verification_key_factor (fix: commit in /repo)."),
 "C10": ("Theorems (Properties/C10.v): the library's lagrange coefficient satisfies its defining congruence for every listing order; sum_i lambda_i P(i) = P(0) mod q for every polynomial with at most |S| coefficients (polynomial root bound + Lagrange interpolation proved from scratch over Z_q); group form: prod (gr^share_i)^lambda_i = gr^P(0). Tie: all subsets/orders for n<=6(8), sampled n<=12, t=1..|S|.",
         BASE_NOTE + "'fewer than t do not reconstruct' is exercised on >=62-bit groups only (it is not a theorem: it fails exactly when the quotient polynomial vanishes at 0)."),
})


CLAIMED.update({
 "C11": ("Theorems (Properties/C11.v): element_from_bytes accepts exactly the byte strings whose integer v satisfies 1<=v<p and v^q mod p = 1 (both byte orders); exp_from_bytes exactly v<q; every composite reader (ciphertext, keys, Schnorr, CP, all StrandVector wrappers, ShuffleProof) succeeds only if every embedded element is a member and every exponent canonical. Tie: ALL byte strings of length 0..1 and sampled/all 2-byte strings on p=23/2039/16-bit, boundary integers at 2048 bits, composites with one invalid component; ristretto judged against curve25519-dalek directly.",
         BASE_NOTE + "member <=> quadratic residue is not proved (the code checks Euler's criterion, which is what the theorem states); ristretto point validity is dalek's (oracle)."),
 "C12": ("Theorems (Properties/C12.v): for all 14 wire types of both multiplicative backends: decode(encode v ++ rest) = (v, rest) (so decode.encode = id, appended bytes rejected, encode injective) and every strict prefix of an encoding is rejected — generic codec lemmas + per-type instances incl. ShuffleProof and the five vector wrappers. Tie: implementation bytes == Gallina writer bytes for boundary and random values of every type on 23/16-bit/62-bit/2048-bit sets; appended / truncated / bit-flipped encodings decode to what the model says.",
         BASE_NOTE + "Sizes: values below 2^(8N) with N <= 2^32-1 and vectors shorter than 2^32 (u32 prefixes exact). ristretto fixed-width formats: implementation only."),
 "C13": ("Theorems (Properties/C13.v): no reader of any wire type returns Panic on ANY byte string; decode-then-verify: any decodable shuffle proof with any decodable ciphertext lists (any lengths) and locally derived generators gives a decision; wrong component counts => Ok false for arbitrary contents. Tie: random / bit-flipped / truncated / extended / length-prefix-tampered inputs for every type: outcome class equals the model's, under catch_unwind with a counting allocator (peak <= 64*len + 256 KiB); check_proof on all vector-length combinations, N=0, mismatched lists.",
         BASE_NOTE + "Memory use is measured, not proved (no allocation theorem). Sigma verifiers are total Gallina functions in the model; the tie shows the implementation agrees. Model follows the repaired decoder/verifier (fix: commits in /repo)."),
 "C16": ("Theorems (Properties/C16.v): challenge-input bytes are independent of map insertion/iteration order; every transcript (Schnorr, CP, ciphertext-bound contexts, shuffle prefix, per-index input, final shuffle input) is injective in every item; equal challenges for different items exhibit an explicit hash_to_exp collision; distinct counters give distinct inputs. Tie: hash_to_exp, sigma challenges, shuffle_us (N<=64) and the final challenge equal the Gallina SHA-512 (FIPS vectors kernel-checked) over the model transcript, on all parameter sets and both byte orders; fresh process per call; perturbation battery.",
         BASE_NOTE + "Collision resistance of SHA-512 mod q is not assumed anywhere; 32-bit counter width (wasm32) cannot be exhibited in this sandbox."),
})


CLAIMED.update({
 "C17": ("Theorems (Properties/C17.v): the derivation is prefix-stable for every seed/count, the i-th generator depends only on (seed,i), every generator is a subgroup member >= 2 for every safe-prime set (Fermat), the derivation hashes exactly seed||'ggen'||(index,count) pairs (appended on retries), mod p, cofactor power, accept iff >= 2; never Err; kernel-computed: first 32 generators of P2048 for the empty seed are pairwise distinct and differ from g (and a kernel-computed COLLISION on p=2039 shows distinctness is not a consequence of the code). Tie: Ctx::generators == Gallina derivation for seeds ''/short/1kB and counts up to 64 (2000 thorough) at 2048 bits, retry branch on small sets.",
         BASE_NOTE + "Distinctness/seed-dependence/no-known-relations rest on SHA-512 (not assumed; computed for concrete seeds, observed otherwise). ristretto: recomputed from SHAKE-256 (hashlib) + dalek from_uniform_bytes (oracle)."),
 "C18": ("Theorems (Properties/C18.v): for EVERY byte stream the num-bigint samplers return exponents in [0,q), plaintexts in [0,q-2], elements that are members, never panic; every value below the bound is reachable; one attempt's value together with the discarded bits determines the consumed bytes (uniform given uniform bytes); each draw consumes a fresh non-empty piece of the stream; gen_permutation is Fisher-Yates on in-range index draws and the map draws->permutation is injective (uniform given uniform draws). Tie: value AND bytes consumed of rnd_exp/rnd_plaintext/rnd/gen_permutation equal the byte-level model for exhaustive bit patterns on tiny q and random scripts up to 2048 bits.",
         BASE_NOTE + "OS entropy is not modelled (freshness observed at 2048 bits/ristretto); malachite's sampler is opaque (bounds checked over thousands of seeds); exact uniformity of rand's widening-multiply rejection is not proved. Model follows the repaired sampler bounds (fix: commit)."),
 "C19": ("Theorems (Properties/C19.v): in the split/join schedule model of an indexed parallel map every schedule returns what the sequential iterator returns (pure items), success and the successful value of collect::<Result> are schedule independent, no schedule introduces a panic; randomised closures are covered because C02/C03/C05 quantify over all draws. Tie: a corpus of deterministic operations executed by the sequential and the rayon harness builds under 1,2,3,7,16 threads must be identical; proofs/shuffles cross the two builds both ways; a sample of rayon outputs is compared with the Gallina model.",
         BASE_NOTE + "That rayon implements the split/join semantics is trusted."),
 "C20": ("Theorems (Properties/C20.v): base64 STANDARD_NO_PAD model: decode(encode bs)=bs, encode injective, decode accepts ONLY canonical unpadded encodings (padding, non-alphabet, length 1 mod 4, non-zero trailing bits rejected), never panics; wrapper model over the underlying library as oracle: keys/signatures round-trip through bytes and strings and a signature made with a round-tripped key verifies (given a complete scheme, as a premise); both frontends agree whenever their primitives do. Tie: every wrapper entry point of both frontends vs the model with primitives answered by direct ed25519-zebra / ed25519-dalek calls; cross-frontend matrix; all single-bit flips of signature and key; malformed strings.",
         BASE_NOTE + "Ed25519 itself (unforgeability, curve arithmetic) is not modelled: bit-flip rejection is observed, not proved."),
})

src_commits = subprocess.run(["git", "-C", "/repo", "log", "--format=%h %s"], capture_output=True, text=True).stdout.splitlines()
hooks = [l.split()[0] for l in src_commits if "verif hook" in l]
man = {
 "version": 1,
 "setup_cmd": "/verif/setup.sh",
 "hooks": {"guard": "strand_verif", "enable": "cargo feature strand_verif (the harness crate depends on strand = { path = \"/repo\", features = [\"strand_verif\"] })",
           "baseline_off_cmd": "cd /repo && cargo test --workspace --no-fail-fast --offline",
           "source_commits": hooks, "add_only": True},
 "engines": [
  {"name": "coq-model", "path": "coq/", "serves_properties": sorted(CLAIMED), "kind_free_text": "Coq 8.16.1 development: Base (number theory), Model (code-shaped Gallina model, executable), Proofs, Properties (pinned theorem statements); cases evaluated with vm_compute"},
  {"name": "harness", "path": "harness/", "serves_properties": sorted(CLAIMED), "kind_free_text": "Rust crate linking /repo's working tree (feature strand_verif): executes the implementation on the same cases, every call under catch_unwind"}],
 "checks": [], "not_applicable": [],
 "notes": "Technique: machine-checked proof in Coq + checked model/code correspondence. See DESIGN.md. known_findings.json lists repaired defects (fix: commits in /repo)."
}
for p in props:
    i = p["id"]
    if i in CLAIMED:
        text, note = CLAIMED[i]
        man["checks"].append({"property_id": i, "quick_cmd": "./check %s --tier quick" % i, "thorough_cmd": "./check %s --tier thorough" % i,
                              "evidence_file": "evidence/%s.json" % i, "replay_cmd_template": "./check %s --replay {path}" % i,
                              "engine": "coq-model", "level_claimed": {"category": "proof", "text": text, "design_ref": "DESIGN.md §3 " + i},
                              "level_note": note, "technique": TECH})
    else:
        man["not_applicable"].append({"property_id": i, "reason": "not claimed yet: its model/theorems/tie are still being built in this session (plan in DESIGN.md §3 %s); the technique applies" % i})
json.dump(man, open(os.path.join(ROOT, "MANIFEST.json"), "w"), indent=1)
print("claimed:", sorted(CLAIMED))
