#!/bin/sh
# tools/confirm_mutant.sh <worktree> <mutant dir name e.g. MUTANT_A> <demo test name e.g. demo_C05_A> [cargo feature args]
# Independent confirmation of a seeded change inside its scratch worktree: (1) the unedited suite passes with the
# change, (2) the demonstration fails with it, (3) the demonstration passes without it. Prints one line per step.
WT="$1"; M="$2"; DEMO="$3"; shift 3; FEAT="$*"
cd "$WT" || exit 2
export CARGO_NET_OFFLINE=true
git checkout -q -- src 2>/dev/null
[ -f "tests/$DEMO.rs" ] || cp "$M/$DEMO.rs" tests/ 
git apply "$M/patch.diff" || { echo "CONFIRM $M: patch does not apply"; exit 2; }
S=$(cargo test --offline --lib --no-fail-fast -j 6 2>&1 | grep -E "^test result" | head -1)
D1=$(cargo test --offline -j 6 $FEAT --test "$DEMO" 2>&1 | grep -E "^test result|error(\[|:)" | head -1)
git apply -R "$M/patch.diff"
D0=$(cargo test --offline -j 6 $FEAT --test "$DEMO" 2>&1 | grep -E "^test result|error(\[|:)" | head -1)
git checkout -q -- src
echo "CONFIRM $WT $M | suite with change: $S | demo with change: $D1 | demo without: $D0"
