#!/bin/sh
# tools/try_queue.sh <queue file>: each line "<seeded dir> <check> [<check>...]"; runs tools/try_mutant.sh serially.
while read d checks; do
  [ -z "$d" ] && continue
  echo "=== $d"
  /verif/tools/try_mutant.sh /verif/seeded/$d/patch.diff $checks
done < "$1"
