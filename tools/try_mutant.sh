#!/bin/sh
# tools/try_mutant.sh <patch.diff> <prop> [<prop>...] : apply a seeded change to /repo, run the named checks with
# output redirected to a scratch dir, print one line per check, and always restore /repo.
set -u
PATCH="$1"; shift
cd /repo || exit 2
if ! git diff --quiet; then echo "/repo working tree not clean"; exit 2; fi
git apply "$PATCH" || { echo "patch does not apply"; exit 2; }
OUT=$(mktemp -d /tmp/mutrun.XXXXXX)
cd /verif
for p in "$@"; do
  VERIF_OUT="$OUT" timeout 1500 ./check "$p" --tier quick > "$OUT/$p.log" 2>&1
  rc=$?
  echo "$p rc=$rc $(grep -m1 -E '^VIOLATION|^OK' "$OUT/$p.log" | cut -c1-160)"
  grep -m1 -A1 '^VIOLATION' "$OUT/$p.log" | tail -1 | cut -c1-220
done
git -C /repo checkout -- .
echo "logs in $OUT"
