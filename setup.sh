#!/bin/sh
# Offline setup: full Coq build (all proofs, full .vo) and the Rust harness against /repo's working tree.
set -e
cd "$(dirname "$0")"
python3 tools/gen_constants.py
cd coq
coq_makefile -f _CoqProject -o Makefile
timeout 3000 make -j16
cd ..
cp /repo/Cargo.lock harness/Cargo.lock
cd harness
CARGO_NET_OFFLINE=true CARGO_TARGET_DIR=/verif/.cache/target cargo build --release --offline
# second feature set for C19 (rayon build of strand)
CARGO_NET_OFFLINE=true CARGO_TARGET_DIR=/verif/.cache/target-rayon cargo build --release --offline --features rayon
echo setup-ok
