# Shared machinery of the /verif checks: builds, harness I/O, Coq case evaluation, verdict, evidence.
import hashlib
import json
import os
import random
import re
import shutil
import subprocess
import sys
import time
from concurrent.futures import ThreadPoolExecutor

ROOT = os.path.dirname(os.path.dirname(os.path.abspath(__file__)))
COQ = os.path.join(ROOT, "coq")
CACHE = os.path.join(ROOT, ".cache")
REPO = os.environ.get("VERIF_REPO", "/repo")   # VERIF_REPO: seeded-change trials against a scratch worktree (tools/lane.sh)
HARNESS = os.path.join(ROOT, "harness")

ENV_OFFLINE = dict(os.environ, CARGO_NET_OFFLINE="true", CARGO_TARGET_DIR=os.path.join(CACHE, "target"))

SMALL = [23, 47, 59, 83, 107, 167, 179, 227, 263, 2039, 65267]
P62 = 3404364645881581367

AXIOM_ALLOW = [
    # kernel primitives of Coq's native 63-bit integers (only reachable through Base/FastArith.v)
    "Uint63", "PrimInt63", "Int63",
]

FORBIDDEN = re.compile(r"\b(Admitted|admit|Axiom|Parameter|Conjecture|Admit Obligations)\b|Unset Guard|bypass_check|-type-in-type|-impredicative-set")


def sh(cmd, cwd=None, timeout=3600, env=None, input=None):
    p = subprocess.run(cmd, cwd=cwd, shell=isinstance(cmd, str), stdout=subprocess.PIPE,
                       stderr=subprocess.STDOUT, timeout=timeout, env=env, input=input, text=True)
    return p.returncode, p.stdout


# ---------------------------------------------------------------- builds
def gen_constants():
    rc, out = sh([sys.executable, os.path.join(ROOT, "tools", "gen_constants.py")])
    return rc == 0, out


def build_coq():
    """Regenerate Generated/Constants.v from /repo, then a full incremental .vo build."""
    ok, out = gen_constants()
    if not ok:
        return False, "constants translator failed:\n" + out
    if not os.path.exists(os.path.join(COQ, "Makefile")):
        rc, o = sh("coq_makefile -f _CoqProject -o Makefile", cwd=COQ)
        if rc != 0:
            return False, o
    rc, o = sh("timeout 3000 make -j16", cwd=COQ, timeout=3100)
    return rc == 0, o


_built = {}


def build_harness(profile="release", features=()):
    key = (profile, tuple(features))
    if key in _built:
        return _built[key]
    lock_src = os.path.join(REPO, "Cargo.lock")
    if os.path.exists(lock_src):
        shutil.copy(lock_src, os.path.join(HARNESS, "Cargo.lock"))
    cmd = ["cargo", "build", "--offline"]
    if profile == "release":
        cmd.append("--release")
    if features:
        cmd += ["--features", ",".join(features)]
    env = dict(ENV_OFFLINE)
    tdir = os.path.join(CACHE, "target" + ("-" + "-".join(features) if features else ""))
    env["CARGO_TARGET_DIR"] = tdir
    rc, o = sh(cmd, cwd=HARNESS, env=env, timeout=3000)
    if rc != 0:
        raise BuildError(o)
    path = os.path.join(tdir, "release" if profile == "release" else "debug", "strand-harness")
    _built[key] = path
    return path


class BuildError(Exception):
    pass


class HangError(Exception):
    """a harness call did not return within the limit: .case is the first unanswered case, .limit the seconds waited"""
    def __init__(self, case, limit):
        Exception.__init__(self, "hang")
        self.case = case
        self.limit = limit


_hang_seen = []


def run_harness(cases, profile="release", features=(), env_extra=None, timeout=3000):
    """cases: list of dict(ctx, op, args). Returns list of outputs aligned with cases."""
    binary = build_harness(profile, features)
    lines = []
    for i, c in enumerate(cases):
        lines.append(json.dumps({"id": i, "ctx": c["ctx"], "op": c["op"], "args": c["args"]}))
    env = dict(os.environ)
    if env_extra:
        env.update(env_extra)
    # a library call that never returns must not stall the check: the harness answers case by case (flushed), so after
    # the time limit the first unanswered case is reported as "hang" and the rest as "not_run"
    # (generous: 15 min or 1 s per case; once one call has hung, later calls of the same run get 2 min)
    limit = float(os.environ.get("VERIF_HARNESS_TIMEOUT", "0")) or (120.0 if _hang_seen else min(timeout, max(900.0, 1.0 * len(cases))))
    hung = False
    with subprocess.Popen([binary], stdin=subprocess.PIPE, stdout=subprocess.PIPE, stderr=subprocess.PIPE, text=True, env=env) as proc:
        try:
            so, se = proc.communicate("\n".join(lines) + "\n", timeout=limit)
        except subprocess.TimeoutExpired:
            proc.kill()
            so, se = proc.communicate()
            hung = True
            _hang_seen.append(True)
        rc_ = proc.returncode
    outs = [None] * len(cases)
    for line in so.splitlines():
        line = line.strip()
        if not line:
            continue
        try:
            v = json.loads(line)
        except ValueError:
            continue            # a line cut short by the kill
        outs[v["id"]] = v["out"]
    if rc_ != 0 or hung or any(o is None for o in outs):
        # the process died (abort / stack overflow / OOM) or was killed after the time limit: name the first unanswered case
        first = next((i for i, o in enumerate(outs) if o is None), None)
        if hung and first is not None and not os.environ.get("VERIF_KEEP_GOING"):
            raise HangError({k: v for k, v in cases[first].items() if k in ("ctx", "op", "args", "tag")}, limit)
        for i, o in enumerate(outs):
            if o is None:
                outs[i] = ("hang" if hung else "abort") if i == first else "not_run"
    return outs


# ---------------------------------------------------------------- JSON value -> Gallina
def coq_val(v):
    if v is None:
        return "VNone"
    if v is True:
        return "(VBool true)"
    if v is False:
        return "(VBool false)"
    if isinstance(v, int):
        return "(VZ %d)" % v if v >= 0 else "(VZ (%d))" % v
    if isinstance(v, str):
        if v.startswith("x:"):
            return '(VB (hex "%s"))' % v[2:]
        if v == "err" or v == "de_err":
            return "VErr"
        if v == "panic":
            return "VPanic"
        if v in ("abort", "not_run", "hang"):
            return "VBad"
        if re.fullmatch(r"-?\d+", v):
            return "(VZ %s)" % v if not v.startswith("-") else "(VZ (%s))" % v
        return "VBad"
    if isinstance(v, list):
        return "(VL [" + "; ".join(coq_val(x) for x in v) + "])"
    if isinstance(v, dict):
        return "VBad"
    raise ValueError(v)


def coq_ctx(ctx, kernel=None):
    fl, p = ctx.split(":")
    flavor = {"B": "Bigint", "M": "Malachite"}[fl]
    if p == "2048":
        return "(K_fast, %s, P2048)" % flavor
    k = kernel or ("K_ref")
    return "(%s, %s, mkP %s)" % (k, flavor, p)


HEADER = """From Coq Require Import ZArith List String.
From Strand Require Import Base.ZUtil Model.Outcome Model.Codec Model.Sha512 Model.Backend Model.ZBackend Model.Zkp Model.Exec Model.Run%s.
Import ListNotations.
Open Scope Z_scope.
"""


HEADER_R = """From Coq Require Import ZArith List String.
From Strand Require Import Base.ZUtil Base.FastArith Model.Outcome Model.Codec Model.Sha512 Model.Exec Model.Ristretto Model.RistrettoFast Model.ExecR.
Import ListNotations.
Open Scope Z_scope.
"""


def _coq_shard(args):
    wd, k, items, extra = args
    name = "cases_%d" % k
    path = os.path.join(wd, name + ".v")
    with open(path, "w") as f:
        is_r = bool(items) and items[0][0] == ("R",)
        f.write(HEADER_R if is_r else HEADER % extra)
        f.write("Definition cases : list %s := [\n" % ("rcase" if is_r else "case"))
        rows = []
        for (ctx, op, margs, expected) in items:
            if is_r:
                rows.append('  ("%s"%%string, [%s], %s)' % (op, "; ".join(coq_val(a) for a in margs), coq_val(expected)))
                continue
            k_, fl_, p_ = ctx
            rows.append('  (%s, %s, %s, "%s"%%string, [%s], %s)' % (
                k_, fl_, p_, op, "; ".join(coq_val(a) for a in margs), coq_val(expected)))
        f.write(";\n".join(rows))
        f.write("\n].\n")
        if is_r:
            f.write("Definition result := Eval vm_compute in (rmismatches K_fast PM_fast cases).\n")
        else:
            f.write("Definition result := Eval vm_compute in (mismatches cases).\n")
        f.write("Eval vm_compute in (map fst result).\n")
        f.write("Eval vm_compute in result.\n")
    t0 = time.time()
    # large literals (thousand-element lists, kilobyte scripts) need more than the default 8 MB stack in coqc's parser
    rc, out = sh(["bash", "-c", 'ulimit -s unlimited 2>/dev/null || ulimit -s 1000000 2>/dev/null; exec coqc -noglob -Q "$0" Strand "$1"', COQ, path],
                 cwd=wd, timeout=3000)
    return k, rc, out, time.time() - t0


def run_coq_cases(wd, items, shard=200, extra_imports=""):
    """items: list of (ctx_tuple, op, args, expected). Returns (mismatch list [(index, text)], error or None)."""
    os.makedirs(wd, exist_ok=True)
    for f in os.listdir(wd):
        if f.startswith("cases_"):
            os.remove(os.path.join(wd, f))
    shards = [(wd, k, items[i:i + shard], extra_imports) for k, i in enumerate(range(0, len(items), shard))]
    mism = []
    err = None
    with ThreadPoolExecutor(max_workers=16) as ex:
        for k, rc, out, dt in ex.map(_coq_shard, shards):
            if rc != 0:
                err = "coqc failed on shard %d:\n%s" % (k, out[-3000:])
                continue
            parts = out.split("     = ")
            if len(parts) < 3:
                err = "unexpected coqc output on shard %d:\n%s" % (k, out[-2000:])
                continue
            idx_txt = parts[1].split("     : ")[0]
            detail = parts[2].split("     : ")[0]
            for m in re.finditer(r"\d+", idx_txt):
                mism.append((k * shard + int(m.group(0)), detail.strip()[:4000]))
    return mism, err


def ctx_tuple(ctx):
    if ctx == "R":
        return ("R",)
    fl, p = ctx.split(":")
    flavor = {"B": "Bigint", "M": "Malachite"}[fl]
    if p == "2048":
        return ("K_fast", flavor, "P2048")
    if int(p) > 2 ** 32:
        return ("K_fast", flavor, "(mkP %s)" % p)
    return ("K_ref", flavor, "(mkP %s)" % p)


# ---------------------------------------------------------------- theorems
def check_theorems(prop_id):
    """Recompile Properties/<id>.v from scratch, collect Print Assumptions, grep for forbidden words."""
    res = {"obligations": 0, "discharged": 0, "assumptions": [], "ok": False, "log": ""}
    src = os.path.join(COQ, "Properties", prop_id + ".v")
    if not os.path.exists(src):
        res["log"] = "missing " + src
        return res
    text = open(src).read()
    names = re.findall(r"^\s*Theorem\s+(\w+)", text, re.M)
    res["obligations"] = len(names)
    res["theorems"] = names
    # forbidden constructs anywhere in the development
    bad = []
    for dp, dn, fn in os.walk(COQ):
        for f in fn:
            if f.endswith(".v") and not f.startswith("cases_"):
                t = open(os.path.join(dp, f)).read()
                t_nc = re.sub(r"\(\*.*?\*\)", "", t, flags=re.S)
                for m in FORBIDDEN.finditer(t_nc):
                    bad.append("%s: %s" % (os.path.relpath(os.path.join(dp, f), COQ), m.group(0)))
    if bad:
        res["log"] = "forbidden constructs: " + "; ".join(bad[:10])
        return res
    for ext in (".vo", ".vos", ".vok", ".glob"):
        try:
            os.remove(src[:-2] + ext)
        except FileNotFoundError:
            pass
    rc, out = sh(["coqc", "-Q", COQ, "Strand", src], cwd=COQ, timeout=1800)
    res["log"] = out[-4000:]
    if rc != 0:
        return res
    # Print Assumptions output blocks
    closed = out.count("Closed under the global context")
    axioms = []      # one entry per "Axioms:" block
    names_ax = []
    inblk = False
    for line in out.splitlines():
        if line.strip() == "Axioms:":
            inblk = True
            axioms.append([])
            continue
        if line.startswith("Closed under the global context"):
            inblk = False
            continue
        if inblk and line and not line[0].isspace():
            nm = line.split()[0].rstrip(":")
            axioms[-1].append(nm)
            names_ax.append(nm)
    res["assumptions"] = sorted(set(names_ax))
    notallowed = [a for a in names_ax if not any(w in a for w in AXIOM_ALLOW)]
    if notallowed:
        res["log"] = "assumptions not on the allow-list: " + ", ".join(sorted(set(notallowed)))
        return res
    if closed + len(axioms) < len(names):
        res["log"] = "fewer Print Assumptions outputs (%d) than theorems (%d)" % (closed + len(axioms), len(names))
        return res
    res["discharged"] = len(names)
    res["ok"] = True
    return res


# ---------------------------------------------------------------- environment handed to property modules
class Env:
    def __init__(self, prop_id, tier, seed):
        self.prop = prop_id
        self.tier = tier
        self.seed = seed
        self.rng = random.Random(seed * 1000003 + int(prop_id[1:]))
        self.t0 = time.time()
        self.violations = []       # (description, replay object)
        self.known_hits = []
        self.evaluations = 0
        self.distinct = set()
        self.samples = []
        self.hist = {}
        self.tie_cases = 0
        self.tie_mismatches = 0
        self.notes = []
        self.exhaustive = False
        self.wd = os.path.join(CACHE, "run", prop_id + os.environ.get("VERIF_RUN_TAG", ""))   # VERIF_RUN_TAG: concurrent runs of one property
        self.known = load_known()
        self._tie_round = 0
        self.r_log = []            # every ristretto (ctx "R") harness case with its output, tied by tie_ristretto()

    quick = property(lambda self: self.tier == "quick")

    def harness(self, cases, **kw):
        outs = run_harness(cases, **kw)
        for c, o in zip(cases, outs):
            if c["ctx"] == "R" and not kw.get("features"):
                self.r_log.append((c, o))
            self.evaluations += 1
            tag = c.get("tag", c["op"])
            self.hist[tag] = self.hist.get(tag, 0) + 1
            key = hashlib.sha1(json.dumps([c["ctx"], c["op"], c["args"]], sort_keys=True).encode()).hexdigest()
            if c.get("nontrivial", True):
                self.distinct.add(key)
            if len(self.samples) < 6 and self.rng.random() < 0.02 + (0.5 if len(self.samples) < 2 else 0):
                self.samples.append({"case": _short(c), "impl": _short(o)})
        return outs

    def tie(self, items, what, shard=200):
        """items: list of (harness_case, ctx, model_op, model_args, expected). Compares model and implementation in Coq.
        2048-bit cases cost seconds each (BigZ kernel): they go one per coqc process, the rest in shards."""
        if not items:
            return []
        big = [it for it in items if it[1].endswith(":2048")]
        rist = [it for it in items if it[1] == "R"]
        small = [it for it in items if not it[1].endswith(":2048") and it[1] != "R"]
        out = []
        # ristretto cases cost ~0.3 s per scalar multiplication in the model: small shards, all 16 cores
        r_shard = max(1, min(8, (len(rist) + 15) // 16))
        for group, sh_ in ((small, shard), (big, 1), (rist, r_shard)):
            if not group:
                continue
            self._tie_round += 1
            coq_items = [(ctx_tuple(ctx), op, margs, exp) for (_, ctx, op, margs, exp) in group]
            extra = " Base.FastArith Model.Params2048"
            _t = time.time()
            mism, err = run_coq_cases(os.path.join(self.wd, "tie%d" % self._tie_round), coq_items, shard=sh_, extra_imports=extra)
            if os.environ.get("VERIF_DEBUG"):
                print("[tie %s] %d cases %.1fs" % (what, len(group), time.time() - _t), file=sys.stderr)
            self.tie_cases += len(group)
            if err:
                self.violations.append(("correspondence evaluation failed (%s): %s" % (what, err[:500]),
                                        {"kind": "tie-error", "what": what, "error": err}, False))
                continue
            for idx, detail in mism:
                hc, ctx, op, margs, exp = group[idx]
                self.tie_mismatches += 1
                out.append((idx, hc, ctx, op, margs, exp, detail))
        return out

    def tie_violation(self, what, mism):
        """Default handling of model/implementation disagreements: a violation naming the correspondence."""
        if not mism:
            return
        idx, hc, ctx, op, margs, exp, detail = mism[0]
        self.violations.append((
            "correspondence %s: model and implementation disagree on %d case(s); first: ctx=%s op=%s" % (what, len(mism), ctx, op),
            {"kind": "tie", "correspondence": what, "count": len(mism), "harness_case": hc, "ctx": ctx,
             "model_op": op, "model_args": margs, "implementation_returned": exp,
             "model_mismatch_list": detail}, False))

    def violation(self, desc, replay, failing_input=True, key=None):
        """A property failure found on the implementation. key identifies the finding for known_findings."""
        if key is not None:
            for k in self.known:
                if k.get("property") == self.prop and k.get("status") == "known" and k.get("key") == key:
                    self.known_hits.append((k, desc))
                    return
        self.violations.append((desc, replay, failing_input))

    def note(self, s):
        self.notes.append(s)


def tie_ristretto(env):
    """Compare every logged ristretto case with the Gallina ristretto model (budgeted, op-balanced)."""
    from props import rist
    if not env.r_log:
        return
    budget = float(os.environ.get("VERIF_R_BUDGET", "300" if env.quick else "4000"))
    items, skipped, spent = rist.select(env.r_log, budget)
    ops = {}
    for it in items:
        ops[it[2]] = ops.get(it[2], 0) + 1
    env.note("ristretto model correspondence: %d of %d logged R cases tied (budget %.0f scalar-mult units, spent %.0f, %d over budget); ops: %s"
             % (len(items), len(env.r_log), budget, spent, skipped, json.dumps(ops, sort_keys=True)))
    env.hist["ristretto-model-tie"] = len(items)
    mism = env.tie(items, "%s-ristretto" % env.prop)
    env.tie_violation("%s-ristretto (Model/Ristretto.v, Model/RBackend.v vs curve25519-dalek through strand)" % env.prop, mism)


def _short(o, n=400):
    s = json.dumps(o)
    if len(s) > n:
        return s[:n] + "..."
    return o


def load_known():
    p = os.path.join(ROOT, "known_findings.json")
    if os.path.exists(p):
        return json.load(open(p)).get("findings", [])
    return []


def finish(env, thm, trusted_base, rule, extra_cov=None, assumptions=None):
    """Print verdict lines, write evidence, return exit code."""
    OUT = os.environ.get("VERIF_OUT", ROOT)     # scratch runs (seeded-change trials) must not overwrite committed evidence
    os.makedirs(os.path.join(OUT, "evidence"), exist_ok=True)
    os.makedirs(os.path.join(OUT, "replays"), exist_ok=True)
    rc = 0
    for k, desc in env.known_hits:
        print("KNOWN-FINDING: property=%s %s" % (env.prop, k.get("what", desc)))
    vio = list(env.violations)
    if not thm["ok"]:
        vio.append(("theorem file Properties/%s.v no longer checks: %s" % (env.prop, thm["log"][-600:]),
                    {"kind": "theorem", "file": "coq/Properties/%s.v" % env.prop, "theorems": thm.get("theorems", []),
                     "log": thm["log"][-3000:]}, False))
    # failing inputs first
    vio.sort(key=lambda v: 0 if v[2] else 1)
    have_failing_input = any(v[2] for v in vio)
    for i, (desc, replay, failing) in enumerate(vio):
        h = hashlib.sha1(json.dumps(replay, sort_keys=True, default=str).encode()).hexdigest()[:10]
        path = os.path.join(OUT, "replays", "%s-%s.json" % (env.prop, h))
        with open(path, "w") as f:
            json.dump({"property": env.prop, "description": desc, "seed": env.seed, "tier": env.tier,
                       "replay": replay}, f, indent=1, default=str)
        if failing:
            print("VIOLATION property=%s replay=%s" % (env.prop, path))
        elif not have_failing_input:
            print("VIOLATION property=%s replay=%s no-failing-input-found" % (env.prop, path))
        else:
            print("NOTE: also broken: %s (replay=%s)" % (desc[:200], path))
        print("  " + desc[:1000])
        rc = 1
    cov = {
        "obligations": thm["obligations"],
        "discharged": thm["discharged"],
        "checker_cmd": "make -C /verif/coq (coqc 8.16.1, full .vo) ; coqc -Q /verif/coq Strand coq/Properties/%s.v (Print Assumptions captured)" % env.prop,
        "trusted_base": trusted_base,
        "theorems": thm.get("theorems", []),
        "print_assumptions": thm["assumptions"] or ["Closed under the global context"],
        "evaluations": env.evaluations,
        "distinct_nontrivial": len(env.distinct),
        "rule": rule,
        "samples": env.samples[:6] or [{"note": "no sampled case"}],
        "correspondence_cases": env.tie_cases,
        "correspondence_mismatches": env.tie_mismatches,
        "input_distribution": env.hist,
        "exhaustive": bool(env.exhaustive),
        "notes": env.notes,
    }
    if extra_cov:
        cov.update(extra_cov)
    ev = {
        "property_id": env.prop,
        "tier": env.tier,
        "seed": env.seed,
        "level": "proof",
        "coverage": cov,
        "assumptions": assumptions or [],
        "wall_s": round(time.time() - env.t0, 2),
        "violations": len(vio),
    }
    with open(os.path.join(OUT, "evidence", env.prop + ".json"), "w") as f:
        json.dump(ev, f, indent=1)
    if rc == 0:
        print("OK property=%s tier=%s theorems=%d/%d tie_cases=%d evaluations=%d wall=%.1fs" % (
            env.prop, env.tier, thm["discharged"], thm["obligations"], env.tie_cases, env.evaluations,
            time.time() - env.t0))
    return rc
