# C02 — a shuffle outputs exactly a re-encrypted permutation of its inputs
import itertools
from props.util import *
from props import shuf

TRUSTED = BASE_TRUSTED + ["ristretto255 group laws (hypothesis); ristretto runs are implementation-only"]
RULE = ("apply_permutation for ALL permutations of N<=4 (quick) / N<=5 (thorough) and gen_shuffle with library-drawn "
        "permutations for N in {0,1,2,3,8,64} on small/16-bit/62-bit sets and N<=3 at 2048 bits, with duplicates and "
        "identity components, structured caller permutations (reversal, rotations, block rotation, 2- and 3-cycles, random) of "
        "N in {33,40,100,257} (thorough: up to 1031) and a 700 (3000) ciphertext library shuffle; outputs, returned exponents and the permutation sampler (byte-level model of rand's "
        "Fisher-Yates) compared with the Gallina model; battery on the implementation: returned perm is a permutation, "
        "outputs decrypt to the permuted multiset, cascades of 1..4 mixers preserve the plaintext multiset")


def run(env):
    r = env.rng
    specs = []
    maxn = 4 if env.quick else 5
    for fl in "BM":
        ctx = "%s:23" % fl
        for n in range(0, maxn + 1):
            for k, pm in enumerate(itertools.permutations(range(n))):
                specs.append({"ctx": ctx, "n": n, "perm": list(pm), "dup": k % 3 == 1, "identity": k % 4 == 2, "sk": 1 + k % 10})
        for pstr, ns in (("2039", [0, 1, 2, 8]), ("65267", [3, 8, 64 if not env.quick else 20]), (str(P62), [1, 2, 8, 64 if not env.quick else 16]), ("2048", [2] if env.quick else [1, 3])):
            for n in ns:
                specs.append({"ctx": "%s:%s" % (fl, pstr), "n": n, "perm": None, "dup": n % 2 == 0})
    # larger caller permutations of structured classes (reversal, rotations, block rotation, many cycles, random) and one
    # big library-drawn shuffle: position relation and multiset checked on the implementation, N <= 100 also in the model
    def perm_classes(n):
        rev = list(range(n - 1, -1, -1)); rot1 = list(range(1, n)) + [0]; half = n // 2
        blk = list(range(half, n)) + list(range(half)); pairs = [i ^ 1 if (i ^ 1) < n else i for i in range(n)]
        three = [(i // 3) * 3 + (i + 1) % 3 if (i // 3) * 3 + 2 < n else i for i in range(n)]
        rnd = list(range(n)); r.shuffle(rnd)
        return [rev, rot1, blk, pairs, three, rnd]
    for fl in "BM":
        for n in ((33, 40, 100, 257) if env.quick else (33, 40, 65, 100, 129, 257, 1031)):
            for k, pm in enumerate(perm_classes(n)):
                if env.quick and n > 100 and k not in (0, 2, 5):
                    continue
                specs.append({"ctx": "%s:2039" % fl, "n": n, "perm": pm, "dup": False, "_notie": n > 100})
        specs.append({"ctx": "%s:2039" % fl, "n": 700 if env.quick else 3000, "perm": None, "dup": True, "_notie": True})
    env.exhaustive = True
    items = shuf.make_statements(env, specs)

    # battery: decrypt inputs and outputs, compare multisets; perm is a permutation
    dec = []
    for sp in specs:
        if sp.get("_bad"): continue
        if sorted(int(x) for x in sp["_perm"]) != list(range(sp["n"])):
            env.violation("returned permutation is not a permutation of 0..%d on %s: %s" % (sp["n"], sp["ctx"], sp["_perm"]), {"kind": "battery", "case": sp["ctx"]})
        if len(sp["_out"]) != sp["n"] or len(sp["_rs"]) != sp["n"]:
            env.violation("shuffle output/exponent count differs from input count on %s" % sp["ctx"], {"kind": "battery", "case": {"ctx": sp["ctx"], "n": sp["n"]}})
        if sp["ctx"].endswith("2048") and env.quick:
            continue
        for c in sp["_es"]:
            dec.append({"ctx": sp["ctx"], "op": "decrypt", "args": [str(sp["_sk"]), c], "tag": "decrypt-in", "_sp": id(sp), "_side": 0})
        for c in sp["_out"]:
            dec.append({"ctx": sp["ctx"], "op": "decrypt", "args": [str(sp["_sk"]), c], "tag": "decrypt-out", "_sp": id(sp), "_side": 1})
    do = env.harness(dec)
    by = {}
    for c, o in zip(dec, do):
        by.setdefault(c["_sp"], ([], []))[c["_side"]].append(o)
    for sp in specs:
        if id(sp) in by:
            a, b = by[id(sp)]
            if sorted(a) != sorted(b):
                env.violation("shuffle on %s (N=%d) changes the multiset of plaintexts" % (sp["ctx"], sp["n"]),
                              {"kind": "battery", "case": {"ctx": sp["ctx"], "op": "apply_permutation", "args": [sp["_pk"], sp["_perm"], sp["_es"], "script"]}, "in": a, "out": b})
            if sp.get("perm") is not None:
                # position relation: output k decrypts like input perm[k]
                if [a[int(i)] for i in sp["_perm"]] != b:
                    env.violation("output k is not a re-encryption of input perm[k] on %s perm=%s" % (sp["ctx"], sp["_perm"]),
                                  {"kind": "battery", "case": {"ctx": sp["ctx"], "perm": sp["_perm"], "es": sp["_es"]}})
    # cascades
    for fl in "BM":
        for pstr in ("2039", str(P62)):
            ctx = "%s:%s" % (fl, pstr); p, q, g = pq(ctx)
            sk = r.randrange(q); pk = str(pow(g, sk, p))
            cur = [[str(rnd_member(r, ctx)), str(rnd_member(r, ctx))] for _ in range(6)]
            first = cur
            for k in range(1, 5):
                o = env.harness([{"ctx": ctx, "op": "gen_shuffle", "args": [pk, cur, script(r, 4096)], "tag": "cascade"}])[0]
                cur = o[0]
                d = env.harness([{"ctx": ctx, "op": "decrypt", "args": [str(sk), c], "tag": "cascade"} for c in first + cur])
                if sorted(d[:6]) != sorted(d[6:]):
                    env.violation("cascade of %d shuffles changes the plaintext multiset on %s" % (k, ctx), {"kind": "battery", "case": {"ctx": ctx, "k": k}})
    fails = env.tie(items, "C02", shard=100)
    # ristretto
    L = 2 ** 252 + 27742317777372353535851937790883648493
    pk = env.harness([{"ctx": "R", "op": "pk_of_sk", "args": ["4242"]}])[0]
    for n in (0, 1, 5):
        els = env.harness([{"ctx": "R", "op": "gpow", "args": [str(r.randrange(L))]} for _ in range(2 * n)]) if n else []
        es = [[els[2 * i], els[2 * i + 1]] for i in range(n)]
        o = env.harness([{"ctx": "R", "op": "gen_shuffle", "args": [pk, es, script(r, 200 * n + 512)], "tag": "ristretto"}])[0]
        if not isinstance(o, list):
            env.violation("ristretto gen_shuffle failed N=%d: %s" % (n, o), {"kind": "battery", "case": {"n": n}}); continue
        d = env.harness([{"ctx": "R", "op": "decrypt", "args": ["4242", c], "tag": "ristretto"} for c in es + o[0]])
        if sorted(d[:n]) != sorted(d[n:]) or sorted(o[2]) != list(range(n)):
            env.violation("ristretto shuffle changes plaintext multiset or perm invalid, N=%d" % n, {"kind": "battery", "case": {"n": n}})
    if fails:
        env.tie_violation("C02", fails)
