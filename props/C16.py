# C16 — Fiat-Shamir challenges are deterministic, conformant and bind every input
from props.util import *
from props import shuf, wire

TRUSTED = BASE_TRUSTED + ["'changes the challenge' / 'pairwise distinct' are SHA-512-mod-q collision statements: proved as reductions (equal challenges => equal transcript items or an explicit collision), never assumed; the battery observes them on the implementation",
                          "the 32-bit usize counter width (wasm32) cannot be exhibited here (only x86_64 target installed); the model fixes 8 bytes"]
RULE = ("hash_to_exp on byte strings of length 0..300 (block boundaries 111,112,127,128,239,240) on every parameter set and both "
        "byte orders; Schnorr / Chaum-Pedersen / ciphertext-bound challenges read off prover outputs; the shuffle's per-ciphertext "
        "challenges (N up to 64; 1000 in thorough) and final challenge through the hook — all equal to the Gallina SHA-512 over "
        "the model transcript; each evaluated again in a fresh process; battery: every single-item perturbation of every transcript "
        "changes the implementation's challenge, per-index challenges pairwise distinct"
        " Added in session 3: every sigma challenge recomputed with hashlib from the documented transcript;")


def ref_map_bytes(entries):
    """borsh of HashMap<String, Vec<u8>>: u32 count, then (key, value) pairs sorted by key, each length-prefixed."""
    import struct
    out = struct.pack("<I", len(entries))
    for k in sorted(entries):
        out += wire.vec_u8(k) + wire.vec_u8(entries[k])
    return out


def ref_challenge(ctx, entries):
    """the documented Fiat-Shamir challenge: SHA-512 of the sorted-map encoding, as an integer (LE num-bigint, BE malachite) mod q"""
    import hashlib
    P_, q_, g_ = pq(ctx)
    return int.from_bytes(hashlib.sha512(ref_map_bytes(entries)).digest(), "little" if ctx[0] == "B" else "big") % q_


def run(env):
    r = env.rng
    items = []
    cases = []
    lens = [0, 1, 2, 55, 63, 64, 111, 112, 113, 127, 128, 129, 239, 240, 241, 300] + ([1000, 4096] if not env.quick else [])
    ctxs = ["%s:%s" % (fl, p) for fl in "BM" for p in ("23", "65267", str(P62), "2048")]
    for ctx in ctxs:
        for n in lens:
            cases.append({"ctx": ctx, "op": "hash_to_exp", "args": [hexb(r.randbytes(n))], "tag": "hash_to_exp/%d" % n})
    outs = env.harness(cases)
    items += [(c, c["ctx"], c["op"], c["args"], o) for c, o in zip(cases, outs)]
    # sigma challenges through the provers (the challenge is a field of the proof)
    st = []
    for ctx in ctxs:
        P_, q_, g_ = pq(ctx)
        for lab in ("x:", "x:6c", hexb(r.randbytes(200))):
            x = r.randrange(q_); g2 = rnd_member(r, ctx); m = rnd_member(r, ctx)
            st.append({"ctx": ctx, "op": "schnorr_prove", "args": [str(x), str(pow(g_, x, P_)), None, lab, script(r, 1024)], "tag": "schnorr"})
            st.append({"ctx": ctx, "op": "cp_prove", "args": [str(x), str(pow(g_, x, P_)), str(pow(g2, x, P_)), None, str(g2), lab, script(r, 1024)], "tag": "cp"})
            st.append({"ctx": ctx, "op": "popk", "args": [str(x), str(m), str(pow(g_, x, P_)), lab, script(r, 1024)], "tag": "popk"})
    so = env.harness(st)
    pert = []
    for c, o in zip(st, so):
        a = c["args"]; ctx = c["ctx"]; P_, q_, g_ = pq(ctx)
        # independent recomputation with hashlib (a failing input when the implementation departs from the documented transcript)
        if isinstance(o, list) and isinstance(o[0], list):
            fl = ctx[0]; E_ = lambda v: wire.ser_int(fl, int(v)); lab = wire.unhx(a[5] if c["op"] == "cp_prove" else a[3])
            if c["op"] == "schnorr_prove":
                want = ref_challenge(ctx, {b"g": E_(g_), b"public": E_(a[1]), b"commitment": E_(o[0][0]), b"context": ref_map_bytes({b"label": lab})}); got = o[0][1]
            elif c["op"] == "cp_prove":
                want = ref_challenge(ctx, {b"g1": E_(g_), b"g2": E_(a[4]), b"public1": E_(a[1]), b"public2": E_(a[2]), b"commitment1": E_(o[0][0]),
                                           b"commitment2": E_(o[0][1]), b"context": ref_map_bytes({b"label": lab})}); got = o[0][2]
            else:
                want = ref_challenge(ctx, {b"g": E_(g_), b"public": E_(a[2]), b"commitment": E_(o[0][0]),
                                           b"context": ref_map_bytes({b"label": wire.vec_u8(lab), b"mhr": E_(a[1])})}); got = o[0][1]
            if str(want) != str(got):
                env.violation("%s challenge on %s is not SHA-512 of the documented transcript reduced mod q: proof carries %s, reference %s" % (c["op"], ctx, str(got)[:40], str(want)[:40]),
                              {"kind": "battery", "case": c, "out": o[0], "reference_challenge": str(want)})
        if c["op"] == "schnorr_prove":
            items.append((c, ctx, "schnorr_prove_r", a[:4] + o[1][:1], o[0]))
            # same nonce, one statement item changed => different challenge (observed on the implementation)
            base = o[0][1]
            for k, v in ((1, str((int(a[1]) * g_) % P_)), (3, a[3] + "00"), (2, str(pow(g_, 3, P_)))):
                aa = list(a); aa[k] = v
                pert.append(({"ctx": ctx, "op": "schnorr_prove", "args": aa, "tag": "perturb-schnorr"}, base, c))
        elif c["op"] == "cp_prove":
            items.append((c, ctx, "cp_prove_r", a[:6] + o[1][:1], o[0]))
            base = o[0][2]
            for k, v in ((1, str((int(a[1]) * g_) % P_)), (2, str((int(a[2]) * g_) % P_)), (4, str((int(a[4]) * g_) % P_)), (5, a[5] + "ff")):
                aa = list(a); aa[k] = v
                pert.append(({"ctx": ctx, "op": "cp_prove", "args": aa, "tag": "perturb-cp"}, base, c))
        else:
            items.append((c, ctx, "popk_r", a[:4] + o[1][:1], o[0]))
            base = o[0][1]
            aa = list(a); aa[1] = str((int(a[1]) * g_) % P_)
            pert.append(({"ctx": ctx, "op": "popk", "args": aa, "tag": "perturb-popk"}, base, c))
    po = env.harness([p[0] for p in pert])
    for (pc, base, src), o in zip(pert, po):
        ch = o[0][2] if pc["op"] == "cp_prove" else o[0][1]
        big = pc["ctx"].endswith("2048") or int(pc["ctx"].split(":")[1]) > 2 ** 60
        if big and ch == base:
            env.violation("changing one transcript item does not change the %s challenge on %s" % (pc["op"], pc["ctx"]), {"kind": "battery", "case": [src, pc]})
    # shuffle challenges
    specs = []
    for fl in "BM":
        specs.append({"ctx": "%s:23" % fl, "n": 3, "perm": None, "label": "x:"})
        specs.append({"ctx": "%s:%s" % (fl, P62), "n": 8 if env.quick else 64, "perm": None, "label": "x:616263"})
        specs.append({"ctx": "%s:2048" % fl, "n": 1, "perm": None, "label": "x:"})
    it2 = shuf.make_statements(env, specs)
    live = shuf.prove(env, specs, it2)
    sc = []
    for sp in live:
        fl = sp["ctx"][0]
        pf = wire.parse_proof(fl, wire.unhx(sp["_proof"]))
        cs = [str(x) for x in pf["cs"]]
        sc.append({"ctx": sp["ctx"], "op": "shuffle_us", "args": [sp["_pk"], sp["_es"], sp["_out"], cs, str(sp["n"]), sp.get("label", "x:")], "tag": "shuffle_us", "_sp": sp})
        sc.append({"ctx": sp["ctx"], "op": "shuffle_challenge", "args": [sp["_pk"], sp["_es"], sp["_out"], sp["_proof"], sp.get("label", "x:")], "tag": "shuffle_challenge", "_sp": sp})
    # the same statements under every label of the pool (empty, ASCII, padded, non-UTF-8, NUL, 65 and 140 bytes) and a
    # 4 kB label: both shuffle challenge functions against the model transcript
    for sp in live:
        if sp["ctx"].endswith("2048"):
            continue
        pf = wire.parse_proof(sp["ctx"][0], wire.unhx(sp["_proof"])); cs = [str(x) for x in pf["cs"]]
        for lab in LABEL_POOL[1:] + ["x:" + r.randbytes(4096).hex()]:
            sc.append({"ctx": sp["ctx"], "op": "shuffle_us", "args": [sp["_pk"], sp["_es"], sp["_out"], cs, str(sp["n"]), lab], "tag": "shuffle_us-labels", "_sp": sp, "_nopert": True})
            sc.append({"ctx": sp["ctx"], "op": "shuffle_challenge", "args": [sp["_pk"], sp["_es"], sp["_out"], sp["_proof"], lab], "tag": "shuffle_challenge-labels", "_sp": sp, "_nopert": True})
    sco = env.harness(sc)
    pert2 = []
    for c, o in zip(sc, sco):
        items.append((c, c["ctx"], c["op"], c["args"], o))
        if c.get("_nopert"):
            continue
        sp = c["_sp"]; P_, q_, g_ = pq(c["ctx"]); a = c["args"]
        big = c["ctx"].endswith("2048") or int(c["ctx"].split(":")[1]) > 2 ** 60
        if c["op"] == "shuffle_us":
            if big and len(set(o)) != len(o):
                env.violation("per-ciphertext challenges are not pairwise distinct on %s" % c["ctx"], {"kind": "battery", "case": c, "out": o})
            if big:
                es2 = [list(x) for x in a[1]]; es2[0][0] = str((int(es2[0][0]) * g_) % P_)
                pert2.append(({"ctx": c["ctx"], "op": "shuffle_us", "args": [a[0], es2, a[2], a[3], a[4], a[5]], "tag": "perturb-us"}, o, c))
                pert2.append(({"ctx": c["ctx"], "op": "shuffle_us", "args": [a[0], a[1], a[2], a[3], a[4], a[5] + "01"], "tag": "perturb-us"}, o, c))
                cs2 = list(a[3]); cs2[-1] = str((int(cs2[-1]) * g_) % P_)
                pert2.append(({"ctx": c["ctx"], "op": "shuffle_us", "args": [a[0], a[1], a[2], cs2, a[4], a[5]], "tag": "perturb-us"}, o, c))
        elif big:
            pert2.append(({"ctx": c["ctx"], "op": "shuffle_challenge", "args": [str((int(a[0]) * g_) % P_), a[1], a[2], a[3], a[4]], "tag": "perturb-c"}, o, c))
            pert2.append(({"ctx": c["ctx"], "op": "shuffle_challenge", "args": [a[0], a[1], a[2], a[3], a[4] + "7a"], "tag": "perturb-c"}, o, c))
            pfm = wire.parse_proof(c["ctx"][0], wire.unhx(a[3])); pfm["t_hats"][-1] = (pfm["t_hats"][-1] * g_) % P_
            pert2.append(({"ctx": c["ctx"], "op": "shuffle_challenge", "args": [a[0], a[1], a[2], wire.hx(wire.proof_bytes(c["ctx"][0], pfm)), a[4]], "tag": "perturb-c"}, o, c))
    p2o = env.harness([p[0] for p in pert2])
    for (pc, base, src), o in zip(pert2, p2o):
        items.append((pc, pc["ctx"], pc["op"], pc["args"], o))
        same = (o == base) if pc["op"] == "shuffle_challenge" else any(x == y for x, y in zip(o, base))
        if same:
            env.violation("a perturbed shuffle statement keeps a challenge on %s (%s)" % (pc["ctx"], pc["tag"]), {"kind": "battery", "case": [src, pc]})
    # many per-index challenges, past the 8/16-bit counter boundaries: all pairwise distinct (battery) and the ones
    # around the boundaries equal to the model's (the model evaluates only the selected indices)
    for fl in "BM":
        ctx = "%s:%s" % (fl, P62); P_, q_, g_ = pq(ctx)
        n = 66000 if env.quick else 200000
        es = [["1", "1"]] * 2
        c = {"ctx": ctx, "op": "shuffle_us", "args": ["4", es, es, ["4", "16"], str(n), "x:"], "tag": "many-us", "nontrivial": True}
        o = env.harness([c])[0]
        if not isinstance(o, list) or len(o) != n:
            env.violation("shuffle_us(n=%d) failed on %s: %s" % (n, ctx, str(o)[:60]), {"kind": "battery", "case": c}); continue
        if len(set(o)) != n:
            seen = {}
            for i, u in enumerate(o):
                if u in seen:
                    env.violation("per-index challenges u_%d and u_%d coincide (n=%d) on %s" % (seen[u], i, n, ctx),
                                  {"kind": "battery", "case": c, "i": seen[u], "j": i, "u": u})
                    break
                seen[u] = i
        idx = [0, 1, 255, 256, 257, 65535, 65536, 65537, n - 1]
        items.append((c, ctx, "shuffle_us_at", ["4", es, es, ["4", "16"], [str(i) for i in idx], "x:"], [o[i] for i in idx]))
    # determinism across fresh processes: re-run a sample one case per process
    sample = [c for c in cases[:: max(1, len(cases) // 8)]] + sc[:4]
    for c in sample:
        o1 = env.harness([c])[0]; o2 = env.harness([c])[0]
        if o1 != o2:
            env.violation("challenge differs between two fresh processes on %s" % c["ctx"], {"kind": "battery", "case": c, "out": [o1, o2]})
    fails = env.tie(items + it2, "C16", shard=150)
    # ristretto: hash_to_exp is from_bytes_mod_order_wide of the SHA-512 digest (checked against Python's hashlib)
    import hashlib
    L = 2 ** 252 + 27742317777372353535851937790883648493
    rc = [{"ctx": "R", "op": "hash_to_exp", "args": [hexb(r.randbytes(n))], "tag": "ristretto"} for n in lens[:12]]
    for c, o in zip(rc, env.harness(rc)):
        ref = int.from_bytes(hashlib.sha512(wire.unhx(c["args"][0])).digest(), "little") % L
        if int(o) != ref:
            env.violation("ristretto hash_to_exp is not SHA-512 reduced mod l (wide, little-endian)", {"kind": "battery", "case": c, "out": o})
    if fails:
        env.tie_violation("C16", fails)
